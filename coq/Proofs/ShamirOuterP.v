(* Proofs/ShamirOuterP.v — C15, statements about the outermost functions a user calls
   (ShareSet.generate_shares / ShareSet.recover_mnemonic / Share.parse on text):
     - fewer than k of the share mnemonics of one generate_shares call never yield a mnemonic,
     - share mnemonics of two generate_shares calls that differ in identifier, exponent,
       threshold, count or secret length are never combined,
     - a share mnemonic in which one to three words are replaced (by other words of the list,
       by prefix spellings of other words, or by unknown strings) is rejected by Share.parse.
   Compositions of ShamirPipelineP, ShamirChecksP, C15Glue, Rs1024Sweep, WordlistP. *)
From V Require Import Base.Prelude Base.Ints Model.Mnemonic Model.Shamir Generated.Wordlists
  Proofs.MnemonicP Proofs.WordlistP Proofs.Rs1024P Proofs.ShareCodecP Proofs.C15Glue Proofs.C14Glue
  Proofs.ShamirChecksP Proofs.FeistelP Proofs.ShamirP Proofs.ShamirPipelineP.

Local Open Scope Z_scope.

Lemma Forall2_In_r {A B} (P : A -> B -> Prop) l r b :
  Forall2 P l r -> In b r -> exists a, In a l /\ P a b.
Proof.
  induction 1 as [|x y l r Hxy F IH]; intros Hin; [destruct Hin|].
  destruct Hin as [<-|Hin].
  - exists x. split; [now left | exact Hxy].
  - destruct (IH Hin) as [a [Ha Pa]]. exists a. split; [now right | exact Pa].
Qed.

Lemma Forall2_In_l {A B} (P : A -> B -> Prop) l r a :
  Forall2 P l r -> In a l -> exists b, In b r /\ P a b.
Proof.
  induction 1 as [|x y l r Hxy F IH]; intros Hin; [destruct Hin|].
  destruct Hin as [<-|Hin].
  - exists y. split; [now left | exact Hxy].
  - destruct (IH Hin) as [b [Hb Pb]]. exists b. split; [now right | exact Pb].
Qed.

Section Outer.
  Variable sha256 : bytes -> bytes.
  Variable hmac_sha256 : bytes -> bytes -> bytes.
  Hypothesis hmac_ok : forall k m, length (hmac_sha256 k m) = 32%nat /\ bytes_ok (hmac_sha256 k m).
  Variable kdf : bytes -> bytes -> Z -> Z -> result bytes.
  Hypothesis kdf_ok : forall p s c n r, kdf p s c n = Ok r -> zlen r = n /\ bytes_ok r.

  (* what generate_shares returns: one text per data point of split_secret, and every text
     parses to the share built from that point *)
  Lemma generate_parse m k n pass e id rnd ms :
    0 <= id < 32768 -> 0 <= e < 32 -> bytes_ok rnd ->
    generate_shares sha256 hmac_sha256 kdf bip39_words slip39_words m k n pass e id rnd = Ok ms ->
    exists secret data,
      mnemonic_to_bytes sha256 bip39_words m = Ok secret /\
      (zlen secret * 8 = 128 \/ zlen secret * 8 = 256) /\
      1 <= k <= n /\ n <= 16 /\ map fst data = zrange 0 (Z.to_nat n) /\
      Forall2 (fun p txt => share_parse slip39_words txt = Ok (sh_of (zlen secret * 8) id e k n p))
              data ms.
  Proof.
    intros Hid He Hrnd Hgen. unfold generate_shares in Hgen.
    destruct (mnemonic_to_bytes sha256 bip39_words m) as [secret|] eqn:Hsec;
      cbn [bind] in Hgen; [|discriminate].
    destruct ((zlen secret * 8 =? 128) || (zlen secret * 8 =? 256)) eqn:Hnb;
      cbn [negb] in Hgen; [|discriminate].
    destruct (encrypt kdf secret id e pass) as [enc|] eqn:Hcr; cbn [bind] in Hgen; [|discriminate].
    destruct (split_secret hmac_sha256 enc k n rnd) as [data|] eqn:Hsplit;
      cbn [bind] in Hgen; [|discriminate].
    assert (Hsok : bytes_ok secret) by (eapply mnemonic_bytes_ok; exact Hsec).
    assert (Hbits : zlen secret * 8 = 128 \/ zlen secret * 8 = 256).
    { apply orb_true_iff in Hnb as [H|H]; apply Z.eqb_eq in H; [now left | now right]. }
    assert (kdf_len : forall p s c n r, kdf p s c n = Ok r -> zlen r = n).
    { intros p s c n0 r H. exact (proj1 (kdf_ok _ _ _ _ _ H)). }
    assert (Hzenc : zlen enc = zlen secret).
    { unfold encrypt in Hcr. exact (proj2 (crypt_reverse kdf kdf_len _ _ _ _ _ _ Hcr)). }
    assert (Hencok : bytes_ok enc).
    { unfold encrypt in Hcr. exact (crypt_ok kdf kdf_ok _ _ _ _ _ _ Hsok Hcr). }
    destruct (split_facts hmac_sha256 hmac_ok enc k n rnd data Hencok Hrnd Hsplit)
      as (Hkn & Hn16 & Hmap & Hfa & _).
    exists secret, data. split; [reflexivity|]. split; [exact Hbits|]. split; [exact Hkn|].
    split; [exact Hn16|]. split; [exact Hmap|].
    set (bits := zlen secret * 8) in *.
    apply mapM_inv in Hgen.
    eapply Forall2_impl_in; [|exact Hgen]. intros p txt Hp H. cbv beta in H.
    rewrite Forall_forall in Hfa. destruct (Hfa p Hp) as [Lp Bp].
    destruct (mk_share bits id e (fst p) k n 0 1 (from_be (snd p))) as [s|] eqn:M;
      [|discriminate].
    assert (Es : s = sh_of bits id e k n p).
    { apply (mk_share_sh_of bits id e k n p s M); [|exact Bp].
      unfold bits. rewrite Z.div_mul by lia. rewrite Lp. unfold zlen in *. lia. }
    assert (Wf : share_wf s) by (exact (mk_share_wf _ _ _ _ _ _ _ _ _ s M Hbits Hid He)).
    destruct (share_text_roundtrip s Wf) as [m0 [A B]].
    assert (A' : share_mnemonic slip39_words s = Ok txt) by exact H.
    rewrite A' in A. apply Ok_inj in A. subst m0. rewrite <- Es. exact B.
  Qed.

  (* FEWER THAN k: any list of fewer than k of the share mnemonics of a k-of-n
     generate_shares call (any positions, repetitions allowed, any order, any passphrase)
     is refused by recover_mnemonic *)
  Theorem pipeline_below_threshold : forall m k n pass e id rnd ms js pass',
    0 <= id < 32768 -> 0 <= e < 32 -> bytes_ok rnd ->
    generate_shares sha256 hmac_sha256 kdf bip39_words slip39_words m k n pass e id rnd = Ok ms ->
    Forall (fun j => (j < length ms)%nat) js -> Z.of_nat (length js) < k ->
    recover_mnemonic sha256 hmac_sha256 kdf bip39_words slip39_words
                     (map (fun j => nth j ms []) js) pass' = Err.
  Proof.
    intros m k n pass e id rnd ms js pass' Hid He Hrnd Hgen Hjs Hk.
    destruct (generate_parse m k n pass e id rnd ms Hid He Hrnd Hgen)
      as (secret & data & _ & _ & Hkn & _ & _ & HF).
    destruct js as [|j0 js'].
    - reflexivity.
    - set (js := j0 :: js') in *.
      set (sh := sh_of (zlen secret * 8) id e k n) in *.
      assert (Lms : length ms = length data) by (symmetry; exact (Forall2_len _ _ _ HF)).
      rewrite Forall_forall in Hjs.
      assert (Hparse : mapM (share_parse slip39_words) (map (fun j => nth j ms []) js)
                       = Ok (map sh (map (fun j => nth j data (0, [])) js))).
      { apply mapM_Forall2. rewrite map_map. apply Forall2_map_same.
        intros j Hj. apply (Forall2_nth _ data ms (0, []) [] HF). rewrite <- Lms. now apply Hjs. }
      apply (recover_mnemonic_below_threshold sha256 hmac_sha256 kdf bip39_words slip39_words
               _ pass' _ (sh (nth j0 data (0, []))) Hparse).
      + unfold js. cbn [map]. now left.
      + cbn [sh sh_of sh_gt]. unfold js in Hk. cbn [length] in Hk. lia.
      + cbn [sh sh_of sh_gt]. unfold zlen. rewrite !map_length. exact Hk.
  Qed.

  (* THE SAME SHARE TWICE: a list of two or more share mnemonics of one generate_shares call in
     which a position occurs twice is refused *)
  Theorem pipeline_duplicate_refused : forall m k n pass e id rnd ms js pass',
    0 <= id < 32768 -> 0 <= e < 32 -> bytes_ok rnd ->
    generate_shares sha256 hmac_sha256 kdf bip39_words slip39_words m k n pass e id rnd = Ok ms ->
    Forall (fun j => (j < length ms)%nat) js -> ~ NoDup js ->
    recover_mnemonic sha256 hmac_sha256 kdf bip39_words slip39_words
                     (map (fun j => nth j ms []) js) pass' = Err.
  Proof.
    intros m k n pass e id rnd ms js pass' Hid He Hrnd Hgen Hjs Hdup.
    destruct (generate_parse m k n pass e id rnd ms Hid He Hrnd Hgen)
      as (secret & data & _ & _ & Hkn & _ & Hmap & HF).
    set (sh := sh_of (zlen secret * 8) id e k n) in *.
    assert (Lms : length ms = length data) by (symmetry; exact (Forall2_len _ _ _ HF)).
    assert (Ldata : length data = Z.to_nat n).
    { rewrite <- (map_length fst data), Hmap. apply zrange_length. }
    rewrite Forall_forall in Hjs.
    assert (Hparse : mapM (share_parse slip39_words) (map (fun j => nth j ms []) js)
                     = Ok (map sh (map (fun j => nth j data (0, [])) js))).
    { apply mapM_Forall2. rewrite map_map. apply Forall2_map_same.
      intros j Hj. apply (Forall2_nth _ data ms (0, []) [] HF). rewrite <- Lms. now apply Hjs. }
    unfold recover_mnemonic. rewrite Hparse. cbn [bind].
    rewrite duplicate_index_refused; [reflexivity | |].
    - unfold zlen. rewrite !map_length. destruct js as [|a [|b js']]; cbn [length]; try lia;
        exfalso; apply Hdup; repeat constructor; intros [].
    - intros Hnd. apply Hdup. rewrite !map_map in Hnd. cbn [sh sh_of sh_gi sh_mi] in Hnd.
      apply (NoDup_map_inv (fun j => (fst (nth j data (0, [])), 0))). exact Hnd.
  Qed.

  (* DIFFERENT SPLITS NEVER MIX: a list of share mnemonics that contains a share of each of
     two generate_shares calls differing in identifier, exponent, threshold, count or secret
     length is refused by recover_mnemonic, whatever else the list contains *)
  Theorem pipeline_mixed_refused : forall m1 k1 n1 pass1 e1 id1 rnd1 ms1
                                         m2 k2 n2 pass2 e2 id2 rnd2 ms2 ts t1 t2 pass,
    0 <= id1 < 32768 -> 0 <= e1 < 32 -> bytes_ok rnd1 ->
    0 <= id2 < 32768 -> 0 <= e2 < 32 -> bytes_ok rnd2 ->
    generate_shares sha256 hmac_sha256 kdf bip39_words slip39_words m1 k1 n1 pass1 e1 id1 rnd1 = Ok ms1 ->
    generate_shares sha256 hmac_sha256 kdf bip39_words slip39_words m2 k2 n2 pass2 e2 id2 rnd2 = Ok ms2 ->
    In t1 ms1 -> In t2 ms2 -> In t1 ts -> In t2 ts ->
    id1 <> id2 \/ e1 <> e2 \/ k1 <> k2 \/ n1 <> n2 \/
    (exists s1 s2, mnemonic_to_bytes sha256 bip39_words m1 = Ok s1 /\
                   mnemonic_to_bytes sha256 bip39_words m2 = Ok s2 /\ zlen s1 <> zlen s2) ->
    recover_mnemonic sha256 hmac_sha256 kdf bip39_words slip39_words ts pass = Err.
  Proof.
    intros m1 k1 n1 pass1 e1 id1 rnd1 ms1 m2 k2 n2 pass2 e2 id2 rnd2 ms2 ts t1 t2 pass
           Hid1 He1 Hrnd1 Hid2 He2 Hrnd2 G1 G2 I1 I2 T1 T2 Hdiff.
    destruct (generate_parse m1 k1 n1 pass1 e1 id1 rnd1 ms1 Hid1 He1 Hrnd1 G1)
      as (sec1 & data1 & S1 & _ & _ & _ & _ & F1).
    destruct (generate_parse m2 k2 n2 pass2 e2 id2 rnd2 ms2 Hid2 He2 Hrnd2 G2)
      as (sec2 & data2 & S2 & _ & _ & _ & _ & F2).
    destruct (Forall2_In_r _ _ _ t1 F1 I1) as (p1 & _ & P1).
    destruct (Forall2_In_r _ _ _ t2 F2 I2) as (p2 & _ & P2).
    unfold recover_mnemonic.
    destruct (mapM (share_parse slip39_words) ts) as [shares|] eqn:M; cbn [bind]; [|reflexivity].
    apply mapM_inv in M.
    destruct (Forall2_In_l _ _ _ t1 M T1) as (s1 & Hs1 & Q1).
    destruct (Forall2_In_l _ _ _ t2 M T2) as (s2 & Hs2 & Q2).
    cbv beta in P1, P2, Q1, Q2. rewrite P1 in Q1. rewrite P2 in Q2.
    apply Ok_inj in Q1. apply Ok_inj in Q2.
    rewrite (mixed_splits_refused shares s1 s2 Hs1 Hs2); [reflexivity|].
    subst s1 s2. cbn [sh_of sh_id sh_exp sh_gt sh_gc sh_bits].
    destruct Hdiff as [D|[D|[D|[D|D]]]]; [now left | right; now left | right; right; now left
      | right; right; right; now left |].
    right; right; right; right.
    destruct D as (x1 & x2 & X1 & X2 & D). rewrite S1 in X1. rewrite S2 in X2.
    apply Ok_inj in X1. apply Ok_inj in X2. subst x1 x2. lia.
  Qed.
End Outer.

(* ---------------------------------------------------------------- corrupted share texts *)

(* does the string w denote word number i of the list (the word itself or its 4-letter prefix)? *)
Definition word_is (ws : list text) (w : text) (i : Z) : bool :=
  match wl_index ws w with Ok j => j =? i | Err => false end.

(* number of positions at which the text word does not denote the expected index *)
Fixpoint word_diffs (ws : list text) (idx : list Z) (txt : list text) : nat :=
  match idx, txt with
  | i :: idx', w :: txt' => ((if word_is ws w i then 0 else 1) + word_diffs ws idx' txt')%nat
  | _, _ => O
  end.

Lemma hamming_cons a b m m' :
  hamming (a :: m) (b :: m') = ((if (a =? b)%Z then 0 else 1) + hamming m m')%nat.
Proof. unfold hamming. cbn [combine filter fst snd]. destruct (a =? b); reflexivity. Qed.

Lemma word_diffs_hamming ws : forall txt idx' idx,
  Forall2 (fun w i => wl_index ws w = Ok i) txt idx' ->
  word_diffs ws idx txt = hamming idx idx'.
Proof.
  induction txt as [|w txt IH]; intros idx' idx F; inversion F as [|? i' ? idx'' Hw F']; subst.
  - destruct idx; reflexivity.
  - destruct idx as [|i idx]; [reflexivity|].
    cbn [word_diffs]. rewrite hamming_cons. unfold word_is. rewrite Hw.
    rewrite (IH idx'' idx F'). rewrite (Z.eqb_sym i i'). reflexivity.
Qed.

(* Share.parse on text: if 1 to 3 of the words of the text denote another word than the share
   mnemonic has at that position (or no word at all), the text is rejected *)
Theorem corrupted_text_rejected : forall s m',
  share_wf s -> length (split_ws m') = length (share_indices s) ->
  (1 <= word_diffs slip39_words (share_indices s) (split_ws m') <= 3)%nat ->
  share_parse slip39_words m' = Err.
Proof.
  intros s m' Hwf Hlen Hd. unfold share_parse.
  destruct (mapM (wl_index slip39_words) (split_ws m')) as [idx'|] eqn:M; cbn [bind]; [|reflexivity].
  pose proof (mapM_length _ _ _ M) as L. apply mapM_inv in M.
  apply (corrupted_share_rejected s idx' Hwf).
  - congruence.
  - eapply Forall2_right; [|exact M]. intros w i H. cbv beta in H.
    destruct (wl_index_sound _ _ _ H) as [R _]. destruct slip39_good as [Z _]. rewrite Z in R. exact R.
  - rewrite <- (word_diffs_hamming slip39_words (split_ws m') idx' (share_indices s) M). exact Hd.
Qed.

(* the same, comparing two texts word by word: position i counts when the two words do not
   denote the same word of the list (an unknown string denotes nothing) *)
Definition same_word (ws : list text) (a b : text) : bool :=
  match wl_index ws a with Ok i => word_is ws b i | Err => false end.

Fixpoint text_diffs (ws : list text) (a b : list text) : nat :=
  match a, b with
  | x :: a', y :: b' => ((if same_word ws x y then 0 else 1) + text_diffs ws a' b')%nat
  | _, _ => O
  end.

Lemma text_diffs_word_diffs ws : forall a idx b,
  Forall2 (fun w i => wl_index ws w = Ok i) a idx -> text_diffs ws a b = word_diffs ws idx b.
Proof.
  induction a as [|x a IH]; intros idx b F; inversion F as [|? i ? idx' Hx F']; subst.
  - reflexivity.
  - destruct b as [|y b]; [reflexivity|]. cbn [text_diffs word_diffs].
    unfold same_word. rewrite Hx. now rewrite (IH idx' b F').
Qed.

(* starting from the text m that Share.mnemonic produced: every text m' with the same number
   of words of which 1 to 3 denote something else than the corresponding word of m is rejected *)
Theorem corrupted_mnemonic_rejected : forall s m m',
  share_wf s -> share_mnemonic slip39_words s = Ok m ->
  length (split_ws m') = length (split_ws m) ->
  (1 <= text_diffs slip39_words (split_ws m) (split_ws m') <= 3)%nat ->
  share_parse slip39_words m' = Err.
Proof.
  intros s m m' Hwf Hm Hlen Hd.
  destruct (share_indices_roundtrip s Hwf) as (_ & _ & Hr).
  destruct (words_roundtrip slip39_words 1024 (share_indices s) slip39_good Hr) as [l [E1 [E2 E3]]].
  unfold share_mnemonic in Hm. rewrite E1 in Hm. cbn [bind] in Hm. apply Ok_inj in Hm. subst m.
  rewrite E2 in *. pose proof (mapM_length _ _ _ E3) as L. apply mapM_inv in E3.
  rewrite (text_diffs_word_diffs slip39_words l (share_indices s) (split_ws m') E3) in Hd.
  apply (corrupted_text_rejected s m' Hwf); [|exact Hd]. congruence.
Qed.

Print Assumptions pipeline_below_threshold.
Print Assumptions pipeline_mixed_refused.
Print Assumptions pipeline_duplicate_refused.
Print Assumptions corrupted_text_rejected.
Print Assumptions corrupted_mnemonic_rejected.
