(* Proofs/EcdsaP.v — proofs for C01: DER codec, RFC 6979 nonce, low-S, ECDSA
   completeness and soundness (the last two under the explicit hypothesis scalar_laws). *)
From Coq Require Import Znumtheory Zdiv.
From V Require Import Base.Prelude Base.Ints Base.Fermat Model.Pecc Proofs.GroupHyp Proofs.BytesP
  Spec.Ecdsa Spec.Rfc6979.

(* ================================================================== DER *)

(* a minimal positive DER INTEGER body: non-empty, top bit clear, and a leading zero octet
   only when the next octet has its top bit set *)
Definition der_min (b : bytes) : Prop :=
  match b with
  | [] => False
  | [x] => x < 128
  | x :: y :: _ => x < 128 /\ (x = 0 -> 128 <= y)
  end.

Lemma der_strip_spec : forall b fuel,
  (length b < fuel)%nat -> bytes_ok b ->
  (exists x t, b = x :: t /\ x < 128) -> from_be b <> 0 ->
  exists b2, der_strip fuel b = Ok b2 /\ from_be b2 = from_be b /\ der_min b2 /\ bytes_ok b2 /\
             (1 <= length b2 <= length b)%nat.
Proof.
  induction b as [|x t IH]; intros fuel Hf Hok [x0 [t0 [E Hx]]] Hnz; [discriminate|].
  injection E as <- <-.
  destruct fuel as [|f]; [cbn in Hf; lia|].
  cbn [der_strip].
  destruct (x =? 0) eqn:Ex.
  - apply Z.eqb_eq in Ex. subst x.
    destruct t as [|y t'].
    + exfalso. apply Hnz. reflexivity.
    + destruct (128 <=? y) eqn:Ey.
      * apply Z.leb_le in Ey. exists (0 :: y :: t'). repeat split; cbn [length]; try assumption; try lia.
      * apply Z.leb_gt in Ey.
        apply bytes_ok_cons in Hok as [_ Hok'].
        destruct (IH f) as [b2 [H1 [H2 [H3 [H4 H5]]]]].
        { cbn [length] in *. lia. }
        { assumption. }
        { exists y, t'. split; [reflexivity|assumption]. }
        { rewrite <- from_be_zero_cons. assumption. }
        exists b2. rewrite from_be_zero_cons. repeat split; try assumption; cbn [length] in *; lia.
  - apply Z.eqb_neq in Ex. exists (x :: t).
    repeat split; try assumption; cbn [length]; try lia.
    destruct t as [|y t']; cbn [der_min]; [assumption|]. split; [assumption|]. intros; contradiction.
Qed.

Lemma der_int_spec v : 1 <= v < 2 ^ 256 ->
  exists b, der_int v = Ok (2 :: zlen b :: b) /\ from_be b = v /\ der_min b /\ bytes_ok b /\
            (1 <= length b <= 33)%nat.
Proof.
  intros Hv. unfold der_int.
  rewrite int_to_be_ok by (rewrite pow256_32; lia). cbn [bind].
  pose proof (to_be_length 32 v) as Hlen.
  pose proof (to_be_ok 32 v) as Hok.
  pose proof (from_be_to_be 32 v ltac:(rewrite pow256_32; lia)) as Hval.
  destruct (to_be 32 v) as [|b0 t] eqn:Eb; [discriminate|].
  assert (Hb0 : byte_ok b0) by (apply bytes_ok_cons in Hok; tauto).
  destruct (128 <=? b0) eqn:E128.
  - apply Z.leb_le in E128.
    change (der_strip 40 (0 :: b0 :: t)) with
      (if 0 =? 0 then (if 128 <=? b0 then Ok (0 :: b0 :: t) else der_strip 39 (b0 :: t)) else Ok (0 :: b0 :: t)).
    cbn [Z.eqb]. apply Z.leb_le in E128. rewrite E128. apply Z.leb_le in E128. cbn [bind].
    exists (0 :: b0 :: t).
    split; [reflexivity|]. split; [rewrite from_be_zero_cons; assumption|].
    split; [cbn [der_min]; split; [lia|intros _; assumption]|].
    split; [apply bytes_ok_cons; split; [unfold byte_ok; lia|assumption]|].
    cbn [length] in *. lia.
  - apply Z.leb_gt in E128.
    destruct (der_strip_spec (b0 :: t) 40) as [b2 [H1 [H2 [H3 [H4 H5]]]]].
    + rewrite Hlen. lia.
    + assumption.
    + exists b0, t. split; [reflexivity|assumption].
    + rewrite Hval. lia.
    + rewrite H1. cbn [bind]. exists b2. rewrite H2, Hval. repeat split; try assumption; try lia.
Qed.

Lemma der_parse_build rb sb :
  (1 <= length rb)%nat -> (1 <= length sb)%nat ->
  der_parse (48 :: zlen ((2 :: zlen rb :: rb) ++ (2 :: zlen sb :: sb)) ::
             (2 :: zlen rb :: rb) ++ (2 :: zlen sb :: sb)) = Ok (from_be rb, from_be sb).
Proof.
  intros Hr Hs.
  cbn [app]. unfold der_parse.
  cbn [Z.eqb Pos.eqb negb].
  set (body := 2 :: zlen rb :: rb ++ 2 :: zlen sb :: sb).
  set (sig := 48 :: zlen body :: body).
  assert (Hsig : zlen sig = zlen body + 2).
  { unfold sig, zlen. cbn [length]. lia. }
  assert (Hbody : zlen body = 4 + zlen rb + zlen sb).
  { unfold body, zlen. cbn [length]. rewrite app_length. cbn [length]. lia. }
  replace (zlen body + 2 =? zlen sig) with true by (symmetry; apply Z.eqb_eq; lia).
  cbn [negb].
  rewrite !to_nat_zlen.
  rewrite firstn_app_exact, skipn_app_exact.
  destruct (length rb =? 0)%nat eqn:E0; [apply Nat.eqb_eq in E0; lia|].
  cbn [Z.eqb Pos.eqb negb].
  rewrite !to_nat_zlen. rewrite firstn_all.
  destruct (length sb =? 0)%nat eqn:E1; [apply Nat.eqb_eq in E1; lia|].
  replace (zlen sig =? 6 + zlen rb + zlen sb) with true by (symmetry; apply Z.eqb_eq; lia).
  reflexivity.
Qed.

(* der emits the canonical encoding, and der_parse inverts it *)
Theorem der_canonical r s : 1 <= r < 2 ^ 256 -> 1 <= s < 2 ^ 256 ->
  exists rb sb,
    der r s = Ok (48 :: zlen ((2 :: zlen rb :: rb) ++ (2 :: zlen sb :: sb)) ::
                  (2 :: zlen rb :: rb) ++ (2 :: zlen sb :: sb)) /\
    from_be rb = r /\ from_be sb = s /\ der_min rb /\ der_min sb /\
    bytes_ok rb /\ bytes_ok sb /\ (1 <= length rb <= 33)%nat /\ (1 <= length sb <= 33)%nat.
Proof.
  intros Hr Hs.
  destruct (der_int_spec r Hr) as [rb [R1 [R2 [R3 [R4 R5]]]]].
  destruct (der_int_spec s Hs) as [sb [S1 [S2 [S3 [S4 S5]]]]].
  exists rb, sb. unfold der. rewrite R1, S1. cbn [bind]. repeat split; try assumption; lia.
Qed.

Theorem der_roundtrip r s : 1 <= r < 2 ^ 256 -> 1 <= s < 2 ^ 256 ->
  exists b, der r s = Ok b /\ der_parse b = Ok (r, s).
Proof.
  intros Hr Hs.
  destruct (der_canonical r s Hr Hs) as [rb [sb [E [R2 [S2 [_ [_ [_ [_ [R5 S5]]]]]]]]]].
  eexists. split; [exact E|]. rewrite der_parse_build by lia. now rewrite R2, S2.
Qed.

(* error branches of the encoder: 0 (IndexError in the stripping loop), negative and
   >= 2^256 (OverflowError in int.to_bytes) *)
Lemma der_int_err v : v <= 0 \/ 2 ^ 256 <= v -> der_int v = Err.
Proof.
  intros H. destruct (Z.eq_dec v 0) as [->|Hne]; [reflexivity|].
  unfold der_int. rewrite int_to_be_err; [reflexivity|]. rewrite pow256_32. lia.
Qed.

Theorem der_err r s : r <= 0 \/ 2 ^ 256 <= r \/ s <= 0 \/ 2 ^ 256 <= s -> der r s = Err.
Proof.
  intros H. unfold der.
  destruct (Z_le_gt_dec r 0); [rewrite der_int_err by lia; reflexivity|].
  destruct (Z_le_gt_dec (2 ^ 256) r); [rewrite der_int_err by lia; reflexivity|].
  destruct (der_int r); [|reflexivity]. cbn [bind].
  rewrite der_int_err by lia. reflexivity.
Qed.

(* ================================================================== RFC 6979 *)

Section Nonce.
Variable C : curve.
Variable hmac : bytes -> bytes -> bytes.
Let n := cn C.

Definition opt_res {A} (o : option A) : result A := match o with Some a => Ok a | None => Err end.

Lemma bits2int_from_be b : bits2int b = from_be b.
Proof. apply horner0_from_be. Qed.

Lemma det_k_loop_eq fuel K V :
  det_k_loop C hmac fuel K V = opt_res (step_h n hmac fuel K V).
Proof.
  revert K V. induction fuel as [|f IH]; intros K V; [reflexivity|].
  cbn [det_k_loop step_h]. rewrite bits2int_from_be. fold n.
  replace (from_be (hmac K V) <=? n - 1) with (from_be (hmac K V) <? n).
  2:{ destruct (from_be (hmac K V) <? n) eqn:E1; destruct (from_be (hmac K V) <=? n - 1) eqn:E2;
      try reflexivity; lia. }
  destruct ((1 <=? from_be (hmac K V)) && (from_be (hmac K V) <? n)); [reflexivity|].
  apply IH.
Qed.

(* general form: for every z in [0, 2n) the model feeds int2octets(z mod n) to the DRBG *)
Theorem det_k_eq_generate fuel d z :
  0 < n <= 2 ^ 256 -> 0 <= d < 2 ^ 256 -> 0 <= z < 2 * n ->
  deterministic_k C hmac fuel d z =
  opt_res (generate_from n hmac fuel (int2octets d) (int2octets (z mod n))).
Proof.
  intros Hn Hd Hz. unfold deterministic_k, generate_from. fold n.
  assert (Hz1 : (if n <=? z then z - n else z) = z mod n).
  { destruct (n <=? z) eqn:E.
    - apply Z.leb_le in E. apply Zmod_unique with 1; lia.
    - symmetry. apply Z.mod_small. lia. }
  rewrite Hz1.
  pose proof (Z.mod_pos_bound z n ltac:(lia)) as Hb.
  rewrite int_to_be_ok by (rewrite pow256_32; lia). cbn [bind].
  rewrite int_to_be_ok by (rewrite pow256_32; lia). cbn [bind].
  apply det_k_loop_eq.
Qed.

(* the statement of the property: digests are 32-byte strings, i.e. integers in [0, 2^256) *)
Theorem det_k_eq_rfc6979 fuel d z :
  0 < n <= 2 ^ 256 -> 2 ^ 256 <= 2 * n -> 0 <= d < 2 ^ 256 -> 0 <= z < 2 ^ 256 ->
  deterministic_k C hmac fuel d z = opt_res (rfc6979_k n hmac fuel d (to_be 32 z)).
Proof.
  intros Hn Hn2 Hd Hz. unfold rfc6979_k, bits2octets.
  rewrite bits2int_from_be, from_be_to_be by (rewrite pow256_32; lia).
  apply det_k_eq_generate; lia.
Qed.

(* outside the representable range the implementation raises (OverflowError) *)
Theorem det_k_err fuel d z :
  0 < n -> z < 0 \/ 2 ^ 256 + n <= z \/ d < 0 \/ 2 ^ 256 <= d -> n <= 2 ^ 256 ->
  deterministic_k C hmac fuel d z = Err.
Proof.
  intros Hn H Hn2. unfold deterministic_k. fold n.
  destruct (Z_lt_ge_dec z 0).
  { replace (n <=? z) with false by (symmetry; apply Z.leb_gt; lia).
    rewrite int_to_be_err; [reflexivity|lia]. }
  destruct (Z_le_gt_dec (2 ^ 256 + n) z).
  { replace (n <=? z) with true by (symmetry; apply Z.leb_le; lia).
    rewrite int_to_be_err; [reflexivity|rewrite pow256_32; lia]. }
  destruct (int_to_be (if n <=? z then z - n else z) 32); [|reflexivity]. cbn [bind].
  rewrite int_to_be_err; [reflexivity|rewrite pow256_32; lia].
Qed.

Lemma det_k_loop_range fuel K V k : det_k_loop C hmac fuel K V = Ok k -> 1 <= k < n.
Proof.
  revert K V. induction fuel as [|f IH]; intros K V E; cbn [det_k_loop] in E; [discriminate|].
  fold n in E.
  destruct ((1 <=? from_be (hmac K V)) && (from_be (hmac K V) <? n))%bool eqn:Eb.
  - injection E as <-. apply andb_true_iff in Eb. lia.
  - eapply IH. eassumption.
Qed.

Theorem det_k_range fuel d z k : deterministic_k C hmac fuel d z = Ok k -> 1 <= k < n.
Proof.
  unfold deterministic_k. intros E.
  destruct (int_to_be _ 32) as [zb|]; cbn [bind] in E; [|discriminate].
  destruct (int_to_be d 32) as [sb|]; cbn [bind] in E; [|discriminate].
  eapply det_k_loop_range. eassumption.
Qed.

End Nonce.

(* ================================================================== low S *)

Section LowS.
Variable C : curve.
Let n := cn C.

Lemma low_s_norm s0 : n mod 2 = 1 -> 0 <= s0 < n ->
  let s := if n / 2 <? s0 then n - s0 else s0 in
  s <> 0 -> 1 <= s <= (n - 1) / 2.
Proof.
  intros Hodd Hs0 s Hnz.
  assert (Hn : n = 2 * (n / 2) + 1) by (rewrite <- Hodd; apply Z_div_mod_eq_full).
  assert (Hh : (n - 1) / 2 = n / 2).
  { replace (n - 1) with ((n / 2) * 2) by lia. apply Z.div_mul. lia. }
  rewrite Hh. unfold s in *. destruct (n / 2 <? s0) eqn:E; lia.
Qed.

Theorem sign_k_low_s d z k r s : n mod 2 = 1 -> 0 < n ->
  ecdsa_sign_k C d z k = Ok (r, s) -> s <> 0 -> 1 <= s <= (n - 1) / 2.
Proof.
  intros Hodd Hn H Hnz. unfold ecdsa_sign_k in H.
  destruct (rmul C k (G C)) as [[[x y]|]|]; cbn [bind] in H; try discriminate.
  injection H as <- <-. fold n in Hnz |- *.
  apply low_s_norm; [assumption| |assumption].
  apply Z.mod_pos_bound. assumption.
Qed.

Theorem sign_low_s hmac fuel d z r s : n mod 2 = 1 -> 0 < n ->
  ecdsa_sign C hmac fuel d z = Ok (r, s) -> s <> 0 -> 1 <= s <= (n - 1) / 2.
Proof.
  intros Hodd Hn H Hnz. unfold ecdsa_sign in H.
  destruct (deterministic_k C hmac fuel d z) as [k|]; cbn [bind] in H; [|discriminate].
  eapply sign_k_low_s; eassumption.
Qed.

End LowS.

(* ================================================================== ECDSA over the group *)

From Coq Require Import Setoid Morphisms.
Local Existing Instance eqm_setoid.
Local Existing Instance Zplus_eqm.
Local Existing Instance Zmult_eqm.
Local Existing Instance Zminus_eqm.
Local Existing Instance Zopp_eqm.

(* the range check needs no group hypothesis: verify never answers True outside [1, n-1]^2 *)
Theorem verify_range C P z r s :
  ecdsa_verify C P z r s = Ok true -> 1 <= r < cn C /\ 1 <= s < cn C.
Proof.
  unfold ecdsa_verify.
  destruct (r <? 1) eqn:E1; destruct (cn C <=? r) eqn:E2; destruct (s <? 1) eqn:E3;
    destruct (cn C <=? s) eqn:E4; cbn [orb]; try discriminate.
  intros _. lia.
Qed.

Theorem verify_out_of_range C P z r s :
  r < 1 \/ cn C <= r \/ s < 1 \/ cn C <= s -> ecdsa_verify C P z r s = Ok false.
Proof.
  intros H. unfold ecdsa_verify.
  destruct (r <? 1) eqn:E1; destruct (cn C <=? r) eqn:E2; destruct (s <? 1) eqn:E3;
    destruct (cn C <=? s) eqn:E4; cbn [orb]; try reflexivity. lia.
Qed.

Theorem ecdsa_okb_sound C Q z r s : ecdsa_okb C Q z r s = true -> ecdsa_ok C Q z r s.
Proof.
  unfold ecdsa_okb, ecdsa_ok. intros H.
  repeat (apply andb_true_iff in H; destruct H as [H ?]).
  match goal with H1 : (_ && _)%bool = true |- _ => apply andb_true_iff in H1; destruct H1 as [Hinv Hpt] end.
  assert (1 <= r < cn C) by lia. assert (1 <= s < cn C) by lia.
  split; [assumption|]. split; [assumption|].
  exists (euclid_inv C s). split.
  - split; [apply Z.mod_pos_bound; lia|]. apply Z.eqb_eq. assumption.
  - destruct (ecdsa_point C Q z r (euclid_inv C s)) as [[x y]|]; [|discriminate].
    apply Z.eqb_eq. assumption.
Qed.

Lemma eq_refl_eqm n a b : a = b -> eqm n a b.
Proof. intros ->. reflexivity. Qed.

Section Group.
Variable C : curve.
Hypothesis SL : scalar_laws C.
Let n := cn C.

Lemma n_gt2 : 2 < n.
Proof. exact (sl_n_odd C SL). Qed.

Lemma mulT_congr a b P : eqm n a b -> mulT C a P = mulT C b P.
Proof.
  intros H. rewrite <- (sl_mul_mod C SL a), <- (sl_mul_mod C SL b). unfold eqm in H. fold n.
  now rewrite H.
Qed.

Lemma mulT_valid k P : valid C P -> valid C (mulT C k P).
Proof. intros H. apply (sl_mul_ok C SL k P H). Qed.

Lemma mulT_neg k P : valid C P -> mulT C (- k) P = negT C (mulT C k P).
Proof.
  intros H. rewrite <- (sl_mul_neg1 C SL) by now apply mulT_valid.
  rewrite (sl_mul_mul C SL) by assumption. f_equal; lia.
Qed.

Lemma sinv_ok s : 1 <= s < n -> is_inv C s (modpow s (n - 2) n).
Proof.
  intros Hs. pose proof n_gt2. split.
  - apply modpow_range; lia.
  - apply fermat_inv_range; [exact (sl_n_prime C SL)|lia].
Qed.

Lemma is_inv_unique s w1 w2 : is_inv C s w1 -> is_inv C s w2 -> w1 = w2.
Proof.
  intros [R1 H1] [R2 H2]. pose proof n_gt2 as Hn. unfold n in Hn.
  pose proof (inv_unique (cn C) s w1 w2 ltac:(lia) H1 H2) as E.
  rewrite !Z.mod_small in E; assumption.
Qed.

(* what verify computes on a valid key and in-range (r, s) *)
Lemma verify_compute P z r s : valid C P -> 1 <= r < n -> 1 <= s < n ->
  ecdsa_verify C P z r s =
  Ok (match ecdsa_point C P z r (modpow s (n - 2) n) with
      | None => false
      | Some (x, _) => x mod n =? r
      end).
Proof.
  intros HP Hr Hs. unfold ecdsa_verify. fold n.
  replace ((r <? 1) || (n <=? r) || (s <? 1) || (n <=? s))%bool with false.
  2:{ symmetry. repeat (apply orb_false_iff; split); try apply Z.ltb_ge; try apply Z.leb_gt; lia. }
  unfold ecdsa_point. fold n.
  set (u := (z * modpow s (n - 2) n) mod n). set (v := (r * modpow s (n - 2) n) mod n).
  destruct (sl_mul_ok C SL u (G C) (sl_G_valid C SL)) as [E1 V1].
  destruct (sl_mul_ok C SL v P HP) as [E2 V2].
  destruct (sl_add_ok C SL _ _ V1 V2) as [E3 V3].
  rewrite E1. cbn [bind]. rewrite E2. cbn [bind]. rewrite E3. cbn [bind].
  destruct (addT C (mulT C u (G C)) (mulT C v P)) as [[x y]|]; reflexivity.
Qed.

Theorem verify_iff_ecdsa P z r s : valid C P ->
  (ecdsa_verify C P z r s = Ok true <-> ecdsa_ok C P z r s).
Proof.
  intros HP. split.
  - intros H. destruct (verify_range _ _ _ _ _ H) as [Hr Hs]. fold n in Hr, Hs.
    rewrite verify_compute in H by assumption.
    split; [assumption|]. split; [assumption|].
    exists (modpow s (n - 2) n). split; [now apply sinv_ok|].
    destruct (ecdsa_point C P z r (modpow s (n - 2) n)) as [[x y]|].
    + injection H as H. apply Z.eqb_eq. assumption.
    + discriminate.
  - intros [Hr [Hs [w [Hw H]]]]. fold n in Hr, Hs.
    rewrite verify_compute by assumption.
    rewrite (is_inv_unique s _ w (sinv_ok s Hs) Hw).
    destruct (ecdsa_point C P z r w) as [[x y]|]; [|contradiction].
    f_equal. apply Z.eqb_eq. assumption.
Qed.

(* verification never errs on a valid key *)
Theorem verify_total P z r s : valid C P -> exists b, ecdsa_verify C P z r s = Ok b.
Proof.
  intros HP.
  destruct (Z_lt_ge_dec r 1); [eexists; apply verify_out_of_range; lia|].
  destruct (Z_le_gt_dec n r); [eexists; apply verify_out_of_range; fold n; lia|].
  destruct (Z_lt_ge_dec s 1); [eexists; apply verify_out_of_range; lia|].
  destruct (Z_le_gt_dec n s); [eexists; apply verify_out_of_range; fold n; lia|].
  eexists. apply verify_compute; [assumption|lia|lia].
Qed.

(* ---------------- completeness of signing ---------------- *)

Lemma kG_not_inf k : 1 <= k < n -> mulT C k (G C) <> None.
Proof.
  intros Hk E. apply (sl_G_order C SL) in E. fold n in E. rewrite Z.mod_small in E; lia.
Qed.

Theorem sign_k_verifies d z k r s :
  1 <= d < n -> 1 <= k < n ->
  ecdsa_sign_k C d z k = Ok (r, s) ->
  r mod n <> 0 -> r < n -> s <> 0 ->
  ecdsa_verify C (mulT C d (G C)) z r s = Ok true.
Proof.
  intros Hd Hk Hsign Hr0 Hrn Hs0. pose proof n_gt2 as Hn.
  pose proof (sl_G_valid C SL) as HG.
  unfold ecdsa_sign_k in Hsign. fold n in Hsign.
  destruct (sl_mul_ok C SL k (G C) HG) as [EkG VkG]. rewrite EkG in Hsign. cbn [bind] in Hsign.
  destruct (mulT C k (G C)) as [[x y]|] eqn:EK; [|discriminate].
  injection Hsign as Hr Hs. subst r.
  set (ki := modpow k (n - 2) n) in *.
  set (s0 := ((z + x * d) * ki) mod n) in *.
  assert (Hx : 0 <= x).
  { destruct VkG as [Vx _]. unfold felem_ok in Vx. apply andb_true_iff in Vx. lia. }
  assert (Hxr : 1 <= x < n).
  { destruct (Z.eq_dec x 0) as [->|]; [rewrite Z.mod_0_l in Hr0; lia|lia]. }
  assert (Hs0r : 0 <= s0 < n) by (apply Z.mod_pos_bound; lia).
  assert (Hsr : 1 <= s < n).
  { subst s. destruct (n / 2 <? s0) eqn:Ec; [apply Z.ltb_lt in Ec; assert (0 <= n / 2) by (apply Z.div_pos; lia)|]; lia. }
  assert (Hki : eqm n (k * ki) 1).
  { unfold eqm. rewrite (Z.mod_small 1 n) by lia.
    apply fermat_inv_range; [exact (sl_n_prime C SL)|lia]. }
  set (si := modpow s (n - 2) n).
  assert (Hsi : eqm n (s * si) 1).
  { unfold eqm. rewrite (Z.mod_small 1 n) by lia. apply (sinv_ok s Hsr). }
  assert (Hs0e : eqm n s0 ((z + x * d) * ki)) by apply Zmod_eqm.
  rewrite verify_compute; [|now apply mulT_valid|assumption|assumption].
  unfold ecdsa_point. fold n. fold si.
  rewrite (sl_mul_mul C SL) by assumption.
  rewrite <- (sl_mul_add C SL) by assumption.
  set (e := (z * si) mod n + (x * si) mod n * d).
  assert (He : eqm n e ((z + x * d) * si)).
  { unfold e. rewrite !Zmod_eqm. apply eq_refl_eqm. ring. }
  assert (Hcases : eqm n e k \/ eqm n e (- k)).
  { destruct (n / 2 <? s0) eqn:Ecmp.
    - right. rewrite He.
      assert (Hsn : eqm n s (- s0)).
      { subst s. unfold eqm. replace (n - s0) with (- s0 + 1 * n) by ring. apply Z.mod_add. lia. }
      transitivity (- (k * (s * si))).
      + rewrite Hsn, Hs0e.
        transitivity ((z + x * d) * si * (k * ki)); [rewrite Hki|]; apply eq_refl_eqm; ring.
      + rewrite Hsi. apply eq_refl_eqm. ring.
    - left. rewrite He.
      transitivity (k * (s * si)).
      + subst s. rewrite Hs0e.
        transitivity ((z + x * d) * si * (k * ki)); [rewrite Hki|]; apply eq_refl_eqm; ring.
      + rewrite Hsi. apply eq_refl_eqm. ring. }
  destruct Hcases as [Hc|Hc]; rewrite (mulT_congr _ _ _ Hc).
  - rewrite EK. rewrite Z.mod_small by lia. now rewrite Z.eqb_refl.
  - rewrite mulT_neg by assumption. rewrite EK. cbn [negT].
    rewrite Z.mod_small by lia. now rewrite Z.eqb_refl.
Qed.

(* under the laws signing with a nonce in [1, n-1] never raises *)
Theorem sign_k_total d z k : 1 <= k < n -> exists r s, ecdsa_sign_k C d z k = Ok (r, s).
Proof.
  intros Hk. unfold ecdsa_sign_k.
  destruct (sl_mul_ok C SL k (G C) (sl_G_valid C SL)) as [EkG _]. rewrite EkG. cbn [bind].
  destruct (mulT C k (G C)) as [[x y]|] eqn:EK.
  - eexists. eexists. reflexivity.
  - exfalso. now apply (kG_not_inf k Hk).
Qed.

Theorem sign_verifies hmac fuel d z r s :
  1 <= d < n ->
  ecdsa_sign C hmac fuel d z = Ok (r, s) ->
  r mod n <> 0 -> r < n -> s <> 0 ->
  ecdsa_verify C (mulT C d (G C)) z r s = Ok true.
Proof.
  intros Hd H. unfold ecdsa_sign in H.
  destruct (deterministic_k C hmac fuel d z) as [k|] eqn:Ek; cbn [bind] in H; [|discriminate].
  assert (Hk : 1 <= k < n) by (eapply det_k_range; eassumption).
  intros. eapply sign_k_verifies; eassumption.
Qed.

(* ---------------- the emitted pair is the textbook signature for the nonce ---------------- *)

Lemma n_is_odd : n mod 2 = 1.
Proof.
  pose proof n_gt2 as Hn. pose proof (Z.mod_pos_bound n 2 ltac:(lia)) as Hb.
  destruct (Z.eq_dec (n mod 2) 0) as [E|E]; [exfalso|lia].
  apply Z.mod_divide in E; [|lia].
  destruct (prime_divisors n (sl_n_prime C SL) 2 E) as [H|[H|[H|H]]]; lia.
Qed.

(* r = x(kG) (the code does not reduce it mod n), s = k^-1 (z + r d) mod n, replaced by
   n - s when it exceeds (n-1)/2; k^-1 characterised by its defining equation *)
Theorem sign_k_textbook d z k r s :
  1 <= k < n -> ecdsa_sign_k C d z k = Ok (r, s) ->
  exists y w, mulT C k (G C) = Some (r, y) /\ is_inv C k w /\
    s = (let s0 := (w * (z + r * d)) mod n in if (n - 1) / 2 <? s0 then n - s0 else s0).
Proof.
  intros Hk H. pose proof n_is_odd as Hodd. pose proof n_gt2 as Hn.
  unfold ecdsa_sign_k in H. fold n in H.
  destruct (sl_mul_ok C SL k (G C) (sl_G_valid C SL)) as [EkG _]. rewrite EkG in H. cbn [bind] in H.
  destruct (mulT C k (G C)) as [[x y]|] eqn:EK; [|discriminate].
  injection H as <- <-. exists y, (modpow k (n - 2) n).
  split; [reflexivity|]. split; [now apply sinv_ok|]. cbv zeta.
  assert (Hh : (n - 1) / 2 = n / 2).
  { rewrite (Z_div_mod_eq_full n 2) at 1. rewrite Hodd.
    replace (2 * (n / 2) + 1 - 1) with ((n / 2) * 2) by ring. apply Z.div_mul. lia. }
  rewrite Hh. replace (modpow k (n - 2) n * (z + x * d)) with ((z + x * d) * modpow k (n - 2) n) by ring.
  reflexivity.
Qed.

End Group.
