(* Proofs/BcurP.v — CBOR byte-string wrapper, chunking of BCURMulti.encode, ordered
   reassembly of BCURMulti.parse, digest check, bc32 single-error detection (symbol level). *)
From V Require Import Base.Prelude Base.Ints Base.Lfsr Model.Helper Model.Base58 Model.Bech32
  Model.Bcur Proofs.Base58P Proofs.PolymodP.

Lemma int_to_be_ok' n len : 0 <= n < pow256 len -> int_to_be n len = Ok (to_be len n).
Proof.
  intros H. unfold int_to_be, to_be.
  destruct (0 <=? n) eqn:E1; destruct (n <? pow256 len) eqn:E2; cbn; try reflexivity; lia.
Qed.

Lemma rev'_alt {A} (l : list A) : rev' l = rev l.
Proof. unfold rev'. symmetry. apply rev_alt. Qed.

(* ---------- CBOR ---------- *)

Lemma readz_all (s : bytes) : readz (zlen s) s = (s, []).
Proof.
  unfold readz. destruct (zlen s <? 0) eqn:E; [exfalso; apply Z.ltb_lt in E; unfold zlen in E; lia|]. now rewrite Z.leb_refl.
Qed.

Theorem cbor_roundtrip data : zlen data < 4294967296 ->
  exists e, cbor_encode data = Ok e /\ cbor_decode e = Ok (Some data).
Proof.
  intros HL. unfold cbor_encode. assert (H0 : 0 <= zlen data) by (unfold zlen; lia).
  destruct (zlen data <=? 23) eqn:E1.
  - eexists. split; [reflexivity|]. cbn [cbor_decode].
    destruct (64 <=? 64 + zlen data) eqn:A; [|lia]. destruct (64 + zlen data <? 88) eqn:B; [|lia].
    cbn [andb]. replace (64 + zlen data - 64) with (zlen data) by lia. now rewrite readz_all.
  - destruct (zlen data <=? 255) eqn:E2.
    + eexists. split; [reflexivity|]. cbn [cbor_decode]. change ((64 <=? 88) && (88 <? 88)) with false.
      cbn iota. change (88 =? 88) with true. cbn iota. now rewrite readz_all.
    + destruct (zlen data <=? 65535) eqn:E3.
      * eexists. split; [reflexivity|]. cbn [cbor_decode]. change ((64 <=? 89) && (89 <? 88)) with false.
        cbn iota. change (89 =? 88) with false. change (89 =? 89) with true. cbn iota.
        rewrite firstn_app, skipn_app, to_be_length. change (2 - 2)%nat with 0%nat.
        rewrite firstn_all2 by (rewrite to_be_length; lia). rewrite skipn_all2 by (rewrite to_be_length; lia).
        cbn [firstn skipn app]. rewrite app_nil_r, from_be_to_be by (rewrite pow256_2; lia).
        now rewrite readz_all.
      * rewrite int_to_be_ok' by (rewrite pow256_4; lia). cbn [bind]. eexists. split; [reflexivity|].
        cbn [cbor_decode]. change ((64 <=? 96) && (96 <? 88)) with false. cbn iota.
        change (96 =? 88) with false. change (96 =? 89) with false. change (96 =? 96) with true. cbn iota.
        rewrite firstn_app, skipn_app, to_be_length. change (4 - 4)%nat with 0%nat.
        rewrite firstn_all2 by (rewrite to_be_length; lia). rewrite skipn_all2 by (rewrite to_be_length; lia).
        cbn [firstn skipn app]. rewrite app_nil_r, from_be_to_be by (rewrite pow256_4; lia).
        now rewrite readz_all.
Qed.

(* above 2^32 - 1 bytes length.to_bytes(4, "big") raises *)
Theorem cbor_encode_range data : 4294967296 <= zlen data -> cbor_encode data = Err.
Proof.
  intros HL. unfold cbor_encode.
  destruct (zlen data <=? 23) eqn:E1; [lia|]. destruct (zlen data <=? 255) eqn:E2; [lia|].
  destruct (zlen data <=? 65535) eqn:E3; [lia|]. unfold int_to_be. rewrite pow256_4.
  destruct (zlen data <? 4294967296) eqn:E4; [lia|]. now rewrite andb_false_r.
Qed.

Theorem cbor_prefix data e : cbor_encode data = Ok e ->
  (zlen data <= 23 /\ e = (64 + zlen data) :: data) \/
  (23 < zlen data <= 255 /\ e = 88 :: zlen data :: data) \/
  (255 < zlen data <= 65535 /\ e = 89 :: to_be 2 (zlen data) ++ data) \/
  (65535 < zlen data < 4294967296 /\ e = 96 :: to_be 4 (zlen data) ++ data).
Proof.
  unfold cbor_encode.
  destruct (zlen data <=? 23) eqn:E1; [intros [= <-]; left; split; [lia|reflexivity]|].
  destruct (zlen data <=? 255) eqn:E2; [intros [= <-]; right; left; split; [lia|reflexivity]|].
  destruct (zlen data <=? 65535) eqn:E3; [intros [= <-]; right; right; left; split; [lia|reflexivity]|].
  unfold int_to_be. rewrite pow256_4.
  destruct (0 <=? zlen data) eqn:E0; destruct (zlen data <? 4294967296) eqn:E4; cbn [andb bind];
    try discriminate.
  intros [= <-]. right; right; right. split; [lia|reflexivity].
Qed.

(* ---------- chunking ---------- *)

Lemma cdiv_bounds a b : 0 < a -> 0 < b -> (cdiv a b - 1) * b < a <= cdiv a b * b.
Proof.
  intros Ha Hb. unfold cdiv. pose proof (Z.div_mod (- a) b ltac:(lia)) as DM.
  pose proof (Z.mod_pos_bound (- a) b Hb) as MB. nia.
Qed.

Lemma chunks_spec : forall n cl (s : list Z),
  (1 <= cl)%nat -> (1 <= n)%nat -> ((n - 1) * cl < length s <= n * cl)%nat ->
  concat (chunks n cl s) = s /\
  Forall (fun c => (1 <= length c <= cl)%nat) (chunks n cl s) /\
  length (chunks n cl s) = n.
Proof.
  induction n as [|n IH]; intros cl s Hcl Hn HL; [lia|].
  destruct n as [|k].
  - cbn [chunks concat]. rewrite app_nil_r. rewrite firstn_all2 by lia.
    split; [reflexivity|]. split; [constructor; [lia|constructor]|reflexivity].
  - specialize (IH cl (skipn cl s) Hcl ltac:(lia)).
    assert (HS : length (skipn cl s) = (length s - cl)%nat) by apply skipn_length.
    assert (HF : length (firstn cl s) = cl) by (rewrite firstn_length; nia).
    destruct IH as [I1 [I2 I3]]; [rewrite HS; nia|].
    change (chunks (S (S k)) cl s) with (firstn cl s :: chunks (S k) cl (skipn cl s)).
    split; [|split].
    + cbn [concat]. rewrite I1. apply firstn_skipn.
    + constructor; [lia|exact I2].
    + cbn [length]. now rewrite I3.
Qed.

Lemma number_parts_spec cs : forall cnt y chk,
  map p_payload (number_parts cs cnt y chk) = cs /\
  map p_x (number_parts cs cnt y chk) = map (fun i => cnt + 1 + Z.of_nat i) (seq 0 (length cs)) /\
  Forall (fun p => p_form p = 4 /\ p_y p = y /\ p_chk p = chk) (number_parts cs cnt y chk).
Proof.
  induction cs as [|c r IH]; intros cnt y chk; [repeat split; constructor|].
  destruct (IH (cnt + 1) y chk) as [I1 [I2 I3]]. cbn [number_parts map length seq p_x p_payload].
  split; [now rewrite I1|]. split.
  - rewrite I2. f_equal; [lia|]. rewrite <- seq_shift, map_map. apply map_ext. intros i. lia.
  - constructor; [cbn; auto|exact I3].
Qed.

(* BCURMulti.encode, chunk size >= 1: the parts are numbered 1..y with y = ceil(len/chunk),
   all carry y and the checksum, no piece is empty or longer than the chunk size, and the
   pieces concatenate to the bc32 text *)
Theorem multi_encode_parts (sha256 : bytes -> bytes) data m enc enc_hash :
  bcur_encode sha256 data = Ok (enc, enc_hash) -> enc <> [] -> 1 <= m ->
  exists ps, multi_encode sha256 data m true = Ok ps /\
    let y := cdiv (zlen enc) m in
    Z.of_nat (length ps) = y /\
    map p_x ps = map (fun i => 1 + Z.of_nat i) (seq 0 (length ps)) /\
    Forall (fun p => p_form p = 4 /\ p_y p = y /\ p_chk p = enc_hash) ps /\
    Forall (fun p => (1 <= length (p_payload p))%nat /\ zlen (p_payload p) <= m) ps /\
    concat (map p_payload ps) = enc.
Proof.
  intros EE HN Hm. unfold multi_encode, bcur_init. rewrite EE. cbn [bind truthy_differs].
  destruct (m =? 0) eqn:E0; [lia|]. cbn [bind].
  assert (HL : 0 < zlen enc) by (unfold zlen; destruct enc; [congruence|cbn [length]; lia]).
  pose proof (cdiv_bounds (zlen enc) m HL ltac:(lia)) as B1.
  set (n := cdiv (zlen enc) m) in *.
  assert (Hn : 1 <= n) by nia.
  destruct (n =? 0) eqn:E1; [lia|]. destruct (n <? 0) eqn:E2; [lia|].
  pose proof (cdiv_bounds (zlen enc) n HL ltac:(lia)) as B2.
  set (cl := cdiv (zlen enc) n) in *.
  assert (Hcl : 1 <= cl <= m) by nia.
  eexists. split; [reflexivity|].
  destruct (chunks_spec (Z.to_nat n) (Z.to_nat cl) enc ltac:(lia) ltac:(lia)) as [C1 [C2 C3]].
  { unfold zlen in *. split.
    - apply Nat2Z.inj_lt. rewrite Nat2Z.inj_mul, Nat2Z.inj_sub, !Z2Nat.id by lia. cbn. nia.
    - apply Nat2Z.inj_le. rewrite Nat2Z.inj_mul, !Z2Nat.id by lia. nia. }
  destruct (number_parts_spec (chunks (Z.to_nat n) (Z.to_nat cl) enc) 0 n enc_hash) as [N1 [N2 N3]].
  cbv zeta.
  assert (LP : length (number_parts (chunks (Z.to_nat n) (Z.to_nat cl) enc) 0 n enc_hash) = Z.to_nat n).
  { rewrite <- (map_length p_payload), N1. exact C3. }
  split; [rewrite LP; lia|]. split; [rewrite N2, LP, C3; reflexivity|]. split; [exact N3|].
  split; [|rewrite N1; exact C1].
  apply Forall_forall. intros p Hp.
  assert (In (p_payload p) (chunks (Z.to_nat n) (Z.to_nat cl) enc)) as I
    by (rewrite <- N1; now apply in_map).
  rewrite Forall_forall in C2. specialize (C2 _ I). unfold zlen. lia.
Qed.

(* ---------- ordered reassembly ---------- *)

(* what _parse_bcur_helper reports as x for a part *)
Definition part_x (p : part) : Z := if p_form p =? 4 then p_x p else 1.
Definition part_y (p : part) : Z := if p_form p =? 4 then p_y p else 1.

Lemma parse_part_fields p payload c x y : parse_part p = Ok (payload, c, x, y) ->
  x = part_x p /\ y = part_y p /\ payload = lower (p_payload p) /\
  (c = None \/ c = Some (lower (p_chk p))).
Proof.
  unfold parse_part, part_x, part_y.
  destruct (p_form p =? 2) eqn:F2.
  - assert (p_form p =? 4 = false) as -> by lia. cbn [bind].
    destruct (negb (only_bech32 (lower (p_payload p)))); [discriminate|]. intros [= <- <- <- <-]. auto.
  - destruct (p_form p =? 3) eqn:F3.
    + assert (p_form p =? 4 = false) as -> by lia. cbn [bind].
      destruct (lower (p_chk p)) as [|c0 cr] eqn:EC.
      * destruct (negb (only_bech32 (lower (p_payload p)))); [discriminate|]. intros [= <- <- <- <-]. auto.
      * destruct (negb (length (c0 :: cr) =? 58)%nat); [discriminate|].
        destruct (negb (only_bech32 (c0 :: cr))); [discriminate|]. cbn [bind].
        destruct (negb (only_bech32 (lower (p_payload p)))); [discriminate|]. intros [= <- <- <- <-]. auto.
    + destruct (p_form p =? 4) eqn:F4; [|discriminate].
      destruct (p_y p <? p_x p); [discriminate|]. cbn [bind].
      destruct (lower (p_chk p)) as [|c0 cr] eqn:EC.
      * destruct (negb (only_bech32 (lower (p_payload p)))); [discriminate|]. intros [= <- <- <- <-]. auto.
      * destruct (negb (length (c0 :: cr) =? 58)%nat); [discriminate|].
        destruct (negb (only_bech32 (c0 :: cr))); [discriminate|]. cbn [bind].
        destruct (negb (only_bech32 (lower (p_payload p)))); [discriminate|]. intros [= <- <- <- <-]. auto.
Qed.

(* parts are numbered cnt+1, cnt+2, ... *)
Fixpoint numbered (ps : list part) (cnt : Z) : Prop :=
  match ps with
  | [] => True
  | p :: r => part_x p = cnt + 1 /\ numbered r (cnt + 1)
  end.

Lemma mp_loop_numbered ps : forall cnt g gy acc g' out,
  0 <= cnt -> mp_loop ps cnt g gy acc = Ok (g', out) ->
  numbered ps cnt /\
  (cnt <> 0 -> g' = g /\ Forall (fun p => part_y p = gy) ps) /\
  out = rev acc ++ map (fun p => lower (p_payload p)) ps.
Proof.
  induction ps as [|p r IH]; intros cnt g gy acc g' out Hc H; cbn [mp_loop] in H.
  - injection H as <- <-. rewrite rev'_alt. cbn [map]. rewrite app_nil_r.
    split; [exact I|]. split; [intros _; split; [reflexivity|constructor]|reflexivity].
  - destruct (parse_part p) as [[[[payload c] x] y]|] eqn:EP; [|discriminate]. cbn [bind] in H.
    destruct (parse_part_fields p payload c x y EP) as [-> [-> [-> _]]].
    destruct (negb (cnt + 1 =? part_x p)) eqn:EX; [discriminate|].
    apply negb_false_iff, Z.eqb_eq in EX.
    destruct (cnt =? 0) eqn:E0.
    + apply IH in H as [H1 [H2 H3]]; [|lia]. split; [cbn [numbered]; split; [lia|exact H1]|].
      split; [intros; lia|]. rewrite H3. cbn [rev map]. now rewrite <- app_assoc.
    + destruct (negb _) eqn:EC in H; [discriminate|].
      destruct (negb (part_y p =? gy)) eqn:EY; [discriminate|].
      apply negb_false_iff, Z.eqb_eq in EY.
      apply IH in H as [H1 [H2 H3]]; [|lia]. split; [cbn [numbered]; split; [lia|exact H1]|].
      split.
      * intros _. destruct (H2 ltac:(lia)) as [-> HF]. split; [reflexivity|]. constructor; assumption.
      * rewrite H3. cbn [rev map]. now rewrite <- app_assoc.
Qed.

Section WithHash.
Variable sha256 : bytes -> bytes.

(* every accepted list of parts is numbered 1, 2, 3, ... in list order: a part that is out
   of order, duplicated, or missing before another one makes BCURMulti.parse raise *)
Theorem multi_parse_ordered ps d : multi_parse sha256 ps = Ok d -> numbered ps 0.
Proof.
  unfold multi_parse. destruct (mp_loop ps 0 (Some []) 0 []) as [[g out]|] eqn:E; [|discriminate].
  intros _. exact (proj1 (mp_loop_numbered ps 0 _ _ _ _ _ ltac:(lia) E)).
Qed.

Theorem multi_parse_unordered_err ps : ~ numbered ps 0 -> multi_parse sha256 ps = Err.
Proof.
  intros H. destruct (multi_parse sha256 ps) as [d|] eqn:E; [|reflexivity].
  exfalso. apply H. eapply multi_parse_ordered; eauto.
Qed.

(* all parts after the first must carry the first part's y *)
Theorem multi_parse_same_y p ps d :
  multi_parse sha256 (p :: ps) = Ok d -> Forall (fun q => part_y q = part_y p) ps.
Proof.
  unfold multi_parse. cbn [mp_loop].
  destruct (parse_part p) as [[[[payload c] x] y]|] eqn:EP; [|discriminate]. cbn [bind].
  destruct (parse_part_fields p payload c x y EP) as [-> [-> [-> _]]].
  destruct (negb (0 + 1 =? part_x p)); [discriminate|]. change (0 =? 0) with true. cbn iota.
  destruct (mp_loop ps (0 + 1) c (part_y p) _) as [[g out]|] eqn:E; [|discriminate].
  intros _. destruct (mp_loop_numbered ps (0 + 1) _ _ _ _ _ ltac:(lia) E) as [_ [H _]].
  apply H. lia.
Qed.

(* the digest check: whatever the parts are, if the message is accepted under a checksum text
   that decodes to sha256 of the CBOR wrapping of [d], the result is [d] — or the two CBOR
   strings exhibited are a SHA-256 collision *)
Theorem bcur_decode_exact_or_collision text c d cbor d' :
  cbor_encode d = Ok cbor -> zlen d < 4294967296 ->
  bc32decode c = Ok (Some (sha256 cbor)) ->
  bcur_decode sha256 text (Some c) = Ok (Some d') ->
  d' = d \/ exists cbor', cbor' <> cbor /\ sha256 cbor' = sha256 cbor /\ bc32decode text = Ok (Some cbor').
Proof.
  intros EC HL HC. unfold bcur_decode.
  destruct (bc32decode text) as [[cbor'|]|] eqn:ET; try discriminate. cbn [bind].
  rewrite HC. cbn [bind]. destruct (beq (sha256 cbor) (sha256 cbor')) eqn:EB; [|discriminate].
  apply beq_eq in EB. cbn [bind]. intros HD.
  destruct (list_eq_dec Z.eq_dec cbor' cbor) as [->|NE].
  - left. destruct (cbor_roundtrip d HL) as [e [E1 E2]]. rewrite EC in E1. injection E1 as <-.
    rewrite E2 in HD. now injection HD as <-.
  - right. exists cbor'. auto.
Qed.

Theorem reassembly_exact_or_collision p ps d cbor d' :
  cbor_encode d = Ok cbor -> zlen d < 4294967296 ->
  (p_form p = 3 \/ p_form p = 4) ->
  bc32decode (lower (p_chk p)) = Ok (Some (sha256 cbor)) ->
  multi_parse sha256 (p :: ps) = Ok d' ->
  d' = d \/ exists cbor', cbor' <> cbor /\ sha256 cbor' = sha256 cbor.
Proof.
  intros EC HL HF HC. unfold multi_parse. cbn [mp_loop].
  destruct (parse_part p) as [[[[payload c] x] y]|] eqn:EP; [|discriminate]. cbn [bind].
  assert (Hc : c = Some (lower (p_chk p))).
  { revert EP. unfold parse_part.
    assert (p_form p =? 2 = false) as -> by (destruct HF; lia).
    destruct (p_form p =? 3).
    - cbn [bind]. destruct (lower (p_chk p)) as [|c0 cr].
      + destruct (negb _); [discriminate|]. now intros [= _ <- _ _].
      + destruct (negb _); [discriminate|]. destruct (negb _); [discriminate|]. cbn [bind].
        destruct (negb _); [discriminate|]. now intros [= _ <- _ _].
    - destruct (p_form p =? 4); [|discriminate]. destruct (p_y p <? p_x p); [discriminate|].
      cbn [bind]. destruct (lower (p_chk p)) as [|c0 cr].
      + destruct (negb _); [discriminate|]. now intros [= _ <- _ _].
      + destruct (negb _); [discriminate|]. destruct (negb _); [discriminate|]. cbn [bind].
        destruct (negb _); [discriminate|]. now intros [= _ <- _ _]. }
  subst c.
  destruct (negb (0 + 1 =? x)); [discriminate|]. change (0 =? 0) with true. cbn iota.
  destruct (mp_loop ps (0 + 1) _ y _) as [[g out]|] eqn:E; [|discriminate]. cbn [bind].
  destruct (mp_loop_numbered ps (0 + 1) _ _ _ _ _ ltac:(lia) E) as [_ [H _]].
  destruct (H ltac:(lia)) as [-> _].
  destruct (bcur_decode sha256 (concat out) (Some (lower (p_chk p)))) as [[dd|]|] eqn:ED; try discriminate.
  cbn [bind]. destruct (bcur_init sha256 dd None _); [|discriminate]. cbn [bind]. intros [= <-].
  destruct (bcur_decode_exact_or_collision _ _ d cbor dd EC HL HC ED) as [->|[cbor' [A [B _]]]];
    [now left|right; eauto].
Qed.

End WithHash.

(* ---------- bc32: a single substituted symbol is always detected, at any length ---------- *)

Lemma sel_low_nonzero_all :
  forallb (fun b => negb (Z.land (sel GEN (Z.of_nat b) 0) 31 =? 0)) (seq 1 31) = true.
Proof. vm_compute. reflexivity. Qed.

(* the zero-input step has trivial kernel on 30-bit states *)
Lemma step0_kernel c : st_ok c -> step0 GEN 25 5 c = 0 -> c = 0.
Proof.
  unfold st_ok, P30, step0, step. intros Hc H. rewrite Z.lxor_0_r in H.
  set (b := Z.shiftr c 25) in *.
  assert (Hb : 0 <= b < 32).
  { unfold b. rewrite Z.shiftr_div_pow2 by lia. split; [apply Z.div_pos; lia|].
    apply Z.div_lt_upper_bound; lia. }
  apply Z.lxor_eq in H.
  assert (L : Z.land (Z.shiftl (Z.land c (Z.ones 25)) 5) 31 = 0).
  { change 31 with (Z.ones 5). rewrite Z.land_ones, Z.shiftl_mul_pow2 by lia. apply Z.mod_mul. lia. }
  rewrite H in L.
  assert (b = 0).
  { destruct (Z.eq_dec b 0) as [|NB]; [assumption|]. exfalso.
    pose proof sel_low_nonzero_all as A. rewrite forallb_forall in A.
    specialize (A (Z.to_nat b) ltac:(apply in_seq; lia)). rewrite Z2Nat.id in A by lia.
    rewrite L in A. discriminate. }
  assert (Z.land c (Z.ones 25) = 0).
  { replace b with 0 in H by lia. rewrite sel_0 in H. rewrite Z.shiftl_mul_pow2 in H by lia.
    rewrite Z.land_ones in * by lia. pose proof (Z.mod_pos_bound c (2 ^ 25) ltac:(lia)). lia. }
  rewrite Z.land_ones in * by lia. unfold b in *. rewrite Z.shiftr_div_pow2 in * by lia.
  pose proof (Z.div_mod c (2 ^ 25) ltac:(lia)). lia.
Qed.

Lemma step0_ok c : st_ok c -> st_ok (step0 GEN 25 5 c).
Proof. intros H. apply pm_step_bound; [exact H|unfold sym5; lia]. Qed.

Lemma T_nonzero p : forall e, st_ok e -> e <> 0 -> T GEN 25 5 p e <> 0 /\ st_ok (T GEN 25 5 p e).
Proof.
  induction p as [|p IH]; intros e He Hn; [cbn; auto|].
  destruct (IH e He Hn) as [N S]. unfold T in *. cbn [Nat.iter]. split; [|now apply step0_ok].
  intros H. apply N. now apply step0_kernel.
Qed.

(* symbol strings that differ in exactly one position never have the same polymod, whatever
   their length and whatever precedes them: so at most one of them passes a checksum test *)
Theorem polymod_single_error pre vs es c :
  length vs = length es -> Forall sym5 es -> weight es = 1%nat ->
  run GEN 25 5 c (pre ++ xorl vs es) <> run GEN 25 5 c (pre ++ vs).
Proof.
  intros HL HF HW. rewrite !run_app, run_error by exact HL.
  assert (HF' : Forall (sym_ok 5) es).
  { apply Forall_forall. intros x Hx. rewrite Forall_forall in HF. specialize (HF x Hx).
    unfold sym_ok, sym5 in *. lia. }
  destruct (syn_shape GEN 25 5 es HF') as [_ [S1 _]].
  destruct (S1 HW) as [p [e [_ [He Hs]]]].
  assert (Se : st_ok e) by (unfold st_ok, P30; lia).
  destruct (T_nonzero p e Se ltac:(lia)) as [N _].
  rewrite Hs. intros H. apply N.
  rewrite <- (Z.lxor_0_r (run GEN 25 5 (run GEN 25 5 c pre) vs)) in H at 2.
  apply (f_equal (Z.lxor (run GEN 25 5 (run GEN 25 5 c pre) vs))) in H.
  rewrite <- !Z.lxor_assoc, Z.lxor_nilpotent, !Z.lxor_0_l in H. exact H.
Qed.

(* the form used by bc32decode: polymod([0] + res) = 0x3FFFFFFF *)
Theorem bc32_detects_single_symbols res es :
  length res = length es -> Forall sym5 es -> weight es = 1%nat ->
  bech32_polymod (0 :: res) = BC32_CONSTANT ->
  bech32_polymod (0 :: xorl res es) <> BC32_CONSTANT.
Proof.
  intros HL HF HW HV. rewrite <- HV.
  exact (polymod_single_error [0] res es 1 HL HF HW).
Qed.
