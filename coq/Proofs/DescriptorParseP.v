(* Proofs/DescriptorParseP.v — P2WSHSortedMulti.parse on TEXT (Model/DescriptorText.v parse_plain /
   parse_text, re.fullmatch since /repo dfc700c):
   - the accepted texts are exactly  wsh(sortedmulti( digits , records ))  optionally followed by
     "#" and the checksum of the text the parser prints back;
   - a damaged separator, a malformed checksum, text after the checksum are rejected;
   - the constructor's own output, as text, parses back to the same descriptor;
   - an altered body or checksum character can only be accepted by reading the text non-verbatim. *)
From Coq Require Import String Permutation.
From V Require Import Base.Prelude Base.Disp Generated.DescConsts Model.Descriptor
  Model.DescriptorText Proofs.DescChecksumP Proofs.DescDetectP Proofs.DescriptorP
  Proofs.DescriptorTextP.
Open Scope Z_scope.

Definition prefix16 : list Z := s2z "wsh(sortedmulti(".

(* ------------------------------------------------------------------ list helpers *)

Lemma list_ind2 (P : list Z -> Prop) :
  P [] -> (forall a, P [a]) -> (forall a b r, P r -> P (b :: r) -> P (a :: b :: r)) ->
  forall l, P l.
Proof.
  intros H0 H1 H2 l.
  assert (G : P l /\ forall a, P (a :: l)).
  { induction l as [|b l [IH1 IH2]]; [split; auto|]. split; [apply IH2|].
    intros a. apply H2; [exact IH1|apply IH2]. }
  exact (proj1 G).
Qed.

Lemma firstn_app_exact {A} (a b : list A) n : length a = n -> firstn n (a ++ b) = a.
Proof. intros <-. rewrite firstn_app, Nat.sub_diag, firstn_all. cbn [firstn]. apply app_nil_r. Qed.

Lemma skipn_app_exact {A} (a b : list A) n : length a = n -> skipn n (a ++ b) = b.
Proof. intros <-. rewrite skipn_app, Nat.sub_diag, skipn_all. reflexivity. Qed.

Lemma existsb_eqb_false c l : existsb (Z.eqb c) l = false <-> ~ In c l.
Proof.
  split.
  - intros H I. assert (X : existsb (Z.eqb c) l = true) by (apply existsb_exists; exists c; split; [exact I|apply Z.eqb_refl]).
    congruence.
  - intros H. destruct (existsb (Z.eqb c) l) eqn:E; [|reflexivity]. exfalso. apply H.
    apply existsb_exists in E as [x [I X]]. apply Z.eqb_eq in X. now subst.
Qed.

Lemma existsb_eqb_true c l : existsb (Z.eqb c) l = true <-> In c l.
Proof.
  split.
  - intros E. apply existsb_exists in E as [x [I X]]. apply Z.eqb_eq in X. now subst.
  - intros I. apply existsb_exists. exists c. split; [exact I|apply Z.eqb_refl].
Qed.

(* ------------------------------------------------------------------ replace(backslash slash, slash) *)

Lemma unescape_cons2 a b r :
  unescape (a :: b :: r) = if (a =? 92) && (b =? 47) then 47 :: unescape r else a :: unescape (b :: r).
Proof. reflexivity. Qed.

Lemma unescape_id s : Forall (fun c => c <> 92) s -> unescape s = s.
Proof.
  induction 1 as [|a s Ha _ IH]; [reflexivity|]. destruct s as [|b r]; [reflexivity|].
  rewrite unescape_cons2. destruct (Z.eqb_spec a 92); [congruence|]. cbn [andb]. now rewrite IH.
Qed.

Lemma unescape_app a : forall b, hd 0 b <> 47 -> unescape (a ++ b) = unescape a ++ unescape b.
Proof.
  induction a as [| x | x y r IH1 IH2] using list_ind2; intros b Hb.
  - reflexivity.
  - cbn [app]. destruct b as [|y r]; [reflexivity|]. rewrite unescape_cons2. cbn [hd] in Hb.
    destruct (Z.eqb_spec y 47); [congruence|]. rewrite andb_false_r. reflexivity.
  - change ((x :: y :: r) ++ b) with (x :: y :: (r ++ b)). rewrite !unescape_cons2.
    destruct ((x =? 92) && (y =? 47)).
    + rewrite (IH1 b Hb). reflexivity.
    + change (y :: r ++ b) with ((y :: r) ++ b). rewrite (IH2 b Hb). reflexivity.
Qed.

(* ------------------------------------------------------------------ the pieces of the full match *)

Lemma strip_prefix_spec p : forall s r, strip_prefix p s = Some r -> s = p ++ r.
Proof.
  induction p as [|a p IH]; intros s r H; cbn [strip_prefix] in H.
  - injection H as ->. reflexivity.
  - destruct s as [|b s]; [discriminate|]. destruct (Z.eqb_spec a b) as [->|]; [|discriminate].
    cbn [app]. f_equal. now apply IH.
Qed.

Lemma strip_prefix_app p r : strip_prefix p (p ++ r) = Some r.
Proof. induction p as [|a p IH]; [reflexivity|]. cbn [app strip_prefix]. now rewrite Z.eqb_refl. Qed.

Lemma span_digits_spec s : s = fst (span_digits s) ++ snd (span_digits s).
Proof.
  induction s as [|c r IH]; [reflexivity|]. cbn [span_digits].
  destruct (is_digit c); [|reflexivity]. destruct (span_digits r) as [d t]. cbn [fst snd app] in *.
  now rewrite <- IH.
Qed.

Lemma span_digits_app ds r : Forall digitP ds -> is_digit (hd 0 r) = false ->
  span_digits (ds ++ r) = (ds, r).
Proof.
  intros F Hr. induction F as [|c ds Hc _ IH]; cbn [app span_digits].
  - destruct r as [|x r]; [reflexivity|]. cbn [hd] in Hr. cbn [span_digits]. now rewrite Hr.
  - rewrite (digit_is c Hc), IH. reflexivity.
Qed.

Lemma starts_with_spec p : forall l, starts_with p l = true -> l = p ++ skipn (length p) l.
Proof.
  induction p as [|a p IH]; intros l H; [reflexivity|]. destruct l as [|b l]; [discriminate|].
  cbn [starts_with] in H. apply andb_true_iff in H as [H1 H2]. apply Z.eqb_eq in H1. subst b.
  cbn [app length skipn]. f_equal. now apply IH.
Qed.

Lemma starts_with_app p l : starts_with p (p ++ l) = true.
Proof. induction p as [|a p IH]; [reflexivity|]. cbn [app starts_with]. now rewrite Z.eqb_refl, IH. Qed.

(* a well-formed checksum group: 8 characters of the class of the regular expression *)
Definition cs_ok (cs : list Z) : Prop := length cs = 8%nat /\ forallb is_cs_char cs = true.

Lemma cs_char_facts c : is_cs_char c = true -> c <> 41 /\ c <> 35 /\ c <> 10 /\ c <> 92 /\ c <> 47.
Proof.
  intros H. repeat split; intros ->; vm_compute in H; discriminate.
Qed.

Lemma cs_ok_chars cs : cs_ok cs -> Forall (fun c => c <> 41 /\ c <> 35 /\ c <> 10 /\ c <> 92 /\ c <> 47) cs.
Proof.
  intros [_ H]. rewrite forallb_forall in H. apply Forall_forall. intros c Hc.
  now apply cs_char_facts, H.
Qed.

Lemma regex_count : Z.to_nat desc_regex_checksum_count = 8%nat.
Proof. reflexivity. Qed.

Lemma split_tail_spec b k c : split_tail b = Some (k, c) ->
  (c = [] /\ b = k ++ [41; 41]) \/ (cs_ok c /\ b = k ++ [41; 41; 35] ++ c).
Proof.
  unfold split_tail. rewrite regex_count. set (rb := rev b).
  assert (B : b = rev rb) by (unfold rb; now rewrite rev_involutive).
  destruct (starts_with [41; 41] rb) eqn:S1.
  - intros H. injection H as <- <-. left. split; [reflexivity|].
    apply starts_with_spec in S1. cbn [length] in S1. rewrite B, S1 at 1.
    rewrite rev_app_distr. reflexivity.
  - destruct (starts_with [35; 41; 41] (skipn 8 rb) && (length (rev (firstn 8 rb)) =? 8)%nat
              && forallb is_cs_char (rev (firstn 8 rb))) eqn:S2; [|discriminate].
    intros H. injection H as <- <-. right.
    apply andb_true_iff in S2 as [S2 S4]. apply andb_true_iff in S2 as [S2 S3].
    apply Nat.eqb_eq in S3. split; [split; assumption|].
    apply starts_with_spec in S2. cbn [length] in S2.
    rewrite B at 1. rewrite <- (firstn_skipn 8 rb) at 1. rewrite S2 at 1.
    rewrite !rev_app_distr. cbn [rev app]. rewrite <- !app_assoc. reflexivity.
Qed.

Lemma split_tail_plain k : split_tail (k ++ [41; 41]) = Some (k, []).
Proof.
  unfold split_tail. rewrite rev_app_distr. cbn [rev app starts_with]. cbn [Z.eqb Pos.eqb andb].
  cbn [skipn]. now rewrite rev_involutive.
Qed.

Lemma split_tail_cs k c : cs_ok c -> split_tail (k ++ [41; 41; 35] ++ c) = Some (k, c).
Proof.
  intros [L F]. unfold split_tail. rewrite regex_count.
  assert (RB : rev (k ++ [41; 41; 35] ++ c) = rev c ++ [35; 41; 41] ++ rev k).
  { rewrite !rev_app_distr. cbn [rev app]. rewrite <- !app_assoc. reflexivity. }
  rewrite RB. assert (LR : length (rev c) = 8%nat) by now rewrite rev_length.
  destruct (rev c) as [|e t] eqn:E; [discriminate|].
  assert (He : is_cs_char e = true).
  { rewrite forallb_forall in F. apply F. apply in_rev. rewrite E. now left. }
  assert (S1 : starts_with [41; 41] ((e :: t) ++ [35; 41; 41] ++ rev k) = false).
  { cbn [app starts_with]. destruct (Z.eqb_spec 41 e) as [<-|]; [|reflexivity].
    vm_compute in He. discriminate. }
  rewrite S1. rewrite (firstn_app_exact (e :: t) _ 8 LR), (skipn_app_exact (e :: t) _ 8 LR).
  rewrite <- E, rev_involutive, starts_with_app, L, F. cbn [andb Nat.eqb].
  rewrite (skipn_app_exact [35; 41; 41] (rev k) 3 eq_refl), rev_involutive. reflexivity.
Qed.

(* what a full match looks like *)
Lemma outer_groups_spec u ds krs c : outer_groups u = Some (ds, krs, c) ->
  ((c = [] /\ u = prefix16 ++ ds ++ 44 :: krs ++ [41; 41]) \/
   (cs_ok c /\ u = prefix16 ++ ds ++ 44 :: krs ++ [41; 41; 35] ++ c)) /\
  Forall digitP ds /\ ~ In 10 krs.
Proof.
  unfold outer_groups. fold prefix16.
  destruct (strip_prefix prefix16 u) as [r|] eqn:SP; [|discriminate].
  apply strip_prefix_spec in SP. pose proof (span_digits_spec r) as SD.
  assert (DG : Forall digitP (fst (span_digits r))).
  { clear. induction r as [|c r IH]; [constructor|]. cbn [span_digits].
    destruct (is_digit c) eqn:E; [|constructor]. destruct (span_digits r) as [d t]. cbn [fst] in *.
    constructor; [|exact IH]. unfold is_digit in E. apply andb_true_iff in E as [E1 E2].
    apply Z.leb_le in E1. apply Z.leb_le in E2. unfold digitP. lia. }
  destruct (span_digits r) as [ds' r1]. cbn [fst snd] in SD, DG.
  destruct r1 as [|x body]; [discriminate|].
  destruct (Z.eqb_spec x 44) as [->|]; [|discriminate]. cbn [negb].
  destruct (existsb (Z.eqb 10) body) eqn:NL; [discriminate|].
  destruct (split_tail body) as [[k c']|] eqn:ST; [|discriminate].
  intros H. injection H as <- <- <-.
  apply existsb_eqb_false in NL.
  destruct (split_tail_spec _ _ _ ST) as [[-> EB]|[CS EB]].
  - split; [left; split; [reflexivity|]; now rewrite SP, SD, EB|]. split; [exact DG|].
    intros I. apply NL. rewrite EB. apply in_or_app. now left.
  - split; [right; split; [exact CS|]; now rewrite SP, SD, EB|]. split; [exact DG|].
    intros I. apply NL. rewrite EB. apply in_or_app. now left.
Qed.

Lemma outer_groups_plain ds krs : Forall digitP ds -> ~ In 10 krs ->
  outer_groups (prefix16 ++ ds ++ 44 :: krs ++ [41; 41]) = Some (ds, krs, []).
Proof.
  intros FD NL. unfold outer_groups. fold prefix16. rewrite strip_prefix_app.
  rewrite (span_digits_app ds (44 :: krs ++ [41; 41]) FD eq_refl). cbn [Z.eqb Pos.eqb negb].
  assert (X : existsb (Z.eqb 10) (krs ++ [41; 41]) = false).
  { apply existsb_eqb_false. intros I. apply in_app_or in I as [I|I]; [auto|].
    cbn in I. intuition lia. }
  rewrite X, split_tail_plain. reflexivity.
Qed.

Lemma outer_groups_cs ds krs c : Forall digitP ds -> ~ In 10 krs -> cs_ok c ->
  outer_groups (prefix16 ++ ds ++ 44 :: krs ++ [41; 41; 35] ++ c) = Some (ds, krs, c).
Proof.
  intros FD NL CS. unfold outer_groups. fold prefix16. rewrite strip_prefix_app.
  rewrite (span_digits_app ds (44 :: krs ++ [41; 41; 35] ++ c) FD eq_refl). cbn [Z.eqb Pos.eqb negb].
  assert (X : existsb (Z.eqb 10) (krs ++ [41; 41; 35] ++ c) = false).
  { apply existsb_eqb_false. intros I. apply in_app_or in I as [I|I]; [auto|].
    apply in_app_or in I as [I|I]; [cbn in I; intuition lia|].
    pose proof (cs_ok_chars c CS) as F. rewrite Forall_forall in F. specialize (F 10 I). tauto. }
  rewrite X, (split_tail_cs krs c CS). reflexivity.
Qed.

Lemma app_eq_len_r {A} (a a' b b' : list A) :
  a ++ b = a' ++ b' -> length b = length b' -> a = a' /\ b = b'.
Proof.
  intros E L. apply app_eq_len; [|exact E].
  apply (f_equal (@length A)) in E. rewrite !app_length in E. lia.
Qed.

(* the text after the LAST "#" is determined *)
Lemma last_hash a : forall a' b b', a ++ 35 :: b = a' ++ 35 :: b' -> ~ In 35 b -> ~ In 35 b' -> b = b'.
Proof.
  induction a as [|x a IH]; intros [|y a'] b b' E Nb Nb'; cbn [app] in E.
  - now injection E.
  - injection E as _ E. exfalso. apply Nb. rewrite E. apply in_or_app. right. now left.
  - injection E as _ E. exfalso. apply Nb'. rewrite <- E. apply in_or_app. right. now left.
  - injection E as _ E. exact (IH _ _ _ E Nb Nb').
Qed.

(* after unescaping, a text that ended with  c cs  still ends with  c' cs  where c' is c or "/" *)
Lemma unescape_tail cs c : cs <> [] -> hd 0 cs <> 47 -> Forall (fun x => x <> 92) cs ->
  forall T, exists q c', unescape (T ++ c :: cs) = q ++ c' :: cs /\ (c' = c \/ c' = 47).
Proof.
  intros NE H47 F.
  assert (B0 : unescape (c :: cs) = c :: cs).
  { destruct cs as [|y r]; [congruence|]. rewrite unescape_cons2. cbn [hd] in H47.
    destruct (Z.eqb_spec y 47); [congruence|]. rewrite andb_false_r. now rewrite (unescape_id _ F). }
  induction T as [| a | a b r IH1 IH2] using list_ind2.
  - exists [], c. split; [exact B0|now left].
  - cbn [app]. rewrite unescape_cons2. destruct ((a =? 92) && (c =? 47)) eqn:E.
    + exists [], 47. split; [now rewrite (unescape_id _ F)|now right].
    + exists [a], c. split; [now rewrite B0|now left].
  - change ((a :: b :: r) ++ c :: cs) with (a :: b :: (r ++ c :: cs)). rewrite unescape_cons2.
    destruct ((a =? 92) && (b =? 47)).
    + destruct IH1 as [q [c' [E H]]]. exists (47 :: q), c'. split; [now rewrite E|exact H].
    + destruct IH2 as [q [c' [E H]]]. exists (a :: q), c'. split; [|exact H].
      change (b :: r ++ c :: cs) with ((b :: r) ++ c :: cs). now rewrite E.
Qed.

Lemma unescape_id47 s : Forall (fun c => c <> 47) s -> unescape s = s.
Proof.
  induction 1 as [|a s Ha Hs IH]; [reflexivity|]. destruct s as [|b r]; [reflexivity|].
  rewrite unescape_cons2. inversion Hs as [|? ? Hb _]; subst.
  destruct (Z.eqb_spec b 47); [congruence|]. rewrite andb_false_r. now rewrite IH.
Qed.

Lemma unescape_hash_tail_gen T cs : unescape (T ++ 35 :: cs) = unescape T ++ 35 :: unescape cs.
Proof.
  rewrite unescape_app by (cbn; lia). f_equal. destruct cs as [|b r]; [reflexivity|].
  rewrite unescape_cons2. reflexivity.
Qed.

Lemma unescape_hash_tail T cs : Forall (fun x => x <> 92) cs ->
  unescape (T ++ 35 :: cs) = unescape T ++ 35 :: cs.
Proof. intros F. now rewrite unescape_hash_tail_gen, (unescape_id _ F). Qed.

(* the checksum calc_core_checksum returns is a well-formed checksum group of the regex *)
Lemma cs_char_nth i : (i < 32)%nat -> is_cs_char (nth i desc_checksum_charset 0) = true.
Proof. intros H. do 32 (destruct i as [|i]; [reflexivity|]). lia. Qed.

Lemma checksum_cs_ok t cs : desc_checksum t = Ok cs -> cs_ok cs.
Proof.
  unfold desc_checksum. destruct (checksum_value t) as [c|]; [|discriminate]. cbn [bind].
  intros H. apply Ok_inj in H. subst cs. split; [apply checksum_chars_length|].
  unfold checksum_chars. apply forallb_forall. intros x Hx. apply in_map_iff in Hx as [j [<- _]].
  apply cs_char_nth. pose proof (digit_range c j) as R. unfold digit in R.
  apply Nat2Z.inj_lt. rewrite Z2Nat.id by lia. lia.
Qed.

(* ------------------------------------------------------------------ parse_plain *)
Section ParseP.
Variable path_ok : list Z -> bool.
Variable hdparse : list Z -> result (list Z * Z).
Variable child_ok : list Z -> Z -> bool.

Lemma parse_groups_ok ds krs cs d :
  parse_groups path_ok hdparse child_ok ds krs cs = Ok d ->
  desc_checksum (d_text d) = Ok (d_checksum d) /\ (cs = [] \/ cs = d_checksum d).
Proof.
  unfold parse_groups. destruct (py_int ds) as [m|]; [|discriminate]. cbn [bind].
  destruct (parse_full_all path_ok hdparse child_ok (split_on 44 krs)) as [recs|]; [|discriminate].
  cbn [bind]. destruct (m >? zlen recs); [discriminate|]. intros H.
  destruct (construct_ok _ _ _ _ _ _ _ H) as [_ [_ [n [_ [_ [_ [_ [_ [C [X _]]]]]]]]]]. auto.
Qed.

(* (A) what P2WSHSortedMulti.parse accepts is EXACTLY  wsh(sortedmulti( digits , records ))
   with nothing before or after it and no "#" anywhere, or that followed by "#" and the
   checksum of the text the parser prints back *)
Theorem parse_plain_shape s d : parse_plain path_ok hdparse child_ok s = Ok d ->
  exists ds krs,
    Forall digitP ds /\ ~ In 10 krs /\ desc_checksum (d_text d) = Ok (d_checksum d) /\
    ((unescape s = prefix16 ++ ds ++ 44 :: krs ++ [41; 41] /\ ~ In 35 (unescape s) /\
      parse_groups path_ok hdparse child_ok ds krs [] = Ok d) \/
     (unescape s = prefix16 ++ ds ++ 44 :: krs ++ [41; 41; 35] ++ d_checksum d /\
      cs_ok (d_checksum d) /\
      parse_groups path_ok hdparse child_ok ds krs (d_checksum d) = Ok d)).
Proof.
  unfold parse_plain. destruct (outer_groups (unescape s)) as [[[ds krs] c]|] eqn:OG; [|discriminate].
  destruct (outer_groups_spec _ _ _ _ OG) as [SH [FD NL]]. intros H. exists ds, krs.
  split; [exact FD|]. split; [exact NL|].
  destruct SH as [[-> EU]|[CS EU]].
  - destruct (existsb (Z.eqb 35) (unescape s)) eqn:E35; [discriminate|]. cbn [andb] in H.
    destruct (parse_groups_ok _ _ _ _ H) as [C _]. split; [exact C|]. left.
    split; [exact EU|]. split; [now apply existsb_eqb_false|exact H].
  - assert (NE : c <> []) by (destruct CS as [L _]; destruct c; [discriminate|congruence]).
    destruct c as [|c0 c1]; [congruence|]. rewrite andb_false_r in H.
    destruct (parse_groups_ok _ _ _ _ H) as [C [X|X]]; [discriminate|]. split; [exact C|]. right.
    rewrite <- X. auto.
Qed.

(* (B) a damaged separator: whatever stands before it, a text that ends with a character other
   than "#" followed by 8 checksum characters is rejected *)
Theorem parse_plain_rejects_damaged_separator T c cs :
  c <> 35 -> cs_ok cs -> parse_plain path_ok hdparse child_ok (T ++ c :: cs) = Err.
Proof.
  intros Hc CS. destruct (parse_plain path_ok hdparse child_ok (T ++ c :: cs)) as [d|] eqn:E; [|reflexivity].
  exfalso. destruct (parse_plain_shape _ _ E) as [ds [krs [_ [_ [_ SH]]]]].
  pose proof (cs_ok_chars cs CS) as FC. destruct CS as [L FS].
  assert (NE : cs <> []) by (destruct cs; [discriminate|congruence]).
  assert (H47 : hd 0 cs <> 47).
  { destruct cs; [congruence|]. inversion FC as [|? ? Hx _]; subst. cbn [hd].
    destruct Hx as [_ [_ [_ [_ Hx]]]]. exact Hx. }
  assert (F92 : Forall (fun x => x <> 92) cs) by (eapply Forall_weaken; [|exact FC]; intros x Hx; cbn beta in Hx; tauto).
  destruct (unescape_tail cs c NE H47 F92 T) as [q [c' [EU Hc']]].
  destruct SH as [[EU2 _]|[EU2 [[L2 _] _]]]; rewrite EU in EU2.
  - (* the text would end with a closing bracket *)
    destruct (exists_last NE) as [cs' [e Ecs]].
    assert (X : (q ++ c' :: cs') ++ [e] = (prefix16 ++ ds ++ 44 :: krs ++ [41]) ++ [41]).
    { transitivity (q ++ c' :: cs).
      - rewrite Ecs, <- app_assoc. reflexivity.
      - rewrite EU2. repeat (rewrite <- ?app_assoc; cbn [app]). reflexivity. }
    apply app_inj_tail in X as [_ X]. subst e.
    rewrite Forall_forall in FC. assert (I : In 41 cs) by (rewrite Ecs; apply in_or_app; right; now left).
    specialize (FC 41 I). cbn beta in FC. lia.
  - assert (X : (q ++ [c']) ++ cs = (prefix16 ++ ds ++ 44 :: krs ++ [41; 41] ++ [35]) ++ d_checksum d).
    { transitivity (q ++ c' :: cs); [rewrite <- app_assoc; reflexivity|].
      rewrite EU2. repeat (rewrite <- ?app_assoc; cbn [app]). reflexivity. }
    apply app_eq_len_r in X as [X _]; [|congruence].
    assert (Y : q ++ [c'] = (prefix16 ++ ds ++ 44 :: krs ++ [41; 41]) ++ [35]).
    { rewrite X. repeat (rewrite <- ?app_assoc; cbn [app]). reflexivity. }
    apply app_inj_tail in Y as [_ Y]. destruct Hc' as [->| ->]; lia.
Qed.

(* (C) a malformed checksum: after "#" anything that is not exactly 8 checksum characters (and
   contains no further "#" or backslash) is rejected; this covers a missing or short
   checksum, a foreign character in it, and any text after a valid checksum *)
Theorem parse_plain_rejects_malformed_checksum T cs :
  ~ In 35 cs -> (~ In 92 cs \/ ~ In 47 cs) -> ~ cs_ok cs ->
  parse_plain path_ok hdparse child_ok (T ++ 35 :: cs) = Err.
Proof.
  intros N35 N92 NC. destruct (parse_plain path_ok hdparse child_ok (T ++ 35 :: cs)) as [d|] eqn:E; [|reflexivity].
  exfalso. destruct (parse_plain_shape _ _ E) as [ds [krs [_ [_ [_ SH]]]]].
  assert (UE : unescape cs = cs).
  { destruct N92 as [N|N]; [apply unescape_id|apply unescape_id47]; apply Forall_forall; intros x Hx ->; auto. }
  rewrite unescape_hash_tail_gen, UE in SH.
  destruct SH as [[_ [NI _]]|[EU [CS _]]].
  - apply NI. apply in_or_app. right. now left.
  - apply NC. replace cs with (d_checksum d); [exact CS|]. symmetry.
    change ([41; 41; 35] ++ d_checksum d) with ([41; 41] ++ 35 :: d_checksum d) in EU.
    rewrite !app_assoc in EU. rewrite <- !app_assoc in EU.
    assert (EU' : unescape T ++ 35 :: cs = (prefix16 ++ ds ++ 44 :: krs ++ [41; 41]) ++ 35 :: d_checksum d).
    { rewrite EU. rewrite <- !app_assoc. cbn [app]. rewrite <- !app_assoc. reflexivity. }
    apply (last_hash _ _ _ _ EU' N35).
    pose proof (cs_ok_chars _ CS) as F. rewrite Forall_forall in F. intros I. specialize (F 35 I). tauto.
Qed.

Corollary parse_plain_rejects_trailing_text T cs junk :
  cs_ok cs -> junk <> [] -> ~ In 35 junk -> ~ In 92 junk ->
  parse_plain path_ok hdparse child_ok (T ++ 35 :: cs ++ junk) = Err.
Proof.
  intros CS NE N35 N92. pose proof (cs_ok_chars _ CS) as F. rewrite Forall_forall in F.
  apply parse_plain_rejects_malformed_checksum.
  - intros I. apply in_app_or in I as [I|I]; [specialize (F 35 I); tauto|auto].
  - left. intros I. apply in_app_or in I as [I|I]; [specialize (F 92 I); tauto|auto].
  - intros [L _]. destruct CS as [L2 _]. rewrite app_length, L2 in L. destruct junk; [congruence|cbn in L; lia].
Qed.

(* (D) the checksum that is written in an accepted text is the checksum of the text the parser
   prints back *)
Theorem parse_plain_checksummed T cs d :
  cs_ok cs -> parse_plain path_ok hdparse child_ok (T ++ 35 :: cs) = Ok d ->
  d_checksum d = cs /\ desc_checksum (d_text d) = Ok cs.
Proof.
  intros CS E. destruct (parse_plain_shape _ _ E) as [ds [krs [_ [_ [C SH]]]]].
  pose proof (cs_ok_chars _ CS) as F.
  assert (F92 : Forall (fun x => x <> 92) cs) by (eapply Forall_weaken; [|exact F]; intros x Hx; cbn beta in Hx; tauto).
  rewrite (unescape_hash_tail T cs F92) in SH.
  destruct SH as [[_ [NI _]]|[EU [CS2 _]]].
  - exfalso. apply NI. apply in_or_app. right. now left.
  - assert (X : cs = d_checksum d).
    { assert (EU' : unescape T ++ 35 :: cs = (prefix16 ++ ds ++ 44 :: krs ++ [41; 41]) ++ 35 :: d_checksum d).
      { rewrite EU. rewrite <- !app_assoc. cbn [app]. rewrite <- !app_assoc. reflexivity. }
      apply (last_hash _ _ _ _ EU').
      - rewrite Forall_forall in F. intros I. specialize (F 35 I). tauto.
      - pose proof (cs_ok_chars _ CS2) as F2. rewrite Forall_forall in F2. intros I. specialize (F2 35 I). tauto. }
    subst cs. auto.
Qed.

(* (E) single-character alterations.  Body: if the altered text is accepted at all, the parser
   did not read it verbatim (it printed back a different text) — reading it as written would
   need a checksum collision, which checksum_detects_single excludes. *)
Theorem parse_plain_body_substitution l1 x y l2 cs d :
  desc_checksum (l1 ++ x :: l2) = Ok cs -> In y desc_input_charset -> x <> y ->
  parse_plain path_ok hdparse child_ok ((l1 ++ y :: l2) ++ 35 :: cs) = Ok d ->
  d_text d <> l1 ++ y :: l2.
Proof.
  intros HC Hy Hxy E ET. pose proof (checksum_cs_ok _ _ HC) as CS.
  destruct (parse_plain_checksummed _ _ _ CS E) as [_ C]. rewrite ET in C.
  destruct (checksum_detects_single l1 x y l2 cs HC Hy Hxy) as [cs' [C' [NE _]]]. congruence.
Qed.

(* Checksum: a different well-formed checksum after the same body *)
Theorem parse_plain_checksum_substitution body cs cs' d :
  desc_checksum body = Ok cs -> cs_ok cs' -> cs' <> cs ->
  parse_plain path_ok hdparse child_ok (body ++ 35 :: cs') = Ok d ->
  d_text d <> body.
Proof.
  intros HC CS NE E ET. destruct (parse_plain_checksummed _ _ _ CS E) as [_ C]. rewrite ET in C. congruence.
Qed.
End ParseP.

(* ------------------------------------------------------------------ the constructor's output as text *)

Lemma cs_char_range c : is_cs_char c = true -> 48 <= c <= 122.
Proof.
  unfold is_cs_char. intros H. apply existsb_exists in H as [x [I E]]. apply Z.eqb_eq in E. subst x.
  cbn in I. intuition lia.
Qed.

Lemma cs_char_not_ws c : is_cs_char c = true -> is_ws c = false.
Proof.
  intros H. apply cs_char_range in H. unfold is_ws.
  destruct (Z.leb_spec 9 c), (Z.leb_spec c 13), (Z.leb_spec 28 c), (Z.leb_spec c 32); cbn; try reflexivity; lia.
Qed.

Lemma lstrip_ws_app w l : Forall (fun c => is_ws c = true) w -> lstrip (w ++ l) = lstrip l.
Proof. induction 1 as [|c w Hc _ IH]; [reflexivity|]. cbn [app lstrip]. now rewrite Hc. Qed.

Lemma strip_pad w1 s w2 :
  Forall (fun c => is_ws c = true) w1 -> Forall (fun c => is_ws c = true) w2 ->
  s <> [] -> is_ws (hd 0 s) = false -> is_ws (hd 0 (rev s)) = false ->
  strip (w1 ++ s ++ w2) = s.
Proof.
  intros F1 F2 NE H1 H2. unfold strip. rewrite (lstrip_ws_app w1 _ F1).
  destruct s as [|c s]; [congruence|]. cbn [hd] in H1.
  change ((c :: s) ++ w2) with (c :: (s ++ w2)). rewrite (lstrip_nows c _ H1).
  change (c :: s ++ w2) with ((c :: s) ++ w2). rewrite rev_app_distr.
  rewrite (lstrip_ws_app (rev w2) _ (Forall_rev F2)).
  destruct (rev (c :: s)) as [|e t] eqn:E; [now apply rev_nil_inv in E|].
  cbn [hd] in H2. rewrite (lstrip_nows e t H2), <- E. apply rev_involutive.
Qed.

Lemma dec_digits z : 0 <= z -> Forall digitP (dec z).
Proof.
  intros H. unfold dec, Z.to_int. destruct z as [|p|p]; [repeat constructor; unfold digitP; lia| |lia].
  apply uint_digits_digits.
Qed.

Lemma prefix16_chars : Forall (fun c => c <> 92 /\ c <> 35 /\ c <> 10) prefix16.
Proof.
  assert (E : prefix16 = [119; 115; 104; 40; 115; 111; 114; 116; 101; 100; 109; 117; 108; 116; 105; 40])
    by reflexivity.
  rewrite E. repeat constructor; lia.
Qed.

Section RoundTrip.
Variable path_ok : list Z -> bool.
Variable hdparse : list Z -> result (list Z * Z).
Variable child_ok : list Z -> Z -> bool.
Variable json_descriptor : list Z -> result (list Z).

(* the JSON branch is taken only when the stripped text begins with an opening brace *)
Lemma parse_text_nojson s c r : strip s = c :: r -> c <> 123 ->
  parse_text path_ok hdparse child_ok json_descriptor s = parse_plain path_ok hdparse child_ok (c :: r).
Proof.
  intros E N. unfold parse_text. rewrite E. destruct c as [|p|p]; try reflexivity.
  repeat (destruct p as [p|p|]; try reflexivity). congruence.
Qed.

(* (F) WHATEVER the constructor accepts, the text it prints — str(d), with or without the
   "#checksum", with any white space around it — is parsed back by P2WSHSortedMulti.parse to
   the same descriptor *)
Theorem parse_text_roundtrip m recs cs srt d w1 w2 :
  hd_idempotent hdparse -> path_norm_ok path_ok -> path_chars_ok path_ok -> hd_alnum hdparse ->
  construct path_ok hdparse m recs cs srt = Ok d -> m < 2 ^ 4300 ->
  Forall (fun kr => child_ok (kr_xpub kr) (kr_idx kr) = true) (d_recs d) ->
  Forall (fun c => is_ws c = true) w1 -> Forall (fun c => is_ws c = true) w2 ->
  parse_text path_ok hdparse child_ok json_descriptor (w1 ++ desc_repr d ++ w2) = Ok d /\
  parse_text path_ok hdparse child_ok json_descriptor (w1 ++ d_text d ++ w2) = Ok d.
Proof.
  intros HI HPN HPC HA HC Hm HCh F1 F2.
  destruct (parse_groups_roundtrip _ _ _ _ _ _ _ _ HI HPN HPC HA HC Hm HCh) as [T [PG1 PG2]].
  destruct (construct_ok _ _ _ _ _ _ _ HC) as [M1 [_ [_ [_ [_ [M [_ [_ [C _]]]]]]]]].
  pose proof (constructed_text_safe _ _ child_ok _ _ _ _ _ HPC HA HC) as HS.
  pose proof (records_text_chars _ HS) as KC.
  set (ds := dec (d_m d)) in *. set (krs := records_text (d_recs d)) in *.
  assert (FD : Forall digitP ds) by (apply dec_digits; lia).
  assert (NL : ~ In 10 krs).
  { intros I. rewrite Forall_forall in KC. specialize (KC 10 I). cbn beta in KC. lia. }
  pose proof (checksum_cs_ok _ _ C) as CS. pose proof (cs_ok_chars _ CS) as CC.
  change (s2z "wsh(sortedmulti(") with prefix16 in T. change (s2z "))") with [41; 41] in T.
  (* no backslash and no "#" in the body *)
  assert (BODY : Forall (fun c => c <> 92 /\ c <> 35 /\ c <> 10) (d_text d)).
  { rewrite T. apply Forall_app. split; [apply prefix16_chars|].
    apply Forall_app. split; [eapply Forall_weaken; [|exact FD]; unfold digitP; intros c Hc; lia|].
    constructor; [lia|]. apply Forall_app. split; [exact KC|]. repeat constructor; lia. }
  assert (HD : exists r, d_text d = 119 :: r) by (rewrite T; eexists; reflexivity).
  destruct HD as [r0 HD].
  split.
  - (* str(d) *)
    assert (R : desc_repr d = prefix16 ++ ds ++ 44 :: krs ++ [41; 41; 35] ++ d_checksum d).
    { unfold desc_repr. rewrite T. change (s2z "#") with [35].
      repeat (rewrite <- ?app_assoc; cbn [app]). reflexivity. }
    assert (ST : strip (w1 ++ desc_repr d ++ w2) = desc_repr d).
    { apply strip_pad; auto.
      - unfold desc_repr. rewrite HD. discriminate.
      - unfold desc_repr. rewrite HD. reflexivity.
      - unfold desc_repr. change (s2z "#") with [35]. rewrite !rev_app_distr.
        destruct CS as [L FS]. destruct (rev (d_checksum d)) as [|e t] eqn:E.
        + apply rev_nil_inv in E. rewrite E in L. discriminate.
        + cbn [app hd]. apply cs_char_not_ws. rewrite forallb_forall in FS. apply FS.
          apply in_rev. rewrite E. now left. }
    assert (HD2 : desc_repr d = 119 :: (r0 ++ s2z "#" ++ d_checksum d)) by (unfold desc_repr; now rewrite HD).
    rewrite (parse_text_nojson _ 119 _ (eq_trans ST HD2)) by lia. rewrite <- HD2.
    unfold parse_plain. rewrite unescape_id.
    + rewrite R, (outer_groups_cs ds krs _ FD NL CS).
      destruct (d_checksum d) as [|c0 c1] eqn:EC; [destruct CS; discriminate|].
      rewrite andb_false_r. exact PG1.
    + unfold desc_repr. apply Forall_app. split; [eapply Forall_weaken; [|exact BODY]; intros c Hc; cbn beta in Hc; tauto|].
      change (s2z "#") with [35]. constructor; [lia|].
      eapply Forall_weaken; [|exact CC]. intros c Hc; cbn beta in Hc; tauto.
  - (* the text without the checksum *)
    assert (ST : strip (w1 ++ d_text d ++ w2) = d_text d).
    { apply strip_pad; auto.
      - rewrite HD. discriminate.
      - rewrite HD. reflexivity.
      - assert (X : d_text d = (prefix16 ++ ds ++ 44 :: krs) ++ [41; 41]).
        { rewrite T. repeat (rewrite <- ?app_assoc; cbn [app]). reflexivity. }
        rewrite X, rev_app_distr. reflexivity. }
    rewrite (parse_text_nojson _ 119 _ (eq_trans ST HD)) by lia. rewrite <- HD.
    unfold parse_plain. rewrite unescape_id.
    + assert (N35 : existsb (Z.eqb 35) (d_text d) = false).
      { apply existsb_eqb_false. intros I. rewrite Forall_forall in BODY. specialize (BODY 35 I).
        cbn beta in BODY. lia. }
      rewrite N35. cbn [andb]. rewrite T, (outer_groups_plain ds krs FD NL). exact PG2.
    + eapply Forall_weaken; [|exact BODY]. intros c Hc; cbn beta in Hc; tauto.
Qed.
End RoundTrip.

(* ------------------------------------------------------------------ checksum of a constructed descriptor *)
Theorem constructed_checksum_is_core path_ok hdparse m recs cs srt d :
  construct path_ok hdparse m recs cs srt = Ok d ->
  d_checksum d = Spec.CoreDescChecksum.core_descriptor_checksum (d_text d) /\ cs_ok (d_checksum d) /\
  d_text d = render_text m (d_recs d).
Proof.
  intros H. destruct (construct_ok _ _ _ _ _ _ _ H) as [_ [_ [n [_ [_ [_ [_ [T [C _]]]]]]]]].
  split; [|split; [exact (checksum_cs_ok _ _ C)|exact T]].
  destruct (desc_checksum_eq_core_full (d_text d)) as [E _]. rewrite C in E.
  destruct (forallb in_core_charset (d_text d)); [|discriminate]. now apply Ok_inj in E.
Qed.

(* ------------------------------------------------------------------ the hypotheses are satisfiable *)
(* a toy HD layer: valid paths are the texts without  ] , \ # *  ; an "xpub" is any non-empty
   alphanumeric text and is its own re-encoding *)
Definition ex_pchar (c : Z) : bool :=
  negb ((c =? 93) || (c =? 44) || (c =? 92) || (c =? 35) || (c =? 42)).
Definition ex_path_ok2 (p : list Z) : bool := forallb ex_pchar p.
Definition ex_hdparse2 (x : list Z) : result (list Z * Z) :=
  match x with
  | [] => Err
  | _ => if forallb is_alnum x then Ok (x, 0) else Err
  end.

Lemma ex_pchar_spec c : ex_pchar c = true <-> pchar c.
Proof.
  unfold ex_pchar, pchar.
  destruct (Z.eqb_spec c 93), (Z.eqb_spec c 44), (Z.eqb_spec c 92), (Z.eqb_spec c 35), (Z.eqb_spec c 42);
    cbn; split; intros H; try discriminate; try reflexivity; try lia; tauto.
Qed.

Lemma ex_hypotheses :
  hd_idempotent ex_hdparse2 /\ path_norm_ok ex_path_ok2 /\ path_chars_ok ex_path_ok2 /\ hd_alnum ex_hdparse2.
Proof.
  split; [|split; [|split]].
  - intros x xp n H. unfold ex_hdparse2 in *. destruct x as [|a x]; [discriminate|].
    destruct (forallb is_alnum (a :: x)) eqn:E; [|discriminate]. apply Ok_inj in H. injection H as <- <-.
    now rewrite E.
  - intros p H. unfold ex_path_ok2 in *. cbn [forallb]. change (ex_pchar 109) with true. cbn [andb].
    apply forallb_forall. intros c Hc. rewrite forallb_forall in H. apply H.
    assert (S : forall l, In c (strip l) -> In c l).
    { assert (L : forall l, In c (lstrip l) -> In c l).
      { induction l as [|y l IH]; [auto|]. cbn [lstrip]. destruct (is_ws y); [intros I; right; auto|auto]. }
      intros l I. unfold strip in I. apply in_rev in I. apply L in I. apply in_rev in I. now apply L. }
    apply S. destruct (strip p); [contradiction|now right].
  - intros p H. unfold ex_path_ok2 in H. rewrite forallb_forall in H. apply Forall_forall.
    intros c Hc. now apply ex_pchar_spec, H.
  - intros x xp n H. unfold ex_hdparse2 in H. destruct x as [|a x]; [discriminate|].
    destruct (forallb is_alnum (a :: x)) eqn:E; [|discriminate]. apply Ok_inj in H. injection H as <- <-.
    split; [discriminate|exact E].
Qed.

(* ------------------------------------------------------------------ the checksum positions of a constructed text *)
Section ChecksumPositions.
Variable path_ok : list Z -> bool.
Variable hdparse : list Z -> result (list Z * Z).
Variable child_ok : list Z -> Z -> bool.

(* the constructor's text followed by a DIFFERENT well-formed checksum is rejected *)
Theorem constructed_text_wrong_checksum m recs cs srt d cs' :
  hd_idempotent hdparse -> path_norm_ok path_ok -> path_chars_ok path_ok -> hd_alnum hdparse ->
  construct path_ok hdparse m recs cs srt = Ok d -> m < 2 ^ 4300 ->
  Forall (fun kr => child_ok (kr_xpub kr) (kr_idx kr) = true) (d_recs d) ->
  cs_ok cs' -> cs' <> d_checksum d ->
  parse_plain path_ok hdparse child_ok (d_text d ++ 35 :: cs') = Err.
Proof.
  intros HI HPN HPC HA HC Hm HCh CS' NE.
  destruct (parse_groups_roundtrip _ _ _ _ _ _ _ _ HI HPN HPC HA HC Hm HCh) as [T [PG1 PG2]].
  destruct (construct_ok _ _ _ _ _ _ _ HC) as [M1 [_ [_ [_ [_ [M [_ [_ [C _]]]]]]]]].
  pose proof (constructed_text_safe _ _ child_ok _ _ _ _ _ HPC HA HC) as HS.
  pose proof (records_text_chars _ HS) as KC.
  assert (NE2 : d_recs d <> []).
  { intros E. pose proof (construct_recs_length _ _ _ _ _ _ _ HC) as L. rewrite E in L.
    destruct (construct_ok _ _ _ _ _ _ _ HC) as [_ [NR _]]. unfold zlen in L.
    destruct recs; [congruence|cbn in L; lia]. }
  assert (PS : parse_struct path_ok hdparse child_ok (d_m d) (fields_of d) [] = Ok d).
  { rewrite <- PG2. symmetry. rewrite fields_of_map. apply parse_groups_printed; auto. rewrite M. lia. }
  set (ds := dec (d_m d)) in *. set (krs := records_text (d_recs d)) in *.
  assert (FD : Forall digitP ds) by (apply dec_digits; lia).
  assert (NL : ~ In 10 krs).
  { intros I. rewrite Forall_forall in KC. specialize (KC 10 I). cbn beta in KC. lia. }
  pose proof (cs_ok_chars _ CS') as CC.
  change (s2z "wsh(sortedmulti(") with prefix16 in T. change (s2z "))") with [41; 41] in T.
  assert (U : unescape (d_text d ++ 35 :: cs') = prefix16 ++ ds ++ 44 :: krs ++ [41; 41; 35] ++ cs').
  { rewrite unescape_id.
    - rewrite T. repeat (rewrite <- ?app_assoc; cbn [app]). reflexivity.
    - rewrite T. apply Forall_app. split.
      + apply Forall_app. split; [eapply Forall_weaken; [|apply prefix16_chars]; intros x Hx; cbn beta in Hx; tauto|].
        apply Forall_app. split; [eapply Forall_weaken; [|exact FD]; unfold digitP; intros x Hx; lia|].
        constructor; [lia|]. apply Forall_app. split; [eapply Forall_weaken; [|exact KC]; intros x Hx; cbn beta in Hx; tauto|].
        repeat constructor; lia.
      + constructor; [lia|]. eapply Forall_weaken; [|exact CC]. intros x Hx; cbn beta in Hx; tauto. }
  unfold parse_plain. rewrite U, (outer_groups_cs ds krs cs' FD NL CS').
  destruct cs' as [|c0 c1] eqn:EC; [destruct CS'; discriminate|]. rewrite andb_false_r. rewrite <- EC in *.
  unfold ds, krs. rewrite parse_groups_printed; auto; [|rewrite M; lia].
  rewrite <- fields_of_map. apply (parse_rejects_wrong_checksum _ _ _ _ _ _ _ PS); [rewrite EC; discriminate|exact NE].
Qed.

(* (2) for the CHECKSUM characters the detection claim holds outright: in the text the
   constructor prints, replacing any one checksum character by ANY other character (in or
   outside every charset, "#" and backslash included) makes parse fail *)
Theorem constructed_text_checksum_char_detected m recs cs srt d l1 x y l2 :
  hd_idempotent hdparse -> path_norm_ok path_ok -> path_chars_ok path_ok -> hd_alnum hdparse ->
  construct path_ok hdparse m recs cs srt = Ok d -> m < 2 ^ 4300 ->
  Forall (fun kr => child_ok (kr_xpub kr) (kr_idx kr) = true) (d_recs d) ->
  d_checksum d = l1 ++ x :: l2 -> y <> x ->
  parse_plain path_ok hdparse child_ok (d_text d ++ 35 :: l1 ++ y :: l2) = Err.
Proof.
  intros HI HPN HPC HA HC Hm HCh EC Hy.
  destruct (construct_ok _ _ _ _ _ _ _ HC) as [_ [_ [_ [_ [_ [_ [_ [_ [C _]]]]]]]]].
  pose proof (checksum_cs_ok _ _ C) as CS. pose proof (cs_ok_chars _ CS) as CC.
  rewrite EC in CC. apply Forall_app in CC as [C1 C2]. inversion C2 as [|? ? _ C3]; subst.
  assert (N1 : forall z, In z l1 -> z <> 35 /\ z <> 92 /\ z <> 47).
  { intros z Hz. rewrite Forall_forall in C1. specialize (C1 z Hz). cbn beta in C1. tauto. }
  assert (N2 : forall z, In z l2 -> z <> 35 /\ z <> 92 /\ z <> 47).
  { intros z Hz. rewrite Forall_forall in C3. specialize (C3 z Hz). cbn beta in C3. tauto. }
  destruct CS as [L8 _]. rewrite EC, app_length in L8. cbn [length] in L8.
  destruct (Z.eq_dec y 35) as [->|Y35].
  - (* the new "#" becomes the separator: what follows it is too short *)
    replace (d_text d ++ 35 :: l1 ++ 35 :: l2) with ((d_text d ++ 35 :: l1) ++ 35 :: l2)
      by (rewrite <- app_assoc; reflexivity).
    apply parse_plain_rejects_malformed_checksum.
    + intros I. destruct (N2 _ I). congruence.
    + left. intros I. destruct (N2 _ I) as [_ [X _]]. congruence.
    + intros [L _]. lia.
  - set (cs' := l1 ++ y :: l2).
    assert (N35 : ~ In 35 cs').
    { intros I. apply in_app_or in I as [I|[I|I]]; [destruct (N1 _ I); congruence|congruence|destruct (N2 _ I); congruence]. }
    assert (NP : ~ In 92 cs' \/ ~ In 47 cs').
    { destruct (Z.eq_dec y 92) as [->|Y92].
      - right. intros I. apply in_app_or in I as [I|[I|I]]; [destruct (N1 _ I) as [_ [_ X]]; congruence|lia|destruct (N2 _ I) as [_ [_ X]]; congruence].
      - left. intros I. apply in_app_or in I as [I|[I|I]]; [destruct (N1 _ I) as [_ [X _]]; congruence|congruence|destruct (N2 _ I) as [_ [X _]]; congruence]. }
    destruct (forallb is_cs_char cs') eqn:FC.
    + apply (constructed_text_wrong_checksum m recs cs srt d cs'); auto.
      * split; [|exact FC]. unfold cs'. rewrite app_length. cbn [length]. lia.
      * rewrite EC. unfold cs'. intros E. apply app_inv_head in E. congruence.
    + apply parse_plain_rejects_malformed_checksum; auto. intros [_ X]. congruence.
Qed.
End ChecksumPositions.
