(* Proofs/VerifyNestedP.v — the nested segwit spends (C06): a P2SH output whose redeem script is
   a version-0 witness program (P2SH-P2WPKH, P2SH-P2WSH).  Soundness for every scriptSig / witness /
   signature oracle, and completeness of the canonical spends. *)
From V Require Import Base.Prelude Base.Ints Model.Helper Model.Script Model.Op Model.Interp
  Model.Pecc Model.Taproot Model.Verify Proofs.HelperP Proofs.ScriptP Proofs.OpP Proofs.MultisigP
  Proofs.VerifyP Proofs.VerifyCompleteP.

(* the serialised witness program  0x00 <len> <program>  parses to  OP_0 <program> *)
Lemma parse_cmds_prog l p :
  zlen p = l -> 1 <= l <= 75 -> parse_cmds (0 :: l :: p) = Ok [Op 0; Push p].
Proof.
  intros Hl Hr. unfold parse_cmds.
  set (raw := 0 :: l :: p).
  assert (zlen raw = 2 + l) as Hz by (unfold raw; rewrite !zlen_cons; lia).
  destruct (varstr_roundtrip raw [] ltac:(lia)) as [e [He Hrd]].
  rewrite He. cbn [bind]. unfold parse_script. rewrite app_nil_r in Hrd. rewrite Hrd. cbn [bind].
  unfold parse_raw. rewrite Hz. unfold raw. cbn [length].
  rewrite parse_loop_S.
  destruct (2 + l <=? 0) eqn:E0; [lia|].
  cbn [Z.leb Z.compare andb Z.eqb]. cbv zeta.
  rewrite parse_loop_S.
  destruct (2 + l <=? 0 + 1) eqn:E1; [lia|].
  destruct ((1 <=? l) && (l <=? 75)) eqn:E2; [|lia].
  cbv zeta. unfold readz.
  destruct (l <? 0) eqn:E3; [lia|]. destruct (zlen p <=? l) eqn:E4; [|lia].
  rewrite parse_loop_done by lia. cbn [bind rev app s_cmds]. reflexivity.
Qed.

Definition fl_wit : flags := {| f_p2sh := false; f_wit := true; f_tap := false |}.

Section Nested.
Variable C : curve.
Variables ripemd160 sha1 sha256 hash160 hash256 : bytes -> bytes.
Variable so : sigops.
Variable c : txctx.

Notation vloopw w := (vloop C ripemd160 sha1 sha256 hash160 hash256 so c w).
Notation table := (table ripemd160 sha1 sha256 hash160 hash256 so).
Notation verify_inputw w := (verify_input C ripemd160 sha1 sha256 hash160 hash256 so c w).

(* ---------------- what a P2SH spend of a witness program runs ---------------- *)

(* acceptance of a p2sh output: the scriptSig ends with a push of the redeem script; when that
   is a v0 witness program the scriptSig is EXACTLY that push and the program is run with the
   witness rule armed *)
Lemma p2sh_nested_run w ss h :
  length h = 20%nat ->
  verify_inputw w ss (p2sh_script h) = OTrue ->
  exists pre b cs, ss = pre ++ [Push b] /\ hash160 b = h /\ parse_cmds b = Ok cs /\
    (is_p2wpkh cs || is_p2wsh cs = true ->
     pre = [] /\ exists fuel, vloopw w fuel cs [] [] fl_wit = OTrue).
Proof.
  intros Hl H.
  destruct (p2sh_sound C ripemd160 sha1 sha256 hash160 hash256 so c w ss h Hl H)
    as (pre & b & cs & Hss & Hh & Hp & _).
  exists pre, b, cs. split; [exact Hss|]. split; [exact Hh|]. split; [exact Hp|]. intros Ew.
  revert H. unfold verify_input, p2sh_script.
  cbn [is_p2wpkh is_p2wsh is_p2tr is_p2sh orb]. rewrite Hl. cbn [Nat.eqb].
  assert (last ss (Op 0) = Push b) as -> by (rewrite Hss; apply last_last).
  destruct ss as [|x ss']; [destruct pre; discriminate Hss|]. set (ss := x :: ss') in *.
  destruct (existsb is_int_above_96 ss); [discriminate|].
  rewrite Hp, Ew.
  destruct (length ss =? 1)%nat eqn:E1; [|discriminate].
  assert (pre = []) as Hpre by (apply Nat.eqb_eq in E1; rewrite Hss, app_length in E1; cbn in E1;
                               destruct pre; [reflexivity|cbn in E1; lia]).
  intros H. split; [exact Hpre|]. revert H.
  intros H. subst pre. cbn [app] in Hss. rewrite Hss in H. unfold evaluate_full in H. cbn [app] in H.
  destruct (fuel_big w ([Push b; Op 169; Push h; Op 135])) as [k Hk]. rewrite Hk in H. clear Hk.
  change (16 + k)%nat with (S (15 + k)) in H. rewrite vloop_push_step in H.
  unfold after_push, p2sh_rule in H. cbn [f_p2sh andb] in H. rewrite Hl in H. cbn [Nat.eqb] in H.
  destruct (beq (hash160 b) h); cbn [bind] in H; [|discriminate H].
  rewrite Hp in H. cbn [bind witness_rule f_wit negb] in H.
  exists (15 + k)%nat. exact H.
Qed.

(* OP_0 <20 bytes> under the armed witness rule: the witness items followed by the p2pkh script *)
Lemma wit_v0_keyhash_run w fuel p :
  length p = 20%nat ->
  vloopw w fuel [Op 0; Push p] [] [] fl_wit = OTrue ->
  w <> [] /\ exists fuel', vloopw w fuel' (map Push w ++ p2pkh_script p) [] [] (fl_off false) = OTrue.
Proof.
  intros Hl H.
  destruct fuel as [|fuel]; [discriminate H|]. rewrite vloop_op_step in H.
  cbn [f_tap fl_wit] in H. unfold exec_op in H.
  change (table false 0) with (Some (FStack (op_push_num 0))) in H. cbv iota beta in H.
  cbn [op_push_num bind] in H. change (encode_num 0) with (@nil Z) in H.
  destruct fuel as [|fuel]; [discriminate H|]. rewrite vloop_push_step in H.
  unfold after_push, p2sh_rule in H. cbn [bind f_wit fl_wit witness_rule negb] in H.
  rewrite Hl in H. cbn [Nat.eqb] in H.
  destruct w as [|w0 ws] eqn:Ew; [discriminate H|]. rewrite <- Ew in *.
  split; [rewrite Ew; discriminate|].
  cbn [app f_p2sh f_tap] in H. exists fuel. exact H.
Qed.

(* OP_0 <32 bytes> under the armed witness rule: the last witness item is the witness script *)
Lemma wit_v0_scripthash_run w fuel x :
  length x = 32%nat ->
  vloopw w fuel [Op 0; Push x] [] [] fl_wit = OTrue ->
  w <> [] /\ sha256 (last w []) = x /\
  exists cs fuel', parse_cmds (last w []) = Ok cs /\
    vloopw w fuel' (map Push (removelast w) ++ cs) [] [] (fl_off false) = OTrue.
Proof.
  intros Hl H.
  destruct fuel as [|fuel]; [discriminate H|]. rewrite vloop_op_step in H.
  cbn [f_tap fl_wit] in H. unfold exec_op in H.
  change (table false 0) with (Some (FStack (op_push_num 0))) in H. cbv iota beta in H.
  cbn [op_push_num bind] in H. change (encode_num 0) with (@nil Z) in H.
  destruct fuel as [|fuel]; [discriminate H|]. rewrite vloop_push_step in H.
  unfold after_push, p2sh_rule in H. cbn [bind f_wit fl_wit witness_rule negb] in H.
  rewrite Hl in H. cbn [Nat.eqb] in H.
  destruct w as [|w0 ws] eqn:Ew; [discriminate H|]. rewrite <- Ew in *.
  split; [rewrite Ew; discriminate|].
  destruct (beq x (sha256 (last w []))) eqn:Eb; [|discriminate H]. apply beq_eq in Eb.
  destruct (parse_cmds (last w [])) as [cs|] eqn:Ep; cbn [bind] in H; [|discriminate H].
  split; [auto|]. cbn [app f_p2sh f_tap] in H. exists cs, fuel. split; [reflexivity|exact H].
Qed.

Lemma is_p2wpkh_inv cs : is_p2wpkh cs = true -> exists p, cs = p2wpkh_script p /\ length p = 20%nat.
Proof.
  unfold is_p2wpkh. destruct cs as [|[o|] r]; try discriminate.
  destruct o; try discriminate. destruct r as [|[|p] [|]]; try discriminate. intros H. apply Nat.eqb_eq in H. now exists p.
Qed.

Lemma is_p2wsh_inv cs : is_p2wsh cs = true -> exists x, cs = p2wsh_script x /\ length x = 32%nat.
Proof.
  unfold is_p2wsh. destruct cs as [|[o|] r]; try discriminate.
  destruct o; try discriminate. destruct r as [|[|p] [|]]; try discriminate. intros H. apply Nat.eqb_eq in H. now exists p.
Qed.

(* ---------------- (a) P2SH-P2WPKH ---------------- *)

Theorem p2sh_p2wpkh_sound w ss h :
  length h = 20%nat ->
  verify_inputw w ss (p2sh_script h) = OTrue ->
  exists pre b cs, ss = pre ++ [Push b] /\ hash160 b = h /\ parse_cmds b = Ok cs /\
    (is_p2wpkh cs = true ->
     pre = [] /\ w <> [] /\
     exists p sec sg, cs = p2wpkh_script p /\ hash160 sec = p /\ so_checksig so sec sg = Ok true).
Proof.
  intros Hl H. destruct (p2sh_nested_run w ss h Hl H) as (pre & b & cs & Hss & Hh & Hp & Hrun).
  exists pre, b, cs. split; [exact Hss|]. split; [exact Hh|]. split; [exact Hp|]. intros Ew.
  destruct (Hrun ltac:(rewrite Ew; reflexivity)) as (Hpre & fuel & Hv).
  destruct (is_p2wpkh_inv cs Ew) as (p & -> & Hlp).
  destruct (wit_v0_keyhash_run w fuel p Hlp Hv) as (Hw & f' & Hv').
  split; [exact Hpre|]. split; [exact Hw|].
  destruct (vloop_suffix C ripemd160 sha1 sha256 hash160 hash256 so c w
              (p2pkh_script p) false (plain_p2pkh p) _ (map Push w) [] [] Hv') as (f2 & s' & a' & H').
  destruct (p2pkh_suffix_sound C ripemd160 sha1 sha256 hash160 hash256 so c w p f2 s' a' H')
    as (sec & sg & r & _ & Hhs & Hc).
  exists p, sec, sg. auto.
Qed.

(* the direct form: the redeem script at the end of the scriptSig is the program OP_0 <p> *)
Corollary p2sh_p2wpkh_sound_direct w pre b h p :
  length h = 20%nat -> length p = 20%nat -> parse_cmds b = Ok (p2wpkh_script p) ->
  verify_inputw w (pre ++ [Push b]) (p2sh_script h) = OTrue ->
  pre = [] /\ hash160 b = h /\ w <> [] /\
  exists sec sg, hash160 sec = p /\ so_checksig so sec sg = Ok true.
Proof.
  intros Hl Hlp Hp H.
  destruct (p2sh_p2wpkh_sound w _ h Hl H) as (pre' & b' & cs & Hss & Hh & Hp' & Hrun).
  apply app_inj_tail in Hss as [<- [= <-]]. rewrite Hp in Hp'. injection Hp' as <-.
  destruct Hrun as (Hpre & Hw & p' & sec & sg & [= <-] & Hs & Hc).
  { unfold p2wpkh_script, is_p2wpkh. rewrite Hlp. reflexivity. }
  repeat split; auto. exists sec, sg. auto.
Qed.

(* canonical spend: scriptSig = <0x00 0x14 hash160(sec)>, witness = <sig> <sec> *)
Theorem p2sh_p2wpkh_complete_gen sec sg b :
  length (hash160 sec) = 20%nat -> length (hash160 b) = 20%nat -> sg <> [] ->
  parse_cmds b = Ok (p2wpkh_script (hash160 sec)) ->
  so_checksig so sec sg = Ok true ->
  verify_inputw [sg; sec] [Push b] (p2sh_script (hash160 b)) = OTrue.
Proof.
  intros Hl Hlb Hs Hp Hc. unfold verify_input, p2sh_script.
  cbn [is_p2wpkh is_p2wsh is_p2tr is_p2sh orb]. rewrite Hlb.
  cbn [Nat.eqb last existsb is_int_above_96 orb]. rewrite Hp.
  unfold p2wpkh_script. cbn [is_p2wpkh]. rewrite Hl. cbn [Nat.eqb orb length app].
  unfold evaluate_full.
  destruct (fuel_big [sg; sec] [Push b; Op 169; Push (hash160 b); Op 135]) as [k ->].
  change (16 + k)%nat with (S (S (S (2 + (5 + (6 + k)))))).
  rewrite vloop_push_step.
  unfold after_push, p2sh_rule. cbn [f_p2sh andb]. rewrite Hlb. cbn [Nat.eqb].
  rewrite beq_refl, Hp. cbn [bind witness_rule f_wit f_tap negb]. unfold p2wpkh_script.
  rewrite vloop_op_step. cbn [f_tap]. unfold exec_op.
  change (table false 0) with (Some (FStack (op_push_num 0))).
  cbv iota beta. cbn [op_push_num bind]. change (encode_num 0) with (@nil Z).
  rewrite vloop_push_step.
  unfold after_push, p2sh_rule. cbn [bind f_wit f_p2sh f_tap witness_rule negb]. rewrite Hl. cbn [Nat.eqb app].
  change {| f_p2sh := false; f_wit := false; f_tap := false |} with (fl_off false).
  change 2%nat with (length [sg; sec]).
  change (Push sg :: Push sec :: p2pkh_script (hash160 sec)) with (map Push [sg; sec] ++ p2pkh_script (hash160 sec)).
  rewrite vloop_pushes. cbn [rev app]. now apply p2pkh_suffix_complete.
Qed.

Theorem p2sh_p2wpkh_complete sec sg :
  let redeem := 0 :: 20 :: hash160 sec in
  length (hash160 sec) = 20%nat -> length (hash160 redeem) = 20%nat -> sg <> [] ->
  so_checksig so sec sg = Ok true ->
  verify_inputw [sg; sec] [Push redeem] (p2sh_script (hash160 redeem)) = OTrue.
Proof.
  intros redeem Hl Hlb Hs Hc. apply p2sh_p2wpkh_complete_gen; auto.
  apply parse_cmds_prog; [unfold zlen; rewrite Hl; reflexivity|lia].
Qed.

(* ---------------- (b) P2SH-P2WSH ---------------- *)

Theorem p2sh_p2wsh_sound w ss h :
  length h = 20%nat ->
  verify_inputw w ss (p2sh_script h) = OTrue ->
  exists pre b cs, ss = pre ++ [Push b] /\ hash160 b = h /\ parse_cmds b = Ok cs /\
    (is_p2wsh cs = true ->
     pre = [] /\ w <> [] /\
     exists x, cs = p2wsh_script x /\ sha256 (last w []) = x /\
       exists wcs fuel, parse_cmds (last w []) = Ok wcs /\
         vloopw w fuel (map Push (removelast w) ++ wcs) [] [] (fl_off false) = OTrue).
Proof.
  intros Hl H. destruct (p2sh_nested_run w ss h Hl H) as (pre & b & cs & Hss & Hh & Hp & Hrun).
  exists pre, b, cs. split; [exact Hss|]. split; [exact Hh|]. split; [exact Hp|]. intros Ew.
  destruct (Hrun ltac:(rewrite Ew; apply orb_true_r)) as (Hpre & fuel & Hv).
  destruct (is_p2wsh_inv cs Ew) as (x & -> & Hlx).
  destruct (wit_v0_scripthash_run w fuel x Hlx Hv) as (Hw & Hx & wcs & f' & Hwp & Hv').
  split; [exact Hpre|]. split; [exact Hw|].
  exists x. split; [reflexivity|]. split; [exact Hx|]. exists wcs, f'. auto.
Qed.

Section Quorum.
Variable sec_ok : bytes -> bool.
Variable ver : bytes -> bytes -> bool.
Hypothesis so_loop : forall secs sigs, so_multisig so secs sigs = so_multisig_loop sec_ok ver secs sigs.

(* nested m-of-n: m signatures, each verifying under a different key of the witness script *)
Theorem p2sh_p2wsh_multisig_sound w ss h m keys :
  length h = 20%nat -> 1 <= m <= 16 -> 1 <= zlen keys <= 16 ->
  verify_inputw w ss (p2sh_script h) = OTrue ->
  exists pre b cs, ss = pre ++ [Push b] /\ hash160 b = h /\ parse_cmds b = Ok cs /\
    (is_p2wsh cs = true ->
     pre = [] /\ w <> [] /\
     exists x, cs = p2wsh_script x /\ sha256 (last w []) = x /\
       (parse_cmds (last w []) = Ok (multisig_script m keys) ->
        exists sigs, zlen sigs = m /\ embeds ver sigs (rev keys))).
Proof.
  intros Hl Hm Hn H. destruct (p2sh_p2wsh_sound w ss h Hl H) as (pre & b & cs & Hss & Hh & Hp & Hrun).
  exists pre, b, cs. split; [exact Hss|]. split; [exact Hh|]. split; [exact Hp|]. intros Ew.
  destruct (Hrun Ew) as (Hpre & Hw & x & Hcs & Hx & wcs & fuel & Hwp & Hv).
  split; [exact Hpre|]. split; [exact Hw|].
  exists x. split; [exact Hcs|]. split; [exact Hx|]. intros Hb. rewrite Hb in Hwp. injection Hwp as <-.
  destruct (vloop_suffix C ripemd160 sha1 sha256 hash160 hash256 so c w
              (multisig_script m keys) false
              (plain_multisig_script m keys Hm Hn) _ _ [] [] Hv)
    as (f' & s' & a' & H').
  destruct (multisig_suffix_sound C ripemd160 sha1 sha256 hash160 hash256 so c w m keys f' s' a' Hm Hn H')
    as (sigs & d & r & _ & Hz & Hs).
  exists sigs. split; [exact Hz|].
  exact (loop_true so sec_ok ver so_loop _ _ Hs).
Qed.
End Quorum.

(* canonical spend: scriptSig = <0x00 0x20 sha256(ws)>, witness = <> <sig_1> .. <sig_m> <ws> *)
Theorem p2sh_p2wsh_multisig_complete_gen m keys sigs ws b :
  1 <= m <= 16 -> 1 <= zlen keys <= 16 -> zlen sigs = m -> nonempty_sigs sigs = true ->
  length (sha256 ws) = 32%nat -> length (hash160 b) = 20%nat ->
  parse_cmds b = Ok (p2wsh_script (sha256 ws)) ->
  parse_cmds ws = Ok (multisig_script m keys) ->
  so_multisig so (rev keys) (rev sigs) = Ok true ->
  verify_inputw ([] :: sigs ++ [ws]) [Push b] (p2sh_script (hash160 b)) = OTrue.
Proof.
  intros Hm Hn Hs Hne Hl Hlb Hpb Hp Hok. unfold verify_input, p2sh_script.
  cbn [is_p2wpkh is_p2wsh is_p2tr is_p2sh orb]. rewrite Hlb.
  cbn [Nat.eqb last existsb is_int_above_96 orb]. rewrite Hpb.
  unfold p2wsh_script. cbn [is_p2wpkh is_p2wsh]. rewrite Hl. cbn [Nat.eqb orb length app].
  unfold evaluate_full.
  set (w := [] :: sigs ++ [ws]).
  set (cmds := [Push b; Op 169; Push (hash160 b); Op 135]).
  assert (exists k, fuel_for w cmds = (3 + (length ([] :: sigs) + (length keys + (3 + k))))%nat) as [k ->].
  { assert (length keys <= 16)%nat by (unfold zlen in Hn; lia).
    assert (length sigs <= 16)%nat by (unfold zlen in Hs; lia).
    unfold fuel_for. exists (2 * total_size cmds + 2 * witness_size w + 64
                             - (3 + (length ([] :: sigs) + (length keys + 3))))%nat. cbn [length]. lia. }
  unfold cmds. cbn [plus]. rewrite vloop_push_step.
  unfold after_push, p2sh_rule. cbn [f_p2sh andb]. rewrite Hlb. cbn [Nat.eqb].
  rewrite beq_refl, Hpb. cbn [bind witness_rule f_wit f_tap negb]. unfold p2wsh_script.
  rewrite vloop_op_step. cbn [f_tap]. unfold exec_op.
  change (table false 0) with (Some (FStack (op_push_num 0))).
  cbv iota beta. cbn [op_push_num bind]. change (encode_num 0) with (@nil Z).
  rewrite vloop_push_step.
  unfold after_push, p2sh_rule. cbn [bind f_wit f_p2sh f_tap witness_rule negb]. rewrite Hl. cbn [Nat.eqb].
  assert (last w [] = ws) as Hlast.
  { unfold w. change ([] :: sigs ++ [ws]) with (([] :: sigs) ++ [ws]). apply last_last. }
  assert (removelast w = [] :: sigs) as Hrl.
  { unfold w. change ([] :: sigs ++ [ws]) with (([] :: sigs) ++ [ws]). apply removelast_last. }
  unfold w at 1. cbv iota beta. fold w. rewrite Hlast, Hrl, beq_refl, Hp. cbn [bind app].
  change {| f_p2sh := false; f_wit := false; f_tap := false |} with (fl_off false).
  change (Push [] :: map Push sigs ++ multisig_script m keys) with (map Push ([] :: sigs) ++ multisig_script m keys).
  rewrite vloop_pushes.
  cbn [rev]. rewrite <- app_assoc. cbn [app].
  apply multisig_suffix_complete; auto.
  - unfold zlen in *. now rewrite rev_length.
  - unfold nonempty_sigs in *. rewrite negb_true_iff in *.
    clear -Hne. induction sigs as [|x l IH]; [reflexivity|].
    cbn [existsb] in Hne. apply orb_false_iff in Hne as [H1 H2].
    cbn [rev]. rewrite existsb_app. cbn [existsb]. rewrite (IH H2), H1. reflexivity.
Qed.

Theorem p2sh_p2wsh_multisig_complete m keys sigs ws :
  let redeem := 0 :: 32 :: sha256 ws in
  1 <= m <= 16 -> 1 <= zlen keys <= 16 -> zlen sigs = m -> nonempty_sigs sigs = true ->
  length (sha256 ws) = 32%nat -> length (hash160 redeem) = 20%nat ->
  parse_cmds ws = Ok (multisig_script m keys) ->
  so_multisig so (rev keys) (rev sigs) = Ok true ->
  verify_inputw ([] :: sigs ++ [ws]) [Push redeem] (p2sh_script (hash160 redeem)) = OTrue.
Proof.
  intros redeem Hm Hn Hs Hne Hl Hlb Hp Hok. apply (p2sh_p2wsh_multisig_complete_gen m keys); auto.
  apply parse_cmds_prog; [unfold zlen; rewrite Hl; reflexivity|lia].
Qed.

End Nested.
