(* Proofs/PsbtVerify2P.v — single-key wallets (P2WPKH, P2SH-P2WPKH, P2PKH): finalize succeeds exactly
   when the input carries exactly one partial signature, and what it emits is accepted by the C06
   model of Tx.verify_input whenever OP_CHECKSIG accepts that signature; and the
   sign -> finalize -> verify composition for the P2SH-P2WSH and P2SH m-of-n wallets. *)
From V Require Import Base.Prelude Base.Ints Model.Helper Model.Script Model.Tx Model.Psbt
  Model.PsbtSign Model.Op Model.Interp Model.Pecc Model.Taproot Model.Verify
  Proofs.PsbtDictP Proofs.PsbtFinalP Proofs.PsbtFinal2P Proofs.PsbtSignP Proofs.PsbtSignFinalP
  Proofs.VerifyP Proofs.VerifyCompleteP Proofs.VerifyNestedP Proofs.PsbtVerifyP.

Section Single.
Variable C : curve.
Variables ripemd160 sha1 sha256 hash160 hash256 : bytes -> bytes.
Variable so : sigops.
Variable c : txctx.

Notation verify w ss spk := (verify_input C ripemd160 sha1 sha256 hash160 hash256 so c w ss spk).

Lemma one_sig_iff (st : psbt_in) (f : bytes -> bytes -> psbt_in) :
  (exists st', match pi_sigs st with [(sec, sg)] => Ok (f sec sg) | _ => Err end = Ok st')
  <-> exists sec sg, pi_sigs st = [(sec, sg)].
Proof.
  destruct (pi_sigs st) as [|[sec sg] [|? ?]]; split; try (intros [? H]; discriminate).
  - intros [? [? H]]; discriminate.
  - intros _. eauto.
  - intros _. eauto.
  - intros [? [? H]]; discriminate.
Qed.

Theorem finalize_p2wpkh st ti spk :
  in_script_pubkey st ti = Ok (Some spk) -> is_p2wpkh (s_cmds spk) = true -> pi_redeem st = None ->
  ((exists st', in_finalize st ti = Ok st') <-> exists sec sg, pi_sigs st = [(sec, sg)]) /\
  forall sec sg, pi_sigs st = [(sec, sg)] ->
    in_finalize st ti = Ok (finalized st (mk_script []) (Some [sg; sec])) /\
    (s_cmds spk = p2wpkh_script (hash160 sec) -> sg <> [] -> so_checksig so sec sg = Ok true ->
     verify [sg; sec] [] (s_cmds spk) = OTrue).
Proof.
  intros Hspk Hw Hr.
  assert (Hp : is_p2sh (s_cmds spk) = false).
  { destruct (VerifyNestedP.is_p2wpkh_inv _ Hw) as [p [-> _]]. reflexivity. }
  destruct (in_finalize_single_exact st ti spk Hspk) as [E _]; [rewrite Hp; reflexivity|].
  specialize (E ltac:(rewrite Hw; reflexivity)). rewrite Hr in E. cbn [redeem_script_sig bind] in E.
  split.
  - rewrite E. apply (one_sig_iff st (fun sec sg => finalized st (mk_script []) (Some [sg; sec]))).
  - intros sec sg Hs. rewrite E, Hs. split; [reflexivity|]. intros Hc Hne Hok. rewrite Hc.
    apply p2wpkh_complete; try assumption.
    rewrite Hc in Hw. cbn in Hw. now apply Nat.eqb_eq.
Qed.

Theorem finalize_p2sh_p2wpkh st ti spk rs :
  in_script_pubkey st ti = Ok (Some spk) -> pi_redeem st = Some rs -> is_p2wpkh (s_cmds rs) = true ->
  forall raw, raw_serialize rs = Ok raw ->
  ((exists st', in_finalize st ti = Ok st') <-> exists sec sg, pi_sigs st = [(sec, sg)]) /\
  forall sec sg, pi_sigs st = [(sec, sg)] ->
    in_finalize st ti = Ok (finalized st (mk_script [Push raw]) (Some [sg; sec])) /\
    (raw = 0 :: 20 :: hash160 sec -> s_cmds spk = p2sh_script (hash160 raw) ->
     length (hash160 sec) = 20%nat -> length (hash160 raw) = 20%nat ->
     sg <> [] -> so_checksig so sec sg = Ok true ->
     verify [sg; sec] [Push raw] (s_cmds spk) = OTrue).
Proof.
  intros Hspk Hr Hw raw Hraw.
  destruct (in_finalize_single_exact st ti spk Hspk) as [E _]; [rewrite Hr; cbn; apply orb_true_r|].
  specialize (E ltac:(rewrite Hr; cbn [opt_is]; rewrite Hw; apply orb_true_r)).
  rewrite Hr in E. cbn [redeem_script_sig] in E. rewrite Hraw in E. cbn [bind] in E.
  split.
  - rewrite E. apply (one_sig_iff st (fun sec sg => finalized st (mk_script [Push raw]) (Some [sg; sec]))).
  - intros sec sg Hs. rewrite E, Hs. split; [reflexivity|]. intros -> Hc L1 L2 Hne Hok. rewrite Hc.
    apply (p2sh_p2wpkh_complete C ripemd160 sha1 sha256 hash160 hash256 so c sec sg); assumption.
Qed.

Theorem finalize_p2pkh st ti spk :
  in_script_pubkey st ti = Ok (Some spk) -> is_p2pkh (s_cmds spk) = true -> pi_redeem st = None ->
  ((exists st', in_finalize st ti = Ok st') <-> exists sec sg, pi_sigs st = [(sec, sg)]) /\
  forall sec sg, pi_sigs st = [(sec, sg)] ->
    in_finalize st ti = Ok (finalized st (mk_script [Push sg; Push sec]) (pi_witness st)) /\
    (s_cmds spk = p2pkh_script (hash160 sec) -> sg <> [] -> so_checksig so sec sg = Ok true ->
     forall w, verify w [Push sg; Push sec] (s_cmds spk) = OTrue).
Proof.
  intros Hspk Hk Hr.
  destruct (p2pkh_excl _ Hk) as (_ & _ & Hp).
  destruct (in_finalize_single_exact st ti spk Hspk) as [_ E]; [rewrite Hp; reflexivity|].
  specialize (E Hk ltac:(rewrite Hr; reflexivity) ltac:(rewrite Hr; reflexivity)).
  split.
  - rewrite E. apply (one_sig_iff st (fun sec sg => finalized st (mk_script [Push sg; Push sec]) (pi_witness st))).
  - intros sec sg Hs. rewrite E, Hs. split; [reflexivity|]. intros Hc Hne Hok w. rewrite Hc.
    now apply p2pkh_complete.
Qed.

End Single.

Section SignMulti.
Variable sign_segwit : bytes -> tx -> Z -> option script -> option script -> result bytes.
Variable sign_legacy : bytes -> tx -> Z -> option script -> result bytes.
Variable C : curve.
Variables ripemd160 sha1 sha256 hash160 hash256 : bytes -> bytes.
Variable so : sigops.
Variable c : txctx.

Notation signkeys := (sign_keys sign_segwit sign_legacy).
Notation thesig := (the_sig sign_segwit sign_legacy).

Theorem sign_finalize_verify_p2sh_p2wsh K p P b j a ti spk rs ws m keys raw :
  let redeem := 0 :: 32 :: sha256 raw in
  signkeys K p = Ok (P, b) ->
  nth_error (p_ins p) j = Some a -> nth_error (t_ins (p_tx p)) j = Some ti ->
  (forall k, In k keys -> dget (pi_sigs a) k = None) ->
  in_script_pubkey a ti = Ok (Some spk) ->
  s_cmds spk = p2sh_script (hash160 redeem) -> length (hash160 redeem) = 20%nat ->
  pi_redeem a = Some rs -> s_cmds rs = p2wsh_script (sha256 raw) -> s_raw rs = None ->
  length (sha256 raw) = 32%nat ->
  pi_wscript a = Some ws ->
  s_cmds ws = multisig_script m keys -> raw_serialize ws = Ok raw ->
  parse_cmds raw = Ok (multisig_script m keys) ->
  1 <= m <= 16 -> 1 <= zlen keys <= 16 -> NoDup keys ->
  let signers := filter (fun k => mem k K && named a k) keys in
  let got := firstn (Z.to_nat m) (map (thesig (p_tx p) (Z.of_nat j) a ti) signers) in
  exists x, nth_error (p_ins P) j = Some x /\
    ((exists x', in_finalize x ti = Ok x') <-> m <= zlen signers) /\
    forall x', in_finalize x ti = Ok x' ->
      pi_script_sig x' = Some (mk_script [Push redeem]) /\ pi_witness x' = Some ([] :: got ++ [raw]) /\
      (nonempty_sigs got = true -> so_multisig so (rev keys) (rev got) = Ok true ->
       verify_input C ripemd160 sha1 sha256 hash160 hash256 so c ([] :: got ++ [raw]) [Push redeem]
         (s_cmds spk) = OTrue).
Proof.
  intros redeem H Ha Hti Hfresh Hspk Hcs Hlr Hr Hrc Hrr Hl Hws Hw Hraw Hp Hm Hk Hn signers got.
  destruct (signed_key_sigs sign_segwit sign_legacy K p P b j a ti keys H Ha Hti Hfresh) as [s [HP Hks]].
  exists (set_sigs a s). split; [exact HP|].
  pose proof (finalize_p2sh_p2wsh_multisig C ripemd160 sha1 sha256 hash160 hash256 so c
                (set_sigs a s) ti spk rs ws m keys raw Hspk Hcs Hlr Hr Hrc Hrr Hl Hws Hw Hraw Hp Hm Hk Hn) as [F1 F2].
  cbn [pi_sigs set_sigs] in F1, F2. rewrite Hks in F1, F2. fold signers in F1, F2. fold got in F2.
  split.
  - rewrite F1. unfold zlen. now rewrite map_length.
  - intros x' Hx. destruct (F2 x' Hx) as (E & _ & V). subst x'. cbn. repeat split; try reflexivity. exact V.
Qed.

Theorem sign_finalize_verify_p2sh K p P b j a ti spk rs m keys raw :
  signkeys K p = Ok (P, b) ->
  nth_error (p_ins p) j = Some a -> nth_error (t_ins (p_tx p)) j = Some ti ->
  (forall k, In k keys -> dget (pi_sigs a) k = None) ->
  in_script_pubkey a ti = Ok (Some spk) ->
  s_cmds spk = p2sh_script (hash160 raw) -> length (hash160 raw) = 20%nat ->
  pi_redeem a = Some rs ->
  s_cmds rs = multisig_script m keys -> raw_serialize rs = Ok raw ->
  parse_cmds raw = Ok (multisig_script m keys) ->
  1 <= m <= 16 -> 1 <= zlen keys <= 16 -> NoDup keys ->
  let signers := filter (fun k => mem k K && named a k) keys in
  let got := firstn (Z.to_nat m) (map (thesig (p_tx p) (Z.of_nat j) a ti) signers) in
  let ss := Op 0 :: map Push got ++ [Push raw] in
  exists x, nth_error (p_ins P) j = Some x /\
    ((exists x', in_finalize x ti = Ok x') <-> m <= zlen signers) /\
    forall x', in_finalize x ti = Ok x' ->
      pi_script_sig x' = Some (mk_script ss) /\
      (nonempty_sigs got = true -> so_multisig so (rev keys) (rev got) = Ok true ->
       forall w, verify_input C ripemd160 sha1 sha256 hash160 hash256 so c w ss (s_cmds spk) = OTrue).
Proof.
  intros H Ha Hti Hfresh Hspk Hcs Hl Hr Hrc Hraw Hp Hm Hk Hn signers got ss.
  destruct (signed_key_sigs sign_segwit sign_legacy K p P b j a ti keys H Ha Hti Hfresh) as [s [HP Hks]].
  exists (set_sigs a s). split; [exact HP|].
  pose proof (finalize_p2sh_multisig C ripemd160 sha1 sha256 hash160 hash256 so c
                (set_sigs a s) ti spk rs m keys raw Hspk Hcs Hl Hr Hrc Hraw Hp Hm Hk Hn) as [F1 F2].
  cbn [pi_sigs set_sigs] in F1, F2. rewrite Hks in F1, F2. fold signers in F1, F2. fold got in F2. fold ss in F2.
  split.
  - rewrite F1. unfold zlen. now rewrite map_length.
  - intros x' Hx. destruct (F2 x' Hx) as (E & _ & V). subst x'. cbn. split; [reflexivity|]. exact V.
Qed.

End SignMulti.
