(* exhaustive group-law sweep (all point pairs, all triples for associativity) of y^2 = x^3 + 7
   over F_p for the primes 5 <= p < 68 (p = 7 excluded: singular) *)
From V Require Import Base.Prelude Model.Pecc Proofs.CurveSweep Proofs.SmallFields Proofs.CurveAssoc.
Lemma curve_range_5_68 : chk_curve_range 5 63 = true.
Proof. vm_cast_no_check (eq_refl true). Qed.
