(* Proofs/FeistelP.v — the four-round Feistel network of ShareSet._crypt is inverted by
   running it with the round indices reversed, for every key-derivation function that
   returns dklen bytes (Model/Shamir.v crypt / encrypt / decrypt). *)
From V Require Import Base.Prelude Base.Ints Model.Mnemonic Model.Shamir.

Lemma zip_xor_length (a b : bytes) : length (zip_with Z.lxor a b) = Nat.min (length a) (length b).
Proof.
  revert b; induction a as [|x a IH]; intros [|y b]; cbn; try reflexivity. now rewrite IH.
Qed.

Lemma zip_xor_cancel (a f : bytes) : (length a <= length f)%nat ->
  zip_with Z.lxor (zip_with Z.lxor a f) f = a.
Proof.
  revert f; induction a as [|x a IH]; intros [|y f] H; cbn in *; try reflexivity; try lia.
  rewrite IH by lia. f_equal. rewrite Z.lxor_assoc, Z.lxor_nilpotent. apply Z.lxor_0_r.
Qed.

Section Feistel.
  Variable kdf : bytes -> bytes -> Z -> Z -> result bytes.
  Hypothesis kdf_len : forall p s c n r, kdf p s c n = Ok r -> zlen r = n.

  Lemma rounds_app a b pass salt iters half l r :
    crypt_rounds kdf (a ++ b) pass salt iters half l r =
    (p <- crypt_rounds kdf a pass salt iters half l r ;;
     crypt_rounds kdf b pass salt iters half (fst p) (snd p)).
  Proof.
    revert l r; induction a as [|i a IH]; intros l r; cbn [app crypt_rounds bind]; [reflexivity|].
    destruct (kdf (i :: pass) (salt ++ r) iters half) as [f|]; cbn [bind]; [apply IH | reflexivity].
  Qed.

  Lemma rounds_lengths idxs pass salt iters half : forall l r l' r',
    zlen l = half -> zlen r = half ->
    crypt_rounds kdf idxs pass salt iters half l r = Ok (l', r') ->
    zlen l' = half /\ zlen r' = half.
  Proof.
    induction idxs as [|i idxs IH]; intros l r l' r' Hl Hr H; cbn [crypt_rounds] in H.
    - inversion H; subst. now split.
    - destruct (kdf (i :: pass) (salt ++ r) iters half) as [f|] eqn:K; cbn [bind] in H; [|discriminate].
      apply (IH _ _ _ _ Hr) in H; [exact H|].
      apply kdf_len in K. unfold zlen in *. rewrite zip_xor_length. lia.
  Qed.

  Lemma rounds_reverse idxs pass salt iters half : forall l r l' r',
    zlen l = half -> zlen r = half ->
    crypt_rounds kdf idxs pass salt iters half l r = Ok (l', r') ->
    crypt_rounds kdf (rev idxs) pass salt iters half r' l' = Ok (r, l).
  Proof.
    induction idxs as [|i idxs IH]; intros l r l' r' Hl Hr H; cbn [crypt_rounds rev] in *.
    - inversion H; subst. reflexivity.
    - destruct (kdf (i :: pass) (salt ++ r) iters half) as [f|] eqn:K; cbn [bind] in H; [|discriminate].
      assert (Lf : zlen f = half) by (now apply kdf_len in K).
      assert (Lx : zlen (zip_with Z.lxor l f) = half).
      { unfold zlen in *. rewrite zip_xor_length. lia. }
      rewrite rounds_app. rewrite (IH _ _ _ _ Hr Lx H). cbn [bind fst snd crypt_rounds].
      rewrite K. cbn [bind]. rewrite zip_xor_cancel by (unfold zlen in *; lia). reflexivity.
  Qed.

  Theorem crypt_reverse payload id e pass idxs c :
    crypt kdf payload id e pass idxs = Ok c ->
    crypt kdf c id e pass (rev idxs) = Ok payload /\ zlen c = zlen payload.
  Proof.
    unfold crypt. destruct (Z.odd (zlen payload)) eqn:Odd; [discriminate|].
    destruct (int_to_be id 2) as [idb|]; cbn [bind]; [|discriminate].
    destruct ((e <? 0) && (match idxs with [] => false | _ => true end)) eqn:Eneg; [discriminate|].
    assert (Eneg' : (e <? 0) && (match rev idxs with [] => false | _ => true end) = false).
    { destruct (e <? 0); [|reflexivity]. cbn [andb] in *. destruct idxs as [|i idxs']; [reflexivity|].
      discriminate. }
    rewrite Eneg'.
    set (half := Z.to_nat (zlen payload / 2)).
    assert (Hev : zlen payload = 2 * (zlen payload / 2)).
    { pose proof (Z.div_mod (zlen payload) 2 ltac:(lia)) as D.
      rewrite Zmod_odd, Odd in D. lia. }
    assert (Hh : zlen payload / 2 = Z.of_nat half).
    { unfold half. unfold zlen in *. lia. }
    assert (L1 : zlen (firstn half payload) = zlen payload / 2).
    { unfold zlen in *. rewrite firstn_length. lia. }
    assert (L2 : zlen (skipn half payload) = zlen payload / 2).
    { unfold zlen in *. rewrite skipn_length. lia. }
    destruct (crypt_rounds kdf idxs pass (s_shamir ++ idb) (Z.shiftl 2500 e) (zlen payload / 2)
                (firstn half payload) (skipn half payload)) as [[l r]|] eqn:R; cbn [bind]; [|discriminate].
    intros [= <-].
    destruct (rounds_lengths _ _ _ _ _ _ _ _ _ L1 L2 R) as [Ll Lr].
    assert (Lc : zlen (r ++ l) = zlen payload).
    { unfold zlen in *. rewrite app_length. lia. }
    split; [|exact Lc]. rewrite Lc, Odd. fold half.
    assert (F1 : firstn half (r ++ l) = r).
    { rewrite firstn_app. replace (half - length r)%nat with O by (unfold zlen in *; lia).
      rewrite firstn_all2 by (unfold zlen in *; lia). cbn. apply app_nil_r. }
    assert (F2 : skipn half (r ++ l) = l).
    { rewrite skipn_app. replace (half - length r)%nat with O by (unfold zlen in *; lia).
      rewrite skipn_all2 by (unfold zlen in *; lia). reflexivity. }
    rewrite F1, F2. rewrite (rounds_reverse _ _ _ _ _ _ _ _ _ L1 L2 R). cbn [bind].
    now rewrite firstn_skipn.
  Qed.

  (* decrypt (encrypt p) = p; the share set only contributes its id and exponent *)
  Theorem feistel_inverse payload id e pass c ss :
    ss_id ss = id -> ss_exp ss = e ->
    encrypt kdf payload id e pass = Ok c ->
    decrypt kdf ss c pass = Ok payload /\ zlen c = zlen payload.
  Proof.
    intros <- <- H. unfold encrypt in H. unfold decrypt.
    exact (crypt_reverse _ _ _ _ [0; 1; 2; 3] _ H).
  Qed.

  (* and the other way round *)
  Theorem feistel_inverse' c id e pass p :
    crypt kdf c id e pass [3; 2; 1; 0] = Ok p -> encrypt kdf p id e pass = Ok c.
  Proof. intros H. unfold encrypt. exact (proj1 (crypt_reverse _ _ _ _ [3; 2; 1; 0] _ H)). Qed.

  (* encryption succeeds whenever the payload has even length, the id fits two bytes,
     the exponent is non-negative and the KDF does not raise *)
  Theorem encrypt_total payload id e pass :
    Z.even (zlen payload) = true -> 0 <= id < 65536 -> 0 <= e ->
    (forall p s c n, exists r, kdf p s c n = Ok r) ->
    exists c, encrypt kdf payload id e pass = Ok c.
  Proof.
    intros Hev Hid He Hk. unfold encrypt, crypt.
    rewrite <- Z.negb_even, Hev. cbn [negb].
    unfold int_to_be. change (pow256 2) with 65536.
    destruct (0 <=? id) eqn:E1; destruct (id <? 65536) eqn:E2; try lia. cbn [andb bind].
    destruct (e <? 0) eqn:E3; [lia|]. cbn [andb].
    generalize (Z.shiftl 2500 e) (zlen payload / 2) (s_shamir ++ rev (to_le 2 id)).
    intros iters half salt.
    assert (G : forall idxs l r, exists l' r',
              crypt_rounds kdf idxs pass salt iters half l r = Ok (l', r')).
    { induction idxs as [|i idxs IH]; intros l r; cbn [crypt_rounds]; [now exists l, r|].
      destruct (Hk (i :: pass) (salt ++ r) iters half) as [f ->]. cbn [bind]. apply IH. }
    destruct (G [0; 1; 2; 3] (firstn (Z.to_nat half) payload) (skipn (Z.to_nat half) payload))
      as [l' [r' ->]]. cbn [bind]. eauto.
  Qed.
End Feistel.
