(* Proofs/MusigLift.v — the hypothesis [xonly_lift_ok C] of the MuSig theorems follows from the
   encoding lemma of Proofs/PeccEnc.v (owner: C03) when no valid point has x = 0, and it
   holds on the toy curve. *)
From V Require Import Base.Prelude Base.Ints Model.Pecc Proofs.GroupHyp Proofs.CurveAlg
  Proofs.PeccEnc Proofs.CurveSweep Proofs.ToyCurve Proofs.MusigAlg.

Lemma xonly_lift_of_enc (C : curve) :
  scalar_laws C -> ca C = 0 -> cp C mod 4 = 3 -> cp C < pow256 32 ->
  (forall y, ~ valid C (Some (0, y))) ->
  xonly_lift_ok C.
Proof.
  intros SL Ha Hp4 Hp256 Hx0 x y Hv.
  assert (Hx : x <> 0) by (intros ->; exact (Hx0 y Hv)).
  pose proof (parse_xonly_xonly C SL Ha Hp4 Hp256 x y Hv Hx) as H.
  unfold xonly in H. rewrite H. f_equal.
  rewrite (evenT_coords C SL) by assumption. f_equal. f_equal. unfold even_lift.
  pose proof (Z.mod_pos_bound y 2 ltac:(lia)).
  destruct (y mod 2 =? 0) eqn:E0; destruct (y mod 2 =? 1) eqn:E1; try reflexivity; lia.
Qed.

Lemma toy_no_x0 : forall y, ~ valid toy (Some (0, y)).
Proof.
  intros y Hv. apply valid_in_points in Hv.
  assert (F : forallb (fun P => match P with Some (0, _) => false | _ => true end) (points toy) = true)
    by (vm_compute; reflexivity).
  rewrite forallb_forall in F. specialize (F _ Hv). discriminate.
Qed.

Theorem toy_xonly_lift_ok : xonly_lift_ok toy.
Proof.
  apply xonly_lift_of_enc; [exact toy_scalar_laws | reflexivity | reflexivity | | exact toy_no_x0].
  vm_compute. reflexivity.
Qed.
