(* Proofs/BitsP.v — shifts, masks and ors as arithmetic (used by the BIP39 and SLIP39
   bit-packing proofs). *)
From V Require Import Base.Prelude.

Lemma shl_mul a n : 0 <= n -> Z.shiftl a n = a * 2 ^ n.
Proof. intros. now apply Z.shiftl_mul_pow2. Qed.

Lemma shr_div a n : 0 <= n -> Z.shiftr a n = a / 2 ^ n.
Proof. intros. now apply Z.shiftr_div_pow2. Qed.

Lemma land_mask a n : 0 <= n -> Z.land a (2 ^ n - 1) = a mod 2 ^ n.
Proof.
  intros H. rewrite <- Z.land_ones by exact H. f_equal.
  rewrite Z.ones_equiv. reflexivity.
Qed.

Lemma land_mask' a n : 0 <= n -> Z.land a (Z.shiftl 1 n - 1) = a mod 2 ^ n.
Proof. intros H. rewrite shl_mul by exact H. rewrite Z.mul_1_l. now apply land_mask. Qed.

Lemma land_shiftl_low a c n : 0 <= n -> 0 <= c < 2 ^ n -> Z.land (Z.shiftl a n) c = 0.
Proof.
  intros Hn Hc. apply Z.bits_inj'. intros k Hk. rewrite Z.land_spec, Z.bits_0.
  destruct (Z.lt_ge_cases k n) as [L|L].
  - rewrite Z.shiftl_spec_low by lia. reflexivity.
  - destruct (Z.eq_dec c 0) as [->|Hz]; [now rewrite Z.bits_0, andb_false_r|].
    rewrite (Z.bits_above_log2 c k); [apply andb_false_r | lia |].
    apply Z.lt_le_trans with n; [|exact L]. apply Z.log2_lt_pow2; lia.
Qed.

Lemma lor_shiftl_add a c n : 0 <= n -> 0 <= c < 2 ^ n -> Z.lor (Z.shiftl a n) c = a * 2 ^ n + c.
Proof.
  intros Hn Hc. pose proof (land_shiftl_low a c n Hn Hc) as L.
  rewrite <- Z.lxor_lor by exact L. rewrite <- Z.add_nocarry_lxor by exact L.
  now rewrite shl_mul.
Qed.

Lemma pow2_pos n : 0 <= n -> 0 < 2 ^ n.
Proof. intros. apply Z.pow_pos_nonneg; lia. Qed.
