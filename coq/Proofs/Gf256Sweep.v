(* Proofs/Gf256Sweep.v — the finite (vm_compute) facts about the GF(256) exp/log tables
   built by Model/Shamir.v (load_loop / gf_tables), and the definitions of the Z-level
   field operations.  Everything three-variable is derived algebraically in Gf256P.v. *)
From Coq Require Import ZArith List Bool Lia.
From V Require Import Base.Prelude Model.Shamir.
Import ListNotations.
Open Scope Z_scope.

(* ---------------------------------------------------------------- operations *)

Definition gmulZ (a b : Z) : Z :=
  if (a =? 0) || (b =? 0) then 0 else gexp ((glog a + glog b) mod 255).
Definition ginvZ (a : Z) : Z := gexp ((255 - glog a) mod 255).
Definition gdivZ (a b : Z) : Z := gmulZ a (ginvZ b).

(* keep simpl/cbn from unfolding the 255-step table construction (vm_compute unaffected) *)
Global Arguments gexp : simpl never.
Global Arguments glog : simpl never.
Global Arguments gmulZ : simpl never.
Global Arguments ginvZ : simpl never.
Global Arguments gdivZ : simpl never.

(* reference multiplication: shift-and-add (carry-less) product reduced modulo
   x^8+x^4+x^3+x+1 (0x11B = 283); does not mention the tables *)
Definition xtime (a : Z) : Z :=
  let a2 := a * 2 in if a2 >? 255 then Z.lxor a2 283 else a2.

Fixpoint clmul_loop (n : nat) (a b acc : Z) : Z :=
  match n with
  | O => acc
  | S k => clmul_loop k (xtime a) (Z.shiftr b 1) (if Z.odd b then Z.lxor acc a else acc)
  end.

Definition clmul (a b : Z) : Z := clmul_loop 8 a b 0.

(* ---------------------------------------------------------------- ranges *)

Lemma in_zrange : forall n a x, In x (zrange a n) <-> a <= x < a + Z.of_nat n.
Proof.
  induction n as [|n IH]; intros a x.
  - cbn [zrange In]. lia.
  - cbn [zrange In]. rewrite IH. lia.
Qed.

Lemma in_bytes256 : forall a, In a (zrange 0 256) <-> 0 <= a < 256.
Proof. intros a. rewrite in_zrange. change (Z.of_nat 256) with 256. lia. Qed.

Lemma sweep1 : forall (P : Z -> bool) lo n,
  forallb P (zrange lo n) = true -> forall a, lo <= a < lo + Z.of_nat n -> P a = true.
Proof.
  intros P lo n H a Ha. rewrite forallb_forall in H. apply H. apply in_zrange. exact Ha.
Qed.

Lemma sweep2 : forall (P : Z -> Z -> bool),
  forallb (fun a => forallb (P a) (zrange 0 256)) (zrange 0 256) = true ->
  forall a b, 0 <= a < 256 -> 0 <= b < 256 -> P a b = true.
Proof.
  intros P H a b Ha Hb.
  pose proof (sweep1 _ _ _ H a) as H1. cbv beta in H1.
  change (Z.of_nat 256) with 256 in H1. specialize (H1 ltac:(lia)).
  apply (sweep1 _ _ _ H1). change (Z.of_nat 256) with 256. lia.
Qed.

(* ---------------------------------------------------------------- table facts *)

Lemma exp_tbl_length : length exp_tbl = 255%nat.
Proof. vm_compute. reflexivity. Qed.

Lemma log_tbl_length : length log_tbl = 256%nat.
Proof. vm_compute. reflexivity. Qed.

Lemma glog_0 : glog 0 = 0.
Proof. vm_compute. reflexivity. Qed.

Lemma glog_1 : glog 1 = 0.
Proof. vm_compute. reflexivity. Qed.

Lemma gexp_0 : gexp 0 = 1.
Proof. vm_compute. reflexivity. Qed.

Lemma gexp_1 : gexp 1 = 3.
Proof. vm_compute. reflexivity. Qed.

Definition chk_exp_log (a : Z) : bool :=
  (gexp (glog a) =? a) && (0 <=? glog a) && (glog a <? 255).

Lemma chk_exp_log_all : forallb chk_exp_log (zrange 1 255) = true.
Proof. vm_compute. reflexivity. Qed.

Definition chk_log_exp (i : Z) : bool :=
  (glog (gexp i) =? i) && (1 <=? gexp i) && (gexp i <? 256).

Lemma chk_log_exp_all : forallb chk_log_exp (zrange 0 255) = true.
Proof. vm_compute. reflexivity. Qed.

Theorem exp_log_inverse : forall a, 1 <= a < 256 -> gexp (glog a) = a /\ 0 <= glog a < 255.
Proof.
  intros a Ha.
  pose proof (sweep1 _ _ _ chk_exp_log_all a) as H.
  change (Z.of_nat 255) with 255 in H. specialize (H ltac:(lia)).
  unfold chk_exp_log in H.
  apply andb_true_iff in H as [H H3]. apply andb_true_iff in H as [H1 H2].
  apply Z.eqb_eq in H1. apply Z.leb_le in H2. apply Z.ltb_lt in H3. lia.
Qed.

Theorem log_exp_inverse : forall i, 0 <= i < 255 -> glog (gexp i) = i /\ 1 <= gexp i < 256.
Proof.
  intros i Hi.
  pose proof (sweep1 _ _ _ chk_log_exp_all i) as H.
  change (Z.of_nat 255) with 255 in H. specialize (H ltac:(lia)).
  unfold chk_log_exp in H.
  apply andb_true_iff in H as [H H3]. apply andb_true_iff in H as [H1 H2].
  apply Z.eqb_eq in H1. apply Z.leb_le in H2. apply Z.ltb_lt in H3. lia.
Qed.

(* ---------------------------------------------------------------- pair sweeps *)

(* table multiplication = carry-less multiplication mod 0x11B; xor stays a byte *)
Definition chk_mul (a b : Z) : bool :=
  (gmulZ a b =? clmul a b) && in_byte (Z.lxor a b).

Lemma chk_mul_all :
  forallb (fun a => forallb (chk_mul a) (zrange 0 256)) (zrange 0 256) = true.
Proof. vm_compute. reflexivity. Qed.

(* multiplication by the generator 3 = gexp 1 distributes over xor *)
Definition chk_dist3 (b c : Z) : bool :=
  gmulZ 3 (Z.lxor b c) =? Z.lxor (gmulZ 3 b) (gmulZ 3 c).

Lemma chk_dist3_all :
  forallb (fun b => forallb (chk_dist3 b) (zrange 0 256)) (zrange 0 256) = true.
Proof. vm_compute. reflexivity. Qed.

Theorem gmulZ_clmul : forall a b, 0 <= a < 256 -> 0 <= b < 256 -> gmulZ a b = clmul a b.
Proof.
  intros a b Ha Hb. pose proof (sweep2 _ chk_mul_all a b Ha Hb) as H.
  unfold chk_mul in H. apply andb_true_iff in H as [H _]. apply Z.eqb_eq in H. exact H.
Qed.

Theorem lxor_byte : forall a b, 0 <= a < 256 -> 0 <= b < 256 -> 0 <= Z.lxor a b < 256.
Proof.
  intros a b Ha Hb. pose proof (sweep2 _ chk_mul_all a b Ha Hb) as H.
  unfold chk_mul, in_byte in H. apply andb_true_iff in H as [_ H].
  apply andb_true_iff in H as [H1 H2]. apply Z.leb_le in H1. apply Z.ltb_lt in H2. lia.
Qed.

Theorem gmulZ_3_distr : forall b c, 0 <= b < 256 -> 0 <= c < 256 ->
  gmulZ 3 (Z.lxor b c) = Z.lxor (gmulZ 3 b) (gmulZ 3 c).
Proof.
  intros b c Hb Hc. pose proof (sweep2 _ chk_dist3_all b c Hb Hc) as H.
  unfold chk_dist3 in H. apply Z.eqb_eq in H. exact H.
Qed.
