(* Proofs/HexP.v — C19: Block.parse_header(hex=...), CFilterMessage.__eq__. *)
From V Require Import Base.Prelude Base.Ints Model.Helper Model.Block Model.Gcs Model.Network Model.Hex
  Spec.P2P Proofs.HelperP Proofs.NetworkP Proofs.EnvelopeP Proofs.P2PSpecP Proofs.CodecExtraP.

Lemma hex_digit_val d : 0 <= d < 16 -> hex_space (hex_digit d) = false /\ hex_val (hex_digit d) = Some d.
Proof.
  intros H. assert (d = 0 \/ d = 1 \/ d = 2 \/ d = 3 \/ d = 4 \/ d = 5 \/ d = 6 \/ d = 7 \/ d = 8 \/
                    d = 9 \/ d = 10 \/ d = 11 \/ d = 12 \/ d = 13 \/ d = 14 \/ d = 15) as C by lia.
  repeat (destruct C as [-> | C]; [split; reflexivity|]). subst. split; reflexivity.
Qed.

Lemma hex_decode_encode b : bytes_ok b -> hex_decode (hex_encode b) = Ok b.
Proof.
  induction b as [|x r IH]; intros H; [reflexivity|].
  inversion H as [|? ? Hx Hr]; subst. unfold byte_ok in Hx.
  unfold hex_encode. cbn [flat_map app]. fold (hex_encode r).
  assert (0 <= x / 16 < 16) as H1 by (split; [apply Z.div_pos; lia | apply Z.div_lt_upper_bound; lia]).
  assert (0 <= x mod 16 < 16) as H2 by (apply Z.mod_pos_bound; lia).
  destruct (hex_digit_val _ H1) as [S1 V1]. destruct (hex_digit_val _ H2) as [_ V2].
  cbn [hex_decode]. rewrite S1, V1, V2, (IH Hr). cbn [bind]. do 2 f_equal.
  rewrite (Z.div_mod x 16) at 3 by lia. lia.
Qed.

Lemma hex_encode_nonnil b : b <> [] -> hex_encode b <> [].
Proof. destruct b; [congruence|]. discriminate. Qed.

(* the hex entry point reads the same header as the stream entry point *)
Lemma parse_header_hex_encode s :
  bytes_ok s -> s <> [] -> parse_header_hex (hex_encode s) = Ok (parse_header s).
Proof.
  intros H N. unfold parse_header_hex. pose proof (hex_encode_nonnil s N) as N'.
  destruct (hex_encode s) as [|c r] eqn:E; [congruence|]. rewrite <- E.
  now rewrite hex_decode_encode.
Qed.

Lemma header_hex_roundtrip h :
  header_wf h -> exists b, serialize_header h = Ok b /\ parse_header_hex (hex_encode b) = Ok (h, []).
Proof.
  intros W. destruct (header_roundtrip h [] W) as [b (E & L & P)]. exists b. split; [exact E|].
  rewrite app_nil_r in P. rewrite parse_header_hex_encode.
  - now rewrite P.
  - apply serialize_header_layout in E. subst b. destruct W as (_ & _ & _ & _ & _ & _ & B1 & B2 & B3 & B4).
    repeat (apply bytes_ok_app; split); try apply to_le_ok; try apply bytes_ok_rev; assumption.
  - intros ->. discriminate L.
Qed.

Lemma parse_header_hex_empty : parse_header_hex [] = Err.
Proof. reflexivity. Qed.

(* CFilterMessage.__eq__ holds exactly when the two messages have the same wire bytes *)
Lemma cfilter_eq_iff t1 bh1 fb1 t2 bh2 fb2 b1 b2 :
  length bh1 = 32%nat -> length bh2 = 32%nat ->
  zlen fb1 < 9223372036854775808 -> zlen fb2 < 9223372036854775808 ->
  cfilter_layout t1 bh1 fb1 = Ok b1 -> cfilter_layout t2 bh2 fb2 = Ok b2 ->
  (cfilter_eq (t1, bh1, fb1) (t2, bh2, fb2) = true <-> b1 = b2).
Proof.
  intros L1 L2 Z1 Z2 E1 E2. unfold cfilter_layout in E1, E2.
  destruct (encode_varstr fb1) as [f1|] eqn:F1; [|discriminate]. cbn [bind] in E1.
  destruct (encode_varstr fb2) as [f2|] eqn:F2; [|discriminate]. cbn [bind] in E2.
  apply Ok_inj in E1, E2. subst b1 b2. unfold cfilter_eq. split.
  - intros H. apply andb_true_iff in H as [H H3]. apply andb_true_iff in H as [H1 H2].
    apply Z.eqb_eq in H1. apply beq_eq in H2, H3. subst. rewrite F1 in F2. now apply Ok_inj in F2 as ->.
  - intros H. cbn [app] in H. assert (t1 = t2) as -> by congruence.
    assert (rev bh1 ++ f1 = rev bh2 ++ f2) as H' by congruence.
    apply app_inv_length in H' as [Hb Hf]; [|now rewrite !rev_length, L1, L2].
    apply (f_equal (@rev Z)) in Hb. rewrite !rev_involutive in Hb. subst bh2.
    assert (f1 ++ [] = f2 ++ []) as Hf' by now rewrite !app_nil_r.
    destruct (varstr_prefix_free fb1 fb2 f1 f2 [] [] Z1 Z2 F1 F2 Hf') as [-> _].
    now rewrite Z.eqb_refl, !beq_refl.
Qed.

(* short reads inside message payloads are not errors (the envelope length and checksum are
   the only protection against truncation) *)
Lemma message_short_reads_accepted :
  ping_parse [1; 2; 3] = ([1; 2; 3], []) /\
  cfcheckpt_parse (7 :: repeatz 9 32 ++ [2] ++ repeatz 5 32 ++ [6; 6])
    = Ok (7, repeatz 9 32, [repeatz 5 32; [6; 6]], []) /\
  cfheaders_parse (7 :: repeatz 9 32 ++ repeatz 8 32 ++ [3] ++ repeatz 5 32)
    = Ok (7, repeatz 9 32, repeatz 8 32, [repeatz 5 32; []; []], []) /\
  fst (parse_header [1; 0; 0; 0; 7]) =
    {| h_version := 1; h_prev := [7]; h_root := []; h_time := 0; h_bits := []; h_nonce := [] |}.
Proof. repeat split; reflexivity. Qed.
