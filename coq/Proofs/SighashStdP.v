(* Proofs/SighashStdP.v — C05: Tx.sig_hash equals Spec/SighashStd.std_sighash — the single function
   that tabulates which algorithm and which script code the standards prescribe for which kind of
   spent output, and the function the harness runs (extracted) against the implementation on every
   generated case — for every standard kind of spent output. *)
From V Require Import Base.Prelude Base.Ints Model.Helper Model.Script Model.Tx Model.Sighash
  Model.SighashAbs Spec.TxData Spec.TxWf Spec.SighashStd Proofs.HelperP Proofs.SighashP
  Proofs.SighashTaprootP Proofs.SighashDispatchP Proofs.SighashCorP Proofs.SighashKindsP.
From V Require Spec.Legacy Spec.Bip143 Spec.Bip341.

(* the specification's answer in the library's conventions: integers for the original algorithm
   and BIP143, bytes for BIP341; no answer = the library raises *)
Definition std_view (o : option std_out) : result sh_out :=
  match o with
  | None => Err
  | Some d =>
      Ok {| so_alg := sd_alg d; so_pre := sd_pre d;
            so_digest := if sd_alg d =? 341 then DBytes (sd_digest d) else DInt (from_be (sd_digest d)) |}
  end.

(* ---- classify on the byte templates ---- *)
Lemma classify_p2pkh h : length h = 20%nat -> classify (Bip143.p2wpkh_script_code h) = KP2PKH.
Proof.
  intros Hh. unfold Bip143.p2wpkh_script_code, classify. cbn [app].
  rewrite app_length, Hh. cbn [length Nat.add Nat.eqb andb].
  rewrite skipn_app. rewrite (skipn_all2 h) by lia. rewrite Hh. change (20 - 20)%nat with 0%nat. reflexivity.
Qed.
Lemma classify_p2sh h : length h = 20%nat -> classify (169 :: 20 :: h ++ [135]) = KP2SH.
Proof.
  intros Hh. unfold classify. rewrite app_length, Hh. cbn [length Nat.add Nat.eqb andb].
  rewrite skipn_app. rewrite (skipn_all2 h) by lia. rewrite Hh. change (20 - 20)%nat with 0%nat. reflexivity.
Qed.
Lemma classify_p2wpkh h : length h = 20%nat -> classify (0 :: 20 :: h) = KP2WPKH h.
Proof. intros Hh. unfold classify. now rewrite Hh. Qed.
Lemma classify_p2wsh h : length h = 32%nat -> classify (0 :: 32 :: h) = KP2WSH.
Proof. intros Hh. unfold classify. now rewrite Hh. Qed.
Lemma classify_p2tr h : length h = 32%nat -> classify (81 :: 32 :: h) = KP2TR.
Proof. intros Hh. unfold classify. now rewrite Hh. Qed.

(* ---- the raw bytes of the templates ---- *)
Lemma abs_p2sh h : length h = 20%nat -> abs_script (mk_script (p2sh_script h)) = Ok (169 :: 20 :: h ++ [135]).
Proof.
  intros Hh. unfold abs_script, raw_serialize, mk_script, p2sh_script. cbn [s_raw s_cmds ser_cmds ser_cmd].
  assert (Hz : zlen h = 20) by (unfold zlen; rewrite Hh; reflexivity).
  rewrite Hz. cbn [Z.ltb Z.leb Z.compare Pos.compare Pos.compare_cont orb bind app].
  replace (zlen (169 :: 20 :: h ++ [135])) with 23.
  2:{ unfold zlen. cbn [length]. rewrite app_length, Hh. reflexivity. }
  reflexivity.
Qed.
Lemma abs_program v h l :
  length h = l -> (l = 20%nat \/ l = 32%nat) -> (v = 0 \/ v = 81) ->
  abs_script (mk_script [Op v; Push h]) = Ok (v :: Z.of_nat l :: h).
Proof.
  intros Hh Hl Hv. unfold abs_script, raw_serialize, mk_script. cbn [s_raw s_cmds ser_cmds ser_cmd].
  assert (Hz : zlen h = Z.of_nat l) by (unfold zlen; now rewrite Hh).
  rewrite Hz.
  assert (E1 : (v <? 0) || (255 <? v) = false) by (destruct Hv as [-> | ->]; reflexivity). rewrite E1.
  assert (E2 : Z.of_nat l <=? 75 = true) by (destruct Hl as [-> | ->]; reflexivity). rewrite E2.
  cbn [bind app]. rewrite app_nil_r.
  assert (E3 : in_u64 (zlen (v :: Z.of_nat l :: h)) = true).
  { apply in_u64_spec. unfold zlen. cbn [length]. rewrite Hh. destruct Hl as [-> | ->]; cbn; lia. }
  now rewrite E3.
Qed.

Lemma coin_of sp coins idx s :
  abs_list abs_spent sp = Ok coins -> nth_error sp idx = Some s ->
  exists c, nth_error coins idx = Some c /\ cn_value c = sp_value s /\
            abs_script (sp_script s) = Ok (cn_script c) /\ in_u64 (sp_value s) = true.
Proof.
  intros Hsp Es. destruct (abs_list_nth _ _ _ _ _ Hsp Es) as [c [Ec Hc]].
  destruct (abs_spent_inv _ _ Hc) as (H1 & H2 & H3). exists c. auto.
Qed.

Lemma last_push_of sc raw : nth_last 0 (s_cmds sc) = Some (Push raw) -> last_push sc = Some raw.
Proof. unfold last_push. now intros ->. Qed.

Lemma rev_hd_of {A} (w : list A) x : nth_last 0 w = Some x -> exists r, rev w = x :: r.
Proof. unfold nth_last. destruct (rev w) as [|y r]; cbn; [discriminate|]. intros [= ->]. eauto. Qed.

Section S.
Variables hash256 sha256 hash_tapsighash hash_tapleaf : bytes -> bytes.
Variable xonly_ok : bytes -> bool.

Notation SIG_HASH := (sig_hash hash256 sha256 hash_tapsighash hash_tapleaf xonly_ok).
Notation STD := (std_sighash hash256 sha256 hash_tapsighash hash_tapleaf xonly_ok).

Lemma view_legacy cb ct idx ht :
  std_view (std_legacy hash256 cb ct idx ht) = Ok (legacy_out hash256 cb ct idx ht).
Proof. reflexivity. Qed.
Lemma view_bip143 cb amount ct idx ht :
  std_view (std_bip143 hash256 cb amount ct idx ht) = bip143_out hash256 cb amount ct idx ht.
Proof.
  unfold std_bip143, bip143_out. destruct (Bip143.preimage hash256 cb amount ct idx ht); reflexivity.
Qed.

Theorem sig_hash_std_p2pkh t ct sp coins idx ti s h ht m :
  standard_hash_type ht = true -> abs_tx t = Ok ct -> abs_list abs_spent sp = Ok coins ->
  nth_error (t_ins t) idx = Some ti -> nth_error sp idx = Some s ->
  sp_script s = mk_script (p2pkh_script h) -> length h = 20%nat ->
  rsnd (SIG_HASH t sp idx ht m) =
  std_view (STD ct coins idx ht (last_push (i_script ti)) (i_witness ti)).
Proof.
  intros Hht Ht Hsp Eti Es Hspk Hh.
  rewrite (sig_hash_p2pkh hash256 sha256 hash_tapsighash hash_tapleaf xonly_ok t ct sp idx ti s h ht m
             Hht Ht Eti Es Hspk Hh).
  destruct (coin_of sp coins idx s Hsp Es) as (c & Ec & _ & Habs & _).
  rewrite Hspk, (proj2 (p2wpkh_script_code_model h Hh)) in Habs. inversion Habs as [Hc].
  unfold std_sighash. rewrite Ec, <- Hc, (classify_p2pkh h Hh). reflexivity.
Qed.

Theorem sig_hash_std_p2wpkh t ct sp coins idx ti s h ht m :
  standard_hash_type ht = true -> abs_tx t = Ok ct -> abs_list abs_spent sp = Ok coins ->
  nth_error (t_ins t) idx = Some ti -> nth_error sp idx = Some s ->
  sp_script s = mk_script (p2wpkh_script h) -> length h = 20%nat ->
  rsnd (SIG_HASH t sp idx ht m) =
  std_view (STD ct coins idx ht (last_push (i_script ti)) (i_witness ti)).
Proof.
  intros Hht Ht Hsp Eti Es Hspk Hh.
  destruct (coin_of sp coins idx s Hsp Es) as (c & Ec & Hv & Habs & Hval).
  rewrite (sig_hash_p2wpkh hash256 sha256 hash_tapsighash hash_tapleaf xonly_ok t ct sp idx ti s h ht m
             Hht Ht Eti Es Hspk Hh Hval).
  rewrite Hspk in Habs. unfold p2wpkh_script in Habs.
  rewrite (abs_program 0 h 20 Hh (or_introl eq_refl) (or_introl eq_refl)) in Habs. inversion Habs as [Hc].
  unfold std_sighash. rewrite Ec, <- Hc. change (Z.of_nat 20) with 20. rewrite (classify_p2wpkh h Hh), Hv.
  now rewrite view_bip143.
Qed.

Theorem sig_hash_std_p2wsh t ct sp coins idx ti s h cs raw ht m :
  standard_hash_type ht = true -> abs_tx t = Ok ct -> abs_list abs_spent sp = Ok coins ->
  nth_error (t_ins t) idx = Some ti -> nth_error sp idx = Some s ->
  sp_script s = mk_script (p2wsh_script h) -> length h = 32%nat ->
  nth_last 0 (i_witness ti) = Some raw -> encodes cs raw ->
  rsnd (SIG_HASH t sp idx ht m) =
  std_view (STD ct coins idx ht (last_push (i_script ti)) (i_witness ti)).
Proof.
  intros Hht Ht Hsp Eti Es Hspk Hh Hraw Henc.
  destruct (coin_of sp coins idx s Hsp Es) as (c & Ec & Hv & Habs & Hval).
  rewrite (sig_hash_p2wsh hash256 sha256 hash_tapsighash hash_tapleaf xonly_ok t ct sp idx ti s h cs raw ht m
             Hht Ht Eti Es Hspk Hh Hval Hraw Henc).
  rewrite Hspk in Habs. unfold p2wsh_script in Habs.
  rewrite (abs_program 0 h 32 Hh (or_intror eq_refl) (or_introl eq_refl)) in Habs. inversion Habs as [Hc].
  destruct (rev_hd_of _ _ Hraw) as [r Hr].
  unfold std_sighash. rewrite Ec, <- Hc. change (Z.of_nat 32) with 32. rewrite (classify_p2wsh h Hh), Hr, Hv.
  now rewrite view_bip143.
Qed.

Theorem sig_hash_std_p2sh_p2wpkh t ct sp coins idx ti s h h20 ht m :
  standard_hash_type ht = true -> abs_tx t = Ok ct -> abs_list abs_spent sp = Ok coins ->
  nth_error (t_ins t) idx = Some ti -> nth_error sp idx = Some s ->
  sp_script s = mk_script (p2sh_script h) -> length h = 20%nat ->
  nth_last 0 (s_cmds (i_script ti)) = Some (Push (0 :: 20 :: h20)) -> length h20 = 20%nat ->
  rsnd (SIG_HASH t sp idx ht m) =
  std_view (STD ct coins idx ht (last_push (i_script ti)) (i_witness ti)).
Proof.
  intros Hht Ht Hsp Eti Es Hspk Hh Hred Hh20.
  destruct (coin_of sp coins idx s Hsp Es) as (c & Ec & Hv & Habs & Hval).
  rewrite (sig_hash_p2sh_p2wpkh hash256 sha256 hash_tapsighash hash_tapleaf xonly_ok t ct sp idx ti s h h20 ht m
             Hht Ht Eti Es Hspk Hh Hval Hred Hh20).
  rewrite Hspk, (abs_p2sh h Hh) in Habs. inversion Habs as [Hc].
  unfold std_sighash. rewrite Ec, <- Hc, (classify_p2sh h Hh), (last_push_of _ _ Hred),
    (classify_p2wpkh h20 Hh20), Hv.
  now rewrite view_bip143.
Qed.

Theorem sig_hash_std_p2sh_p2wsh t ct sp coins idx ti s h h32 cs raw ht m :
  standard_hash_type ht = true -> abs_tx t = Ok ct -> abs_list abs_spent sp = Ok coins ->
  nth_error (t_ins t) idx = Some ti -> nth_error sp idx = Some s ->
  sp_script s = mk_script (p2sh_script h) -> length h = 20%nat ->
  nth_last 0 (s_cmds (i_script ti)) = Some (Push (0 :: 32 :: h32)) -> length h32 = 32%nat ->
  nth_last 0 (i_witness ti) = Some raw -> encodes cs raw ->
  rsnd (SIG_HASH t sp idx ht m) =
  std_view (STD ct coins idx ht (last_push (i_script ti)) (i_witness ti)).
Proof.
  intros Hht Ht Hsp Eti Es Hspk Hh Hred Hh32 Hraw Henc.
  destruct (coin_of sp coins idx s Hsp Es) as (c & Ec & Hv & Habs & Hval).
  rewrite (sig_hash_p2sh_p2wsh hash256 sha256 hash_tapsighash hash_tapleaf xonly_ok t ct sp idx ti s h h32 cs raw
             ht m Hht Ht Eti Es Hspk Hh Hval Hred Hh32 Hraw Henc).
  rewrite Hspk, (abs_p2sh h Hh) in Habs. inversion Habs as [Hc].
  destruct (rev_hd_of _ _ Hraw) as [r Hr].
  unfold std_sighash. rewrite Ec, <- Hc, (classify_p2sh h Hh), (last_push_of _ _ Hred),
    (classify_p2wsh h32 Hh32), Hr, Hv.
  now rewrite view_bip143.
Qed.

(* P2SH with any other redeem script: the bytes of a command list that is not a witness program
   are not classified as one *)
Lemma classify_not_program cs raw :
  encodes cs raw -> is_p2wpkh cs = false -> is_p2wsh cs = false ->
  match classify raw with KP2WPKH _ | KP2WSH => False | _ => True end.
Proof.
  intros Henc Hk1 Hk2. destruct (script_convert_canonical cs raw Henc) as [Hconv _]. clear Henc.
  unfold classify.
  repeat match goal with
         | |- True => exact I
         | |- context [match ?x with _ => _ end] => is_var x; destruct x
         | |- context [if ?b then _ else _] => destruct b eqn:?
         end.
  all: match goal with E : (length ?r =? _)%nat = true |- _ => apply Nat.eqb_eq in E;
         pose proof (script_convert_program r ltac:(lia)) as Hp; unfold zlen in Hp; rewrite E in Hp;
         cbn [Z.of_nat Pos.of_succ_nat Pos.succ] in Hp; rewrite Hp in Hconv; inversion Hconv; subst cs;
         first [ cbn [is_p2wpkh] in Hk1; rewrite E in Hk1; discriminate
               | cbn [is_p2wsh] in Hk2; rewrite E in Hk2; discriminate ] end.
Qed.

Theorem sig_hash_std_p2sh t ct sp coins idx ti s h cs raw ht m :
  standard_hash_type ht = true -> abs_tx t = Ok ct -> abs_list abs_spent sp = Ok coins ->
  nth_error (t_ins t) idx = Some ti -> nth_error sp idx = Some s ->
  sp_script s = mk_script (p2sh_script h) -> length h = 20%nat ->
  nth_last 0 (s_cmds (i_script ti)) = Some (Push raw) -> encodes cs raw ->
  is_p2wpkh cs = false -> is_p2wsh cs = false ->
  rsnd (SIG_HASH t sp idx ht m) =
  std_view (STD ct coins idx ht (last_push (i_script ti)) (i_witness ti)).
Proof.
  intros Hht Ht Hsp Eti Es Hspk Hh Hred Henc Hk1 Hk2.
  destruct (coin_of sp coins idx s Hsp Es) as (c & Ec & Hv & Habs & Hval).
  rewrite (sig_hash_p2sh hash256 sha256 hash_tapsighash hash_tapleaf xonly_ok t ct sp idx ti s h cs raw ht m
             Hht Ht Eti Es Hspk Hh Hred Henc Hk1 Hk2).
  rewrite Hspk, (abs_p2sh h Hh) in Habs. inversion Habs as [Hc].
  pose proof (classify_not_program cs raw Henc Hk1 Hk2) as Hcl.
  unfold std_sighash. rewrite Ec, <- Hc, (classify_p2sh h Hh), (last_push_of _ _ Hred).
  destruct (classify raw); try contradiction; reflexivity.
Qed.

Lemma view_bip341 ct coins idx ht annex leaf :
  std_view (match Bip341.message sha256 hash_tapleaf ht ct coins idx annex leaf with
            | Some p => Some {| sd_alg := 341; sd_pre := Some p; sd_digest := hash_tapsighash p |}
            | None => None
            end) = bip341_out sha256 hash_tapsighash hash_tapleaf ct coins idx ht annex leaf.
Proof.
  unfold bip341_out. destruct (Bip341.message sha256 hash_tapleaf ht ct coins idx annex leaf); reflexivity.
Qed.

Theorem sig_hash_std_p2tr_keypath t ct sp coins idx ti s x ht m :
  standard_hash_type ht = true -> abs_tx t = Ok ct -> abs_list abs_spent sp = Ok coins ->
  length sp = length (t_ins t) ->
  nth_error (t_ins t) idx = Some ti -> nth_error sp idx = Some s ->
  sp_script s = mk_script (p2tr_script x) -> length x = 32%nat ->
  in_u32 (Z.of_nat idx) = true ->
  (forall a, annex_of (i_witness ti) = Some a -> in_u64 (zlen a) = true) ->
  zlen (snd (Bip341.split_annex (i_witness ti))) = 1 ->
  rsnd (SIG_HASH t sp idx ht m) =
  std_view (STD ct coins idx ht (last_push (i_script ti)) (i_witness ti)).
Proof.
  intros Hht Ht Hsp Hlen Eti Es Hspk Hx Hidx Hannex Hone.
  destruct (coin_of sp coins idx s Hsp Es) as (c & Ec & Hv & Habs & Hval).
  rewrite (sig_hash_p2tr_keypath hash256 sha256 hash_tapsighash hash_tapleaf xonly_ok t ct sp coins idx ti s x ht m
             Hht Ht Hsp Hlen Eti Es Hspk Hx Hidx Hannex Hone).
  rewrite Hspk in Habs. unfold p2tr_script in Habs.
  rewrite (abs_program 81 x 32 Hx (or_intror eq_refl) (or_intror eq_refl)) in Habs. inversion Habs as [Hc].
  unfold std_sighash. rewrite Ec, <- Hc. change (Z.of_nat 32) with 32. rewrite (classify_p2tr x Hx).
  unfold std_bip341, annex_of.
  destruct (Bip341.split_annex (i_witness ti)) as [annex stack]. cbn [fst snd] in *.
  destruct stack as [|e [|e2 r]]; unfold zlen in Hone; cbn [length] in Hone; try lia.
  rewrite view_bip341. reflexivity.
Qed.

Theorem sig_hash_std_p2tr_scriptpath t ct sp coins idx ti s x v scr c0 cs ht m :
  standard_hash_type ht = true -> abs_tx t = Ok ct -> abs_list abs_spent sp = Ok coins ->
  length sp = length (t_ins t) ->
  nth_error (t_ins t) idx = Some ti -> nth_error sp idx = Some s ->
  sp_script s = mk_script (p2tr_script x) -> length x = 32%nat ->
  in_u32 (Z.of_nat idx) = true ->
  (forall a, annex_of (i_witness ti) = Some a -> in_u64 (zlen a) = true) ->
  Bip341.script_path xonly_ok (snd (Bip341.split_annex (i_witness ti))) = Some (v, scr, c0) ->
  bytes_ok c0 -> encodes cs scr ->
  rsnd (SIG_HASH t sp idx ht m) =
  std_view (STD ct coins idx ht (last_push (i_script ti)) (i_witness ti)).
Proof.
  intros Hht Ht Hsp Hlen Eti Es Hspk Hx Hidx Hannex Hpath Hb Henc.
  destruct (coin_of sp coins idx s Hsp Es) as (c & Ec & Hv & Habs & Hval).
  rewrite (sig_hash_p2tr_scriptpath hash256 sha256 hash_tapsighash hash_tapleaf xonly_ok t ct sp coins idx ti s x
             v scr c0 cs ht m Hht Ht Hsp Hlen Eti Es Hspk Hx Hidx Hannex Hpath Hb Henc).
  rewrite Hspk in Habs. unfold p2tr_script in Habs.
  rewrite (abs_program 81 x 32 Hx (or_intror eq_refl) (or_intror eq_refl)) in Habs. inversion Habs as [Hc].
  unfold std_sighash. rewrite Ec, <- Hc. change (Z.of_nat 32) with 32. rewrite (classify_p2tr x Hx).
  unfold std_bip341, annex_of.
  destruct (Bip341.split_annex (i_witness ti)) as [annex stack]. cbn [fst snd] in *.
  assert (Hst : exists e1 e2 r, stack = e1 :: e2 :: r).
  { destruct stack as [|e1 [|e2 r]]; [discriminate Hpath|discriminate Hpath|]. exists e1, e2, r. reflexivity. }
  destruct Hst as (e1 & e2 & r & ->). rewrite Hpath. rewrite view_bip341. reflexivity.
Qed.

End S.
