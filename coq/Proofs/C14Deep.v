(* Proofs/C14Deep.v — compositions over the shipped BIP39 list:
   encoder = BIP-0039 sentence (Spec/Bip39S.v), decoder accepts exactly the spellings of the
   BIP-0039 sentence of the returned entropy, decode-then-encode, and the seed as a function
   of the entropy (any accepted spelling) and the passphrase. *)
From V Require Import Base.Prelude Base.Ints Proofs.BitsP Model.Mnemonic Model.Pbkdf2 Spec.Pbkdf2S Spec.Bip39S
  Proofs.MnemonicP Proofs.WordlistP Proofs.Pbkdf2P Proofs.SeedP Proofs.C14Glue Proofs.Bip39SpecP
  Generated.Wordlists.

(* ------------------------------------------------------------------ small helpers *)

Lemma join_sp_eq_spec ws : join_sp ws = join_space ws.
Proof.
  induction ws as [|w r IH]; [reflexivity|]. destruct r as [|w2 r']; [reflexivity|].
  change (join_sp (w :: w2 :: r')) with (w ++ 32 :: join_sp (w2 :: r')).
  change (join_space (w :: w2 :: r')) with (w ++ 32 :: join_space (w2 :: r')).
  now rewrite IH.
Qed.

Lemma wl_word_nth ws i w : 0 <= i < zlen ws -> nth_error ws (Z.to_nat i) = Some w ->
  wl_word ws i = Ok w.
Proof.
  intros Hi N. unfold wl_word. rewrite N.
  destruct (0 <=? i) eqn:A; destruct (i <? zlen ws) eqn:B; try lia. reflexivity.
Qed.

Lemma Forall2_functional {A B} (P : A -> B -> Prop) :
  (forall a b b', P a b -> P a b' -> b = b') ->
  forall l r r', Forall2 P l r -> Forall2 P l r' -> r = r'.
Proof.
  intros F l r r' H. revert r'. induction H as [|a b l r Hab _ IH]; intros r' H'.
  - now inversion H'.
  - inversion H' as [|? b' ? r'' Hab' Hr']; subst. f_equal; [eauto | now apply IH].
Qed.

Lemma Forall2_len {A B} (P : A -> B -> Prop) l r : Forall2 P l r -> zlen l = zlen r.
Proof. intros H. unfold zlen. f_equal. induction H; cbn [length]; congruence. Qed.

Lemma nth_words_Forall2 (words : list (list Z)) idx :
  Forall (fun i => 0 <= i < zlen words) idx ->
  Forall2 (fun i w => nth_error words (Z.to_nat i) = Some w) idx
          (map (fun i => nth (Z.to_nat i) words []) idx).
Proof.
  induction 1 as [|i r Hi _ IH]; cbn [map]; constructor; [|exact IH].
  apply nth_error_nth'. unfold zlen in Hi. lia.
Qed.

Lemma designates_range key i : designates key i -> 0 <= i < 2048.
Proof. intros [H _]. exact H. Qed.

Lemma W_len nw : valid_num_words nw = true ->
  In (Z.to_nat (4 * (nw / 3))) [16; 20; 24; 28; 32]%nat.
Proof.
  unfold valid_num_words. rewrite !orb_true_iff, !Z.eqb_eq.
  intros [[[[->| ->]| ->]| ->]| ->]; vm_compute; tauto.
Qed.

(* the words of a text decide the decoding *)
Lemma decode_by_indices sha256 m idx : Forall2 designates (split_ws m) idx ->
  mnemonic_to_bytes sha256 bip39_words m = indices_to_bytes sha256 idx.
Proof.
  intros D. unfold mnemonic_to_bytes. cbv zeta.
  assert (M : mapM (wl_index bip39_words) (split_ws m) = Ok idx).
  { apply mapM_Forall2. eapply Forall2_impl; [|exact D]. intros key i H. now apply bip39_lookup. }
  rewrite M, (Forall2_len _ _ _ D). cbn [bind].
  destruct (valid_num_words (zlen idx)) eqn:V; cbn [negb]; [reflexivity|].
  symmetry. now apply indices_bad_length.
Qed.

Lemma normalized_by_indices m idx : Forall2 designates (split_ws m) idx ->
  mapM (wl_normalize bip39_words) (split_ws m) =
  Ok (map (fun i => nth (Z.to_nat i) bip39_words []) idx).
Proof.
  intros D. destruct (bip39_normalized_words m idx D) as (ws & F & E). rewrite E. f_equal.
  eapply Forall2_functional; [|exact F|].
  - intros a b b' H1 H2. cbv beta in *. congruence.
  - apply nth_words_Forall2. eapply Forall2_right; [|exact D].
    intros key i H. rewrite (proj1 bip39_good). now apply designates_range in H.
Qed.

Section Deep.
  Variable sha256 : bytes -> bytes.
  Hypothesis sha_ok : forall x, exists h t, sha256 x = h :: t /\ 0 <= h < 256.

  (* (1) the encoder selects the words of the BIP-0039 sentence *)
  Theorem bip39_indices_eq_spec : forall e, ent_ok e ->
    bytes_to_indices sha256 e (8 * zlen e) = Ok (bip39_indices sha256 e).
  Proof.
    intros e He. destruct (sha_ok e) as (h & t & Hs & Hh). exact (indices_eq_spec sha256 e h t He Hs Hh).
  Qed.

  Theorem bip39_mnemonic_eq_spec : forall e, ent_ok e ->
    bytes_to_mnemonic sha256 bip39_words e (8 * zlen e) = Ok (bip39_sentence sha256 bip39_words e).
  Proof.
    intros e He. unfold bytes_to_mnemonic. rewrite (bip39_indices_eq_spec e He). cbn [bind].
    destruct (spec_indices_shape sha256 e He) as (_ & R).
    assert (M : mapM (wl_word bip39_words) (bip39_indices sha256 e) =
                Ok (map (fun i => nth (Z.to_nat i) bip39_words []) (bip39_indices sha256 e))).
    { apply mapM_Forall2.
      assert (R' : Forall (fun i => 0 <= i < zlen bip39_words) (bip39_indices sha256 e))
        by (rewrite (proj1 bip39_good); exact R).
      pose proof (nth_words_Forall2 bip39_words _ R') as F.
      revert R' F. generalize (bip39_indices sha256 e). intros idx R' F.
      induction F as [|i w idx ws N F IH]; constructor.
      - inversion R'; subst. now apply wl_word_nth.
      - inversion R'; subst. now apply IH. }
    rewrite M. cbn [bind]. unfold bip39_sentence. now rewrite join_sp_eq_spec.
  Qed.

  (* (2) a text is accepted, with result s, exactly when s is an admissible entropy and the
     words of the text designate (as full words or four-letter prefixes), one by one, the
     words of the BIP-0039 sentence of s *)
  Theorem bip39_accept_spec : forall m s,
    mnemonic_to_bytes sha256 bip39_words m = Ok s <->
    ent_ok s /\ Forall2 designates (split_ws m) (bip39_indices sha256 s).
  Proof.
    intros m s. split.
    - intros H. apply bip39_accept_iff in H. destruct H as (idx & D & V & Es & h & t & Hs & Hc).
      assert (R : Forall (fun i => 0 <= i < 2048) idx).
      { eapply Forall2_right; [|exact D]. intros key i. apply designates_range. }
      pose proof (W_facts _ V) as (W1 & W2 & W3). pose proof (W_len _ V) as WL.
      pose proof (from_digits_bound idx R) as B.
      set (n := zlen idx / 3) in *. set (Dg := from_digits idx) in *.
      rewrite W3 in Es.
      pose proof (pow2_pos n ltac:(lia)) as P.
      assert (Q : 0 <= Dg / 2 ^ n < pow256 (Z.to_nat (4 * n))).
      { split; [apply Z.div_pos; lia|]. apply Z.div_lt_upper_bound; [exact P|].
        rewrite pow256_pow2, Z2Nat.id, <- Z.pow_add_r by lia.
        rewrite pow2048_pow2 in B by lia. rewrite W2 in B.
        replace (n + 8 * (4 * n)) with (11 * (3 * n)) by lia. lia. }
      assert (He : ent_ok s).
      { subst s. split; [apply to_be_ok|]. rewrite to_be_length. exact WL. }
      assert (Ls : zlen s = 4 * n).
      { subst s. unfold zlen. rewrite to_be_length. lia. }
      assert (Ls4 : zlen s / 4 = n).
      { rewrite Ls. rewrite Z.mul_comm. apply Z.div_mul. lia. }
      split; [exact He|].
      assert (Hh : 0 <= h < 256).
      { destruct (sha_ok s) as (h' & t' & Hs' & Hh'). rewrite Hs in Hs'. now injection Hs' as -> _. }
      assert (E : idx = bip39_indices sha256 s).
      { destruct (spec_indices_shape sha256 s He) as (SL & SR).
        apply from_digits_inj; [| exact R | exact SR |].
        - apply Nat2Z.inj. fold (zlen idx). fold (zlen (bip39_indices sha256 s)). rewrite SL, Ls4. exact W2.
        - rewrite (spec_digits sha256 s h t He Hs Hh), Ls4.
          assert (Fb : from_be s = Dg / 2 ^ n) by (subst s; now apply from_be_to_be).
          rewrite Fb, <- Hc. fold Dg. pose proof (Z.div_mod Dg (2 ^ n) ltac:(lia)) as DM. lia. }
      rewrite <- E. exact D.
    - intros (He & D).
      rewrite (decode_by_indices sha256 m _ D).
      destruct (indices_roundtrip sha256 sha_ok s He) as (idx & E1 & E2 & _).
      rewrite (bip39_indices_eq_spec s He) in E1. apply Ok_inj in E1. now subst idx.
  Qed.

  (* (3) decode, then encode: the canonical sentence of the decoded entropy consists of the
     normalised (full) words of the accepted text *)
  Theorem bip39_decode_encode : forall m s,
    mnemonic_to_bytes sha256 bip39_words m = Ok s ->
    exists norm, mapM (wl_normalize bip39_words) (split_ws m) = Ok norm /\
                 bytes_to_mnemonic sha256 bip39_words s (8 * zlen s) = Ok (join_sp norm).
  Proof.
    intros m s H. apply bip39_accept_spec in H as (He & D).
    eexists. split; [exact (normalized_by_indices m _ D)|].
    rewrite (bip39_mnemonic_eq_spec s He). unfold bip39_sentence. reflexivity.
  Qed.

  (* two accepted texts decode to the same entropy exactly when they spell the same words *)
  Theorem bip39_same_entropy_same_words : forall m1 m2 s,
    mnemonic_to_bytes sha256 bip39_words m1 = Ok s ->
    (mnemonic_to_bytes sha256 bip39_words m2 = Ok s <->
     mapM (wl_normalize bip39_words) (split_ws m2) = mapM (wl_normalize bip39_words) (split_ws m1) /\
     mapM (wl_index bip39_words) (split_ws m2) = mapM (wl_index bip39_words) (split_ws m1)).
  Proof.
    intros m1 m2 s H1. apply bip39_accept_spec in H1 as (He & D1).
    assert (I : forall m idx, Forall2 designates (split_ws m) idx ->
                mapM (wl_index bip39_words) (split_ws m) = Ok idx).
    { intros m idx D. apply mapM_Forall2. eapply Forall2_impl; [|exact D].
      intros key i H. now apply bip39_lookup. }
    split.
    - intros H2. apply bip39_accept_spec in H2 as (_ & D2).
      rewrite (normalized_by_indices _ _ D1), (normalized_by_indices _ _ D2).
      rewrite (I _ _ D1), (I _ _ D2). split; reflexivity.
    - intros (_ & E). rewrite (I _ _ D1) in E. apply mapM_inv in E.
      apply bip39_accept_spec. split; [exact He|].
      eapply Forall2_impl; [|exact E]. intros key i H. now apply bip39_lookup.
  Qed.
End Deep.

(* ------------------------------------------------------------------ seed *)

Section DeepSeed.
  Variable sha256 : bytes -> bytes.
  Variable hmac_sha512 : bytes -> bytes -> bytes.

  (* (4) the seed, master key and chain code depend on the designated words only: full
     words, four-letter prefixes and any mixture / whitespace give the same result *)
  Theorem seed_spelling_invariant : forall m1 m2 idx pw,
    Forall2 designates (split_ws m1) idx -> Forall2 designates (split_ws m2) idx ->
    from_mnemonic sha256 hmac_sha512 bip39_words m1 pw =
    from_mnemonic sha256 hmac_sha512 bip39_words m2 pw.
  Proof.
    intros m1 m2 idx pw D1 D2. unfold from_mnemonic, mnemonic_seed.
    rewrite (decode_by_indices sha256 m1 idx D1), (decode_by_indices sha256 m2 idx D2).
    rewrite (normalized_by_indices m1 idx D1), (normalized_by_indices m2 idx D2). reflexivity.
  Qed.

  Hypothesis sha_ok : forall x, exists h t, sha256 x = h :: t /\ 0 <= h < 256.
  Hypothesis hmac_len : forall k m, zlen (hmac_sha512 k m) = 64.

  Lemma mnemonic_seed_from_entropy : forall e m pw, ent_ok e ->
    Forall2 designates (split_ws m) (bip39_indices sha256 e) ->
    mnemonic_seed sha256 hmac_sha512 bip39_words m pw =
    pbkdf2 hmac_sha512 64 (bip39_sentence sha256 bip39_words e) (s_mnemonic ++ pw) 2048 64.
  Proof.
    intros e m pw He D.
    assert (A : mnemonic_to_bytes sha256 bip39_words m = Ok e)
      by (apply (bip39_accept_spec sha256 sha_ok); now split).
    unfold mnemonic_seed. rewrite A. cbn [bind]. rewrite (normalized_by_indices m _ D). cbn [bind].
    rewrite (kdf_eq_rfc8018 hmac_sha512 hmac_len). reflexivity.
  Qed.

  (* (5) end to end from the entropy: whatever accepted spelling of the sentence of e is
     given, the seed is PBKDF2-HMAC-SHA512 (RFC 8018) of the BIP-0039 sentence with salt
     "mnemonic" || passphrase, 2048 rounds, 64 bytes; master key / chain code by from_seed *)
  Theorem seed_from_entropy : forall e m pw, ent_ok e ->
    Forall2 designates (split_ws m) (bip39_indices sha256 e) ->
    mnemonic_to_bytes sha256 bip39_words m = Ok e /\
    exists seed,
      pbkdf2 hmac_sha512 64 (bip39_sentence sha256 bip39_words e) (s_mnemonic ++ pw) 2048 64 = Ok seed /\
      zlen seed = 64 /\
      from_mnemonic sha256 hmac_sha512 bip39_words m pw =
        ('(k, c) <- from_seed hmac_sha512 seed ;; Ok (seed, k, c)).
  Proof.
    intros e m pw He D.
    assert (A : mnemonic_to_bytes sha256 bip39_words m = Ok e)
      by (apply (bip39_accept_spec sha256 sha_ok); now split).
    split; [exact A|].
    destruct (kdf_total hmac_sha512 hmac_len (bip39_sentence sha256 bip39_words e) (s_mnemonic ++ pw))
      as (seed & K & L).
    exists seed. split; [now rewrite <- (kdf_eq_rfc8018 hmac_sha512 hmac_len)|]. split; [exact L|].
    unfold from_mnemonic, mnemonic_seed. rewrite A. cbn [bind].
    rewrite (normalized_by_indices m _ D). cbn [bind].
    rewrite join_sp_eq_spec. fold (bip39_sentence sha256 bip39_words e). rewrite K. reflexivity.
  Qed.

  (* in particular for the text bytes_to_mnemonic returns *)
  Corollary seed_of_generated_mnemonic : forall e pw, ent_ok e ->
    exists m seed,
      bytes_to_mnemonic sha256 bip39_words e (8 * zlen e) = Ok m /\
      pbkdf2 hmac_sha512 64 m (s_mnemonic ++ pw) 2048 64 = Ok seed /\
      from_mnemonic sha256 hmac_sha512 bip39_words m pw =
        ('(k, c) <- from_seed hmac_sha512 seed ;; Ok (seed, k, c)).
  Proof.
    intros e pw He. pose proof (bip39_mnemonic_eq_spec sha256 sha_ok e He) as E.
    destruct (mnemonic_roundtrip sha256 sha_ok bip39_words bip39_good e He) as (m & E1 & E2).
    rewrite E in E1. apply Ok_inj in E1. subst m.
    apply (bip39_accept_spec sha256 sha_ok) in E2 as (_ & D).
    destruct (seed_from_entropy e _ pw He D) as (_ & seed & K & _ & F).
    exists (bip39_sentence sha256 bip39_words e), seed. now repeat split.
  Qed.
End DeepSeed.

Print Assumptions bip39_mnemonic_eq_spec.
Print Assumptions bip39_accept_spec.
Print Assumptions bip39_decode_encode.
Print Assumptions bip39_same_entropy_same_words.
Print Assumptions seed_spelling_invariant.
Print Assumptions seed_from_entropy.
Print Assumptions seed_of_generated_mnemonic.
