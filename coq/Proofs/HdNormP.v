(* Proofs/HdNormP.v — C08: the forgiving normalisation of is_valid_bip32_path /
   combine_bip32_paths (lower, strip, ' -> h, "//" -> "/") never changes what a path text MEANS
   to the traverse methods: whenever HDPrivateKey.traverse / HDPublicKey.traverse can read a text
   at all, they read its normalised form as the same index list ([indexes_norm]).
   Consequences: the text-level composition and blinding theorems hold for EVERY accepted text,
   without the side condition [tidy] ([parse_combine_accepted], [traverse_combined_accepted],
   [blind_xpub_correct_any]). *)
From V Require Import Base.Prelude Base.Ints Model.Pecc Model.Hd Generated.HdVersions
  Proofs.GroupHyp Proofs.HdP Proofs.HdPathP Proofs.HdCodecP Proofs.HdTextP.

(* ---------------------------------------------------------------- int() and trailing characters *)
Lemma lstrip_int_snoc_ws s e :
  is_ws_int e = true ->
  lstrip_int (s ++ [e]) = match lstrip_int s with [] => [] | t => t ++ [e] end.
Proof.
  intros He. induction s as [|c r IH]; cbn [app lstrip_int].
  - now rewrite He.
  - destruct (is_ws_int c); [exact IH | reflexivity].
Qed.

Lemma lstrip_int_snoc_nws s e :
  is_ws_int e = false -> lstrip_int (s ++ [e]) = lstrip_int s ++ [e].
Proof.
  intros He. induction s as [|c r IH]; cbn [app lstrip_int].
  - now rewrite He.
  - destruct (is_ws_int c); [exact IH | reflexivity].
Qed.

Lemma strip_int_snoc_ws s e : is_ws_int e = true -> strip_int (s ++ [e]) = strip_int s.
Proof.
  intros He. unfold strip_int. rewrite (lstrip_int_snoc_ws s e He).
  destruct (lstrip_int s) as [|c t]; [reflexivity|].
  rewrite rev_app_distr. cbn [rev app]. cbn [lstrip_int]. now rewrite He.
Qed.

Lemma strip_int_snoc_nws s e : is_ws_int e = false -> strip_int (s ++ [e]) = lstrip_int s ++ [e].
Proof.
  intros He. unfold strip_int. rewrite (lstrip_int_snoc_nws s e He), rev_app_distr.
  cbn [rev app]. cbn [lstrip_int]. rewrite He. cbn [rev]. now rewrite rev_involutive.
Qed.

Lemma dig_acc_snoc_bad e : is_digit e = false -> e <> 95 ->
  forall x a p, dig_acc a p (x ++ [e]) = Err.
Proof.
  intros Hd H95. apply Z.eqb_neq in H95. induction x as [|c r IH]; intros a p; cbn [app dig_acc].
  - now rewrite Hd, H95.
  - destruct (is_digit c); [apply IH|]. destruct ((c =? 95) && p); [apply IH | reflexivity].
Qed.

Lemma dig_lim_snoc_bad e x : is_digit e = false -> e <> 95 -> dig_lim (x ++ [e]) = Err.
Proof.
  intros Hd H95. unfold dig_lim. destruct (max_str_digits <? _); [reflexivity|].
  now apply dig_acc_snoc_bad.
Qed.

(* a trailing C-isspace character is invisible to int() *)
Lemma py_int_snoc_ws s e : is_ws_int e = true -> py_int (s ++ [e]) = py_int s.
Proof. intros He. unfold py_int. now rewrite strip_int_snoc_ws. Qed.

(* any other trailing character that is neither a digit nor "_" makes int() raise *)
Lemma py_int_snoc_bad s e :
  is_ws_int e = false -> is_digit e = false -> e <> 95 -> py_int (s ++ [e]) = Err.
Proof.
  intros Hw Hd H95. unfold py_int. rewrite (strip_int_snoc_nws s e Hw).
  destruct (lstrip_int s) as [|c t]; cbn [app].
  - destruct (e =? 43); [reflexivity|]. destruct (e =? 45); [reflexivity|].
    apply (dig_lim_snoc_bad e [] Hd H95).
  - destruct (c =? 43); [now apply dig_lim_snoc_bad|].
    destruct (c =? 45); [now rewrite dig_lim_snoc_bad|].
    apply (dig_lim_snoc_bad e (c :: t) Hd H95).
Qed.

Lemma ws_cases e : is_ws e = true ->
  is_ws_int e = true \/ (is_ws_int e = false /\ is_digit e = false /\ e <> 95 /\ e <> 39).
Proof. unfold is_ws, is_ws_int, is_digit. intros H. zb; try (right; repeat split; zb; lia); left; reflexivity. Qed.

Lemma py_int_drop_ws w : Forall (fun e => is_ws e = true) w ->
  forall s v, py_int (s ++ w) = Ok v -> py_int s = Ok v.
Proof.
  induction w as [|e w IH] using rev_ind; intros HF s v H.
  - now rewrite app_nil_r in H.
  - apply Forall_app in HF as [HFw HFe]. inversion HFe as [|? ? He _]; subst.
    rewrite app_assoc in H. destruct (ws_cases e He) as [Hi | (Hi & Hd & H95 & _)].
    + rewrite py_int_snoc_ws in H by exact Hi. now apply IH.
    + rewrite py_int_snoc_bad in H by assumption. discriminate.
Qed.

Lemma py_int_mark_err s : py_int (s ++ [39]) = Err.
Proof. apply py_int_snoc_bad; [reflexivity | reflexivity | discriminate]. Qed.

Lemma ends_with_39_err c : ends_with_c 39 c = true -> py_int c = Err.
Proof.
  unfold ends_with_c. intros H. destruct (rev c) as [|x r] eqn:E; [discriminate|].
  apply Z.eqb_eq in H. subst x.
  assert (Ec : c = rev r ++ [39]) by (rewrite <- (rev_involutive c), E; reflexivity).
  rewrite Ec. apply py_int_mark_err.
Qed.

(* one component followed by blanks that str.strip() would remove *)
Definition reader (ci : list Z -> result Z) : Prop := ci = comp_index_priv \/ ci = comp_index_pub.

Lemma comp_drop_ws ci w : reader ci -> Forall (fun e => is_ws e = true) w ->
  forall c v, ci (c ++ w) = Ok v -> ci c = Ok v.
Proof.
  intros Hci HF c v H. destruct w as [|e0 w0] using rev_ind; [now rewrite app_nil_r in H|]. clear IHw0.
  assert (He : is_ws e0 = true).
  { apply Forall_app in HF as [_ HFe]. now inversion HFe. }
  assert (E39 : ends_with_c 39 (c ++ w0 ++ [e0]) = false).
  { rewrite app_assoc, ends_with_last. apply Z.eqb_neq. intros ->. discriminate. }
  assert (Hp : py_int (c ++ w0 ++ [e0]) = Ok v).
  { destruct Hci as [-> | ->]; unfold comp_index_priv, comp_index_pub in H; rewrite E39 in H; exact H. }
  pose proof (py_int_drop_ws _ HF c v Hp) as Hc.
  assert (E39c : ends_with_c 39 c = false).
  { destruct (ends_with_c 39 c) eqn:E; [|reflexivity]. rewrite (ends_with_39_err c E) in Hc. discriminate. }
  destruct Hci as [-> | ->]; unfold comp_index_priv, comp_index_pub; rewrite E39c; exact Hc.
Qed.

Lemma reader_nil ci : reader ci -> ci [] = Err.
Proof. intros [-> | ->]; reflexivity. Qed.

(* ---------------------------------------------------------------- split and a trailing blank run *)
Fixpoint map_last {A} (f : A -> A) (l : list A) : list A :=
  match l with
  | [] => []
  | a :: r => match r with [] => [f a] | _ => a :: map_last f r end
  end.

Lemma map_last_cons2 {A} (f : A -> A) a b r : map_last f (a :: b :: r) = a :: map_last f (b :: r).
Proof. reflexivity. Qed.

Lemma tl_map_last {A} (f : A -> A) l : tl (map_last f l) = map_last f (tl l).
Proof. destruct l as [|a [|b r]]; reflexivity. Qed.

Lemma split_on_app_nosep sep X w : Forall (fun x => x <> sep) w ->
  split_on sep (X ++ w) = map_last (fun c => c ++ w) (split_on sep X).
Proof.
  intros Hw. induction X as [|x X IH]; cbn [app].
  - rewrite (split_on_nosep sep w Hw). reflexivity.
  - cbn [split_on]. destruct (x =? sep).
    + rewrite IH. destruct (split_on sep X) as [|c cs] eqn:E; [exfalso; eapply split_on_nonempty; eauto|].
      reflexivity.
    + rewrite IH. destruct (split_on sep X) as [|c cs] eqn:E; [exfalso; eapply split_on_nonempty; eauto|].
      destruct cs as [|d r]; reflexivity.
Qed.

Lemma mapM_cons {A B} (f : A -> result B) a r :
  mapM f (a :: r) = (b <- f a ;; t <- mapM f r ;; Ok (b :: t)).
Proof. reflexivity. Qed.

Lemma mapM_map_last (ci : list Z -> result Z) (f : list Z -> list Z) l idxs :
  (forall c v, ci (f c) = Ok v -> ci c = Ok v) ->
  mapM ci (map_last f l) = Ok idxs -> mapM ci l = Ok idxs.
Proof.
  intros Hf. revert idxs. induction l as [|a r IH]; intros idxs H; [exact H|].
  destruct r as [|b r'].
  - cbn [map_last] in H. rewrite mapM_cons in H |- *. apply bind_ok in H as (v & Hv & H).
    rewrite (Hf a v Hv). exact H.
  - rewrite map_last_cons2, mapM_cons in H. rewrite mapM_cons.
    apply bind_ok in H as (v & Hv & H). apply bind_ok in H as (t & Ht & H).
    rewrite Hv, (IH t Ht). exact H.
Qed.

Lemma mapM_nonempty (ci : list Z -> result Z) l idxs : ci [] = Err -> mapM ci l = Ok idxs -> Forall (fun c => c <> []) l.
Proof.
  intros Hn. revert idxs. induction l as [|a r IH]; intros idxs H; [constructor|].
  cbn [mapM] in H. apply bind_ok in H as (v & Hv & H). apply bind_ok in H as (t & Ht & _).
  constructor; [intros ->; congruence | eapply IH; eauto].
Qed.

Lemma split_on_cons sep x r :
  split_on sep (x :: r) =
  if x =? sep then [] :: split_on sep r
  else match split_on sep r with c :: cs => (x :: c) :: cs | [] => [[x]] end.
Proof. reflexivity. Qed.

(* all components after the first non-empty -> the text has no "//" *)
Lemma nodd_of_comps Z : Forall (fun c => c <> []) (tl (split_on 47 Z)) -> nodd Z = true.
Proof.
  induction Z as [|a t IH]; [reflexivity|]. destruct t as [|b r]; [reflexivity|].
  change (nodd (a :: b :: r)) with (negb ((a =? 47) && (b =? 47)) && nodd (b :: r)).
  intros H. rewrite split_on_cons in H. destruct (a =? 47) eqn:Ea.
  - cbn [tl] in H. destruct (b =? 47) eqn:Eb.
    + rewrite split_on_cons, Eb in H. inversion H as [|? ? Hx _]; congruence.
    + cbn [andb negb]. apply IH.
      set (S := split_on 47 (b :: r)) in *. destruct S as [|c cs]; cbn [tl]; [constructor|].
      inversion H; assumption.
  - cbn [andb negb]. apply IH.
    set (S := split_on 47 (b :: r)) in *. destruct S as [|c cs]; cbn [tl] in *; [constructor | exact H].
Qed.

(* ---------------------------------------------------------------- strip = text minus trailing blanks *)
Lemma lstrip_decomp t : exists w, t = w ++ lstrip t /\ Forall (fun e => is_ws e = true) w.
Proof.
  induction t as [|c r (w & Hw & HF)]; [exists []; split; [reflexivity | constructor]|].
  cbn [lstrip]. destruct (is_ws c) eqn:E.
  - exists (c :: w). split; [cbn [app]; now rewrite <- Hw | constructor; assumption].
  - exists []. split; [reflexivity | constructor].
Qed.

Lemma strip_decomp q : lstrip q = q ->
  exists w, q = strip q ++ w /\ Forall (fun e => is_ws e = true) w.
Proof.
  intros Hq. unfold strip. rewrite Hq. destruct (lstrip_decomp (rev q)) as (w & Hw & HF).
  exists (rev w). split; [|now apply Forall_rev].
  rewrite <- rev_app_distr, <- Hw. symmetry. apply rev_involutive.
Qed.

(* ---------------------------------------------------------------- the main lemma *)
Definition tr' (c : Z) : Z := if c =? 104 then 39 else c.
Definition g104 (c : Z) : Z := if c =? 39 then 104 else c.

Lemma tr_lower x : tr x = tr' (lower_c x).
Proof. reflexivity. Qed.

Lemma ws_not_special e : is_ws e = true -> e <> 47 /\ tr' e = e.
Proof. unfold is_ws, tr'. intros H. split; zb. Qed.

Lemma tr'_sep x : (tr' x =? 47) = (x =? 47).
Proof. unfold tr'. zb. Qed.

Lemma g104_sep x : (g104 x =? 47) = (x =? 47).
Proof. unfold g104. zb. Qed.

Lemma tr_g104 x : ~ (65 <= x <= 90) -> tr (g104 x) = tr' x.
Proof. unfold tr, g104, tr', lower_c. intros H. zb. Qed.

Lemma map_tl' {A B} (f : A -> B) l : map f (tl l) = tl (map f l).
Proof. destruct l; reflexivity. Qed.

Lemma map_nonempty {A B} (f : A -> B) (l : list (list A)) :
  Forall (fun c => c <> []) (map (map f) l) -> Forall (fun c => c <> []) l.
Proof.
  induction l as [|a r IH]; intros H; [constructor|]. inversion H as [|? ? Ha Hr]; subst.
  constructor; [intros ->; apply Ha; reflexivity | now apply IH].
Qed.

Lemma map_nonempty' {A B} (f : A -> B) (l : list (list A)) :
  Forall (fun c => c <> []) l -> Forall (fun c => c <> []) (map (map f) l).
Proof.
  induction 1 as [|a r Ha _ IH]; [constructor|]. cbn [map]. constructor; [|exact IH].
  destruct a; [congruence | discriminate].
Qed.

(* whatever a traverse method reads out of a text, it reads out of the normalised text too *)
Theorem indexes_norm ci p l :
  reader ci -> path_indexes_gen ci p = Ok l -> path_indexes_gen ci (norm_valid p) = Ok l.
Proof.
  intros Hci H. unfold path_indexes_gen in H. apply bind_ok in H as (cs & Hcs & Hl).
  unfold path_components in Hcs. rewrite norm_trav_map in Hcs.
  set (q := lower p) in *.
  assert (Eq : map tr p = map tr' q).
  { unfold q, lower. rewrite map_map. apply map_ext. intros x. apply tr_lower. }
  rewrite Eq in Hcs.
  destruct (starts_with [109] (map tr' q)) eqn:Es; [|discriminate]. apply Ok_inj in Hcs.
  (* q starts with "m" *)
  destruct q as [|h q'] eqn:Eqq; [discriminate|].
  cbn [map starts_with] in Es. rewrite andb_true_r in Es. apply Z.eqb_eq in Es.
  assert (Hh : h = 109).
  { unfold tr' in Es. destruct (Z.eqb_spec h 104); [lia | congruence]. }
  subst h. rewrite <- Eqq in *.
  assert (Hls : lstrip q = q) by (rewrite Eqq; reflexivity).
  destruct (strip_decomp q Hls) as (w & Hqw & HFw).
  set (X := strip q) in *.
  assert (HX : exists X', X = 109 :: X').
  { destruct X as [|x0 X'].
    - cbn [app] in Hqw. rewrite Eqq in Hqw. rewrite <- Hqw in HFw. inversion HFw as [|? ? Hbad _]. discriminate.
    - rewrite Eqq in Hqw. cbn [app] in Hqw. injection Hqw as <- _. eauto. }
  destruct HX as (X' & EX).
  (* components of q = components of X with the blanks glued to the last one *)
  assert (Ew : map tr' w = w).
  { apply (map_id_on tr' (fun e => is_ws e = true)); [|exact HFw]. intros e He. apply ws_not_special, He. }
  assert (Hw47 : Forall (fun x => x <> 47) w).
  { eapply Forall_impl; [|exact HFw]. intros e He. apply ws_not_special, He. }
  rewrite Hqw, map_app, Ew, (split_on_app_nosep 47 _ w Hw47), tl_map_last in Hcs.
  set (S' := split_on 47 (map tr' X)) in *.
  assert (Hl' : mapM ci (tl S') = Ok l).
  { subst cs. eapply mapM_map_last; [|exact Hl]. intros c v. apply (comp_drop_ws ci w Hci HFw). }
  (* no "//" in X, hence the normalised text is X with ' -> h *)
  pose proof (mapM_nonempty ci _ _ (reader_nil ci Hci) Hl') as Hne.
  assert (HneX : Forall (fun c => c <> []) (tl (split_on 47 X))).
  { unfold S' in Hne. rewrite (split_on_map tr' 47 X tr'_sep) in Hne.
    rewrite <- map_tl' in Hne. now apply map_nonempty in Hne. }
  assert (Enorm : norm_valid p = map g104 X).
  { unfold norm_valid. fold q. fold X. unfold repl_c. fold g104.
    change (map (fun c => if c =? 39 then 104 else c) X) with (map g104 X).
    apply repl_dslash_nodd, nodd_of_comps.
    rewrite (split_on_map g104 47 X g104_sep), <- map_tl'. now apply map_nonempty'. }
  (* what traverse reads out of it *)
  assert (HXlow : Forall (fun c => ~ (65 <= c <= 90)) X).
  { unfold X. apply strip_Forall. unfold q, lower. apply Forall_forall. intros y Hy.
    apply in_map_iff in Hy as (z & <- & _). unfold lower_c. zb. }
  assert (Etr : map tr (map g104 X) = map tr' X).
  { rewrite map_map. apply map_ext_in. intros x Hx. rewrite Forall_forall in HXlow. apply tr_g104, HXlow, Hx. }
  unfold path_indexes_gen, path_components. rewrite Enorm, norm_trav_map, Etr.
  rewrite EX. cbn [map]. change (tr' 109) with 109.
  change (starts_with [109] (109 :: map tr' X')) with true. cbv iota. cbn [bind].
  unfold S' in Hl'. rewrite EX in Hl'. cbn [map] in Hl'. change (tr' 109) with 109 in Hl'. exact Hl'.
Qed.

Lemma indexes_norm_priv p l : path_indexes_priv p = Ok l -> path_indexes_priv (norm_valid p) = Ok l.
Proof. rewrite !path_indexes_priv_gen. apply indexes_norm. left. reflexivity. Qed.

Lemma indexes_norm_pub p l : path_indexes_pub p = Ok l -> path_indexes_pub (norm_valid p) = Ok l.
Proof. rewrite !path_indexes_pub_gen. apply indexes_norm. right. reflexivity. Qed.

(* ---------------------------------------------------------------- consequences *)
(* text-level composition for every pair of texts that is_valid accepts and traverse can read *)
Theorem parse_combine_accepted ci a b x y :
  reader ci -> is_valid_path a = true -> is_valid_path b = true ->
  path_indexes_gen ci a = Ok x -> path_indexes_gen ci b = Ok y ->
  exists z, combine_paths a b = Ok z /\ path_indexes_gen ci z = Ok (x ++ y).
Proof.
  intros Hci Va Vb Ha Hb. destruct (combine_indexes a b Va Vb) as (z & Hz & H).
  exists z. split; [exact Hz|].
  rewrite (H ci), (indexes_norm ci a x Hci Ha), (indexes_norm ci b y Hci Hb). reflexivity.
Qed.

Section Consequences.
Variable C : curve.
Variable hmac512 : bytes -> bytes -> bytes.
Variable hash160 : bytes -> bytes.

Theorem traverse_combined_accepted k a b k1 k2 :
  is_valid_path a = true -> is_valid_path b = true ->
  traverse_priv C hmac512 hash160 k a = Ok k1 -> traverse_priv C hmac512 hash160 k1 b = Ok k2 ->
  exists z, combine_paths a b = Ok z /\ traverse_priv C hmac512 hash160 k z = Ok k2.
Proof.
  intros Va Vb H1 H2. rewrite traverse_priv_eq in H1, H2.
  apply bind_ok in H1 as (x & Hx & D1). apply bind_ok in H2 as (y & Hy & D2).
  rewrite path_indexes_priv_gen in Hx, Hy.
  destruct (parse_combine_accepted comp_index_priv a b x y (or_introl eq_refl) Va Vb Hx Hy) as (z & Hz & Hi).
  exists z. split; [exact Hz|].
  rewrite traverse_priv_eq, path_indexes_priv_gen, Hi. cbn [bind]. rewrite derive_priv_app, D1. exact D2.
Qed.

Theorem traverse_pub_combined_accepted k a b k1 k2 :
  is_valid_path a = true -> is_valid_path b = true ->
  traverse_pub C hmac512 hash160 k a = Ok k1 -> traverse_pub C hmac512 hash160 k1 b = Ok k2 ->
  exists z, combine_paths a b = Ok z /\ traverse_pub C hmac512 hash160 k z = Ok k2.
Proof.
  intros Va Vb H1 H2. rewrite traverse_pub_eq in H1, H2.
  apply bind_ok in H1 as (x & Hx & D1). apply bind_ok in H2 as (y & Hy & D2).
  rewrite path_indexes_pub_gen in Hx, Hy.
  destruct (parse_combine_accepted comp_index_pub a b x y (or_intror eq_refl) Va Vb Hx Hy) as (z & Hz & Hi).
  exists z. split; [exact Hz|].
  rewrite traverse_pub_eq, path_indexes_pub_gen, Hi. cbn [bind]. rewrite derive_pub_app, D1. exact D2.
Qed.

Hypothesis sec_roundtrip : forall P s, valid C P -> sec P true = Ok s -> parse_point C s = Ok P.
Hypothesis SL : scalar_laws C.

(* blind_xpub_correct for arbitrary text: no tidiness assumption on either path *)
Theorem blind_xpub_correct_any root sp secret ks raw x full :
  wf_priv C root ->
  traverse_priv C hmac512 hash160 root sp = Ok ks ->
  codec_ok_pub C (pub_of ks) (sk_pubver ks) ->
  xpub_raw (pub_of ks) None = Ok raw ->
  blind_xpub C hmac512 hash160 raw sp secret = Ok (x, full) ->
  combine_paths sp secret = Ok full /\
  exists kf, traverse_priv C hmac512 hash160 root full = Ok kf /\ xpub_raw (pub_of kf) None = Ok x.
Proof.
  intros Hwf Hsp Hok Hraw Hb.
  unfold blind_xpub in Hb. apply bind_ok in Hb as (k0 & Hk0 & Hb).
  destruct (negb (pk_depth k0 =? count_c 47 sp)); [discriminate|].
  apply bind_ok in Hb as (c & Hc & Hb). apply bind_ok in Hb as (x' & Hx & Hb).
  apply bind_ok in Hb as (full' & Hfull & Hb). inversion Hb; subst x' full'. clear Hb.
  split; [exact Hfull|].
  unfold xpub_raw in Hraw. cbn [pub_of pk_ver] in Hraw.
  destruct (xpub_roundtrip C sec_roundtrip _ _ _ Hok Hraw) as (_ & Hparse).
  rewrite Hparse in Hk0.
  assert (Ek0 : k0 = with_net (pub_of ks) (net_of_xpub (sk_pubver ks)))
    by (injection Hk0 as <-; reflexivity).
  clear Hk0. subst k0.
  rewrite traverse_pub_eq in Hc. apply bind_ok in Hc as (l & Hl & Hd).
  rewrite derive_pub_with_net in Hd. apply bind_ok in Hd as (c' & Hd & Hc'). inversion Hc'; subst c. clear Hc'.
  rewrite xpub_raw_with_net in Hx.
  assert (Hfin : pk c' <> None).
  { intros E. unfold xpub_raw, ser_pub in Hx. rewrite E in Hx.
    destruct (int_to_byte (pk_depth c')); cbn [bind] in Hx; [|discriminate].
    destruct (int_to_be (pk_num c') 4); cbn [bind] in Hx; discriminate. }
  rewrite traverse_priv_eq in Hsp. apply bind_ok in Hsp as (lsp & Hlsp & Hdsp).
  pose proof (derive_priv_wf C hmac512 hash160 lsp root ks Hwf Hdsp) as Hwfs.
  destruct (derive_commute_rev C hmac512 hash160 SL l ks c' Hwfs Hd Hfin) as (kf & Hkf & Epub & _).
  exists kf. split; [|rewrite Epub; exact Hx].
  destruct (combine_valid _ _ _ Hfull) as [Va Vb].
  pose proof (path_indexes_pub_priv _ _ Hl) as Hl'. rewrite path_indexes_priv_gen in Hl', Hlsp.
  destruct (parse_combine_accepted comp_index_priv sp secret lsp l (or_introl eq_refl) Va Vb Hlsp Hl')
    as (z & Hz & Hidx).
  rewrite Hfull in Hz. inversion Hz; subst z. clear Hz.
  rewrite traverse_priv_eq, path_indexes_priv_gen, Hidx. cbn [bind].
  rewrite derive_priv_app, Hdsp. cbn [bind]. exact Hkf.
Qed.
End Consequences.
