(* Proofs/BcurStrP.v — the string layer of buidl/bcur.py (Model/BcurStr.v):
   strip / split / int() / str() lemmas, the header parser inverts the f-strings of encode,
   BCURSingle.parse / BCURMulti.parse on strings = the field-level functions after the header
   parser (refinement), string-level round trips. *)
From V Require Import Base.Prelude Base.Ints Base.Lfsr Model.Helper Model.Base58 Model.Bech32
  Model.Bcur Model.BcurStr Proofs.Base58P Proofs.PolymodP Proofs.Bech32DetectP
  Proofs.ConvertbitsP Proofs.BcurP Proofs.Bc32P Proofs.Bc32SubP.

(* ---------- strip ---------- *)

Lemma lstrip_hd s : is_ws (hd 0 s) = false -> lstrip s = s.
Proof. destruct s as [|c r]; [reflexivity|]. cbn [hd lstrip]. now intros ->. Qed.

Lemma lstrip_app v w : is_ws (hd 0 w) = false -> lstrip (v ++ w) = lstrip v ++ w.
Proof.
  intros Hh. induction v as [|c r IH]; cbn [app lstrip].
  - now apply lstrip_hd.
  - destruct (is_ws c); [exact IH|reflexivity].
Qed.

Lemma rstrip_nows v : is_ws (hd 0 (rev v)) = false -> rstrip v = v.
Proof. intros H. unfold rstrip. rewrite lstrip_hd by exact H. apply rev_involutive. Qed.

Lemma strip_ends s : is_ws (hd 0 s) = false -> is_ws (hd 0 (rev s)) = false -> strip s = s.
Proof. intros H1 H2. unfold strip. rewrite (lstrip_hd s H1). now apply rstrip_nows. Qed.

Lemma strip_app u v : u <> [] -> is_ws (hd 0 u) = false -> is_ws (hd 0 (rev u)) = false ->
  strip (u ++ v) = u ++ rstrip v.
Proof.
  intros Hu H1 H2. unfold strip, rstrip.
  rewrite (lstrip_hd (u ++ v)) by (destruct u; [congruence|exact H1]).
  rewrite rev_app_distr, (lstrip_app (rev v) (rev u) H2), rev_app_distr, rev_involutive.
  reflexivity.
Qed.

Definition nows (c : Z) : Prop := is_ws c = false.

Lemma Forall_hd0 (P : Z -> Prop) s : P 0 -> Forall P s -> P (hd 0 s).
Proof. intros H0 H. destruct H; [exact H0|assumption]. Qed.

Lemma hd_rev_app z l : l <> [] -> hd 0 (rev (z ++ l)) = hd 0 (rev l).
Proof.
  intros H. rewrite rev_app_distr. destruct (rev l) as [|c r] eqn:E; [|reflexivity].
  exfalso. apply H. rewrite <- (rev_involutive l), E. reflexivity.
Qed.

Lemma strip_nows s : Forall nows s -> strip s = s.
Proof.
  intros H. apply strip_ends.
  - apply (Forall_hd0 nows); [reflexivity|exact H].
  - apply (Forall_hd0 nows); [reflexivity|]. apply Forall_rev. exact H.
Qed.

(* ---------- split("/") ---------- *)

Lemma split_on_nonempty sep s : split_on sep s <> [].
Proof.
  destruct s as [|x r]; cbn [split_on]; [discriminate|].
  destruct (x =? sep); [discriminate|]. unfold cons_hd. destruct (split_on sep r); discriminate.
Qed.

Lemma split_on_app sep a b :
  split_on sep (a ++ sep :: b) = split_on sep a ++ split_on sep b.
Proof.
  induction a as [|x r IH]; cbn [app split_on].
  - rewrite Z.eqb_refl. reflexivity.
  - destruct (x =? sep); rewrite IH; [reflexivity|].
    pose proof (split_on_nonempty sep r). destruct (split_on sep r); [congruence|reflexivity].
Qed.

Lemma split_on_nosep sep s : Forall (fun c => c <> sep) s -> split_on sep s = [s].
Proof.
  induction 1 as [|x r Hx Hr IH]; [reflexivity|]. cbn [split_on].
  destruct (x =? sep) eqn:E; [lia|]. now rewrite IH.
Qed.

Lemma split_on_single sep s : length (split_on sep s) = 1%nat ->
  split_on sep s = [s] /\ Forall (fun c => c <> sep) s.
Proof.
  induction s as [|x r IH]; cbn [split_on]; [intros _; split; [reflexivity|constructor]|].
  destruct (x =? sep) eqn:E.
  - cbn [length]. pose proof (split_on_nonempty sep r).
    destruct (split_on sep r); [congruence|cbn [length]; lia].
  - destruct (split_on sep r) as [|c cs] eqn:ES; [exfalso; eapply split_on_nonempty; eauto|].
    cbn [cons_hd length]. intros HL. destruct cs; [|cbn [length] in HL; lia].
    destruct (IH eq_refl) as [I1 I2]. injection I1 as ->.
    split; [reflexivity|constructor; [lia|exact I2]].
Qed.

(* ---------- split("of") ---------- *)

Lemma split_of_cons x r : x <> 111 -> split_of (x :: r) = cons_hd x (split_of r).
Proof.
  intros H. destruct r as [|y r']; [reflexivity|].
  change (split_of (x :: y :: r')) with
    (if (x =? 111) && (y =? 102) then [] :: split_of r' else cons_hd x (split_of (y :: r'))).
  destruct (x =? 111) eqn:E; [lia|]. reflexivity.
Qed.

Lemma split_of_noo s : Forall (fun c => c <> 111) s -> split_of s = [s].
Proof.
  induction 1 as [|x r Hx Hr IH]; [reflexivity|]. rewrite split_of_cons by exact Hx.
  now rewrite IH.
Qed.

Lemma split_of_app a b : Forall (fun c => c <> 111) a ->
  split_of (a ++ 111 :: 102 :: b) = a :: split_of b.
Proof.
  induction 1 as [|x r Hx Hr IH]; [reflexivity|].
  cbn [app]. rewrite split_of_cons by exact Hx. now rewrite IH.
Qed.

(* ---------- str(n) and int(str(n)) ---------- *)

Definition digitP (c : Z) : Prop := 48 <= c <= 57.

Lemma dec_aux_shape fuel : forall n acc, 0 <= n ->
  exists pre, dec_aux fuel n acc = pre ++ acc /\ Forall digitP pre /\
              (length pre <= fuel)%nat /\ (fuel <> O -> pre <> []).
Proof.
  induction fuel as [|f IH]; intros n acc Hn.
  - exists []. cbn. repeat split; auto.
  - cbn [dec_aux]. pose proof (Z.mod_pos_bound n 10 ltac:(lia)) as MB.
    destruct (n <? 10) eqn:E.
    + exists [48 + n mod 10]. repeat split; [constructor; [unfold digitP; lia|constructor]|cbn; lia|discriminate].
    + destruct (IH (n / 10) ((48 + n mod 10) :: acc) ltac:(apply Z.div_pos; lia)) as [pre [E1 [F1 [L1 _]]]].
      exists (pre ++ [48 + n mod 10]). rewrite E1, <- app_assoc. split; [reflexivity|].
      split; [apply Forall_app; split; [exact F1|constructor; [unfold digitP; lia|constructor]]|].
      split; [rewrite app_length; cbn; lia|]. intros _ H. apply app_eq_nil in H as [_ H]. discriminate.
Qed.

Lemma digit_is c : digitP c -> is_digit c = true.
Proof. unfold digitP, is_digit. intros H. destruct (48 <=? c) eqn:A; destruct (c <=? 57) eqn:B; try reflexivity; lia. Qed.

Lemma dec_aux_S f n acc :
  dec_aux (S f) n acc = if n <? 10 then (48 + n mod 10) :: acc
                        else dec_aux f (n / 10) ((48 + n mod 10) :: acc).
Proof. reflexivity. Qed.

Lemma dec_aux_value f : forall n acc, 0 <= n < 2 ^ Z.of_nat (S f) ->
  dig_acc 0 false (dec_aux (S f) n acc) = dig_acc n true acc.
Proof.
  induction f as [|f IH]; intros n acc Hn; rewrite dec_aux_S;
    pose proof (Z.mod_pos_bound n 10 ltac:(lia)) as MB;
    assert (D : is_digit (48 + n mod 10) = true) by (apply digit_is; unfold digitP; lia).
  - change (2 ^ Z.of_nat 1) with 2 in Hn. destruct (n <? 10) eqn:E; [|lia].
    cbn [dig_acc]. rewrite D. f_equal. rewrite Z.mod_small by lia. lia.
  - destruct (n <? 10) eqn:E.
    + cbn [dig_acc]. rewrite D. f_equal. rewrite Z.mod_small by lia. lia.
    + rewrite IH.
      * cbn [dig_acc]. rewrite D. f_equal. pose proof (Z.div_mod n 10 ltac:(lia)). lia.
      * rewrite (Nat2Z.inj_succ (S f)), Z.pow_succ_r in Hn by lia. split; [apply Z.div_pos; lia|].
        apply Z.div_lt_upper_bound; lia.
Qed.

Lemma lstrip_int_hd s : is_ws_int (hd 0 s) = false -> lstrip_int s = s.
Proof. destruct s as [|c r]; [reflexivity|]. cbn [hd lstrip_int]. now intros ->. Qed.

Lemma strip_int_ends s : is_ws_int (hd 0 s) = false -> is_ws_int (hd 0 (rev s)) = false ->
  strip_int s = s.
Proof.
  intros H1 H2. unfold strip_int. rewrite (lstrip_int_hd s H1), (lstrip_int_hd (rev s) H2).
  apply rev_involutive.
Qed.

(* characters of str(n): digits and '-' *)
Definition hdrc (c : Z) : Prop := digitP c \/ c = 45.

Lemma hdrc_facts c : hdrc c ->
  c <> 47 /\ c <> 111 /\ is_ws c = false /\ lower_c c = c /\ is_ws_int c = false.
Proof.
  unfold hdrc, digitP. intros H.
  split; [lia|]. split; [lia|]. split; [|split].
  - unfold is_ws. destruct (9 <=? c) eqn:A; destruct (c <=? 13) eqn:B; destruct (28 <=? c) eqn:C;
      destruct (c <=? 32) eqn:D; try reflexivity; exfalso; lia.
  - unfold lower_c. destruct (65 <=? c) eqn:A; destruct (c <=? 90) eqn:B; try reflexivity; exfalso; lia.
  - unfold is_ws_int. destruct (9 <=? c) eqn:A; destruct (c <=? 13) eqn:B; destruct (c =? 32) eqn:C;
      try reflexivity; exfalso; lia.
Qed.

Lemma str_nat_shape n : 0 <= n ->
  str_nat n <> [] /\ Forall digitP (str_nat n) /\
  (length (str_nat n) <= S (Z.to_nat (Z.log2 n)))%nat.
Proof.
  intros Hn. unfold str_nat.
  destruct (dec_aux_shape (S (Z.to_nat (Z.log2 n))) n [] Hn) as [pre [E [F [L N]]]].
  rewrite E, app_nil_r. split; [apply N; discriminate|]. split; assumption.
Qed.

Lemma filter_digits s : Forall digitP s -> filter is_digit s = s.
Proof.
  induction 1 as [|c r Hc Hr IH]; [reflexivity|]. cbn [filter]. rewrite (digit_is c Hc). now rewrite IH.
Qed.

Lemma log2_small n : 0 <= n < 2 ^ 64 -> Z.log2 n < 64.
Proof.
  intros H. destruct (Z.eq_dec n 0) as [->|NZ]; [cbn; lia|]. apply Z.log2_lt_pow2; lia.
Qed.

Lemma dig_lim_str_nat n : 0 <= n < 2 ^ 64 -> dig_lim (str_nat n) = Ok n.
Proof.
  intros H. destruct (str_nat_shape n ltac:(lia)) as [NE [F L]]. pose proof (log2_small n H) as LG.
  unfold dig_lim. rewrite (filter_digits _ F).
  destruct (4300 <? zlen (str_nat n)) eqn:E; [unfold zlen in E; pose proof (Z.log2_nonneg n); lia|].
  unfold str_nat. rewrite dec_aux_value; [reflexivity|].
  split; [lia|]. rewrite Nat2Z.inj_succ, Z2Nat.id by apply Z.log2_nonneg.
  destruct (Z.eq_dec n 0) as [->|NZ]; [cbn; lia|]. apply Z.log2_spec. lia.
Qed.

Lemma str_int_chars n : Forall hdrc (str_int n).
Proof.
  unfold str_int. destruct (n <? 0) eqn:E.
  - constructor; [right; reflexivity|]. destruct (str_nat_shape (- n) ltac:(lia)) as [_ [F _]].
    eapply Forall_impl; [|exact F]. intros c Hc. now left.
  - destruct (str_nat_shape n ltac:(lia)) as [_ [F _]].
    eapply Forall_impl; [|exact F]. intros c Hc. now left.
Qed.

Lemma str_int_nonempty n : str_int n <> [].
Proof.
  unfold str_int. destruct (n <? 0) eqn:E; [discriminate|].
  exact (proj1 (str_nat_shape n ltac:(lia))).
Qed.

(* int(str(n)) = n *)
Theorem py_int_str_int n : - 2 ^ 64 < n < 2 ^ 64 -> py_int (str_int n) = Ok n.
Proof.
  intros H. unfold py_int.
  assert (S : strip_int (str_int n) = str_int n).
  { pose proof (str_int_chars n) as F.
    assert (F' : Forall (fun c => is_ws_int c = false) (str_int n)).
    { eapply Forall_impl; [|exact F]. intros c Hc. exact (proj2 (proj2 (proj2 (proj2 (hdrc_facts c Hc))))). }
    apply strip_int_ends.
    - apply (Forall_hd0 (fun c => is_ws_int c = false)); [reflexivity|exact F'].
    - apply (Forall_hd0 (fun c => is_ws_int c = false)); [reflexivity|]. apply Forall_rev. exact F'. }
  rewrite S. unfold str_int. destruct (n <? 0) eqn:E.
  - change (45 =? 43) with false. change (45 =? 45) with true. cbn iota.
    rewrite dig_lim_str_nat by lia. cbn [bind]. f_equal. lia.
  - destruct (str_nat_shape n ltac:(lia)) as [NE [F _]].
    destruct (str_nat n) as [|c r] eqn:ES; [congruence|].
    inversion F as [|? ? Hc Hr]; subst. unfold digitP in Hc.
    destruct (c =? 43) eqn:A; [lia|]. destruct (c =? 45) eqn:B; [lia|].
    rewrite <- ES. apply dig_lim_str_nat. lia.
Qed.

(* ---------- the header parser inverts the f-strings ---------- *)

Definition plainc (c : Z) : Prop := c <> 47 /\ is_ws c = false /\ lower_c c = c.
Definition plain (s : list Z) : Prop := Forall plainc s.

Lemma alpha_plain_all :
  forallb (fun c => negb (c =? 47) && negb (is_ws c)) bech32_alphabet = true.
Proof. vm_compute. reflexivity. Qed.

Lemma gchar_plainc c : gchar c -> plainc c.
Proof.
  intros [HL HA]. apply existsb_exists in HA as [x [Hx E]]. apply Z.eqb_eq in E. subst x.
  pose proof alpha_plain_all as A. rewrite forallb_forall in A. specialize (A c Hx).
  apply andb_true_iff in A as [A1 A2]. apply negb_true_iff in A1, A2.
  split; [lia|]. split; assumption.
Qed.

Lemma gchar_plain s : Forall gchar s -> plain s.
Proof. intros H. eapply Forall_impl; [|exact H]. exact gchar_plainc. Qed.

Definition ur8 : list Z := [117;114;58;98;121;116;101;115].

Lemma ur_prefix_eq mid : ur_prefix ++ mid = ur8 ++ 47 :: mid.
Proof. reflexivity. Qed.

Lemma starts_with_app p s : starts_with p (p ++ s) = true.
Proof. induction p as [|x r IH]; [reflexivity|]. cbn [app starts_with]. now rewrite Z.eqb_refl, IH. Qed.

Lemma ur8_noslash : Forall (fun c => c <> 47) ur8.
Proof. unfold ur8. repeat constructor; lia. Qed.

Lemma str_core_shape mid :
  str_core (ur_prefix ++ mid) = fields_of_segs (ur8 :: split_on 47 mid).
Proof.
  unfold str_core. rewrite starts_with_app. cbn [negb].
  rewrite ur_prefix_eq, split_on_app, (split_on_nosep 47 ur8 ur8_noslash). reflexivity.
Qed.

Lemma lower_fix s : Forall (fun c => lower_c c = c) s -> lower s = s.
Proof.
  induction 1 as [|c r Hc Hr IH]; [reflexivity|]. unfold lower in *. cbn [map]. now rewrite Hc, IH.
Qed.

(* the characters a well-formed part string is made of: no white space, lower() fixes them *)
Definition okc (c : Z) : Prop := is_ws c = false /\ lower_c c = c.

Lemma ur_prefix_okc : Forall okc ur_prefix.
Proof. unfold ur_prefix. repeat (constructor; [split; reflexivity|]). constructor. Qed.

Lemma plain_okc s : plain s -> Forall okc s.
Proof. intros H. eapply Forall_impl; [|exact H]. intros c [_ [A B]]. split; assumption. Qed.

Lemma hdrc_okc s : Forall hdrc s -> Forall okc s.
Proof.
  intros H. eapply Forall_impl; [|exact H]. intros c Hc.
  destruct (hdrc_facts c Hc) as [_ [_ [A [B _]]]]. split; assumption.
Qed.

Lemma okc_lower_strip s : Forall okc s -> strip (lower s) = s.
Proof.
  intros H. rewrite lower_fix by (eapply Forall_impl; [|exact H]; intros c [_ B]; exact B).
  apply strip_nows. eapply Forall_impl; [|exact H]. intros c [A _]. exact A.
Qed.

Definition xofy_str (x y : Z) : list Z := str_int x ++ 111 :: 102 :: str_int y.

Lemma xofy_chars x y : Forall (fun c => c <> 47 /\ okc c) (xofy_str x y).
Proof.
  unfold xofy_str. apply Forall_app. split; [|constructor; [|constructor]].
  - eapply Forall_impl; [|exact (str_int_chars x)]. intros c Hc.
    destruct (hdrc_facts c Hc) as [A [_ [B [C _]]]]. split; [exact A|split; assumption].
  - split; [lia|split; reflexivity].
  - split; [lia|split; reflexivity].
  - eapply Forall_impl; [|exact (str_int_chars y)]. intros c Hc.
    destruct (hdrc_facts c Hc) as [A [_ [B [C _]]]]. split; [exact A|split; assumption].
Qed.

Lemma parse_xofy_str x y : - 2 ^ 64 < x < 2 ^ 64 -> - 2 ^ 64 < y < 2 ^ 64 ->
  parse_xofy (xofy_str x y) = Ok (x, y).
Proof.
  intros Hx Hy. unfold parse_xofy, xofy_str.
  assert (N : forall n, Forall (fun c => c <> 111) (str_int n)).
  { intros n. eapply Forall_impl; [|exact (str_int_chars n)]. intros c Hc.
    exact (proj1 (proj2 (hdrc_facts c Hc))). }
  rewrite (split_of_app _ _ (N x)), (split_of_noo _ (N y)).
  rewrite (py_int_str_int x Hx), (py_int_str_int y Hy). reflexivity.
Qed.

Lemma fmt4_eq x y chk payload :
  fmt_part {| p_form := 4; p_x := x; p_y := y; p_chk := chk; p_payload := payload |}
  = ur_prefix ++ xofy_str x y ++ 47 :: chk ++ 47 :: payload.
Proof.
  unfold fmt_part, xofy_str. cbn [p_form p_x p_y p_chk p_payload].
  change (4 =? 2) with false. change (4 =? 3) with false. cbn iota.
  rewrite <- !app_assoc. reflexivity.
Qed.

Lemma plain_noslash s : plain s -> Forall (fun c => c <> 47) s.
Proof. intros H. eapply Forall_impl; [|exact H]. intros c [A _]. exact A. Qed.

(* well-formed parts: what BCURSingle.encode / BCURMulti.encode format *)
Definition wf_part (p : part) : Prop :=
  plain (p_chk p) /\ plain (p_payload p) /\
  ((p_form p = 2 /\ p_x p = 1 /\ p_y p = 1 /\ p_chk p = []) \/
   (p_form p = 3 /\ p_x p = 1 /\ p_y p = 1) \/
   (p_form p = 4 /\ - 2 ^ 64 < p_x p < 2 ^ 64 /\ - 2 ^ 64 < p_y p < 2 ^ 64)).

Theorem str_fields_fmt p : wf_part p -> str_fields (fmt_part p) = Ok p.
Proof.
  destruct p as [f x y chk payload]. unfold wf_part. cbn [p_form p_x p_y p_chk p_payload].
  intros [Pc [Pp H]]. unfold str_fields.
  destruct H as [[-> [-> [-> ->]]]|[[-> [-> ->]]|[-> [Hx Hy]]]].
  - unfold fmt_part. cbn [p_form p_payload]. change (2 =? 2) with true. cbn iota.
    rewrite okc_lower_strip by (apply Forall_app; split; [exact ur_prefix_okc|exact (plain_okc _ Pp)]).
    rewrite str_core_shape, (split_on_nosep 47 payload (plain_noslash _ Pp)). reflexivity.
  - unfold fmt_part. cbn [p_form p_payload p_chk]. change (3 =? 2) with false. change (3 =? 3) with true.
    cbn iota.
    rewrite okc_lower_strip.
    2:{ apply Forall_app. split; [exact ur_prefix_okc|]. apply Forall_app. split; [exact (plain_okc _ Pc)|].
        constructor; [split; reflexivity|exact (plain_okc _ Pp)]. }
    rewrite str_core_shape, split_on_app, (split_on_nosep 47 chk (plain_noslash _ Pc)),
      (split_on_nosep 47 payload (plain_noslash _ Pp)). reflexivity.
  - rewrite fmt4_eq. pose proof (xofy_chars x y) as XC.
    rewrite okc_lower_strip.
    2:{ apply Forall_app. split; [exact ur_prefix_okc|]. apply Forall_app. split.
        - eapply Forall_impl; [|exact XC]. intros c [_ B]. exact B.
        - constructor; [split; reflexivity|]. apply Forall_app. split; [exact (plain_okc _ Pc)|].
          constructor; [split; reflexivity|exact (plain_okc _ Pp)]. }
    rewrite str_core_shape, split_on_app, split_on_app.
    rewrite (split_on_nosep 47 (xofy_str x y)) by (eapply Forall_impl; [|exact XC]; intros c [A _]; exact A).
    rewrite (split_on_nosep 47 chk (plain_noslash _ Pc)), (split_on_nosep 47 payload (plain_noslash _ Pp)).
    cbn [app fields_of_segs]. rewrite (parse_xofy_str x y Hx Hy). reflexivity.
Qed.

Lemma mapr_fmt ps : Forall wf_part ps -> mapr str_fields (map fmt_part ps) = Ok ps.
Proof.
  induction 1 as [|p r Hp Hr IH]; [reflexivity|]. cbn [map mapr].
  rewrite (str_fields_fmt p Hp). cbn [bind]. rewrite IH. reflexivity.
Qed.

(* ---------- refinement: the string functions are the field functions after str_fields ---------- *)

Section WithHash.
Variable sha256 : bytes -> bytes.

Theorem single_parse_str_refines s :
  single_parse_str sha256 s = (p <- str_fields s ;; single_parse sha256 p).
Proof.
  unfold single_parse_str, parse_helper_str, single_parse.
  destruct (str_fields s) as [p|]; reflexivity.
Qed.

Lemma mp_loop_str_refines ss : forall cnt g gy acc,
  mp_loop_str ss cnt g gy acc = (ps <- mapr str_fields ss ;; mp_loop ps cnt g gy acc).
Proof.
  induction ss as [|s r IH]; intros cnt g gy acc; [reflexivity|].
  cbn [mp_loop_str mapr]. unfold parse_helper_str.
  destruct (str_fields s) as [p|]; cbn [bind]; [|reflexivity].
  destruct (mapr str_fields r) as [t|] eqn:EM; cbn [bind mp_loop].
  - destruct (parse_part p) as [[[[payload c] x] y]|]; cbn [bind]; [|reflexivity].
    destruct (negb (cnt + 1 =? x)); [reflexivity|].
    destruct (cnt =? 0); [rewrite IH; reflexivity|].
    destruct (negb _); [reflexivity|]. destruct (negb (y =? gy)); [reflexivity|].
    rewrite IH. reflexivity.
  - destruct (parse_part p) as [[[[payload c] x] y]|]; cbn [bind]; [|reflexivity].
    destruct (negb (cnt + 1 =? x)); [reflexivity|].
    destruct (cnt =? 0); [rewrite IH; reflexivity|].
    destruct (negb _); [reflexivity|]. destruct (negb (y =? gy)); [reflexivity|].
    rewrite IH. reflexivity.
Qed.

Theorem multi_parse_str_refines ss :
  multi_parse_str sha256 ss = (ps <- mapr str_fields ss ;; multi_parse sha256 ps).
Proof.
  unfold multi_parse_str, multi_parse. rewrite mp_loop_str_refines.
  destruct (mapr str_fields ss); reflexivity.
Qed.

End WithHash.

(* ---------- string-level round trips ---------- *)

Lemma zlen_app' {A} (a b : list A) : zlen (a ++ b) = zlen a + zlen b.
Proof. unfold zlen. rewrite app_length. lia. Qed.

Lemma cbor_len d e : cbor_encode d = Ok e -> zlen e <= zlen d + 5.
Proof.
  intros E. destruct (cbor_prefix d e E) as [[H ->]|[[H ->]|[[H ->]|[H ->]]]];
    rewrite ?zlen_cons', ?zlen_app'; unfold zlen; rewrite ?to_be_length; lia.
Qed.

Lemma bc32_len d s : bytes_ok d -> bc32encode d = Ok s -> 5 * zlen s <= 8 * zlen d + 34.
Proof.
  intros HB E. destruct (bc32encode_shape d HB) as [dd [chk [E' [_ [LC [_ [_ [_ [B1 _]]]]]]]]].
  rewrite E in E'. injection E' as ->. unfold zlen in *. rewrite map_length, app_length, LC. lia.
Qed.

Lemma bcur_encode_inv (sha256 : bytes -> bytes) d enc h : bcur_encode sha256 d = Ok (enc, h) ->
  exists cbor, cbor_encode d = Ok cbor /\ bc32encode cbor = Ok enc /\ bc32encode (sha256 cbor) = Ok h.
Proof.
  unfold bcur_encode. destruct (cbor_encode d) as [cbor|] eqn:E0; [|discriminate]. cbn [bind].
  destruct (bc32encode cbor) as [e|] eqn:E1; [|discriminate]. cbn [bind].
  destruct (bc32encode (sha256 cbor)) as [hh|] eqn:E2; [|discriminate]. cbn [bind].
  intros [= <- <-]. exists cbor. auto.
Qed.

Lemma number_parts_wf cs : forall cnt y chk, plain chk -> Forall plain cs ->
  0 <= cnt -> cnt + zlen cs < 2 ^ 64 -> - 2 ^ 64 < y < 2 ^ 64 ->
  Forall wf_part (number_parts cs cnt y chk).
Proof.
  induction cs as [|c r IH]; intros cnt y chk Pc Pcs Hc Hb Hy; [constructor|].
  inversion Pcs as [|? ? Pc1 Pr]; subst. rewrite zlen_cons' in Hb. cbn [number_parts].
  assert (0 <= zlen r) by (unfold zlen; lia).
  constructor.
  - unfold wf_part. cbn [p_form p_x p_y p_chk p_payload]. split; [exact Pc|]. split; [exact Pc1|].
    right. right. split; [reflexivity|]. split; lia.
  - apply IH; auto; lia.
Qed.

Section WithHash2.
Variable sha256 : bytes -> bytes.
Hypothesis sha_ok : forall x, bytes_ok (sha256 x).
Hypothesis sha_len : forall x, length (sha256 x) = 32%nat.

(* what BCURMulti.encode produces, chunk size >= 1 *)
Lemma multi_encode_shape d m : bytes_ok d -> zlen d < 4294967296 -> 1 <= m ->
  exists enc chk cs n, bcur_encode sha256 d = Ok (enc, chk) /\
    multi_encode sha256 d m true = Ok (number_parts cs 0 n chk) /\
    concat cs = enc /\ Forall (Forall gchar) cs /\ Forall (fun c => c <> []) cs /\
    zlen cs = n /\ 1 <= n < 2 ^ 64 /\ Forall gchar chk /\ length chk = 58%nat.
Proof.
  intros HB HL Hm.
  destruct (bcur_encode_facts sha256 sha_ok sha_len d HB HL)
    as [enc [chk [cbor [EE [EC [DC [D1 [D2 [G1 [G2 [L2 L1]]]]]]]]]]].
  exists enc, chk.
  unfold multi_encode. rewrite (bcur_init_ok sha256 d enc chk None None EE) by auto. cbn [bind].
  destruct (m =? 0) eqn:E0; [lia|]. cbn [bind].
  assert (HLe : 0 < zlen enc) by (unfold zlen; lia).
  pose proof (cdiv_bounds (zlen enc) m HLe ltac:(lia)) as B1.
  set (n := cdiv (zlen enc) m) in *.
  assert (Hn : 1 <= n) by nia.
  destruct (n =? 0) eqn:E1; [lia|]. destruct (n <? 0) eqn:E2; [lia|].
  pose proof (cdiv_bounds (zlen enc) n HLe ltac:(lia)) as B2.
  set (cl := cdiv (zlen enc) n) in *.
  assert (Hcl : 1 <= cl <= m) by nia.
  destruct (chunks_spec (Z.to_nat n) (Z.to_nat cl) enc ltac:(lia) ltac:(lia)) as [C1 [C2 C3]].
  { unfold zlen in *. split.
    - apply Nat2Z.inj_lt. rewrite Nat2Z.inj_mul, Nat2Z.inj_sub, !Z2Nat.id by lia. cbn. nia.
    - apply Nat2Z.inj_le. rewrite Nat2Z.inj_mul, !Z2Nat.id by lia. nia. }
  exists (chunks (Z.to_nat n) (Z.to_nat cl) enc), n.
  split; [exact EE|]. split; [reflexivity|]. split; [exact C1|].
  split.
  { apply Forall_forall. intros piece Hp. apply Forall_forall. intros c Hc.
    rewrite Forall_forall in G1. apply G1. rewrite <- C1. apply in_concat. eauto. }
  split.
  { eapply Forall_impl; [|exact C2]. intros c Hc ->. cbn in Hc. lia. }
  split; [unfold zlen; rewrite C3; lia|].
  split; [|split; [exact G2|exact L2]].
  split; [lia|].
  destruct (bcur_encode_inv sha256 d enc chk EE) as [cbor' [EC' [EB _]]].
  rewrite EC in EC'. injection EC' as <-.
  destruct (cbor_bytes_ok d cbor HB EC) as [HBc _].
  pose proof (bc32_len cbor enc HBc EB). pose proof (cbor_len d cbor EC). nia.
Qed.

(* BCURMulti.parse(BCURMulti(b).encode(chunk)) = b on the real strings *)
Theorem multi_str_roundtrip d m : bytes_ok d -> zlen d < 4294967296 -> 1 <= m ->
  exists ss, multi_encode_str sha256 d m true = Ok ss /\ multi_parse_str sha256 ss = Ok d.
Proof.
  intros HB HL Hm.
  destruct (multi_encode_shape d m HB HL Hm) as [enc [chk [cs [n [EE [ME [CC [GF [NE [ZL [Hn [Gc Lc]]]]]]]]]]]].
  destruct (multi_roundtrip sha256 sha_ok sha_len d m HB HL Hm) as [ps [E1 E2]].
  rewrite ME in E1. injection E1 as <-.
  unfold multi_encode_str. rewrite ME. cbn [bind]. eexists. split; [reflexivity|].
  rewrite multi_parse_str_refines, mapr_fmt; [exact E2|].
  apply number_parts_wf; try lia.
  - exact (gchar_plain _ Gc).
  - eapply Forall_impl; [|exact GF]. exact gchar_plain.
Qed.

(* BCURSingle.parse(BCURSingle(b).encode(use_checksum)) = b on the real strings *)
Theorem single_str_roundtrip d uc : bytes_ok d -> zlen d < 4294967296 ->
  exists s, single_encode_str sha256 d uc = Ok s /\ single_parse_str sha256 s = Ok d.
Proof.
  intros HB HL.
  destruct (bcur_encode_facts sha256 sha_ok sha_len d HB HL)
    as [enc [chk [cbor [EE [EC [DC [D1 [D2 [G1 [G2 [L2 L1]]]]]]]]]]].
  destruct (single_roundtrip sha256 sha_ok sha_len d uc HB HL) as [p [E1 E2]].
  unfold single_encode_str. rewrite E1. cbn [bind]. eexists. split; [reflexivity|].
  rewrite single_parse_str_refines, str_fields_fmt; [exact E2|].
  revert E1. unfold single_encode. rewrite (bcur_init_ok sha256 d enc chk None None EE) by auto.
  cbn [bind]. intros [= <-]. unfold wf_part. destruct uc; cbn [p_form p_x p_y p_chk p_payload].
  - split; [exact (gchar_plain _ G2)|]. split; [exact (gchar_plain _ G1)|]. right. left. auto.
  - split; [constructor|]. split; [exact (gchar_plain _ G1)|]. left. auto.
Qed.

End WithHash2.

(* ---------- soundness of the header parser: what an accepted string looks like ---------- *)

Lemma starts_with_inv p : forall s, starts_with p s = true -> exists r, s = p ++ r.
Proof.
  induction p as [|x q IH]; intros s H; [exists s; reflexivity|].
  destruct s as [|y s']; [discriminate|]. cbn [starts_with] in H.
  apply andb_true_iff in H as [A B]. apply Z.eqb_eq in A. subst y.
  destruct (IH s' B) as [r ->]. exists r. reflexivity.
Qed.

Lemma split_on_cons_inv sep s : forall a rest, split_on sep s = a :: rest -> rest <> [] ->
  exists s', s = a ++ sep :: s' /\ split_on sep s' = rest /\ Forall (fun c => c <> sep) a.
Proof.
  induction s as [|x r IH]; intros a rest H NR; cbn [split_on] in H.
  - injection H as _ <-. congruence.
  - destruct (x =? sep) eqn:E.
    + apply Z.eqb_eq in E. subst x. injection H as <- <-. exists r. repeat split. constructor.
    + destruct (split_on sep r) as [|c cs] eqn:ES; [exfalso; eapply split_on_nonempty; eauto|].
      cbn [cons_hd] in H. injection H as <- <-.
      destruct (IH c cs eq_refl NR) as [s' [-> [E2 F]]]. exists s'.
      split; [reflexivity|]. split; [exact E2|]. constructor; [lia|exact F].
Qed.

Lemma split_on_one_inv sep s a : split_on sep s = [a] -> s = a /\ Forall (fun c => c <> sep) a.
Proof.
  intros H. destruct (split_on_single sep s ltac:(now rewrite H)) as [Q F].
  rewrite H in Q. injection Q as ->. auto.
Qed.

Lemma split_of_step x y r :
  split_of (x :: y :: r) = if (x =? 111) && (y =? 102) then [] :: split_of r
                           else cons_hd x (split_of (y :: r)).
Proof. reflexivity. Qed.

Lemma split_of_nonempty s : split_of s <> [].
Proof.
  destruct s as [|x [|y r]]; [discriminate|discriminate|]. rewrite split_of_step.
  destruct ((x =? 111) && (y =? 102)); [discriminate|].
  unfold cons_hd. destruct (split_of (y :: r)); discriminate.
Qed.

Lemma split_of_one_inv s : forall b, split_of s = [b] -> s = b.
Proof.
  induction s as [|x r IH]; intros b H; [now injection H as <-|].
  destruct r as [|y r']; [now injection H as <-|].
  rewrite split_of_step in H. destruct ((x =? 111) && (y =? 102)).
  - injection H as _ H. exfalso. exact (split_of_nonempty r' H).
  - destruct (split_of (y :: r')) as [|c cs] eqn:ES; [exfalso; eapply split_of_nonempty; eauto|].
    cbn [cons_hd] in H. injection H as <- ->. f_equal. now apply IH.
Qed.

(* x.split("of") == [a, b]  ->  x == a + "of" + b *)
Lemma split_of_two_inv s : forall a b, split_of s = [a; b] -> s = a ++ 111 :: 102 :: b.
Proof.
  induction s as [|x r IH]; intros a b H; [discriminate|].
  destruct r as [|y r']; [discriminate|].
  rewrite split_of_step in H. destruct ((x =? 111) && (y =? 102)) eqn:E.
  - apply andb_true_iff in E as [E1 E2]. apply Z.eqb_eq in E1, E2. subst x y.
    injection H as <- H. apply split_of_one_inv in H. now subst.
  - destruct (split_of (y :: r')) as [|c cs] eqn:ES; [exfalso; eapply split_of_nonempty; eauto|].
    cbn [cons_hd] in H. injection H as <- ->. cbn [app]. f_equal. now apply IH.
Qed.

Lemma parse_xofy_inv xofy x y : parse_xofy xofy = Ok (x, y) ->
  exists a b, xofy = a ++ 111 :: 102 :: b /\ py_int a = Ok x /\ py_int b = Ok y.
Proof.
  unfold parse_xofy. destruct (split_of xofy) as [|a [|b [|c r]]] eqn:ES; try discriminate.
  destruct (py_int a) as [x'|] eqn:EA; [|discriminate]. cbn [bind].
  destruct (py_int b) as [y'|] eqn:EB; [|discriminate]. cbn [bind]. intros [= <- <-].
  exists a, b. split; [now apply split_of_two_inv|auto].
Qed.

Definition noslash (s : list Z) : Prop := Forall (fun c => c <> 47) s.

(* An accepted string is, after lower() and strip(), literally one of
   "ur:bytes/<payload>", "ur:bytes/<checksum>/<payload>", "ur:bytes/<a>of<b>/<checksum>/<payload>"
   with int(a) = x, int(b) = y and no further '/': the fields are substrings, nothing is dropped *)
Theorem str_fields_sound s p : str_fields s = Ok p ->
  noslash (p_chk p) /\ noslash (p_payload p) /\
  ((p_form p = 2 /\ p_x p = 1 /\ p_y p = 1 /\ p_chk p = [] /\
    strip (lower s) = ur_prefix ++ p_payload p) \/
   (p_form p = 3 /\ p_x p = 1 /\ p_y p = 1 /\
    strip (lower s) = ur_prefix ++ p_chk p ++ 47 :: p_payload p) \/
   (p_form p = 4 /\ exists a b, noslash a /\ noslash b /\
    py_int a = Ok (p_x p) /\ py_int b = Ok (p_y p) /\
    strip (lower s) = ur_prefix ++ (a ++ 111 :: 102 :: b) ++ 47 :: p_chk p ++ 47 :: p_payload p)).
Proof.
  unfold str_fields, str_core. set (t := strip (lower s)).
  destruct (starts_with ur_prefix t) eqn:SW; [|discriminate]. cbn [negb].
  destruct (starts_with_inv _ _ SW) as [mid ->].
  rewrite ur_prefix_eq, split_on_app, (split_on_nosep 47 ur8 ur8_noslash). cbn [app].
  destruct (split_on 47 mid) as [|s1 [|s2 [|s3 [|s4 r]]]] eqn:ES; cbn [fields_of_segs]; try discriminate.
  - intros [= <-]. cbn [p_form p_x p_y p_chk p_payload].
    destruct (split_on_one_inv 47 mid s1 ES) as [-> F].
    split; [constructor|]. split; [exact F|]. left. repeat split; reflexivity.
  - intros [= <-]. cbn [p_form p_x p_y p_chk p_payload].
    destruct (split_on_cons_inv 47 mid s1 [s2] ES ltac:(discriminate)) as [m2 [-> [E2 F1]]].
    destruct (split_on_one_inv 47 m2 s2 E2) as [-> F2].
    split; [exact F1|]. split; [exact F2|]. right. left. repeat split; reflexivity.
  - destruct (parse_xofy s1) as [[x y]|] eqn:PX; [|discriminate]. cbn [bind]. intros [= <-].
    cbn [p_form p_x p_y p_chk p_payload].
    destruct (split_on_cons_inv 47 mid s1 [s2; s3] ES ltac:(discriminate)) as [m2 [-> [E2 F1]]].
    destruct (split_on_cons_inv 47 m2 s2 [s3] E2 ltac:(discriminate)) as [m3 [-> [E3 F2]]].
    destruct (split_on_one_inv 47 m3 s3 E3) as [-> F3].
    split; [exact F2|]. split; [exact F3|]. right. right. split; [reflexivity|].
    destruct (parse_xofy_inv s1 x y PX) as [a [b [-> [PA PB]]]].
    apply Forall_app in F1 as [Fa Fb]. inversion Fb as [|? ? _ Fb']; subst.
    inversion Fb' as [|? ? _ Fb'']; subst.
    exists a, b. repeat split; assumption || reflexivity.
Qed.
