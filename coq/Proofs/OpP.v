(* Proofs/OpP.v — the script-number codec of buidl/op.py (Model/Op.v): round trips, minimality,
   agreement with CScriptNum / CastToBool of Spec/Consensus.v. *)
From V Require Import Base.Prelude Base.Ints Model.Script Model.Op Spec.Consensus.

(* ------------------------------------------------------------------ digits *)

(* a non-empty little-endian digit string whose most significant digit is not zero *)
Fixpoint digits_ok (l : bytes) : Prop :=
  match l with
  | [] => False
  | [b] => 0 < b < 256
  | b :: r => 0 <= b < 256 /\ digits_ok r
  end.

Lemma digits_ok_cons b r : r <> [] -> digits_ok (b :: r) <-> 0 <= b < 256 /\ digits_ok r.
Proof. destruct r; [congruence|]. intros _. reflexivity. Qed.

Lemma digits_ok_nonnil l : digits_ok l -> l <> [].
Proof. destruct l; cbn; [tauto | congruence]. Qed.

Lemma digits_ok_pos l : digits_ok l -> 0 < from_le l.
Proof.
  induction l as [|b r IH]; [cbn; tauto|].
  destruct r as [|c r'].
  - cbn. lia.
  - intros [Hb Hr]. specialize (IH Hr). cbn [from_le] in *. lia.
Qed.

Lemma digits_ok_bytes l : digits_ok l -> bytes_ok l.
Proof.
  induction l as [|b r IH]; [constructor|].
  destruct r as [|c r'].
  - cbn. intros H. constructor; [unfold byte_ok; lia | constructor].
  - intros [Hb Hr]. constructor; [exact Hb | exact (IH Hr)].
Qed.

Lemma digits_ok_app body x : bytes_ok body -> 0 < x < 256 -> digits_ok (body ++ [x]).
Proof.
  intros Hb Hx. induction body as [|b r IH]; [exact Hx|].
  inversion Hb as [|? ? H1 H2]; subst.
  change ((b :: r) ++ [x]) with (b :: (r ++ [x])).
  apply digits_ok_cons; [destruct r; discriminate|]. split; [exact H1 | exact (IH H2)].
Qed.

Lemma mag_le_0 f : mag_le f 0 = [].
Proof. destruct f; reflexivity. Qed.

Lemma mag_le_digits f : forall a, 0 < a < pow256 f -> digits_ok (mag_le f a) /\ from_le (mag_le f a) = a.
Proof.
  induction f as [|f IH]; intros a Ha.
  - unfold pow256 in Ha. cbn in Ha. lia.
  - rewrite pow256_S in Ha. cbn [mag_le].
    destruct (a =? 0) eqn:E; [lia|].
    assert (Hm : 0 <= a mod 256 < 256) by (apply Z.mod_pos_bound; lia).
    assert (Hd : a = 256 * (a / 256) + a mod 256) by (apply Z.div_mod; lia).
    destruct (Z.eq_dec (a / 256) 0) as [Hz|Hnz].
    + rewrite Hz, mag_le_0. cbn. lia.
    + assert (Hq : 0 < a / 256 < pow256 f).
      { split; [assert (0 <= a / 256) by (apply Z.div_pos; lia); lia|].
        apply Z.div_lt_upper_bound; lia. }
      destruct (IH _ Hq) as [D F].
      split.
      * apply digits_ok_cons; [now apply digits_ok_nonnil|]. split; assumption.
      * cbn [from_le]. rewrite F. lia.
Qed.

Lemma mag_le_unique l : digits_ok l -> forall f, (length l <= f)%nat -> mag_le f (from_le l) = l.
Proof.
  induction l as [|b r IH]; [cbn; tauto|].
  intros D f Hf. destruct f as [|f]; [cbn in Hf; lia|].
  cbn [length] in Hf. apply le_S_n in Hf.
  destruct r as [|c r'].
  - cbn in D. cbn [from_le mag_le]. replace (b + 256 * 0) with b by lia.
    destruct (b =? 0) eqn:E; [lia|].
    rewrite Z.mod_small by lia. rewrite Z.div_small by lia. now rewrite mag_le_0.
  - destruct D as [Hb Hr]. pose proof (digits_ok_pos _ Hr) as Hp.
    cbn [from_le mag_le]. cbn [from_le] in Hp, IH.
    destruct (b + 256 * (c + 256 * from_le r') =? 0) eqn:E; [lia|].
    replace (b + 256 * (c + 256 * from_le r')) with (b + (c + 256 * from_le r') * 256) by lia.
    rewrite Z.mod_add by lia. rewrite Z.div_add by lia.
    rewrite Z.mod_small by lia. rewrite Z.div_small by lia. cbn [Z.add].
    f_equal. exact (IH Hr f Hf).
Qed.

Lemma mag_le_fuel f g a : 0 < a < pow256 f -> 0 < a < pow256 g -> mag_le f a = mag_le g a.
Proof.
  intros Hf Hg.
  destruct (mag_le_digits f a Hf) as [D1 F1].
  destruct (mag_le_digits g a Hg) as [D2 F2].
  destruct (Nat.le_ge_cases (length (mag_le f a)) (length (mag_le g a))) as [L|L].
  - (* both are the unique digits: compare through a common fuel *)
    pose proof (mag_le_unique _ D2 (length (mag_le g a)) (le_n _)) as U2.
    pose proof (mag_le_unique _ D1 (length (mag_le g a)) L) as U1.
    rewrite F1 in U1. rewrite F2 in U2. congruence.
  - pose proof (mag_le_unique _ D1 (length (mag_le f a)) (le_n _)) as U1.
    pose proof (mag_le_unique _ D2 (length (mag_le f a)) L) as U2.
    rewrite F1 in U1. rewrite F2 in U2. congruence.
Qed.

Lemma mag_fuel_enough a : 0 < a -> 0 < a < pow256 (mag_fuel a).
Proof.
  intros Ha. split; [exact Ha|]. unfold mag_fuel, pow256.
  pose proof (Z.log2_nonneg a) as Hl.
  destruct (Z.log2_spec a Ha) as [_ Hu].
  rewrite Nat2Z.inj_succ. rewrite Z2Nat.id by lia.
  eapply Z.lt_le_trans; [exact Hu|].
  change 256 with (2 ^ 8). rewrite <- Z.pow_mul_r by lia.
  apply Z.pow_le_mono_r; lia.
Qed.

Lemma from_le_app a b : from_le (a ++ b) = from_le a + pow256 (length a) * from_le b.
Proof.
  induction a as [|x a IH].
  - cbn [app length from_le]. change (pow256 0) with 1. lia.
  - cbn [app length from_le]. rewrite IH, pow256_S. lia.
Qed.

(* ------------------------------------------------------------------ sign handling *)

Lemma sign_fix_cons neg b r : r <> [] -> sign_fix neg (b :: r) = b :: sign_fix neg r.
Proof. destruct r; [congruence | reflexivity]. Qed.

Lemma decode_mag_cons b r : r <> [] ->
  decode_mag (b :: r) = (b + 256 * fst (decode_mag r), snd (decode_mag r)).
Proof.
  destruct r as [|c t]; [congruence|]. intros _.
  change (decode_mag (b :: c :: t)) with (let '(m, s) := decode_mag (c :: t) in (b + 256 * m, s)).
  now destruct (decode_mag (c :: t)).
Qed.

Lemma snoc_nonnil {A} (r : list A) x : r ++ [x] <> [].
Proof. destruct r; discriminate. Qed.

Lemma sign_fix_app neg body x : sign_fix neg (body ++ [x]) = body ++ sign_fix neg [x].
Proof.
  induction body as [|b r IH]; [reflexivity|].
  change ((b :: r) ++ [x]) with (b :: (r ++ [x])).
  rewrite sign_fix_cons by apply snoc_nonnil. now rewrite IH.
Qed.

Lemma decode_mag_app body l :
  decode_mag (body ++ [l]) =
  (from_le body + pow256 (length body) * (if 128 <=? l then l - 128 else l), 128 <=? l).
Proof.
  induction body as [|b r IH].
  - cbn [app length from_le decode_mag]. change (pow256 0) with 1.
    destruct (128 <=? l); f_equal; lia.
  - change ((b :: r) ++ [l]) with (b :: (r ++ [l])).
    rewrite decode_mag_cons by apply snoc_nonnil. rewrite IH. cbn [fst snd length from_le].
    rewrite pow256_S. f_equal. lia.
Qed.

Lemma list_snoc {A} (l : list A) : l = [] \/ exists body x, l = body ++ [x].
Proof.
  destruct l as [|a l]; [now left|]. right.
  exists (removelast (a :: l)), (last (a :: l) a). apply app_removelast_last. discriminate.
Qed.

Lemma digits_snoc d : digits_ok d -> exists body x, d = body ++ [x] /\ bytes_ok body /\ 0 < x < 256.
Proof.
  intros D. destruct (list_snoc d) as [->|(body & x & ->)]; [cbn in D; tauto|].
  exists body, x. split; [reflexivity|].
  pose proof (digits_ok_bytes _ D) as B. apply bytes_ok_app in B as [B1 B2].
  split; [exact B1|].
  clear B1. induction body as [|b r IH].
  - exact D.
  - change ((b :: r) ++ [x]) with (b :: (r ++ [x])) in D.
    apply digits_ok_cons in D; [|destruct r; discriminate]. apply IH, D.
Qed.

Lemma decode_sign_fix neg d : digits_ok d -> decode_mag (sign_fix neg d) = (from_le d, neg).
Proof.
  intros D. destruct (digits_snoc d D) as (body & x & -> & Hb & Hx).
  rewrite sign_fix_app, from_le_app. cbn [sign_fix from_le].
  destruct (128 <=? x) eqn:E.
  - replace (body ++ [x; if neg then 128 else 0]) with ((body ++ [x]) ++ [if neg then 128 else 0])
      by now rewrite <- app_assoc.
    rewrite decode_mag_app, from_le_app, app_length. cbn [from_le length].
    destruct neg; cbn; f_equal; lia.
  - rewrite decode_mag_app. destruct neg.
    + destruct (128 <=? x + 128) eqn:E2; [|lia]. f_equal. lia.
    + rewrite E. f_equal. lia.
Qed.

(* ------------------------------------------------------------------ decode (encode n) = n *)

Theorem decode_encode n : decode_num (encode_num n) = n.
Proof.
  unfold encode_num. destruct (n =? 0) eqn:E0; [cbn; lia|].
  assert (Ha : 0 < Z.abs n) by lia.
  destruct (mag_le_digits _ _ (mag_fuel_enough _ Ha)) as [D F].
  unfold decode_num. rewrite (decode_sign_fix _ _ D), F.
  destruct (n <? 0) eqn:E; lia.
Qed.

Lemma encode_num_digits n : n <> 0 ->
  exists d, digits_ok d /\ from_le d = Z.abs n /\ encode_num n = sign_fix (n <? 0) d.
Proof.
  intros Hn. unfold encode_num. destruct (n =? 0) eqn:E0; [lia|].
  assert (Ha : 0 < Z.abs n) by lia.
  destruct (mag_le_digits _ _ (mag_fuel_enough _ Ha)) as [D F].
  eexists; repeat split; eassumption.
Qed.

Lemma encode_of_digits d (neg : bool) :
  digits_ok d -> encode_num (if neg then - from_le d else from_le d) = sign_fix neg d.
Proof.
  intros D. pose proof (digits_ok_pos _ D) as Hp.
  set (n := if neg then - from_le d else from_le d).
  assert (Hn : Z.abs n = from_le d) by (subst n; destruct neg; lia).
  assert (Hs : (n <? 0) = neg) by (subst n; destruct neg; lia).
  unfold encode_num. destruct (n =? 0) eqn:E0; [subst n; destruct neg; lia|].
  rewrite Hs, Hn. f_equal.
  pose proof (from_le_bound _ (digits_ok_bytes _ D)) as Hb.
  rewrite (mag_le_fuel (mag_fuel (from_le d)) (length d)).
  - apply mag_le_unique; [exact D | lia].
  - apply mag_fuel_enough; lia.
  - lia.
Qed.

(* ------------------------------------------------------------------ bytes facts by enumeration *)

Lemma byte_land_facts b : 0 <= b < 256 ->
  (Z.land b 127 =? 0) = ((b =? 0) || (b =? 128)) /\ (Z.land b 128 =? 0) = (b <? 128) /\
  Z.land b 255 = b.
Proof.
  intros Hb.
  assert (A : forallb (fun b => Bool.eqb (Z.land b 127 =? 0) ((b =? 0) || (b =? 128))
                        && Bool.eqb (Z.land b 128 =? 0) (b <? 128) && (Z.land b 255 =? b))
                (map Z.of_nat (seq 0 256)) = true) by (vm_compute; reflexivity).
  rewrite forallb_forall in A.
  specialize (A b). assert (I : In b (map Z.of_nat (seq 0 256))).
  { apply in_map_iff. exists (Z.to_nat b). split; [lia|]. apply in_seq. lia. }
  specialize (A I). apply andb_true_iff in A as [A A3]. apply andb_true_iff in A as [A1 A2].
  apply Bool.eqb_prop in A1, A2. apply Z.eqb_eq in A3. auto.
Qed.

(* ------------------------------------------------------------------ minimal encodings *)

Lemma sn_minimal_snoc body l :
  sn_minimal (body ++ [l]) =
  if Z.land l 127 =? 0
  then match rev body with [] => false | p :: _ => negb (Z.land p 128 =? 0) end
  else true.
Proof. unfold sn_minimal. rewrite rev_app_distr. reflexivity. Qed.

Theorem encode_minimal n : sn_minimal (encode_num n) = true.
Proof.
  destruct (Z.eq_dec n 0) as [->|Hn]; [reflexivity|].
  destruct (encode_num_digits n Hn) as (d & D & _ & ->).
  destruct (digits_snoc d D) as (body & x & -> & Hb & Hx).
  rewrite sign_fix_app. cbn [sign_fix].
  destruct (128 <=? x) eqn:E.
  - replace (body ++ [x; if n <? 0 then 128 else 0]) with ((body ++ [x]) ++ [if n <? 0 then 128 else 0])
      by now rewrite <- app_assoc.
    rewrite sn_minimal_snoc, rev_app_distr. cbn [rev app].
    destruct (byte_land_facts x ltac:(lia)) as (_ & F2 & _). rewrite F2.
    destruct (n <? 0); cbn; destruct (x <? 128) eqn:E3; try reflexivity; lia.
  - rewrite sn_minimal_snoc.
    destruct (n <? 0).
    + destruct (byte_land_facts (x + 128) ltac:(lia)) as (F1 & _ & _). rewrite F1.
      destruct (x + 128 =? 0) eqn:E1; [lia|]. destruct (x + 128 =? 128) eqn:E2; [lia|]. reflexivity.
    + destruct (byte_land_facts x ltac:(lia)) as (F1 & _ & _). rewrite F1.
      destruct (x =? 0) eqn:E1; [lia|]. destruct (x =? 128) eqn:E2; [lia|]. reflexivity.
Qed.

Theorem encode_decode e : bytes_ok e -> sn_minimal e = true -> encode_num (decode_num e) = e.
Proof.
  intros B M. destruct (list_snoc e) as [->|(body & l & ->)]; [reflexivity|].
  apply bytes_ok_app in B as [Bb Bl]. inversion Bl as [|? ? Hl _]; subst. unfold byte_ok in Hl.
  rewrite sn_minimal_snoc in M.
  destruct (byte_land_facts l Hl) as (F1 & _ & _). rewrite F1 in M.
  unfold decode_num. rewrite decode_mag_app.
  destruct ((l =? 0) || (l =? 128)) eqn:EZ.
  - (* the last byte carries only the sign: the digits are the body *)
    destruct (list_snoc body) as [->|(b' & p & ->)]; [cbn in M; discriminate|].
    rewrite rev_app_distr in M. cbn [rev app] in M.
    apply bytes_ok_app in Bb as [Bb' Bp]. inversion Bp as [|? ? Hp _]; subst. unfold byte_ok in Hp.
    destruct (byte_land_facts p Hp) as (_ & F2 & _). rewrite F2 in M.
    destruct (p <? 128) eqn:EP; [discriminate|].
    assert (D : digits_ok (b' ++ [p])) by (apply digits_ok_app; [assumption | lia]).
    replace (from_le (b' ++ [p]) + pow256 (length (b' ++ [p])) * (if 128 <=? l then l - 128 else l))
      with (from_le (b' ++ [p]))
      by (apply orb_true_iff in EZ as [E|E]; apply Z.eqb_eq in E; subst l; cbn; lia).
    rewrite (encode_of_digits _ (128 <=? l) D), sign_fix_app. cbn [sign_fix].
    destruct (128 <=? p) eqn:EP2; [|lia].
    rewrite <- app_assoc. cbn [app]. do 3 f_equal.
    apply orb_true_iff in EZ as [E|E]; apply Z.eqb_eq in E; subst l; reflexivity.
  - apply orb_false_iff in EZ as [E1 E2].
    set (l7 := if 128 <=? l then l - 128 else l).
    assert (H7 : 0 < l7 < 128) by (subst l7; destruct (128 <=? l) eqn:E; lia).
    assert (D : digits_ok (body ++ [l7])) by (apply digits_ok_app; [assumption | lia]).
    replace (from_le body + pow256 (length body) * l7) with (from_le (body ++ [l7]))
      by (rewrite from_le_app; cbn [from_le]; lia).
    rewrite (encode_of_digits _ (128 <=? l) D), sign_fix_app. cbn [sign_fix].
    destruct (128 <=? l7) eqn:E7; [lia|]. f_equal. f_equal.
    subst l7. destruct (128 <=? l) eqn:E; lia.
Qed.

(* ------------------------------------------------------------------ shortest *)

Lemma sign_fix_len neg d : digits_ok d -> forall k, from_le d < 128 * pow256 k ->
  (length (sign_fix neg d) <= S k)%nat.
Proof.
  induction d as [|b r IH]; [cbn; tauto|].
  destruct r as [|c r'].
  - intros D k H. cbn in D. cbn [from_le] in H. cbn [sign_fix].
    destruct (128 <=? b) eqn:E; cbn [length]; [|lia].
    destruct k; [unfold pow256 in H; cbn in H; lia | lia].
  - intros [Hb Hr] k H. pose proof (digits_ok_pos _ Hr) as Hp.
    change (sign_fix neg (b :: c :: r')) with (b :: sign_fix neg (c :: r')).
    cbn [length]. destruct k as [|k].
    + unfold pow256 in H. cbn [Z.of_nat Z.pow] in H. cbn [from_le] in H, Hp. lia.
    + rewrite pow256_S in H. change (from_le (b :: c :: r')) with (b + 256 * from_le (c :: r')) in H.
      assert (H' : from_le (c :: r') < 128 * pow256 k) by lia.
      specialize (IH Hr k H'). lia.
Qed.

Lemma decode_bound body l : bytes_ok body -> 0 <= l < 256 ->
  Z.abs (decode_num (body ++ [l])) < 128 * pow256 (length body).
Proof.
  intros Bb Hl. unfold decode_num. rewrite decode_mag_app.
  pose proof (from_le_bound _ Bb) as Hf. pose proof (pow256_pos (length body)) as Hp.
  set (l7 := if 128 <=? l then l - 128 else l).
  assert (H7 : 0 <= l7 <= 127) by (subst l7; destruct (128 <=? l) eqn:E; lia).
  assert (pow256 (length body) * l7 <= pow256 (length body) * 127) by (apply Z.mul_le_mono_nonneg_l; lia).
  assert (0 <= pow256 (length body) * l7) by (apply Z.mul_nonneg_nonneg; lia).
  destruct (128 <=? l); lia.
Qed.

Theorem encode_shortest e n : bytes_ok e -> decode_num e = n ->
  (length (encode_num n) <= length e)%nat.
Proof.
  intros B <-. destruct (list_snoc e) as [->|(body & l & ->)]; [cbn; lia|].
  apply bytes_ok_app in B as [Bb Bl]. inversion Bl as [|? ? Hl _]; subst. unfold byte_ok in Hl.
  pose proof (decode_bound body l Bb Hl) as Hbd.
  set (n := decode_num (body ++ [l])) in *.
  destruct (Z.eq_dec n 0) as [->|Hn]; [cbn; lia|].
  destruct (encode_num_digits n Hn) as (d & D & F & ->).
  rewrite app_length. cbn [length]. rewrite Nat.add_1_r.
  apply sign_fix_len; [exact D | lia].
Qed.

(* ------------------------------------------------------------------ zero <-> CastToBool false *)

Lemma decode_mag_nonneg e : bytes_ok e -> 0 <= fst (decode_mag e).
Proof.
  induction e as [|b r IH]; intros B; [cbn; lia|].
  inversion B as [|? ? Hb Hr]; subst. unfold byte_ok in Hb. specialize (IH Hr).
  destruct r as [|c r'].
  - cbn. destruct (128 <=? b) eqn:E; cbn; lia.
  - change (decode_mag (b :: c :: r')) with (let '(m, s) := decode_mag (c :: r') in (b + 256 * m, s)).
    destruct (decode_mag (c :: r')) as [m s]. cbn [fst] in *. lia.
Qed.

Theorem decode_zero_iff e : bytes_ok e -> (decode_num e = 0 <-> cast_to_bool e = false).
Proof.
  intros B.
  assert (H : fst (decode_mag e) = 0 <-> cast_to_bool e = false).
  { induction e as [|b r IH]; [cbn; tauto|].
    inversion B as [|? ? Hb Hr]; subst. unfold byte_ok in Hb. specialize (IH Hr).
    pose proof (decode_mag_nonneg _ Hr) as Hnn.
    destruct r as [|c r'].
    - cbn. destruct (128 <=? b) eqn:E; cbn [fst];
        destruct (b =? 0) eqn:E1; destruct (b =? 128) eqn:E2; cbn; split; intros; try lia; try discriminate.
    - change (decode_mag (b :: c :: r')) with (let '(m, s) := decode_mag (c :: r') in (b + 256 * m, s)).
      change (cast_to_bool (b :: c :: r')) with (if b =? 0 then cast_to_bool (c :: r') else true).
      destruct (decode_mag (c :: r')) as [m s]. cbn [fst] in *.
      destruct (b =? 0) eqn:E1.
      + rewrite <- IH. lia.
      + split; intros; [lia | discriminate]. }
  unfold decode_num. destruct (decode_mag e) as [m s]. cbn [fst] in H. rewrite <- H.
  destruct s; lia.
Qed.

(* ------------------------------------------------------------------ model codec = CScriptNum *)

Theorem sn_value_decode e : bytes_ok e -> sn_value e = decode_num e.
Proof.
  intros B. destruct (list_snoc e) as [->|(body & l & ->)]; [reflexivity|].
  unfold sn_value, decode_num. rewrite decode_mag_app.
  destruct (body ++ [l]) eqn:E; [destruct body; discriminate|]. rewrite <- E. clear E.
  rewrite last_last, from_le_app, app_length. cbn [from_le length].
  replace (length body + 1 - 1)%nat with (length body) by lia.
  destruct (128 <=? l); lia.
Qed.

Lemma sn_digits_mag f : forall a, 0 <= a -> sn_digits f a = mag_le f a.
Proof.
  induction f as [|f IH]; intros a Ha; [reflexivity|].
  cbn [sn_digits mag_le]. destruct (a =? 0); [reflexivity|].
  change 255 with (Z.ones 8). rewrite Z.land_ones by lia.
  rewrite Z.shiftr_div_pow2 by lia. change (2 ^ 8) with 256.
  f_equal. apply IH. apply Z.div_pos; lia.
Qed.

Theorem sn_serialize_encode n : sn_serialize n = encode_num n.
Proof.
  unfold sn_serialize. destruct (n =? 0) eqn:E0; [unfold encode_num; now rewrite E0|].
  assert (Hn : n <> 0) by lia.
  rewrite sn_digits_mag by lia.
  unfold encode_num. rewrite E0. fold (mag_fuel (Z.abs n)).
  assert (Ha : 0 < Z.abs n) by lia.
  destruct (mag_le_digits _ _ (mag_fuel_enough _ Ha)) as [D _].
  destruct (digits_snoc _ D) as (body & x & -> & Hb & Hx).
  rewrite last_last, removelast_last, sign_fix_app. cbn [sign_fix].
  destruct (128 <=? x).
  - rewrite <- app_assoc. reflexivity.
  - destruct (n <? 0); reflexivity.
Qed.

(* small constants *)
Lemma encode_num_0 : encode_num 0 = []. Proof. reflexivity. Qed.
Lemma encode_num_1 : encode_num 1 = [1]. Proof. reflexivity. Qed.
