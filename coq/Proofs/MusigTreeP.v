(* Proofs/MusigTreeP.v — the TapRootMultiSig tree builders: which key sets own a leaf.
   multi_leaf_tree: with pairwise distinct x-only keys the leaves are pairwise different, every
   k-subset owns exactly one, and a key set that owns a leaf IS a k-subset (no smaller, no larger).
   musig_tree, single_leaf, musig_and_single_leaf_tree, everything_tree, degrading_multisig_tree:
   the list of leaves.  No curve hypotheses in this file. *)
From Coq Require Import Permutation Sorted.
From V Require Import Base.Prelude Base.Ints Model.Helper Model.Script Model.Pecc Model.Taproot
  Model.Musig Proofs.TaprootP Proofs.MusigP.

(* ---------------- subsequences of a list without repeated keys ---------------- *)
Lemma subseq_nil_inv {A} (c : list A) : subseq c [] -> c = [].
Proof. intros H. inversion H; reflexivity. Qed.

Lemma subseq_cons_inv {A} (c : list A) x l :
  subseq c (x :: l) -> c = [] \/ (exists c', c = x :: c' /\ subseq c' l) \/ subseq c l.
Proof. intros H. inversion H; subst; eauto. Qed.

Lemma subseq_length {A} (c l : list A) : subseq c l -> (length c <= length l)%nat.
Proof. induction 1; cbn; lia. Qed.

Lemma subseq_refl {A} (l : list A) : subseq l l.
Proof. induction l; constructor; assumption. Qed.

(* two sub-selections of a list whose keys are pairwise distinct that carry the same multiset of
   keys are the same selection *)
Lemma subseq_perm_eq {A B} (f : A -> B) (l : list A) : NoDup (map f l) ->
  forall a b, subseq a l -> subseq b l -> Permutation (map f a) (map f b) -> a = b.
Proof.
  induction l as [|x t IH]; intros Hn a b Ha Hb P.
  - apply subseq_nil_inv in Ha, Hb. now subst.
  - cbn [map] in Hn. inversion Hn as [|? ? Hx Hn']; subst.
    assert (Hnot : forall c, subseq c t -> ~ In (f x) (map f c)).
    { intros c Hc Hin. apply Hx. apply in_map_iff in Hin as (y & E & Hy).
      apply in_map_iff. exists y. split; [exact E | exact (subseq_In _ _ _ Hc Hy)]. }
    destruct (subseq_cons_inv _ _ _ Ha) as [-> | [(a' & -> & Ha') | Ha']];
    destruct (subseq_cons_inv _ _ _ Hb) as [-> | [(b' & -> & Hb') | Hb']].
    + reflexivity.
    + cbn [map] in P. apply Permutation_nil in P. discriminate.
    + cbn [map] in P. apply Permutation_nil in P. apply map_eq_nil in P. now subst.
    + cbn [map] in P. apply Permutation_sym, Permutation_nil in P. discriminate.
    + cbn [map] in P. apply Permutation_cons_inv in P. f_equal. now apply IH.
    + exfalso. apply (Hnot b Hb'). apply (Permutation_in _ P). now left.
    + cbn [map] in P. apply Permutation_sym, Permutation_nil in P. apply map_eq_nil in P. now subst.
    + exfalso. apply (Hnot a Ha'). apply (Permutation_in _ (Permutation_sym P)). now left.
    + now apply IH.
Qed.

(* C(n, k) by Pascal's rule *)
Fixpoint choose (n k : nat) : nat :=
  match n, k with
  | _, O => 1
  | O, S _ => 0
  | S n', S k' => choose n' k' + choose n' k
  end.

Lemma combos_length {A} (l : list A) : forall k, length (combos l k) = choose (length l) k.
Proof.
  induction l as [|x t IH]; intros [|k]; cbn [combos choose length]; try reflexivity.
  now rewrite app_length, map_length, !IH.
Qed.

Lemma combos_nonempty {A} (l : list A) k : (k <= length l)%nat -> combos l k <> [].
Proof.
  revert k. induction l as [|x t IH]; intros [|k] H; cbn [combos]; try discriminate.
  - cbn in H. lia.
  - cbn [length] in H. specialize (IH k ltac:(lia)).
    destruct (combos t k); [congruence | discriminate].
Qed.

Lemma combos_too_many {A} (l : list A) k : (length l < k)%nat -> combos l k = [].
Proof.
  revert k. induction l as [|x t IH]; intros [|k] H; cbn [combos length] in *; try lia; try reflexivity.
  rewrite !IH by lia. reflexivity.
Qed.

(* ---------------- what a MultiSigTapScript commits to ---------------- *)
Definition pushes (cs : list cmd) : list bytes :=
  flat_map (fun c => match c with Push b => [b] | Op _ => [] end) cs.

Lemma pushes_app a b : pushes (a ++ b) = pushes a ++ pushes b.
Proof. unfold pushes. apply flat_map_app. Qed.

Lemma pushes_chain xs : pushes (flat_map (fun x => [Push x; Op 186]) xs) = xs.
Proof. induction xs as [|x xs IH]; [reflexivity|]. cbn. f_equal. exact IH. Qed.

(* the data elements of the script are those of the timelock prefix followed by the sorted keys *)
Lemma multisig_cmds_pushes C lk sub k cs :
  multisig_cmds C lk sub k = Ok cs ->
  exists pre, lock_cmds lk = Ok pre /\ pushes cs = pushes pre ++ sort_bytes (map xonly sub).
Proof.
  unfold multisig_cmds. intros H.
  destruct (lock_cmds lk) as [pre|]; [|discriminate]. cbn [bind] in H.
  destruct (mapM _ _) as [lifted|]; [|discriminate]. cbn [bind] in H.
  destruct (sort_bytes (map xonly sub)) as [|x0 rest] eqn:Exs; [discriminate|].
  exists pre. split; [reflexivity|].
  destruct (1 <? length sub)%nat eqn:E1.
  - destruct (number_to_op_code k) as [o|]; [|discriminate]. cbn [bind] in H. injection H as <-.
    rewrite !pushes_app, pushes_chain. change (pushes [Push x0; Op 172]) with [x0].
    change (pushes [Op o; Op 135]) with (@nil bytes). rewrite app_nil_r, <- app_assoc. reflexivity.
  - injection H as <-. rewrite pushes_app.
    assert (Hl : length (x0 :: rest) = length sub).
    { rewrite <- Exs, (Permutation_length (sort_perm _)). apply map_length. }
    apply Nat.ltb_ge in E1. destruct rest; [reflexivity | cbn [length] in Hl; lia].
Qed.

(* two key lists with the same script (same timelock) are the same multiset of x-only keys *)
Theorem multisig_cmds_same_keys C lk sub k sub' k' cs :
  multisig_cmds C lk sub k = Ok cs -> multisig_cmds C lk sub' k' = Ok cs ->
  Permutation (map xonly sub) (map xonly sub').
Proof.
  intros H1 H2.
  destruct (multisig_cmds_pushes _ _ _ _ _ H1) as (pre & Hp & E1).
  destruct (multisig_cmds_pushes _ _ _ _ _ H2) as (pre' & Hp' & E2).
  rewrite Hp in Hp'. injection Hp' as <-. rewrite E1 in E2. apply app_inv_head in E2.
  rewrite <- (sort_perm (map xonly sub)), E2. apply sort_perm.
Qed.

Lemma multisig_cmds_nonempty C lk sub k cs : multisig_cmds C lk sub k = Ok cs -> sub <> [].
Proof.
  unfold multisig_cmds. intros H ->.
  destruct (lock_cmds lk); [|discriminate]. cbn in H. discriminate.
Qed.

Lemma multisig_cmds_nil C lk k : multisig_cmds C lk [] k = Err.
Proof. unfold multisig_cmds. destruct (lock_cmds lk); reflexivity. Qed.

Lemma mk_script_inj a b : mk_script a = mk_script b -> a = b.
Proof. intros H. now injection H. Qed.

(* ---------------- Forall2 helpers ---------------- *)
Lemma Forall2_In_l {A B} (R : A -> B -> Prop) l l' a :
  Forall2 R l l' -> In a l -> exists b, In b l' /\ R a b.
Proof.
  induction 1 as [|x y l l' Hxy _ IH]; intros Hin; [destruct Hin|].
  destruct Hin as [->|Hin]; [exists y; split; [now left | exact Hxy]|].
  destruct (IH Hin) as (b & Hb & Hr). exists b. split; [now right | exact Hr].
Qed.

Lemma Forall2_In_r {A B} (R : A -> B -> Prop) l l' b :
  Forall2 R l l' -> In b l' -> exists a, In a l /\ R a b.
Proof.
  induction 1 as [|x y l l' Hxy _ IH]; intros Hin; [destruct Hin|].
  destruct Hin as [->|Hin]; [exists x; split; [now left | exact Hxy]|].
  destruct (IH Hin) as (a & Ha & Hr). exists a. split; [now right | exact Hr].
Qed.

Lemma Forall2_len {A B} (R : A -> B -> Prop) l l' : Forall2 R l l' -> length l = length l'.
Proof. induction 1; cbn; congruence. Qed.

Lemma Forall2_NoDup {A B} (R : A -> B -> Prop) l l' :
  Forall2 R l l' -> NoDup l ->
  (forall a a' b, In a l -> In a' l -> R a b -> R a' b -> a = a') -> NoDup l'.
Proof.
  induction 1 as [|x y l l' Hxy HF IH]; intros Hn Hinj; [constructor|].
  inversion Hn as [|? ? Hx Hn']; subst. constructor.
  - intros Hin. destruct (Forall2_In_r _ _ _ _ HF Hin) as (a & Ha & Hr).
    apply Hx. rewrite (Hinj x a y); auto; [now left | now right].
  - apply IH; [exact Hn'|]. intros a a' b Ha Ha'. apply Hinj; now right.
Qed.

(* ---------------- multi_leaf_tree ---------------- *)
Definition ms_leaf C lk k (sub : list point) (lf : leaf) : Prop :=
  exists cs, multisig_cmds C lk sub k = Ok cs /\ lf = (192, mk_script cs).

Lemma NoDup_map_inv' {A B} (f : A -> B) l : NoDup (map f l) -> NoDup l.
Proof. apply NoDup_map_inv. Qed.

Theorem multi_leaf_tree_cover C pts k lk t :
  NoDup (map xonly pts) -> multi_leaf_tree C pts k lk = Ok t ->
  (1 <= k <= zlen pts) /\
  length (leaves t) = choose (length pts) (Z.to_nat k) /\
  NoDup (leaves t) /\
  (forall sub, subseq sub pts -> length sub = Z.to_nat k ->
     exists lf, ms_leaf C lk k sub lf /\ In lf (leaves t) /\
       forall sub', subseq sub' pts -> ms_leaf C lk k sub' lf -> sub' = sub) /\
  (forall sub' k' lf, ms_leaf C lk k' sub' lf -> In lf (leaves t) ->
     exists sub, subseq sub pts /\ length sub = Z.to_nat k /\ ms_leaf C lk k sub lf /\
       Permutation (map xonly sub') (map xonly sub)).
Proof.
  intros Hn Ht. pose proof (multi_leaf_tree_leaves C pts k lk t Ht) as HF.
  fold (ms_leaf C lk k) in HF.
  assert (Hinj : forall a a' lf, subseq a pts -> subseq a' pts ->
            ms_leaf C lk k a lf -> ms_leaf C lk k a' lf -> a = a').
  { intros a a' lf Ha Ha' (cs & H1 & E1) (cs' & H2 & E2). rewrite E1 in E2.
    injection E2 as E2. subst cs'.
    apply (subseq_perm_eq xonly pts Hn a a' Ha Ha').
    exact (multisig_cmds_same_keys C lk a k a' k cs H1 H2). }
  assert (Hk : 1 <= k <= zlen pts).
  { unfold multi_leaf_tree, multi_leaf_list in Ht.
    destruct (Z.to_nat k) as [|k'] eqn:Ek.
    - rewrite combos_0 in Ht. cbn [mapM] in Ht. rewrite multisig_cmds_nil in Ht. discriminate.
    - destruct (Nat.le_gt_cases (S k') (length pts)) as [Hle|Hgt].
      + unfold zlen. lia.
      + rewrite (combos_too_many pts (S k') Hgt) in Ht. cbn in Ht. discriminate. }
  split; [exact Hk|].
  split; [etransitivity; [symmetry; exact (Forall2_len _ _ _ HF) | apply combos_length]|].
  split.
  { apply (Forall2_NoDup _ _ _ HF).
    - apply combos_NoDup. exact (NoDup_map_inv' xonly pts Hn).
    - intros a a' lf Ha Ha' R1 R2. apply combos_sound in Ha as [Ha _]. apply combos_sound in Ha' as [Ha' _].
      exact (Hinj a a' lf Ha Ha' R1 R2). }
  split.
  - intros sub Hs Hl. pose proof (combos_complete pts _ sub Hs Hl) as Hin.
    destruct (Forall2_In_l _ _ _ _ HF Hin) as (lf & Hlf & Hr).
    exists lf. split; [exact Hr|]. split; [exact Hlf|].
    intros sub' Hs' Hr'. exact (Hinj sub' sub lf Hs' Hs Hr' Hr).
  - intros sub' k' lf (cs' & H' & E') Hin.
    destruct (Forall2_In_r _ _ _ _ HF Hin) as (sub & Hsub & (cs & Hcs & E)).
    apply combos_sound in Hsub as [Hs Hl].
    exists sub. split; [exact Hs|]. split; [exact Hl|]. split; [exists cs; auto|].
    rewrite E' in E. injection E as E. subst cs'.
    exact (multisig_cmds_same_keys C lk sub' k' sub k cs H' Hcs).
Qed.

(* ---------------- musig_tree ---------------- *)
Definition musig_leaf C sha256 lk (sub : list point) (lf : leaf) : Prop :=
  exists cs, musig_cmds C sha256 lk sub = Ok cs /\ lf = (192, mk_script cs).

Lemma musig_init_two C sha256 pts ms : musig_init C sha256 pts = Ok ms -> (2 <= length pts)%nat.
Proof.
  unfold musig_init. destruct pts as [|p0 [|p1 r]]; [discriminate| |cbn; lia].
  cbn [map sort_bytes insert_sorted mapM].
  destruct (parse_xonly C (xonly p0)); [|discriminate]. cbn. discriminate.
Qed.

Theorem musig_tree_cover C sha256 pts k lk t :
  musig_tree C sha256 pts k lk = Ok t ->
  (2 <= k <= zlen pts) /\
  length (leaves t) = choose (length pts) (Z.to_nat k) /\
  (forall sub, subseq sub pts -> length sub = Z.to_nat k ->
     exists lf, musig_leaf C sha256 lk sub lf /\ In lf (leaves t)) /\
  (forall lf, In lf (leaves t) ->
     exists sub, subseq sub pts /\ length sub = Z.to_nat k /\ musig_leaf C sha256 lk sub lf).
Proof.
  intros Ht. pose proof (musig_tree_leaves C sha256 pts k lk t Ht) as HF.
  fold (musig_leaf C sha256 lk) in HF.
  assert (Hne : combos pts (Z.to_nat k) <> []).
  { intros E. unfold musig_tree, musig_leaf_list in Ht. rewrite E in Ht. cbn in Ht. discriminate. }
  assert (Hle : (Z.to_nat k <= length pts)%nat).
  { destruct (Nat.le_gt_cases (Z.to_nat k) (length pts)) as [H|H]; [exact H|].
    exfalso. apply Hne. now apply combos_too_many. }
  assert (Hk2 : (2 <= Z.to_nat k)%nat).
  { destruct (combos pts (Z.to_nat k)) as [|sub rest] eqn:E; [congruence|].
    assert (Hin : In sub (combos pts (Z.to_nat k))) by (rewrite E; now left).
    apply combos_sound in Hin as [_ Hl]. rewrite <- Hl.
    inversion HF as [|? lf ? ? (cs & Hcs & _) _]; subst.
    unfold musig_cmds in Hcs. destruct (lock_cmds lk); [|discriminate]. cbn [bind] in Hcs.
    destruct (musig_init C sha256 sub) as [ms|] eqn:Ei; [|discriminate].
    exact (musig_init_two _ _ _ _ Ei). }
  split; [unfold zlen; lia|].
  split; [etransitivity; [symmetry; exact (Forall2_len _ _ _ HF) | apply combos_length]|].
  split.
  - intros sub Hs Hl. pose proof (combos_complete pts _ sub Hs Hl) as Hin.
    destruct (Forall2_In_l _ _ _ _ HF Hin) as (lf & Hlf & Hr). eauto.
  - intros lf Hin. destruct (Forall2_In_r _ _ _ _ HF Hin) as (sub & Hsub & Hr).
    apply combos_sound in Hsub as [Hs Hl]. eauto.
Qed.

(* ---------------- single_leaf and the composed trees ---------------- *)
Theorem single_leaf_what C pts k lk t :
  single_leaf C pts k lk = Ok t <->
  exists cs, multisig_cmds C lk pts k = Ok cs /\ t = Leaf 192 (mk_script cs).
Proof.
  unfold single_leaf, tap_leaf_of. split.
  - destruct (multisig_cmds C lk pts k) as [cs|]; [|discriminate]. cbn. intros [= <-]. eauto.
  - intros (cs & -> & ->). reflexivity.
Qed.

Theorem musig_and_single_leaf_tree_leaves C sha256 pts k lk t :
  musig_and_single_leaf_tree C sha256 pts k lk = Ok t ->
  exists cs b, multisig_cmds C lk pts k = Ok cs /\ musig_tree C sha256 pts k lk = Ok b /\
    t = Branch (Leaf 192 (mk_script cs)) b /\ leaves t = (192, mk_script cs) :: leaves b.
Proof.
  unfold musig_and_single_leaf_tree, single_leaf, tap_leaf_of.
  destruct (multisig_cmds C lk pts k) as [cs|]; [|discriminate]. cbn [bind].
  destruct (musig_tree C sha256 pts k lk) as [b|]; [|discriminate]. cbn [bind].
  intros [= <-]. exists cs, b. repeat split.
Qed.

Theorem everything_tree_leaves C sha256 pts k lk t :
  everything_tree C sha256 pts k lk = Ok t ->
  exists cs b c, multisig_cmds C lk pts k = Ok cs /\ multi_leaf_tree C pts k lk = Ok b /\
    musig_tree C sha256 pts k lk = Ok c /\
    t = Branch (Leaf 192 (mk_script cs)) (Branch b c) /\
    leaves t = (192, mk_script cs) :: leaves b ++ leaves c.
Proof.
  unfold everything_tree, single_leaf, tap_leaf_of.
  destruct (multisig_cmds C lk pts k) as [cs|]; [|discriminate]. cbn [bind].
  destruct (multi_leaf_tree C pts k lk) as [b|]; [|discriminate]. cbn [bind].
  destruct (musig_tree C sha256 pts k lk) as [c|]; [|discriminate]. cbn [bind].
  intros [= <-]. exists cs, b, c. repeat split.
Qed.

(* ---------------- degrading_multisig_tree ---------------- *)
Fixpoint countdown (cnt : nat) (num : Z) : list Z :=
  match cnt with
  | O => []
  | S c => num :: countdown c (num - 1)
  end.

(* the (threshold, key subset) pairs in the order of the two nested loops *)
Definition degrading_plan (pts : list point) (k : Z) : list (Z * list point) :=
  flat_map (fun num => map (pair num) (combos pts (Z.to_nat num))) (countdown (Z.to_nat k) k).

Definition degrading_leaf C kind interval k (ns : Z * list point) (lf : leaf) : Prop :=
  exists lk cs, degrading_seq kind interval k (fst ns) = Ok lk /\
    multisig_cmds C lk (snd ns) (fst ns) = Ok cs /\ lf = (192, mk_script cs).

Lemma degrading_leaves_spec C pts kind interval k : forall cnt num ls,
  degrading_leaves C pts kind interval k cnt num = Ok ls ->
  Forall2 (degrading_leaf C kind interval k)
    (flat_map (fun num => map (pair num) (combos pts (Z.to_nat num))) (countdown cnt num))
    (flat_map leaves ls).
Proof.
  induction cnt as [|c IH]; intros num ls H; cbn [degrading_leaves] in H.
  - injection H as <-. constructor.
  - destruct (degrading_seq kind interval k num) as [lk|] eqn:El; [|discriminate]. cbn [bind] in H.
    destruct (mapM _ (combos pts (Z.to_nat num))) as [l1|] eqn:E1; [|discriminate]. cbn [bind] in H.
    destruct (degrading_leaves C pts kind interval k c (num - 1)) as [rest|] eqn:E2; [|discriminate].
    cbn [bind] in H. injection H as <-.
    cbn [countdown flat_map]. rewrite flat_map_app. apply Forall2_app; [|now apply IH].
    apply mapM_Forall2 in E1. clear E2 IH.
    induction E1 as [|sub nd subs l1 Hx _ IH']; cbn [map flat_map]; [constructor|].
    destruct (multisig_cmds C lk sub num) as [cs|] eqn:Ecs; [|discriminate]. cbn [bind] in Hx.
    injection Hx as <-. cbn [tap_leaf_of leaves app]. constructor; [|exact IH'].
    exists lk, cs. cbn [fst snd]. auto.
Qed.

Theorem degrading_tree_leaves C pts k kind interval t :
  degrading_multisig_tree C pts k kind interval = Ok t ->
  Forall2 (degrading_leaf C kind interval k) (degrading_plan pts k) (leaves t).
Proof.
  unfold degrading_multisig_tree, degrading_plan. intros H.
  destruct (degrading_leaves C pts kind interval k (Z.to_nat k) k) as [ls|] eqn:E; [|discriminate].
  cbn [bind] in H. rewrite (combine_nodes_leaves _ _ _ H).
  exact (degrading_leaves_spec C pts kind interval k _ _ _ E).
Qed.

(* the first level of the degrading tree is the k-of-k level without a timelock *)
Lemma degrading_seq_top kind interval k : degrading_seq kind interval k k = Ok NoLock.
Proof. unfold degrading_seq. now rewrite Z.eqb_refl. Qed.
