(* Proofs/ProgramP.v — whole-program conformance (see Proofs/InterpP.v for the program AST):
   for every well-formed program, the library's evaluation of its flattening (splicing command
   lists) and the consensus evaluation of the same flattening (execution-condition stack) give
   the same verdict, unless the spec is OutOfScope. *)
From V Require Import Base.Prelude Base.Ints Model.Script Model.Op Model.Interp Spec.Consensus
  Proofs.OpP Proofs.ConformP Proofs.StackOkP Proofs.InterpP.

(* library outcome vs. consensus verdict *)
Definition rel (lib : outcome) (v : verdict) : Prop :=
  match v with
  | OutOfScope => True
  | Accept => lib = OTrue
  | Reject => lib = OFalse
  end.

(* the verdict of a finished consensus run *)
Definition fin (r : sres (list bool * cstate)) : verdict :=
  match r with
  | SOOS => OutOfScope
  | SFail => Reject
  | SOk (_ :: _, _) => Reject
  | SOk ([], ([], _)) => Reject
  | SOk ([], (v :: _, _)) => if cast_to_bool v then Accept else Reject
  end.

Lemma length_select b body : (length (flatten (select b body)) <= length (flatten body))%nat.
Proof.
  revert b; induction body as [|i r IH]; intros b; [cbn; lia|].
  rewrite flatten_cons, app_length.
  destruct i; cbn [select].
  - pose proof (IH b). destruct b; [rewrite flatten_cons, app_length|]; lia.
  - specialize (IH (negb b)). cbn [flat_item length]. lia.
  - pose proof (IH b). destruct b; [rewrite flatten_cons, app_length|]; lia.
Qed.

Section Program.
  Variables ripemd160 sha1 sha256 : bytes -> bytes.
  Hypothesis ripemd160_ok : forall x, bytes_ok (ripemd160 x).
  Hypothesis sha1_ok : forall x, bytes_ok (sha1 x).
  Hypothesis sha256_ok : forall x, bytes_ok (sha256 x).
  Variable c : txctx.
  Variable xw : bool.

  Notation table := (lib_table ripemd160 sha1 sha256).
  Notation run := (Consensus.run ripemd160 sha1 sha256 (to_ctx c) xw).

  Lemma table_if o neg : table o = Some (FIf neg) -> is_ctl o = true.
  Proof.
    unfold lib_table, op_code_functions, common_functions, is_ctl. intros H.
    repeat match type of H with
           | context [if ?b then _ else _] =>
               let E := fresh "E" in destruct b eqn:E; [try discriminate|]
           end;
    try discriminate;
    repeat match goal with
           | E : (o =? ?k) = true |- _ => apply Z.eqb_eq in E; subst o
           end; reflexivity.
  Qed.

  Lemma lib_exec_plain o rest s a : is_ctl o = false ->
    Interp.exec_op table c o rest s a =
    match lib_step ripemd160 sha1 sha256 c o s a with
    | Ok (s', a') => Ok (rest, s', a')
    | Err => Err
    end.
  Proof.
    intros P. unfold lib_step, Interp.exec_op.
    destruct (table o) as [[f|neg|f|f]|] eqn:T.
    - unfold bind. destruct (f s); reflexivity.
    - apply table_if in T. congruence.
    - unfold bind. destruct (f s a) as [[s1 a1]|]; reflexivity.
    - unfold bind. destruct (f c s); reflexivity.
    - reflexivity.
  Qed.

  Lemma lib_exec_if (neg : bool) rest s a :
    Interp.exec_op table c (if neg then 100 else 99) rest s a =
    match op_if_gen neg s rest with
    | Ok (s', rest') => Ok (rest', s', a)
    | Err => Err
    end.
  Proof.
    unfold Interp.exec_op.
    assert (T : table (if neg then 100 else 99) = Some (FIf neg)) by (destruct neg; reflexivity).
    rewrite T. unfold bind. destruct (op_if_gen neg s rest) as [[s1 r1]|]; reflexivity.
  Qed.

  Lemma final_rel s a : Forall bytes_ok s -> rel (final_test s) (fin (SOk ([], (s, a)))).
  Proof.
    intros Hs. destruct s as [|v s]; [reflexivity|].
    apply Forall_cons_iff in Hs as [B _]. cbn [fin final_test].
    rewrite (cast_decode v B). destruct (decode_num v =? 0); reflexivity.
  Qed.

  Lemma rel_oos_or lib (x y : sres (list bool * cstate)) : oos_or x y -> rel lib (fin y) -> rel lib (fin x).
  Proof. intros [-> | ->]; [intros _; exact I | auto]. Qed.

  Lemma program_conf n : forall p, (psize p <= n)%nat -> wf_items p = true -> no_else p = true ->
    forall fuel s a, (length (flatten p) <= fuel)%nat -> Forall bytes_ok s -> Forall bytes_ok a ->
    rel (eval_loop table c false xw fuel (flatten p) s a) (fin (run (flatten p) [] (s, a))).
  Proof.
    induction n as [|n IH]; intros p Hn Hw Hne fuel s a Hf Hs Ha.
    - destruct p as [|i r]; [destruct fuel; apply final_rel; exact Hs|].
      rewrite psize_cons in Hn. pose proof (isize_pos i). lia.
    - destruct p as [|i r]; [destruct fuel; apply final_rel; exact Hs|].
      rewrite psize_cons in Hn. cbn [wf_items forallb] in Hw. apply andb_true_iff in Hw as [Hi Hr].
      fold (wf_items r) in Hr. pose proof (isize_pos i) as Hp.
      cbn [no_else forallb] in Hne. apply andb_true_iff in Hne as [Hni Hnr]. fold (no_else r) in Hnr.
      rewrite flatten_cons in *.
      destruct i as [cm| |neg body]; [| discriminate |].
      + (* a plain command *)
        cbn [flat_item app] in *. cbn [length] in Hf.
        destruct fuel as [|f]; [lia|]. apply le_S_n in Hf.
        rewrite (run_plain ripemd160 sha1 sha256 c xw cm) by now apply plain_of_wf.
        change (fex []) with true. cbv iota.
        destruct cm as [o|b].
        * cbn [wf_item] in Hi. apply andb_true_iff in Hi as [Hc H113].
          apply negb_true_iff in Hc. apply negb_true_iff, Z.eqb_neq in H113.
          cbn [eval_loop]. rewrite (lib_exec_plain o _ s a Hc).
          cbn [spec_cmd]. destruct (negb (in_set o)); [exact I|].
          assert (A : agree (lib_step ripemd160 sha1 sha256 c o s a) (spec_step ripemd160 sha1 sha256 c o s a)).
          { destruct (Z.eq_dec o 177) as [->|N1]; [now apply cltv_conformance|].
            destruct (Z.eq_dec o 178) as [->|N2]; [now apply csv_conformance|].
            now apply opcode_conformance. }
          destruct (Consensus.exec_op ripemd160 sha1 sha256 (to_ctx c) o (s, a)) as [[s1 a1]| |] eqn:Es;
            [ assert (Es' : spec_step ripemd160 sha1 sha256 c o s a = SOk (s1, a1)) by exact Es
            | assert (Es' : spec_step ripemd160 sha1 sha256 c o s a = SFail) by exact Es
            | exact I ];
            rewrite Es' in A; cbn [agree sbind] in A |- *; [| rewrite A; reflexivity].
          rewrite A.
          destruct (exec_ok ripemd160 sha1 sha256 ripemd160_ok sha1_ok sha256_ok c o s a s1 a1 Hs Ha Es')
            as [Hs1 Ha1].
          apply IH; auto; lia.
        * cbn [wf_item] in Hi. apply bytes_okb_ok in Hi.
          cbn [eval_loop spec_cmd fst snd].
          destruct (520 <? zlen b); [exact I|].
          unfold special_after_push. cbn [andb orb].
          change (special_stack (b :: s)) with (witness_shape (b :: s)).
          destruct (xw && witness_shape (b :: s)); [exact I|]. cbn [sbind].
          apply IH; auto; try lia; constructor; assumption.
      + (* a conditional *)
        rewrite isize_if in Hn. rewrite wf_item_if in Hi.
        rewrite flat_item_if in *. cbn [app length] in Hf. rewrite <- app_assoc in *. cbn [app] in *.
        destruct fuel as [|f]; [lia|]. apply le_S_n in Hf.
        rewrite run_if. change (fex []) with true. cbv iota. cbn [fst snd].
        cbn [eval_loop]. rewrite lib_exec_if.
        destruct s as [|e s']; [reflexivity|].
        apply Forall_cons_iff in Hs as [Be Hs'].
        replace ((flatten body ++ [Op 104]) ++ flatten r) with (flatten body ++ Op 104 :: flatten r)
          by (rewrite <- app_assoc; reflexivity).
        rewrite (op_if_flat neg e s' body (flatten r) Hi).
        rewrite (cast_decode e Be).
        set (b := xorb (negb (decode_num e =? 0)) neg).
        eapply rel_oos_or; [apply run_splice; exact Hi|].
        rewrite <- flatten_app.
        apply IH; auto.
        * rewrite psize_app. pose proof (psize_select b body). lia.
        * rewrite wf_items_app, (wf_select b body Hi), Hr. reflexivity.
        * rewrite no_else_app, no_else_select, Hnr. reflexivity.
        * rewrite flatten_app, app_length. rewrite !app_length in Hf. cbn [length] in Hf.
          pose proof (length_select b body). lia.
  Qed.

  (* Script(flatten p).evaluate(tx, 0, allow_p2sh=False, allow_witness=xw) against EvalScript *)
  Theorem program_conformance p : wf_prog p = true ->
    rel (evaluate table c false xw (flatten p))
        (eval_script ripemd160 sha1 sha256 (to_ctx c) xw (flatten p)).
  Proof.
    intros Hw. unfold wf_prog in Hw. apply andb_true_iff in Hw as [Hw Hne].
    unfold evaluate.
    change (eval_script ripemd160 sha1 sha256 (to_ctx c) xw (flatten p))
      with (fin (run (flatten p) [] ([], []))).
    apply (program_conf (psize p)); auto.
  Qed.
End Program.

(* ------------------------------------------------------------------ the fuel of eval_loop *)

Lemma if_scan_length items : forall need cur t f t' f' rest',
  if_scan items need cur t f = Some (t', f', rest') ->
  (length t' + length f' + length rest' < length items + length t + length f)%nat.
Proof.
  induction items as [|it rest IH]; intros need cur t f t' f' rest' E; [discriminate|].
  assert (Keep : forall nd, (if cur then if_scan rest nd cur (it :: t) f else if_scan rest nd cur t (it :: f))
                   = Some (t', f', rest') ->
                 (length t' + length f' + length rest' < length (it :: rest) + length t + length f)%nat).
  { intros nd H. destruct cur; apply IH in H; cbn [length] in *; lia. }
  cbn [if_scan] in E.
  destruct it as [o|b]; [|exact (Keep need E)].
  destruct (Z.eq_dec o 99) as [->|N99]; [exact (Keep (S need) E)|].
  destruct (Z.eq_dec o 100) as [->|N100]; [exact (Keep (S need) E)|].
  destruct (Z.eq_dec o 103) as [->|N103].
  { destruct need; [|exact (Keep _ E)]. apply IH in E. cbn [length]. lia. }
  destruct (Z.eq_dec o 104) as [->|N104].
  { destruct need; [|exact (Keep _ E)]. injection E as <- <- <-. rewrite !rev_length. cbn [length]. lia. }
  assert (G : (if cur then if_scan rest need cur (Op o :: t) f else if_scan rest need cur t (Op o :: f))
              = Some (t', f', rest')).
  { destruct o as [|q|q]; try exact E;
      repeat (destruct q as [q|q|]; try exact E; try lia). }
  exact (Keep need G).
Qed.

Lemma op_if_length neg s items s' items' :
  op_if_gen neg s items = Ok (s', items') -> (length items' < length items)%nat.
Proof.
  unfold op_if_gen. destruct s as [|e r]; [discriminate|].
  destruct (if_scan items 0 true [] []) as [[[t f] rest]|] eqn:E; [|discriminate].
  apply if_scan_length in E. cbn [length] in E.
  intros [= _ <-]. destruct (xorb (decode_num e =? 0) neg); rewrite app_length; lia.
Qed.

Section Fuel.
  Variable table : Z -> option opfn.
  Variable c : txctx.
  Variables ap aw : bool.

  Lemma exec_op_length o rest s a rest' s' a' :
    Interp.exec_op table c o rest s a = Ok (rest', s', a') -> (length rest' <= length rest)%nat.
  Proof.
    unfold Interp.exec_op. destruct (table o) as [[f|neg|f|f]|]; unfold bind; try discriminate.
    - destruct (f s); [intros [= <- _ _]; lia | discriminate].
    - destruct (op_if_gen neg s rest) as [[s1 r1]|] eqn:E; [|discriminate].
      apply op_if_length in E. intros [= <- _ _]. lia.
    - destruct (f s a) as [[s1 a1]|]; [intros [= <- _ _]; lia | discriminate].
    - destruct (f c s); [intros [= <- _ _]; lia | discriminate].
  Qed.

  (* the fuel [length cmds] chosen by [evaluate] is enough: more fuel changes nothing *)
  Lemma eval_loop_fuel f : forall cmds s a, (length cmds <= f)%nat ->
    eval_loop table c ap aw f cmds s a = eval_loop table c ap aw (length cmds) cmds s a.
  Proof.
    induction f as [f IH] using lt_wf_ind. intros cmds s a Hf.
    destruct cmds as [|cm rest]; [destruct f; reflexivity|].
    cbn [length] in *. destruct f as [|f]; [lia|]. apply le_S_n in Hf.
    cbn [eval_loop]. destruct cm as [o|b].
    - destruct (Interp.exec_op table c o rest s a) as [[[rest' s'] a']|] eqn:E; [|reflexivity].
      pose proof (exec_op_length _ _ _ _ _ _ _ E) as L.
      rewrite (IH f ltac:(lia) rest' s' a' ltac:(lia)).
      rewrite (IH (length rest) ltac:(lia) rest' s' a' L). reflexivity.
    - destruct (special_after_push ap aw rest (b :: s)); [reflexivity|].
      apply IH; lia.
  Qed.
End Fuel.
