(* Proofs/MerkleP.v — merkle_root (with its argument mutation) equals the consensus
   Merkle root; the mutation is harmless; bit-field round trip. *)
From V Require Import Base.Prelude Base.Ints Model.Merkle Spec.Bip37.

Lemma list_ind2 {A} (P : list A -> Prop) :
  P [] -> (forall a, P [a]) -> (forall a b r, P r -> P (a :: b :: r)) -> forall l, P l.
Proof.
  intros H0 H1 H2.
  assert (forall l, P l /\ forall a, P (a :: l)) as H.
  { induction l as [|x l [IH1 IH2]]; split; auto. }
  intros l. apply H.
Qed.

Section MerkleP.
Variable hash256 : bytes -> bytes.

Notation pair_up := (pair_up hash256).
Notation core_level := (core_level hash256).

(* the list after the in-place append *)
Definition dup_last (l : list bytes) : list bytes :=
  if Nat.odd (length l) then l ++ [last l []] else l.

Lemma odd_SS n : Nat.odd (S (S n)) = Nat.odd n.
Proof. reflexivity. Qed.

Lemma pair_up_dup_last l : pair_up (dup_last l) = core_level l.
Proof.
  unfold dup_last. induction l as [| a | a b r IH] using list_ind2.
  - reflexivity.
  - reflexivity.
  - cbn [length]. rewrite odd_SS.
    destruct (Nat.odd (length r)) eqn:E.
    + change ((a :: b :: r) ++ [last (a :: b :: r) []]) with (a :: b :: (r ++ [last (a :: b :: r) []])).
      assert (last (a :: b :: r) [] = last r []) as ->.
      { destruct r as [|c r']; [discriminate|]. reflexivity. }
      cbn [Merkle.pair_up Bip37.core_level]. unfold merkle_parent. f_equal. exact IH.
    + cbn [Merkle.pair_up Bip37.core_level]. unfold merkle_parent. f_equal. exact IH.
Qed.

Lemma core_level_length l : length (core_level l) = Nat.div2 (S (length l)).
Proof.
  induction l as [| a | a b r IH] using list_ind2; try reflexivity.
  cbn [Bip37.core_level length]. rewrite IH. reflexivity.
Qed.

Lemma div2_S_lt n : (2 <= n)%nat -> (Nat.div2 (S n) < n)%nat.
Proof. intros H. rewrite Nat.div2_div. apply Nat.div_lt_upper_bound; lia. Qed.

Lemma div2_S_pos n : (1 <= n)%nat -> (1 <= Nat.div2 (S n))%nat.
Proof. intros H. rewrite Nat.div2_div. apply Nat.div_le_lower_bound; lia. Qed.

Lemma merkle_parent_level_eq l :
  length l <> 1%nat -> merkle_parent_level hash256 l = Ok (core_level l, dup_last l).
Proof.
  intros H. unfold merkle_parent_level.
  destruct (Nat.eqb_spec (length l) 1); [contradiction|].
  f_equal. f_equal. apply pair_up_dup_last.
Qed.

(* the argument after merkle_root *)
Definition mutated (l : list bytes) : list bytes :=
  if (1 <? length l)%nat then dup_last l else l.

Lemma mrl_S f cur :
  merkle_root_loop hash256 (S f) cur =
  if (1 <? length cur)%nat then
    '(parent, cur') <- merkle_parent_level hash256 cur ;;
    '(r, _) <- merkle_root_loop hash256 f parent ;; Ok (r, cur')
  else match cur with x :: _ => Ok (x, cur) | [] => Err end.
Proof. reflexivity. Qed.

Lemma crl_S f l :
  core_root_loop hash256 (S f) l =
  if (1 <? length l)%nat then core_root_loop hash256 f (core_level l) else l.
Proof. reflexivity. Qed.

Lemma merkle_root_loop_eq : forall f l,
  l <> [] -> (length l <= f)%nat ->
  merkle_root_loop hash256 (S f) l = Ok (hd (repeatz 0 32) (core_root_loop hash256 f l), mutated l).
Proof.
  induction f as [|f IH]; intros l Hne Hlen.
  - destruct l; [congruence | cbn in Hlen; lia].
  - rewrite mrl_S, crl_S. unfold mutated.
    destruct (Nat.ltb_spec 1 (length l)) as [H1|H1].
    + rewrite merkle_parent_level_eq by lia. cbn [bind].
      assert (core_level l <> []) as Hne'.
      { intros E. pose proof (core_level_length l) as HL. rewrite E in HL. cbn [length] in HL.
        pose proof (div2_S_pos (length l) ltac:(lia)). lia. }
      assert (length (core_level l) <= f)%nat as Hlen'.
      { rewrite core_level_length. pose proof (div2_S_lt (length l) ltac:(lia)). lia. }
      rewrite (IH _ Hne' Hlen'). reflexivity.
    + destruct l as [|x [|y r]]; [congruence | | cbn in H1; lia].
      reflexivity.
Qed.

Lemma merkle_root_eq l :
  l <> [] -> merkle_root hash256 l = Ok (consensus_root hash256 l, mutated l).
Proof.
  intros H. unfold merkle_root, consensus_root. apply merkle_root_loop_eq; [exact H | lia].
Qed.

Lemma merkle_root_nil : merkle_root hash256 [] = Err.
Proof. reflexivity. Qed.

(* fuel monotonicity of the model loop *)
Lemma merkle_root_loop_mono : forall f l v,
  merkle_root_loop hash256 f l = Ok v -> forall f', (f <= f')%nat -> merkle_root_loop hash256 f' l = Ok v.
Proof.
  induction f as [|f IH]; intros l v H f' Hf; [discriminate|].
  destruct f' as [|f']; [lia|]. rewrite mrl_S in *.
  destruct (1 <? length l)%nat; [|exact H].
  destruct (merkle_parent_level hash256 l) as [[p c]|]; [|discriminate]. cbn [bind] in *.
  destruct (merkle_root_loop hash256 f p) as [[r m]|] eqn:E; [|discriminate].
  rewrite (IH _ _ E f' ltac:(lia)). exact H.
Qed.

Lemma dup_last_length_even l : Nat.odd (length (dup_last l)) = false.
Proof.
  unfold dup_last. destruct (Nat.odd (length l)) eqn:E; [|exact E].
  rewrite app_length. cbn [length]. rewrite Nat.add_1_r, Nat.odd_succ, <- Nat.negb_odd, E. reflexivity.
Qed.

Lemma dup_last_idem l : dup_last (dup_last l) = dup_last l.
Proof. unfold dup_last at 1. now rewrite dup_last_length_even. Qed.

Lemma dup_last_length_ge l : (length l <= length (dup_last l))%nat.
Proof. unfold dup_last. destruct (Nat.odd (length l)); [rewrite app_length|]; lia. Qed.

(* calling merkle_root again on the list it has mutated gives the same root, and does
   not change the list any more *)
Lemma merkle_root_mutation_harmless l :
  l <> [] -> merkle_root hash256 (mutated l) = Ok (consensus_root hash256 l, mutated l).
Proof.
  intros Hne. pose proof (merkle_root_eq l Hne) as HR.
  unfold mutated in *. destruct (Nat.ltb_spec 1 (length l)) as [H1|H1]; [|exact HR].
  unfold merkle_root in *. rewrite mrl_S in HR.
  destruct (Nat.ltb_spec 1 (length l)) as [_|]; [|lia].
  rewrite merkle_parent_level_eq in HR by lia. cbn [bind] in HR.
  destruct (merkle_root_loop hash256 (length l) (core_level l)) as [[r m]|] eqn:E; [|discriminate].
  injection HR as Hr.
  rewrite mrl_S.
  pose proof (dup_last_length_ge l) as Hge.
  destruct (Nat.ltb_spec 1 (length (dup_last l))) as [_|]; [|lia].
  rewrite merkle_parent_level_eq by lia. cbn [bind].
  rewrite <- pair_up_dup_last, dup_last_idem, pair_up_dup_last.
  rewrite (merkle_root_loop_mono _ _ _ E (length (dup_last l)) Hge). now rewrite Hr.
Qed.

(* the mutation only appends: the original elements stay where they were *)
Lemma mutated_prefix l : exists t, mutated l = l ++ t /\ (length t <= 1)%nat.
Proof.
  unfold mutated, dup_last. destruct (1 <? length l)%nat; [destruct (Nat.odd (length l))|].
  - exists [last l []]. split; [reflexivity | cbn; lia].
  - exists []. rewrite app_nil_r. split; [reflexivity | cbn; lia].
  - exists []. rewrite app_nil_r. split; [reflexivity | cbn; lia].
Qed.

Lemma validate_merkle_root_eq hdr_root tx_hashes :
  tx_hashes <> [] ->
  validate_merkle_root hash256 hdr_root tx_hashes =
  Ok (beq (rev (consensus_root hash256 (map (@rev Z) tx_hashes))) hdr_root).
Proof.
  intros H. unfold validate_merkle_root. rewrite merkle_root_eq; [reflexivity|].
  destruct tx_hashes; [congruence | discriminate].
Qed.
End MerkleP.
