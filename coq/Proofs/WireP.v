(* Proofs/WireP.v — C19: SimpleNode.send / wait_for / handshake on an in-memory stream,
   message-in-envelope round trips, the default VersionMessage(). *)
From V Require Import Base.Prelude Base.Ints Model.Helper Model.Block Model.Gcs Model.Network
  Model.Wire Spec.P2P Proofs.HelperP Proofs.NetworkP Proofs.EnvelopeP Proofs.P2PSpecP.

(* ---------------- int_to_byte / byte_to_int ---------------- *)

Lemma int_to_byte_iff n b : int_to_byte n = Ok b <-> (0 <= n < 256 /\ b = [n]).
Proof.
  unfold int_to_byte. destruct (n >? 255) eqn:E1; destruct (n <? 0) eqn:E2; cbn [orb]; split;
    try discriminate; try (intros [H _]; lia).
  - intros H. apply Ok_inj in H. split; [lia|now subst].
  - intros [_ ->]. reflexivity.
Qed.

Lemma int_to_byte_roundtrip n :
  0 <= n < 256 -> exists b, int_to_byte n = Ok b /\ byte_to_int b = Ok n /\
                            b = to_le 1 n /\ b = to_be 1 n.
Proof.
  intros H. exists [n]. split; [now apply int_to_byte_iff|]. split; [reflexivity|].
  unfold to_be. cbn [to_le rev app]. rewrite Z.mod_small by lia. auto.
Qed.

(* ---------------- default VersionMessage() ---------------- *)

Lemma version_default_ok_iff now r :
  (exists m, version_default now r = Ok m) <-> 0 <= r < 18446744073709551616.
Proof.
  unfold version_default. split.
  - intros [m H]. destruct (int_to_le r 8) as [n|] eqn:E; [|discriminate].
    apply int_to_le_inv in E as [R _]. now rewrite pow256_8 in R.
  - intros H. rewrite int_to_le_ok by now rewrite pow256_8. cbn [bind]. eauto.
Qed.

(* remark: a value of 2**64 (what randint(0, 2**64) could return before the fix 7914d9d) does
   not fit the 8-byte nonce *)
Lemma version_default_overflow now : version_default now 18446744073709551616 = Err.
Proof. reflexivity. Qed.

(* every value randint(randint_lo, randint_hi) can return gives a message with an 8-byte nonce *)
Lemma version_default_total now r :
  randint_lo <= r <= randint_hi ->
  exists m, version_default now r = Ok m /\ length (vm_nonce m) = 8%nat /\ vm_timestamp m = now.
Proof.
  unfold randint_lo, randint_hi. intros H. unfold version_default.
  rewrite int_to_le_ok by (rewrite pow256_8; lia). cbn [bind]. eexists. split; [reflexivity|].
  cbn [vm_nonce vm_timestamp]. now rewrite to_le_length.
Qed.

Lemma version_default_wf now r m :
  0 <= now < 18446744073709551616 -> version_default now r = Ok m -> version_wf m.
Proof.
  intros Hn. unfold version_default. destruct (int_to_le r 8) as [n|] eqn:E; [|discriminate].
  apply int_to_le_inv in E as [R ->]. cbn [bind]. intros H. apply Ok_inj in H. subst m.
  unfold version_wf, version_fields_ok.
  cbn [vm_version vm_services vm_timestamp vm_recv_services vm_recv_ip vm_recv_port
       vm_send_services vm_send_ip vm_send_port vm_nonce vm_user_agent vm_latest_block vm_relay].
  rewrite to_le_length. unfold zlen, default_user_agent. cbn [length]. repeat split; lia.
Qed.

(* ... and it serialises whenever the clock value fits the 8-byte timestamp *)
Lemma version_default_serializes now r :
  randint_lo <= r <= randint_hi -> 0 <= now < 18446744073709551616 ->
  exists m b, version_default now r = Ok m /\ version_wf m /\ version_serialize m = Ok b.
Proof.
  intros Hr Hn. destruct (version_default_total now r Hr) as [m (Hm & _)].
  pose proof (version_default_wf now r m Hn Hm) as W.
  exists m. eexists. split; [exact Hm|]. split; [exact W|]. apply version_serialize_ok, W.
Qed.

Lemma p2p_version_bytes_length v :
  length (p2p_version_bytes v) =
  (20 + (26 + length (na_ip (pv_addr_recv v)) - 16) + (26 + length (na_ip (pv_addr_from v)) - 16)
   + length (pv_nonce v) + length (cs_bytes (zlen (pv_user_agent v)))
   + length (pv_user_agent v) + 5)%nat.
Proof.
  unfold p2p_version_bytes, net_addr_bytes.
  rewrite !app_length, !to_le_length, !to_be_length. cbn [length]. lia.
Qed.

Lemma cs_bytes_length_le n : (length (cs_bytes n) <= 9)%nat.
Proof.
  unfold cs_bytes. destruct (n <? 253); [cbn; lia|]. destruct (n <=? 65535);
    [cbn [length]; rewrite to_le_length; lia|].
  destruct (n <=? 4294967295); cbn [length]; rewrite to_le_length; lia.
Qed.

Section WithHash.
Variable hash256 : bytes -> bytes.
Hypothesis hash256_len : forall x, length (hash256 x) = 32%nat.

Notation ck := (ck hash256).

(* the bytes of one envelope *)
Definition envbytes (net : Z) (c p : bytes) : bytes :=
  magic_of net ++ (c ++ repeatz 0 (12 - length c)) ++ to_le 4 (zlen p) ++ ck p ++ p.

Definition frame_ok (cp : bytes * bytes) : Prop :=
  (length (fst cp) <= 12)%nat /\ no_nul_ends (fst cp) /\ zlen (snd cp) < 4294967296.

Lemma env_serialize_envbytes net c p :
  zlen p < 4294967296 -> env_serialize hash256 net c p = Ok (envbytes net c p).
Proof. apply env_serialize_layout. Qed.

Lemma env_parse_envbytes net c p rest :
  frame_ok (c, p) -> env_parse hash256 net (envbytes net c p ++ rest) = Ok (c, p, rest).
Proof.
  intros (Hc & Hn & Hp). cbn [fst snd] in *. unfold envbytes. rewrite <- !app_assoc.
  rewrite (app_assoc c).
  rewrite (env_parse_frame hash256 hash256_len)
    by (try rewrite app_length, repeatz_length; lia).
  rewrite strip0_pad. now rewrite (proj2 (strip0_fixed_iff c) Hn).
Qed.

Lemma envbytes_length net c p :
  (length c <= 12)%nat -> length (envbytes net c p) = (24 + length p)%nat.
Proof.
  intros H. unfold envbytes.
  rewrite !app_length, magic_length, repeatz_length, to_le_length, (ck_len hash256 hash256_len). lia.
Qed.

(* what wait_for sends in answer to one envelope *)
Definition reply (net : Z) (c p : bytes) : list bytes :=
  if beq c cmd_version then [envbytes net cmd_verack []]
  else if beq c cmd_ping then [envbytes net cmd_pong p]
  else [].

Definition frames (net : Z) (l : list (bytes * bytes)) : bytes :=
  concat (map (fun cp => envbytes net (fst cp) (snd cp)) l).
Definition replies (net : Z) (l : list (bytes * bytes)) : list bytes :=
  concat (map (fun cp => reply net (fst cp) (snd cp)) l).

(* ---------------- the fuel of wait_for is adequate ---------------- *)

Lemma wait_loop_fuel net wanted : forall f1 f2 s sent,
  (length s < f1)%nat -> (length s < f2)%nat ->
  wait_loop hash256 f1 net wanted s sent = wait_loop hash256 f2 net wanted s sent.
Proof.
  induction f1 as [|f1 IH]; intros f2 s sent H1 H2; [lia|].
  destruct f2 as [|f2]; [lia|]. cbn [wait_loop].
  destruct (env_parse hash256 net s) as [[[cmd payload] rest]|] eqn:EP; [|reflexivity].
  cbn [bind]. pose proof (env_parse_consumes hash256 hash256_len _ _ _ _ _ EP) as LC.
  match goal with |- bind ?X _ = _ => destruct X as [sent'|] end; [|reflexivity].
  cbn [bind]. destruct (existsb (beq cmd) wanted); [reflexivity|]. apply IH; lia.
Qed.

(* in particular the loop never stops for lack of fuel: with more fuel the result is the same *)
Lemma node_wait_for_fuel net wanted s f :
  (length s < f)%nat -> wait_loop hash256 f net wanted s [] = node_wait_for hash256 net wanted s.
Proof. intros H. unfold node_wait_for. apply wait_loop_fuel; lia. Qed.

(* ---------------- one step, a whole stream ---------------- *)

Lemma wait_step net wanted f c p rest sent :
  frame_ok (c, p) ->
  wait_loop hash256 (S f) net wanted (envbytes net c p ++ rest) sent =
  if existsb (beq c) wanted then Ok (c, p, rest, sent ++ reply net c p)
  else wait_loop hash256 f net wanted rest (sent ++ reply net c p).
Proof.
  intros Hf. cbn [wait_loop]. rewrite env_parse_envbytes by exact Hf. cbn [bind].
  destruct Hf as (_ & _ & Hp). cbn [snd] in Hp. unfold reply, node_send, ping_serialize.
  destruct (beq c cmd_version).
  { cbn [bind]. rewrite env_serialize_envbytes by (unfold zlen; cbn; lia). reflexivity. }
  destruct (beq c cmd_ping).
  { cbn [bind]. rewrite env_serialize_envbytes by exact Hp. reflexivity. }
  cbn [bind]. now rewrite app_nil_r.
Qed.

Lemma wait_loop_stream net wanted c p rest : forall pre fuel sent,
  (length pre < fuel)%nat -> Forall frame_ok pre ->
  Forall (fun cp => existsb (beq (fst cp)) wanted = false) pre ->
  frame_ok (c, p) -> existsb (beq c) wanted = true ->
  wait_loop hash256 fuel net wanted (frames net pre ++ envbytes net c p ++ rest) sent
  = Ok (c, p, rest, sent ++ replies net (pre ++ [(c, p)])).
Proof.
  induction pre as [|[c0 p0] pre IH]; intros fuel sent Hf Hok Hnw Hcp Hw.
  - destruct fuel as [|f]; [cbn in Hf; lia|]. cbn [frames map concat app].
    rewrite wait_step by exact Hcp. rewrite Hw. unfold replies. cbn [map concat fst snd].
    now rewrite app_nil_r.
  - destruct fuel as [|f]; [cbn in Hf; lia|].
    inversion Hok as [|? ? Hok0 Hok']; subst. inversion Hnw as [|? ? Hnw0 Hnw']; subst.
    cbn [fst snd] in Hnw0. unfold frames. cbn [map concat fst snd]. rewrite <- app_assoc.
    rewrite wait_step by exact Hok0. rewrite Hnw0.
    fold (frames net pre). rewrite IH; try assumption; [|cbn [length] in Hf; lia].
    unfold replies. cbn [app map concat fst snd]. now rewrite <- app_assoc.
Qed.

Lemma frames_length net pre :
  Forall frame_ok pre -> (length pre <= length (frames net pre))%nat.
Proof.
  induction pre as [|[c0 p0] pre IH]; intros H; [cbn; lia|]. inversion H as [|? ? H0 H']; subst.
  unfold frames. cbn [map concat fst snd length]. rewrite app_length.
  destruct H0 as (Hc & _). cbn [fst] in Hc. rewrite envbytes_length by exact Hc.
  fold (frames net pre). specialize (IH H'). lia.
Qed.

(* SimpleNode.wait_for on a stream of well-formed envelopes: everything before the first
   wanted command is skipped, each version answered with verack and each ping with pong of
   the same nonce, in order; the wanted envelope's payload is returned intact and the stream
   is left exactly behind it *)
Lemma node_wait_for_stream net wanted pre c p rest :
  Forall frame_ok pre -> Forall (fun cp => existsb (beq (fst cp)) wanted = false) pre ->
  frame_ok (c, p) -> existsb (beq c) wanted = true ->
  node_wait_for hash256 net wanted (frames net pre ++ envbytes net c p ++ rest)
  = Ok (c, p, rest, replies net (pre ++ [(c, p)])).
Proof.
  intros Hok Hnw Hcp Hw. unfold node_wait_for.
  rewrite (wait_loop_stream net wanted c p rest pre _ []); try assumption; [reflexivity|].
  rewrite app_length. pose proof (frames_length net pre Hok). lia.
Qed.

(* a stream that ends (or breaks) before a wanted command arrives: wait_for raises *)
Lemma node_wait_for_eof net wanted pre :
  Forall frame_ok pre -> Forall (fun cp => existsb (beq (fst cp)) wanted = false) pre ->
  node_wait_for hash256 net wanted (frames net pre) = Err.
Proof.
  intros Hok Hnw. unfold node_wait_for.
  assert (forall fuel sent, wait_loop hash256 fuel net wanted (frames net pre) sent = Err) as G.
  { induction pre as [|[c0 p0] pre IH]; intros fuel sent.
    - destruct fuel; reflexivity.
    - destruct fuel as [|f]; [reflexivity|].
      inversion Hok as [|? ? Hok0 Hok']; subst. inversion Hnw as [|? ? Hnw0 Hnw']; subst.
      cbn [fst snd] in Hnw0. unfold frames. cbn [map concat fst snd].
      rewrite wait_step by exact Hok0. rewrite Hnw0. fold (frames net pre). now apply IH. }
  apply G.
Qed.

(* ---------------- messages inside envelopes ---------------- *)

Definition msg_wf (m : message) : Prop :=
  match m with
  | MVerAck => True
  | MPing n | MPong n => length n = 8%nat
  | MHeaders hs => Forall header_wf hs /\ zlen hs < 18446744073709551616
  | MCFilter t bh fb items =>
      length bh = 32%nat /\ zlen fb < 9223372036854775808 /\ decode_gcs fb = Ok items
  | MCFHeaders t stop prev hs =>
      length stop = 32%nat /\ length prev = 32%nat /\
      Forall (fun h => length h = 32%nat) hs /\ zlen hs < 18446744073709551616
  | MCFCheckPt t stop hs =>
      length stop = 32%nat /\ Forall (fun h => length h = 32%nat) hs /\
      zlen hs < 18446744073709551616
  end.

Ltac cmdeq :=
  cbn [beq cmd_version cmd_verack cmd_ping cmd_pong cmd_headers cmd_cfilter cmd_cfheaders
       cmd_cfcheckpt Z.eqb Pos.eqb andb].

Lemma msg_parse_payload m p :
  msg_wf m -> msg_payload m = Ok p -> msg_parse (msg_command m) p = Ok m.
Proof.
  destruct m as [|n|n|hs|t bh fb items|t stop prev hs|t stop hs];
    cbn [msg_wf msg_payload msg_command]; unfold msg_parse; cmdeq; intros W H.
  - reflexivity.
  - apply Ok_inj in H. subst p.
    rewrite <- (app_nil_r (ping_serialize n)), (ping_roundtrip n [] W). reflexivity.
  - apply Ok_inj in H. subst p.
    rewrite <- (app_nil_r (ping_serialize n)), (ping_roundtrip n [] W). reflexivity.
  - destruct W as [W1 W2]. destruct (headers_roundtrip hs [] W1 W2) as [b [E1 E2]].
    rewrite H in E1. apply Ok_inj in E1. subst b. rewrite app_nil_r in E2. now rewrite E2.
  - destruct W as (W1 & W2 & W3).
    destruct (cfilter_roundtrip t bh fb items [] W1 W2 W3) as [b [E1 E2]].
    rewrite H in E1. apply Ok_inj in E1. subst b. rewrite app_nil_r in E2. now rewrite E2.
  - destruct W as (W1 & W2 & W3 & W4).
    destruct (cfheaders_roundtrip t stop prev hs [] W1 W2 W3 W4) as [b [E1 E2]].
    rewrite H in E1. apply Ok_inj in E1. subst b. rewrite app_nil_r in E2. now rewrite E2.
  - destruct W as (W1 & W2 & W3).
    destruct (cfcheckpt_roundtrip t stop hs [] W1 W2 W3) as [b [E1 E2]].
    rewrite H in E1. apply Ok_inj in E1. subst b. rewrite app_nil_r in E2. now rewrite E2.
Qed.

Lemma msg_command_ok m : (length (msg_command m) <= 12)%nat /\ no_nul_ends (msg_command m).
Proof. destruct m; cbn; (split; [lia|split; reflexivity]). Qed.

(* A peer puts message m into an envelope; node.wait_for(Class of m) returns m, leaves the
   stream behind the envelope, and has sent nothing but the pong if m is a ping. *)
Lemma node_msg_roundtrip net m p rest :
  msg_wf m -> msg_payload m = Ok p -> zlen p < 4294967296 ->
  exists e, node_send hash256 net (msg_command m) (msg_payload m) = Ok e /\
    e = envbytes net (msg_command m) p /\
    node_wait_for_msg hash256 net [msg_command m] (e ++ rest)
    = Ok (m, rest, reply net (msg_command m) p).
Proof.
  intros W Hp Hl. exists (envbytes net (msg_command m) p). split.
  { unfold node_send. rewrite Hp. cbn [bind]. now apply env_serialize_envbytes. }
  split; [reflexivity|]. unfold node_wait_for_msg.
  destruct (msg_command_ok m) as [L N].
  pose proof (node_wait_for_stream net [msg_command m] [] (msg_command m) p rest) as S.
  cbn [frames map concat app] in S. rewrite S; try constructor.
  - cbn [bind]. rewrite (msg_parse_payload m p W Hp). cbn [bind]. unfold replies.
    cbn [map concat fst snd app]. now rewrite app_nil_r.
  - exact L.
  - split; [exact N|exact Hl].
  - cbn [existsb]. now rewrite beq_refl.
Qed.

(* ---------------- ping / pong exchange between two nodes ---------------- *)

Lemma node_ping_pong net nonce :
  length nonce = 8%nat ->
  exists e1 e2,
    (* A: node.send(PingMessage(nonce)) *)
    node_send hash256 net cmd_ping (Ok (ping_serialize nonce)) = Ok e1 /\
    (* B: node.wait_for(PingMessage) receives it and has answered with e2 *)
    node_wait_for_msg hash256 net [cmd_ping] e1 = Ok (MPing nonce, [], [e2]) /\
    (* A: node.wait_for(PongMessage) on B's answer gets the nonce back, sends nothing *)
    node_wait_for_msg hash256 net [cmd_pong] e2 = Ok (MPong nonce, [], []).
Proof.
  intros L.
  assert (zlen nonce < 4294967296) as Z8 by (unfold zlen; rewrite L; lia).
  destruct (node_msg_roundtrip net (MPing nonce) nonce [] L eq_refl Z8) as (e1 & S1 & -> & R1).
  destruct (node_msg_roundtrip net (MPong nonce) nonce [] L eq_refl Z8) as (e2 & S2 & -> & R2).
  rewrite app_nil_r in R1, R2.
  exists (envbytes net cmd_ping nonce), (envbytes net cmd_pong nonce).
  split; [exact S1|]. split; [exact R1 | exact R2].
Qed.

(* ---------------- handshake ---------------- *)

(* our side of the version handshake against a peer that sends its version and then verack:
   we send our version, answer the peer's version with verack, and stop behind the verack *)
Lemma node_handshake_completes net now r peer_version rest :
  0 <= now < 18446744073709551616 -> 0 <= r < 18446744073709551616 ->
  zlen peer_version < 4294967296 ->
  exists m v, version_default now r = Ok m /\ version_serialize m = Ok v /\
    node_handshake hash256 net now r
      (envbytes net cmd_version peer_version ++ envbytes net cmd_verack [] ++ rest)
    = Ok (rest, [envbytes net cmd_version v; envbytes net cmd_verack []]).
Proof.
  intros Hn Hr Hp.
  destruct (proj2 (version_default_ok_iff now r) Hr) as [m Hm].
  pose proof (version_default_wf now r m Hn Hm) as W.
  pose proof (version_serialize_ok m (proj1 W)) as Sv.
  exists m, (p2p_version_bytes (version_to_spec swap16 m)). split; [exact Hm|]. split; [exact Sv|].
  unfold node_handshake, node_send. rewrite Hm. cbn [bind]. rewrite Sv. cbn [bind].
  assert (zlen (p2p_version_bytes (version_to_spec swap16 m)) < 4294967296) as Lv.
  { unfold zlen. rewrite p2p_version_bytes_length.
    destruct W as (_ & L1 & L2 & L3). unfold version_to_spec.
    cbn [pv_addr_recv pv_addr_from pv_nonce pv_user_agent na_ip].
    rewrite !app_length, ip_prefix_length, L1, L2, L3.
    assert (vm_user_agent m = default_user_agent) as ->.
    { unfold version_default in Hm. destruct (int_to_le r 8); [|discriminate].
      cbn [bind] in Hm. apply Ok_inj in Hm. now subst m. }
    pose proof (cs_bytes_length_le (zlen default_user_agent)).
    unfold default_user_agent at 2. cbn [length]. lia. }
  rewrite env_serialize_envbytes by exact Lv. cbn [bind].
  pose proof (node_wait_for_stream net [cmd_verack] [(cmd_version, peer_version)]
                cmd_verack [] rest) as S.
  unfold frames in S. cbn [map concat fst snd] in S. rewrite app_nil_r in S.
  rewrite S.
  - cbn [bind]. unfold replies. cbn [map concat fst snd app]. unfold reply. cmdeq. reflexivity.
  - constructor; [|constructor]. split; [cbn; lia|]. split; [split; reflexivity|exact Hp].
  - constructor; [reflexivity|constructor].
  - split; [cbn; lia|]. split; [split; reflexivity|unfold zlen; cbn; lia].
  - reflexivity.
Qed.

End WithHash.
