(* Proofs/SighashSigP.v — C05, the digest at the point of use: every verdict of op_checksig /
   op_checkmultisig / op_checksig_schnorr / op_checksigadd_schnorr on a Tx object is the signature
   primitive applied to Tx.sig_hash(input, hash type of THAT signature), computed as on a fresh
   object (the memo fields do not matter); which hash type that is, compared with the standards;
   the signing methods sign exactly the digest the verifying op codes recompute. *)
From V Require Import Base.Prelude Base.Ints Model.Helper Model.Script Model.Op Model.Interp
  Model.Pecc Model.Taproot Model.Verify Model.Tx Model.Sighash Model.SighashSig
  Spec.SigHashType Proofs.SighashP Proofs.SighashHistP.

(* ------------------------------------------------------------------ small list facts *)
Lemma removelast_app_one {A} (l : list A) x : removelast (l ++ [x]) = l.
Proof. apply removelast_last. Qed.
Lemma last_app_one {A} (l : list A) x d : last (l ++ [x]) d = x.
Proof. apply last_last. Qed.
Lemma app_one_not_nil {A} (l : list A) x : l ++ [x] <> [].
Proof. destruct l; discriminate. Qed.

Lemma find_key_ext (v1 v2 : bytes -> bytes -> bool) :
  (forall k sg, v1 k sg = v2 k sg) -> forall sg keys, find_key v1 sg keys = find_key v2 sg keys.
Proof.
  intros H sg keys. induction keys as [|k r IH]; cbn [find_key]; [reflexivity|].
  rewrite H, IH. reflexivity.
Qed.
Lemma match_sigs_ext (v1 v2 : bytes -> bytes -> bool) :
  (forall k sg, v1 k sg = v2 k sg) -> forall sigs keys, match_sigs v1 sigs keys = match_sigs v2 sigs keys.
Proof.
  intros H sigs. induction sigs as [|sg r IH]; intros keys; cbn [match_sigs]; [reflexivity|].
  rewrite (find_key_ext v1 v2 H). destruct (find_key v2 sg keys); [apply IH|reflexivity].
Qed.
Lemma multisig_loop_ext ok (v1 v2 : bytes -> bytes -> bool) :
  (forall k sg, v1 k sg = v2 k sg) ->
  forall secs sigs, so_multisig_loop ok v1 secs sigs = so_multisig_loop ok v2 secs sigs.
Proof. intros H secs sigs. unfold so_multisig_loop. now rewrite (match_sigs_ext v1 v2 H). Qed.

Lemma pop_n_app (l r : list bytes) : pop_n (length l) (l ++ r) = Ok (l, r).
Proof. induction l as [|x l IH]; cbn [pop_n length app bind]; [reflexivity|]. now rewrite IH. Qed.

(* ------------------------------------------------------------------ the sites *)
Section S.
Variables hash256 sha256 hash_tapsighash hash_tapleaf : bytes -> bytes.
Variable xonly_ok : bytes -> bool.
Variable pr : sigprims.

Notation SIG_HASH := (sig_hash hash256 sha256 hash_tapsighash hash_tapleaf xonly_ok).
Notation DIGEST := (tx_digest hash256 sha256 hash_tapsighash hash_tapleaf xonly_ok).
Notation SIGOPS := (tx_sigops hash256 sha256 hash_tapsighash hash_tapleaf xonly_ok pr).
Notation CHECKSIG := (tx_checksig hash256 sha256 hash_tapsighash hash_tapleaf xonly_ok pr).
Notation SCHNORR := (tx_schnorr hash256 sha256 hash_tapsighash hash_tapleaf xonly_ok pr).

(* what Tx.sig_hash(idx, ht) returns on a FRESH object with these fields *)
Definition fresh_digest (t : tx) (sp : list spent) (idx : nat) (ht : Z) : result digest :=
  DIGEST t sp idx memo_empty ht.

Lemma tx_digest_indep t sp idx ht m1 m2 : DIGEST t sp idx m1 ht = DIGEST t sp idx m2 ht.
Proof.
  unfold tx_digest.
  pose proof (sig_hash_indep hash256 sha256 hash_tapsighash hash_tapleaf xonly_ok t sp idx ht m1 m2) as H.
  unfold rsnd in H.
  destruct (SIG_HASH t sp idx ht m1) as [[? ?]|], (SIG_HASH t sp idx ht m2) as [[? ?]|];
    cbn [bind] in *; inversion H; reflexivity.
Qed.

Lemma tx_digest_fresh t sp idx ht m : DIGEST t sp idx m ht = fresh_digest t sp idx ht.
Proof. apply tx_digest_indep. Qed.

(* when Tx.sig_hash is known (e.g. from the theorems of Proofs/SighashKindsP.v) *)
Lemma tx_digest_of_sig_hash t sp idx ht m m' (R : result sh_out) :
  rsnd (SIG_HASH t sp idx ht m') = R ->
  DIGEST t sp idx m ht = (o <- R ;; Ok (so_digest o)).
Proof.
  intros H. rewrite (tx_digest_indep t sp idx ht m m'). unfold tx_digest. rewrite <- H. unfold rsnd.
  destruct (SIG_HASH t sp idx ht m') as [[? ?]|]; reflexivity.
Qed.

Lemma tx_checksig_fresh t sp idx m sec sg :
  CHECKSIG t sp idx m sec sg =
  (d <- fresh_digest t sp idx (last sg 0) ;; pr_ecdsa pr sec (removelast sg) d).
Proof. unfold tx_checksig. now rewrite tx_digest_fresh. Qed.

Lemma tx_schnorr_fresh t sp idx m pk sg ht :
  SCHNORR t sp idx m pk sg ht = (d <- fresh_digest t sp idx ht ;; pr_schnorr pr pk sg d).
Proof. unfold tx_schnorr. now rewrite tx_digest_fresh. Qed.

Lemma tx_checksig_indep t sp idx m1 m2 sec sg :
  CHECKSIG t sp idx m1 sec sg = CHECKSIG t sp idx m2 sec sg.
Proof. now rewrite !tx_checksig_fresh. Qed.

Lemma tx_multisig_indep t sp idx m1 m2 secs sigs :
  so_multisig (SIGOPS t sp idx m1) secs sigs = so_multisig (SIGOPS t sp idx m2) secs sigs.
Proof.
  cbn [so_multisig tx_sigops]. apply multisig_loop_ext. intros k sg.
  now rewrite (tx_checksig_indep t sp idx m1 m2).
Qed.

(* ---------------- the memo fields never influence an op code ---------------- *)
Lemma op_checksig_indep t sp idx m1 m2 s :
  op_checksig (SIGOPS t sp idx m1) s = op_checksig (SIGOPS t sp idx m2) s.
Proof.
  unfold op_checksig. destruct s as [|sec [|sg r]]; try reflexivity.
  destruct sg; [reflexivity|]. cbn [so_checksig tx_sigops].
  now rewrite (tx_checksig_indep t sp idx m1 m2).
Qed.

Lemma op_checkmultisig_indep t sp idx m1 m2 s :
  op_checkmultisig (SIGOPS t sp idx m1) s = op_checkmultisig (SIGOPS t sp idx m2) s.
Proof.
  unfold op_checkmultisig. destruct s as [|e s1]; [reflexivity|].
  destruct (zlen s1 <? decode_num e + 1); [reflexivity|].
  destruct (pop_n (Z.to_nat (decode_num e)) s1) as [[secs s2]|]; cbn [bind]; [|reflexivity].
  destruct s2 as [|em s3]; [reflexivity|].
  destruct (zlen s3 <? decode_num em + 1); [reflexivity|].
  destruct (pop_n (Z.to_nat (decode_num em)) s3) as [[sigs s4]|]; cbn [bind]; [|reflexivity].
  destruct (existsb _ sigs); [reflexivity|]. destruct s4 as [|x s5]; [reflexivity|].
  now rewrite (tx_multisig_indep t sp idx m1 m2).
Qed.

Lemma op_checksig_schnorr_indep t sp idx m1 m2 s :
  op_checksig_schnorr (SIGOPS t sp idx m1) s = op_checksig_schnorr (SIGOPS t sp idx m2) s.
Proof.
  unfold op_checksig_schnorr. destruct s as [|pk [|sg r]]; try reflexivity.
  cbn [so_xonly_ok so_schnorr tx_sigops]. destruct (negb (xonly_ok pk)); [reflexivity|].
  destruct sg as [|x0 sg]; [reflexivity|]. destruct (negb (schnorr_form_ok (x0 :: sg))); [reflexivity|].
  destruct (schnorr_split _) as [sg' ht].
  now rewrite !tx_schnorr_fresh.
Qed.

Lemma op_checksigadd_schnorr_indep t sp idx m1 m2 s :
  op_checksigadd_schnorr (SIGOPS t sp idx m1) s = op_checksigadd_schnorr (SIGOPS t sp idx m2) s.
Proof.
  unfold op_checksigadd_schnorr. destruct s as [|pk [|en [|sg r]]]; try reflexivity.
  cbn [so_xonly_ok so_schnorr tx_sigops]. destruct (negb (xonly_ok pk)); [reflexivity|].
  destruct sg as [|x0 sg]; [reflexivity|]. destruct (negb (schnorr_form_ok (x0 :: sg))); [reflexivity|].
  destruct (schnorr_split _) as [sg' ht].
  now rewrite !tx_schnorr_fresh.
Qed.

(* ---------------- OP_CHECKSIG: the digest of the signature's own hash type ---------------- *)

(* the signature on the stack is DER || hash type byte (Spec/SigHashType.v); the verdict is the
   ECDSA primitive on the digest a fresh Tx.sig_hash returns for THAT byte *)
Lemma op_checksig_own_digest t sp idx m sec sg r :
  op_checksig (SIGOPS t sp idx m) (sec :: sg :: r) =
  match ecdsa_sig_hash_type sg with
  | None => Err
  | Some (der, ht) =>
      d <- fresh_digest t sp idx ht ;; b <- pr_ecdsa pr sec der d ;; Ok (enc_bool b :: r)
  end.
Proof.
  unfold op_checksig, ecdsa_sig_hash_type. destruct sg as [|x sg]; [reflexivity|].
  cbn [so_checksig tx_sigops]. rewrite tx_checksig_fresh.
  destruct (fresh_digest t sp idx (last (x :: sg) 0)); reflexivity.
Qed.

Lemma op_checksig_short t sp idx m s : (length s < 2)%nat -> op_checksig (SIGOPS t sp idx m) s = Err.
Proof. destruct s as [|a [|b r]]; cbn [length]; intros H; try reflexivity; lia. Qed.

(* ---------------- OP_CHECKMULTISIG: each signature against the digest of ITS hash type --------- *)

(* "key k verifies signature sg" as the op code evaluates it *)
Definition multisig_ver (t : tx) (sp : list spent) (idx : nat) (k sg : bytes) : bool :=
  match ecdsa_sig_hash_type sg with
  | None => false
  | Some (der, ht) =>
      is_ok_true (d <- fresh_digest t sp idx ht ;; pr_ecdsa pr k der d)
  end.

Lemma multisig_ver_eq t sp idx m k sg :
  sg <> [] -> is_ok_true (CHECKSIG t sp idx m k sg) = multisig_ver t sp idx k sg.
Proof.
  intros H. unfold multisig_ver, ecdsa_sig_hash_type. destruct sg; [congruence|].
  now rewrite tx_checksig_fresh.
Qed.

Lemma find_key_ver t sp idx m sg keys :
  sg <> [] ->
  find_key (fun k s => is_ok_true (CHECKSIG t sp idx m k s)) sg keys =
  find_key (multisig_ver t sp idx) sg keys.
Proof.
  intros H. induction keys as [|k r IH]; cbn [find_key]; [reflexivity|].
  rewrite (multisig_ver_eq t sp idx m k sg H), IH. reflexivity.
Qed.

Lemma match_sigs_ver t sp idx m sigs : forall keys,
  existsb (fun sg : bytes => match sg with [] => true | _ => false end) sigs = false ->
  match_sigs (fun k s => is_ok_true (CHECKSIG t sp idx m k s)) sigs keys =
  match_sigs (multisig_ver t sp idx) sigs keys.
Proof.
  induction sigs as [|sg r IH]; intros keys H; cbn [match_sigs]; [reflexivity|].
  cbn [existsb] in H. apply orb_false_iff in H as [H1 H2].
  assert (Hsg : sg <> []) by (destruct sg; [discriminate|discriminate]).
  rewrite (find_key_ver t sp idx m sg keys Hsg).
  destruct (find_key (multisig_ver t sp idx) sg keys); [apply IH; exact H2|reflexivity].
Qed.

(* the stack [dummy, sig_1 .. sig_m, m, key_1 .. key_n, n] (top first: n, keys, m, sigs, dummy):
   accepted exactly when every key parses and the signatures match keys in order, each signature
   judged by the digest of its own hash type byte *)
Lemma op_checkmultisig_own_digests t sp idx m secs sigs en em dummy r :
  decode_num en = zlen secs -> decode_num em = zlen sigs ->
  op_checkmultisig (SIGOPS t sp idx m) (en :: secs ++ em :: sigs ++ dummy :: r) =
  if existsb (fun sg : bytes => match sg with [] => true | _ => false end) sigs then Err
  else if forallb (pr_sec_ok pr) secs && match_sigs (multisig_ver t sp idx) sigs secs
       then Ok (encode_num 1 :: r) else Err.
Proof.
  intros Hn Hm. unfold op_checkmultisig. rewrite Hn.
  assert (L1 : zlen (secs ++ em :: sigs ++ dummy :: r) <? zlen secs + 1 = false).
  { apply Z.ltb_ge. unfold zlen. rewrite !app_length. cbn [length]. rewrite app_length. cbn [length]. lia. }
  rewrite L1. unfold zlen at 1. rewrite Nat2Z.id, pop_n_app. cbn [bind]. rewrite Hm.
  assert (L2 : zlen (sigs ++ dummy :: r) <? zlen sigs + 1 = false).
  { apply Z.ltb_ge. unfold zlen. rewrite !app_length. cbn [length]. lia. }
  rewrite L2. unfold zlen at 1. rewrite Nat2Z.id, pop_n_app. cbn [bind].
  destruct (existsb _ sigs) eqn:E; [reflexivity|].
  cbn [so_multisig tx_sigops]. unfold so_multisig_loop.
  destruct (forallb (pr_sec_ok pr) secs); cbn [andb bind]; [|reflexivity].
  rewrite (match_sigs_ver t sp idx m sigs secs E).
  destruct (match_sigs (multisig_ver t sp idx) sigs secs); reflexivity.
Qed.

(* ---------------- tapscript OP_CHECKSIG / OP_CHECKSIGADD ---------------- *)

(* for every signature BIP341 declares well-formed (64 bytes, or 65 bytes with a non-zero last
   byte) the library splits it as the BIP does *)
Lemma schnorr_split_bip341 sg s64 ht :
  taproot_sig_hash_type sg = Some (s64, ht) ->
  schnorr_split sg = (s64, ht) /\ sg <> [] /\ schnorr_form_ok sg = true.
Proof.
  unfold taproot_sig_hash_type, schnorr_split, schnorr_form_ok.
  destruct (length sg =? 64)%nat eqn:E64.
  - intros [= <- <-]. apply Nat.eqb_eq in E64.
    destruct (length sg =? 65)%nat eqn:E65; [apply Nat.eqb_eq in E65; lia|].
    split; [reflexivity|]. split; [destruct sg; discriminate|reflexivity].
  - destruct (length sg =? 65)%nat eqn:E65; [|discriminate].
    change (taproot_explicit_hash_type (last sg 0)) with (schnorr_ht_defined (last sg 0)).
    destruct (schnorr_ht_defined (last sg 0)); [|discriminate]. intros [= <- <-].
    split; [reflexivity|]. split; [|reflexivity]. apply Nat.eqb_eq in E65. destruct sg; discriminate.
Qed.

(* the form test of the op codes IS BIP341's rule *)
Lemma schnorr_form_ok_bip341 sg :
  schnorr_form_ok sg = match taproot_sig_hash_type sg with Some _ => true | None => false end.
Proof.
  unfold taproot_sig_hash_type, schnorr_form_ok.
  destruct (length sg =? 64)%nat; [reflexivity|]. cbn [orb].
  destruct (length sg =? 65)%nat; [|reflexivity]. cbn [andb].
  change (taproot_explicit_hash_type (last sg 0)) with (schnorr_ht_defined (last sg 0)).
  destruct (schnorr_ht_defined (last sg 0)); reflexivity.
Qed.

(* a non-empty signature that BIP341 declares ill-formed makes both op codes fail, whatever the
   verdict record: 65 bytes ending in 00 or in an undefined hash type, any length other than 64 / 65 *)
Lemma op_schnorr_bad_form so pk sg r :
  sg <> [] -> taproot_sig_hash_type sg = None ->
  op_checksig_schnorr so (pk :: sg :: r) = Err /\
  forall en, op_checksigadd_schnorr so (pk :: en :: sg :: r) = Err.
Proof.
  intros Hne Hty. assert (Hf : schnorr_form_ok sg = false) by (rewrite schnorr_form_ok_bip341, Hty; reflexivity).
  unfold op_checksig_schnorr, op_checksigadd_schnorr.
  destruct (negb (so_xonly_ok so pk)); [split; reflexivity|].
  destruct sg as [|x sg]; [congruence|]. rewrite Hf. split; reflexivity.
Qed.

Lemma op_checksig_schnorr_own_digest t sp idx m pk sg s64 ht r :
  xonly_ok pk = true -> taproot_sig_hash_type sg = Some (s64, ht) ->
  op_checksig_schnorr (SIGOPS t sp idx m) (pk :: sg :: r) =
  (d <- fresh_digest t sp idx ht ;; b <- pr_schnorr pr pk s64 d ;; Ok (enc_bool b :: r)).
Proof.
  intros Hpk Hsg. destruct (schnorr_split_bip341 sg s64 ht Hsg) as (Hsplit & Hne & Hf).
  unfold op_checksig_schnorr. cbn [so_xonly_ok so_schnorr tx_sigops]. rewrite Hpk. cbn [negb].
  destruct sg as [|x sg]; [congruence|]. rewrite Hf. cbn [negb]. rewrite Hsplit, tx_schnorr_fresh.
  destruct (fresh_digest t sp idx ht); reflexivity.
Qed.

Lemma op_checksigadd_schnorr_own_digest t sp idx m pk en sg s64 ht r :
  xonly_ok pk = true -> taproot_sig_hash_type sg = Some (s64, ht) ->
  op_checksigadd_schnorr (SIGOPS t sp idx m) (pk :: en :: sg :: r) =
  (d <- fresh_digest t sp idx ht ;; b <- pr_schnorr pr pk s64 d ;;
   Ok (encode_num (if b then decode_num en + 1 else decode_num en) :: r)).
Proof.
  intros Hpk Hsg. destruct (schnorr_split_bip341 sg s64 ht Hsg) as (Hsplit & Hne & Hf).
  unfold op_checksigadd_schnorr. cbn [so_xonly_ok so_schnorr tx_sigops]. rewrite Hpk. cbn [negb].
  destruct sg as [|x sg]; [congruence|]. rewrite Hf. cbn [negb]. rewrite Hsplit, tx_schnorr_fresh.
  destruct (fresh_digest t sp idx ht); reflexivity.
Qed.

(* BIP342: the empty signature is "not signed", no digest is computed; an unusable key fails *)
Lemma op_checksig_schnorr_empty t sp idx m pk r :
  xonly_ok pk = true ->
  op_checksig_schnorr (SIGOPS t sp idx m) (pk :: [] :: r) = Ok (encode_num 0 :: r) /\
  forall en, op_checksigadd_schnorr (SIGOPS t sp idx m) (pk :: en :: [] :: r) =
             Ok (encode_num (decode_num en) :: r).
Proof.
  intros Hpk. unfold op_checksig_schnorr, op_checksigadd_schnorr.
  cbn [so_xonly_ok tx_sigops]. rewrite Hpk. split; reflexivity.
Qed.

Lemma op_checksig_schnorr_bad_key t sp idx m pk sg r :
  xonly_ok pk = false ->
  op_checksig_schnorr (SIGOPS t sp idx m) (pk :: sg :: r) = Err /\
  forall en, op_checksigadd_schnorr (SIGOPS t sp idx m) (pk :: en :: sg :: r) = Err.
Proof.
  intros Hpk. unfold op_checksig_schnorr, op_checksigadd_schnorr.
  cbn [so_xonly_ok tx_sigops]. rewrite Hpk. split; reflexivity.
Qed.

End S.

(* ---------------- BIP341's signature rule at the op codes (after fix 746b81a) ---------------- *)

(* a 65-byte signature whose hash-type byte is 0x00: invalid by BIP341, rejected *)
Lemma schnorr_explicit_default_rejected so pk s64 r :
  length s64 = 64%nat ->
  taproot_sig_hash_type (s64 ++ [0]) = None /\
  taproot_sig_hash_type s64 = Some (s64, 0) /\
  op_checksig_schnorr so (pk :: (s64 ++ [0]) :: r) = Err /\
  forall en, op_checksigadd_schnorr so (pk :: en :: (s64 ++ [0]) :: r) = Err.
Proof.
  intros H.
  assert (H65 : length (s64 ++ [0]) = 65%nat) by (rewrite app_length, H; reflexivity).
  assert (T1 : taproot_sig_hash_type (s64 ++ [0]) = None).
  { unfold taproot_sig_hash_type. rewrite H65. cbn [Nat.eqb]. now rewrite last_app_one. }
  split; [exact T1|]. split; [unfold taproot_sig_hash_type; rewrite H; reflexivity|].
  exact (op_schnorr_bad_form so pk (s64 ++ [0]) r (app_one_not_nil _ _) T1).
Qed.

(* a signature of any other length (here: longer than 65 bytes): rejected *)
Lemma schnorr_overlong_rejected so pk s64 extra r :
  length s64 = 64%nat -> (2 <= length extra)%nat ->
  taproot_sig_hash_type (s64 ++ extra) = None /\
  op_checksig_schnorr so (pk :: (s64 ++ extra) :: r) = Err /\
  forall en, op_checksigadd_schnorr so (pk :: en :: (s64 ++ extra) :: r) = Err.
Proof.
  intros H He.
  assert (Hl : length (s64 ++ extra) = (64 + length extra)%nat) by (rewrite app_length, H; reflexivity).
  assert (N64 : (length (s64 ++ extra) =? 64)%nat = false) by (apply Nat.eqb_neq; lia).
  assert (N65 : (length (s64 ++ extra) =? 65)%nat = false) by (apply Nat.eqb_neq; lia).
  assert (T1 : taproot_sig_hash_type (s64 ++ extra) = None).
  { unfold taproot_sig_hash_type. now rewrite N64, N65. }
  split; [exact T1|].
  apply op_schnorr_bad_form; [|exact T1]. destruct s64; [discriminate|discriminate].
Qed.

(* a 65-byte signature with a hash type BIP341 does not define (04, 80, ff, ...): rejected, so
   Tx.sig_hash_bip341 is never asked for such a hash type by the op codes *)
Lemma schnorr_undefined_hash_type_rejected so pk s64 ht r :
  length s64 = 64%nat -> taproot_explicit_hash_type ht = false ->
  taproot_sig_hash_type (s64 ++ [ht]) = None /\
  op_checksig_schnorr so (pk :: (s64 ++ [ht]) :: r) = Err /\
  forall en, op_checksigadd_schnorr so (pk :: en :: (s64 ++ [ht]) :: r) = Err.
Proof.
  intros H Hht.
  assert (H65 : length (s64 ++ [ht]) = 65%nat) by (rewrite app_length, H; reflexivity).
  assert (T1 : taproot_sig_hash_type (s64 ++ [ht]) = None).
  { unfold taproot_sig_hash_type. rewrite H65. cbn [Nat.eqb]. now rewrite last_app_one, Hht. }
  split; [exact T1|].
  exact (op_schnorr_bad_form so pk (s64 ++ [ht]) r (app_one_not_nil _ _) T1).
Qed.
