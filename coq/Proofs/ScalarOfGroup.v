(* Proofs/ScalarOfGroup.v — from the primitive facts [group_laws C] (closure, commutativity,
   associativity, inverses, order) to the scalar algebra [scalar_laws C]:
   - [rmul_is_iterated_add]: the LSB-first double-and-add of Point.__rmul__ (including the
     harmless extra doubling after the last bit) is the k-fold sum, for all k >= 0;
   - periodicity mod n, (a+b)P = aP + bP, a(bP) = (ab)P, k(P+Q) = kP + kQ, (-1)P = -P;
   - no point with y = 0 (n is odd), and the two points above one x coordinate.
   Every field of [scalar_laws] is derived: no hypothesis beyond [group_laws C] remains. *)
From Coq Require Import Znumtheory.
From V Require Import Base.Prelude Base.Ints Model.Pecc Proofs.GroupHyp.

Section SoG.
Variable C : curve.
Hypothesis GL : group_laws C.
Let n := cn C.
Let p := cp C.

Local Notation "P +' Q" := (addT C P Q) (at level 50, left associativity).

Lemma add_valid P Q : valid C P -> valid C Q -> valid C (P +' Q).
Proof. intros HP HQ. exact (proj2 (gl_add_ok C GL P Q HP HQ)). Qed.

Lemma padd_ok P Q : valid C P -> valid C Q -> padd C P Q = Ok (P +' Q).
Proof. intros HP HQ. exact (proj1 (gl_add_ok C GL P Q HP HQ)). Qed.

Lemma add_0_l P : None +' P = P.
Proof. reflexivity. Qed.

Lemma add_0_r P : P +' None = P.
Proof. destruct P as [[x y]|]; reflexivity. Qed.

Lemma add_assoc P Q R : valid C P -> valid C Q -> valid C R -> (P +' Q) +' R = P +' (Q +' R).
Proof. apply (gl_add_assoc C GL). Qed.

Lemma add_comm P Q : valid C P -> valid C Q -> P +' Q = Q +' P.
Proof. apply (gl_add_comm C GL). Qed.

Lemma neg_valid P : valid C P -> valid C (negT C P).
Proof. intros HP. exact (proj1 (gl_add_neg C GL P HP)). Qed.

Lemma add_neg P : valid C P -> P +' negT C P = None.
Proof. intros HP. exact (proj2 (gl_add_neg C GL P HP)). Qed.

(* inverses are unique *)
Lemma inv_unique_pt P X : valid C P -> valid C X -> P +' X = None -> X = negT C P.
Proof.
  intros HP HX E. pose proof (neg_valid P HP) as HN.
  rewrite <- (add_0_r X). rewrite <- (add_neg P HP).
  rewrite <- add_assoc by assumption. rewrite (add_comm X P) by assumption.
  rewrite E. reflexivity.
Qed.

Lemma add_swap4 P Q A B : valid C P -> valid C Q -> valid C A -> valid C B ->
  (P +' Q) +' (A +' B) = (P +' A) +' (Q +' B).
Proof.
  intros HP HQ HA HB.
  rewrite (add_assoc P Q (A +' B)) by auto using add_valid.
  rewrite <- (add_assoc Q A B) by assumption.
  rewrite (add_comm Q A) by assumption.
  rewrite (add_assoc A Q B) by assumption.
  rewrite <- (add_assoc P A (Q +' B)) by auto using add_valid.
  reflexivity.
Qed.

(* ---------- the k-fold sum ---------- *)
Fixpoint smul (k : nat) (P : point) : point :=
  match k with O => None | S k' => P +' smul k' P end.

Lemma smul_valid k P : valid C P -> valid C (smul k P).
Proof. intros HP. induction k; cbn; [exact I|]. now apply add_valid. Qed.

Lemma smul_1 P : smul 1 P = P.
Proof. cbn. apply add_0_r. Qed.

Lemma smul_inf k : smul k None = None.
Proof. induction k; cbn; [reflexivity|]. now rewrite IHk. Qed.

Lemma smul_add a b P : valid C P -> smul (a + b) P = smul a P +' smul b P.
Proof.
  intros HP. induction a; cbn [smul Nat.add]; [reflexivity|].
  rewrite IHa. symmetry. apply add_assoc; auto using smul_valid.
Qed.

Lemma smul_double k P : valid C P -> smul (2 * k) P = smul k (P +' P).
Proof.
  intros HP. induction k; [reflexivity|].
  replace (2 * S k)%nat with (S (S (2 * k))) by lia. cbn [smul]. rewrite IHk.
  symmetry. apply add_assoc; auto using smul_valid, add_valid.
Qed.

Lemma smul_mul a b P : valid C P -> smul (a * b) P = smul a (smul b P).
Proof.
  intros HP. induction a; cbn [smul Nat.mul]; [reflexivity|].
  rewrite smul_add by assumption. now rewrite IHa.
Qed.

Lemma smul_addT k P Q : valid C P -> valid C Q -> smul k (P +' Q) = smul k P +' smul k Q.
Proof.
  intros HP HQ. induction k; cbn [smul]; [reflexivity|].
  rewrite IHk. apply add_swap4; auto using smul_valid.
Qed.

(* ---------- double-and-add ---------- *)
Lemma rmul_pos_spec q : forall cur res, valid C cur -> valid C res ->
  rmul_pos C q cur res = Ok (res +' smul (Pos.to_nat q) cur).
Proof.
  induction q as [q IH|q IH|]; intros cur res Hc Hr; cbn [rmul_pos].
  - rewrite (padd_ok res cur) by assumption. cbn [bind].
    rewrite (padd_ok cur cur) by assumption. cbn [bind].
    rewrite IH by auto using add_valid.
    rewrite Pos2Nat.inj_xI. cbn [smul]. rewrite smul_double by assumption.
    f_equal. apply add_assoc; auto using smul_valid, add_valid.
  - rewrite (padd_ok cur cur) by assumption. cbn [bind].
    rewrite IH by auto using add_valid.
    rewrite Pos2Nat.inj_xO. now rewrite smul_double.
  - rewrite (padd_ok res cur) by assumption. cbn [bind].
    rewrite (padd_ok cur cur) by assumption. cbn [bind].
    replace (Pos.to_nat 1) with 1%nat by reflexivity. now rewrite smul_1.
Qed.

(* Point.__rmul__ = k-fold sum, for every coefficient k >= 0 *)
Theorem rmul_is_iterated_add k P : 0 <= k -> valid C P ->
  rmul_raw C k P = Ok (smul (Z.to_nat k) P).
Proof.
  intros Hk HP. destruct k as [|q|q]; [reflexivity| |lia].
  cbn [rmul_raw]. rewrite rmul_pos_spec by (assumption || exact I).
  rewrite add_0_l. reflexivity.
Qed.

Lemma n_pos : 0 < n.
Proof. pose proof (gl_n_odd C GL). fold n in H. lia. Qed.

Lemma smul_n P : valid C P -> smul (Z.to_nat n) P = None.
Proof.
  intros HP. pose proof (gl_order C GL P HP) as H. fold n in H.
  rewrite rmul_is_iterated_add in H by (assumption || (pose proof n_pos; lia)).
  now injection H.
Qed.

(* periodicity: the k-fold sum only depends on k mod n *)
Lemma smul_mod k P : 0 <= k -> valid C P -> smul (Z.to_nat k) P = smul (Z.to_nat (k mod n)) P.
Proof.
  intros Hk HP. pose proof n_pos as Hn.
  pose proof (Z.mod_pos_bound k n Hn) as Hb.
  assert (Hq : 0 <= k / n) by (apply Z.div_pos; lia).
  rewrite (Z.div_mod k n) at 1 by lia.
  rewrite Z2Nat.inj_add by nia. rewrite smul_add by assumption.
  rewrite (Z.mul_comm n). rewrite Z2Nat.inj_mul by lia.
  rewrite smul_mul by assumption. rewrite smul_n by assumption. rewrite smul_inf.
  apply add_0_l.
Qed.

Lemma rmul_spec k P : valid C P -> rmul C k P = Ok (smul (Z.to_nat (k mod n)) P).
Proof.
  intros HP. unfold rmul. fold n. apply rmul_is_iterated_add; [|assumption].
  pose proof (Z.mod_pos_bound k n n_pos). lia.
Qed.

Lemma mulT_spec k P : valid C P -> mulT C k P = smul (Z.to_nat (k mod n)) P.
Proof. intros HP. unfold mulT. now rewrite rmul_spec. Qed.

Lemma mulT_valid k P : valid C P -> valid C (mulT C k P).
Proof. intros HP. rewrite mulT_spec by assumption. now apply smul_valid. Qed.

Lemma mulT_add a b P : valid C P -> mulT C (a + b) P = mulT C a P +' mulT C b P.
Proof.
  intros HP. pose proof n_pos as Hn. rewrite !mulT_spec by assumption.
  pose proof (Z.mod_pos_bound a n Hn). pose proof (Z.mod_pos_bound b n Hn).
  rewrite <- smul_add by assumption. rewrite <- Z2Nat.inj_add by lia.
  rewrite (smul_mod (a mod n + b mod n)) by (assumption || lia).
  now rewrite <- Zplus_mod.
Qed.

Lemma mulT_mul a b P : valid C P -> mulT C a (mulT C b P) = mulT C (a * b) P.
Proof.
  intros HP. pose proof n_pos as Hn. rewrite (mulT_spec b) by assumption.
  rewrite !mulT_spec by auto using smul_valid.
  pose proof (Z.mod_pos_bound a n Hn). pose proof (Z.mod_pos_bound b n Hn).
  rewrite <- smul_mul by assumption. rewrite <- Z2Nat.inj_mul by lia.
  rewrite (smul_mod (a mod n * (b mod n))) by (assumption || nia).
  now rewrite <- Zmult_mod.
Qed.

Lemma mulT_addT k P Q : valid C P -> valid C Q -> mulT C k (P +' Q) = mulT C k P +' mulT C k Q.
Proof.
  intros HP HQ. rewrite !mulT_spec by auto using add_valid. now apply smul_addT.
Qed.

Lemma mulT_neg1 P : valid C P -> mulT C (-1) P = negT C P.
Proof.
  intros HP. pose proof n_pos as Hn. pose proof (gl_n_odd C GL) as Hn2. fold n in Hn2.
  rewrite mulT_spec by assumption.
  replace ((-1) mod n) with (n - 1) by (apply Z.mod_unique with (q := -1); lia).
  apply inv_unique_pt; auto using smul_valid.
  change (P +' smul (Z.to_nat (n - 1)) P) with (smul (S (Z.to_nat (n - 1))) P).
  replace (S (Z.to_nat (n - 1))) with (Z.to_nat n) by lia.
  now apply smul_n.
Qed.

(* n is odd, so there is no point of order 2: y = 0 never occurs *)
Lemma no_y0 x y : valid C (Some (x, y)) -> y <> 0.
Proof.
  intros HP ->. pose proof n_pos as Hn.
  assert (E2 : Some (x, 0) +' Some (x, 0) = None).
  { unfold addT, padd. rewrite !Z.eqb_refl. reflexivity. }
  assert (Hodd : n mod 2 = 1).
  { pose proof (gl_n_odd C GL) as Hn2. fold n in Hn2.
    pose proof (Z.mod_pos_bound n 2 ltac:(lia)) as Hb.
    destruct (Z.eq_dec (n mod 2) 0) as [E0|NE0]; [exfalso|lia].
    apply Z.mod_divide in E0; [|lia].
    destruct (prime_divisors n (gl_n_prime C GL) 2 E0) as [?|[?|[?|?]]]; lia. }
  pose proof (smul_n _ HP) as E.
  assert (Hn' : Z.to_nat n = S (2 * Z.to_nat (n / 2))).
  { rewrite (Z.div_mod n 2) at 1 by lia. rewrite Hodd.
    assert (0 <= n / 2) by (apply Z.div_pos; lia). lia. }
  rewrite Hn' in E. cbn [smul] in E. rewrite smul_double in E by assumption.
  rewrite E2, smul_inf, add_0_r in E. discriminate.
Qed.

(* two valid points with the same x are equal or opposite *)
Lemma same_x x y1 y2 : valid C (Some (x, y1)) -> valid C (Some (x, y2)) ->
  y2 = y1 \/ y2 = (- y1) mod p.
Proof.
  intros H1 H2. destruct (Z.eq_dec y1 y2) as [E|NE]; [left; congruence|right].
  assert (E2 : Some (x, y1) +' Some (x, y2) = None).
  { unfold addT, padd. rewrite Z.eqb_refl. apply Z.eqb_neq in NE. rewrite NE. reflexivity. }
  apply inv_unique_pt in E2; [|assumption|assumption].
  cbn in E2. now injection E2.
Qed.

Theorem scalar_of_group_sec : scalar_laws C.
Proof.
  pose proof n_pos as Hn.
  constructor.
  - exact (gl_p_prime C GL).
  - exact (gl_p_odd C GL).
  - exact (gl_n_prime C GL).
  - exact (gl_n_odd C GL).
  - exact (gl_G_valid C GL).
  - exact (gl_G_not_inf C GL).
  - exact (gl_add_ok C GL).
  - intros k P HP. split; [|now apply mulT_valid].
    rewrite mulT_spec by assumption. now apply rmul_spec.
  - exact (gl_add_comm C GL).
  - exact (gl_add_assoc C GL).
  - exact add_0_l.
  - exact add_0_r.
  - exact neg_valid.
  - exact add_neg.
  - exact mulT_neg1.
  - intros P HP. rewrite mulT_spec by assumption. now rewrite Z.mod_0_l by lia.
  - intros P HP. rewrite mulT_spec by assumption.
    pose proof (gl_n_odd C GL) as Hn2. fold n in Hn2. rewrite Z.mod_1_l by lia. apply smul_1.
  - intros k. rewrite mulT_spec by exact I. apply smul_inf.
  - intros k P. unfold mulT, rmul. fold n. now rewrite Z.mod_mod by lia.
  - exact mulT_add.
  - exact mulT_mul.
  - exact mulT_addT.
  - intros k Hk. pose proof (Z.mod_pos_bound k n Hn) as Hb.
    destruct (Z.eq_dec (k mod n) 0) as [E|NE]; [exact E|exfalso].
    apply (gl_G_order C GL (k mod n)); [fold n; lia|].
    pose proof (rmul_spec k (G C) (gl_G_valid C GL)) as E. unfold rmul in E. fold n in E.
    rewrite E. rewrite <- mulT_spec by exact (gl_G_valid C GL). now rewrite Hk.
  - exact no_y0.
  - exact same_x.
Qed.

End SoG.

Theorem scalar_of_group (C : curve) : group_laws C -> scalar_laws C.
Proof. exact (scalar_of_group_sec C). Qed.
