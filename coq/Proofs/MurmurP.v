(* Proofs/MurmurP.v — the unbounded-integer murmur3 of helper.py equals 32-bit
   MurmurHash3_x86_32 for every byte string and EVERY integer seed. *)
From V Require Import Base.Prelude Base.Ints Model.Murmur.
From V Require Import Spec.Murmur.

Local Notation R := u32.

Lemma W32_pow : W32 = 2 ^ 32. Proof. reflexivity. Qed.
Lemma W32_pos : 0 < W32. Proof. reflexivity. Qed.

Lemma R_range a : 0 <= R a < W32.
Proof. unfold u32. apply Z.mod_pos_bound. reflexivity. Qed.

Lemma R_idem a : R (R a) = R a.
Proof. unfold u32. apply Z.mod_mod. discriminate. Qed.

Lemma R_small a : 0 <= a < W32 -> R a = a.
Proof. intros H. unfold u32. now apply Z.mod_small. Qed.

Lemma land_MM32 a : Z.land a MM32 = R a.
Proof. change MM32 with (Z.ones 32). rewrite Z.land_ones by lia. reflexivity. Qed.

Lemma R_land a : R a = Z.land a (Z.ones 32).
Proof. rewrite Z.land_ones by lia. reflexivity. Qed.

Lemma R_lxor a b : R (Z.lxor a b) = Z.lxor (R a) (R b).
Proof.
  rewrite !R_land. apply Z.bits_inj'. intros n Hn.
  rewrite !Z.land_spec, !Z.lxor_spec, !Z.land_spec.
  destruct (Z.testbit (Z.ones 32) n), (Z.testbit a n), (Z.testbit b n); reflexivity.
Qed.

Lemma R_lor a b : R (Z.lor a b) = Z.lor (R a) (R b).
Proof.
  rewrite !R_land. apply Z.bits_inj'. intros n Hn.
  rewrite !Z.land_spec, !Z.lor_spec, !Z.land_spec.
  destruct (Z.testbit (Z.ones 32) n), (Z.testbit a n), (Z.testbit b n); reflexivity.
Qed.

Lemma R_mul_l a c : R (a * c) = R (R a * c).
Proof. unfold u32. now rewrite Z.mul_mod_idemp_l by discriminate. Qed.

Lemma R_add_l a c : R (a + c) = R (R a + c).
Proof. unfold u32. now rewrite Z.add_mod_idemp_l by discriminate. Qed.

Lemma R_shiftl a n : 0 <= n -> R (Z.shiftl a n) = R (Z.shiftl (R a) n).
Proof. intros Hn. rewrite !Z.shiftl_mul_pow2 by assumption. apply R_mul_l. Qed.

Lemma shiftr_R_small a n : 0 <= n -> R (Z.shiftr (R a) n) = Z.shiftr (R a) n.
Proof.
  intros Hn. apply R_small. pose proof (R_range a) as H.
  rewrite Z.shiftr_div_pow2 by assumption.
  pose proof (Z.pow_pos_nonneg 2 n ltac:(lia) Hn) as Hp. split.
  - apply Z.div_pos; lia.
  - apply Z.le_lt_trans with (R a); [|lia]. apply Z.div_le_upper_bound; [lia|]. nia.
Qed.

(* (x << r) | ((x & 0xFFFFFFFF) >> (32 - r))  is ROTL32 modulo 2^32 *)
Lemma R_rot x r : 0 <= r -> 0 <= 32 - r ->
  R (Z.lor (Z.shiftl x r) (Z.shiftr (Z.land x MM32) (32 - r))) = rotl32 (R x) r.
Proof.
  intros H1 H2. rewrite R_lor, land_MM32, shiftr_R_small by assumption.
  rewrite R_shiftl by assumption. reflexivity.
Qed.

Lemma R_scramble k : R (mm_scramble k) = mix_k k.
Proof.
  unfold mm_scramble, mix_k, mul32. fold (R (k * c1)).
  rewrite R_mul_l. change 17 with (32 - 15). rewrite R_rot by lia. reflexivity.
Qed.

Lemma R_block_step h1 k :
  R (Z.lor (Z.shiftl (Z.lxor h1 (mm_scramble k)) 13) (Z.shiftr (Z.land (Z.lxor h1 (mm_scramble k)) MM32) 19) * 5
     + 3864292196) = body_step (R h1) k.
Proof.
  unfold body_step, add32, mul32.
  rewrite R_add_l, R_mul_l. change 19 with (32 - 13). rewrite R_rot by lia.
  rewrite R_lxor, R_scramble. reflexivity.
Qed.

(* little-endian load: disjoint ors are sums *)
Lemma lor_shiftl_add a b n : 0 <= n -> 0 <= a < 2 ^ n -> Z.lor a (Z.shiftl b n) = a + b * 2 ^ n.
Proof.
  intros Hn Ha. rewrite <- Z.shiftl_mul_pow2 by assumption.
  rewrite <- Z.lxor_lor, <- Z.add_nocarry_lxor; try reflexivity.
  all: apply Z.bits_inj'; intros i Hi; rewrite Z.land_spec, Z.bits_0;
    destruct (Z_lt_dec i n) as [L|L];
    [ rewrite Z.shiftl_spec_low by assumption; apply andb_false_r
    | rewrite <- (Z.mod_small a (2 ^ n)) by assumption;
      rewrite Z.mod_pow2_bits_high by lia; reflexivity ].
Qed.

Lemma land255 b : byte_ok b -> Z.land b 255 = b.
Proof.
  intros H. change 255 with (Z.ones 8). rewrite Z.land_ones by lia. apply Z.mod_small. exact H.
Qed.

Lemma load4 d0 d1 d2 d3 : byte_ok d0 -> byte_ok d1 -> byte_ok d2 -> byte_ok d3 ->
  Z.lor (Z.lor (Z.lor (Z.land d0 255) (Z.shiftl (Z.land d1 255) 8)) (Z.shiftl (Z.land d2 255) 16)) (Z.shiftl d3 24)
  = from_le [d0; d1; d2; d3].
Proof.
  unfold byte_ok. intros H0 H1 H2 H3. rewrite !land255 by assumption.
  rewrite (lor_shiftl_add d0 d1 8) by lia.
  rewrite (lor_shiftl_add _ d2 16) by (change (2 ^ 8) with 256; change (2 ^ 16) with 65536; lia).
  rewrite (lor_shiftl_add _ d3 24) by (change (2 ^ 8) with 256; change (2 ^ 16) with 65536; change (2 ^ 24) with 16777216; lia).
  cbn [from_le]. change (2 ^ 8) with 256; change (2 ^ 16) with 65536; change (2 ^ 24) with 16777216. lia.
Qed.

Lemma list_ind4 {A} (P : list A -> Prop) :
  P [] -> (forall a, P [a]) -> (forall a b, P [a; b]) -> (forall a b c, P [a; b; c]) ->
  (forall a b c d r, P r -> P (a :: b :: c :: d :: r)) -> forall l, P l.
Proof.
  intros H0 H1 H2 H3 H4.
  fix IH 1. intros l.
  destruct l as [|a [|b [|c [|d r]]]];
    [apply H0 | apply H1 | apply H2 | apply H3 | apply H4; apply IH].
Qed.

(* the standard's block loop and tail, re-expressed by the same 4-byte recursion *)
Fixpoint sbody (data : bytes) (h : Z) : Z * bytes :=
  match data with
  | d0 :: d1 :: d2 :: d3 :: rest => sbody rest (body_step h (from_le [d0; d1; d2; d3]))
  | tail => (h, tail)
  end.

Lemma sbody_spec data : forall h,
  sbody data h = (body (Nat.div (length data) 4) data h, skipn (Nat.div (length data) 4 * 4) data).
Proof.
  induction data as [| a | a b | a b c | a b c d r IH] using list_ind4; intros h; try reflexivity.
  cbn [sbody]. rewrite IH.
  assert (E : Nat.div (length (a :: b :: c :: d :: r)) 4 = S (Nat.div (length r) 4)).
  { cbn [length]. replace (S (S (S (S (length r))))) with (1 * 4 + length r)%nat by lia.
    rewrite Nat.div_add_l by lia. lia. }
  rewrite E. cbn [body]. f_equal.
Qed.

Lemma mm_body_sbody data : bytes_ok data -> forall h1 h, R h1 = h ->
  R (fst (mm_body data h1)) = fst (sbody data h) /\ snd (mm_body data h1) = snd (sbody data h).
Proof.
  induction data as [| a | a b | a b c | a b c d r IH] using list_ind4; intros Hok h1 h E;
    try (cbn; split; [assumption|reflexivity]).
  cbn [mm_body sbody].
  inversion Hok as [|? ? Ha Hok1]; subst. inversion Hok1 as [|? ? Hb Hok2]; subst.
  inversion Hok2 as [|? ? Hc Hok3]; subst. inversion Hok3 as [|? ? Hd Hok4]; subst.
  apply IH; [assumption|].
  unfold mm_block. rewrite load4 by assumption. apply R_block_step.
Qed.

Lemma mm_tail_spec h1 tail : bytes_ok tail -> (length tail < 4)%nat ->
  R (mm_tail h1 tail) = tail_step (R h1) tail.
Proof.
  intros Hok Hl.
  destruct tail as [|t0 [|t1 [|t2 [|t3 r]]]]; [reflexivity| | | |cbn in Hl; lia].
  - inversion Hok as [|? ? H0 _]; subst.
    cbn [mm_tail tail_step]. rewrite R_lxor, R_scramble, Z.lor_0_l, land255 by assumption.
    cbn [from_le]. do 2 f_equal. lia.
  - inversion Hok as [|? ? H0 Hok1]; subst. inversion Hok1 as [|? ? H1 _]; subst.
    cbn [mm_tail tail_step]. rewrite R_lxor, R_scramble, Z.lor_0_l, !land255 by assumption.
    rewrite Z.lor_comm, (lor_shiftl_add t0 t1 8) by (unfold byte_ok in *; lia).
    cbn [from_le]. do 2 f_equal. change (2 ^ 8) with 256. lia.
  - inversion Hok as [|? ? H0 Hok1]; subst. inversion Hok1 as [|? ? H1 Hok2]; subst.
    inversion Hok2 as [|? ? H2 _]; subst.
    cbn [mm_tail tail_step]. rewrite R_lxor, R_scramble, !land255 by assumption.
    rewrite Z.lor_comm, (Z.lor_comm (Z.shiftl t2 16)), Z.lor_assoc.
    rewrite (lor_shiftl_add t0 t1 8) by (unfold byte_ok in *; lia).
    rewrite (lor_shiftl_add _ t2 16) by (unfold byte_ok in *; change (2 ^ 8) with 256; change (2 ^ 16) with 65536; lia).
    cbn [from_le]. do 2 f_equal. change (2 ^ 8) with 256; change (2 ^ 16) with 65536. lia.
Qed.

Lemma R_xorshift h n : 0 <= n ->
  R (Z.lxor h (Z.shiftr (Z.land h MM32) n)) = Z.lxor (R h) (Z.shiftr (R h) n).
Proof. intros Hn. rewrite R_lxor, land_MM32, shiftr_R_small by assumption. reflexivity. Qed.

Lemma mm_fmix_spec h : mm_fmix h = fmix32 (R h).
Proof.
  unfold mm_fmix, fmix32, mul32. cbv zeta. rewrite land_MM32.
  rewrite R_xorshift by lia. f_equal; [| f_equal].
  all: fold (R (Z.lxor (R h) (Z.shiftr (R h) 16) * 2246822507)).
  all: rewrite R_mul_l, R_xorshift by lia; fold (R (Z.lxor h (Z.shiftr (Z.land h MM32) 16) * 2246822507)).
  all: rewrite (R_mul_l (Z.lxor h _)), R_xorshift by lia; reflexivity.
Qed.

Lemma skipn_tail_short {A} (l : list A) : (length (skipn (Nat.div (length l) 4 * 4) l) < 4)%nat.
Proof.
  rewrite skipn_length. pose proof (Nat.div_mod (length l) 4 ltac:(lia)).
  pose proof (Nat.mod_upper_bound (length l) 4 ltac:(lia)). lia.
Qed.

Theorem murmur3_eq_spec data seed :
  bytes_ok data -> murmur3 data seed = murmur3_x86_32 data (u32 seed).
Proof.
  intros Hok. unfold murmur3, murmur3_x86_32. cbv zeta.
  destruct (mm_body data seed) as [h1 tail] eqn:Em.
  pose proof (mm_body_sbody data Hok seed (R seed) eq_refl) as [E1 E2].
  rewrite Em, sbody_spec in E1, E2. cbn [fst snd] in E1, E2.
  rewrite mm_fmix_spec. f_equal.
  rewrite R_lxor. f_equal.
  rewrite <- E2, <- E1. apply mm_tail_spec.
  - rewrite E2. now apply bytes_ok_skipn.
  - rewrite E2. apply skipn_tail_short.
Qed.

Lemma murmur3_range data seed : bytes_ok data -> 0 <= murmur3 data seed < W32.
Proof.
  intros _. unfold murmur3. destruct (mm_body data seed) as [h1 tail]. unfold mm_fmix. cbv zeta.
  rewrite land_MM32. apply R_range.
Qed.
