(* Proofs/SighashCorP.v — C05: digest-level corollaries, the SINGLE-without-matching-output rules,
   and concrete instances showing that the hypotheses of the theorems are satisfiable. *)
From V Require Import Base.Prelude Base.Ints Model.Helper Model.Script Model.Tx Model.Sighash
  Model.SighashAbs Spec.TxData Proofs.HelperP Proofs.SighashP Proofs.SighashLegacyP
  Proofs.SighashSegwitP Proofs.SighashTaprootP Proofs.SighashHistP Proofs.SighashDispatchP.
From V Require Spec.Legacy Spec.Bip143 Spec.Bip341.

Lemma from_be_one : from_be Legacy.one = legacy_default.
Proof. reflexivity. Qed.

Section S.
Variable hash256 sha256 hash_tapsighash hash_tapleaf : bytes -> bytes.
Variable xonly_ok : bytes -> bool.

(* the library's integer digest is the big-endian reading of the specification's 32 bytes *)
Lemma sig_hash_legacy_spec t ct sp idx redeem code cb ht :
  standard_hash_type ht = true -> abs_tx t = Ok ct ->
  (redeem = Some code \/
   (redeem = None /\ exists s, nth_error sp idx = Some s /\ code = sp_script s)) ->
  abs_script code = Ok cb ->
  sig_hash_legacy hash256 t sp idx redeem ht =
  Ok (Legacy.preimage cb ct idx ht, from_be (Legacy.signature_hash hash256 cb ct idx ht)).
Proof.
  intros Hht Ht Hcode Hcb. unfold sig_hash_legacy.
  assert (Hc : match redeem with
               | Some r => Ok r
               | None => match nth_error sp idx with
                         | Some s => Ok (sp_script s)
                         | None => if (length (t_ins t) <=? idx)%nat then Ok empty_script else Err
                         end
               end = Ok code).
  { destruct Hcode as [-> | [-> [s [Hs ->]]]]; [reflexivity|]. now rewrite Hs. }
  rewrite Hc. cbn [bind]. rewrite (legacy_eq_spec t ct idx code cb ht Hht Ht Hcb). cbn [bind].
  unfold Legacy.signature_hash. destruct (Legacy.preimage cb ct idx ht); [reflexivity|].
  now rewrite from_be_one.
Qed.

(* the two "return 1" cases need no hypothesis at all *)
Lemma legacy_one_cases t idx code ht :
  (length (t_ins t) <= idx)%nat \/ (ht_base5 ht = 3 /\ (length (t_outs t) <= idx)%nat) ->
  legacy_preimage t idx code ht = Ok None.
Proof.
  intros H. unfold legacy_preimage.
  destruct (length (t_ins t) <=? idx)%nat eqn:E1; [reflexivity|].
  apply Nat.leb_gt in E1. destruct H as [H|[H1 H2]]; [lia|].
  rewrite H1. apply Nat.leb_le in H2. rewrite H2. reflexivity.
Qed.

Lemma spec_legacy_one_cases cb ct idx ht :
  (length (ct_vin ct) <= idx)%nat \/ (Legacy.hash_single ht = true /\ (length (ct_vout ct) <= idx)%nat) ->
  Legacy.preimage cb ct idx ht = None /\ Legacy.signature_hash hash256 cb ct idx ht = Legacy.one.
Proof.
  intros H. assert (Hp : Legacy.preimage cb ct idx ht = None).
  { unfold Legacy.preimage, Legacy.tx_tmp.
    destruct (length (ct_vin ct) <=? idx)%nat eqn:E1; [reflexivity|].
    apply Nat.leb_gt in E1. destruct H as [H|[H1 H2]]; [lia|].
    rewrite H1. apply Nat.leb_le in H2. rewrite H2. reflexivity. }
  split; [exact Hp|]. unfold Legacy.signature_hash. now rewrite Hp.
Qed.

(* BIP143: SINGLE without a matching output commits to the zero hash *)
Lemma spec_bip143_single_zero ct idx ht :
  Bip143.is_single ht = true -> (length (ct_vout ct) <= idx)%nat ->
  Bip143.hash_outputs hash256 ct idx ht = zero_hash.
Proof.
  intros Hs Hlen. unfold Bip143.hash_outputs. rewrite Hs. cbn [negb andb].
  assert (E : nth_error (ct_vout ct) idx = None) by now apply nth_error_None.
  now rewrite E.
Qed.

(* BIP341: SINGLE without a matching output has no digest, on both sides *)
Lemma bip341_single_no_output t sp idx ext ht m :
  ht_base ht = 3 -> (length (t_outs t) <= idx)%nat ->
  bip341_preimage sha256 hash_tapleaf xonly_ok t sp idx ext ht m = Err.
Proof.
  intros Hb Hlen. unfold bip341_preimage.
  assert (E : nth_error (t_outs t) idx = None) by now apply nth_error_None.
  rewrite E, Hb. cbn [Z.eqb Pos.eqb].
  repeat match goal with
  | |- match ?x with _ => _ end = Err => destruct x; try reflexivity
  | |- bind ?x _ = Err => destruct x; cbn [bind]; try reflexivity
  | |- (let '(_, _) := ?p in _) = Err => destruct p
  end.
Qed.

Lemma spec_bip341_single_no_output ht e ct coins idx annex :
  Bip341.out_single ht = true -> (length (ct_vout ct) <= idx)%nat ->
  Bip341.sig_msg sha256 ht e ct coins idx annex = None.
Proof.
  intros Hs Hlen. unfold Bip341.sig_msg.
  assert (E : nth_error (ct_vout ct) idx = None) by now apply nth_error_None.
  rewrite Hs, E.
  destruct (negb (Bip341.valid_hash_type ht)); [reflexivity|].
  destruct (negb (length coins =? length (ct_vin ct))%nat); [reflexivity|].
  destruct (nth_error (ct_vin ct) idx); [|reflexivity].
  destruct (nth_error coins idx); reflexivity.
Qed.

(* digests are the hashes of the preimages *)
Lemma sig_hash_bip143_digest t sp idx redeem wscript ht m :
  rsnd (sig_hash_bip143 hash256 t sp idx redeem wscript ht m) =
  (p <- rsnd (bip143_preimage hash256 t sp idx redeem wscript ht m) ;; Ok (p, from_be (hash256 p))).
Proof.
  unfold sig_hash_bip143, rsnd.
  destruct (bip143_preimage hash256 t sp idx redeem wscript ht m) as [[? ?]|]; reflexivity.
Qed.
Lemma sig_hash_bip341_digest t sp idx ext ht m :
  rsnd (sig_hash_bip341 sha256 hash_tapsighash hash_tapleaf xonly_ok t sp idx ext ht m) =
  (p <- rsnd (bip341_preimage sha256 hash_tapleaf xonly_ok t sp idx ext ht m) ;;
   Ok (p, hash_tapsighash p)).
Proof.
  unfold sig_hash_bip341, rsnd.
  destruct (bip341_preimage sha256 hash_tapleaf xonly_ok t sp idx ext ht m) as [[? ?]|]; reflexivity.
Qed.
End S.

(* ------------------------------------------------------------------ *)
(* a concrete transaction: two inputs (P2WPKH, P2TR key path with annex), two outputs *)

Definition ex_h20 : bytes := repeatz 7 20.
Definition ex_x32 : bytes := repeatz 9 32.
Definition ex_in0 : txin :=
  {| i_prev_tx := repeatz 1 32; i_prev_index := 0; i_script := empty_script;
     i_sequence := 4294967294; i_witness := [repeatz 48 71; 2 :: repeatz 5 32] |}.
Definition ex_in1 : txin :=
  {| i_prev_tx := repeatz 2 32; i_prev_index := 1; i_script := empty_script;
     i_sequence := 4294967295; i_witness := [repeatz 3 64; [80; 1; 2]] |}.
Definition ex_out (v : Z) : txout := {| o_amount := v; o_script := mk_script (p2wpkh_script ex_h20) |}.
Definition ex_tx : tx :=
  {| t_version := 2; t_ins := [ex_in0; ex_in1]; t_outs := [ex_out 5000; ex_out 9223372036854775807];
     t_locktime := 500000000; t_segwit := true |}.
Definition ex_spent : list spent :=
  [ {| sp_value := 100000; sp_script := mk_script (p2wpkh_script ex_h20) |};
    {| sp_value := 200000; sp_script := mk_script (p2tr_script ex_x32) |} ].

Lemma ex_abs_tx : exists ct, abs_tx ex_tx = Ok ct /\ length (ct_vin ct) = 2%nat.
Proof. eexists. split; [vm_compute; reflexivity | reflexivity]. Qed.
Lemma ex_abs_spent : exists coins, abs_list abs_spent ex_spent = Ok coins.
Proof. eexists. vm_compute. reflexivity. Qed.

(* a toy "hash" (the identity) makes histories fully computable: the second query of
   [Query; EditOutput; Query] sees the edited output, and differs from the first *)
Definition ex_hist : list op :=
  [ Query ADispatch 0 1; EditOutput 0 (ex_out 4000); Query ADispatch 0 1 ].
Definition idh (b : bytes) : bytes := b.

Lemma ex_history :
  let outs := snd (run idh idh idh idh (fun _ => true)
                       {| ob_tx := ex_tx; ob_spent := ex_spent; ob_memo := memo_empty |} ex_hist) in
  outs = fresh_outputs idh idh idh idh (fun _ => true) ex_tx ex_spent ex_hist /\
  (exists a b, outs = [Ok a; Ok b] /\ so_alg a = 143 /\ so_alg b = 143 /\ so_pre a <> so_pre b).
Proof.
  split; [apply run_eq_fresh|].
  vm_compute. eexists; eexists. split; [reflexivity|]. repeat split; discriminate.
Qed.

(* ------------------------------------------------------------------ *)
(* end to end through the dispatcher: a P2WPKH input and a P2TR key-path input *)
Section E2E.
Variable hash256 sha256 hash_tapsighash hash_tapleaf : bytes -> bytes.
Variable xonly_ok : bytes -> bool.

Lemma sig_hash_p2wpkh t ct sp idx ti s h ht m :
  standard_hash_type ht = true -> abs_tx t = Ok ct ->
  nth_error (t_ins t) idx = Some ti -> nth_error sp idx = Some s ->
  sp_script s = mk_script (p2wpkh_script h) -> length h = 20%nat -> in_u64 (sp_value s) = true ->
  rsnd (sig_hash hash256 sha256 hash_tapsighash hash_tapleaf xonly_ok t sp idx ht m) =
  (p <- opt_res (Bip143.preimage hash256 (Bip143.p2wpkh_script_code h) (sp_value s) ct idx ht) ;;
   Ok {| so_alg := 143; so_pre := Some p; so_digest := DInt (from_be (hash256 p)) |}).
Proof.
  intros Hht Ht Eti Es Hspk Hh Hval.
  destruct (p2wpkh_script_code_model h Hh) as [Hcode Habs].
  pose proof (bip143_eq_spec hash256 t ct sp idx None None s (mk_script (p2pkh_script h))
                (Bip143.p2wpkh_script_code h) ht m Hht Ht Es Hval) as H.
  rewrite Hspk in H. specialize (H Hcode Habs).
  unfold sig_hash. rewrite Eti, Es, Hspk, (plan_p2wpkh ti h Hh). cbn [bind].
  unfold sig_hash_bip143, rsnd in *.
  destruct (bip143_preimage hash256 t sp idx None None ht m) as [[m' p]|]; cbn [bind] in *.
  - rewrite <- H. reflexivity.
  - rewrite <- H. reflexivity.
Qed.

Lemma sig_hash_p2tr_keypath t ct sp coins idx ti s x ht m :
  standard_hash_type ht = true -> abs_tx t = Ok ct -> abs_list abs_spent sp = Ok coins ->
  length sp = length (t_ins t) ->
  nth_error (t_ins t) idx = Some ti -> nth_error sp idx = Some s ->
  sp_script s = mk_script (p2tr_script x) -> length x = 32%nat ->
  in_u32 (Z.of_nat idx) = true ->
  (forall a, annex_of (i_witness ti) = Some a -> in_u64 (zlen a) = true) ->
  zlen (snd (Bip341.split_annex (i_witness ti))) = 1 ->      (* one element besides the annex *)
  rsnd (sig_hash hash256 sha256 hash_tapsighash hash_tapleaf xonly_ok t sp idx ht m) =
  (p <- opt_res (Bip341.message sha256 hash_tapleaf ht ct coins idx (annex_of (i_witness ti)) None) ;;
   Ok {| so_alg := 341; so_pre := Some p; so_digest := DBytes (hash_tapsighash p) |}).
Proof.
  intros Hht Ht Hsp Hlen Eti Es Hspk Hx Hidx Hannex Hone.
  assert (Hleaf : leaf_rel xonly_ok 0 (i_witness ti) None) by (left; split; reflexivity).
  pose proof (bip341_eq_spec sha256 hash_tapleaf xonly_ok t ct sp coins idx ti 0 None ht m
                Hht Ht Hsp Hlen Eti Hidx Hannex Hleaf) as H.
  unfold sig_hash. rewrite Eti, Es, Hspk, (plan_p2tr ti x Hx), Hone. cbn [Z.leb Z.compare Pos.compare
    Pos.compare_cont bind].
  unfold sig_hash_bip341, rsnd in *.
  destruct (bip341_preimage sha256 hash_tapleaf xonly_ok t sp idx 0 ht m) as [[m' p]|]; cbn [bind] in *.
  - rewrite <- H. reflexivity.
  - rewrite <- H. reflexivity.
Qed.
End E2E.
