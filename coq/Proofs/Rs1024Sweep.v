(* Proofs/Rs1024Sweep.v — the vm_compute sweep over all C(33,3) = 5456 triples of error
   positions (as distances from the end of the data), and the resulting detection theorem:
   RS1024 detects every substitution of up to three words in a mnemonic of 3..33 words. *)
From V Require Import Base.Prelude Base.Ints Model.Shamir Proofs.BitsP Proofs.Rs1024P.

Local Open Scope Z_scope.

(* for every c < b < a < 33 the 30 syndrome vectors B a ++ B b ++ B c have a (computed, then
   checked) right inverse over GF(2), hence are linearly independent *)
Lemma sweep_33 : sweep (mkTab 33) 33 = true.
Proof. vm_compute. reflexivity. Qed.

Theorem rs1024_detects_three_gen : forall (cs m m' : list Z),
  (3 <= length m <= 33)%nat -> length m' = length m ->
  Forall (fun v => 0 <= v < 1024) m -> Forall (fun v => 0 <= v < 1024) m' ->
  rs1024_verify_checksum cs m = true ->
  (1 <= hamming m m' <= 3)%nat ->
  rs1024_verify_checksum cs m' = false.
Proof. exact (detects_of_sweep 33 sweep_33). Qed.

Theorem rs1024_detects_three : forall (cs m m' : list Z),
  (length m = 20 \/ length m = 33)%nat -> length m' = length m ->
  Forall (fun v => 0 <= v < 1024) m -> Forall (fun v => 0 <= v < 1024) m' ->
  rs1024_verify_checksum cs m = true ->
  (1 <= hamming m m' <= 3)%nat ->
  rs1024_verify_checksum cs m' = false.
Proof.
  intros cs m m' Hlen. apply rs1024_detects_three_gen. lia.
Qed.

Print Assumptions rs1024_detects_three_gen.
Print Assumptions rs1024_detects_three.
