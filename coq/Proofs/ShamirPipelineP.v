(* Proofs/ShamirPipelineP.v — the SLIP39 pipeline end to end (Model/Shamir.v):
   generate_shares followed by recover_mnemonic on any list of at least k of the produced
   share mnemonics, taken at pairwise distinct positions and in any order, gives back the
   (canonically spelled) BIP39 mnemonic.  Composition of ShamirP (threshold recovery),
   FeistelP (decrypt . encrypt), ShareCodecP / C15Glue (share text codec), ShamirChecksP
   (the checks of ShareSet.__init__) and MnemonicP / WordlistP (BIP39 round trip). *)
From V Require Import Base.Prelude Base.Ints Model.Mnemonic Model.Shamir Generated.Wordlists
  Proofs.MnemonicP Proofs.WordlistP Proofs.ShareCodecP Proofs.C15Glue Proofs.C14Glue
  Proofs.ShamirChecksP Proofs.FeistelP Proofs.ShamirP Proofs.Gf256Sweep.

(* ---------------------------------------------------------------- generic list facts *)

Lemma Forall2_impl_in {A B} (P Q : A -> B -> Prop) l r :
  (forall a b, In a l -> P a b -> Q a b) -> Forall2 P l r -> Forall2 Q l r.
Proof.
  intros H F. induction F as [|a b l r Hab F IH]; constructor.
  - apply H; [now left | exact Hab].
  - apply IH. intros a' b' Hin. apply H. now right.
Qed.

Lemma Forall2_nth {A B} (P : A -> B -> Prop) l r da db :
  Forall2 P l r -> forall j, (j < length l)%nat -> P (nth j l da) (nth j r db).
Proof.
  induction 1 as [|a b l r Hab F IH]; intros j Hj; cbn [length] in Hj; [lia|].
  destruct j as [|j]; cbn [nth]; [exact Hab|]. apply IH. lia.
Qed.

Lemma Forall2_len {A B} (P : A -> B -> Prop) l r : Forall2 P l r -> length l = length r.
Proof. induction 1; cbn [length]; congruence. Qed.

Lemma NoDup_map_of_nat js : NoDup js -> NoDup (map Z.of_nat js).
Proof.
  induction 1 as [|j js Hj _ IH]; cbn [map]; constructor; [|exact IH].
  intros Hin. apply in_map_iff in Hin as [i [E Hi]]. apply Nat2Z.inj in E. subst i. contradiction.
Qed.

Lemma Forall2_map_same {A B C} (P : B -> C -> Prop) (f : A -> B) (g : A -> C) l :
  (forall a, In a l -> P (f a) (g a)) -> Forall2 P (map f l) (map g l).
Proof.
  induction l as [|a l IH]; intros H; cbn [map]; constructor.
  - apply H. now left.
  - apply IH. intros a' Ha'. apply H. now right.
Qed.

Lemma nth_zrange n : forall a j d, (j < n)%nat -> nth j (zrange a n) d = a + Z.of_nat j.
Proof.
  induction n as [|n IH]; intros a j d Hj; [lia|]. cbn [zrange].
  destruct j as [|j]; cbn [nth]; [lia|]. rewrite IH by lia. lia.
Qed.

Lemma filter_map_comm {A B} (f : B -> bool) (g : A -> B) l :
  filter f (map g l) = map g (filter (fun x => f (g x)) l).
Proof.
  induction l as [|a l IH]; [reflexivity|]. cbn [map filter].
  destruct (f (g a)); cbn [map]; now rewrite IH.
Qed.

Lemma nodup_pairs_fst l : NoDup (map fst l) -> nodup_pairs l = true.
Proof.
  induction l as [|p r IH]; intros H; cbn [nodup_pairs]; [reflexivity|].
  cbn [map] in H. inversion H as [|? ? Hn Hr]; subst. rewrite IH by exact Hr. rewrite andb_true_r.
  apply negb_true_iff.
  destruct (existsb (fun q => (fst p =? fst q) && (snd p =? snd q)) r) eqn:X; [|reflexivity].
  apply existsb_exists in X as [q [Hq E]]. apply andb_true_iff in E as [E _]. apply Z.eqb_eq in E.
  exfalso. apply Hn. rewrite E. now apply in_map.
Qed.

Lemma all_same_const {A} (f : A -> Z) c l :
  (forall s, In s l -> f s = c) -> all_same (map f l) = true.
Proof.
  intros H. apply all_same_spec. intros x y Hx Hy.
  apply in_map_iff in Hx as [s [<- Hs]]. apply in_map_iff in Hy as [t [<- Ht]].
  now rewrite (H s Hs), (H t Ht).
Qed.

(* ---------------------------------------------------------------- byte strings stay byte strings *)

Lemma zip_xor_ok a : forall b, bytes_ok a -> bytes_ok b -> bytes_ok (zip_with Z.lxor a b).
Proof.
  unfold bytes_ok.
  induction a as [|x a IH]; intros [|y b] Ha Hb; cbn [zip_with]; try constructor.
  - inversion Ha; inversion Hb; subst. unfold byte_ok in *. now apply lxor_byte.
  - inversion Ha; inversion Hb; subst. now apply IH.
Qed.

Lemma indices_to_bytes_ok sha idx s : indices_to_bytes sha idx = Ok s -> bytes_ok s.
Proof.
  unfold indices_to_bytes. cbv zeta.
  destruct (negb (valid_num_words (zlen idx))); [discriminate|].
  destruct (int_to_be _ _) as [b|] eqn:E; cbn [bind]; [|discriminate].
  destruct (first_byte (sha b)) as [h|]; cbn [bind]; [|discriminate].
  destruct (_ =? _); [|discriminate].
  intros H. apply Ok_inj in H. subst b. apply int_to_be_inv in E as [_ ->]. apply to_be_ok.
Qed.

Lemma mnemonic_bytes_ok sha words m s : mnemonic_to_bytes sha words m = Ok s -> bytes_ok s.
Proof.
  intros H. apply mnemonic_accept_iff in H as (idx & _ & H). eapply indices_to_bytes_ok; exact H.
Qed.

Section Crypt.
  Variable kdf : bytes -> bytes -> Z -> Z -> result bytes.
  Hypothesis kdf_ok : forall p s c n r, kdf p s c n = Ok r -> zlen r = n /\ bytes_ok r.

  Lemma rounds_ok idxs pass salt iters half : forall l r l' r',
    bytes_ok l -> bytes_ok r ->
    crypt_rounds kdf idxs pass salt iters half l r = Ok (l', r') -> bytes_ok l' /\ bytes_ok r'.
  Proof.
    induction idxs as [|i idxs IH]; intros l r l' r' Hl Hr H; cbn [crypt_rounds] in H.
    - inversion H; subst. now split.
    - destruct (kdf (i :: pass) (salt ++ r) iters half) as [f|] eqn:K; cbn [bind] in H; [|discriminate].
      apply (IH _ _ _ _ Hr) in H; [exact H|].
      apply zip_xor_ok; [exact Hl | exact (proj2 (kdf_ok _ _ _ _ _ K))].
  Qed.

  Lemma crypt_ok payload id e pass idxs c :
    bytes_ok payload -> crypt kdf payload id e pass idxs = Ok c -> bytes_ok c.
  Proof.
    intros Hp. unfold crypt. destruct (Z.odd (zlen payload)); [discriminate|].
    destruct (int_to_be id 2) as [idb|]; cbn [bind]; [|discriminate].
    destruct ((e <? 0) && (match idxs with [] => false | _ => true end)); [discriminate|].
    destruct (crypt_rounds kdf idxs pass (s_shamir ++ idb) (Z.shiftl 2500 e) (zlen payload / 2)
                (firstn (Z.to_nat (zlen payload / 2)) payload)
                (skipn (Z.to_nat (zlen payload / 2)) payload)) as [[l r]|] eqn:R;
      cbn [bind]; [|discriminate].
    intros H. apply Ok_inj in H. subst c.
    apply rounds_ok in R as [Hl Hr]; [| now apply bytes_ok_firstn | now apply bytes_ok_skipn].
    apply bytes_ok_app. now split.
  Qed.
End Crypt.

(* ---------------------------------------------------------------- the shares of generate_shares *)

(* the share built by generate_shares from the data point p of split_secret *)
Definition sh_of (bits id e k n : Z) (p : Z * bytes) : share :=
  {| sh_bits := bits; sh_id := id; sh_exp := e; sh_gi := fst p; sh_gt := k; sh_gc := n;
     sh_mi := 0; sh_mt := 1; sh_value := from_be (snd p); sh_bytes := snd p |}.

Lemma mk_share_sh_of bits id e k n p s :
  mk_share bits id e (fst p) k n 0 1 (from_be (snd p)) = Ok s ->
  Z.to_nat (bits / 8) = length (snd p) -> bytes_ok (snd p) -> s = sh_of bits id e k n p.
Proof.
  intros H L B. unfold mk_share in H.
  destruct ((fst p <? 0) || (fst p >? 15)); [discriminate|].
  destruct ((k <? 1) || (k >? n)); [discriminate|].
  destruct ((n <? 1) || (n >? 16)); [discriminate|].
  destruct ((0 <? 0) || (0 >? 15)); [discriminate|].
  destruct ((1 <? 1) || (1 >? 16)); [discriminate|].
  destruct (bits / 8 <? 0); [discriminate|].
  destruct (int_to_be (from_be (snd p)) (Z.to_nat (bits / 8))) as [b|] eqn:E;
    cbn [bind] in H; [|discriminate].
  apply Ok_inj in H. subst s. apply int_to_be_inv in E as [_ ->].
  rewrite L, to_be_from_be by exact B. reflexivity.
Qed.

(* ShareSet.__init__ accepts shares of one split at pairwise distinct indices *)
Lemma shareset_init_uniform bits id e k n sub :
  sub <> [] -> NoDup (map fst sub) -> 0 <= id < 65536 -> k <= n ->
  shareset_init (map (sh_of bits id e k n) sub) =
  Ok {| ss_shares := map (sh_of bits id e k n) sub; ss_id := id;
        ss_salt := s_shamir ++ to_be 2 id; ss_exp := e; ss_gt := k; ss_gc := n;
        ss_bits := bits |}.
Proof.
  intros Hne Hnd Hid Hkn. unfold shareset_init.
  rewrite (all_same_const sh_id id), (all_same_const sh_exp e), (all_same_const sh_gt k),
    (all_same_const sh_gc n), (all_same_const sh_bits bits)
    by (intros s Hs; apply in_map_iff in Hs as [x [<- _]]; reflexivity).
  rewrite nodup_pairs_fst by (rewrite !map_map; exact Hnd).
  destruct sub as [|p0 sub']; [congruence|]. cbn [map].
  cbn [sh_gt sh_gc sh_id sh_exp sh_bits sh_of].
  destruct (Z.leb_spec k n) as [_|]; [|lia]. cbn [andb negb]. rewrite andb_false_r.
  rewrite int_to_be_ok by (rewrite pow256_2; exact Hid). cbn [bind]. reflexivity.
Qed.

(* ---------------------------------------------------------------- split_secret, both cases *)

Section Split.
  Variable hmac_sha256 : bytes -> bytes -> bytes.
  Hypothesis hmac_ok : forall k m, length (hmac_sha256 k m) = 32%nat /\ bytes_ok (hmac_sha256 k m).

  Lemma split_facts enc k n rnd data :
    bytes_ok enc -> bytes_ok rnd -> split_secret hmac_sha256 enc k n rnd = Ok data ->
    1 <= k <= n /\ n <= 16 /\ map fst data = zrange 0 (Z.to_nat n) /\
    Forall (fun p => length (snd p) = length enc /\ bytes_ok (snd p)) data /\
    (k = 1 -> forall p, In p data -> snd p = enc).
  Proof.
    intros Henc Hrnd H.
    assert (R : 1 <= k <= n /\ n <= 16).
    { unfold split_secret in H.
      destruct (Z.ltb_spec n 1); [discriminate|]. destruct (Z.gtb_spec n 16); [discriminate|].
      destruct (Z.ltb_spec k 1); [discriminate|]. destruct (Z.gtb_spec k n); [discriminate|]. lia. }
    destruct R as [R1 R2]. split; [exact R1|]. split; [exact R2|].
    destruct (Z.eq_dec k 1) as [->|Hk].
    - unfold split_secret in H.
      destruct (n <? 1); [discriminate|]. destruct (n >? 16); [discriminate|].
      destruct (1 <? 1); [discriminate|]. destruct (1 >? n); [discriminate|].
      destruct (negb ((zlen enc =? 16) || (zlen enc =? 32))); [discriminate|].
      change (1 =? 1) with true in H. cbv iota in H. apply Ok_inj in H. subst data.
      split; [|split].
      + rewrite map_map. cbn [fst]. apply map_id.
      + apply Forall_forall. intros p Hp. apply in_map_iff in Hp as [i [<- _]]. cbn [snd]. now split.
      + intros _ p Hp. apply in_map_iff in Hp as [i [<- _]]. reflexivity.
    - destruct (split_secret_indices hmac_sha256 hmac_ok enc k n rnd data ltac:(lia) Henc Hrnd H)
        as [M F].
      split; [exact M|]. split; [exact F|]. intros E. lia.
  Qed.

  (* ShareSet.recover, first stage: with member threshold 1 everywhere the group secrets are
     the share values themselves, one per presented index *)
  Lemma collect_uniform bits id e k n sub : forall idxs, NoDup idxs ->
    exists sd, collect_groups hmac_sha256 (map (sh_of bits id e k n) sub) idxs = Ok sd /\
      (forall q, In q sd -> In q sub /\ In (fst q) idxs) /\
      NoDup (map fst sd) /\
      (forall p, In p sub -> In (fst p) idxs -> In (fst p) (map fst sd)).
  Proof.
    induction idxs as [|i r IH]; intros Hnd.
    - exists []. cbn [collect_groups map]. split; [reflexivity|]. split; [intros q []|].
      split; [constructor|]. intros p _ [].
    - inversion Hnd as [|? ? Hni Hnd']; subst. destruct (IH Hnd') as (sd & C & A & N & I).
      cbn [collect_groups]. rewrite filter_map_comm.
      destruct (filter (fun x => sh_gi (sh_of bits id e k n x) =? i) sub) as [|p0 q] eqn:F.
      + cbn [map]. exists sd. split; [exact C|]. split; [|split; [exact N|]].
        * intros x Hx. destruct (A x Hx) as [A1 A2]. split; [exact A1 | now right].
        * intros p Hp [E|Hr]; [|now apply I]. exfalso.
          assert (Hin : In p (filter (fun x => sh_gi (sh_of bits id e k n x) =? i) sub)).
          { apply filter_In. split; [exact Hp|]. cbn [sh_gi sh_of]. apply Z.eqb_eq. now symmetry. }
          rewrite F in Hin. destruct Hin.
      + rewrite (all_same_const sh_mt 1)
          by (intros s Hs; apply in_map_iff in Hs as [x [<- _]]; reflexivity).
        cbn [negb map]. cbn [sh_mt sh_bytes sh_of]. change (1 =? 1) with true. cbv iota.
        rewrite C. cbn [bind].
        assert (Hin : In p0 (filter (fun x => sh_gi (sh_of bits id e k n x) =? i) sub))
          by (rewrite F; now left).
        apply filter_In in Hin as [Hin E]. cbn [sh_gi sh_of] in E. apply Z.eqb_eq in E.
        assert (P0 : (i, snd p0) = p0) by (destruct p0 as [x b]; cbn [fst snd] in *; now subst x).
        rewrite P0. exists (p0 :: sd). split; [reflexivity|]. split; [|split].
        * intros x [<-|Hx]; [split; [exact Hin | left; now symmetry]|].
          destruct (A x Hx) as [A1 A2]. split; [exact A1 | now right].
        * cbn [map]. constructor; [|exact N]. intros Hx. apply in_map_iff in Hx as [x [Ex Hx]].
          destruct (A x Hx) as [_ A2]. rewrite Ex, E in A2. contradiction.
        * intros p Hp [Ei|Hr]; cbn [map]; [left; congruence | right; now apply I].
  Qed.

  Variable kdf : bytes -> bytes -> Z -> Z -> result bytes.
  Hypothesis kdf_ok : forall p s c n r, kdf p s c n = Ok r -> zlen r = n /\ bytes_ok r.

  (* ShareSet.recover on at least k of the shares of one split *)
  Lemma recover_uniform secret enc k n rnd data id e pass bits salt sub :
    bytes_ok enc -> bytes_ok rnd ->
    encrypt kdf secret id e pass = Ok enc ->
    split_secret hmac_sha256 enc k n rnd = Ok data ->
    (forall p, In p sub -> In p data) -> NoDup (map fst sub) -> k <= zlen sub ->
    recover hmac_sha256 kdf
      {| ss_shares := map (sh_of bits id e k n) sub; ss_id := id; ss_salt := salt;
         ss_exp := e; ss_gt := k; ss_gc := n; ss_bits := bits |} pass = Ok secret.
  Proof.
    intros Henc Hrnd Hcr Hsplit Hincl Hnd Hk.
    destruct (split_facts enc k n rnd data Henc Hrnd Hsplit) as (Hkn & Hn16 & Hmap & Hfa & Hone).
    assert (Hrange : forall p, In p sub -> 0 <= fst p < n).
    { intros p Hp. apply Hincl in Hp. apply (in_map fst) in Hp. rewrite Hmap in Hp.
      apply in_zrange' in Hp. lia. }
    destruct (collect_uniform bits id e k n sub (zrange 0 (Z.to_nat n)) (zrange_NoDup _ _))
      as (sd & C & A & N & I).
    assert (Hlen : (length sub <= length sd)%nat).
    { rewrite <- (map_length fst sub), <- (map_length fst sd).
      apply NoDup_incl_length; [exact Hnd|]. intros x Hx. apply in_map_iff in Hx as [p [<- Hp]].
      apply I; [exact Hp|]. apply in_zrange'. specialize (Hrange p Hp). lia. }
    assert (kdf_len : forall p s c n r, kdf p s c n = Ok r -> zlen r = n).
    { intros p s c n0 r H. exact (proj1 (kdf_ok _ _ _ _ _ H)). }
    set (ss := {| ss_shares := map (sh_of bits id e k n) sub; ss_id := id; ss_salt := salt;
                  ss_exp := e; ss_gt := k; ss_gc := n; ss_bits := bits |}).
    assert (Hdec : decrypt kdf ss enc pass = Ok secret).
    { exact (proj1 (feistel_inverse kdf kdf_len secret id e pass enc ss eq_refl eq_refl Hcr)). }
    unfold recover. cbn [ss ss_shares ss_gc ss_gt].
    assert (X : existsb (fun s => n <=? sh_gi s) (map (sh_of bits id e k n) sub) = false).
    { destruct (existsb (fun s => n <=? sh_gi s) (map (sh_of bits id e k n) sub)) eqn:X;
        [|reflexivity].
      apply existsb_exists in X as [s [Hs L]]. apply in_map_iff in Hs as [p [<- Hp]].
      cbn [sh_gi sh_of] in L. apply Z.leb_le in L. specialize (Hrange p Hp). lia. }
    rewrite X, C. cbn [bind]. fold ss.
    destruct (Z.eqb_spec k 1) as [Hk1|Hk1].
    - destruct sd as [|p sd'].
      { cbn [length] in Hlen. unfold zlen in Hk. lia. }
      rewrite (Hone Hk1 p); [exact Hdec|]. apply Hincl. apply (A p). now left.
    - destruct (Z.gtb_spec k (zlen sd)) as [G|G]; [unfold zlen in *; lia|].
      rewrite (threshold_recovery hmac_sha256 hmac_ok enc k n rnd data sd ltac:(lia) Henc Hrnd Hsplit N).
      + cbn [bind]. exact Hdec.
      + intros p Hp. apply Hincl. now apply (A p).
      + exact G.
  Qed.
End Split.

(* ---------------------------------------------------------------- the pipeline *)

Section Pipeline.
  Variable sha256 : bytes -> bytes.
  Hypothesis sha_ok : forall x, exists h t, sha256 x = h :: t /\ 0 <= h < 256.
  Variable hmac_sha256 : bytes -> bytes -> bytes.
  Hypothesis hmac_ok : forall k m, length (hmac_sha256 k m) = 32%nat /\ bytes_ok (hmac_sha256 k m).
  Variable kdf : bytes -> bytes -> Z -> Z -> result bytes.
  Hypothesis kdf_ok : forall p s c n r, kdf p s c n = Ok r -> zlen r = n /\ bytes_ok r.

  Theorem pipeline_recovery : forall m k n pass e id rnd ms js,
    0 <= id < 32768 -> 0 <= e < 32 -> bytes_ok rnd ->
    generate_shares sha256 hmac_sha256 kdf bip39_words slip39_words m k n pass e id rnd = Ok ms ->
    NoDup js -> Forall (fun j => (j < length ms)%nat) js -> k <= Z.of_nat (length js) ->
    exists secret m',
      mnemonic_to_bytes sha256 bip39_words m = Ok secret /\
      bytes_to_mnemonic sha256 bip39_words secret (8 * zlen secret) = Ok m' /\
      mnemonic_to_bytes sha256 bip39_words m' = Ok secret /\
      length ms = Z.to_nat n /\
      recover_mnemonic sha256 hmac_sha256 kdf bip39_words slip39_words
                       (map (fun j => nth j ms []) js) pass = Ok m'.
  Proof.
    intros m k n pass e id rnd ms js Hid He Hrnd Hgen Hnd Hjs Hk.
    unfold generate_shares in Hgen.
    destruct (mnemonic_to_bytes sha256 bip39_words m) as [secret|] eqn:Hsec;
      cbn [bind] in Hgen; [|discriminate].
    destruct ((zlen secret * 8 =? 128) || (zlen secret * 8 =? 256)) eqn:Hnb;
      cbn [negb] in Hgen; [|discriminate].
    destruct (encrypt kdf secret id e pass) as [enc|] eqn:Hcr; cbn [bind] in Hgen; [|discriminate].
    destruct (split_secret hmac_sha256 enc k n rnd) as [data|] eqn:Hsplit;
      cbn [bind] in Hgen; [|discriminate].
    assert (Hsok : bytes_ok secret) by (eapply mnemonic_bytes_ok; exact Hsec).
    assert (Hlen : (length secret = 16 \/ length secret = 32)%nat).
    { apply orb_true_iff in Hnb as [H|H]; apply Z.eqb_eq in H; unfold zlen in H; lia. }
    assert (Hbits : zlen secret * 8 = 128 \/ zlen secret * 8 = 256).
    { unfold zlen. destruct Hlen as [-> | ->]; [left | right]; reflexivity. }
    assert (Hent : ent_ok secret).
    { split; [exact Hsok|]. destruct Hlen as [H|H]; rewrite H; cbn [In]; auto 6. }
    assert (kdf_len : forall p s c n r, kdf p s c n = Ok r -> zlen r = n).
    { intros p s c n0 r H. exact (proj1 (kdf_ok _ _ _ _ _ H)). }
    assert (Hzenc : zlen enc = zlen secret).
    { unfold encrypt in Hcr. exact (proj2 (crypt_reverse kdf kdf_len _ _ _ _ _ _ Hcr)). }
    assert (Hencok : bytes_ok enc).
    { unfold encrypt in Hcr. exact (crypt_ok kdf kdf_ok _ _ _ _ _ _ Hsok Hcr). }
    destruct (split_facts hmac_sha256 hmac_ok enc k n rnd data Hencok Hrnd Hsplit)
      as (Hkn & Hn16 & Hmap & Hfa & _).
    set (bits := zlen secret * 8) in *.
    set (sh := sh_of bits id e k n).
    (* every produced text parses back to its share *)
    apply mapM_inv in Hgen.
    assert (HF : Forall2 (fun p txt => share_parse slip39_words txt = Ok (sh p)) data ms).
    { eapply Forall2_impl_in; [|exact Hgen]. intros p txt Hp H. cbv beta in H.
      rewrite Forall_forall in Hfa. destruct (Hfa p Hp) as [Lp Bp].
      destruct (mk_share bits id e (fst p) k n 0 1 (from_be (snd p))) as [s|] eqn:M;
        [|discriminate].
      assert (Es : s = sh p).
      { apply (mk_share_sh_of bits id e k n p s M); [|exact Bp].
        unfold bits. rewrite Z.div_mul by lia. rewrite Lp. unfold zlen in *. lia. }
      assert (Wf : share_wf s) by (exact (mk_share_wf _ _ _ _ _ _ _ _ _ s M Hbits Hid He)).
      destruct (share_text_roundtrip s Wf) as [m0 [A B]].
      assert (A' : share_mnemonic slip39_words s = Ok txt) by exact H.
      rewrite A' in A. apply Ok_inj in A. subst m0. rewrite <- Es. exact B. }
    assert (Lms : length ms = length data) by (symmetry; exact (Forall2_len _ _ _ HF)).
    assert (Ldata : length data = Z.to_nat n).
    { rewrite <- (map_length fst data), Hmap. apply zrange_length. }
    rewrite Forall_forall in Hjs.
    set (sub := map (fun j => nth j data (0, [])) js).
    assert (Hparse : mapM (share_parse slip39_words) (map (fun j => nth j ms []) js)
                     = Ok (map sh sub)).
    { apply mapM_Forall2. unfold sub. rewrite map_map. apply Forall2_map_same.
      intros j Hj. apply (Forall2_nth _ data ms (0, []) [] HF). rewrite <- Lms. now apply Hjs. }
    assert (Hincl : forall p, In p sub -> In p data).
    { intros p Hp. unfold sub in Hp. apply in_map_iff in Hp as [j [<- Hj]].
      apply nth_In. rewrite <- Lms. now apply Hjs. }
    assert (Hfst : map fst sub = map Z.of_nat js).
    { unfold sub. rewrite map_map. apply map_ext_in. intros j Hj.
      change (fst (nth j data (0, []))) with (fst (nth j data (0, @nil Z))).
      rewrite <- (map_nth fst data (0, []) j). cbn [fst]. rewrite Hmap.
      rewrite nth_zrange; [lia|]. rewrite <- Ldata, <- Lms. now apply Hjs. }
    assert (Hsubnd : NoDup (map fst sub)).
    { rewrite Hfst. now apply NoDup_map_of_nat. }
    assert (Lsub : length sub = length js) by (unfold sub; apply map_length).
    assert (Hsubne : sub <> []).
    { intros E. rewrite E in Lsub. cbn [length] in Lsub. lia. }
    pose proof (shareset_init_uniform bits id e k n sub Hsubne Hsubnd ltac:(lia) ltac:(lia)) as Hinit.
    pose proof (recover_uniform hmac_sha256 hmac_ok kdf kdf_ok secret enc k n rnd data id e pass bits
                  (s_shamir ++ to_be 2 id) sub Hencok Hrnd Hcr Hsplit Hincl Hsubnd
                  ltac:(unfold zlen; lia)) as Hrec.
    destruct (bip39_mnemonic_roundtrip sha256 sha_ok secret Hent) as (m' & B1 & B2).
    exists secret, m'. split; [reflexivity|]. split; [exact B1|]. split; [exact B2|].
    split; [congruence|].
    unfold recover_mnemonic. rewrite Hparse. cbn [bind]. fold sh in Hinit. rewrite Hinit. cbn [bind].
    fold sh in Hrec. rewrite Hrec. cbn [bind ss_bits]. unfold bits. rewrite Z.mul_comm. exact B1.
  Qed.
End Pipeline.

Print Assumptions pipeline_recovery.
