(* Proofs/TaprootBytes.v — what a single-byte alteration of a serialized control block does to
   the parsed control block: it changes the parity bit or the leaf version (byte 0), the x-only
   internal key (bytes 1..32; or parse rejects it), or exactly one 32-byte path hash (later bytes).
   This connects ControlBlock.parse to the hypothesis [single_change] of
   Proofs/TaprootTamper.tamper_changes_preimage.  No curve or hash hypotheses. *)
From V Require Import Base.Prelude Base.Ints Model.Helper Model.Script Model.Pecc Model.Taproot
  Proofs.TaprootP Proofs.TaprootTamper.

Lemma parse_xonly_bytes C kb k :
  parse_xonly C kb = Ok k -> bytes_ok kb -> length kb = 32%nat -> xonly k = kb.
Proof.
  unfold parse_xonly. intros H Hok Hl.
  assert (E : to_be 32 (from_be kb) = kb) by (rewrite <- Hl; now apply to_be_from_be).
  destruct (from_be kb =? 0) eqn:E0.
  - assert (k = None) by congruence. subst k. unfold xonly. apply Z.eqb_eq in E0. now rewrite <- E0.
  - destruct (negb (felem_ok C (from_be kb))); [discriminate|].
    destruct (fsqrt C _) as [beta|]; [|discriminate]. cbn [bind] in H.
    unfold mk_point in H.
    destruct (beta mod 2 =? 1).
    + destruct (felem_ok C (cp C - beta)); [|discriminate].
      destruct (on_curve C (from_be kb) (cp C - beta)); [|discriminate].
      assert (k = Some (from_be kb, cp C - beta)) by congruence. subst k. exact E.
    + destruct (on_curve C (from_be kb) beta); [|discriminate].
      assert (k = Some (from_be kb, beta)) by congruence. subst k. exact E.
Qed.

Lemma cb_parse_fields C raw cb :
  cb_parse C raw = Ok cb ->
  exists b0 rest k,
    raw = b0 :: rest /\ zlen raw mod 32 = 1 /\ 33 <= zlen raw /\
    parse_xonly C (firstn 32 rest) = Ok k /\
    cb_version cb = Z.land b0 254 /\ cb_parity cb = Z.land b0 1 /\ cb_key cb = k /\
    cb_hashes cb = chunks32 (Z.to_nat ((zlen raw - 33) / 32)) (skipn 32 rest).
Proof.
  unfold cb_parse. intros H.
  destruct (zlen raw mod 32 =? 1) eqn:E1; [|discriminate]. cbn [negb] in H.
  destruct (zlen raw <? 33) eqn:E2; [discriminate|].
  destruct (33 + 128 * 32 <? zlen raw) eqn:E3; [discriminate|]. cbn [orb] in H.
  destruct raw as [|b0 rest]; [discriminate|].
  destruct (parse_xonly C (firstn 32 rest)) as [k|] eqn:Ek; [|discriminate]. cbn [bind] in H.
  exists b0, rest, k. apply Z.eqb_eq in E1. apply Z.ltb_ge in E2.
  assert (Hcb : cb = {| cb_version := Z.land b0 254; cb_parity := Z.land b0 1; cb_key := k;
                        cb_hashes := chunks32 (Z.to_nat ((zlen (b0 :: rest) - 33) / 32)) (skipn 32 rest) |})
    by congruence.
  subst cb. cbn [cb_version cb_parity cb_key cb_hashes]. repeat split; auto.
Qed.

Lemma chunks_one_differs (x y : Z) : x <> y -> forall m a b,
  length (a ++ x :: b) = (32 * m)%nat ->
  one_differs (chunks32 m (a ++ x :: b)) (chunks32 m (a ++ y :: b)).
Proof.
  intros N. induction m as [|m IH]; intros a b Hl.
  - rewrite app_length in Hl. cbn in Hl. lia.
  - cbn [chunks32].
    destruct (Nat.lt_ge_cases (length a) 32) as [Hlt|Hge].
    + (* the altered byte is in the first chunk *)
      exists [], (firstn 32 (a ++ x :: b)), (firstn 32 (a ++ y :: b)), (chunks32 m (skipn 32 (a ++ x :: b))).
      split; [reflexivity|]. split.
      * cbn [app]. f_equal. f_equal.
        rewrite !skipn_app. rewrite !(skipn_all2 a) by lia. cbn [app].
        replace (32 - length a)%nat with (S (31 - length a)) by lia. reflexivity.
      * rewrite !firstn_app, !(firstn_all2 a) by lia.
        replace (32 - length a)%nat with (S (31 - length a)) by lia. cbn [firstn].
        intros E. apply app_inv_head in E. congruence.
    + (* the first chunk is untouched *)
      assert (E1 : firstn 32 (a ++ x :: b) = firstn 32 (a ++ y :: b)).
      { rewrite !firstn_app. replace (32 - length a)%nat with 0%nat by lia. reflexivity. }
      assert (E2 : forall z, skipn 32 (a ++ z :: b) = skipn 32 a ++ z :: b).
      { intros z. rewrite skipn_app. replace (32 - length a)%nat with 0%nat by lia. reflexivity. }
      rewrite E1, !E2.
      destruct (IH (skipn 32 a) b) as (p & h & h' & q & Ha & Hb & Hn).
      { rewrite <- E2, skipn_length, Hl. lia. }
      exists (firstn 32 (a ++ y :: b) :: p), h, h', q. rewrite Ha, Hb. repeat split; auto.
Qed.

Theorem tamper_byte_classes C raw raw' cb cb' :
  bytes_ok raw -> bytes_ok raw' ->
  cb_parse C raw = Ok cb -> cb_parse C raw' = Ok cb' ->
  one_byte_differs raw raw' ->
  (cb_version cb <> cb_version cb' \/ cb_parity cb <> cb_parity cb') \/
  (cb_version cb = cb_version cb' /\ cb_parity cb = cb_parity cb' /\
   xonly (cb_key cb) <> xonly (cb_key cb') /\ cb_hashes cb = cb_hashes cb') \/
  (cb_version cb = cb_version cb' /\ cb_parity cb = cb_parity cb' /\
   cb_key cb = cb_key cb' /\ one_differs (cb_hashes cb) (cb_hashes cb')).
Proof.
  intros Hok Hok' Hp Hp' (a & x & y & b & Hr & Hr' & N).
  destruct (cb_parse_fields C raw cb Hp) as (b0 & rest & k & E & Hm & Hlen & Hk & Hv & Hpar & Hkey & Hh).
  destruct (cb_parse_fields C raw' cb' Hp') as (b0' & rest' & k' & E' & Hm' & Hlen' & Hk' & Hv' & Hpar' & Hkey' & Hh').
  assert (Hzl : zlen raw' = zlen raw).
  { unfold zlen. rewrite Hr, Hr', !app_length. reflexivity. }
  destruct a as [|a0 a'].
  - (* byte 0 *)
    left. cbn [app] in Hr, Hr'. rewrite Hr in E. rewrite Hr' in E'. inversion E; inversion E'; subst b0 b0'.
    assert (Bx : 0 <= x < 256).
    { rewrite Hr in Hok. inversion Hok; subst. assumption. }
    assert (By : 0 <= y < 256).
    { rewrite Hr' in Hok'. inversion Hok'; subst. assumption. }
    destruct (byte_land x Bx) as [X1 X2]. destruct (byte_land y By) as [Y1 Y2].
    destruct (Z.eq_dec (Z.land x 254) (Z.land y 254)) as [E1|N1]; [|left; congruence].
    destruct (Z.eq_dec (Z.land x 1) (Z.land y 1)) as [E2|N2]; [|right; congruence].
    exfalso. apply N. lia.
  - cbn [app] in Hr, Hr'. rewrite Hr in E. rewrite Hr' in E'. inversion E; inversion E'; subst b0 b0'.
    subst rest rest'. right.
    assert (Hvv : cb_version cb = cb_version cb') by congruence.
    assert (Hpp : cb_parity cb = cb_parity cb') by congruence.
    assert (Lr : (32 <= length (a' ++ x :: b))%nat).
    { unfold zlen in Hlen. rewrite Hr in Hlen. cbn [length] in Hlen. lia. }
    assert (Lr' : length (a' ++ y :: b) = length (a' ++ x :: b)) by (rewrite !app_length; reflexivity).
    destruct (Nat.lt_ge_cases (length a') 32) as [Hlt|Hge].
    + (* a key byte *)
      left. split; [exact Hvv|]. split; [exact Hpp|].
      assert (Okb : forall z l, bytes_ok (a0 :: a' ++ z :: b) -> l = firstn 32 (a' ++ z :: b) -> bytes_ok l).
      { intros z l Hz ->. apply bytes_ok_firstn. inversion Hz; assumption. }
      assert (Kx : xonly k = firstn 32 (a' ++ x :: b)).
      { apply (parse_xonly_bytes C); [exact Hk | |].
        - eapply Okb; [|reflexivity]. rewrite <- Hr. exact Hok.
        - rewrite firstn_length. lia. }
      assert (Ky : xonly k' = firstn 32 (a' ++ y :: b)).
      { apply (parse_xonly_bytes C); [exact Hk' | |].
        - eapply Okb; [|reflexivity]. rewrite <- Hr'. exact Hok'.
        - rewrite firstn_length. lia. }
      split.
      * rewrite Hkey, Hkey', Kx, Ky.
        rewrite !firstn_app, !(firstn_all2 a') by lia.
        replace (32 - length a')%nat with (S (31 - length a')) by lia. cbn [firstn].
        intros E0. apply app_inv_head in E0. congruence.
      * rewrite Hh, Hh', Hzl. f_equal.
        rewrite !skipn_app, !(skipn_all2 a') by lia. cbn [app].
        replace (32 - length a')%nat with (S (31 - length a')) by lia. reflexivity.
    + (* a byte of one path hash *)
      right. split; [exact Hvv|]. split; [exact Hpp|].
      assert (F : firstn 32 (a' ++ x :: b) = firstn 32 (a' ++ y :: b)).
      { rewrite !firstn_app. replace (32 - length a')%nat with 0%nat by lia. reflexivity. }
      split.
      * rewrite Hkey, Hkey'. rewrite F in Hk. congruence.
      * rewrite Hh, Hh', Hzl.
        assert (S2 : forall z, skipn 32 (a' ++ z :: b) = skipn 32 a' ++ z :: b).
        { intros z. rewrite skipn_app. replace (32 - length a')%nat with 0%nat by lia. reflexivity. }
        rewrite !S2. apply chunks_one_differs; [exact N|].
        rewrite <- S2, skipn_length.
        (* length = zlen raw - 33 = 32 * ((zlen raw - 33) / 32) *)
        assert (Hz : zlen raw = Z.of_nat (length (a' ++ x :: b)) + 1).
        { unfold zlen. rewrite Hr. cbn [length]. lia. }
        assert (Hmod : (zlen raw - 33) mod 32 = 0).
        { rewrite Zminus_mod, Hm. reflexivity. }
        pose proof (Z.div_mod (zlen raw - 33) 32 ltac:(lia)) as Hd. rewrite Hmod in Hd.
        assert (0 <= (zlen raw - 33) / 32) by (apply Z.div_pos; lia).
        apply Nat2Z.inj. rewrite Nat2Z.inj_sub by lia. rewrite Nat2Z.inj_mul, Z2Nat.id by lia. lia.
Qed.
