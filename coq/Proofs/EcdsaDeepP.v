(* Proofs/EcdsaDeepP.v — C01 in depth:
     (A) RFC 6979: model = loop transcription = "first acceptable candidate of the DRBG sequence", for every
         HMAC function and every fuel; rejection classes; the fuel only decides WHETHER an answer is given;
     (B) verification algebra: the digest only matters mod n, the malleability twin (r, n - s), the second
         digest -z - 2rd accepted by the same signature, the infinity "public key";
     (C) signing: exact condition under which the emitted signature verifies, s = 0, z and z + n;
     (D) the outer API (Model/EcdsaApi.v): PrivateKey(d).sign(z).der() -> Signature.parse -> verify, the
         message forms, and both arguments from the wire. *)
From Coq Require Import Znumtheory Zdiv Setoid Morphisms.
From V Require Import Base.Prelude Base.Ints Base.Fermat Model.Pecc Model.EcdsaApi Proofs.GroupHyp
  Proofs.BytesP Spec.Ecdsa Spec.Rfc6979 Spec.Rfc6979Seq Proofs.EcdsaP Proofs.EcdsaDerP Proofs.PeccEnc.

Local Existing Instance eqm_setoid.
Local Existing Instance Zplus_eqm.
Local Existing Instance Zmult_eqm.
Local Existing Instance Zminus_eqm.
Local Existing Instance Zopp_eqm.

(* ================================================================== (A) RFC 6979 *)

Section NonceSeq.
Variable q : Z.
Variable hmac : bytes -> bytes -> bytes.

Lemma acceptable_b k : (1 <=? k) && (k <=? q - 1) = true <-> acceptable q k.
Proof. unfold acceptable. rewrite andb_true_iff, !Z.leb_le. tauto. Qed.

Lemma h_cand_S i st : h_cand hmac (S i) st = h_cand hmac i (h_next hmac st).
Proof. reflexivity. Qed.

Lemma first_acceptable_S st i k :
  first_acceptable q hmac st (S i) k <->
  ~ acceptable q (h_cand hmac 0 st) /\ first_acceptable q hmac (h_next hmac st) i k.
Proof.
  unfold first_acceptable. rewrite h_cand_S. split.
  - intros [E [A F]]. split; [apply F; lia|]. split; [assumption|]. split; [assumption|].
    intros j Hj. rewrite <- h_cand_S. apply F. lia.
  - intros [N0 [E [A F]]]. split; [assumption|]. split; [assumption|].
    intros [|j] Hj; [assumption|]. rewrite h_cand_S. apply F. lia.
Qed.

(* the loop transcription returns the first acceptable candidate of the sequence, if it comes within fuel *)
Theorem step_h_first fuel K V k :
  step_h q hmac fuel K V = Some k <-> exists i, (i < fuel)%nat /\ first_acceptable q hmac (K, V) i k.
Proof.
  revert K V. induction fuel as [|f IH]; intros K V.
  - split; [discriminate|]. intros [i [Hi _]]. lia.
  - cbn [step_h].
    destruct ((1 <=? bits2int (hmac K V)) && (bits2int (hmac K V) <=? q - 1)) eqn:Eb.
    + apply acceptable_b in Eb. split.
      * intros [= <-]. exists O. split; [lia|]. split; [reflexivity|]. split; [assumption|]. intros j Hj. lia.
      * intros [[|i] [Hi Hf]].
        -- destruct Hf as [E _]. cbn in E. now rewrite E.
        -- apply first_acceptable_S in Hf as [N0 _]. contradiction.
    + assert (N0 : ~ acceptable q (h_cand hmac 0 (K, V))).
      { intros A. apply acceptable_b in A. cbn in A. rewrite A in Eb. discriminate. }
      rewrite IH. split.
      * intros [i [Hi Hf]]. exists (S i). split; [lia|]. apply first_acceptable_S. now split.
      * intros [[|i] [Hi Hf]].
        -- destruct Hf as [E [A _]]. rewrite <- E in A. contradiction.
        -- exists i. split; [lia|]. now apply first_acceptable_S in Hf as [_ Hf].
Qed.

Theorem step_h_none fuel K V :
  step_h q hmac fuel K V = None <-> forall i, (i < fuel)%nat -> ~ acceptable q (h_cand hmac i (K, V)).
Proof.
  revert K V. induction fuel as [|f IH]; intros K V.
  - split; [intros _ i Hi; lia|reflexivity].
  - cbn [step_h].
    destruct ((1 <=? bits2int (hmac K V)) && (bits2int (hmac K V) <=? q - 1)) eqn:Eb.
    + apply acceptable_b in Eb. split; [discriminate|]. intros F. exfalso. apply (F O); [lia|exact Eb].
    + assert (N0 : ~ acceptable q (h_cand hmac 0 (K, V))).
      { intros A. apply acceptable_b in A. cbn in A. rewrite A in Eb. discriminate. }
      rewrite IH. split.
      * intros F [|i] Hi; [assumption|]. apply (F i). lia.
      * intros F i Hi. apply (F (S i)). lia.
Qed.

(* the two classes of rejected candidates: 0 and >= q (an HMAC output is a byte string) *)
Lemma rejected_classes k : ~ acceptable q k <-> k <= 0 \/ q <= k.
Proof. unfold acceptable. lia. Qed.

Lemma h_cand_nonneg i st : (forall K V, bytes_ok (hmac K V)) -> 0 <= h_cand hmac i st.
Proof.
  intros Hb. unfold h_cand. destruct (h_state hmac i st) as [K V].
  rewrite bits2int_from_be. apply from_be_bound, Hb.
Qed.

Corollary rejected_is_0_or_ge_q i st : (forall K V, bytes_ok (hmac K V)) ->
  ~ acceptable q (h_cand hmac i st) -> h_cand hmac i st = 0 \/ q <= h_cand hmac i st.
Proof. intros Hb H. pose proof (h_cand_nonneg i st Hb). apply rejected_classes in H. lia. Qed.

(* at most one (index, value) is the first acceptable candidate *)
Lemma first_acceptable_unique st i k i' k' :
  first_acceptable q hmac st i k -> first_acceptable q hmac st i' k' -> i = i' /\ k = k'.
Proof.
  intros [E [A F]] [E' [A' F']].
  assert (i = i').
  { destruct (Nat.lt_trichotomy i i') as [H|[H|H]]; [|assumption|].
    - exfalso. apply (F' i H). now rewrite E.
    - exfalso. apply (F i' H). now rewrite E'. }
  subst i'. split; [reflexivity|congruence].
Qed.

(* the executable search of Spec/Rfc6979Seq.v is the first-acceptable relation *)
Lemma seq_search_spec cnt i st j k :
  seq_search q hmac cnt i st = Some (j, k) <->
  (i <= j < i + cnt)%nat /\ h_cand hmac j st = k /\ acceptable q k /\
  forall l, (i <= l < j)%nat -> ~ acceptable q (h_cand hmac l st).
Proof.
  revert i. induction cnt as [|c IH]; intros i.
  - split; [discriminate|]. intros [H _]. lia.
  - cbn [seq_search].
    destruct ((1 <=? h_cand hmac i st) && (h_cand hmac i st <=? q - 1)) eqn:Eb.
    + apply acceptable_b in Eb. split.
      * intros [= <- <-]. split; [lia|]. split; [reflexivity|]. split; [assumption|]. intros l Hl. lia.
      * intros [Hj [E [A F]]].
        destruct (Nat.eq_dec i j) as [->|Hne]; [now rewrite E|].
        exfalso. apply (F i); [lia|assumption].
    + assert (N0 : ~ acceptable q (h_cand hmac i st)).
      { intros A. apply acceptable_b in A. rewrite A in Eb. discriminate. }
      rewrite IH. split.
      * intros [Hj [E [A F]]]. split; [lia|]. split; [assumption|]. split; [assumption|].
        intros l Hl. destruct (Nat.eq_dec l i) as [->|Hne]; [assumption|]. apply F. lia.
      * intros [Hj [E [A F]]].
        assert (i <> j) by (intros ->; rewrite E in N0; contradiction).
        split; [lia|]. split; [assumption|]. split; [assumption|]. intros l Hl. apply F. lia.
Qed.

Theorem seq_search_first fuel st i k :
  seq_search q hmac fuel 0 st = Some (i, k) <-> (i < fuel)%nat /\ first_acceptable q hmac st i k.
Proof.
  rewrite seq_search_spec. unfold first_acceptable. split.
  - intros [Hi [E [A F]]]. split; [lia|]. split; [assumption|]. split; [assumption|].
    intros j Hj. apply F. lia.
  - intros [Hi [E [A F]]]. split; [lia|]. split; [assumption|]. split; [assumption|].
    intros l Hl. apply F. lia.
Qed.

(* loop transcription and sequence form agree on the nonce *)
Theorem rfc6979_seq_eq fuel x h1 k :
  rfc6979_k q hmac fuel x h1 = Some k <-> exists i, rfc6979_seq q hmac fuel x h1 = Some (i, k).
Proof.
  unfold rfc6979_k, generate_from, rfc6979_seq, init_state. rewrite step_h_first. split.
  - intros [i [Hi Hf]]. exists i. apply seq_search_first. now split.
  - intros [i H]. apply seq_search_first in H as [Hi Hf]. now exists i.
Qed.

End NonceSeq.

Section NonceModel.
Variable C : curve.
Variable hmac : bytes -> bytes -> bytes.
Local Notation n := (cn C).

Theorem det_k_loop_first fuel K V k :
  det_k_loop C hmac fuel K V = Ok k <-> exists i, (i < fuel)%nat /\ first_acceptable n hmac (K, V) i k.
Proof.
  rewrite det_k_loop_eq, <- step_h_first. destruct (step_h n hmac fuel K V); cbn [opt_res]; split; congruence.
Qed.

Theorem det_k_loop_err fuel K V :
  det_k_loop C hmac fuel K V = Err <-> forall i, (i < fuel)%nat -> ~ acceptable n (h_cand hmac i (K, V)).
Proof.
  rewrite det_k_loop_eq, <- step_h_none. destruct (step_h n hmac fuel K V); cbn [opt_res]; split; congruence.
Qed.

(* deterministic_k: the first candidate in [1, n-1] of the sequence started by steps b..g from
   int2octets(secret) || int2octets(z mod n) *)
Theorem det_k_first fuel d z k :
  0 < n <= 2 ^ 256 -> 0 <= d < 2 ^ 256 -> 0 <= z < 2 * n ->
  (deterministic_k C hmac fuel d z = Ok k <->
   exists i, (i < fuel)%nat /\
     first_acceptable n hmac (init_state hmac (int2octets d) (int2octets (z mod n))) i k).
Proof.
  intros Hn Hd Hz. rewrite det_k_eq_generate by assumption.
  unfold generate_from, init_state. rewrite <- step_h_first.
  destruct (step_h _ _ _ _ _); cbn [opt_res]; split; congruence.
Qed.

Theorem det_k_exhausted fuel d z :
  0 < n <= 2 ^ 256 -> 0 <= d < 2 ^ 256 -> 0 <= z < 2 * n ->
  (deterministic_k C hmac fuel d z = Err <->
   forall i, (i < fuel)%nat ->
     ~ acceptable n (h_cand hmac i (init_state hmac (int2octets d) (int2octets (z mod n))))).
Proof.
  intros Hn Hd Hz. rewrite det_k_eq_generate by assumption.
  unfold generate_from, init_state. rewrite <- step_h_none.
  destruct (step_h _ _ _ _ _); cbn [opt_res]; split; congruence.
Qed.

(* the fuel never changes an answer: more fuel gives the same nonce (Python's `while True` = any fuel
   large enough) *)
Lemma det_k_loop_fuel_mono fuel fuel' K V k : (fuel <= fuel')%nat ->
  det_k_loop C hmac fuel K V = Ok k -> det_k_loop C hmac fuel' K V = Ok k.
Proof.
  revert fuel' K V. induction fuel as [|f IH]; intros fuel' K V Hle H; [discriminate|].
  destruct fuel' as [|f']; [lia|]. cbn [det_k_loop] in *.
  destruct ((1 <=? from_be (hmac K V)) && (from_be (hmac K V) <? cn C)); [assumption|].
  apply IH; [lia|assumption].
Qed.

Theorem det_k_fuel_mono fuel fuel' d z k : (fuel <= fuel')%nat ->
  deterministic_k C hmac fuel d z = Ok k -> deterministic_k C hmac fuel' d z = Ok k.
Proof.
  intros Hle. unfold deterministic_k.
  destruct (int_to_be _ 32) as [zb|]; cbn [bind]; [|discriminate].
  destruct (int_to_be d 32) as [sb|]; cbn [bind]; [|discriminate].
  now apply det_k_loop_fuel_mono.
Qed.

Corollary det_k_fuel_agree fuel fuel' d z k k' :
  deterministic_k C hmac fuel d z = Ok k -> deterministic_k C hmac fuel' d z = Ok k' -> k = k'.
Proof.
  intros H H'. destruct (Nat.le_ge_cases fuel fuel') as [L|L].
  - apply (det_k_fuel_mono _ _ _ _ _ L) in H. congruence.
  - apply (det_k_fuel_mono _ _ _ _ _ L) in H'. congruence.
Qed.

(* the RFC's own interface: h1 = H(m), a 32-octet string *)
Theorem det_k_of_hash fuel d h1 :
  0 < n <= 2 ^ 256 -> 2 ^ 256 <= 2 * n -> 0 <= d < 2 ^ 256 ->
  length h1 = 32%nat -> bytes_ok h1 ->
  deterministic_k C hmac fuel d (from_be h1) = opt_res (rfc6979_k n hmac fuel d h1).
Proof.
  intros Hn Hn2 Hd Hl Hb.
  pose proof (from_be_bound h1 Hb) as Hr. rewrite Hl, pow256_32 in Hr.
  rewrite det_k_eq_rfc6979 by assumption. now rewrite (to_be_from_be_n 32 h1 Hl Hb).
Qed.

(* z and z - n give the same nonce; with 2^256 <= 2n every digest below 2^256 enters as z mod n *)
Theorem det_k_z_minus_n fuel d z : 0 < n -> n <= z < 2 * n ->
  deterministic_k C hmac fuel d z = deterministic_k C hmac fuel d (z - n).
Proof.
  intros Hn Hz. unfold deterministic_k.
  replace (n <=? z) with true by (symmetry; apply Z.leb_le; lia).
  replace (n <=? z - n) with false by (symmetry; apply Z.leb_gt; lia). reflexivity.
Qed.

End NonceModel.

(* ================================================================== (B) verification algebra *)

(* no group hypothesis: only z mod n matters *)
Theorem verify_z_mod C P z r s : ecdsa_verify C P (z mod cn C) r s = ecdsa_verify C P z r s.
Proof.
  unfold ecdsa_verify.
  destruct (Z.eq_dec (cn C) 0) as [E0|Hn0].
  - rewrite E0. destruct (r <? 1) eqn:E1; cbn [orb]; [reflexivity|].
    apply Z.ltb_ge in E1. replace (0 <=? r) with true by (symmetry; apply Z.leb_le; lia). reflexivity.
  - rewrite Z.mul_mod_idemp_l by assumption. reflexivity.
Qed.

Corollary verify_z_congr C P z z' r s : z mod cn C = z' mod cn C ->
  ecdsa_verify C P z r s = ecdsa_verify C P z' r s.
Proof. intros E. rewrite <- (verify_z_mod C P z), <- (verify_z_mod C P z'), E. reflexivity. Qed.

Corollary verify_z_plus_n C P z r s : ecdsa_verify C P (z + cn C) r s = ecdsa_verify C P z r s.
Proof.
  destruct (Z.eq_dec (cn C) 0) as [E0|Hn0]; [rewrite E0, Z.add_0_r; reflexivity|].
  apply verify_z_congr. rewrite <- (Z.mul_1_l (cn C)) at 1. now apply Z.mod_add.
Qed.

Section Deep.
Variable C : curve.
Hypothesis SL : scalar_laws C.
Local Notation n := (cn C).

Lemma negT_add A B : valid C A -> valid C B ->
  addT C (negT C A) (negT C B) = negT C (addT C A B).
Proof.
  intros HA HB. destruct (sl_add_ok C SL A B HA HB) as [_ HAB].
  rewrite <- (sl_mul_neg1 C SL A HA), <- (sl_mul_neg1 C SL B HB), <- (sl_mul_neg1 C SL _ HAB).
  symmetry. now apply (sl_mul_addT C SL).
Qed.

Lemma negT_x A : match negT C A with None => false | Some (x, _) => true end =
                 match A with None => false | Some (x, _) => true end.
Proof. destruct A as [[x y]|]; reflexivity. Qed.

Lemma ecdsa_point_neg P z r w w' : valid C P -> eqm n w' (- w) ->
  ecdsa_point C P z r w' = negT C (ecdsa_point C P z r w).
Proof.
  intros HP Hw. pose proof (sl_G_valid C SL) as HG. unfold ecdsa_point.
  rewrite !(sl_mul_mod C SL).
  rewrite (mulT_congr C SL (z * w') (- (z * w)) (G C)).
  2:{ rewrite Hw. apply eq_refl_eqm. ring. }
  rewrite (mulT_congr C SL (r * w') (- (r * w)) P).
  2:{ rewrite Hw. apply eq_refl_eqm. ring. }
  rewrite !(mulT_neg C SL) by assumption.
  apply negT_add; apply (mulT_valid C SL); assumption.
Qed.

(* ---- malleability twin: (r, n - s) is accepted exactly when (r, s) is — for EVERY r and s *)
Theorem verify_twin P z r s : valid C P ->
  ecdsa_verify C P z r (n - s) = ecdsa_verify C P z r s.
Proof.
  intros HP. pose proof (n_gt2 C SL) as Hn.
  destruct (Z_lt_ge_dec r 1); [rewrite !verify_out_of_range by lia; reflexivity|].
  destruct (Z_le_gt_dec n r); [rewrite !verify_out_of_range by lia; reflexivity|].
  destruct (Z_lt_ge_dec s 1); [rewrite !verify_out_of_range by lia; reflexivity|].
  destruct (Z_le_gt_dec n s); [rewrite !verify_out_of_range by lia; reflexivity|].
  rewrite !(verify_compute C SL) by (try assumption; lia).
  rewrite (ecdsa_point_neg P z r (modpow s (n - 2) n) (modpow (n - s) (n - 2) n) HP).
  - destruct (ecdsa_point C P z r (modpow s (n - 2) n)) as [[x y]|]; reflexivity.
  - unfold eqm. apply (inv_unique n (n - s)); [lia| |].
    + apply (sinv_ok C SL). lia.
    + replace ((n - s) * - modpow s (n - 2) n) with
        (s * modpow s (n - 2) n + (- modpow s (n - 2) n) * n) by ring.
      rewrite Z.mod_add by lia. apply (sinv_ok C SL). lia.
Qed.

(* exactly one of the twins is low-S (n odd): the emitted one *)
Lemma twin_low_s s : 1 <= s < n -> (s <= (n - 1) / 2 <-> ~ (n - s <= (n - 1) / 2)).
Proof.
  intros Hs. pose proof (n_is_odd C SL) as Hodd.
  assert (Hn2 : n = 2 * (n / 2) + 1) by (rewrite <- Hodd; apply Z_div_mod_eq_full).
  assert (Hh : (n - 1) / 2 = n / 2).
  { replace (n - 1) with ((n / 2) * 2) by lia. apply Z.div_mul. lia. }
  rewrite Hh. lia.
Qed.

(* ---- the public key d*G: R = (u1 + u2 d) G *)
Lemma ecdsa_point_dG d z r w :
  ecdsa_point C (mulT C d (G C)) z r w = mulT C ((z * w) mod n + (r * w) mod n * d) (G C).
Proof.
  pose proof (sl_G_valid C SL) as HG. unfold ecdsa_point.
  rewrite (sl_mul_mul C SL) by assumption. rewrite <- (sl_mul_add C SL) by assumption. reflexivity.
Qed.

(* ---- a second digest accepted by the same (key, r, s): z' = -z - 2 r d (then R' = -R, same x).
   "An altered digest is never accepted" is therefore NOT a theorem of ECDSA; what holds is
   verify_iff_ecdsa.  The harness replays this on the real code. *)
Theorem verify_dup_digest d z r s :
  ecdsa_verify C (mulT C d (G C)) (- z - 2 * r * d) r s = ecdsa_verify C (mulT C d (G C)) z r s.
Proof.
  pose proof (n_gt2 C SL) as Hn. pose proof (sl_G_valid C SL) as HG.
  assert (HQ : valid C (mulT C d (G C))) by now apply (mulT_valid C SL).
  destruct (Z_lt_ge_dec r 1); [rewrite !verify_out_of_range by lia; reflexivity|].
  destruct (Z_le_gt_dec n r); [rewrite !verify_out_of_range by lia; reflexivity|].
  destruct (Z_lt_ge_dec s 1); [rewrite !verify_out_of_range by lia; reflexivity|].
  destruct (Z_le_gt_dec n s); [rewrite !verify_out_of_range by lia; reflexivity|].
  rewrite !(verify_compute C SL) by (try assumption; lia).
  rewrite !ecdsa_point_dG.
  set (w := modpow s (n - 2) n).
  rewrite (mulT_congr C SL (((- z - 2 * r * d) * w) mod n + (r * w) mod n * d)
                           (- ((z * w) mod n + (r * w) mod n * d)) (G C)).
  2:{ rewrite !Zmod_eqm. apply eq_refl_eqm. ring. }
  rewrite (mulT_neg C SL) by assumption.
  destruct (mulT C ((z * w) mod n + (r * w) mod n * d) (G C)) as [[x y]|]; reflexivity.
Qed.

(* ---- the point at infinity as "public key" (S256Point(None, None) can be constructed): R = u1 G, so
   anyone can make an accepted tuple for any digest without any secret.  ecdsa_ok agrees (the textbook
   equation is satisfied); a public key must be validated (Q <> O) by the caller. *)
Theorem verify_infinity_key z s x y :
  1 <= s < n -> mulT C ((z * modpow s (n - 2) n) mod n) (G C) = Some (x, y) -> 1 <= x mod n ->
  ecdsa_verify C None z (x mod n) s = Ok true.
Proof.
  intros Hs HR Hx. pose proof (n_gt2 C SL) as Hn.
  pose proof (Z.mod_pos_bound x n ltac:(lia)) as Hb.
  rewrite (verify_compute C SL) by (try exact I; lia).
  unfold ecdsa_point. rewrite (sl_mul_inf C SL), (sl_add_0_r C SL), HR.
  now rewrite Z.eqb_refl.
Qed.

(* ================================================================== (C) signing *)

(* the emitted pair verifies EXACTLY when it avoids the three cases the code does not retry on *)
Theorem sign_k_verifies_iff d z k r s :
  1 <= d < n -> 1 <= k < n -> ecdsa_sign_k C d z k = Ok (r, s) ->
  (ecdsa_verify C (mulT C d (G C)) z r s = Ok true <-> 1 <= r < n /\ s <> 0).
Proof.
  intros Hd Hk H. split.
  - intros V. apply verify_range in V. lia.
  - intros [Hr Hs]. apply (sign_k_verifies C SL d z k); try assumption; try lia.
    rewrite Z.mod_small; lia.
Qed.

Theorem sign_verifies_iff hmac fuel d z r s :
  1 <= d < n -> ecdsa_sign C hmac fuel d z = Ok (r, s) ->
  (ecdsa_verify C (mulT C d (G C)) z r s = Ok true <-> 1 <= r < n /\ s <> 0).
Proof.
  intros Hd H. unfold ecdsa_sign in H.
  destruct (deterministic_k C hmac fuel d z) as [k|] eqn:Ek; cbn [bind] in H; [|discriminate].
  apply (sign_k_verifies_iff d z k); try assumption. eapply det_k_range; eassumption.
Qed.

(* signing succeeds whenever the nonce derivation does *)
Theorem sign_total_iff hmac fuel d z :
  (exists r s, ecdsa_sign C hmac fuel d z = Ok (r, s)) <->
  (exists k, deterministic_k C hmac fuel d z = Ok k).
Proof.
  unfold ecdsa_sign. split.
  - intros [r [s H]]. destruct (deterministic_k C hmac fuel d z) as [k|]; [now exists k|discriminate].
  - intros [k Ek]. rewrite Ek. cbn [bind]. apply (sign_k_total C SL). eapply det_k_range; eassumption.
Qed.

(* s = 0 happens exactly when z + r d = 0 mod n *)
Theorem sign_k_s_zero_iff d z k r s :
  1 <= k < n -> ecdsa_sign_k C d z k = Ok (r, s) -> (s = 0 <-> (z + r * d) mod n = 0).
Proof.
  intros Hk H. pose proof (n_gt2 C SL) as Hn.
  unfold ecdsa_sign_k in H.
  destruct (rmul C k (G C)) as [[[x y]|]|]; cbn [bind] in H; try discriminate.
  injection H as <- <-.
  set (ki := modpow k (n - 2) n). set (s0 := ((z + x * d) * ki) mod n).
  assert (Hs0 : 0 <= s0 < n) by (apply Z.mod_pos_bound; lia).
  assert (Hki : eqm n (k * ki) 1).
  { unfold eqm. rewrite (Z.mod_small 1 n) by lia. apply fermat_inv_range; [exact (sl_n_prime C SL)|lia]. }
  assert (Hhalf : 0 <= n / 2) by (apply Z.div_pos; lia).
  assert (E1 : (if n / 2 <? s0 then n - s0 else s0) = 0 <-> s0 = 0).
  { destruct (n / 2 <? s0) eqn:E; [apply Z.ltb_lt in E|apply Z.ltb_ge in E]; lia. }
  rewrite E1. split.
  - intros E0.
    assert (Hz : eqm n (z + x * d) (s0 * k)).
    { unfold s0. rewrite Zmod_eqm. transitivity ((z + x * d) * (k * ki)).
      - rewrite Hki. apply eq_refl_eqm. ring.
      - apply eq_refl_eqm. ring. }
    rewrite E0 in Hz. unfold eqm in Hz. rewrite Hz. reflexivity.
  - intros E0. unfold s0. rewrite <- Z.mul_mod_idemp_l by lia. rewrite E0. reflexivity.
Qed.

End Deep.

(* z and z + n give the same signature (no group hypothesis) *)
Theorem sign_k_z_plus_n C d z k : 0 < cn C ->
  ecdsa_sign_k C d (z + cn C) k = ecdsa_sign_k C d z k.
Proof.
  intros Hn. unfold ecdsa_sign_k.
  destruct (rmul C k (G C)) as [[[x y]|]|]; cbn [bind]; try reflexivity.
  replace ((z + cn C + x * d) * modpow k (cn C - 2) (cn C)) with
    ((z + x * d) * modpow k (cn C - 2) (cn C) + modpow k (cn C - 2) (cn C) * cn C) by ring.
  rewrite Z.mod_add by lia. reflexivity.
Qed.

Theorem sign_z_plus_n C hmac fuel d z : 0 < cn C -> 0 <= z < cn C ->
  ecdsa_sign C hmac fuel d (z + cn C) = ecdsa_sign C hmac fuel d z.
Proof.
  intros Hn Hz. unfold ecdsa_sign.
  rewrite (det_k_z_minus_n C hmac fuel d (z + cn C)) by lia.
  replace (z + cn C - cn C) with z by ring.
  destruct (deterministic_k C hmac fuel d z) as [k|]; cbn [bind]; [|reflexivity].
  now apply sign_k_z_plus_n.
Qed.

(* ================================================================== (D) the outer API *)

Section VerifyDer.
Variable C : curve.
Hypothesis SL : scalar_laws C.
Local Notation n := (cn C).

(* ---- what verify_der accepts: exactly the frames around a valid (r, s) — canonical or not *)
Theorem verify_der_iff P z b : valid C P ->
  (verify_der C P z b = Ok true <->
   exists rb sb, b = der_frame rb sb /\ (1 <= length rb)%nat /\ (1 <= length sb)%nat /\
                 ecdsa_ok C P z (from_be rb) (from_be sb)).
Proof.
  intros HP. unfold verify_der. split.
  - destruct (der_parse b) as [[r s]|] eqn:E; cbn [bind]; [|discriminate].
    intros V. apply der_parse_inv in E as [rb [sb [-> [Hr [Hs [-> ->]]]]]].
    exists rb, sb. split; [reflexivity|]. split; [assumption|]. split; [assumption|].
    now apply (verify_iff_ecdsa C SL).
  - intros [rb [sb [-> [Hr [Hs Hok]]]]]. unfold der_frame. rewrite der_parse_build by assumption.
    cbn [bind]. now apply (verify_iff_ecdsa C SL).
Qed.

Theorem verify_der_malformed P z b : der_parse b = Err -> verify_der C P z b = Err.
Proof. intros E. unfold verify_der. now rewrite E. Qed.

(* a superfluous zero octet in front of r or s does not change the answer: the wire form is malleable
   beyond (r, n - s); outside the property (only encoder output is quantified), recorded as a fact *)
Theorem verify_der_accepts_padded P z rb sb :
  (1 <= length rb)%nat -> (1 <= length sb)%nat ->
  verify_der C P z (der_frame (0 :: rb) sb) = verify_der C P z (der_frame rb sb) /\
  verify_der C P z (der_frame rb (0 :: sb)) = verify_der C P z (der_frame rb sb).
Proof.
  intros Hr Hs. unfold verify_der, der_frame.
  rewrite !der_parse_build by (cbn [length]; lia). cbn [bind]. rewrite !from_be_zero_cons. now split.
Qed.

End VerifyDer.

Section ApiP.
Variable C : curve.
Hypothesis SL : scalar_laws C.
Variable hmac : bytes -> bytes -> bytes.
Variable fuel : nat.
Local Notation n := (cn C).

(* ---- PrivateKey.__init__ *)
Lemma pubkey_inv d Q : pubkey C d = Ok Q -> 1 <= d < n /\ Q = mulT C d (G C).
Proof.
  unfold pubkey.
  destruct (n - 1 <? d) eqn:E1; destruct (d <? 1) eqn:E2; cbn [orb]; try discriminate.
  intros H. apply Z.ltb_ge in E1, E2. split; [lia|]. unfold mulT. now rewrite H.
Qed.

Theorem pubkey_ok d : 1 <= d < n ->
  pubkey C d = Ok (mulT C d (G C)) /\ valid C (mulT C d (G C)) /\ mulT C d (G C) <> None.
Proof.
  intros Hd. unfold pubkey.
  replace (n - 1 <? d) with false by (symmetry; apply Z.ltb_ge; lia).
  replace (d <? 1) with false by (symmetry; apply Z.ltb_ge; lia). cbn [orb].
  destruct (sl_mul_ok C SL d (G C) (sl_G_valid C SL)) as [E V].
  split; [assumption|]. split; [assumption|]. now apply (kG_not_inf C SL).
Qed.

Theorem pubkey_err d : d < 1 \/ n <= d -> pubkey C d = Err.
Proof.
  intros H. unfold pubkey.
  destruct (n - 1 <? d) eqn:E1; destruct (d <? 1) eqn:E2; cbn [orb]; try reflexivity.
  apply Z.ltb_ge in E1, E2. lia.
Qed.

Theorem pubkey_ok_iff d : (exists Q, pubkey C d = Ok Q) <-> 1 <= d < n.
Proof.
  split.
  - intros [Q H]. now apply pubkey_inv in H.
  - intros Hd. eexists. apply (pubkey_ok d Hd).
Qed.

(* ---- PrivateKey(d).sign(z): the range check of the constructor, then the model of sign *)
Theorem priv_sign_bad_secret d z : d < 1 \/ n <= d -> priv_sign C hmac fuel d z = Err.
Proof. intros H. unfold priv_sign. now rewrite pubkey_err. Qed.

Theorem priv_sign_eq d z : 1 <= d < n -> priv_sign C hmac fuel d z = ecdsa_sign C hmac fuel d z.
Proof. intros Hd. unfold priv_sign. destruct (pubkey_ok d Hd) as [E _]. now rewrite E. Qed.

Lemma priv_sign_inv d z r s : priv_sign C hmac fuel d z = Ok (r, s) ->
  1 <= d < n /\ ecdsa_sign C hmac fuel d z = Ok (r, s).
Proof.
  unfold priv_sign. destruct (pubkey C d) as [Q|] eqn:E; cbn [bind]; [|discriminate].
  intros H. split; [|assumption]. now apply pubkey_inv in E.
Qed.

(* ---- sign -> der -> parse -> verify, on the functions a user calls *)
Theorem api_sign_der_verify d z r s :
  n <= 2 ^ 256 ->
  priv_sign C hmac fuel d z = Ok (r, s) -> 1 <= r < n -> s <> 0 ->
  exists b,
    sign_der C hmac fuel d z = Ok b /\
    der_parse b = Ok (r, s) /\ der_strict b r s /\ 8 <= zlen b <= 72 /\
    1 <= s <= (n - 1) / 2 /\
    pubkey C d = Ok (mulT C d (G C)) /\
    verify_der C (mulT C d (G C)) z b = Ok true /\
    ecdsa_verify C (mulT C d (G C)) z r s = Ok true.
Proof.
  intros Hn256 H Hr Hs0. pose proof (n_gt2 C SL) as Hn.
  destruct (priv_sign_inv d z r s H) as [Hd Hsig].
  assert (Hlow : 1 <= s <= (n - 1) / 2).
  { apply (sign_low_s C hmac fuel d z r s); try assumption; [apply (n_is_odd C SL)|lia]. }
  assert (Hhalf : (n - 1) / 2 < n) by (apply Z.div_lt_upper_bound; lia).
  destruct (der_roundtrip r s ltac:(lia) ltac:(lia)) as [b [Eb Ep]].
  assert (Hv : ecdsa_verify C (mulT C d (G C)) z r s = Ok true).
  { apply (sign_verifies C SL hmac fuel d z r s); try assumption; try lia. rewrite Z.mod_small; lia. }
  exists b. unfold sign_der. rewrite H. cbn [bind].
  split; [assumption|]. split; [assumption|].
  split; [apply der_image_iff; [lia|lia|assumption]|].
  split; [apply (der_length r s b Eb)|].
  split; [assumption|]. split; [apply (pubkey_ok d Hd)|].
  split; [|assumption]. unfold verify_der. rewrite Ep. cbn [bind]. assumption.
Qed.

(* with s < 2^255 (n <= 2^256 and low S) the encoding has at most 71 bytes *)
Theorem api_sign_der_length d z b :
  n <= 2 ^ 256 -> sign_der C hmac fuel d z = Ok b -> 8 <= zlen b <= 71.
Proof.
  intros Hn256. pose proof (n_gt2 C SL) as Hn. unfold sign_der.
  destruct (priv_sign C hmac fuel d z) as [[r s]|] eqn:H; cbn [bind]; [|discriminate].
  intros Eb. destruct (priv_sign_inv d z r s H) as [Hd Hsig].
  destruct (der_ok_range r s b Eb) as [Hr Hs].
  assert (Hlow : 1 <= s <= (n - 1) / 2).
  { apply (sign_low_s C hmac fuel d z r s); try assumption; [apply (n_is_odd C SL)|lia|lia]. }
  assert (Hs255 : s < 2 ^ 255).
  { assert ((n - 1) / 2 < 2 ^ 255) by (apply Z.div_lt_upper_bound; lia). lia. }
  pose proof (der_length r s b Eb). pose proof (der_length_low_s r s b Eb Hs255). lia.
Qed.

(* ---- message forms *)
Section Msg.
Variable hash256 : bytes -> bytes.

Theorem api_sign_message_verify d m r s :
  n <= 2 ^ 256 ->
  sign_message C hmac hash256 fuel d m = Ok (r, s) -> 1 <= r < n -> s <> 0 ->
  verify_message C hash256 (mulT C d (G C)) m r s = Ok true /\
  exists b, sign_message_der C hmac hash256 fuel d m = Ok b /\
            verify_message_der C hash256 (mulT C d (G C)) m b = Ok true.
Proof.
  intros Hn256 H Hr Hs. unfold sign_message in H.
  destruct (api_sign_der_verify d (msg_digest hash256 m) r s Hn256 H Hr Hs)
    as [b [E1 [_ [_ [_ [_ [_ [E2 E3]]]]]]]].
  split; [exact E3|]. exists b. split; [exact E1|exact E2].
Qed.

(* sign_message signs the RFC 6979 nonce of h1 = hash256(m) itself *)
Theorem sign_message_nonce d m :
  0 < n <= 2 ^ 256 -> 2 ^ 256 <= 2 * n -> 1 <= d < n ->
  length (hash256 m) = 32%nat -> bytes_ok (hash256 m) ->
  sign_message C hmac hash256 fuel d m =
  (k <- opt_res (rfc6979_k n hmac fuel d (hash256 m)) ;; ecdsa_sign_k C d (msg_digest hash256 m) k).
Proof.
  intros Hn Hn2 Hd Hl Hb. unfold sign_message. rewrite priv_sign_eq by assumption.
  unfold ecdsa_sign, msg_digest. rewrite (det_k_of_hash C hmac fuel d (hash256 m)); try assumption.
  - reflexivity.
  - lia.
Qed.

End Msg.

(* ---- both arguments from the wire: SEC public key (either compression) and DER signature *)
Section Wire.
Hypothesis Ha : ca C = 0.
Hypothesis Hp4 : cp C mod 4 = 3.
Hypothesis Hp256 : cp C < pow256 32.

Theorem api_wire_roundtrip d z r s c :
  n <= 2 ^ 256 ->
  priv_sign C hmac fuel d z = Ok (r, s) -> 1 <= r < n -> s <> 0 ->
  exists sb b,
    sec (mulT C d (G C)) c = Ok sb /\ sign_der C hmac fuel d z = Ok b /\
    verify_wire C sb z b = Ok true.
Proof.
  intros Hn256 H Hr Hs.
  destruct (api_sign_der_verify d z r s Hn256 H Hr Hs) as [b [E1 [_ [_ [_ [_ [_ [E2 _]]]]]]]].
  destruct (priv_sign_inv d z r s H) as [Hd _].
  destruct (pubkey_ok d Hd) as [_ [HV HN]].
  destruct (mulT C d (G C)) as [[x y]|] eqn:EQ; [|contradiction].
  assert (Hsec : exists sb, sec (Some (x, y)) c = Ok sb) by (unfold sec; destruct c; eexists; reflexivity).
  destruct Hsec as [sb Esb]. exists sb, b. split; [assumption|]. split; [assumption|].
  unfold verify_wire. rewrite (parse_point_sec C SL Ha Hp4 Hp256 x y c sb HV Esb). cbn [bind]. assumption.
Qed.
End Wire.

End ApiP.

(* ================================================================== (E) verification, explicit cases *)

Section Explicit.
Variable C : curve.
Hypothesis SL : scalar_laws C.
Local Notation n := (cn C).

(* with the inverse the code computes (Fermat) and the three possible shapes of R = u1 G + u2 Q:
   infinity -> False;  x < n -> x = r;  n <= x (possible since p > n) -> x - n = r, and r = x is refused *)
Theorem verify_cases P z r s : valid C P -> 1 <= r < n -> 1 <= s < n ->
  match ecdsa_point C P z r (modpow s (n - 2) n) with
  | None => ecdsa_verify C P z r s = Ok false
  | Some (x, _) =>
      0 <= x /\
      (x < n -> ecdsa_verify C P z r s = Ok (x =? r)) /\
      (n <= x < 2 * n -> ecdsa_verify C P z r s = Ok (x - n =? r) /\
                         ecdsa_verify C P z x s = Ok false)
  end.
Proof.
  intros HP Hr Hs. rewrite (verify_compute C SL) by assumption.
  pose proof (sl_G_valid C SL) as HG.
  assert (HV : valid C (ecdsa_point C P z r (modpow s (n - 2) n))).
  { unfold ecdsa_point. apply (sl_add_ok C SL); now apply (mulT_valid C SL). }
  destruct (ecdsa_point C P z r (modpow s (n - 2) n)) as [[x y]|]; [|reflexivity].
  assert (Hx : 0 <= x).
  { destruct HV as [Vx _]. unfold felem_ok in Vx. apply andb_true_iff in Vx. lia. }
  split; [assumption|]. split.
  - intros Hlt. now rewrite Z.mod_small by lia.
  - intros Hge. split.
    + replace (x mod n) with (x - n); [reflexivity|].
      apply Zmod_unique with 1; lia.
    + apply verify_out_of_range. lia.
Qed.

(* an accepted tuple determines x(R) up to the multiple of n that fits below p *)
Theorem verify_true_x P z r s : valid C P -> ecdsa_verify C P z r s = Ok true ->
  exists x y, ecdsa_point C P z r (modpow s (n - 2) n) = Some (x, y) /\ 0 <= x < cp C /\ x mod n = r.
Proof.
  intros HP V. destruct (verify_range _ _ _ _ _ V) as [Hr Hs].
  rewrite (verify_compute C SL) in V by assumption.
  pose proof (sl_G_valid C SL) as HG.
  assert (HV : valid C (ecdsa_point C P z r (modpow s (n - 2) n))).
  { unfold ecdsa_point. apply (sl_add_ok C SL); now apply (mulT_valid C SL). }
  destruct (ecdsa_point C P z r (modpow s (n - 2) n)) as [[x y]|]; [|discriminate].
  exists x, y. split; [reflexivity|]. split.
  - destruct HV as [Vx _]. unfold felem_ok in Vx. apply andb_true_iff in Vx. lia.
  - injection V as V. now apply Z.eqb_eq.
Qed.

End Explicit.

(* ================================================================== toy parameters for the Examples *)

(* any function is an admissible HMAC / hash instance of the theorems; these two make the retry loop and
   both rejection classes (0 and >= n) occur on the toy curve (n = 31) *)
Definition toy_hmac (k m : bytes) : bytes := to_be 32 ((fold_left Z.add (k ++ m) 7) mod 37).
Definition toy_hash (m : bytes) : bytes := to_be 32 (fold_left Z.add m 3).

(* ================================================================== (F) what one accepted tuple pins down *)

Section Pins.
Variable C : curve.
Hypothesis SL : scalar_laws C.
Local Notation n := (cn C).

Lemma addT_cancel_r A A' B : valid C A -> valid C A' -> valid C B ->
  addT C A B = addT C A' B -> A = A'.
Proof.
  intros HA HA' HB E.
  pose proof (sl_neg_valid C SL B HB) as HnB.
  apply (f_equal (fun X => addT C X (negT C B))) in E.
  rewrite !(sl_add_assoc C SL) in E by assumption.
  rewrite (sl_add_neg C SL B HB), !(sl_add_0_r C SL) in E. exact E.
Qed.

Lemma addT_cancel_l A B B' : valid C A -> valid C B -> valid C B' ->
  addT C A B = addT C A B' -> B = B'.
Proof.
  intros HA HB HB' E.
  rewrite (sl_add_comm C SL A B), (sl_add_comm C SL A B') in E by assumption.
  now apply (addT_cancel_r B B' A).
Qed.

Lemma mulT_G_inj a b : mulT C a (G C) = mulT C b (G C) -> eqm n a b.
Proof.
  intros E. pose proof (sl_G_valid C SL) as HG. pose proof (n_gt2 C SL) as Hn.
  assert (H0 : mulT C (a + - b) (G C) = None).
  { rewrite (sl_mul_add C SL) by assumption. rewrite (mulT_neg C SL) by assumption.
    rewrite E. apply (sl_add_neg C SL). now apply (mulT_valid C SL). }
  apply (sl_G_order C SL) in H0.
  unfold eqm. replace a with ((a + - b) + b) by ring.
  rewrite Zplus_mod, H0, Z.add_0_l, Z.mod_mod by lia. reflexivity.
Qed.

(* same key, same (r, s), same point R: the digests agree mod n.  So a second accepted digest needs a
   DIFFERENT point with the same x mod n (C01_verify_dup_digest exhibits R' = -R) *)
Theorem same_R_same_digest P z z' r s : valid C P -> 1 <= s < n ->
  ecdsa_point C P z r (modpow s (n - 2) n) = ecdsa_point C P z' r (modpow s (n - 2) n) ->
  z mod n = z' mod n.
Proof.
  intros HP Hs E. pose proof (sl_G_valid C SL) as HG. pose proof (n_gt2 C SL) as Hn.
  set (w := modpow s (n - 2) n) in *.
  unfold ecdsa_point in E.
  apply addT_cancel_r in E; try (now apply (mulT_valid C SL)).
  apply mulT_G_inj in E. rewrite !Zmod_eqm in E.
  assert (Hsw : eqm n (s * w) 1).
  { unfold eqm. rewrite (Z.mod_small 1 n) by lia. apply (sinv_ok C SL s Hs). }
  change (eqm n z z').
  transitivity (z * w * s).
  - transitivity (z * (s * w)); [rewrite Hsw|]; apply eq_refl_eqm; ring.
  - rewrite E. transitivity (z' * (s * w)); [|rewrite Hsw]; apply eq_refl_eqm; ring.
Qed.

(* same digest, same (r, s), same point R: the keys are EQUAL (public key recovery is a function of R).
   So a "different key" can be accepted only through another point with the same x mod n *)
Theorem same_R_same_key P P' z r s : valid C P -> valid C P' -> 1 <= r < n -> 1 <= s < n ->
  ecdsa_point C P z r (modpow s (n - 2) n) = ecdsa_point C P' z r (modpow s (n - 2) n) ->
  P = P'.
Proof.
  intros HP HP' Hr Hs E. pose proof (sl_G_valid C SL) as HG. pose proof (n_gt2 C SL) as Hn.
  set (w := modpow s (n - 2) n) in *.
  unfold ecdsa_point in E.
  apply addT_cancel_l in E; try (now apply (mulT_valid C SL)).
  set (v := (r * w) mod n) in *.
  set (t := s * modpow r (n - 2) n).
  assert (Hsw : eqm n (s * w) 1).
  { unfold eqm. rewrite (Z.mod_small 1 n) by lia. apply (sinv_ok C SL s Hs). }
  assert (Hrr : eqm n (r * modpow r (n - 2) n) 1).
  { unfold eqm. rewrite (Z.mod_small 1 n) by lia. apply (sinv_ok C SL r Hr). }
  assert (Htv : eqm n (t * v) 1).
  { unfold v, t. rewrite Zmod_eqm.
    transitivity ((s * w) * (r * modpow r (n - 2) n)); [apply eq_refl_eqm; ring|].
    rewrite Hsw, Hrr. reflexivity. }
  apply (f_equal (mulT C t)) in E.
  rewrite !(sl_mul_mul C SL) in E by assumption.
  rewrite !(mulT_congr C SL (t * v) 1 _ Htv) in E.
  now rewrite !(sl_mul_1 C SL) in E by assumption.
Qed.

(* ---- the emitted signature is the textbook signature for the RFC 6979 nonce of (d, z) *)
Theorem sign_is_drbg_textbook hmac fuel d z r s :
  0 < n <= 2 ^ 256 -> 0 <= d < 2 ^ 256 -> 0 <= z < 2 * n ->
  ecdsa_sign C hmac fuel d z = Ok (r, s) ->
  exists k y w,
    generate_from n hmac fuel (int2octets d) (int2octets (z mod n)) = Some k /\ 1 <= k < n /\
    mulT C k (G C) = Some (r, y) /\ is_inv C k w /\
    s = (let s0 := (w * (z + r * d)) mod n in if (n - 1) / 2 <? s0 then n - s0 else s0).
Proof.
  intros Hn Hd Hz H. unfold ecdsa_sign in H.
  destruct (deterministic_k C hmac fuel d z) as [k|] eqn:Ek; cbn [bind] in H; [|discriminate].
  assert (Hk : 1 <= k < n) by (eapply det_k_range; eassumption).
  rewrite det_k_eq_generate in Ek by assumption.
  destruct (generate_from n hmac fuel (int2octets d) (int2octets (z mod n))) as [k'|] eqn:Er;
    cbn [opt_res] in Ek; [|discriminate].
  injection Ek as ->.
  destruct (sign_k_textbook C SL d z k r s Hk H) as [y [w [E1 [E2 E3]]]].
  exists k, y, w. repeat split; try assumption; try lia; apply E2.
Qed.

Theorem sign_is_rfc6979_textbook hmac fuel d z r s :
  0 < n <= 2 ^ 256 -> 2 ^ 256 <= 2 * n -> 0 <= d < 2 ^ 256 -> 0 <= z < 2 ^ 256 ->
  ecdsa_sign C hmac fuel d z = Ok (r, s) ->
  exists k y w,
    rfc6979_k n hmac fuel d (to_be 32 z) = Some k /\ 1 <= k < n /\
    mulT C k (G C) = Some (r, y) /\ is_inv C k w /\
    s = (let s0 := (w * (z + r * d)) mod n in if (n - 1) / 2 <? s0 then n - s0 else s0).
Proof.
  intros Hn Hn2 Hd Hz H.
  destruct (sign_is_drbg_textbook hmac fuel d z r s Hn Hd ltac:(lia) H) as [k [y [w [E H']]]].
  exists k, y, w. split; [|exact H'].
  unfold rfc6979_k, bits2octets. rewrite bits2int_from_be, from_be_to_be by (rewrite pow256_32; lia).
  exact E.
Qed.

End Pins.

(* outside the representable digest range PrivateKey.sign raises (OverflowError in int_to_big_endian) *)
Theorem sign_bad_digest C hmac fuel d z : 0 < cn C <= 2 ^ 256 -> z < 0 \/ 2 ^ 256 + cn C <= z ->
  ecdsa_sign C hmac fuel d z = Err.
Proof.
  intros Hn Hz. unfold ecdsa_sign. rewrite det_k_err; [reflexivity|lia|tauto|lia].
Qed.
