(* Proofs/PeccObjP.v — the object layer (Model/PeccObj.v): == / != are decidable equality of the
   carried data and negations of each other; operands of two fields / two curves raise; a half-defined
   point is refused by the constructor; and on operands of ONE curve the object layer computes exactly
   the functions of Model/Pecc.v (so every group-law theorem transfers to the generic classes).
   S256Point.__eq__ / __ne__, S256Point.combine. *)
From Coq Require Import ZArith Znumtheory Lia Permutation.
From V Require Import Base.Prelude Base.Ints Base.Fermat Model.Pecc Model.PeccObj Proofs.GroupHyp
  Proofs.ScalarOfGroup.
Open Scope Z_scope.

(* ---------------- == and != ---------------- *)
Theorem ofe_eqb_iff a b : ofe_eqb a b = true <-> a = b.
Proof.
  destruct a as [[x p]|]; destruct b as [[y q]|]; cbn [ofe_eqb]; try (split; congruence).
  rewrite andb_true_iff, !Z.eqb_eq. split; [intros [-> ->]; reflexivity|intros [= -> ->]; auto].
Qed.

Theorem ofe_neb_iff a b : ofe_neb a b = true <-> a <> b.
Proof.
  unfold ofe_neb. rewrite negb_true_iff. rewrite <- ofe_eqb_iff. destruct (ofe_eqb a b); split; congruence.
Qed.

Theorem fe_eqb_iff a b : fe_eqb a b = true <-> a = b.
Proof. unfold fe_eqb. rewrite ofe_eqb_iff. split; congruence. Qed.

Lemma fe_eqb_refl a : fe_eqb a a = true.
Proof. now apply fe_eqb_iff. Qed.

Lemma fe_neb_false_iff a b : fe_neb a b = false <-> a = b.
Proof. unfold fe_neb. rewrite negb_false_iff. apply fe_eqb_iff. Qed.

(* an element never equals None, nor an element of another field *)
Theorem fe_eq_none a : ofe_eqb (Some a) None = false /\ ofe_eqb None (Some a) = false /\
  ofe_neb (Some a) None = true /\ ofe_neb None (Some a) = true.
Proof. destruct a. repeat split. Qed.

Theorem fe_eq_other_field x p y q : p <> q -> fe_eqb (x, p) (y, q) = false /\ fe_neb (x, p) (y, q) = true.
Proof.
  intros H. unfold fe_neb, fe_eqb. cbn [ofe_eqb]. apply Z.eqb_neq in H. rewrite H, andb_false_r. auto.
Qed.

(* + - * / across two fields: TypeError *)
Theorem fe_ops_mixed x p y q : p <> q ->
  fe_add (x, p) (y, q) = Err /\ fe_sub (x, p) (y, q) = Err /\
  fe_mul (x, p) (y, q) = Err /\ fe_div (x, p) (y, q) = Err.
Proof. intros H. apply Z.eqb_neq in H. cbn. rewrite H. auto. Qed.

Lemma gxy_eq P Q : gx P = gx Q -> gy P = gy Q -> gxy P = gxy Q.
Proof.
  unfold gx, gy. destruct (gxy P) as [[x1 y1]|]; destruct (gxy Q) as [[x2 y2]|]; congruence.
Qed.

(* Point.__eq__ is equality of coordinates AND curve; __ne__ is its negation *)
Theorem gp_eqb_iff P Q : gp_eqb P Q = true <-> P = Q.
Proof.
  unfold gp_eqb. rewrite !andb_true_iff, !ofe_eqb_iff, !fe_eqb_iff. split.
  - intros [[[Hx Hy] Hga] Hgb]. pose proof (gxy_eq P Q Hx Hy). destruct P, Q. cbn in *. congruence.
  - intros ->. auto.
Qed.

Theorem gp_neb_iff P Q : gp_neb P Q = true <-> P <> Q.
Proof.
  unfold gp_neb. rewrite negb_true_iff. rewrite <- gp_eqb_iff. destruct (gp_eqb P Q); split; congruence.
Qed.

(* points of two curves are never equal, and adding them raises, infinity operands included *)
Theorem gp_other_curve P Q : ga P <> ga Q \/ gb P <> gb Q ->
  gp_eqb P Q = false /\ gp_neb P Q = true /\ gp_add P Q = Err /\ gp_add Q P = Err.
Proof.
  intros H.
  assert (E : gp_eqb P Q = false).
  { destruct (gp_eqb P Q) eqn:E; [|reflexivity]. apply gp_eqb_iff in E. subst. destruct H; congruence. }
  unfold gp_neb. rewrite E. repeat split; unfold gp_add.
  - assert (F : fe_neb (ga P) (ga Q) || fe_neb (gb P) (gb Q) = true).
    { apply orb_true_iff. unfold fe_neb. rewrite !negb_true_iff.
      destruct H as [H|H]; [left|right]; (destruct (fe_eqb _ _) eqn:F; [apply fe_eqb_iff in F; contradiction|reflexivity]). }
    now rewrite F.
  - assert (F : fe_neb (ga Q) (ga P) || fe_neb (gb Q) (gb P) = true).
    { apply orb_true_iff. unfold fe_neb. rewrite !negb_true_iff.
      destruct H as [H|H]; [left|right]; (destruct (fe_eqb _ _) eqn:F; [apply fe_eqb_iff in F; congruence|reflexivity]). }
    now rewrite F.
Qed.

(* the constructor: exactly one coordinate None is refused, (None, None) is always accepted *)
Theorem gp_mk_half x y a b : gp_mk (Some x) None a b = Err /\ gp_mk None (Some y) a b = Err.
Proof. split; reflexivity. Qed.

Theorem gp_mk_inf a b : gp_mk None None a b = Ok {| gxy := None; ga := a; gb := b |}.
Proof. reflexivity. Qed.

Lemma fe_mk_inv num prime f : fe_mk num prime = Ok f -> f = (num, prime) /\ 0 <= num < prime.
Proof.
  unfold fe_mk. destruct ((prime <=? num) || (num <? 0)) eqn:E; [discriminate|]. intros [= <-].
  apply orb_false_iff in E as [E1 E2]. apply Z.leb_gt in E1. apply Z.ltb_ge in E2. split; [reflexivity|lia].
Qed.

(* a constructed finite point has all four field elements in ONE field *)
Theorem gp_mk_one_field x y a b P : gp_mk (Some x) (Some y) a b = Ok P ->
  P = {| gxy := Some (x, y); ga := a; gb := b |} /\
  snd y = snd x /\ snd a = snd x /\ snd b = snd x.
Proof.
  destruct x as [x p], y as [y q], a as [a pa], b as [b pb]. cbn [gp_mk snd].
  unfold fe_pow. change (0 <=? 2) with true. change (0 <=? 3) with true. cbv iota.
  destruct (fe_mk (modpow y 2 q) q) as [y2|] eqn:E1; [|discriminate]. cbn [bind].
  destruct (fe_mk (modpow x 3 p) p) as [x3|] eqn:E2; [|discriminate]. cbn [bind].
  apply fe_mk_inv in E1 as [-> _]. apply fe_mk_inv in E2 as [-> _].
  unfold fe_mul. destruct (pa =? p) eqn:Ea; cbn [negb]; [apply Z.eqb_eq in Ea; subst pa|discriminate].
  destruct (fe_mk ((a * x) mod p) p) as [ax|] eqn:E3; [|discriminate]. cbn [bind].
  apply fe_mk_inv in E3 as [-> _]. unfold fe_add. rewrite Z.eqb_refl. cbn [negb].
  destruct (fe_mk _ p) as [s|] eqn:E4; [|discriminate]. cbn [bind].
  apply fe_mk_inv in E4 as [-> _].
  destruct (p =? pb) eqn:Eb; cbn [negb]; [apply Z.eqb_eq in Eb; subst pb|discriminate].
  destruct (fe_mk _ p) as [rhs|] eqn:E5; [|discriminate]. cbn [bind].
  apply fe_mk_inv in E5 as [-> _].
  destruct (fe_neb _ _) eqn:E6; [discriminate|]. intros [= <-].
  apply fe_neb_false_iff in E6. injection E6 as _ ->. auto.
Qed.

(* ---------------- refinement: on one curve the object layer IS Model/Pecc.v ---------------- *)
Section Refine.
Variable C : curve.
Let p := cp C.
Hypothesis Hp0 : 0 < p.

Definition inj (P : point) : gpoint :=
  {| gxy := match P with None => None | Some (x, y) => Some ((x, p), (y, p)) end;
     ga := (ca C, p); gb := (cb C, p) |}.

Lemma fe_mk_mod v : fe_mk (v mod p) p = Ok (v mod p, p).
Proof.
  unfold fe_mk. pose proof (Z.mod_pos_bound v p Hp0).
  destruct (p <=? v mod p) eqn:E1; [apply Z.leb_le in E1; lia|].
  destruct (v mod p <? 0) eqn:E2; [apply Z.ltb_lt in E2; lia|]. reflexivity.
Qed.

Lemma fe_mk_modpow b e : 0 <= e -> fe_mk (modpow b e p) p = Ok (modpow b e p, p).
Proof.
  intros He. unfold fe_mk. pose proof (modpow_range b e p He Hp0).
  destruct (p <=? modpow b e p) eqn:E1; [apply Z.leb_le in E1; lia|].
  destruct (modpow b e p <? 0) eqn:E2; [apply Z.ltb_lt in E2; lia|]. reflexivity.
Qed.

Lemma fe_add_same a b : fe_add (a, p) (b, p) = Ok (fadd C a b, p).
Proof. unfold fe_add. rewrite Z.eqb_refl. cbn [negb]. apply fe_mk_mod. Qed.
Lemma fe_sub_same a b : fe_sub (a, p) (b, p) = Ok (fsub C a b, p).
Proof. unfold fe_sub. rewrite Z.eqb_refl. cbn [negb]. apply fe_mk_mod. Qed.
Lemma fe_mul_same a b : fe_mul (a, p) (b, p) = Ok (fmul C a b, p).
Proof. unfold fe_mul. rewrite Z.eqb_refl. cbn [negb]. apply fe_mk_mod. Qed.
Lemma fe_div_same a b : fe_div (a, p) (b, p) = Ok (fdiv C a b, p).
Proof. unfold fe_div. rewrite Z.eqb_refl. cbn [negb]. apply fe_mk_mod. Qed.
Lemma fe_pow_same a e : 0 <= e -> fe_pow (a, p) e = Ok (fpow C a e, p).
Proof.
  intros He. unfold fe_pow, fpow. fold p. apply Z.leb_le in He. rewrite He.
  apply fe_mk_modpow. now apply Z.leb_le.
Qed.
Lemma fe_rmul_same k a : fe_rmul k (a, p) = Ok (fmul C k a, p).
Proof. unfold fe_rmul, fmul. fold p. rewrite (Z.mul_comm a k). apply fe_mk_mod. Qed.

Lemma fe_eqb_same a b : fe_eqb (a, p) (b, p) = (a =? b).
Proof. unfold fe_eqb. cbn [ofe_eqb]. now rewrite Z.eqb_refl, andb_true_r. Qed.
Lemma fe_neb_same a b : fe_neb (a, p) (b, p) = negb (a =? b).
Proof. unfold fe_neb. now rewrite fe_eqb_same. Qed.

(* the constructor with FieldElement arguments of the curve's field is Point.__init__ of Model/Pecc.v *)
Theorem gp_mk_refines x y :
  gp_mk (Some (x, p)) (Some (y, p)) (ca C, p) (cb C, p) = (R <- mk_point C x y ;; Ok (inj R)).
Proof.
  unfold gp_mk. rewrite fe_pow_same by lia. cbn [bind]. rewrite fe_pow_same by lia. cbn [bind].
  rewrite fe_mul_same. cbn [bind]. rewrite fe_add_same. cbn [bind]. rewrite fe_add_same. cbn [bind].
  rewrite fe_neb_same.
  unfold mk_point, on_curve. destruct (_ =? _); reflexivity.
Qed.

Theorem gp_add_refines P Q : gp_add (inj P) (inj Q) = (R <- padd C P Q ;; Ok (inj R)).
Proof.
  unfold gp_add. cbn [inj ga gb gxy]. unfold fe_neb at 1 2. rewrite !fe_eqb_refl. cbn [negb orb].
  destruct P as [[x1 y1]|]; [|reflexivity]. destruct Q as [[x2 y2]|]; [|reflexivity].
  cbn [padd]. rewrite fe_eqb_same, !fe_neb_same.
  destruct ((x1 =? x2) && negb (y1 =? y2)); [reflexivity|].
  destruct (negb (x1 =? x2)).
  - rewrite fe_sub_same. cbn [bind]. rewrite fe_sub_same. cbn [bind]. rewrite fe_div_same. cbn [bind].
    rewrite fe_pow_same by lia. cbn [bind]. rewrite fe_sub_same. cbn [bind].
    rewrite fe_sub_same. cbn [bind]. rewrite fe_sub_same. cbn [bind].
    rewrite fe_mul_same. cbn [bind]. rewrite fe_sub_same. cbn [bind].
    apply gp_mk_refines.
  - rewrite fe_rmul_same. cbn [bind]. rewrite fe_eqb_same.
    unfold fmul at 1. fold p. rewrite Z.mul_0_l, Z.mod_0_l by lia.
    destruct (y1 =? 0); [reflexivity|].
    rewrite fe_pow_same by lia. cbn [bind]. rewrite fe_rmul_same. cbn [bind].
    rewrite fe_add_same. cbn [bind]. rewrite fe_rmul_same. cbn [bind]. rewrite fe_div_same. cbn [bind].
    rewrite fe_pow_same by lia. cbn [bind]. rewrite fe_rmul_same. cbn [bind].
    rewrite fe_sub_same. cbn [bind]. rewrite fe_sub_same. cbn [bind].
    rewrite fe_mul_same. cbn [bind]. rewrite fe_sub_same. cbn [bind].
    apply gp_mk_refines.
Qed.

Lemma gp_rmul_pos_refines q : forall cur res,
  gp_rmul_pos q (inj cur) (inj res) = (R <- rmul_pos C q cur res ;; Ok (inj R)).
Proof.
  induction q as [q IH|q IH|]; intros cur res; cbn [gp_rmul_pos rmul_pos]; rewrite !gp_add_refines.
  - destruct (padd C res cur) as [r'|]; [|reflexivity]. cbn [bind].
    destruct (padd C cur cur) as [c'|]; [|reflexivity]. cbn [bind]. apply IH.
  - destruct (padd C cur cur) as [c'|]; [|reflexivity]. cbn [bind]. apply IH.
  - destruct (padd C res cur) as [r'|]; [|reflexivity]. cbn [bind].
    destruct (padd C cur cur) as [c'|]; reflexivity.
Qed.

Theorem gp_rmul_refines k P : gp_rmul k (inj P) = (R <- rmul_raw C k P ;; Ok (inj R)).
Proof.
  destruct k as [|q|q]; [reflexivity| |reflexivity].
  cbn [gp_rmul rmul_raw]. exact (gp_rmul_pos_refines q P None).
Qed.

Lemma inj_injective P Q : inj P = inj Q -> P = Q.
Proof.
  destruct P as [[x1 y1]|]; destruct Q as [[x2 y2]|]; cbn; intros H; try discriminate; try reflexivity.
  injection H as -> ->. reflexivity.
Qed.

(* == on two points of the curve is equality of the points *)
Theorem gp_eqb_inj P Q : gp_eqb (inj P) (inj Q) = true <-> P = Q.
Proof. rewrite gp_eqb_iff. split; [apply inj_injective|congruence]. Qed.

End Refine.

(* the transfer: every law of Point.__add__ / __rmul__ of Model/Pecc.v holds of the object layer *)
Theorem gp_add_group C : group_laws C -> forall P Q, valid C P -> valid C Q ->
  gp_add (inj C P) (inj C Q) = Ok (inj C (addT C P Q)) /\ valid C (addT C P Q) /\
  gp_add (inj C P) (inj C Q) = gp_add (inj C Q) (inj C P).
Proof.
  intros GL P Q HP HQ. pose proof (gl_p_odd C GL) as Hp.
  assert (Hp0 : 0 < cp C) by lia.
  rewrite !gp_add_refines by assumption.
  destruct (gl_add_ok C GL P Q HP HQ) as [E V]. destruct (gl_add_ok C GL Q P HQ HP) as [E' _].
  rewrite E, E'. cbn [bind]. rewrite (gl_add_comm C GL Q P HQ HP). auto.
Qed.

Theorem gp_rmul_group C : group_laws C -> forall k P, 0 <= k -> valid C P ->
  gp_rmul k (inj C P) = Ok (inj C (smul C (Z.to_nat k) P)).
Proof.
  intros GL k P Hk HP. pose proof (gl_p_odd C GL) as Hp.
  rewrite gp_rmul_refines by lia. now rewrite (rmul_is_iterated_add C GL k P Hk HP).
Qed.

(* ---------------- S256Point.__eq__ / __ne__ ---------------- *)
Theorem s_eqb_iff P Q : s_eqb P Q = true <-> P = Q.
Proof.
  destruct P as [[x1 y1]|]; destruct Q as [[x2 y2]|]; cbn [s_eqb]; try (split; congruence).
  rewrite andb_true_iff, !Z.eqb_eq. split; [intros [-> ->]; reflexivity|intros [= -> ->]; auto].
Qed.

Theorem s_neb_iff P Q : s_neb P Q = true <-> P <> Q.
Proof.
  unfold s_neb. rewrite negb_true_iff. rewrite <- s_eqb_iff. destruct (s_eqb P Q); split; congruence.
Qed.

(* P and -P share x, and are different unless y = 0; a point never equals infinity *)
Theorem s_eqb_neg C x y : 0 < y < cp C -> s_eqb (Some (x, y)) (negT C (Some (x, y))) = false \/ 2 * y = cp C.
Proof.
  intros Hy. cbn [negT s_eqb]. rewrite Z.eqb_refl. cbn [andb].
  replace ((- y) mod cp C) with (cp C - y) by (apply Z.mod_unique with (q := -1); lia).
  destruct (y =? cp C - y) eqn:E; [apply Z.eqb_eq in E; right; lia|now left].
Qed.

(* ---------------- S256Point.combine ---------------- *)
Section Combine.
Variable C : curve.
Hypothesis GL : group_laws C.

Definition gsum (ps : list point) : point := fold_right (addT C) None ps.

Lemma gsum_valid ps : Forall (valid C) ps -> valid C (gsum ps).
Proof.
  induction 1 as [|q r Hq _ IH]; cbn [gsum fold_right]; [exact I|]. now apply (add_valid C GL).
Qed.

Lemma sum_from_ok ps : forall acc, valid C acc -> Forall (valid C) ps ->
  sum_from C acc ps = Ok (addT C acc (gsum ps)).
Proof.
  induction ps as [|q r IH]; intros acc Ha F; cbn [sum_from gsum fold_right].
  - now rewrite (add_0_r C).
  - inversion F as [|? ? Hq Fr]; subst. rewrite (padd_ok C GL acc q Ha Hq). cbn [bind].
    rewrite IH by (auto using (add_valid C GL)). f_equal. fold (gsum r).
    apply (add_assoc C GL); auto using gsum_valid.
Qed.

(* combine(points) never raises on a non-empty list of curve points and is their sum *)
Theorem combine_ok ps : ps <> [] -> Forall (valid C) ps ->
  combine C ps = Ok (gsum ps) /\ valid C (gsum ps).
Proof.
  destruct ps as [|p0 r]; [congruence|]. intros _ F. split; [|now apply gsum_valid].
  inversion F as [|? ? H0 Fr]; subst. cbn [combine]. now apply sum_from_ok.
Qed.

Theorem combine_empty : combine C [] = Err.
Proof. reflexivity. Qed.

Lemma gsum_perm ps qs : Permutation ps qs -> Forall (valid C) ps -> gsum ps = gsum qs.
Proof.
  induction 1 as [|x l l' HP IH|x y l|l l' l'' H1 IH1 H2 IH2]; intros F.
  - reflexivity.
  - inversion F; subst. cbn [gsum fold_right]. f_equal. now apply IH.
  - inversion F as [|? ? Hy F']; subst. inversion F' as [|? ? Hx Fl]; subst.
    cbn [gsum fold_right]. fold (gsum l). pose proof (gsum_valid l Fl) as Hl.
    rewrite <- !(add_assoc C GL) by assumption. f_equal. now apply (add_comm C GL).
  - rewrite IH1 by assumption. apply IH2. eapply Permutation_Forall; eassumption.
Qed.

(* the order of the points does not matter *)
Theorem combine_perm ps qs : Permutation ps qs -> Forall (valid C) ps -> combine C ps = combine C qs.
Proof.
  intros HP F. destruct ps as [|p0 r].
  - apply Permutation_nil in HP. now subst.
  - assert (Hq : qs <> []) by (intros ->; apply Permutation_sym, Permutation_nil in HP; discriminate).
    assert (Fq : Forall (valid C) qs) by (eapply Permutation_Forall; eassumption).
    destruct (combine_ok (p0 :: r) ltac:(discriminate) F) as [E _].
    destruct (combine_ok qs Hq Fq) as [E' _]. rewrite E, E'. f_equal. now apply gsum_perm.
Qed.

End Combine.
