(* Proofs/MerkleRefineGen.v — the cursor machine of MerkleTree.populate_tree
   ([populate_tree]: node table, current depth/index, fuel) equals the recursive
   depth-first traversal ([populate_tree_rec]) for EVERY hash function, every total,
   every flag list and every hash list, error cases included.

   Route: a simulation lemma by induction on the height h = max_depth - depth.  When the
   cursor stands on node (d,i), the whole subtree below (d,i) is still unset and the root
   is unset, then
   * if [traverse n h i bits hs = Ok (v, m, bits', hs')] the loop reaches, after exactly
     k iterations, the state "node (d,i) := Some v, cursor on the parent, proved ++ m",
     having touched only nodes of the subtree; k + 1 = 2 * (number of nodes it set);
   * if [traverse] fails, the loop fails for every amount of fuel.
   The number of nodes ever set is bounded by the size of the table,
   sum_h width n h <= 2 n + max_depth, hence [populate_fuel] suffices. *)
From Coq Require Import ZArith List Bool Lia Arith.
From V Require Import Base.Prelude Base.Ints Model.Merkle Model.MerkleBlock Spec.Bip37
  Proofs.MerkleP Proofs.Bip37P Proofs.MerkleBlockP.
Import ListNotations.
Local Open Scope nat_scope.

(* ------------------------------------------------------------------ *)
(* arithmetic of level widths *)

Lemma pow2_pos h : 1 <= 2 ^ h.
Proof. pose proof (Nat.pow_nonzero 2 h). lia. Qed.

Lemma width_lt_iff n h pos : pos < width n h <-> pos * 2 ^ h < n.
Proof.
  unfold width. pose proof (pow2_pos h) as Hp. set (p := 2 ^ h) in *.
  pose proof (Nat.div_mod (n + p - 1) p ltac:(lia)) as E.
  pose proof (Nat.mod_upper_bound (n + p - 1) p ltac:(lia)) as B.
  set (q := (n + p - 1) / p) in *. set (r := (n + p - 1) mod p) in *.
  split; intros H; nia.
Qed.

Lemma width_child_l n h pos : pos < width n (S h) -> 2 * pos < width n h.
Proof. rewrite !width_lt_iff, Nat.pow_succ_r'. lia. Qed.

Lemma width_pos n h : 1 <= n -> 0 < width n h.
Proof. intros H. apply width_lt_iff. lia. Qed.

Lemma width_0 n : width n 0 = n.
Proof. unfold width. cbn [Nat.pow]. rewrite Nat.div_1_r. lia. Qed.

Lemma width_halve n h : 2 * width n (S h) <= width n h + 1.
Proof.
  destruct (width n (S h)) as [|w] eqn:E; [lia|].
  assert (H : w < width n (S h)) by lia. apply width_child_l in H. lia.
Qed.

(* number of nodes of the levels of height 0..h *)
Fixpoint sumw (n h : nat) : nat :=
  match h with O => width n 0 | S h' => width n (S h') + sumw n h' end.

Lemma sumw_bound n h : sumw n h + width n h <= 2 * n + h.
Proof.
  induction h as [|h IH]; cbn [sumw].
  - rewrite width_0. lia.
  - pose proof (width_halve n h). lia.
Qed.

Lemma list_sum_cons x l : list_sum (x :: l) = x + list_sum l.
Proof. reflexivity. Qed.

Lemma sum_widths n : forall h a,
  list_sum (map (fun d => width n (a + h - d)) (seq a (S h))) = sumw n h.
Proof.
  induction h as [|h IH]; intros a.
  - cbn [seq map list_sum fold_right sumw]. replace (a + 0 - a) with 0 by lia. lia.
  - change (seq a (S (S h))) with (a :: seq (S a) (S h)). cbn [map sumw]. rewrite list_sum_cons.
    replace (a + S h - a) with (S h) by lia. f_equal.
    rewrite <- (IH (S a)). f_equal. apply map_ext. intros d. f_equal. lia.
Qed.

Lemma div2_even i : 2 * i / 2 = i.
Proof. rewrite Nat.mul_comm. apply Nat.div_mul. lia. Qed.

Lemma div2_odd i : (2 * i + 1) / 2 = i.
Proof. symmetry. apply (Nat.div_unique (2 * i + 1) 2 i 1); lia. Qed.

(* (d', j) lies in the subtree hanging below (d, i) *)
Definition in_sub (d i d' j : nat) : Prop :=
  d <= d' /\ i * 2 ^ (d' - d) <= j < (i + 1) * 2 ^ (d' - d).

Lemma in_sub_self d i : in_sub d i d i.
Proof. unfold in_sub. rewrite Nat.sub_diag. cbn [Nat.pow]. lia. Qed.

Lemma in_sub_deeper d c d' j : in_sub (S d) c d' j -> d < d'.
Proof. unfold in_sub. lia. Qed.

Lemma in_sub_child d i c d' j :
  c = 2 * i \/ c = 2 * i + 1 -> in_sub (S d) c d' j -> in_sub d i d' j.
Proof.
  unfold in_sub. intros Hc [Hd Hj]. split; [lia|].
  replace (d' - d) with (S (d' - S d)) by lia. rewrite Nat.pow_succ_r'.
  pose proof (pow2_pos (d' - S d)) as Hp. set (p := 2 ^ (d' - S d)) in *.
  destruct Hc; subst c; nia.
Qed.

Lemma in_sub_disjoint d i d' j :
  in_sub (S d) (2 * i) d' j -> in_sub (S d) (2 * i + 1) d' j -> False.
Proof. unfold in_sub. intros [_ H1] [_ H2]. lia. Qed.

(* ------------------------------------------------------------------ *)
(* lists *)

Lemma nth_error_seq : forall len start k, k < len -> nth_error (seq start len) k = Some (start + k).
Proof.
  induction len as [|len IH]; intros start k Hk; [lia|].
  destruct k as [|k]; cbn [seq nth_error].
  - f_equal; lia.
  - rewrite IH by lia. f_equal; lia.
Qed.

Lemma set_nth_spec {A} (v : A) : forall (l : list A) i, i < length l ->
  exists l', set_nth l i v = Ok l' /\ length l' = length l /\ nth_error l' i = Some v /\
    (forall j, j <> i -> nth_error l' j = nth_error l j) /\
    (forall (g : A -> nat) x, nth_error l i = Some x ->
       list_sum (map g l') + g x = list_sum (map g l) + g v) /\
    (forall (B : Type) (f : A -> B) x, nth_error l i = Some x -> f v = f x -> map f l' = map f l).
Proof.
  induction l as [|a l IH]; intros i Hi; cbn [length] in Hi; [lia|].
  destruct i as [|i].
  - exists (v :: l). cbn [set_nth nth_error length].
    split; [reflexivity|]. split; [reflexivity|]. split; [reflexivity|]. split; [|split].
    + intros [|j] Hj; [lia|reflexivity].
    + intros g x [= <-]. cbn [map]. rewrite !list_sum_cons. lia.
    + intros B f x [= <-] E. cbn [map]. now rewrite E.
  - destruct (IH i ltac:(lia)) as (l' & E & L & N & F & G & M).
    exists (a :: l'). cbn [set_nth]. rewrite E. cbn [bind].
    split; [reflexivity|]. split; [cbn [length]; lia|]. split; [exact N|]. split; [|split].
    + intros [|j] Hj; cbn [nth_error]; [reflexivity|apply F; lia].
    + intros g x Hx. cbn [nth_error] in Hx. cbn [map]. rewrite !list_sum_cons. specialize (G g x Hx). lia.
    + intros B f x Hx Ef. cbn [nth_error] in Hx. cbn [map]. f_equal. eapply M; eauto.
Qed.

(* number of set nodes *)
Definition cnt1 (o : option bytes) : nat := match o with Some _ => 1 | None => 0 end.
Definition cnt (lvl : list (option bytes)) : nat := list_sum (map cnt1 lvl).
Definition count_some (nodes : list (list (option bytes))) : nat := list_sum (map cnt nodes).

Lemma cnt_le lvl : cnt lvl <= length lvl.
Proof.
  unfold cnt. induction lvl as [|o lvl IH]; cbn [map length]; [cbn; lia|].
  rewrite list_sum_cons. destruct o; cbn [cnt1]; lia.
Qed.

Lemma count_some_le nodes : count_some nodes <= list_sum (map (@length (option bytes)) nodes).
Proof.
  unfold count_some. induction nodes as [|lvl nodes IH]; cbn [map]; [cbn; lia|].
  rewrite !list_sum_cons. pose proof (cnt_le lvl). lia.
Qed.

(* ------------------------------------------------------------------ *)
Section Gen.
Variable hash256 : bytes -> bytes.
Variables n md : nat.
Hypothesis Hn : 1 <= n.

Notation table := (list (list (option bytes))).
Notation mk := (Build_mtree md).

(* total reading of the table: out of range reads as "unset" *)
Definition node (nodes : table) (d j : nat) : option bytes :=
  match nth_error nodes d with
  | Some lvl => match nth_error lvl j with Some v => v | None => None end
  | None => None
  end.

(* the table has levels 0..md, level d has width n (md - d) entries *)
Definition shape (nodes : table) : Prop :=
  map (@length (option bytes)) nodes = map (fun d => width n (md - d)) (seq 0 (S md)).

Lemma shape_nth nodes d : shape nodes -> d <= md ->
  exists lvl, nth_error nodes d = Some lvl /\ length lvl = width n (md - d).
Proof.
  intros Hs Hd. destruct (nth_error nodes d) as [lvl|] eqn:E.
  - exists lvl. split; [reflexivity|].
    apply (map_nth_error (@length (option bytes))) in E. rewrite Hs in E.
    assert (E2 : nth_error (seq 0 (S md)) d = Some d) by (rewrite nth_error_seq by lia; reflexivity).
    apply (map_nth_error (fun d => width n (md - d))) in E2. congruence.
  - apply nth_error_None in E. apply (f_equal (@length nat)) in Hs.
    rewrite !map_length, seq_length in Hs. lia.
Qed.

Lemma get_node_ok nodes d j : shape nodes -> d <= md -> j < width n (md - d) ->
  get_node nodes d j = Ok (node nodes d j).
Proof.
  intros Hs Hd Hj. destruct (shape_nth nodes d Hs Hd) as (lvl & E & L).
  unfold get_node, node. rewrite E. destruct (nth_error lvl j) eqn:E2; [reflexivity|].
  apply nth_error_None in E2. lia.
Qed.

Lemma root_get nodes : shape nodes -> get_node nodes 0 0 = Ok (node nodes 0 0).
Proof. intros Hs. apply get_node_ok; [exact Hs|lia|apply width_pos, Hn]. Qed.

Lemma set_node_ok nodes d j v : shape nodes -> d <= md -> j < width n (md - d) ->
  exists nodes', set_node nodes d j v = Ok nodes' /\ shape nodes' /\ node nodes' d j = Some v /\
    (forall d' j', ~ (d' = d /\ j' = j) -> node nodes' d' j' = node nodes d' j') /\
    (node nodes d j = None -> count_some nodes' = count_some nodes + 1).
Proof.
  intros Hs Hd Hj. destruct (shape_nth nodes d Hs Hd) as (lvl & El & Ll).
  destruct (set_nth_spec (Some v) lvl j ltac:(lia)) as (lvl' & E1 & L1 & N1 & F1 & G1 & _).
  assert (Hdl : d < length nodes) by (apply nth_error_Some; congruence).
  destruct (set_nth_spec lvl' nodes d Hdl) as (nodes' & E2 & L2 & N2 & F2 & G2 & M2).
  exists nodes'. unfold set_node. rewrite El, E1. cbn [bind]. rewrite E2.
  split; [reflexivity|]. split; [|split; [|split]].
  - unfold shape. rewrite (M2 _ (@length (option bytes)) lvl El L1). exact Hs.
  - unfold node. rewrite N2, N1. reflexivity.
  - intros d' j' Hne. unfold node. destruct (Nat.eq_dec d' d) as [->|Hdd].
    + rewrite N2, El. rewrite F1; [reflexivity|]. intros ->. apply Hne; auto.
    + rewrite F2 by exact Hdd. reflexivity.
  - intros Hnone. destruct (nth_error lvl j) as [x|] eqn:Ex.
    2:{ apply nth_error_None in Ex. lia. }
    assert (x = None) by (unfold node in Hnone; rewrite El, Ex in Hnone; exact Hnone). subst x.
    pose proof (G1 cnt1 None eq_refl) as C1. pose proof (G2 cnt lvl El) as C2.
    change (cnt lvl' + cnt1 None = cnt lvl + cnt1 (Some v)) in C1. cbn [cnt1] in C1.
    unfold count_some. lia.
Qed.

Lemma set_up_ok nodes d i p0 v p : shape nodes -> d <= md -> i < width n (md - d) ->
  exists nodes', set_up (mk nodes d i p0) v p = Ok (mk nodes' (pred d) (i / 2) p) /\
    shape nodes' /\ node nodes' d i = Some v /\
    (forall d' j', ~ (d' = d /\ j' = i) -> node nodes' d' j' = node nodes d' j') /\
    (node nodes d i = None -> count_some nodes' = count_some nodes + 1).
Proof.
  intros Hs Hd Hi. destruct (set_node_ok nodes d i v Hs Hd Hi) as (nodes' & E & R).
  exists nodes'. unfold set_up. cbn [mt_nodes mt_d mt_i mt_maxd]. rewrite E. cbn [bind].
  split; [reflexivity|exact R].
Qed.

(* ------------------------------------------------------------------ *)
(* fuel monotonicity *)

Lemma loop_mono : forall F t bits hs r,
  populate_loop hash256 F t bits hs = Ok r ->
  forall g, populate_loop hash256 (F + g) t bits hs = Ok r.
Proof.
  induction F as [|F IH]; intros t bits hs r H g; [discriminate H|].
  cbn [plus]. cbn [populate_loop] in *.
  repeat match type of H with
  | context [bind ?x _] => destruct x eqn:?; cbn [bind] in *
  | context [match ?x with _ => _ end] => destruct x eqn:?
  end; try discriminate H; try exact H; eauto.
Qed.

Lemma err_all t bits hs K :
  (forall g, populate_loop hash256 (K + g) t bits hs = Err) ->
  forall F, populate_loop hash256 F t bits hs = Err.
Proof.
  intros H F. destruct (populate_loop hash256 F t bits hs) eqn:E; [|reflexivity].
  apply loop_mono with (g := K) in E. rewrite Nat.add_comm, H in E. discriminate E.
Qed.

(* ------------------------------------------------------------------ *)
(* the simulation *)

Definition sim_post (nodes : table) (d i : nat) (proved : list bytes) (bits : list Z)
  (hs : list bytes) (r : result (bytes * list bytes * list Z * list bytes)) : Prop :=
  match r with
  | Err => forall f, populate_loop hash256 f (mk nodes d i proved) bits hs = Err
  | Ok (v, m, bits', hs') =>
      exists k c nodes',
        shape nodes' /\ node nodes' d i = Some v /\
        (forall d' j, ~ in_sub d i d' j -> node nodes' d' j = node nodes d' j) /\
        count_some nodes' = count_some nodes + c /\ k + 1 = 2 * c /\
        forall f, populate_loop hash256 (k + f) (mk nodes d i proved) bits hs =
                  populate_loop hash256 f (mk nodes' (pred d) (i / 2) (proved ++ m)) bits' hs'
  end.

Ltac step := cbn [populate_loop mt_nodes mt_d mt_i mt_maxd mt_proved go Init.Nat.pred].

Lemma sim : forall h d i nodes proved bits hs,
  d + h = md -> shape nodes -> i < width n h ->
  (forall d' j, in_sub d i d' j -> node nodes d' j = None) ->
  node nodes 0 0 = None ->
  sim_post nodes d i proved bits hs (traverse hash256 n h i bits hs).
Proof.
  induction h as [|h IH]; intros d i nodes proved bits hs Hdh Hs Hi Hsub Hroot.
  - (* leaf *)
    assert (d = md) by lia. subst d. cbn [traverse].
    destruct bits as [|b bits].
    { intros [|f]; [reflexivity|]. step. rewrite (root_get nodes Hs), Hroot. cbn [bind].
      rewrite Nat.eqb_refl. reflexivity. }
    destruct hs as [|x hs].
    { intros [|f]; [reflexivity|]. step. rewrite (root_get nodes Hs), Hroot. cbn [bind].
      rewrite Nat.eqb_refl. reflexivity. }
    assert (Hi' : i < width n (md - md)) by (rewrite Nat.sub_diag; exact Hi).
    destruct (set_up_ok nodes md i proved x
                (if (b =? 1)%Z then proved ++ [rev x] else proved) Hs (le_n _) Hi')
      as (nodes' & Eset & Hs' & Hv & Hfr & Hcnt).
    unfold sim_post. exists 1, 1, nodes'.
    split; [exact Hs'|]. split; [exact Hv|]. split; [|split; [|split]].
    + intros d' j Hnot. apply Hfr. intros [-> ->]. apply Hnot, in_sub_self.
    + apply Hcnt, Hsub, in_sub_self.
    + reflexivity.
    + intros f. cbn [plus]. step. rewrite (root_get nodes Hs), Hroot. cbn [bind].
      rewrite Nat.eqb_refl, Eset. cbn [bind].
      destruct (b =? 1)%Z; [reflexivity|rewrite app_nil_r; reflexivity].
  - (* interior node *)
    assert (Hd : d < md) by lia.
    assert (HeqF : (d =? md) = false) by (apply Nat.eqb_neq; lia).
    assert (Hh : md - S d = h) by lia.
    assert (HwL : 2 * i < width n (md - S d)) by (rewrite Hh; apply width_child_l, Hi).
    assert (HiW : i < width n (md - d)) by (replace (md - d) with (S h) by lia; exact Hi).
    assert (HsubL : forall d' j, in_sub (S d) (2 * i) d' j -> node nodes d' j = None).
    { intros d' j H. apply Hsub. eapply in_sub_child; [left; reflexivity|exact H]. }
    assert (HsubR : forall d' j, in_sub (S d) (2 * i + 1) d' j -> node nodes d' j = None).
    { intros d' j H. apply Hsub. eapply in_sub_child; [right; reflexivity|exact H]. }
    assert (GL : get_node nodes (S d) (2 * i) = Ok None).
    { rewrite (get_node_ok nodes (S d) (2 * i) Hs) by (lia || exact HwL).
      rewrite HsubL by apply in_sub_self. reflexivity. }
    cbn [traverse].
    destruct bits as [|b bits].
    { intros [|f]; [reflexivity|]. step. rewrite (root_get nodes Hs), Hroot. cbn [bind].
      rewrite HeqF, GL. cbn [bind]. reflexivity. }
    destruct (b =? 0)%Z eqn:Eb.
    + (* flag 0: the node's hash is supplied *)
      destruct hs as [|x hs].
      { intros [|f]; [reflexivity|]. step. rewrite (root_get nodes Hs), Hroot. cbn [bind].
        rewrite HeqF, GL. cbn [bind]. rewrite Eb. reflexivity. }
      destruct (set_up_ok nodes d i proved x proved Hs (Nat.lt_le_incl _ _ Hd) HiW)
        as (nodes' & Eset & Hs' & Hv & Hfr & Hcnt).
      unfold sim_post. exists 1, 1, nodes'.
      split; [exact Hs'|]. split; [exact Hv|]. split; [|split; [|split]].
      * intros d' j Hnot. apply Hfr. intros [-> ->]. apply Hnot, in_sub_self.
      * apply Hcnt, Hsub, in_sub_self.
      * reflexivity.
      * intros f. cbn [plus]. step. rewrite (root_get nodes Hs), Hroot. cbn [bind].
        rewrite HeqF, GL. cbn [bind]. rewrite Eb, Eset. cbn [bind].
        rewrite app_nil_r. reflexivity.
    + (* descend: left child first *)
      pose proof (IH (S d) (2 * i) nodes proved bits hs ltac:(lia) Hs
                    ltac:(apply width_child_l, Hi) HsubL Hroot) as HL.
      destruct (traverse hash256 n h (2 * i) bits hs) as [[[[l m1] bits1] hs1]|].
      2:{ cbn [bind]. unfold sim_post in *. intros [|f]; [reflexivity|]. step.
          rewrite (root_get nodes Hs), Hroot. cbn [bind]. rewrite HeqF, GL. cbn [bind].
          rewrite Eb. apply HL. }
      cbn [bind]. unfold sim_post in HL.
      destruct HL as (k1 & c1 & nodes1 & Hs1 & Hv1 & Hfr1 & Hc1 & Hk1 & Hloop1).
      cbn [Init.Nat.pred] in Hloop1. rewrite div2_even in Hloop1.
      assert (Hroot1 : node nodes1 0 0 = None).
      { rewrite Hfr1; [exact Hroot|]. intros H. apply in_sub_deeper in H. lia. }
      assert (GL1 : get_node nodes1 (S d) (2 * i) = Ok (Some l)).
      { rewrite (get_node_ok nodes1 (S d) (2 * i) Hs1) by (lia || exact HwL).
        rewrite Hv1. reflexivity. }
      destruct (shape_nth nodes1 (S d) Hs1 ltac:(lia)) as (lvl1 & Elvl1 & Llvl1).
      rewrite Hh in Llvl1.
      assert (Hself1 : node nodes1 d i = None).
      { rewrite Hfr1; [apply Hsub, in_sub_self|]. intros H. apply in_sub_deeper in H. lia. }
      destruct (2 * i + 1 <? width n h) eqn:Ew.
      * (* a right child exists *)
        apply Nat.ltb_lt in Ew. assert (Ew' := proj2 (Nat.ltb_lt _ _) Ew).
        assert (HwR : 2 * i + 1 < width n (md - S d)) by (rewrite Hh; exact Ew).
        assert (HsubR1 : forall d' j, in_sub (S d) (2 * i + 1) d' j -> node nodes1 d' j = None).
        { intros d' j H. rewrite Hfr1; [apply HsubR, H|].
          intros H2. exact (in_sub_disjoint d i d' j H2 H). }
        assert (GR1 : get_node nodes1 (S d) (2 * i + 1) = Ok None).
        { rewrite (get_node_ok nodes1 (S d) (2 * i + 1) Hs1) by (lia || exact HwR).
          rewrite HsubR1 by apply in_sub_self. reflexivity. }
        pose proof (IH (S d) (2 * i + 1) nodes1 (proved ++ m1) bits1 hs1 ltac:(lia) Hs1
                      Ew HsubR1 Hroot1) as HR.
        destruct (traverse hash256 n h (2 * i + 1) bits1 hs1) as [[[[r m2] bits2] hs2]|].
        2:{ cbn [bind]. unfold sim_post in *.
            apply (err_all _ _ _ (S (k1 + 1))). intros g.
            replace (S (k1 + 1) + g) with (S (k1 + S g)) by lia.
            step. rewrite (root_get nodes Hs), Hroot. cbn [bind]. rewrite HeqF, GL. cbn [bind].
            rewrite Eb, Hloop1. step. rewrite (root_get nodes1 Hs1), Hroot1. cbn [bind].
            rewrite HeqF, GL1. cbn [bind]. rewrite Elvl1, Llvl1, Ew', GR1. cbn [bind].
            apply HR. }
        cbn [bind]. unfold sim_post in HR.
        destruct HR as (k2 & c2 & nodes2 & Hs2 & Hv2 & Hfr2 & Hc2 & Hk2 & Hloop2).
        cbn [Init.Nat.pred] in Hloop2. rewrite div2_odd in Hloop2.
        assert (Hroot2 : node nodes2 0 0 = None).
        { rewrite Hfr2; [exact Hroot1|]. intros H. apply in_sub_deeper in H. lia. }
        assert (GL2 : get_node nodes2 (S d) (2 * i) = Ok (Some l)).
        { rewrite (get_node_ok nodes2 (S d) (2 * i) Hs2) by (lia || exact HwL).
          rewrite Hfr2; [rewrite Hv1; reflexivity|].
          intros H. exact (in_sub_disjoint d i _ _ (in_sub_self _ _) H). }
        assert (GR2 : get_node nodes2 (S d) (2 * i + 1) = Ok (Some r)).
        { rewrite (get_node_ok nodes2 (S d) (2 * i + 1) Hs2) by (lia || exact HwR).
          rewrite Hv2. reflexivity. }
        destruct (shape_nth nodes2 (S d) Hs2 ltac:(lia)) as (lvl2 & Elvl2 & Llvl2).
        rewrite Hh in Llvl2.
        assert (Hself2 : node nodes2 d i = None).
        { rewrite Hfr2; [exact Hself1|]. intros H. apply in_sub_deeper in H. lia. }
        destruct (set_up_ok nodes2 d i ((proved ++ m1) ++ m2) (merkle_parent hash256 l r)
                    ((proved ++ m1) ++ m2) Hs2 (Nat.lt_le_incl _ _ Hd) HiW)
          as (nodes3 & Eset & Hs3 & Hv3 & Hfr3 & Hcnt3).
        unfold sim_post. exists (S (k1 + S (k2 + 1))), (c1 + c2 + 1), nodes3.
        split; [exact Hs3|]. split; [exact Hv3|]. split; [|split; [|split]].
        -- intros d' j Hnot. rewrite Hfr3, Hfr2, Hfr1; [reflexivity| | |].
           ++ intros H. apply Hnot. eapply in_sub_child; [left; reflexivity|exact H].
           ++ intros H. apply Hnot. eapply in_sub_child; [right; reflexivity|exact H].
           ++ intros [-> ->]. apply Hnot, in_sub_self.
        -- rewrite (Hcnt3 Hself2), Hc2, Hc1. lia.
        -- lia.
        -- intros f. replace (S (k1 + S (k2 + 1)) + f) with (S (k1 + S (k2 + S f))) by lia.
           step. rewrite (root_get nodes Hs), Hroot. cbn [bind]. rewrite HeqF, GL. cbn [bind].
           rewrite Eb, Hloop1. step. rewrite (root_get nodes1 Hs1), Hroot1. cbn [bind].
           rewrite HeqF, GL1. cbn [bind]. rewrite Elvl1, Llvl1, Ew', GR1. cbn [bind].
           rewrite Hloop2. step. rewrite (root_get nodes2 Hs2), Hroot2. cbn [bind].
           rewrite HeqF, GL2. cbn [bind]. rewrite Elvl2, Llvl2, Ew', GR2. cbn [bind].
           rewrite Eset. cbn [bind]. rewrite <- app_assoc. reflexivity.
      * (* no right child: the left one is duplicated *)
        destruct (set_up_ok nodes1 d i (proved ++ m1) (merkle_parent hash256 l l)
                    (proved ++ m1) Hs1 (Nat.lt_le_incl _ _ Hd) HiW)
          as (nodes3 & Eset & Hs3 & Hv3 & Hfr3 & Hcnt3).
        unfold sim_post. exists (S (k1 + 1)), (c1 + 1), nodes3.
        split; [exact Hs3|]. split; [exact Hv3|]. split; [|split; [|split]].
        -- intros d' j Hnot. rewrite Hfr3, Hfr1; [reflexivity| |].
           ++ intros H. apply Hnot. eapply in_sub_child; [left; reflexivity|exact H].
           ++ intros [-> ->]. apply Hnot, in_sub_self.
        -- rewrite (Hcnt3 Hself1), Hc1. lia.
        -- lia.
        -- intros f. replace (S (k1 + 1) + f) with (S (k1 + S f)) by lia.
           step. rewrite (root_get nodes Hs), Hroot. cbn [bind]. rewrite HeqF, GL. cbn [bind].
           rewrite Eb, Hloop1. step. rewrite (root_get nodes1 Hs1), Hroot1. cbn [bind].
           rewrite HeqF, GL1. cbn [bind]. rewrite Elvl1, Llvl1, Ew.
           rewrite Eset. cbn [bind]. reflexivity.
Qed.

End Gen.

(* ------------------------------------------------------------------ *)
(* the initial table *)

Lemma node_init (g : nat -> nat) : forall (l : list nat) d j,
  node (map (fun depth => repeat (@None bytes) (g depth)) l) d j = None.
Proof.
  intros l d j. unfold node.
  destruct (nth_error (map (fun depth => repeat (@None bytes) (g depth)) l) d) as [lvl|] eqn:E;
    [|reflexivity].
  assert (Hin : In lvl (map (fun depth => repeat (@None bytes) (g depth)) l))
    by (eapply nth_error_In; eauto).
  apply in_map_iff in Hin as (x & <- & _).
  destruct (nth_error (repeat (@None bytes) (g x)) j) as [o|] eqn:E2; [|reflexivity].
  apply nth_error_In in E2. apply repeat_spec in E2. exact E2.
Qed.

Theorem machine_eq_traversal : forall (hash256 : bytes -> bytes) total bits hs,
  populate_tree hash256 total bits hs = populate_tree_rec hash256 total bits hs.
Proof.
  intros hash256 total bits hs.
  unfold populate_tree, populate_tree_rec, mt_init, populate_fuel.
  destruct (total <? 1)%Z eqn:Et; [reflexivity|]. apply Z.ltb_ge in Et. cbn [bind].
  destruct (all32 hs); [|reflexivity]. cbn [negb].
  set (n := Z.to_nat total). set (md := max_depth total).
  assert (Hn : 1 <= n) by (unfold n; lia).
  set (init := map (fun depth => repeat None (width n (md - depth))) (seq 0 (S md))).
  assert (Hshape : shape n md init).
  { unfold shape, init. rewrite map_map. apply map_ext. intros d. apply repeat_length. }
  assert (Hnone : forall d j, node init d j = None) by (intros d j; apply node_init).
  pose proof (sim hash256 n md Hn md 0 0 init [] bits hs eq_refl Hshape (width_pos n md Hn)
                (fun d' j _ => Hnone d' j) (Hnone 0 0)) as H.
  unfold sim_post in H.
  destruct (traverse hash256 n md 0 bits hs) as [[[[v m] bits'] hs']|].
  - destruct H as (k & c & nodes' & Hs' & Hv & _ & Hc & Hk & Hloop).
    assert (Hfuel : k + 1 <= 3 * (2 * n + md + 1) + 1).
    { pose proof (count_some_le nodes') as H1. rewrite Hs' in H1.
      pose proof (sum_widths n md 0) as H2. cbn [plus] in H2. rewrite H2 in H1.
      pose proof (sumw_bound n md). lia. }
    replace (3 * (2 * n + md + 1) + 1) with (k + S (3 * (2 * n + md + 1) + 1 - k - 1)) by lia.
    rewrite Hloop. cbn [populate_loop mt_nodes]. rewrite (root_get n md Hn nodes' Hs'), Hv.
    cbn [bind]. destruct (leftover_ok bits' hs'); [|reflexivity].
    cbn [mt_nodes mt_proved]. rewrite (root_get n md Hn nodes' Hs'), Hv. cbn [bind app].
    reflexivity.
  - rewrite H. reflexivity.
Qed.

Print Assumptions machine_eq_traversal.

(* ------------------------------------------------------------------ *)
(* consequences: MerkleBlock.is_valid on the faithful machine is is_valid on the traversal,
   hence the BIP37 theorems proved on [mb_is_valid_rec] hold for [mb_is_valid] *)

Lemma mb_is_valid_eq_rec : forall (hash256 : bytes -> bytes) hdr_root total hashes flags,
  mb_is_valid hash256 hdr_root total hashes flags =
  mb_is_valid_rec hash256 hdr_root total hashes flags.
Proof.
  intros. unfold mb_is_valid, mb_is_valid_rec, mb_is_valid_with.
  rewrite machine_eq_traversal. reflexivity.
Qed.

Lemma proof_complete_machine : forall (hash256 : bytes -> bytes),
  (forall x, length (hash256 x) = 32%nat) ->
  forall (ids : list bytes) (matches : list bool),
  ids <> [] -> Forall (fun t => length t = 32%nat) ids -> length matches = length ids ->
  let txids := map (@rev Z) ids in
  let '(total, hashes, flags) := bip37_proof hash256 txids matches in
  total = zlen ids /\
  mb_is_valid hash256 (rev (consensus_root hash256 txids)) total (map (@rev Z) hashes) flags
  = Ok (true, sel ids matches).
Proof.
  intros hash256 HL ids matches Hne Hids Hlen txids.
  pose proof (proof_complete hash256 HL ids matches Hne Hids Hlen) as H. cbv zeta in H. fold txids in H.
  destruct (bip37_proof hash256 txids matches) as [[total hashes] flags].
  rewrite mb_is_valid_eq_rec. exact H.
Qed.

Lemma proof_sound_known_total_machine : forall (hash256 : bytes -> bytes),
  (forall x, length (hash256 x) = 32%nat) ->
  forall (ids : list bytes) hdr_root hashes flags proved,
  ids <> [] -> Forall (fun t => length t = 32%nat) ids ->
  Forall (fun t => length t = 32%nat) hashes ->
  validate_merkle_root hash256 hdr_root ids = Ok true ->
  mb_is_valid hash256 hdr_root (zlen ids) hashes flags = Ok (true, proved) ->
  (forall m, In m proved -> In m ids) \/
  (exists x y : bytes, x <> y /\ hash256 x = hash256 y).
Proof.
  intros hash256 HL ids hdr_root hashes flags proved Hne Hids Hhs HV HP.
  rewrite mb_is_valid_eq_rec in HP.
  exact (proof_sound_known_total hash256 HL ids hdr_root hashes flags proved Hne Hids Hhs HV HP).
Qed.
