(* Proofs/FetcherNetP.v — the fetcher with its network argument (integrity on every network and
   over any call history, when a request is made, the cache is keyed by the id only) and the
   completeness of the text layer: an honest hex response, surrounded by white space, is accepted
   (C04). *)
From Coq Require Import String.
From V Require Import Base.Prelude Base.Ints Base.Disp Model.Helper Model.Script Model.Tx Model.Fetcher
  Model.FetcherNet Model.TxStream Proofs.HelperP Proofs.ScriptP Proofs.TxP Proofs.TxidP Proofs.TxStreamP.
Open Scope string_scope.
Open Scope Z_scope.
Open Scope list_scope.

Section WithHash.
Variable hash256 : bytes -> bytes.

Definition ncache_ok (c : ncache) : Prop :=
  forall id t n, nlookup c id = Some (t, n) -> tx_id hash256 t = Ok id.

Lemma ncache_ok_nil : ncache_ok [].
Proof. intros id t n H. discriminate. Qed.

Lemma ncache_ok_cons c id t n : ncache_ok c -> tx_id hash256 t = Ok id -> ncache_ok ((id, (t, n)) :: c).
Proof.
  intros Hc Ht id' t' n' H. cbn [nlookup] in H. destruct (beq id id') eqn:E.
  - apply beq_eq in E. inversion H. subst. exact Ht.
  - eapply Hc. exact H.
Qed.

(* one call: whatever the response, the network name, the freshness flag and the cache content,
   a transaction that is returned hashes to the requested id and carries the requested network *)
Lemma fetch_net_step_sound c fresh resp id net c' t n u :
  ncache_ok c -> fetch_net_step hash256 c fresh resp id net = (c', Ok (t, n), u) ->
  tx_id hash256 t = Ok id /\ n = net /\ ncache_ok c'.
Proof.
  intros Hc. unfold fetch_net_step.
  destruct (if fresh then None else nlookup c id) as [[t0 n0]|] eqn:El.
  - intros H. inversion H; subst. destruct fresh; [discriminate|].
    assert (tx_id hash256 t = Ok id) as Ht by (eapply Hc; exact El).
    split; [exact Ht|]. split; [reflexivity|]. now apply ncache_ok_cons.
  - destruct (get_url net) as [base|]; [|intros H; inversion H].
    destruct (fetch_text hash256 resp id) as [t0|] eqn:Ef; intros H; inversion H; subst.
    pose proof (fetch_text_sound hash256 _ _ _ Ef) as Ht.
    split; [exact Ht|]. split; [reflexivity|]. now apply ncache_ok_cons.
Qed.

Lemma fetch_net_step_inv c fresh resp id net :
  ncache_ok c -> ncache_ok (fst (fst (fetch_net_step hash256 c fresh resp id net))).
Proof.
  intros Hc. destruct (fetch_net_step hash256 c fresh resp id net) as [[c' [[t n]|]] u] eqn:E; cbn [fst].
  - exact (proj2 (proj2 (fetch_net_step_sound _ _ _ _ _ _ _ _ _ Hc E))).
  - unfold fetch_net_step in E. destruct (if fresh then None else nlookup c id) as [[t0 n0]|]; [inversion E|].
    destruct (get_url net); [|inversion E; subst; exact Hc].
    destruct (fetch_text hash256 resp id); inversion E. subst. exact Hc.
Qed.

(* any history of calls on any networks *)
Lemma fetch_net_run_sound ops : forall c,
  ncache_ok c ->
  Forall2 (fun op o => forall t n, fst o = Ok (t, n) ->
             tx_id hash256 t = Ok (snd (fst op)) /\ n = snd op)
          ops (fetch_net_run hash256 c ops).
Proof.
  induction ops as [|[[[fresh resp] id] net] r IH]; intros c Hc; cbn [fetch_net_run]; [constructor|].
  destruct (fetch_net_step hash256 c fresh resp id net) as [[c' o] u] eqn:E. constructor.
  - cbn [fst snd]. intros t n ->.
    destruct (fetch_net_step_sound _ _ _ _ _ _ _ _ _ Hc E) as [A [B _]]. split; assumption.
  - apply IH. pose proof (fetch_net_step_inv c fresh resp id net Hc) as H. now rewrite E in H.
Qed.

(* an unknown network is refused before any request, and nothing is cached — unless the id is
   already cached and the call is not fresh *)
Lemma fetch_net_unknown c fresh resp id net :
  get_url net = Err -> fresh = true \/ nlookup c id = None ->
  fetch_net_step hash256 c fresh resp id net = (c, Err, None).
Proof.
  intros U M. unfold fetch_net_step.
  assert ((if fresh then None else nlookup c id) = None) as -> by (destruct M as [->| ->]; [reflexivity|now destruct fresh]).
  now rewrite U.
Qed.

(* the cache is keyed by the id only: once an id is cached, a non-fresh call for it on ANY
   network name (served or not) returns the cached transaction without a request, relabelled *)
Lemma fetch_net_hit c resp id net t n0 :
  nlookup c id = Some (t, n0) ->
  fetch_net_step hash256 c false resp id net = ((id, (t, net)) :: c, Ok (t, net), None).
Proof. intros H. unfold fetch_net_step. now rewrite H. Qed.

(* a miss or a fresh call on a served network requests exactly base/tx/<id>/hex and returns what
   the integrity check of fetch_text returns *)
Lemma fetch_net_miss c fresh resp id net base :
  get_url net = Ok base -> fresh = true \/ nlookup c id = None ->
  fetch_net_step hash256 c fresh resp id net =
  match fetch_text hash256 resp id with
  | Ok t => ((id, (t, net)) :: c, Ok (t, net), Some (fetch_url base id))
  | Err => (c, Err, Some (fetch_url base id))
  end.
Proof.
  intros U M. unfold fetch_net_step.
  assert ((if fresh then None else nlookup c id) = None) as -> by (destruct M as [->| ->]; [reflexivity|now destruct fresh]).
  now rewrite U.
Qed.
Lemma py_index_in {A} (l : list A) i x : py_index l i = Ok x -> In x l.
Proof.
  unfold py_index. destruct ((_ <? 0) || (_ <=? _)); [discriminate|].
  destruct (nth_error l _) eqn:E; [|discriminate]. intros [= <-]. eapply nth_error_In; exact E.
Qed.

(* the output an input's value()/script_pubkey() is read from belongs to a transaction whose
   textual id is the hex of the input's prev_tx — whatever the server answered and whatever was
   cached before *)
Lemma txin_prevout_sound c i net resp c' o u :
  ncache_ok c -> txin_prevout hash256 c i net resp = (c', Ok o, u) ->
  exists t, tx_id hash256 t = Ok (hexlify (i_prev_tx i)) /\
            py_index (t_outs t) (i_prev_index i) = Ok o /\ In o (t_outs t) /\ ncache_ok c'.
Proof.
  intros Hc. unfold txin_prevout.
  destruct (fetch_net_step hash256 c false resp (hexlify (i_prev_tx i)) net) as [[c1 r] u1] eqn:E.
  intros H. assert (c1 = c') as -> by congruence. assert (u1 = u) as -> by congruence.
  assert (('(t, _) <- r ;; py_index (t_outs t) (i_prev_index i)) = Ok o) as H2 by congruence. clear H.
  destruct r as [[t n]|]; cbn [bind] in H2; [|discriminate].
  destruct (fetch_net_step_sound _ _ _ _ _ _ _ _ _ Hc E) as [A [_ B]].
  exists t. split; [exact A|]. split; [exact H2|]. split; [eapply py_index_in; exact H2|exact B].
Qed.
End WithHash.

Lemma get_url_served net base :
  get_url net = Ok base <->
  (net = s2z "mainnet" /\ base = s2z "https://blockstream.info/api") \/
  (net = s2z "testnet" /\ base = s2z "https://blockstream.info/testnet/api") \/
  (net = s2z "signet" /\ base = s2z "https://mempool.space/signet/api").
Proof.
  unfold get_url. split.
  - destruct (beq net (s2z "mainnet")) eqn:E1; [apply beq_eq in E1; intros [= <-]; auto|].
    destruct (beq net (s2z "testnet")) eqn:E2; [apply beq_eq in E2; intros [= <-]; auto|].
    destruct (beq net (s2z "signet")) eqn:E3; [apply beq_eq in E3; intros [= <-]; auto 6|discriminate].
  - intros [[-> ->]|[[-> ->]|[-> ->]]]; reflexivity.
Qed.

(* ================= the text layer on an honest response ================= *)
Lemma utf8_ascii l : Forall (fun c => c < 128) l -> utf8_decode l = Ok l.
Proof.
  induction 1 as [|c r Hc _ IH]; [reflexivity|]. cbn [utf8_decode].
  replace (c <? 128) with true by (symmetry; apply Z.ltb_lt; lia). now rewrite IH.
Qed.

Lemma lstrip_spaces ws x : Forall (fun c => uspace c = true) ws -> lstrip (ws ++ x) = lstrip x.
Proof. induction 1 as [|c r Hc _ IH]; [reflexivity|]. cbn [app lstrip]. now rewrite Hc. Qed.

Lemma lstrip_nonspace x : Forall (fun c => uspace c = false) x -> lstrip x = x.
Proof. intros F. destruct F as [|c r Hc _]; [reflexivity|]. cbn [lstrip]. now rewrite Hc. Qed.

Lemma strip_core ws1 core ws2 :
  Forall (fun c => uspace c = true) ws1 -> Forall (fun c => uspace c = true) ws2 ->
  Forall (fun c => uspace c = false) core -> strip (ws1 ++ core ++ ws2) = core.
Proof.
  intros F1 F2 Fc. unfold strip. rewrite lstrip_spaces by exact F1.
  destruct core as [|c k].
  - cbn [app]. rewrite <- (app_nil_r ws2), lstrip_spaces by exact F2. reflexivity.
  - assert (lstrip ((c :: k) ++ ws2) = (c :: k) ++ ws2) as ->.
    { inversion Fc as [|? ? Hc _]; subst. cbn [app lstrip]. now rewrite Hc. }
    rewrite rev_app_distr, lstrip_spaces by (now apply Forall_rev).
    rewrite lstrip_nonspace by (now apply Forall_rev). apply rev_involutive.
Qed.

Lemma hexdig_char x : 0 <= x < 16 -> hexdig x < 128 /\ uspace (hexdig x) = false.
Proof.
  intros H.
  assert (x = 0 \/ x = 1 \/ x = 2 \/ x = 3 \/ x = 4 \/ x = 5 \/ x = 6 \/ x = 7 \/ x = 8 \/ x = 9 \/
          x = 10 \/ x = 11 \/ x = 12 \/ x = 13 \/ x = 14 \/ x = 15) as C by lia.
  repeat (destruct C as [->|C]; [split; [reflexivity|reflexivity]|]). subst x. split; reflexivity.
Qed.

Lemma hexlify_chars b :
  bytes_ok b -> Forall (fun c => c < 128) (hexlify b) /\ Forall (fun c => uspace c = false) (hexlify b).
Proof.
  induction 1 as [|x r Hx _ [IH1 IH2]]; [split; constructor|].
  unfold hexlify. cbn [flat_map app]. fold (hexlify r). unfold byte_ok in Hx.
  assert (0 <= x / 16 < 16) as H1 by (split; [apply Z.div_pos; lia|apply Z.div_lt_upper_bound; lia]).
  assert (0 <= x mod 16 < 16) as H2 by (apply Z.mod_pos_bound; lia).
  destruct (hexdig_char _ H1) as [A1 B1]. destruct (hexdig_char _ H2) as [A2 B2].
  split; repeat constructor; assumption.
Qed.

(* white space that both str.strip (on the decoded text) and the UTF-8 decoder see as one ASCII
   character: \t \n \v \f \r, 0x1c..0x1f, space *)
Definition ascii_space (c : Z) : Prop := 9 <= c <= 13 \/ 28 <= c <= 32.

Lemma ascii_space_ok ws :
  Forall ascii_space ws -> Forall (fun c => c < 128) ws /\ Forall (fun c => uspace c = true) ws.
Proof.
  induction 1 as [|c r Hc _ [IH1 IH2]]; [split; constructor|].
  split; constructor; try assumption; [destruct Hc; lia|].
  unfold uspace, inr. destruct Hc as [Hc|Hc].
  - replace ((9 <=? c) && (c <=? 13)) with true by (symmetry; apply andb_true_iff; lia). reflexivity.
  - replace ((28 <=? c) && (c <=? 32)) with true by (symmetry; apply andb_true_iff; lia).
    now rewrite orb_true_r.
Qed.

(* TxFetcher.fetch on an honest server: the hex of the serialisation of a well-formed transaction,
   optionally surrounded by ASCII white space (blockstream sends a trailing newline or not), under
   the textual id of that transaction, is accepted and yields the transaction *)
Lemma fetch_text_complete (hash256 : bytes -> bytes) t b h ws1 ws2 :
  tx_wfb t = true -> t_segwit t = true \/ t_ins t <> [] ->
  tx_serialize t = Ok b -> bytes_ok b -> tx_hash hash256 t = Ok h ->
  Forall ascii_space ws1 -> Forall ascii_space ws2 ->
  fetch_text hash256 (ws1 ++ hexlify b ++ ws2) (hexlify h) = Ok (canon_tx t).
Proof.
  intros W Z Hb Bok Hh F1 F2.
  destruct (ascii_space_ok ws1 F1) as [A1 S1]. destruct (ascii_space_ok ws2 F2) as [A2 S2].
  destruct (hexlify_chars b Bok) as [Ah Sh].
  unfold fetch_text. rewrite utf8_ascii by (apply Forall_app; split; [|apply Forall_app; split]; assumption).
  cbn [bind]. rewrite strip_core by assumption. rewrite fromhex_hexlify by exact Bok. cbn [bind].
  destruct (tx_roundtrip t W Z) as [b' [Hb' Hp]]. rewrite Hb in Hb'. inversion Hb'; subst b'.
  specialize (Hp []). rewrite app_nil_r in Hp. rewrite Hp. cbn [bind].
  unfold tx_id, tx_hash in *. rewrite serialize_legacy_canon by exact W.
  apply bind_ok in Hh as [l [Hl Hh]]. rewrite Hl. cbn [bind]. inversion Hh. now rewrite beq_refl.
Qed.
