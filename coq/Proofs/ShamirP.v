(* Proofs/ShamirP.v — ShareSet.interpolate is Lagrange interpolation over GF(256), byte by
   byte (interp_core_gf), hence: every share produced by split_secret lies on the
   polynomial fixed by the random shares, the digest share (x = 254) and the secret
   (x = 255), and any k or more distinct shares recover the secret and pass the digest
   check (threshold_recovery).  Uses the abstract Lagrange theorems (LagrangeP.v)
   instantiated with the field of Gf256P.v. *)
From Coq Require Import Field_theory.
From V Require Import Base.Prelude Base.Ints Model.Mnemonic Model.Shamir
  Proofs.LagrangeDefs Proofs.LagrangeP Proofs.Gf256Sweep Proofs.Gf256P Proofs.ShamirInterpP.

Notation ginterp := (interp gf gf0 gf1 gfadd gfmul gfsub gfdiv).
Notation glcoef := (lcoef gf gf1 gfmul gfsub gfdiv).
Notation gfprod := (fprod gf gf1 gfmul).
Notation gfsum := (fsum gf gf0 gfadd).

(* ---------------------------------------------------------------- small algebra *)

Lemma zsum_app a b : zsum (a ++ b) = zsum a + zsum b.
Proof.
  induction a as [|x a IH]; [cbn [app]; unfold zsum at 2; cbn; lia|].
  cbn [app]. rewrite !zsum_cons, IH. lia.
Qed.

Lemma zsum_pick (f : Z * bytes -> Z) l1 p l2 :
  zsum (map f (l1 ++ p :: l2)) = f p + zsum (map f (l1 ++ l2)).
Proof. rewrite !map_app, !zsum_app. cbn [map]. rewrite zsum_cons. lia. Qed.

Lemma fold_left_xor (g : Z * bytes -> Z) l : forall acc,
  fold_left (fun a p => Z.lxor a (g p)) l acc = Z.lxor acc (fold_right Z.lxor 0 (map g l)).
Proof.
  induction l as [|p l IH]; intros acc; cbn [fold_left map fold_right].
  - now rewrite Z.lxor_0_r.
  - rewrite IH. now rewrite Z.lxor_assoc.
Qed.

Lemma gfz_fsum l : gfz (gfsum l) = fold_right Z.lxor 0 (map gfz l).
Proof.
  induction l as [|a l IH]; cbn [fsum fold_right map]; [apply gfz_0|].
  change (fold_right gfadd gf0 l) with (gfsum l). now rewrite gfz_add, IH.
Qed.

Lemma gfz_fprod l : gfz (gfprod l) = fold_right gmulZ 1 (map gfz l).
Proof.
  induction l as [|a l IH]; cbn [fprod fold_right map]; [apply gfz_1|].
  change (fold_right gfmul gf1 l) with (gfprod l). now rewrite gfz_mul, IH.
Qed.

(* the table expression of interpolate's inner generator is the field product *)
Lemma term_eq s y : 0 <= y < 256 ->
  (if y >? 0 then gexp ((glog y + s mod 255) mod 255) else 0) = gmulZ y (gexp (s mod 255)).
Proof.
  intros Hy. destruct (y >? 0) eqn:E.
  - assert (Hy' : 1 <= y < 256) by lia. destruct (exp_log_inverse y Hy') as [H1 H2].
    rewrite gexp_add. rewrite (Z.mod_small (glog y)) by lia. rewrite H1.
    now rewrite Z.mod_mod by lia.
  - assert (y = 0) as -> by lia. now rewrite gmulZ_0_l.
Qed.

Lemma lxor_nonzero a b : a <> b -> Z.lxor a b <> 0.
Proof. intros H E. apply Z.lxor_eq in E. contradiction. Qed.

(* ---------------------------------------------------------------- the coefficient *)

Definition node_ok (p : Z * bytes) : Prop := 0 <= fst p < 256 /\ bytes_ok (snd p).

(* for the share p at some position of sd, with rest = the other shares: the exponent
   computed by interpolate denotes prod (x_j ^ x) / prod (x_p ^ x_j) over the others *)
Lemma coef_eq x sd p rest :
  0 <= x < 256 -> Forall node_ok sd -> NoDup (map fst sd) -> ~ In x (map fst sd) ->
  In (p, rest) (picks sd) ->
  gexp (interp_log x sd (fst p)) =
  gdivZ (fold_right gmulZ 1 (map (fun q => Z.lxor (fst q) x) rest))
        (fold_right gmulZ 1 (map (fun q => Z.lxor (fst p) (fst q)) rest)).
Proof.
  intros Hx Hok Hnd Hnx Hin.
  apply picks_In in Hin. destruct Hin as [l1 [l2 [E1 E2]]]. subst sd rest.
  unfold interp_log.
  rewrite (zsum_pick (fun q => glog (Z.lxor (fst q) x))).
  rewrite (zsum_pick (fun q => glog (Z.lxor (fst p) (fst q)))).
  rewrite Z.lxor_nilpotent, glog_0.
  replace (glog (Z.lxor (fst p) x) + zsum (map (fun q => glog (Z.lxor (fst q) x)) (l1 ++ l2))
           - glog (Z.lxor (fst p) x))
    with (zsum (map (fun q => glog (Z.lxor (fst q) x)) (l1 ++ l2))) by lia.
  rewrite Z.add_0_l. rewrite gexp_sub.
  assert (In_sd : forall q, In q (l1 ++ l2) -> In q (l1 ++ p :: l2)).
  { intros q Hq. apply in_app_or in Hq. apply in_or_app. destruct Hq; [now left | right; now right]. }
  assert (Rng : forall q, In q (l1 ++ p :: l2) -> 0 <= fst q < 256).
  { intros q Hq. rewrite Forall_forall in Hok. exact (proj1 (Hok q Hq)). }
  assert (Hp : 0 <= fst p < 256) by (apply Rng, in_or_app; right; now left).
  f_equal.
  - replace (map (fun q : Z * bytes => glog (Z.lxor (fst q) x)) (l1 ++ l2))
      with (map glog (map (fun q : Z * bytes => Z.lxor (fst q) x) (l1 ++ l2))) by (now rewrite map_map).
    apply gexp_sum_logs.
    apply Forall_forall. intros d Hd. apply in_map_iff in Hd as [q [<- Hq]].
    pose proof (lxor_byte (fst q) x (Rng q (In_sd q Hq)) Hx) as B.
    assert (Z.lxor (fst q) x <> 0).
    { apply lxor_nonzero. intros E. apply Hnx. rewrite <- E. apply in_map. now apply In_sd. }
    lia.
  - replace (map (fun q : Z * bytes => glog (Z.lxor (fst p) (fst q))) (l1 ++ l2))
      with (map glog (map (fun q : Z * bytes => Z.lxor (fst p) (fst q)) (l1 ++ l2))) by (now rewrite map_map).
    apply gexp_sum_logs.
    apply Forall_forall. intros d Hd. apply in_map_iff in Hd as [q [<- Hq]].
    pose proof (lxor_byte (fst p) (fst q) Hp (Rng q (In_sd q Hq))) as B.
    assert (Z.lxor (fst p) (fst q) <> 0).
    { apply lxor_nonzero. intros E.
      rewrite map_app in Hnd. cbn [map] in Hnd. apply NoDup_remove_2 in Hnd.
      apply Hnd. rewrite <- map_app. rewrite E. now apply in_map. }
    lia.
Qed.

(* ---------------------------------------------------------------- interpolate = Lagrange *)

Definition conv (t : nat) (p : Z * bytes) : gf * gf := (gf_of (fst p), gf_of (nth t (snd p) 0)).
Definition pts_t (t : nat) (sd : list (Z * bytes)) : list (gf * gf) := map (conv t) sd.

Lemma nth_byte t (b : bytes) : bytes_ok b -> 0 <= nth t b 0 < 256.
Proof.
  intros H. destruct (nth_in_or_default t b 0) as [Hin| ->]; [|lia].
  unfold bytes_ok in H. rewrite Forall_forall in H. exact (H _ Hin).
Qed.

Theorem interp_core_gf x sd L t :
  sd <> [] -> Forall (fun p => length (snd p) = L) sd -> (t < L)%nat ->
  0 <= x < 256 -> Forall node_ok sd -> NoDup (map fst sd) -> ~ In x (map fst sd) ->
  nth t (interp_core x sd) 0 = gfz (ginterp (gf_of x) (pts_t t sd)).
Proof.
  intros Hne Hl Ht Hx Hok Hnd Hnx.
  rewrite (interp_core_nth x sd L t Hne Hl Ht).
  unfold interp_term.
  rewrite (fold_left_xor (fun p => if nth t (snd p) 0 >? 0
             then gexp ((glog (nth t (snd p) 0) + interp_log x sd (fst p)) mod 255) else 0)).
  rewrite Z.lxor_0_l.
  unfold interp. rewrite gfz_fsum. rewrite map_map. unfold pts_t. rewrite picks_map, map_map.
  rewrite <- (picks_fst _ sd) at 1. rewrite map_map.
  f_equal. apply map_ext_in. intros [p rest] Hin. cbn [fst snd].
  assert (Hp : node_ok p).
  { rewrite Forall_forall in Hok. apply Hok. rewrite <- (picks_fst _ sd).
    apply (in_map fst) in Hin. exact Hin. }
  destruct Hp as [Hp1 Hp2]. pose proof (nth_byte t (snd p) Hp2) as Hy.
  assert (Hrest : forall q, In q rest -> 0 <= fst q < 256).
  { intros q Hq. rewrite Forall_forall in Hok. apply Hok. eapply picks_incl; eassumption. }
  (* left: table expression *)
  unfold interp_log at 1. rewrite term_eq by exact Hy. fold (interp_log x sd (fst p)).
  rewrite (coef_eq x sd p rest Hx Hok Hnd Hnx Hin).
  (* right: field expression *)
  unfold conv at 1. cbn [fst snd]. rewrite gfz_mul, gfz_of by exact Hy.
  unfold lcoef. rewrite gfz_div, !gfz_fprod, !map_map.
  f_equal. f_equal.
  - f_equal. apply map_ext_in. intros q Hq. unfold conv. cbn [fst].
    rewrite gfz_sub, !gfz_of by (try exact Hx; now apply Hrest). apply Z.lxor_comm.
  - f_equal. apply map_ext_in. intros q Hq. unfold conv. cbn [fst].
    rewrite gfz_sub, !gfz_of by (try exact Hp1; now apply Hrest). reflexivity.
Qed.

(* ---------------------------------------------------------------- split_secret *)

Lemma take_rnd_spec n rnd a b : take_rnd n rnd = Ok (a, b) ->
  0 <= n /\ length a = Z.to_nat n /\ rnd = a ++ b.
Proof.
  unfold take_rnd. destruct (Z.ltb_spec n 0) as [H|H]; cbn [orb]; [discriminate|].
  destruct (Z.ltb_spec (zlen rnd) n) as [H'|H']; [discriminate|]. intros E. inversion E; subst.
  split; [exact H|]. split; [|now rewrite firstn_skipn].
  rewrite firstn_length. unfold zlen in H'. lia.
Qed.

Lemma take_shares_spec cnt : forall i nb rnd sd rest,
  take_shares cnt i nb rnd = Ok (sd, rest) -> bytes_ok rnd ->
  map fst sd = zrange i cnt /\
  Forall (fun p => length (snd p) = Z.to_nat nb /\ bytes_ok (snd p)) sd /\ bytes_ok rest.
Proof.
  induction cnt as [|cnt IH]; intros i nb rnd sd rest H Hr; cbn [take_shares] in H.
  - inversion H; subst. repeat split; [constructor | exact Hr].
  - destruct (take_rnd nb rnd) as [[b rnd']|] eqn:T; cbn [bind] in H; [|discriminate].
    destruct (take_shares cnt (i + 1) nb rnd') as [[t rnd'']|] eqn:S; cbn [bind] in H; [|discriminate].
    inversion H; subst. apply take_rnd_spec in T as [Hn [Lb ->]].
    apply bytes_ok_app in Hr as [Hb Hr'].
    destruct (IH _ _ _ _ _ S Hr') as [M [F R]].
    cbn [map fst zrange]. rewrite M. repeat split; [|exact R].
    constructor; [cbn [snd]; now split | exact F].
Qed.

Lemma in_byte_true z : 0 <= z < 256 -> in_byte z = true.
Proof. intros H. unfold in_byte. destruct (Z.leb_spec 0 z); destruct (Z.ltb_spec z 256); cbn [andb]; try lia; reflexivity. Qed.

Lemma interpolate_ok x sd :
  sd <> [] -> 0 <= x < 256 -> Forall (fun p => 0 <= fst p < 256) sd ->
  interpolate x sd = Ok (interp_core x sd).
Proof.
  intros Hne Hx Hr. unfold interpolate. destruct sd as [|p0 r0] eqn:E; [congruence|]. rewrite <- E in *.
  assert (G : forallb (fun p => in_byte (Z.lxor (fst p) x) &&
                forallb (fun q => in_byte (Z.lxor (fst p) (fst q))) sd) sd = true).
  { rewrite Forall_forall in Hr. apply forallb_forall. intros p Hp. apply andb_true_iff. split.
    - apply in_byte_true, lxor_byte; [now apply Hr | exact Hx].
    - apply forallb_forall. intros q Hq. apply in_byte_true, lxor_byte; now apply Hr. }
  now rewrite G.
Qed.

Lemma mapM_interp base idxs : forall more,
  base <> [] -> Forall (fun p => 0 <= fst p < 256) base -> Forall (fun i => 0 <= i < 256) idxs ->
  mapM (fun i => y <- interpolate i base ;; Ok (i, y)) idxs = Ok more ->
  more = map (fun i => (i, interp_core i base)) idxs.
Proof.
  induction idxs as [|i idxs IH]; intros more Hne Hb Hi H; cbn [mapM] in H.
  - inversion H. reflexivity.
  - inversion Hi as [|? ? Hi0 Hi']; subst.
    rewrite (interpolate_ok i base Hne Hi0 Hb) in H. cbn [bind] in H.
    destruct (mapM _ idxs) as [t|] eqn:M; cbn [bind] in H; [|discriminate].
    inversion H; subst. cbn [map]. f_equal. now apply IH.
Qed.

Lemma pts_t_combine t l :
  pts_t t l = combine (map (fun p => gf_of (fst p)) l) (map (fun p => gf_of (nth t (snd p) 0)) l).
Proof. induction l as [|p l IH]; [reflexivity|]. cbn [pts_t map combine]. unfold pts_t in IH. now rewrite IH. Qed.

Lemma NoDup_map_gf (l : list Z) :
  Forall (fun z => 0 <= z < 256) l -> NoDup l -> NoDup (map gf_of l).
Proof.
  induction l as [|a l IH]; intros Hr Hn; cbn [map]; [constructor|].
  inversion Hr as [|? ? Ha Hr']; inversion Hn as [|? ? Hni Hn']; subst. constructor; [|now apply IH].
  intros Hin. apply in_map_iff in Hin as [b [E Hb]]. rewrite Forall_forall in Hr'.
  apply gf_of_inj in E; [|now apply Hr' | exact Ha]. subst. contradiction.
Qed.

Section Threshold.
  Variable hmac_sha256 : bytes -> bytes -> bytes.
  Hypothesis hmac_ok : forall k m, length (hmac_sha256 k m) = 32%nat /\ bytes_ok (hmac_sha256 k m).

  Lemma digest_ok r s : length (digest hmac_sha256 r s) = 4%nat /\ bytes_ok (digest hmac_sha256 r s).
  Proof.
    unfold digest. destruct (hmac_ok r s) as [L B]. split.
    - rewrite firstn_length. lia.
    - now apply bytes_ok_firstn.
  Qed.

  (* a share (x, bytes) lies on the polynomial through `base` *)
  Definition on_poly (base : list (Z * bytes)) (nb : nat) (p : Z * bytes) : Prop :=
    0 <= fst p < 256 /\ length (snd p) = nb /\ bytes_ok (snd p) /\
    forall t, (t < nb)%nat -> gf_of (nth t (snd p) 0) = ginterp (gf_of (fst p)) (pts_t t base).

  (* base: k pairwise distinct nodes with byte strings of length nb *)
  Definition base_ok (base : list (Z * bytes)) (nb : nat) : Prop :=
    base <> [] /\ Forall node_ok base /\ NoDup (map fst base) /\
    Forall (fun p => length (snd p) = nb) base.

  Lemma base_node_on_poly base nb p : base_ok base nb -> In p base -> on_poly base nb p.
  Proof.
    intros (Hne & Hok & Hnd & Hl) Hin.
    rewrite Forall_forall in Hok, Hl. destruct (Hok p Hin) as [R B].
    split; [exact R|]. split; [now apply Hl|]. split; [exact B|]. intros t Ht.
    destruct (In_nth_error _ _ Hin) as [i Hi].
    assert (N : nth_error (pts_t t base) i = Some (gf_of (fst p), gf_of (nth t (snd p) 0))).
    { unfold pts_t. rewrite nth_error_map, Hi. reflexivity. }
    symmetry. apply (interp_at_node gf gf0 gf1 gfadd gfmul gfsub gfopp gfdiv gfinv gf_field _ i _ _);
      [|exact N].
    unfold pts_t. rewrite map_map. cbn [conv fst].
    rewrite <- (map_map fst gf_of). apply NoDup_map_gf; [|exact Hnd].
    apply Forall_forall. intros z Hz. apply in_map_iff in Hz as [q [<- Hq]]. exact (proj1 (Hok q Hq)).
  Qed.

  Lemma interp_on_poly base nb i :
    base_ok base nb -> 0 <= i < 256 -> ~ In i (map fst base) ->
    on_poly base nb (i, interp_core i base).
  Proof.
    intros (Hne & Hok & Hnd & Hl) Hi Hni.
    assert (L : length (interp_core i base) = nb) by now apply interp_core_length.
    assert (N : forall t, (t < nb)%nat ->
              nth t (interp_core i base) 0 = gfz (ginterp (gf_of i) (pts_t t base))).
    { intros t Ht. now apply (interp_core_gf i base nb t). }
    split; [exact Hi|]. split; [exact L|]. cbn [fst snd]. split.
    - unfold bytes_ok. apply Forall_forall. intros b Hb. apply (In_nth _ _ 0) in Hb as [t [Ht <-]].
      rewrite N by lia. apply gfz_range.
    - intros t Ht. rewrite N by exact Ht. apply gf_of_z.
  Qed.

  (* Lagrange exactness, bytewise: any >= |base| distinct points of the polynomial
     interpolate, at any x outside their nodes, to the value of the polynomial *)
  Lemma reinterpolate base nb sub x :
    base_ok base nb -> sub <> [] ->
    Forall (on_poly base nb) sub -> NoDup (map fst sub) -> (length base <= length sub)%nat ->
    0 <= x < 256 -> ~ In x (map fst sub) ->
    interpolate x sub = Ok (interp_core x sub) /\ length (interp_core x sub) = nb /\
    forall t, (t < nb)%nat ->
      nth t (interp_core x sub) 0 = gfz (ginterp (gf_of x) (pts_t t base)).
  Proof.
    intros Hbase Hne Hon Hnd Hlen Hx Hnx.
    pose proof Hbase as (Hbne & Hbok & Hbnd & Hbl).
    assert (Hr : Forall (fun p => 0 <= fst p < 256) sub).
    { eapply Forall_impl; [|exact Hon]. intros p Hp. exact (proj1 Hp). }
    assert (Hl : Forall (fun p => length (snd p) = nb) sub).
    { eapply Forall_impl; [|exact Hon]. intros p Hp. exact (proj1 (proj2 Hp)). }
    assert (Hok : Forall node_ok sub).
    { eapply Forall_impl; [|exact Hon]. intros p (A & _ & B & _). now split. }
    split; [now apply interpolate_ok|]. split; [now apply interp_core_length|].
    intros t Ht. rewrite (interp_core_gf x sub nb t Hne Hl Ht Hx Hok Hnd Hnx). f_equal.
    rewrite (pts_t_combine t sub), (pts_t_combine t base).
    set (S := map (fun p => gf_of (fst p)) sub).
    set (B := map (fun p => gf_of (fst p)) base).
    set (V := map (fun p => gf_of (nth t (snd p) 0)) base).
    assert (E : map (fun p => gf_of (nth t (snd p) 0)) sub
                = map (fun s => ginterp s (combine B V)) S).
    { unfold S. rewrite map_map. apply map_ext_in. intros p Hp.
      rewrite Forall_forall in Hon. destruct (Hon p Hp) as (_ & _ & _ & Hpoly).
      rewrite (Hpoly t Ht). unfold B, V. now rewrite <- pts_t_combine. }
    rewrite E.
    apply (lagrange_reinterpolate gf gf0 gf1 gfadd gfmul gfsub gfopp gfdiv gfinv gf_field).
    - unfold B. rewrite <- (map_map fst gf_of). apply NoDup_map_gf; [|exact Hbnd].
      apply Forall_forall. intros z Hz. apply in_map_iff in Hz as [q [<- Hq]].
      rewrite Forall_forall in Hbok. exact (proj1 (Hbok q Hq)).
    - unfold V, B. now rewrite !map_length.
    - unfold S. rewrite <- (map_map fst gf_of). apply NoDup_map_gf; [|exact Hnd].
      apply Forall_forall. intros z Hz. apply in_map_iff in Hz as [q [<- Hq]].
      rewrite Forall_forall in Hr. now apply Hr.
    - unfold B, S. now rewrite !map_length.
  Qed.

  (* value of the base polynomial at one of its own nodes *)
  Lemma base_value base nb x b : base_ok base nb -> In (x, b) base ->
    forall t, (t < nb)%nat -> gfz (ginterp (gf_of x) (pts_t t base)) = nth t b 0.
  Proof.
    intros Hbase Hin t Ht. destruct (base_node_on_poly base nb (x, b) Hbase Hin) as (_ & _ & Bk & P).
    cbn [fst snd] in *. rewrite <- (P t Ht). apply gfz_of. now apply nth_byte.
  Qed.

  Lemma in_zrange' n a x : In x (zrange a n) <-> a <= x < a + Z.of_nat n.
  Proof. apply in_zrange. Qed.

  Lemma zrange_NoDup n a : NoDup (zrange a n).
  Proof.
    revert a. induction n as [|n IH]; intros a; cbn [zrange]; constructor; [|apply IH].
    rewrite in_zrange'. lia.
  Qed.

  Lemma zrange_length n a : length (zrange a n) = n.
  Proof. revert a. induction n as [|n IH]; intros a; cbn [zrange length]; [reflexivity|]. now rewrite IH. Qed.

  Lemma zrange_app m : forall a n, zrange a (m + n) = zrange a m ++ zrange (a + Z.of_nat m) n.
  Proof.
    induction m as [|m IH]; intros a n.
    - cbn. now rewrite Z.add_0_r.
    - cbn [plus zrange app]. rewrite IH.
      replace (a + 1 + Z.of_nat m) with (a + Z.of_nat (S m)) by lia. reflexivity.
  Qed.

  Lemma NoDup_app_intro {A} (a b : list A) :
    NoDup a -> NoDup b -> (forall x, In x a -> ~ In x b) -> NoDup (a ++ b).
  Proof.
    induction a as [|x a IH]; intros Ha Hb Hd; cbn [app]; [exact Hb|].
    inversion Ha as [|? ? Hx Ha']; subst. constructor.
    - intros Hin. apply in_app_or in Hin as [Hin|Hin]; [contradiction|].
      apply (Hd x); [now left | exact Hin].
    - apply IH; [exact Ha' | exact Hb |]. intros y Hy. apply Hd. now right.
  Qed.

  Lemma fst_in_range (sd : list (Z * bytes)) a n p :
    map fst sd = zrange a n -> In p sd -> a <= fst p < a + Z.of_nat n.
  Proof. intros M Hin. apply in_zrange'. rewrite <- M. now apply in_map. Qed.

  (* what split_secret returns for k >= 2 *)
  Theorem split_secret_structure secret k n rnd shares :
    2 <= k -> bytes_ok secret -> bytes_ok rnd ->
    split_secret hmac_sha256 secret k n rnd = Ok shares ->
    exists base random,
      k <= n <= 16 /\ (length secret = 16 \/ length secret = 32)%nat /\
      base_ok base (length secret) /\ Z.of_nat (length base) = k /\
      In (254, digest hmac_sha256 random secret ++ random) base /\ In (255, secret) base /\
      map fst shares = zrange 0 (Z.to_nat n) /\
      Forall (on_poly base (length secret)) shares /\ Forall (fun p => 0 <= fst p < 16) shares.
  Proof.
    intros Hk Hsec Hrnd. unfold split_secret.
    destruct (Z.ltb_spec n 1); [discriminate|]. destruct (Z.gtb_spec n 16); [discriminate|].
    destruct (Z.ltb_spec k 1); [discriminate|]. destruct (Z.gtb_spec k n); [discriminate|].
    destruct ((zlen secret =? 16) || (zlen secret =? 32)) eqn:Enb; cbn [negb]; [|discriminate].
    destruct (Z.eqb_spec k 1); [lia|].
    destruct (take_rnd (zlen secret - 4) rnd) as [[random rnd1]|] eqn:T1; cbn [bind]; [|discriminate].
    destruct (take_shares (Z.to_nat (k - 2)) 0 (zlen secret) rnd1) as [[sd rnd2]|] eqn:T2;
      cbn [bind]; [|discriminate].
    set (ds := digest hmac_sha256 random secret ++ random).
    set (base := sd ++ [(254, ds); (255, secret)]).
    destruct (mapM _ (zrange (k - 2) (Z.to_nat (n - (k - 2))))) as [more|] eqn:M; cbn [bind]; [|discriminate].
    intros E. inversion E; subst shares; clear E.
    assert (Hnb : (length secret = 16 \/ length secret = 32)%nat).
    { apply orb_true_iff in Enb as [Enb|Enb]; apply Z.eqb_eq in Enb; unfold zlen in Enb; lia. }
    apply take_rnd_spec in T1 as [_ [Lr ->]]. apply bytes_ok_app in Hrnd as [Hrand Hrnd1].
    destruct (take_shares_spec _ _ _ _ _ _ T2 Hrnd1) as [Msd [Fsd _]].
    rewrite Forall_forall in Fsd.
    assert (Lds : length ds = length secret).
    { unfold ds. rewrite app_length, (proj1 (digest_ok random secret)), Lr. unfold zlen. lia. }
    assert (Bds : bytes_ok ds).
    { unfold ds. apply bytes_ok_app. split; [apply digest_ok | exact Hrand]. }
    assert (Lsd : length sd = Z.to_nat (k - 2)).
    { rewrite <- (map_length fst), Msd. apply zrange_length. }
    assert (Hbase : base_ok base (length secret)).
    { unfold base_ok, base. split; [|split; [|split]].
      - intros E. apply app_eq_nil in E as [_ E]. discriminate.
      - apply Forall_app. split.
        + apply Forall_forall. intros p Hp. split; [|exact (proj2 (Fsd p Hp))].
          pose proof (fst_in_range sd _ _ p Msd Hp). lia.
        + repeat constructor; cbn [fst snd]; try lia; assumption.
      - rewrite map_app, Msd. cbn [map fst]. apply NoDup_app_intro.
        + apply zrange_NoDup.
        + constructor; [intros [E|[]]; lia|]. constructor; [intros []|constructor].
        + intros x Hx. apply in_zrange' in Hx. intros [<-|[<-|[]]]; lia.
      - apply Forall_app. split.
        + apply Forall_forall. intros p Hp. rewrite (proj1 (Fsd p Hp)). unfold zlen. lia.
        + constructor; [exact Lds|]. constructor; [reflexivity | constructor]. }
    assert (Fbase : Forall (fun p => 0 <= fst p < 256) base).
    { destruct Hbase as (_ & Hok & _). eapply Forall_impl; [|exact Hok]. intros p Hp. exact (proj1 Hp). }
    assert (Hidx : Forall (fun i => 0 <= i < 256) (zrange (k - 2) (Z.to_nat (n - (k - 2))))).
    { apply Forall_forall. intros i Hi. apply in_zrange' in Hi. lia. }
    pose proof (mapM_interp base _ more (proj1 Hbase) Fbase Hidx M) as ->.
    exists base, random. split; [lia|]. split; [exact Hnb|]. split; [exact Hbase|].
    split; [unfold base; rewrite app_length, Lsd; cbn [length]; lia|].
    split; [unfold base; apply in_or_app; right; now left|].
    split; [unfold base; apply in_or_app; right; right; now left|].
    split; [|split].
    - rewrite map_app, Msd, map_map. cbn [fst]. rewrite map_id.
      replace (Z.to_nat n) with (Z.to_nat (k - 2) + Z.to_nat (n - (k - 2)))%nat by lia.
      rewrite zrange_app. do 2 f_equal. lia.
    - apply Forall_app. split.
      + apply Forall_forall. intros p Hp. apply base_node_on_poly; [exact Hbase|].
        unfold base. apply in_or_app. now left.
      + apply Forall_forall. intros p Hp. apply in_map_iff in Hp as [i [<- Hi]].
        apply in_zrange' in Hi. apply interp_on_poly; [exact Hbase | lia |].
        unfold base. rewrite map_app, Msd. cbn [map fst]. intros Hin.
        apply in_app_or in Hin as [Hin|[E|[E|[]]]]; [apply in_zrange' in Hin|..]; lia.
    - apply Forall_app. split.
      + apply Forall_forall. intros p Hp. pose proof (fst_in_range sd _ _ p Msd Hp). lia.
      + apply Forall_forall. intros p Hp. apply in_map_iff in Hp as [i [<- Hi]].
        apply in_zrange' in Hi. cbn [fst]. lia.
  Qed.

  (* THRESHOLD RECOVERY: every set of at least k distinct shares of a k-of-n split (k >= 2)
     recovers the secret and passes the digest check *)
  Theorem threshold_recovery secret k n rnd shares sub :
    2 <= k -> bytes_ok secret -> bytes_ok rnd ->
    split_secret hmac_sha256 secret k n rnd = Ok shares ->
    NoDup (map fst sub) -> (forall p, In p sub -> In p shares) -> k <= zlen sub ->
    recover_secret hmac_sha256 sub = Ok secret.
  Proof.
    intros Hk Hsec Hrnd Hsplit Hnd Hincl Hlen.
    destruct (split_secret_structure secret k n rnd shares Hk Hsec Hrnd Hsplit)
      as (base & random & Hkn & Hnb & Hbase & Lbase & Hin254 & Hin255 & _ & Hon & Hidx).
    set (ds := digest hmac_sha256 random secret ++ random) in *.
    assert (Hne : sub <> []). { intros ->. unfold zlen in Hlen. cbn in Hlen. lia. }
    rewrite Forall_forall in Hon, Hidx.
    assert (Hon' : Forall (on_poly base (length secret)) sub).
    { apply Forall_forall. intros p Hp. now apply Hon, Hincl. }
    assert (Hout : forall x, 16 <= x -> ~ In x (map fst sub)).
    { intros x Hx Hin. apply in_map_iff in Hin as [p [<- Hp]]. specialize (Hidx p (Hincl p Hp)). lia. }
    assert (Hsz : (length base <= length sub)%nat) by (unfold zlen in Hlen; lia).
    destruct (reinterpolate base (length secret) sub 255 Hbase Hne Hon' Hnd Hsz ltac:(lia) (Hout 255 ltac:(lia)))
      as (I255 & L255 & N255).
    destruct (reinterpolate base (length secret) sub 254 Hbase Hne Hon' Hnd Hsz ltac:(lia) (Hout 254 ltac:(lia)))
      as (I254 & L254 & N254).
    assert (E255 : interp_core 255 sub = secret).
    { apply nth_ext_bytes; [exact L255|]. intros t Ht. rewrite L255 in Ht. rewrite (N255 t Ht).
      exact (base_value base (length secret) 255 secret Hbase Hin255 t Ht). }
    assert (Lds : length ds = length secret).
    { destruct Hbase as (_ & _ & _ & Hl). rewrite Forall_forall in Hl. exact (Hl _ Hin254). }
    assert (E254 : interp_core 254 sub = ds).
    { apply nth_ext_bytes; [congruence|]. intros t Ht. rewrite L254 in Ht. rewrite (N254 t Ht).
      exact (base_value base (length secret) 254 ds Hbase Hin254 t Ht). }
    unfold recover_secret. rewrite I255, I254. cbn [bind]. rewrite E255, E254.
    pose proof (proj1 (digest_ok random secret)) as L4.
    assert (F4 : firstn 4 ds = digest hmac_sha256 random secret).
    { unfold ds. rewrite firstn_app, L4. replace (4 - 4)%nat with O by lia.
      rewrite firstn_O, app_nil_r. apply firstn_all2. lia. }
    assert (S4 : skipn 4 ds = random).
    { unfold ds. rewrite skipn_app, L4. replace (4 - 4)%nat with O by lia.
      rewrite skipn_O, skipn_all2 by lia. reflexivity. }
    rewrite F4, S4, beq_refl. reflexivity.
  Qed.

  (* k = 1: every one of the n shares is the secret itself *)
  Theorem split_secret_one secret n rnd :
    1 <= n <= 16 -> (length secret = 16 \/ length secret = 32)%nat ->
    split_secret hmac_sha256 secret 1 n rnd = Ok (map (fun i => (i, secret)) (zrange 0 (Z.to_nat n))).
  Proof.
    intros Hn Hnb. unfold split_secret.
    destruct (Z.ltb_spec n 1); [lia|]. destruct (Z.gtb_spec n 16); [lia|].
    change (1 <? 1) with false. cbv iota. destruct (Z.gtb_spec 1 n); [lia|].
    assert ((zlen secret =? 16) || (zlen secret =? 32) = true) as ->.
    { unfold zlen. destruct Hnb as [-> | ->]; reflexivity. }
    cbn [negb]. reflexivity.
  Qed.

  (* the shares carry the indices 0 .. n-1 *)
  Theorem split_secret_indices secret k n rnd shares :
    2 <= k -> bytes_ok secret -> bytes_ok rnd ->
    split_secret hmac_sha256 secret k n rnd = Ok shares ->
    map fst shares = zrange 0 (Z.to_nat n) /\
    Forall (fun p => length (snd p) = length secret /\ bytes_ok (snd p)) shares.
  Proof.
    intros Hk Hsec Hrnd H.
    destruct (split_secret_structure secret k n rnd shares Hk Hsec Hrnd H)
      as (base & random & _ & _ & _ & _ & _ & _ & Hm & Hon & _).
    split; [exact Hm|]. eapply Forall_impl; [|exact Hon]. intros p (_ & L & B & _). now split.
  Qed.
End Threshold.
