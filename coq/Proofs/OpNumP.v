(* Proofs/OpNumP.v — the small-number helpers of buidl/op.py (Model/OpNum.v) and their composition
   with the interpreter: the command encode_minimal_num(n) pushes exactly the script number n, on the
   library and on consensus, and  <encode_minimal_num(n)> OP_CHECKLOCKTIMEVERIFY OP_DROP  /
   <encode_minimal_num(n)> OP_CHECKSEQUENCEVERIFY OP_DROP  (the prefixes buidl/taproot.py builds)
   enforce exactly BIP65 / BIP112 for every 32-bit n. *)
From V Require Import Base.Prelude Base.Ints Model.Script Model.Op Model.Interp Model.OpMode Model.OpNum
  Spec.Consensus Proofs.OpP Proofs.ConformP Proofs.StackOkP Proofs.InterpP Proofs.ProgramP Proofs.OpModeP
  Proofs.AnyListP.

Lemma small_cases n : -1 <= n <= 16 ->
  n = -1 \/ n = 0 \/ n = 1 \/ n = 2 \/ n = 3 \/ n = 4 \/ n = 5 \/ n = 6 \/ n = 7 \/ n = 8 \/ n = 9 \/ n = 10 \/
  n = 11 \/ n = 12 \/ n = 13 \/ n = 14 \/ n = 15 \/ n = 16.
Proof. lia. Qed.

Ltac each_small H :=
  apply small_cases in H;
  repeat (destruct H as [->|H]); [..|subst].

(* the three conversions agree and are defined exactly on -1 .. 16 *)
Theorem number_codes n :
  (-1 <= n <= 16 ->
     let o := if n =? 0 then 0 else n + 80 in
     number_to_op_code n = Ok o /\ number_to_op_code_byte n = Ok [o] /\ op_code_to_number o = Ok n) /\
  (~ -1 <= n <= 16 -> number_to_op_code n = Err /\ number_to_op_code_byte n = Err).
Proof.
  split.
  - intros H. each_small H; repeat split; reflexivity.
  - intros H. unfold number_to_op_code, number_to_op_code_byte.
    destruct (n <? -1) eqn:E1; destruct (n >? 16) eqn:E2; cbn [orb]; try (split; reflexivity); lia.
Qed.

(* op_code_to_number inverts number_to_op_code — except that it also accepts 80 (OP_RESERVED, not a
   push op code and not in OP_CODE_FUNCTIONS) and reads it as 0 *)
Theorem op_code_to_number_inv o n : op_code_to_number o = Ok n -> o <> 80 -> number_to_op_code n = Ok o.
Proof.
  unfold op_code_to_number. destruct ((o =? 0) || ((79 <=? o) && (o <=? 96))) eqn:E; [|discriminate].
  intros H N. apply orb_true_iff in E as [E|E].
  - apply Z.eqb_eq in E. subst o. injection H as <-. reflexivity.
  - apply andb_true_iff in E as [L U]. apply Z.leb_le in L, U.
    destruct (o =? 0) eqn:E0; [lia|]. injection H as <-.
    assert (R : -1 <= o - 80 <= 16) by lia.
    destruct (proj1 (number_codes (o - 80)) R) as (A & _ & _). rewrite A.
    destruct (o - 80 =? 0) eqn:E1; [lia|]. f_equal. lia.
Qed.

Lemma op_code_to_number_80 (r1 r2 r3 : bytes -> bytes) :
  op_code_to_number 80 = Ok 0 /\ number_to_op_code 0 = Ok 0 /\ lib_table r1 r2 r3 80 = None.
Proof. repeat split; reflexivity. Qed.

(* length of a serialised number *)
Lemma encode_len n k : Z.abs n < 128 * pow256 k -> (length (encode_num n) <= S k)%nat.
Proof.
  intros H. destruct (Z.eq_dec n 0) as [->|Hn]; [cbn; lia|].
  destruct (encode_num_digits n Hn) as (d & D & F & ->). apply sign_fix_len; [exact D | lia].
Qed.

Section Push.
  Variables ripemd160 sha1 sha256 : bytes -> bytes.
  Variable c : txctx.
  Notation mtable := (m_lib_table ripemd160 sha1 sha256).
  Notation run := (Consensus.run ripemd160 sha1 sha256 (to_ctx c) false).

  (* the command chosen by encode_minimal_num pushes the serialisation of n — library (with mode) and
     consensus, flags off *)
  Theorem minimal_push_step n : zlen (encode_num n) <= 520 ->
    exists cm, encode_minimal_num n = Ok cm /\
    (forall f rest s a,
       m_eval_loop mtable c false false (S f) (cm :: rest) s a =
       m_eval_loop mtable c false false f rest (encode_num n :: s) a) /\
    (forall rest s a, run (cm :: rest) [] (s, a) = run rest [] (encode_num n :: s, a)).
  Proof.
    intros L. unfold encode_minimal_num.
    destruct ((-1 <=? n) && (n <=? 16)) eqn:E.
    - apply andb_true_iff in E as [E1 E2]. apply Z.leb_le in E1, E2.
      assert (H : -1 <= n <= 16) by lia.
      each_small H; (eexists; split; [reflexivity|]; split; intros; reflexivity).
    - exists (Push (encode_num n)). split; [reflexivity|]. split; intros.
      + reflexivity.
      + cbn [Consensus.run forallb andb fst snd].
        assert (G : (520 <? zlen (encode_num n)) = false) by (apply Z.ltb_ge; lia).
        rewrite G. reflexivity.
  Qed.

  Lemma enc32 n : 0 <= n <= 4294967295 ->
    (length (encode_num n) <= 5)%nat /\ bytes_ok (encode_num n) /\ decode_num (encode_num n) = n /\
    zlen (encode_num n) <= 520.
  Proof.
    intros H.
    assert (L : (length (encode_num n) <= 5)%nat).
    { apply (encode_len n 4). change (pow256 4) with 4294967296. lia. }
    repeat split; [exact L | apply encode_num_ok | apply decode_encode | unfold zlen; lia].
  Qed.

  Lemma nat_ltb_false a b : (a <= b)%nat -> (b <? a)%nat = false.
  Proof. intros H. apply Nat.ltb_ge. exact H. Qed.

  (* <n> CHECKLOCKTIMEVERIFY DROP 1 : accepted exactly when BIP65's CheckLockTime holds, rejected by
     RETURNING False otherwise — for every 32-bit n, every context *)
  Theorem cltv_commands n : 0 <= n <= 4294967295 ->
    exists cm, encode_minimal_num n = Ok cm /\
    m_evaluate mtable c false false [cm; Op 177; Op 117; Op 81] =
      (if check_locktime (to_ctx c) n then XTrue else XFalse) /\
    eval_script ripemd160 sha1 sha256 (to_ctx c) false [cm; Op 177; Op 117; Op 81] =
      (if check_locktime (to_ctx c) n then Accept else Reject).
  Proof.
    intros H. destruct (enc32 n H) as (L & B & D & Z5).
    destruct (minimal_push_step n Z5) as (cm & E & ML & MR). exists cm. split; [exact E|].
    set (e := encode_num n) in *.
    assert (Sp : spec_step ripemd160 sha1 sha256 c 177 [e] [] =
                 if check_locktime (to_ctx c) n then SOk ([e], []) else SFail).
    { unfold spec_step, Consensus.exec_op. cbn [Z.eqb Pos.eqb Z.leb Z.compare Pos.compare Pos.compare_cont andb orb].
      unfold scriptnum. rewrite (nat_ltb_false _ _ L), (sn_value_decode e B), D.
      destruct (n <? 0) eqn:E0; [lia|]. destruct (n >? operand_max) eqn:E1; [unfold operand_max in E1; lia|].
      reflexivity. }
    pose proof (step_mode_conformance ripemd160 sha1 sha256 c 177 [Op 117; Op 81] [e] [] eq_refl
                  ltac:(lia) (Forall_cons _ B (Forall_nil _)) (Forall_nil _)) as A.
    rewrite Sp in A.
    split.
    - unfold m_evaluate. cbn [length]. rewrite ML. cbn [m_eval_loop].
      destruct (check_locktime (to_ctx c) n); cbn [agree_m] in A; rewrite A; reflexivity.
    - unfold eval_script. rewrite MR.
      change (Consensus.run ripemd160 sha1 sha256 (to_ctx c) false [Op 177; Op 117; Op 81] [] ([e], []))
        with (match spec_step ripemd160 sha1 sha256 c 177 [e] [] with
              | SOk st' => Consensus.run ripemd160 sha1 sha256 (to_ctx c) false [Op 117; Op 81] [] st'
              | SFail => SFail
              | SOOS => SOOS
              end).
      rewrite Sp. destruct (check_locktime (to_ctx c) n); reflexivity.
  Qed.

  (* <n> CHECKSEQUENCEVERIFY DROP 1 : BIP112 — a NOP when the operand has the disable flag, otherwise
     CheckSequence *)
  Theorem csv_commands n : 0 <= n <= 4294967295 ->
    let ok := negb (Z.land n SEQUENCE_LOCKTIME_DISABLE_FLAG =? 0) || check_sequence (to_ctx c) n in
    exists cm, encode_minimal_num n = Ok cm /\
    m_evaluate mtable c false false [cm; Op 178; Op 117; Op 81] = (if ok then XTrue else XFalse) /\
    eval_script ripemd160 sha1 sha256 (to_ctx c) false [cm; Op 178; Op 117; Op 81] =
      (if ok then Accept else Reject).
  Proof.
    intros H ok. destruct (enc32 n H) as (L & B & D & Z5).
    destruct (minimal_push_step n Z5) as (cm & E & ML & MR). exists cm. split; [exact E|].
    set (e := encode_num n) in *.
    assert (Sp : spec_step ripemd160 sha1 sha256 c 178 [e] [] = if ok then SOk ([e], []) else SFail).
    { unfold spec_step, Consensus.exec_op. cbn [Z.eqb Pos.eqb Z.leb Z.compare Pos.compare Pos.compare_cont andb orb].
      unfold scriptnum. rewrite (nat_ltb_false _ _ L), (sn_value_decode e B), D.
      destruct (n <? 0) eqn:E0; [lia|]. destruct (n >? operand_max) eqn:E1; [unfold operand_max in E1; lia|].
      subst ok. destruct (negb (Z.land n SEQUENCE_LOCKTIME_DISABLE_FLAG =? 0)); [reflexivity|].
      cbn [orb]. reflexivity. }
    pose proof (step_mode_conformance ripemd160 sha1 sha256 c 178 [Op 117; Op 81] [e] [] eq_refl
                  ltac:(lia) (Forall_cons _ B (Forall_nil _)) (Forall_nil _)) as A.
    rewrite Sp in A.
    split.
    - unfold m_evaluate. cbn [length]. rewrite ML. cbn [m_eval_loop].
      destruct ok; cbn [agree_m] in A; rewrite A; reflexivity.
    - unfold eval_script. rewrite MR.
      change (Consensus.run ripemd160 sha1 sha256 (to_ctx c) false [Op 178; Op 117; Op 81] [] ([e], []))
        with (match spec_step ripemd160 sha1 sha256 c 178 [e] [] with
              | SOk st' => Consensus.run ripemd160 sha1 sha256 (to_ctx c) false [Op 117; Op 81] [] st'
              | SFail => SFail
              | SOOS => SOOS
              end).
      rewrite Sp. destruct ok; reflexivity.
  Qed.
End Push.
