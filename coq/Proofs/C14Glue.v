(* Proofs/C14Glue.v — text-level acceptance criterion and normalisation for the shipped
   BIP39 list (combines MnemonicP, WordlistP and SeedP). *)
From V Require Import Base.Prelude Base.Ints Model.Mnemonic Model.Pbkdf2 Spec.Pbkdf2S
  Proofs.MnemonicP Proofs.WordlistP Proofs.Pbkdf2P Proofs.SeedP Generated.Wordlists.

Lemma mapM_inv {A B} (f : A -> result B) : forall l r,
  mapM f l = Ok r -> Forall2 (fun a b => f a = Ok b) l r.
Proof.
  induction l as [|a l IH]; intros r H; cbn [mapM] in H.
  - apply Ok_inj in H. subst. constructor.
  - destruct (f a) as [b|] eqn:E; cbn [bind] in H; [|discriminate].
    destruct (mapM f l) as [t|]; cbn [bind] in H; [|discriminate].
    apply Ok_inj in H. subst r. constructor; [exact E | now apply IH].
Qed.

Lemma mapM_iff {A B} (f : A -> result B) l r :
  mapM f l = Ok r <-> Forall2 (fun a b => f a = Ok b) l r.
Proof. split; [apply mapM_inv | apply mapM_Forall2]. Qed.

Lemma Forall2_impl {A B} (P Q : A -> B -> Prop) l r :
  (forall a b, P a b -> Q a b) -> Forall2 P l r -> Forall2 Q l r.
Proof. intros H. induction 1; constructor; auto. Qed.

Lemma Forall2_right {A B} (P : A -> B -> Prop) (Q : B -> Prop) l r :
  (forall a b, P a b -> Q b) -> Forall2 P l r -> Forall Q r.
Proof. intros H. induction 1; constructor; eauto. Qed.

(* a key designates position i of the BIP39 list: it is that word, or the first four
   letters of that word when the word is longer than four letters *)
Definition designates (key : text) (i : Z) : Prop :=
  0 <= i < 2048 /\ exists w, nth_error bip39_words (Z.to_nat i) = Some w /\
                             (key = w \/ (4 < zlen w /\ key = firstn 4 w)).

Section Glue.
  Variable sha256 : bytes -> bytes.

  Theorem bip39_accept_iff m s :
    mnemonic_to_bytes sha256 bip39_words m = Ok s <->
    exists idx,
      Forall2 designates (split_ws m) idx /\
      valid_num_words (zlen idx) = true /\
      s = to_be (Z.to_nat ((zlen idx * 11 - zlen idx / 3) / 8))
                (from_digits idx / 2 ^ (zlen idx / 3)) /\
      exists h t, sha256 s = h :: t /\
        from_digits idx mod 2 ^ (zlen idx / 3) = h / 2 ^ (8 - zlen idx / 3).
  Proof.
    rewrite mnemonic_accept_iff. split.
    - intros (idx & E1 & E2). exists idx. apply mapM_inv in E1.
      assert (D : Forall2 designates (split_ws m) idx).
      { eapply Forall2_impl; [|exact E1]. intros key i H. now apply bip39_lookup. }
      split; [exact D|]. apply indices_accept_iff; [|exact E2].
      eapply Forall2_right; [|exact D]. intros key i [H _]. exact H.
    - intros (idx & D & Hrest). exists idx. split.
      + apply mapM_Forall2. eapply Forall2_impl; [|exact D]. intros key i H. now apply bip39_lookup.
      + apply indices_accept_iff; [|exact Hrest].
        eapply Forall2_right; [|exact D]. intros key i [H _]. exact H.
  Qed.

  (* a word that is neither a list word nor the four-letter prefix of a longer list word
     makes the whole mnemonic invalid *)
  Theorem bip39_unknown_word_rejected m key :
    In key (split_ws m) -> (forall i, ~ designates key i) ->
    mnemonic_to_bytes sha256 bip39_words m = Err.
  Proof.
    intros Hin Hno. apply (mnemonic_unknown_word sha256 bip39_words m key Hin).
    intros x Hx. destruct (key_hit x key) eqn:K; [|reflexivity]. exfalso.
    destruct (wl_index bip39_words key) as [i|] eqn:E.
    - apply (Hno i). now apply bip39_lookup.
    - rewrite wl_index_err in E. rewrite (E x Hx) in K. discriminate.
  Qed.
End Glue.

(* ---- normalisation: every accepted spelling is mapped to the full words ---- *)

Definition lowerb (w : text) : bool := forallb (fun c => (97 <=? c) && (c <=? 122)) w.

Lemma bip39_lowercase : forallb lowerb bip39_words = true.
Proof. vm_compute. reflexivity. Qed.

Lemma lower_ascii_id w : lowerb w = true -> lower_ascii w = w.
Proof.
  unfold lowerb, lower_ascii. induction w as [|c w IH]; cbn [forallb map]; [reflexivity|].
  intros H. apply andb_true_iff in H as [H1 H2]. rewrite IH by exact H2. f_equal.
  destruct (65 <=? c) eqn:A; destruct (c <=? 90) eqn:B; cbn [andb]; try reflexivity. lia.
Qed.

Lemma lowerb_firstn n w : lowerb w = true -> lowerb (firstn n w) = true.
Proof.
  unfold lowerb. revert n. induction w as [|c w IH]; intros [|n] H; cbn [firstn forallb] in *;
    try reflexivity.
  apply andb_true_iff in H as [H1 H2]. now rewrite H1, IH.
Qed.

Theorem bip39_normalize key i :
  designates key i ->
  exists w, nth_error bip39_words (Z.to_nat i) = Some w /\ wl_normalize bip39_words key = Ok w.
Proof.
  intros D. pose proof D as [Hi [w [N Hk]]]. exists w. split; [exact N|].
  assert (Lw : lowerb w = true).
  { pose proof bip39_lowercase as L. rewrite forallb_forall in L. apply L.
    eapply nth_error_In; exact N. }
  assert (Lk : lower_ascii key = key).
  { apply lower_ascii_id. destruct Hk as [->|[_ ->]]; [exact Lw | now apply lowerb_firstn]. }
  unfold wl_normalize. rewrite Lk. rewrite (proj2 (bip39_lookup key i) D). cbn [bind].
  unfold wl_word. pose proof bip39_good as [Len _]. rewrite Len.
  destruct (0 <=? i) eqn:A; destruct (i <? 2048) eqn:B; try lia. cbn [andb]. now rewrite N.
Qed.

(* the seed only depends on the designated words: full and four-letter spellings of the
   same words yield the same seed and master key *)
Theorem bip39_normalized_words m idx :
  Forall2 designates (split_ws m) idx ->
  exists ws, Forall2 (fun i w => nth_error bip39_words (Z.to_nat i) = Some w) idx ws /\
             mapM (wl_normalize bip39_words) (split_ws m) = Ok ws.
Proof.
  generalize (split_ws m). intros keys. induction 1 as [|key i keys idx D _ IH].
  - exists []. split; [constructor | reflexivity].
  - destruct IH as [ws [F E]]. destruct (bip39_normalize key i D) as [w [N Nw]].
    exists (w :: ws). split; [constructor; assumption|].
    cbn [mapM]. rewrite Nw. cbn [bind]. rewrite E. reflexivity.
Qed.
