(* Proofs/SighashRefuteP.v — C05: where the faithful model (hence the library) leaves the standards
   OUTSIDE the property's quantifier of standard hash types, with concrete witnesses (each was
   replayed on the implementation, see harness/props/c05.py and the manifest note):
   (a) BIP341 defines no message for hash types other than 00 01 02 03 81 82 83; Tx.sig_hash_bip341
       builds one for every byte (so OP_CHECKSIG in tapscript and the key-path rule accept a
       65-byte signature with, e.g., hash type 0x04);
   (b) Bitcoin Core's SignatureHash selects NONE / SINGLE with `nHashType & 0x1f`, the library with
       `hash_type & 3`: for the non-standard byte 0x06 consensus hashes all outputs, the library
       none. *)
From V Require Import Base.Prelude Base.Ints Model.Helper Model.Script Model.Tx Model.Sighash
  Model.SighashAbs Spec.TxData Proofs.SighashP Proofs.SighashCorP.
From V Require Spec.Legacy Spec.Bip341.

Lemma bip341_undefined_hash_type :
  exists t sp idx ht p,
    Bip341.valid_hash_type ht = false /\
    (forall sha256 ext ct coins annex, Bip341.sig_msg sha256 ht ext ct coins idx annex = None) /\
    rsnd (bip341_preimage idh idh (fun _ => true) t sp idx 0 ht memo_empty) = Ok p.
Proof.
  exists ex_tx, ex_spent, 1%nat, 4. eexists. split; [reflexivity|]. split.
  - intros. reflexivity.
  - vm_compute. reflexivity.
Qed.

Lemma legacy_hash_type_mask :
  exists t ct idx code cb ht p1 p2,
    abs_tx t = Ok ct /\ abs_script code = Ok cb /\ standard_hash_type ht = false /\
    legacy_preimage t idx code ht = Ok (Some p1) /\ Legacy.preimage cb ct idx ht = Some p2 /\
    p1 <> p2.
Proof.
  exists ex_tx. eexists. exists 0%nat, (mk_script (p2pkh_script ex_h20)). eexists. exists 6.
  eexists. eexists.
  split; [vm_compute; reflexivity|]. split; [vm_compute; reflexivity|]. split; [reflexivity|].
  split; [vm_compute; reflexivity|]. split; [vm_compute; reflexivity|].
  vm_compute. discriminate.
Qed.
