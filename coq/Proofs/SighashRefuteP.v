(* Proofs/SighashRefuteP.v — C05: where the faithful model (hence the library) leaves the standards
   OUTSIDE the property's quantifier of standard hash types, with concrete witnesses (each was
   replayed on the implementation, see harness/props/c05.py and the manifest note):
   (a) BIP341 defines no message for hash types other than 00 01 02 03 81 82 83; Tx.sig_hash_bip341
       builds one for every byte (so OP_CHECKSIG in tapscript and the key-path rule accept a
       65-byte signature with, e.g., hash type 0x04);
   (b) (repaired by 9c0cf6b) Bitcoin Core's SignatureHash selects NONE / SINGLE with
       `nHashType & 0x1f`; the library used `hash_type & 3`. *)
From V Require Import Base.Prelude Base.Ints Model.Helper Model.Script Model.Tx Model.Sighash
  Model.SighashAbs Spec.TxData Proofs.SighashP Proofs.SighashCorP.
From V Require Spec.Legacy Spec.Bip341.

Lemma bip341_undefined_hash_type :
  exists t sp idx ht p,
    Bip341.valid_hash_type ht = false /\
    (forall sha256 ext ct coins annex, Bip341.sig_msg sha256 ht ext ct coins idx annex = None) /\
    rsnd (bip341_preimage idh idh (fun _ => true) t sp idx 0 ht memo_empty) = Ok p.
Proof.
  exists ex_tx, ex_spent, 1%nat, 4. eexists. split; [reflexivity|]. split.
  - intros. reflexivity.
  - vm_compute. reflexivity.
Qed.

(* (b) was: the legacy / BIP143 builders masked the hash type with 3 instead of 0x1f.  Repaired in
   /repo by 9c0cf6b; the positive statements for EVERY hash type byte are legacy_eq_spec_any and
   bip143_eq_spec_any (Proofs/SighashLegacyP.v, SighashSegwitP.v).  The former witness: *)
Lemma legacy_hash_type_06 :
  exists ct cb p,
    abs_tx ex_tx = Ok ct /\ abs_script (mk_script (p2pkh_script ex_h20)) = Ok cb /\
    standard_hash_type 6 = false /\
    legacy_preimage ex_tx 0 (mk_script (p2pkh_script ex_h20)) 6 = Ok (Some p) /\
    Legacy.preimage cb ct 0 6 = Some p.
Proof.
  eexists. eexists. eexists.
  split; [vm_compute; reflexivity|]. split; [vm_compute; reflexivity|]. split; [reflexivity|].
  split; vm_compute; reflexivity.
Qed.
