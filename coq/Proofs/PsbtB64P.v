(* Proofs/PsbtB64P.v — the base64 entry points composed with the binary codec. *)
From V Require Import Base.Prelude Base.Ints Model.Helper Model.Script Model.Tx Model.Psbt
  Model.Base64 Model.PsbtB64 Proofs.Base64P Proofs.PsbtWholeP.

Section B64P.
Variable hash160 sha256 hash256 : bytes -> bytes.
Variable sec_ok : bytes -> bool.
Variable sig_parse_ok : bytes -> bytes -> bool.
Variable ecdsa_verify : bytes -> Z -> bytes -> bool.
Variable sighash_legacy : tx -> Z -> option script -> result Z.
Variable sighash_segwit : tx -> Z -> option script -> option script -> result Z.
Variable verify_input : tx -> Z -> script -> option (list bytes) -> result bool.
Variable descends : hd_pub -> bytes -> bytes -> bool.

Notation parse := (psbt_parse hash160 sha256 hash256 sec_ok sig_parse_ok ecdsa_verify sighash_legacy
                              sighash_segwit verify_input descends).
Notation parse64 := (psbt_parse_base64 hash160 sha256 hash256 sec_ok sig_parse_ok ecdsa_verify sighash_legacy
                              sighash_segwit verify_input descends).
Notation val := (validate hash160 sha256 hash256 sig_parse_ok ecdsa_verify sighash_legacy
                              sighash_segwit verify_input descends).

(* the text layer is transparent: parse_base64 of the base64 text of any byte string is parse of the
   byte string, for a str and for a bytes argument *)
Theorem parse_base64_encode b is_str : bytes_ok b -> parse64 is_str (b64_encode b) = parse b.
Proof.
  intros H. unfold psbt_parse_base64.
  destruct is_str; [rewrite b64_roundtrip_str by exact H|rewrite b64_roundtrip by exact H]; reflexivity.
Qed.

(* the outermost round trip a user sees: serialize_base64 then parse_base64 gives the PSBT back *)
Theorem psbt_base64_roundtrip N (p : psbt) t is_str :
  canonical sec_ok N p -> val p = Ok tt ->
  psbt_serialize_base64 p = Ok t ->
  (forall b, psbt_serialize p = Ok b -> bytes_ok b) ->
  exists o, parse64 is_str t = Ok (p, o) /\
            psbt_serialize_base64 p = Ok t.
Proof.
  intros Hc Hv Ht Hb. unfold psbt_serialize_base64 in Ht.
  destruct (psbt_serialize p) as [b|] eqn:Es; [|discriminate]. cbn [bind] in Ht. inversion Ht; subst t.
  destruct (psbt_parse_serialize hash160 sha256 hash256 sec_ok sig_parse_ok ecdsa_verify sighash_legacy
              sighash_segwit verify_input descends N p b Hc Hv Es) as [o Ho].
  exists o. split; [|unfold psbt_serialize_base64; now rewrite Es].
  rewrite parse_base64_encode by (apply Hb; reflexivity). exact Ho.
Qed.

End B64P.
