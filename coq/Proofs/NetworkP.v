(* Proofs/NetworkP.v — envelope, header and message codec lemmas (C19). *)
From V Require Import Base.Prelude Base.Ints Model.Helper Model.Block Model.Gcs Model.Network
  Proofs.HelperP.

Lemma magic_length net : length (magic_of net) = 4%nat.
Proof. unfold magic_of. repeat (destruct (_ =? _)); reflexivity. Qed.

Lemma lstrip0_zeros k x : lstrip0 (repeatz 0 k ++ x) = lstrip0 x.
Proof. induction k; cbn; auto. Qed.

Definition no_nul_ends (c : bytes) : Prop := lstrip0 c = c /\ lstrip0 (rev c) = rev c.

Lemma lstrip0_app_fixed c x : lstrip0 c = c -> c <> [] -> lstrip0 (c ++ x) = c ++ x.
Proof.
  destruct c as [|b r]; [congruence|]. cbn. destruct (b =? 0) eqn:E; [|reflexivity].
  intros H _. exfalso.
  assert (length (lstrip0 r) <= length r)%nat as L.
  { clear. induction r as [|y r IH]; cbn; [lia|]. destruct (y =? 0); cbn; lia. }
  rewrite H in L. cbn in L. lia.
Qed.

Lemma rev_repeatz x k : rev (repeatz x k) = repeatz x k.
Proof.
  induction k; cbn; [reflexivity|]. rewrite IHk. clear.
  induction k; cbn; [reflexivity|]. now rewrite IHk.
Qed.

Lemma strip0_padded c k : no_nul_ends c -> strip0 (c ++ repeatz 0 k) = c.
Proof.
  intros [H1 H2]. unfold strip0. destruct c as [|b r].
  - cbn [app]. rewrite <- (app_nil_r (repeatz 0 k)), lstrip0_zeros. reflexivity.
  - rewrite lstrip0_app_fixed by (auto; discriminate).
    rewrite rev_app_distr, rev_repeatz, lstrip0_zeros, H2. apply rev_involutive.
Qed.

Section WithHash.
Variable hash256 : bytes -> bytes.
Hypothesis hash256_len : forall x, length (hash256 x) = 32%nat.

Lemma ck_length p : length (firstn 4 (hash256 p)) = 4%nat.
Proof. rewrite firstn_length, hash256_len. reflexivity. Qed.

Lemma env_roundtrip net cmd payload rest :
  (length cmd <= 12)%nat -> zlen payload < 4294967296 ->
  exists e, env_serialize hash256 net cmd payload = Ok e /\
    env_parse hash256 net (e ++ rest)
    = Ok (strip0 (cmd ++ repeatz 0 (12 - length cmd)), payload, rest).
Proof.
  intros Hc Hp. unfold env_serialize.
  rewrite int_to_le_ok by (rewrite pow256_4; pose proof (zlen_nonneg payload); lia).
  cbn [bind]. eexists. split; [reflexivity|].
  unfold env_parse. rewrite <- !app_assoc.
  rewrite (read_app 4) by apply magic_length.
  assert (beq (magic_of net) [] = false) as E1.
  { apply beq_neq. intros E. pose proof (magic_length net) as L. rewrite E in L. discriminate. }
  rewrite E1, beq_refl. cbn [negb].
  rewrite (app_assoc cmd). rewrite (read_app 12)
    by (rewrite app_length, repeatz_length; lia).
  rewrite (read_app 4) by apply to_le_length.
  rewrite from_le_to_le by (rewrite pow256_4; pose proof (zlen_nonneg payload); lia).
  rewrite (read_app 4) by apply ck_length.
  rewrite readz_app, Z.eqb_refl, beq_refl. reflexivity.
Qed.

Lemma skipn_nonnil_firstn {A} n (s : list A) : skipn n s <> [] -> length (firstn n s) = n.
Proof.
  intros H. rewrite firstn_length. destruct (Nat.le_gt_cases n (length s)); [lia|].
  rewrite skipn_all2 in H by lia. congruence.
Qed.

Lemma readz_split n s : fst (readz n s) ++ snd (readz n s) = s.
Proof.
  unfold readz. destruct (n <? 0); [reflexivity|]. destruct (zlen s <=? n); cbn.
  - apply app_nil_r.
  - apply firstn_skipn.
Qed.

(* Everything env_parse accepts is a complete, correctly framed envelope:
   right magic, 12 command bytes, the declared length equal to the payload
   actually present, and the checksum of that payload. *)
Lemma env_parse_sound net s cmd p rest :
  bytes_ok s ->
  env_parse hash256 net s = Ok (cmd, p, rest) ->
  exists c, length c = 12%nat /\ strip0 c = cmd /\
    s = magic_of net ++ c ++ to_le 4 (zlen p) ++ firstn 4 (hash256 p) ++ p ++ rest.
Proof.
  intros Hs. unfold env_parse, read.
  destruct (beq (firstn 4 s) []) eqn:E1; [discriminate|].
  destruct (beq (firstn 4 s) (magic_of net)) eqn:E2; [|discriminate]. cbn [negb].
  set (s1 := skipn 4 s). set (s2 := skipn 12 s1). set (s3 := skipn 4 s2). set (s4 := skipn 4 s3).
  destruct (readz (from_le (firstn 4 s2)) s4) as [pl s5] eqn:ER.
  destruct (zlen pl =? from_le (firstn 4 s2)) eqn:E3; [|discriminate]. cbn [negb].
  destruct (beq (firstn 4 (hash256 pl)) (firstn 4 s3)) eqn:E4; [|discriminate].
  intros [= <- <- <-].
  apply beq_eq in E2, E4. apply Z.eqb_eq in E3.
  assert (length (firstn 4 s3) = 4%nat) as L3 by (rewrite <- E4; apply ck_length).
  assert (s3 <> []) as N3 by (intros E; rewrite E in L3; discriminate).
  assert (length (firstn 4 s2) = 4%nat) as L2 by (apply skipn_nonnil_firstn; exact N3).
  assert (s2 <> []) as N2 by (intros E; rewrite E in L2; discriminate).
  assert (length (firstn 12 s1) = 12%nat) as L1 by (apply skipn_nonnil_firstn; exact N2).
  exists (firstn 12 s1). split; [exact L1|]. split; [reflexivity|].
  assert (bytes_ok (firstn 4 s2)) as B2.
  { apply bytes_ok_firstn. unfold s2, s1. now apply bytes_ok_skipn, bytes_ok_skipn. }
  assert (to_le 4 (zlen pl) = firstn 4 s2) as TL.
  { rewrite E3. now apply to_le_from_le_n. }
  rewrite TL, E4. rewrite <- E2.
  pose proof (readz_split (from_le (firstn 4 s2)) s4) as SP. rewrite ER in SP. cbn [fst snd] in SP.
  rewrite SP. unfold s4. rewrite (firstn_skipn 4 s3). unfold s3. rewrite (firstn_skipn 4 s2).
  unfold s2. rewrite (firstn_skipn 12 s1). unfold s1. now rewrite (firstn_skipn 4 s).
Qed.

Lemma env_rejects_magic net s : firstn 4 s <> magic_of net -> env_parse hash256 net s = Err.
Proof.
  intros H. unfold env_parse, read. destruct (beq (firstn 4 s) []); [reflexivity|].
  apply beq_neq in H. now rewrite H.
Qed.

(* a frame with a wrong checksum is rejected *)
Lemma env_rejects_checksum net c lb ck p rest :
  length c = 12%nat -> length lb = 4%nat -> length ck = 4%nat ->
  ck <> firstn 4 (hash256 (fst (readz (from_le lb) (p ++ rest)))) ->
  env_parse hash256 net (magic_of net ++ c ++ lb ++ ck ++ p ++ rest) = Err.
Proof.
  intros Lc Ll Lk H. unfold env_parse.
  rewrite (read_app 4) by apply magic_length.
  destruct (beq (magic_of net) []); [reflexivity|]. rewrite beq_refl. cbn [negb].
  rewrite (read_app 12) by exact Lc. rewrite (read_app 4) by exact Ll.
  rewrite (read_app 4) by exact Lk.
  destruct (readz (from_le lb) (p ++ rest)) as [pl s5] eqn:ER. cbn [fst] in H.
  destruct (negb (zlen pl =? from_le lb)); [reflexivity|].
  assert (beq (firstn 4 (hash256 pl)) ck = false) as E by (apply beq_neq; congruence).
  now rewrite E.
Qed.

(* fewer payload bytes than declared: rejected whatever the checksum says *)
Lemma env_rejects_short net c lb ck p :
  length c = 12%nat -> length lb = 4%nat -> length ck = 4%nat ->
  zlen p < from_le lb ->
  env_parse hash256 net (magic_of net ++ c ++ lb ++ ck ++ p) = Err.
Proof.
  intros Lc Ll Lk H. unfold env_parse.
  rewrite (read_app 4) by apply magic_length.
  destruct (beq (magic_of net) []); [reflexivity|]. rewrite beq_refl. cbn [negb].
  rewrite (read_app 12) by exact Lc. rewrite (read_app 4) by exact Ll.
  replace (ck ++ p) with (ck ++ p ++ []) by now rewrite app_nil_r.
  rewrite (read_app 4) by exact Lk. rewrite app_nil_r.
  rewrite readz_short by exact H.
  destruct (zlen p =? from_le lb) eqn:E; [lia|]. reflexivity.
Qed.

End WithHash.

(* ---------------- block header ---------------- *)

Lemma header_roundtrip h rest :
  header_wf h ->
  exists b, serialize_header h = Ok b /\ length b = 80%nat /\
            parse_header (b ++ rest) = (h, rest).
Proof.
  intros (Hv & Ht & Lp & Lr & Lb & Ln & _).
  unfold serialize_header.
  rewrite !int_to_le_ok by (rewrite pow256_4; lia). cbn [bind].
  eexists. split; [reflexivity|]. split.
  - rewrite !app_length, !to_le_length, !rev_length. lia.
  - unfold parse_header. rewrite <- !app_assoc.
    rewrite (read_app 4) by apply to_le_length.
    rewrite (read_app 32) by (rewrite rev_length; exact Lp).
    rewrite (read_app 32) by (rewrite rev_length; exact Lr).
    rewrite (read_app 4) by apply to_le_length.
    rewrite (read_app 4) by exact Lb.
    rewrite (read_app 4) by exact Ln.
    rewrite !rev_involutive, !from_le_to_le by (rewrite pow256_4; lia).
    destruct h; reflexivity.
Qed.

Lemma firstn_length_ge {A} n (s : list A) : (n <= length s)%nat -> length (firstn n s) = n.
Proof. intros H. rewrite firstn_length. lia. Qed.

(* every 80-byte string is the serialisation of the header it parses to *)
Lemma header_bytes_roundtrip s :
  bytes_ok s -> length s = 80%nat ->
  serialize_header (fst (parse_header s)) = Ok s /\ snd (parse_header s) = [].
Proof.
  intros Hs L. unfold parse_header, read.
  set (s1 := skipn 4 s). set (s2 := skipn 32 s1). set (s3 := skipn 32 s2).
  set (s4 := skipn 4 s3). set (s5 := skipn 4 s4). cbn [fst snd].
  assert (length s1 = 76%nat) as L1 by (unfold s1; rewrite skipn_length; lia).
  assert (length s2 = 44%nat) as L2 by (unfold s2; rewrite skipn_length; lia).
  assert (length s3 = 12%nat) as L3 by (unfold s3; rewrite skipn_length; lia).
  assert (length s4 = 8%nat) as L4 by (unfold s4; rewrite skipn_length; lia).
  assert (length s5 = 4%nat) as L5 by (unfold s5; rewrite skipn_length; lia).
  split.
  - unfold serialize_header. cbn [h_version h_time h_prev h_root h_bits h_nonce].
    assert (bytes_ok (firstn 4 s)) as B0 by now apply bytes_ok_firstn.
    assert (bytes_ok (firstn 4 s3)) as B3.
    { apply bytes_ok_firstn. unfold s3, s2, s1. now repeat apply bytes_ok_skipn. }
    pose proof (from_le_bound _ B0) as R0. pose proof (from_le_bound _ B3) as R3.
    rewrite firstn_length_ge in R0, R3 by lia.
    rewrite !int_to_le_ok by assumption. cbn [bind]. rewrite !rev_involutive.
    rewrite (to_le_from_le_n 4 (firstn 4 s)) by (auto; apply firstn_length_ge; lia).
    rewrite (to_le_from_le_n 4 (firstn 4 s3)) by (auto; apply firstn_length_ge; lia).
    f_equal.
    rewrite (firstn_all2 (n:=4) s5) by lia.
    unfold s5. rewrite (firstn_skipn 4 s4). unfold s4. rewrite (firstn_skipn 4 s3).
    unfold s3. rewrite (firstn_skipn 32 s2). unfold s2. rewrite (firstn_skipn 32 s1).
    unfold s1. apply (firstn_skipn 4 s).
  - apply length_zero_iff_nil. rewrite skipn_length. lia.
Qed.

(* ---------------- headers message ---------------- *)

Lemma headers_body_length hs b :
  Forall header_wf hs -> headers_body hs = Ok b -> length b = (81 * length hs)%nat.
Proof.
  revert b; induction hs as [|h r IH]; intros b Hw; cbn.
  - intros [= <-]. reflexivity.
  - inversion Hw as [|? ? Hh Hr]; subst.
    destruct (header_roundtrip h [] Hh) as [hb [E1 [L1 _]]]. rewrite E1. cbn [bind].
    destruct (headers_body r) as [rb|] eqn:E2; [|discriminate]. cbn [bind].
    intros [= <-]. rewrite app_length, L1. cbn [app length]. rewrite (IH rb Hr eq_refl). lia.
Qed.

Lemma headers_loop_roundtrip hs : forall fuel acc rest b,
  Forall header_wf hs -> headers_body hs = Ok b -> (length b <= fuel)%nat ->
  headers_loop fuel (zlen hs) (b ++ rest) acc = Ok (rev acc ++ hs, rest).
Proof.
  induction hs as [|h r IH]; intros fuel acc rest b Hw Hb Hf.
  - cbn in Hb. injection Hb as <-. destruct fuel; cbn; now rewrite app_nil_r.
  - inversion Hw as [|? ? Hh Hr]; subst.
    cbn [headers_body] in Hb.
    destruct (serialize_header h) as [hb|] eqn:E1; [|discriminate]. cbn [bind] in Hb.
    destruct (headers_body r) as [rb|] eqn:E2; [|discriminate]. cbn [bind] in Hb.
    injection Hb as <-.
    destruct (header_roundtrip h (0 :: rb ++ rest) Hh) as [hb' [E1' [L1 P1]]].
    rewrite E1 in E1'. injection E1' as <-.
    assert (zlen (h :: r) = zlen r + 1) as ZL by (unfold zlen; cbn [length]; lia).
    destruct fuel as [|f]; [rewrite !app_length, L1 in Hf; cbn in Hf; lia|].
    cbn [headers_loop]. destruct (zlen (h :: r) <=? 0) eqn:E0; [pose proof (zlen_nonneg r); lia|].
    rewrite <- !app_assoc. cbn [app]. rewrite P1. cbn [app read_varint bind Z.eqb].
    replace (zlen (h :: r) - 1) with (zlen r) by lia.
    rewrite (IH f (h :: acc) rest rb Hr eq_refl).
    + cbn [rev]. now rewrite <- app_assoc.
    + rewrite !app_length, L1 in Hf. cbn in Hf. lia.
Qed.

Lemma headers_roundtrip hs rest :
  Forall header_wf hs -> zlen hs < 18446744073709551616 ->
  exists b, headers_layout hs = Ok b /\ headers_parse (b ++ rest) = Ok (hs, rest).
Proof.
  intros Hw Hl. unfold headers_layout, headers_parse.
  assert (exists hb, headers_body hs = Ok hb) as [hb Hb].
  { clear Hl. induction hs as [|h r IH]; cbn; [eauto|]. inversion Hw; subst.
    destruct (header_roundtrip h [] H1) as [x [E _]]. rewrite E. cbn [bind].
    destruct (IH H2) as [y ->]. cbn [bind]. eauto. }
  destruct (varint_roundtrip (zlen hs) (hb ++ rest)) as [nb [En Rn]];
    [pose proof (zlen_nonneg hs); lia|].
  rewrite En, Hb. cbn [bind]. eexists. split; [reflexivity|].
  rewrite <- app_assoc, Rn. cbn [bind].
  rewrite (headers_loop_roundtrip hs _ [] rest hb Hw Hb); [reflexivity|].
  rewrite app_length. lia.
Qed.

(* ---------------- ping / pong ---------------- *)
Lemma ping_roundtrip nonce rest :
  length nonce = 8%nat -> ping_parse (ping_serialize nonce ++ rest) = (nonce, rest).
Proof. intros H. unfold ping_parse, ping_serialize. now apply read_app. Qed.

(* ---------------- compact-filter messages ---------------- *)

Lemma read_hashes_roundtrip hs : forall acc rest,
  Forall (fun h => length h = 32%nat) hs ->
  read_hashes (length hs) (concat hs ++ rest) acc = (rev acc ++ hs, rest).
Proof.
  induction hs as [|h r IH]; intros acc rest Hw; cbn [length read_hashes concat].
  - cbn. now rewrite app_nil_r.
  - inversion Hw; subst. rewrite <- app_assoc. rewrite (read_app 32) by assumption.
    rewrite IH by assumption. cbn [rev]. now rewrite <- app_assoc.
Qed.

Lemma cfheaders_roundtrip t stop prev hs rest :
  length stop = 32%nat -> length prev = 32%nat ->
  Forall (fun h => length h = 32%nat) hs -> zlen hs < 18446744073709551616 ->
  exists b, cfheaders_layout t stop prev hs = Ok b /\
            cfheaders_parse (b ++ rest) = Ok (t, stop, prev, hs, rest).
Proof.
  intros Ls Lp Hw Hl. unfold cfheaders_layout, cfheaders_parse.
  destruct (varint_roundtrip (zlen hs) (concat hs ++ rest)) as [nb [En Rn]];
    [pose proof (zlen_nonneg hs); lia|].
  rewrite En. cbn [bind]. eexists. split; [reflexivity|].
  cbn [app]. rewrite <- !app_assoc.
  rewrite (read_app 32) by (now rewrite rev_length).
  rewrite (read_app 32) by assumption.
  rewrite Rn. cbn [bind]. unfold zlen. rewrite Nat2Z.id.
  rewrite read_hashes_roundtrip by assumption. cbn [rev app]. now rewrite rev_involutive.
Qed.

Lemma cfcheckpt_roundtrip t stop hs rest :
  length stop = 32%nat ->
  Forall (fun h => length h = 32%nat) hs -> zlen hs < 18446744073709551616 ->
  exists b, cfcheckpt_layout t stop hs = Ok b /\
            cfcheckpt_parse (b ++ rest) = Ok (t, stop, hs, rest).
Proof.
  intros Ls Hw Hl. unfold cfcheckpt_layout, cfcheckpt_parse.
  destruct (varint_roundtrip (zlen hs) (concat hs ++ rest)) as [nb [En Rn]];
    [pose proof (zlen_nonneg hs); lia|].
  rewrite En. cbn [bind]. eexists. split; [reflexivity|].
  cbn [app]. rewrite <- !app_assoc.
  rewrite (read_app 32) by (now rewrite rev_length).
  rewrite Rn. cbn [bind]. unfold zlen. rewrite Nat2Z.id.
  rewrite read_hashes_roundtrip by assumption. cbn [rev app]. now rewrite rev_involutive.
Qed.

Lemma cfilter_roundtrip t bh fb items rest :
  length bh = 32%nat -> zlen fb < 9223372036854775808 -> decode_gcs fb = Ok items ->
  exists b, cfilter_layout t bh fb = Ok b /\
            cfilter_parse (b ++ rest) = Ok (t, bh, fb, items, rest).
Proof.
  intros Lb Hl Hd. unfold cfilter_layout, cfilter_parse.
  destruct (varstr_roundtrip fb rest Hl) as [e [Ee Re]].
  rewrite Ee. cbn [bind]. eexists. split; [reflexivity|].
  cbn [app]. rewrite <- !app_assoc.
  rewrite (read_app 32) by (now rewrite rev_length).
  rewrite Re. cbn [bind]. rewrite Hd. cbn [bind]. now rewrite rev_involutive.
Qed.
