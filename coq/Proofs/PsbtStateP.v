(* Proofs/PsbtStateP.v — PSBT.validate() as a state transformer (Model/PsbtState.v):
   its verdict is the functional [validate]; after a SUCCESSFUL validate the unsigned transaction is
   unchanged except that the inputs whose map carries a final scriptSig have an empty scriptSig and
   an empty witness; after a refusal caused by a final scriptSig that does not verify the
   transaction keeps that scriptSig, and then no repair of the maps makes validate succeed again
   (known finding K-C10-validate-leaves-scriptsig, refuted with a witness). *)
From V Require Import Base.Prelude Base.Ints Model.Helper Model.Script Model.Tx Model.Psbt
  Model.PsbtState Proofs.PsbtDictP Proofs.PsbtFinalP.

Section StateP.
Variable hash160 sha256 hash256 : bytes -> bytes.
Variable sig_parse_ok : bytes -> bytes -> bool.
Variable ecdsa_verify : bytes -> Z -> bytes -> bool.
Variable sighash_legacy : tx -> Z -> option script -> result Z.
Variable sighash_segwit : tx -> Z -> option script -> option script -> result Z.
Variable verify_input : tx -> Z -> script -> option (list bytes) -> result bool.
Variable descends : hd_pub -> bytes -> bytes -> bool.

Notation in_full := (in_full_validate hash160 sha256 hash256 sig_parse_ok ecdsa_verify
                       sighash_legacy sighash_segwit verify_input descends).
Notation ins_val := (ins_validate hash160 sha256 hash256 sig_parse_ok ecdsa_verify
                       sighash_legacy sighash_segwit verify_input descends).
Notation val := (validate hash160 sha256 hash256 sig_parse_ok ecdsa_verify
                       sighash_legacy sighash_segwit verify_input descends).
Notation instate := (in_state hash160 sha256 hash256 sig_parse_ok ecdsa_verify
                       sighash_legacy sighash_segwit verify_input descends).
Notation insstate := (ins_state hash160 sha256 hash256 sig_parse_ok ecdsa_verify
                       sighash_legacy sighash_segwit verify_input descends).
Notation valstate := (validate_state hash160 sha256 hash256 sig_parse_ok ecdsa_verify
                       sighash_legacy sighash_segwit verify_input descends).

Lemma unit_res (r : result unit) : r = match r with Ok _ => Ok tt | Err => Err end.
Proof. destruct r as [[]|]; reflexivity. Qed.

Lemma in_state_verdict t hds i st ti : fst (instate t hds i st ti) = in_full t hds i st ti.
Proof.
  unfold in_state, in_full_validate.
  destruct (in_validate hash160 sha256 hash256 st ti) as [[]|]; cbn [bind fst]; [|reflexivity].
  destruct (s_cmds (i_script ti)); cbn [check bind fst]; [|reflexivity].
  destruct (pi_script_sig st) as [ss|]; cbn [bind fst]; [|reflexivity].
  destruct (verify_input t i ss (pi_witness st)) as [[|]|]; cbn [check bind fst]; reflexivity.
Qed.

(* what a passed iteration leaves in the TxIn *)
Definition settled_in (st : psbt_in) (ti : txin) : txin :=
  match pi_script_sig st with Some _ => cleared ti | None => ti end.

Lemma in_state_ok t hds i st ti u ti' :
  instate t hds i st ti = (Ok u, ti') -> ti' = settled_in st ti.
Proof.
  unfold in_state, settled_in.
  destruct (in_validate hash160 sha256 hash256 st ti) as [[]|]; [|discriminate].
  destruct (s_cmds (i_script ti)); [|discriminate].
  destruct (pi_script_sig st) as [ss|].
  - destruct (verify_input t i ss (pi_witness st)) as [[|]|]; try discriminate. intros H. now inversion H.
  - intros H. now inversion H.
Qed.

Fixpoint settled (ins : list psbt_in) (tis : list txin) : list txin :=
  match ins, tis with
  | st :: r, ti :: r' => settled_in st ti :: settled r r'
  | _, _ => tis
  end.

Lemma ins_state_verdict t hds : forall ins tis i, fst (insstate t hds i ins tis) = ins_val t hds i ins tis.
Proof.
  induction ins as [|st r IH]; intros [|ti r'] i; cbn [ins_state ins_validate fst]; try reflexivity.
  rewrite <- in_state_verdict. destruct (instate t hds i st ti) as [[u|] ti']; cbn [fst bind]; [|reflexivity].
  rewrite <- IH. destruct (insstate t hds (i + 1) r r') as [v l]. reflexivity.
Qed.

Lemma ins_state_ok t hds : forall ins tis i u l,
  insstate t hds i ins tis = (Ok u, l) -> l = settled ins tis.
Proof.
  induction ins as [|st r IH]; intros [|ti r'] i u l H; cbn [ins_state settled] in *; try discriminate.
  - now inversion H.
  - destruct (instate t hds i st ti) as [[u1|] ti'] eqn:E; [|discriminate].
    apply in_state_ok in E. subst ti'.
    destruct (insstate t hds (i + 1) r r') as [v l'] eqn:E2. inversion H; subst.
    f_equal. eapply IH; eauto.
Qed.

(* (i) the verdict is the functional validate *)
Theorem validate_state_verdict p : fst (valstate p) = val p.
Proof.
  unfold validate_state, validate.
  destruct (length (t_ins (p_tx p)) =? length (p_ins p))%nat; cbn [negb check bind fst]; [|reflexivity].
  rewrite <- ins_state_verdict.
  destruct (insstate (p_tx p) (dvals (p_hd p)) 0 (p_ins p) (t_ins (p_tx p))) as [[u|] l]; cbn [fst bind]; reflexivity.
Qed.

(* (ii) a successful validate leaves the transaction as it was, with the finalised inputs cleared *)
Theorem validate_state_ok p t' :
  valstate p = (Ok tt, t') ->
  t' = with_tx_ins (p_tx p) (settled (p_ins p) (t_ins (p_tx p))).
Proof.
  unfold validate_state.
  destruct (length (t_ins (p_tx p)) =? length (p_ins p))%nat; cbn [negb]; [|discriminate].
  destruct (insstate (p_tx p) (dvals (p_hd p)) 0 (p_ins p) (t_ins (p_tx p))) as [[u|] l] eqn:E; [|discriminate].
  apply ins_state_ok in E. subst l. intros H. now inversion H.
Qed.

Lemma settled_none : forall ins tis,
  Forall (fun st => pi_script_sig st = None) ins -> settled ins tis = tis.
Proof.
  induction ins as [|st r IH]; intros [|ti r'] F; cbn [settled]; try reflexivity.
  inversion F as [|? ? F1 F2]; subst. unfold settled_in. rewrite F1. now rewrite IH.
Qed.

Corollary validate_state_unfinalised p t' :
  Forall (fun st => pi_script_sig st = None) (p_ins p) ->
  valstate p = (Ok tt, t') -> t' = p_tx p.
Proof.
  intros F H. apply validate_state_ok in H. rewrite settled_none in H by exact F.
  subst t'. destruct (p_tx p); reflexivity.
Qed.

End StateP.

(* ---- (iii) the refusal that leaves the object unusable ---- *)
Definition vw_ti : txin :=
  {| i_prev_tx := repeatz 1 32; i_prev_index := 0; i_script := mk_script []; i_sequence := 0;
     i_witness := [] |}.
Definition vw_in : psbt_in :=
  {| pi_prev_tx := None; pi_prev_out := None; pi_sigs := []; pi_hash_type := None; pi_redeem := None;
     pi_wscript := None; pi_named := []; pi_script_sig := Some (mk_script [Op 81]); pi_witness := None;
     pi_extra := [] |}.
Definition vw_tx : tx :=
  {| t_version := 2; t_ins := [vw_ti]; t_outs := []; t_locktime := 0; t_segwit := false |}.
Definition vw_p : psbt := {| p_tx := vw_tx; p_ins := [vw_in]; p_outs := []; p_hd := []; p_extra := [] |}.

Theorem validate_leaves_scriptsig_refuted :
  forall hash160 sha256 hash256 sig_parse_ok ecdsa_verify sighash_legacy sighash_segwit verify_input descends,
  verify_input vw_tx 0 (mk_script [Op 81]) None <> Ok true ->       (* the final scriptSig is not valid *)
  let vs := validate_state hash160 sha256 hash256 sig_parse_ok ecdsa_verify sighash_legacy
                           sighash_segwit verify_input descends vw_p in
  fst vs = Err /\ snd vs <> vw_tx /\
  (* no repair of the maps helps: every PSBT over the transaction object as it is now is refused *)
  forall ins outs hd extra,
    validate hash160 sha256 hash256 sig_parse_ok ecdsa_verify sighash_legacy sighash_segwit
             verify_input descends
             {| p_tx := snd vs; p_ins := ins; p_outs := outs; p_hd := hd; p_extra := extra |} <> Ok tt.
Proof.
  intros h160 s256 h256 spo ev shl shs vi de Hbad vs.
  assert (E : vs = (Err, with_tx_ins vw_tx [with_final vw_ti (mk_script [Op 81]) None])).
  { subst vs. unfold validate_state, vw_p. cbn [p_tx p_ins p_hd t_ins vw_tx length Nat.eqb negb dvals map].
    unfold ins_state, in_state.
    replace (in_validate h160 s256 h256 vw_in vw_ti) with (Ok tt) by reflexivity.
    cbn [vw_ti i_script s_cmds mk_script vw_in pi_script_sig pi_witness].
    change {| t_version := 2; t_ins := [vw_ti]; t_outs := []; t_locktime := 0; t_segwit := false |} with vw_tx.
    fold vw_ti.
    destruct (vi vw_tx 0 (mk_script [Op 81]) None) as [[|]|]; [now elim Hbad| |]; reflexivity. }
  rewrite E. cbn [fst snd]. split; [reflexivity|]. split; [discriminate|].
  intros ins outs hd extra V. apply validate_script_sigs_empty in V. cbn in V.
  inversion V as [|? ? H1 _]; subst. discriminate H1.
Qed.
