(* Proofs/CurveSweep.v — boolean, kernel-computable checkers for the laws of
   Proofs/GroupHyp.v on a SMALL curve, and their soundness: if the exhaustive checks
   evaluate to true then [group_laws C] / [scalar_laws C] hold for ALL points (valid points
   are enumerated completely) and ALL integer scalars (rmul reduces mod n, the sweep covers
   a full period 0..n-1).  Used by Proofs/ToyCurve.v and Props/C03*.v. *)
From Coq Require Import Znumtheory.
From V Require Import Base.Prelude Base.Ints Model.Pecc Proofs.GroupHyp.

(* ---------- integer ranges, nested forallb ---------- *)
Definition zrange (lo : Z) (cnt : nat) : list Z := map (fun i => lo + Z.of_nat i) (seq 0 cnt).

Lemma in_zrange lo cnt z : lo <= z < lo + Z.of_nat cnt -> In z (zrange lo cnt).
Proof.
  intros H. unfold zrange. apply in_map_iff. exists (Z.to_nat (z - lo)). split; [lia|].
  apply in_seq. lia.
Qed.

Lemma in_zrange_inv lo cnt z : In z (zrange lo cnt) -> lo <= z < lo + Z.of_nat cnt.
Proof.
  unfold zrange. intros H. apply in_map_iff in H as (i & <- & Hi). apply in_seq in Hi. lia.
Qed.

Lemma forallb2 {A B} (f : A -> B -> bool) la lb :
  forallb (fun a => forallb (f a) lb) la = true ->
  forall a b, In a la -> In b lb -> f a b = true.
Proof.
  intros H a b Ha Hb. rewrite forallb_forall in H. specialize (H a Ha).
  rewrite forallb_forall in H. exact (H b Hb).
Qed.

Lemma forallb3 {A B D} (f : A -> B -> D -> bool) la lb lc :
  forallb (fun a => forallb (fun b => forallb (f a b) lc) lb) la = true ->
  forall a b c, In a la -> In b lb -> In c lc -> f a b c = true.
Proof.
  intros H a b c Ha Hb Hc. pose proof (forallb2 _ _ _ H a b Ha Hb) as H1.
  rewrite forallb_forall in H1. exact (H1 c Hc).
Qed.

(* ---------- primality by trial division ---------- *)
Definition prime_b (p : Z) : bool :=
  (1 <? p) && forallb (fun d => negb (p mod d =? 0)) (zrange 2 (Z.to_nat (p - 2))).

Lemma prime_b_sound p : prime_b p = true -> prime p.
Proof.
  unfold prime_b. intros H. apply andb_true_iff in H as [H1 H2]. apply Z.ltb_lt in H1.
  apply prime_alt. split; [exact H1|]. intros d Hd [q Hq].
  rewrite forallb_forall in H2. assert (Hin : In d (zrange 2 (Z.to_nat (p - 2)))) by (apply in_zrange; lia).
  specialize (H2 d Hin).
  apply negb_true_iff in H2. apply Z.eqb_neq in H2. apply H2.
  subst p. apply Z_mod_mult.
Qed.

(* ---------- points ---------- *)
Definition point_eqb (P Q : point) : bool :=
  match P, Q with
  | None, None => true
  | Some (a, b), Some (c, d) => (a =? c) && (b =? d)
  | _, _ => false
  end.

Lemma point_eqb_eq P Q : point_eqb P Q = true <-> P = Q.
Proof.
  destruct P as [[a b]|], Q as [[c d]|]; cbn; split; intros H; try discriminate; try reflexivity.
  - apply andb_true_iff in H as [H1 H2]. apply Z.eqb_eq in H1, H2. now subst.
  - injection H as -> ->. now rewrite !Z.eqb_refl.
Qed.

Definition res_is (r : result point) (P : point) : bool :=
  match r with Ok R => point_eqb R P | Err => false end.

Lemma res_is_eq r P : res_is r P = true <-> r = Ok P.
Proof.
  destruct r as [R|]; cbn; [rewrite point_eqb_eq|]; split; intros H; try discriminate; congruence.
Qed.

(* association tables (to share scalar multiples between the cubic sweeps) *)
Fixpoint lookup {K V} (eqb : K -> K -> bool) (k : K) (l : list (K * V)) : option V :=
  match l with
  | [] => None
  | (k', v) :: t => if eqb k k' then Some v else lookup eqb k t
  end.

Lemma lookup_tab {K V} (eqb : K -> K -> bool) (f : K -> V) l k v :
  (forall a b, eqb a b = true -> a = b) ->
  lookup eqb k (map (fun x => (x, f x)) l) = Some v -> v = f k.
Proof.
  intros Heq. induction l as [|x l IH]; cbn; [discriminate|].
  destruct (eqb k x) eqn:E; [|exact IH].
  intros [= <-]. now rewrite (Heq _ _ E).
Qed.

Section Sweep.
Variable C : curve.
Let p := cp C.
Let n := cn C.

Definition elems : list Z := zrange 0 (Z.to_nat p).
Definition points : list point :=
  None :: map Some (filter (fun xy => on_curve C (fst xy) (snd xy)) (list_prod elems elems)).

Definition validb (P : point) : bool :=
  match P with
  | None => true
  | Some (x, y) => felem_ok C x && felem_ok C y && on_curve C x y
  end.

Lemma validb_valid P : validb P = true <-> valid C P.
Proof.
  destruct P as [[x y]|]; cbn; [|tauto]. rewrite !andb_true_iff. tauto.
Qed.

Lemma felem_ok_range x : felem_ok C x = true <-> 0 <= x < p.
Proof. unfold felem_ok. fold p. rewrite andb_true_iff, Z.leb_le, Z.ltb_lt. tauto. Qed.

Lemma felem_in_elems x : felem_ok C x = true -> In x elems.
Proof. rewrite felem_ok_range. intros H. apply in_zrange. lia. Qed.

Lemma valid_in_points P : valid C P -> In P points.
Proof.
  destruct P as [[x y]|]; cbn; [|now left]. intros (Hx & Hy & Hc). right.
  apply in_map, filter_In. split; [|exact Hc].
  apply in_prod; now apply felem_in_elems.
Qed.

Lemma points_valid P : In P points -> valid C P.
Proof.
  intros [<-|H]; [exact I|]. apply in_map_iff in H as ([x y] & <- & H).
  apply filter_In in H as [H Hc]. apply in_prod_iff in H as [Hx Hy]. cbn in Hc.
  apply in_zrange_inv in Hx, Hy. cbn. rewrite !felem_ok_range. repeat split; try lia; exact Hc.
Qed.

(* rmul_raw as a total function *)
Definition mulR (k : Z) (P : point) : point :=
  match rmul_raw C k P with Ok R => R | Err => None end.

Definition scalars : list Z := zrange 0 (Z.to_nat n).

(* ---------- the checkers ---------- *)
Definition chk_add_ok : bool :=
  let pts := points in
  forallb (fun P => forallb (fun Q =>
    match padd C P Q with Ok R => validb R | Err => false end) pts) pts.
Definition chk_comm : bool :=
  let pts := points in
  forallb (fun P => forallb (fun Q => point_eqb (addT C P Q) (addT C Q P)) pts) pts.
Definition chk_assoc : bool :=
  let pts := points in
  forallb (fun P => forallb (fun Q => forallb (fun R =>
    point_eqb (addT C (addT C P Q) R) (addT C P (addT C Q R))) pts) pts) pts.
Definition chk_neg : bool :=
  forallb (fun P => validb (negT C P) && point_eqb (addT C P (negT C P)) None) points.
Definition chk_double : bool :=
  forallb (fun P => res_is (rmul_raw C 2 P) (addT C P P)) points.
Definition chk_order : bool :=
  forallb (fun P => res_is (rmul_raw C n P) None) points.
Definition chk_G_order : bool :=
  forallb (fun k => negb (res_is (rmul_raw C k (G C)) None)) (zrange 1 (Z.to_nat (n - 1))).

Definition chk_mul_ok : bool :=
  let pts := points in
  forallb (fun k => forallb (fun P =>
    match rmul_raw C k P with Ok R => validb R | Err => false end) pts) scalars.
(* table of all scalar multiples k*P, 0 <= k < n, P a point *)
Definition mtab : list (point * list (Z * point)) :=
  let ks := scalars in map (fun P => (P, map (fun k => (k, mulR k P)) ks)) points.
Definition tm (T : list (point * list (Z * point))) (k : Z) (P : point) : option point :=
  match lookup point_eqb P T with Some row => lookup Z.eqb k row | None => None end.

Lemma tm_sound k P R : tm mtab k P = Some R -> R = mulR k P.
Proof.
  unfold tm, mtab. cbv zeta.
  destruct (lookup point_eqb P _) as [row|] eqn:E; [|discriminate].
  apply (lookup_tab point_eqb (fun P => map (fun k => (k, mulR k P)) scalars)) in E.
  2:{ intros a b. apply point_eqb_eq. }
  subst row. intros H.
  apply (lookup_tab Z.eqb (fun k => mulR k P)) in H; [exact H|].
  intros a b. apply Z.eqb_eq.
Qed.

Definition chk_mul_add : bool :=
  let pts := points in let ks := scalars in let T := mtab in
  forallb (fun a => forallb (fun b => forallb (fun P =>
    match tm T ((a + b) mod n) P, tm T a P, tm T b P with
    | Some s, Some x, Some y => point_eqb s (addT C x y)
    | _, _, _ => false
    end) pts) ks) ks.
Definition chk_mul_mul : bool :=
  let pts := points in let ks := scalars in let T := mtab in
  forallb (fun a => forallb (fun b => forallb (fun P =>
    match tm T b P with
    | Some bP =>
        match tm T a bP, tm T ((a * b) mod n) P with
        | Some l, Some r => point_eqb l r
        | _, _ => false
        end
    | None => false
    end) pts) ks) ks.
Definition chk_mul_addT : bool :=
  let pts := points in let T := mtab in
  forallb (fun k => forallb (fun P => forallb (fun Q =>
    match tm T k (addT C P Q), tm T k P, tm T k Q with
    | Some s, Some x, Some y => point_eqb s (addT C x y)
    | _, _, _ => false
    end) pts) pts) scalars.
Definition chk_mul_neg1 : bool :=
  forallb (fun P => point_eqb (mulR (n - 1) P) (negT C P)) points.
Definition chk_mul_1 : bool :=
  forallb (fun P => point_eqb (mulR 1 P) P) points.
Definition chk_no_y0 : bool :=
  forallb (fun P => match P with Some (_, y) => negb (y =? 0) | None => true end) points.
Definition chk_same_x : bool :=
  let pts := points in
  forallb (fun P => forallb (fun Q =>
    match P, Q with
    | Some (x1, y1), Some (x2, y2) =>
        negb (x1 =? x2) || (y2 =? y1) || (y2 =? (- y1) mod p)
    | _, _ => true
    end) pts) pts.

(* ---------- soundness ---------- *)
Lemma chk_add_ok_sound : chk_add_ok = true ->
  forall P Q, valid C P -> valid C Q -> padd C P Q = Ok (addT C P Q) /\ valid C (addT C P Q).
Proof.
  intros H P Q HP HQ. unfold chk_add_ok in H. cbv zeta in H.
  pose proof (forallb2 _ _ _ H P Q (valid_in_points _ HP) (valid_in_points _ HQ)) as H1.
  cbv beta in H1. unfold addT. destruct (padd C P Q) as [R|]; [|discriminate].
  split; [reflexivity|]. now apply validb_valid.
Qed.

Lemma chk_comm_sound : chk_comm = true ->
  forall P Q, valid C P -> valid C Q -> addT C P Q = addT C Q P.
Proof.
  intros H P Q HP HQ. unfold chk_comm in H. cbv zeta in H.
  apply point_eqb_eq.
  exact (forallb2 _ _ _ H P Q (valid_in_points _ HP) (valid_in_points _ HQ)).
Qed.

Lemma chk_assoc_sound : chk_assoc = true ->
  forall P Q R, valid C P -> valid C Q -> valid C R ->
  addT C (addT C P Q) R = addT C P (addT C Q R).
Proof.
  intros H P Q R HP HQ HR. unfold chk_assoc in H. cbv zeta in H.
  apply point_eqb_eq.
  exact (forallb3 _ _ _ _ H P Q R (valid_in_points _ HP) (valid_in_points _ HQ)
           (valid_in_points _ HR)).
Qed.

Lemma chk_neg_sound : chk_neg = true ->
  forall P, valid C P -> valid C (negT C P) /\ addT C P (negT C P) = None.
Proof.
  intros H P HP. unfold chk_neg in H. rewrite forallb_forall in H.
  specialize (H P (valid_in_points _ HP)). apply andb_true_iff in H as [H1 H2].
  split; [now apply validb_valid | now apply point_eqb_eq].
Qed.

Lemma chk_double_sound : chk_double = true ->
  forall P, valid C P -> rmul_raw C 2 P = Ok (addT C P P).
Proof.
  intros H P HP. unfold chk_double in H. rewrite forallb_forall in H.
  apply res_is_eq. exact (H P (valid_in_points _ HP)).
Qed.

Lemma chk_order_sound : chk_order = true ->
  forall P, valid C P -> rmul_raw C n P = Ok None.
Proof.
  intros H P HP. unfold chk_order in H. rewrite forallb_forall in H.
  apply res_is_eq. exact (H P (valid_in_points _ HP)).
Qed.

Lemma chk_G_order_sound : chk_G_order = true ->
  forall k, 0 < k < n -> rmul_raw C k (G C) <> Ok None.
Proof.
  intros H k Hk E. unfold chk_G_order in H. rewrite forallb_forall in H.
  assert (Hin : In k (zrange 1 (Z.to_nat (n - 1)))) by (apply in_zrange; lia).
  specialize (H k Hin). apply negb_true_iff in H.
  apply res_is_eq in E. congruence.
Qed.

Theorem group_laws_of_checks :
  prime_b p = true -> 2 < p -> prime_b n = true -> 2 < n ->
  validb (G C) = true -> G C <> None ->
  chk_add_ok = true -> chk_comm = true -> chk_assoc = true -> chk_neg = true ->
  chk_order = true -> chk_G_order = true ->
  group_laws C.
Proof.
  intros Hp Hp2 Hn Hn2 HG HG0 H1 H2 H3 H4 H5 H6. constructor.
  - now apply prime_b_sound.
  - exact Hp2.
  - now apply prime_b_sound.
  - exact Hn2.
  - now apply validb_valid.
  - exact HG0.
  - now apply chk_add_ok_sound.
  - now apply chk_comm_sound.
  - now apply chk_assoc_sound.
  - now apply chk_neg_sound.
  - now apply chk_order_sound.
  - now apply chk_G_order_sound.
Qed.

(* ---------- scalar laws: all integers via reduction mod n ---------- *)
Lemma mulT_mulR k P : mulT C k P = mulR (k mod n) P.
Proof. reflexivity. Qed.

Lemma in_scalars k : 0 < n -> In (k mod n) scalars.
Proof. intros Hn. apply in_zrange. pose proof (Z.mod_pos_bound k n Hn). lia. Qed.

Lemma rmul_pos_inf q : rmul_pos C q None None = Ok None.
Proof. induction q as [q IH|q IH|]; cbn; auto. Qed.

Lemma mulR_inf k : 0 <= k -> mulR k None = None.
Proof.
  intros Hk. unfold mulR, rmul_raw. destruct k as [|q|q]; [reflexivity| |lia].
  now rewrite rmul_pos_inf.
Qed.

Lemma addT_0_l P : addT C None P = P.
Proof. reflexivity. Qed.

Lemma addT_0_r P : addT C P None = P.
Proof. destruct P as [[x y]|]; reflexivity. Qed.

Theorem scalar_laws_of_checks :
  prime_b p = true -> 2 < p -> prime_b n = true -> 2 < n ->
  validb (G C) = true -> G C <> None ->
  chk_add_ok = true -> chk_comm = true -> chk_assoc = true -> chk_neg = true ->
  chk_G_order = true ->
  chk_mul_ok = true -> chk_mul_add = true -> chk_mul_mul = true -> chk_mul_addT = true ->
  chk_mul_neg1 = true -> chk_mul_1 = true -> chk_no_y0 = true -> chk_same_x = true ->
  scalar_laws C.
Proof.
  intros Hp Hp2 Hn Hn2 HG HG0 H1 H2 H3 H4 H6 M1 M2 M3 M4 M5 M6 M7 M8.
  assert (Hn0 : 0 < n) by lia.
  constructor.
  - now apply prime_b_sound.
  - exact Hp2.
  - now apply prime_b_sound.
  - exact Hn2.
  - now apply validb_valid.
  - exact HG0.
  - now apply chk_add_ok_sound.
  - (* mul_ok *)
    intros k P HP. unfold chk_mul_ok in M1. cbv zeta in M1.
    pose proof (forallb2 _ _ _ M1 (k mod n) P (in_scalars k Hn0) (valid_in_points _ HP)) as E.
    cbv beta in E. unfold mulT, rmul. fold n.
    destruct (rmul_raw C (k mod n) P) as [R|]; [|discriminate].
    split; [reflexivity | now apply validb_valid].
  - now apply chk_comm_sound.
  - now apply chk_assoc_sound.
  - apply addT_0_l.
  - apply addT_0_r.
  - intros P HP. now apply chk_neg_sound.
  - intros P HP. now apply chk_neg_sound.
  - (* mul_neg1 *)
    intros P HP. rewrite mulT_mulR.
    replace ((-1) mod n) with (n - 1).
    2:{ apply Z.mod_unique with (q := -1); lia. }
    unfold chk_mul_neg1 in M5. rewrite forallb_forall in M5.
    apply point_eqb_eq. exact (M5 P (valid_in_points _ HP)).
  - intros P HP. rewrite mulT_mulR. rewrite Z.mod_0_l by lia. reflexivity.
  - intros P HP. rewrite mulT_mulR. rewrite Z.mod_1_l by lia.
    unfold chk_mul_1 in M6. rewrite forallb_forall in M6.
    apply point_eqb_eq. exact (M6 P (valid_in_points _ HP)).
  - intros k. rewrite mulT_mulR. apply mulR_inf. pose proof (Z.mod_pos_bound k n Hn0). lia.
  - intros k P. rewrite !mulT_mulR. now rewrite Z.mod_mod by lia.
  - (* mul_add *)
    intros a b P HP. rewrite !mulT_mulR. rewrite Zplus_mod.
    unfold chk_mul_add in M2. cbv zeta in M2.
    pose proof (forallb3 _ _ _ _ M2 (a mod n) (b mod n) P (in_scalars a Hn0) (in_scalars b Hn0)
             (valid_in_points _ HP)) as E. cbv beta in E.
    destruct (tm mtab ((a mod n + b mod n) mod n) P) as [s|] eqn:E1; [|discriminate].
    destruct (tm mtab (a mod n) P) as [x|] eqn:E2; [|discriminate].
    destruct (tm mtab (b mod n) P) as [y|] eqn:E3; [|discriminate].
    apply tm_sound in E1, E2, E3. subst. now apply point_eqb_eq.
  - (* mul_mul *)
    intros a b P HP. rewrite !mulT_mulR. rewrite Zmult_mod.
    unfold chk_mul_mul in M3. cbv zeta in M3.
    pose proof (forallb3 _ _ _ _ M3 (a mod n) (b mod n) P (in_scalars a Hn0) (in_scalars b Hn0)
             (valid_in_points _ HP)) as E. cbv beta in E.
    destruct (tm mtab (b mod n) P) as [bP|] eqn:E1; [|discriminate].
    destruct (tm mtab (a mod n) bP) as [l|] eqn:E2; [|discriminate].
    destruct (tm mtab ((a mod n * (b mod n)) mod n) P) as [r|] eqn:E3; [|discriminate].
    apply tm_sound in E1, E2, E3. subst. now apply point_eqb_eq.
  - (* mul_addT *)
    intros k P Q HP HQ. rewrite !mulT_mulR.
    unfold chk_mul_addT in M4. cbv zeta in M4.
    pose proof (forallb3 _ _ _ _ M4 (k mod n) P Q (in_scalars k Hn0) (valid_in_points _ HP)
             (valid_in_points _ HQ)) as E. cbv beta in E.
    destruct (tm mtab (k mod n) (addT C P Q)) as [s|] eqn:E1; [|discriminate].
    destruct (tm mtab (k mod n) P) as [x|] eqn:E2; [|discriminate].
    destruct (tm mtab (k mod n) Q) as [y|] eqn:E3; [|discriminate].
    apply tm_sound in E1, E2, E3. subst. now apply point_eqb_eq.
  - (* G_order *)
    intros k Hk. rewrite mulT_mulR in Hk.
    pose proof (Z.mod_pos_bound k n Hn0) as Hb.
    destruct (Z.eq_dec (k mod n) 0) as [E|NE]; [exact E|exfalso].
    unfold chk_G_order in H6. rewrite forallb_forall in H6.
    assert (Hin : In (k mod n) (zrange 1 (Z.to_nat (n - 1)))) by (apply in_zrange; lia).
    specialize (H6 (k mod n) Hin). apply negb_true_iff in H6.
    unfold chk_mul_ok in M1. cbv zeta in M1.
    pose proof (forallb2 _ _ _ M1 (k mod n) (G C) (in_scalars k Hn0)
                  (valid_in_points _ (proj1 (validb_valid _) HG))) as E.
    cbv beta in E. unfold mulR in Hk.
    destruct (rmul_raw C (k mod n) (G C)) as [R|]; [|discriminate].
    subst R. cbn in H6. discriminate.
  - (* no_y0 *)
    intros x y Hv Hy. unfold chk_no_y0 in M7. rewrite forallb_forall in M7.
    specialize (M7 _ (valid_in_points _ Hv)). cbn in M7. subst y. discriminate.
  - (* same_x *)
    intros x y1 y2 Hv1 Hv2. unfold chk_same_x in M8. cbv zeta in M8.
    pose proof (forallb2 _ _ _ M8 _ _ (valid_in_points _ Hv1) (valid_in_points _ Hv2)) as E.
    cbv beta iota in E. rewrite Z.eqb_refl in E. cbn [negb orb] in E.
    apply orb_true_iff in E as [E|E]; apply Z.eqb_eq in E; [left|right]; exact E.
Qed.

End Sweep.
