(* Proofs/TaprootSpendP.v — "every leaf is spendable" through the wire form:
   the control block the library builds for a leaf of ANY tree (induction, depth <= 128) serialises,
   parses back `==`, recomputes the merkle root and the output key, and the commitment check of the
   witness-v1 script-path branch accepts [leaf script; control block] (with or without annex).
   Also: sibling order for whole trees (selected swaps, full mirror, leaves are permuted, control
   blocks of the rearranged tree recompute the same key), leaves whose script kept no .raw recompute
   from their OWN script, the .raw shadowing counter-example, TapBranch.combine is total on
   non-empty lists.  sha256 is any function with 32-byte output. *)
From Coq Require Import Permutation.
From V Require Import Base.Prelude Base.Ints Model.Helper Model.Script Model.Pecc Model.Taproot
  Model.TaprootExt Spec.TxWf Proofs.GroupHyp Proofs.CurveAlg Proofs.HelperP Proofs.ScriptP
  Proofs.TaprootP Proofs.TaprootAlg Proofs.TaprootTamper Proofs.TaprootBytes Proofs.TaprootLift
  Proofs.TaprootCodecP.

(* depth of the deepest leaf = longest merkle path *)
Fixpoint height (t : taptree) : nat :=
  match t with Leaf _ _ => O | Branch l r => S (Nat.max (height l) (height r)) end.

(* every branch swapped *)
Fixpoint mirror (t : taptree) : taptree :=
  match t with Leaf v sc => Leaf v sc | Branch l r => Branch (mirror r) (mirror l) end.

(* the children of the branches selected by a pre-order bit list are swapped (missing bits = false);
   returns the unused bits *)
Fixpoint swap_sel (bits : list bool) (t : taptree) : taptree * list bool :=
  match t with
  | Leaf v sc => (Leaf v sc, bits)
  | Branch l r =>
      let '(l', bits1) := swap_sel (tl bits) l in
      let '(r', bits2) := swap_sel bits1 r in
      (if hd false bits then Branch r' l' else Branch l' r', bits2)
  end.

(* ---------------- sibling order, whole trees (no hypotheses) ---------------- *)
Lemma mirror_equiv t : sib_equiv t (mirror t).
Proof.
  induction t as [v sc | l IHl r IHr]; cbn [mirror]; [apply se_refl|].
  eapply se_trans; [apply se_cong; eassumption | apply se_swap].
Qed.

Lemma swap_sel_equiv t : forall bits, sib_equiv t (fst (swap_sel bits t)).
Proof.
  induction t as [v sc | l IHl r IHr]; intros bits; cbn [swap_sel]; [apply se_refl|].
  pose proof (IHl (tl bits)) as Hl. destruct (swap_sel (tl bits) l) as [l' b1]. cbn [fst] in Hl.
  pose proof (IHr b1) as Hr. destruct (swap_sel b1 r) as [r' b2]. cbn [fst] in *.
  destruct (hd false bits).
  - eapply se_trans; [apply se_cong; eassumption | apply se_swap].
  - apply se_cong; assumption.
Qed.

Lemma sib_equiv_sym t t' : sib_equiv t t' -> sib_equiv t' t.
Proof.
  induction 1 as [t | l r | l l' r r' _ IHl _ IHr | a b c _ IH1 _ IH2].
  - apply se_refl.
  - apply se_swap.
  - now apply se_cong.
  - eapply se_trans; eassumption.
Qed.

Lemma sib_equiv_leaves t t' : sib_equiv t t' -> Permutation (leaves t) (leaves t').
Proof.
  induction 1 as [t | l r | l l' r r' _ IHl _ IHr | a b c _ IH1 _ IH2]; cbn [leaves].
  - apply Permutation_refl.
  - apply Permutation_app_comm.
  - now apply Permutation_app.
  - eapply perm_trans; eassumption.
Qed.

(* ---------------- TapBranch.combine is total on non-empty lists ---------------- *)
Lemma combine_nodes_ok : forall fuel nodes,
  nodes <> [] -> (length nodes <= fuel)%nat ->
  exists t, combine_nodes fuel nodes = Ok t /\ leaves t = flat_map leaves nodes.
Proof.
  induction fuel as [|f IH]; intros nodes Hne Hlen.
  - destruct nodes; [congruence | cbn in Hlen; lia].
  - destruct nodes as [|x [|y l]]; [congruence | |].
    + exists x. split; [reflexivity|]. cbn. now rewrite app_nil_r.
    + set (nodes := x :: y :: l) in *.
      assert (E : combine_nodes (S f) nodes =
                  (l0 <- combine_nodes f (firstn (Nat.div2 (length nodes)) nodes) ;;
                   r0 <- combine_nodes f (skipn (Nat.div2 (length nodes)) nodes) ;; Ok (Branch l0 r0)))
        by reflexivity.
      rewrite E. clear E.
      assert (Hh : (1 <= Nat.div2 (length nodes) < length nodes)%nat).
      { split; [unfold nodes; cbn [length Nat.div2]; lia | apply Nat.lt_div2; unfold nodes; cbn [length]; lia]. }
      set (h := Nat.div2 (length nodes)) in *.
      destruct (IH (firstn h nodes)) as (tl_ & Hl & Ll).
      { intros E0. apply (f_equal (@length _)) in E0. rewrite firstn_length in E0. cbn [length] in E0. lia. }
      { rewrite firstn_length. lia. }
      destruct (IH (skipn h nodes)) as (tr_ & Hr & Lr).
      { intros E0. apply (f_equal (@length _)) in E0. rewrite skipn_length in E0. cbn [length] in E0. lia. }
      { rewrite skipn_length. lia. }
      rewrite Hl, Hr. cbn [bind]. eexists. split; [reflexivity|].
      cbn [leaves]. rewrite Ll, Lr, <- flat_map_app, firstn_skipn. reflexivity.
Qed.

Theorem combine_total nodes : nodes <> [] ->
  exists t, combine_nodes (length nodes) nodes = Ok t /\ leaves t = flat_map leaves nodes.
Proof. intros H. apply combine_nodes_ok; [exact H | lia]. Qed.

Section Spend.
Variable C : curve.
Variable sha256 : bytes -> bytes.
Hypothesis sha_len : forall x, length (sha256 x) = 32%nat.

Notation tree_hash := (tree_hash sha256).
Notation path_hashes := (path_hashes sha256).

Lemma tree_hash_len t h : tree_hash t = Ok h -> length h = 32%nat.
Proof.
  destruct t as [v sc | l r]; cbn [Taproot.tree_hash].
  - unfold tap_leaf_hash. destruct (leaf_preimage v sc); cbn [bind]; [|discriminate].
    intros [= <-]. apply (tagged_len sha256 sha_len).
  - destruct (tree_hash l); cbn [bind]; [|discriminate]. destruct (tree_hash r); cbn [bind]; [|discriminate].
    intros [= <-]. apply (tagged_len sha256 sha_len).
Qed.

(* a merkle path is never longer than the tree is deep, and consists of 32-byte hashes *)
Lemma path_hashes_shape t : forall lf hs,
  path_hashes t lf = Ok (Some hs) -> (length hs <= height t)%nat /\ Forall len32 hs.
Proof.
  induction t as [v sc | l IHl r IHr]; intros lf hs H; cbn [Taproot.path_hashes height] in *.
  - inversion H; subst. split; [cbn; lia | constructor].
  - destruct (leaf_in lf l).
    + destruct (path_hashes l lf) as [[ph|]|] eqn:E; cbn [bind] in H; try discriminate.
      destruct (tree_hash r) as [rh|] eqn:Er; cbn [bind] in H; [|discriminate].
      inversion H; subst hs. destruct (IHl lf ph E) as [L F]. split.
      * rewrite app_length. cbn [length]. lia.
      * apply Forall_app. split; [exact F|]. constructor; [exact (tree_hash_len r rh Er) | constructor].
    + destruct (leaf_in lf r); [|discriminate].
      destruct (path_hashes r lf) as [[ph|]|] eqn:E; cbn [bind] in H; try discriminate.
      destruct (tree_hash l) as [lh|] eqn:El; cbn [bind] in H; [|discriminate].
      inversion H; subst hs. destruct (IHr lf ph E) as [L F]. split.
      * rewrite app_length. cbn [length]. lia.
      * apply Forall_app. split; [exact F|]. constructor; [exact (tree_hash_len l lh El) | constructor].
Qed.

(* the hashes of the control block are the merkle path *)
Lemma control_block_path t P lf cb :
  tree_control_block C sha256 t P lf = Ok (Some cb) -> path_hashes t lf = Ok (Some (cb_hashes cb)).
Proof.
  destruct t as [v sc | l r]; unfold tree_control_block.
  - destruct (negb (leaf_eqb lf (v, sc))); [discriminate|].
    destruct (tree_external_pubkey C sha256 (Leaf v sc) P) as [Q|]; cbn [bind]; [|discriminate].
    destruct (parity Q) as [par|]; cbn [bind]; [|discriminate].
    intros [= <-]. reflexivity.
  - destruct (negb (leaf_in lf (Branch l r))); [discriminate|].
    destruct (tree_external_pubkey C sha256 (Branch l r) P) as [Q|]; cbn [bind]; [|discriminate].
    destruct (parity Q) as [par|]; cbn [bind]; [|discriminate].
    destruct (path_hashes (Branch l r) lf) as [[hs|]|]; cbn [bind]; try discriminate.
    intros [= <-]. reflexivity.
Qed.

Lemma parity_bit Q par : parity Q = Ok par -> par = 0 \/ par = 1.
Proof.
  destruct Q as [[x y]|]; cbn [parity]; [|discriminate]. intros [= <-].
  pose proof (Z.mod_pos_bound y 2 ltac:(lia)). lia.
Qed.

(* the script enters the recomputation only through its serialisation *)
Lemma cb_external_pubkey_ser cb sc sc' :
  serialize_script sc = serialize_script sc' ->
  cb_merkle_root sha256 cb sc = cb_merkle_root sha256 cb sc' /\
  cb_external_pubkey C sha256 cb sc = cb_external_pubkey C sha256 cb sc'.
Proof.
  intros E. unfold cb_external_pubkey, cb_merkle_root, tap_leaf_hash, leaf_preimage. now rewrite E.
Qed.

(* ---- every leaf, any tree shape: build, serialize, parse, recompute ---- *)
Theorem control_block_wire t P lf lf' root Q par :
  scalar_laws C -> lift_x_ok C -> valid C P -> P <> None ->
  find (leaf_eqb lf) (leaves t) = Some lf' ->
  tree_hash t = Ok root -> tweaked_key C sha256 P root = Ok Q -> parity Q = Ok par ->
  0 <= fst lf' <= 254 -> fst lf' mod 2 = 0 -> (height t <= 128)%nat ->
  exists cb raw cb',
    tree_control_block C sha256 t P lf = Ok (Some cb) /\
    cb_serialize cb = Ok raw /\
    length raw = (33 + 32 * length (cb_hashes cb))%nat /\
    (length (cb_hashes cb) <= height t)%nat /\
    firstn 1 raw = [fst lf' + par] /\
    cb_parse C raw = Ok cb' /\
    cb_version cb' = fst lf' /\ cb_parity cb' = par /\ cb_key cb' = evenT C P /\
    cb_hashes cb' = cb_hashes cb /\
    cb_eqb cb' cb = Ok true /\
    cb_merkle_root sha256 cb' (snd lf') = Ok root /\
    cb_external_pubkey C sha256 cb' (snd lf') = Ok Q.
Proof.
  intros SL LIFT Hv Hn Hf Hh HQ Hpar Hver Hev Hht.
  destruct (control_block_recomputes C sha256 t P lf lf' root Q par Hf Hh HQ Hpar)
    as (cb & Hcb & Cv & Cp & Ck & Cm & Ce).
  destruct (path_hashes_shape t lf (cb_hashes cb) (control_block_path t P lf cb Hcb)) as [Lh Fh].
  pose proof (parity_bit Q par Hpar) as Hbit.
  destruct (cb_roundtrip_lift C cb SL LIFT) as (raw & cb' & Hs & Hl & Hp & Hrec & Hs' & Heq);
    try (rewrite ?Ck, ?Cv, ?Cp; assumption); [lia|].
  exists cb, raw, cb'. split; [exact Hcb|]. split; [exact Hs|]. split; [exact Hl|]. split; [exact Lh|].
  split.
  { unfold cb_serialize, int_to_byte in Hs. rewrite Cv, Cp in Hs.
    destruct ((255 <? fst lf' + par) || (fst lf' + par <? 0)); [discriminate|].
    cbn [bind] in Hs. injection Hs as <-. reflexivity. }
  split; [exact Hp|].
  subst cb'. cbn [cb_version cb_parity cb_key cb_hashes].
  split; [exact Cv|]. split; [exact Cp|]. split; [now rewrite Ck|]. split; [reflexivity|].
  split; [exact Heq|].
  assert (Em : cb_merkle_root sha256
                 {| cb_version := cb_version cb; cb_parity := cb_parity cb;
                    cb_key := evenT C (cb_key cb); cb_hashes := cb_hashes cb |} (snd lf') = Ok root)
    by exact Cm.
  split; [exact Em|].
  unfold cb_external_pubkey. rewrite Em. cbn [bind cb_key]. rewrite Ck.
  destruct P as [[x y]|]; [|congruence].
  destruct (evenT_parity C SL x y Hv) as (y' & Ey & _).
  pose proof (evenT_valid C SL _ Hv) as Hv'. rewrite Ey in *.
  rewrite (tweaked_key_same_x C sha256 SL x y' y root Hv' Hv). exact HQ.
Qed.

(* ---- the commitment check of Script.evaluate on a two/three item witness ---- *)
Definition tap_script_of (rs : bytes) : result script :=
  s <- encode_varstr rs ;; '(sc, _) <- parse_script s ;; Ok sc.

Lemma commit_core q rs raw :
  has_annex [rs; raw] = false ->
  script_path_commit_check C sha256 q [rs; raw] =
    (cb <- cb_parse C raw ;; sc <- tap_script_of rs ;;
     tp <- cb_external_pubkey C sha256 cb sc ;; par <- parity tp ;;
     if negb (par =? cb_parity cb) then Ok false else Ok (beq (xonly tp) q)).
Proof.
  intros H. unfold script_path_commit_check. rewrite H.
  unfold witness_control_block, witness_tap_script, item_from_end. rewrite H.
  reflexivity.
Qed.

Lemma commit_annex q rs raw a :
  has_annex [rs; raw] = false ->
  script_path_commit_check C sha256 q [rs; raw; 80 :: a] = script_path_commit_check C sha256 q [rs; raw].
Proof.
  intros H. unfold script_path_commit_check.
  assert (Ha : has_annex [rs; raw; 80 :: a] = true) by reflexivity.
  rewrite Ha, H. reflexivity.
Qed.

Lemma has_annex_two rs b0 rest : has_annex [rs; b0 :: rest] = (b0 =? 80).
Proof. reflexivity. Qed.

(* the honest script-path spend of any leaf of any tree passes the commitment check *)
Theorem honest_spend_commits t P lf lf' root Q par cs rs :
  scalar_laws C -> lift_x_ok C -> valid C P -> P <> None ->
  find (leaf_eqb lf) (leaves t) = Some lf' ->
  tree_hash t = Ok root -> tweaked_key C sha256 P root = Ok Q -> parity Q = Ok par ->
  0 <= fst lf' <= 254 -> fst lf' mod 2 = 0 -> fst lf' <> 80 -> (height t <= 128)%nat ->
  snd lf' = mk_script cs -> cmds_wfb cs = true -> ser_cmds cs = Ok rs ->
  zlen rs < 9223372036854775808 ->
  exists cb raw,
    tree_control_block C sha256 t P lf = Ok (Some cb) /\ cb_serialize cb = Ok raw /\
    script_path_commit_check C sha256 (xonly Q) [rs; raw] = Ok true /\
    forall annex, script_path_commit_check C sha256 (xonly Q) [rs; raw; 80 :: annex] = Ok true.
Proof.
  intros SL LIFT Hv Hn Hf Hh HQ Hpar Hver Hev H80 Hht Hsc W Hser Hl.
  destruct (control_block_wire t P lf lf' root Q par SL LIFT Hv Hn Hf Hh HQ Hpar Hver Hev Hht)
    as (cb & raw & cb' & Hcb & Hs & Hlen & _ & H0 & Hp & Cv & Cp & _ & _ & _ & _ & Ce).
  exists cb, raw. split; [exact Hcb|]. split; [exact Hs|].
  destruct raw as [|b0 rest]; [cbn in Hlen; lia|].
  change (firstn 1 (b0 :: rest)) with [b0] in H0. injection H0 as Hb0.
  pose proof (parity_bit Q par Hpar) as Hbit.
  assert (Hna : has_annex [rs; b0 :: rest] = false).
  { rewrite has_annex_two. apply Z.eqb_neq. subst b0. intros E.
    destruct Hbit as [-> | ->]; [lia|].
    assert (Hodd : fst lf' = 79) by lia. rewrite Hodd in Hev. discriminate. }
  assert (Hcore : script_path_commit_check C sha256 (xonly Q) [rs; b0 :: rest] = Ok true).
  { rewrite (commit_core _ _ _ Hna), Hp. cbn [bind].
    destruct (script_stream_roundtrip cs W rs Hser Hl) as (e & He & _ & Hps).
    unfold serialize_script, raw_serialize in He. cbn [mk_script s_raw s_cmds] in He.
    rewrite Hser in He. cbn [bind] in He.
    unfold tap_script_of. rewrite He. cbn [bind].
    specialize (Hps []). rewrite app_nil_r in Hps. rewrite Hps. cbn [bind].
    assert (Eser : serialize_script (mk_script (canon_cmds cs)) = serialize_script (snd lf')).
    { rewrite Hsc. unfold serialize_script, raw_serialize. cbn [mk_script s_raw s_cmds].
      now rewrite ser_cmds_canon. }
    rewrite (proj2 (cb_external_pubkey_ser cb' _ _ Eser)), Ce. cbn [bind]. rewrite Hpar. cbn [bind].
    rewrite Cp, Z.eqb_refl. cbn [negb]. now rewrite beq_refl. }
  split; [exact Hcore|]. intros annex. now rewrite (commit_annex _ _ _ _ Hna).
Qed.

(* ---- leaves whose scripts kept no .raw recompute from their OWN script ---- *)
Theorem every_leaf_own_script t P lf root Q par :
  (forall l, In l (leaves t) -> s_raw (snd l) = None) ->
  In lf (leaves t) ->
  tree_hash t = Ok root -> tweaked_key C sha256 P root = Ok Q -> parity Q = Ok par ->
  exists cb,
    tree_control_block C sha256 t P lf = Ok (Some cb) /\
    cb_version cb = fst lf /\ cb_parity cb = par /\ cb_key cb = P /\
    cb_merkle_root sha256 cb (snd lf) = Ok root /\
    cb_external_pubkey C sha256 cb (snd lf) = Ok Q.
Proof.
  intros Hraw Hin Hh HQ Hpar.
  destruct (in_find_leaf lf t Hin) as (lf' & Hf & Heq).
  assert (Hin' : In lf' (leaves t)) by (apply find_some in Hf; tauto).
  apply leaf_eqb_spec in Heq as [Ev Ec].
  pose proof (Hraw lf Hin) as R1. pose proof (Hraw lf' Hin') as R2.
  assert (Es : snd lf = snd lf').
  { destruct lf as [v [c rw]], lf' as [v' [c' rw']]; cbn in *. congruence. }
  destruct (control_block_recomputes C sha256 t P lf lf' root Q par Hf Hh HQ Hpar)
    as (cb & Hcb & Cv & Cp & Ck & Cm & Ce).
  exists cb. rewrite Es, Ev. repeat split; assumption.
Qed.

(* ---- the control blocks of a tree with rearranged siblings recompute the same key ---- *)
Theorem sib_equiv_control_block t t' P lf root Q par :
  sib_equiv t t' -> In lf (leaves t) ->
  tree_hash t = Ok root -> tweaked_key C sha256 P root = Ok Q -> parity Q = Ok par ->
  tree_hash t' = Ok root /\
  exists lf'' cb',
    find (leaf_eqb lf) (leaves t') = Some lf'' /\ leaf_eqb lf lf'' = true /\
    tree_control_block C sha256 t' P lf = Ok (Some cb') /\
    cb_version cb' = fst lf /\ cb_parity cb' = par /\
    cb_merkle_root sha256 cb' (snd lf'') = Ok root /\
    cb_external_pubkey C sha256 cb' (snd lf'') = Ok Q.
Proof.
  intros Hse Hin Hh HQ Hpar.
  assert (Hh' : tree_hash t' = Ok root) by (rewrite <- (tree_hash_sib_equiv sha256 t t' Hse); exact Hh).
  split; [exact Hh'|].
  assert (Hin' : In lf (leaves t')) by (eapply Permutation_in; [apply sib_equiv_leaves; exact Hse | exact Hin]).
  destruct (in_find_leaf lf t' Hin') as (lf'' & Hf & Heq).
  destruct (control_block_recomputes C sha256 t' P lf lf'' root Q par Hf Hh' HQ Hpar)
    as (cb & Hcb & Cv & Cp & Ck & Cm & Ce).
  exists lf'', cb. repeat split; try assumption.
  rewrite Cv. symmetry. apply (proj1 (leaf_eqb_spec _ _)) in Heq. tauto.
Qed.

End Spend.

(* ---- .raw shadowing: a leaf whose script kept a .raw (an inexact parse) behind an `==` leaf ---- *)
Definition shadow_first : script := {| s_cmds := [Push [170]]; s_raw := None |}.
Definition shadow_second : script := {| s_cmds := [Push [170]]; s_raw := Some [2; 170] |}.
Definition shadow_tree : taptree := Branch (Leaf 192 shadow_first) (Leaf 192 shadow_second).
Definition shadow_leaf : leaf := (192, shadow_second).

(* Script.parse(raw = 02 aa) is the second script: the parse is inexact, so .raw is kept *)
Lemma shadow_second_parsed : parse_raw [2; 170] = Ok shadow_second.
Proof. reflexivity. Qed.

Theorem every_leaf_own_script_refuted :
  exists t lf, In lf (leaves t) /\
  forall (C : curve) (sha256 : bytes -> bytes) P root Q par,
    (forall x, length (sha256 x) = 32%nat) ->
    tree_hash sha256 t = Ok root -> tweaked_key C sha256 P root = Ok Q -> parity Q = Ok par ->
    exists cb root',
      tree_control_block C sha256 t P lf = Ok (Some cb) /\
      cb_merkle_root sha256 cb (snd lf) = Ok root' /\
      (root' <> root \/ collision sha256).
Proof.
  exists shadow_tree, shadow_leaf. split; [cbn; tauto|].
  intros C sha256 P root Q par sha_len Hh HQ Hpar.
  set (h1 := hash_tapleaf sha256 [192; 2; 1; 170]).
  set (h2 := hash_tapleaf sha256 [192; 2; 2; 170]).
  assert (E1 : tree_hash sha256 shadow_tree = Ok (branch_hash sha256 h1 h2)) by reflexivity.
  assert (Er : root = branch_hash sha256 h1 h2) by congruence.
  assert (Ep : path_hashes sha256 shadow_tree shadow_leaf = Ok (Some [h2])) by reflexivity.
  assert (Ein : leaf_in shadow_leaf shadow_tree = true) by reflexivity.
  exists {| cb_version := 192; cb_parity := par; cb_key := P; cb_hashes := [h2] |}, (branch_hash sha256 h2 h2).
  split.
  { unfold tree_control_block, shadow_tree. fold shadow_tree. rewrite Ein. cbn [negb].
    unfold tree_external_pubkey. rewrite Hh. cbn [bind]. rewrite HQ. cbn [bind]. rewrite Hpar. cbn [bind].
    rewrite Ep. reflexivity. }
  split; [reflexivity|].
  assert (L1 : length h1 = 32%nat) by apply (tagged_len sha256 sha_len).
  assert (L2 : length h2 = 32%nat) by apply (tagged_len sha256 sha_len).
  destruct (tagged_inj sha256 tag_tapleaf [192; 2; 1; 170] [192; 2; 2; 170] ltac:(discriminate)) as [D|Col];
    [|right; exact Col].
  fold (hash_tapleaf sha256 [192; 2; 1; 170]) in D. fold (hash_tapleaf sha256 [192; 2; 2; 170]) in D.
  fold h1 h2 in D.
  destruct (tagged_inj sha256 tag_tapbranch _ _ (branch_preimage_inj_l h2 h1 h2 L2 L1 L2 (not_eq_sym D)))
    as [D'|Col]; [|right; exact Col].
  left. rewrite Er. exact D'.
Qed.
