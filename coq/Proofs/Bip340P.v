(* Proofs/Bip340P.v — proofs for C02: tagged-hash cache transparency; model = BIP340 for
   signing (byte for byte) and verification (accept/reject), under scalar_laws. *)
From Coq Require Import Znumtheory Zdiv Setoid Morphisms String.
From V Require Import Base.Prelude Base.Ints Base.Disp Base.Fermat Model.Pecc Model.Phash
  Proofs.GroupHyp Proofs.BytesP Proofs.EcdsaP Spec.Bip340.
Local Existing Instance eqm_setoid.
Local Existing Instance Zplus_eqm.
Local Existing Instance Zmult_eqm.
Local Existing Instance Zminus_eqm.
Local Existing Instance Zopp_eqm.

(* ================================================================== tagged hash cache *)

Section Cache.
Variable sha256 : bytes -> bytes.

(* invariant of TAG_HASH_CACHE: every binding is tag |-> sha256(tag) * 2 *)
Definition cache_ok (c : cache) : Prop :=
  forall t v, In (t, v) c -> v = sha256 t ++ sha256 t.

Lemma cache_get_in c tag v : cache_get c tag = Some v -> exists t, In (t, v) c /\ t = tag.
Proof.
  induction c as [|[t w] c IH]; cbn [cache_get]; [discriminate|].
  destruct (beq t tag) eqn:E.
  - intros [= <-]. apply beq_eq in E. exists t. split; [now left|assumption].
  - intros H. destruct (IH H) as [t' [Hin Ht]]. exists t'. split; [now right|assumption].
Qed.

Lemma th_step_ok c tag msg :
  cache_ok c ->
  cache_ok (fst (th_step sha256 c (tag, msg))) /\
  snd (th_step sha256 c (tag, msg)) = tagged_hash sha256 tag msg.
Proof.
  intros Hc. unfold th_step, tagged_hash.
  destruct (cache_get c tag) as [pre|] eqn:E; cbn [fst snd].
  - split; [assumption|].
    destruct (cache_get_in _ _ _ E) as [t [Hin ->]].
    rewrite (Hc _ _ Hin). now rewrite <- app_assoc.
  - split.
    + intros t v [[= <- <-]|Hin]; [reflexivity|now apply Hc].
    + now rewrite <- app_assoc.
Qed.

(* every result of every call history equals the uncached definition *)
Theorem tagged_hash_cache_transparent : forall calls c,
  cache_ok c ->
  snd (th_run sha256 c calls) = map (fun '(tag, msg) => tagged_hash sha256 tag msg) calls /\
  cache_ok (fst (th_run sha256 c calls)).
Proof.
  induction calls as [|[tag msg] rest IH]; intros c Hc; cbn [th_run map].
  - split; [reflexivity|assumption].
  - destruct (th_step_ok c tag msg Hc) as [Hc1 Hd].
    destruct (th_step sha256 c (tag, msg)) as [c1 d] eqn:E1. cbn [fst snd] in Hc1, Hd.
    destruct (IH c1 Hc1) as [Hds Hc2].
    destruct (th_run sha256 c1 rest) as [c2 ds] eqn:E2. cbn [fst snd] in *.
    split; [now rewrite Hd, Hds|assumption].
Qed.

Lemma cache_ok_nil : cache_ok [].
Proof. intros t v []. Qed.

(* the same as an invariant of the left fold over the history (state, last digest) *)
Theorem tagged_hash_fold_invariant : forall calls c,
  cache_ok c ->
  Forall (fun '((tag, msg), d) => d = tagged_hash sha256 tag msg)
         (combine calls (snd (th_run sha256 c calls))).
Proof.
  intros calls c Hc. destruct (tagged_hash_cache_transparent calls c Hc) as [E _]. rewrite E.
  clear. induction calls as [|[t m] r IH]; cbn [map combine]; [constructor|constructor; [reflexivity|exact IH]].
Qed.

End Cache.

(* ================================================================== byte-level facts *)

Lemma int_of_from_be b : int_of b = from_be b.
Proof. apply horner0_from_be. Qed.

Lemma xor_eq a b : xor_bytes a b = xor a b.
Proof. reflexivity. Qed.   (* the two fixpoints are written identically *)

Lemma tags_eq : tag_aux = t_aux /\ tag_nonce = t_nonce /\ tag_challenge = t_challenge.
Proof. repeat split; reflexivity. Qed.

Lemma beq_to_be32 a b : 0 <= a < 2 ^ 256 -> 0 <= b < 2 ^ 256 ->
  beq (to_be 32 a) (to_be 32 b) = (a =? b).
Proof.
  intros Ha Hb. destruct (a =? b) eqn:E.
  - apply Z.eqb_eq in E. subst. apply beq_refl.
  - apply Z.eqb_neq in E. apply beq_neq. intros H. apply E.
    apply (to_be_inj 32); rewrite ?pow256_32; assumption.
Qed.

Lemma firstn32_ok sig : bytes_ok sig -> bytes_ok (firstn 32 sig).
Proof. apply bytes_ok_firstn. Qed.

(* ================================================================== curve-level facts *)

Section Curve.
Variable C : curve.
Variable sha256 : bytes -> bytes.
Hypothesis SL : scalar_laws C.
Hypothesis Ha0 : ca C = 0.
Hypothesis Hp34 : cp C mod 4 = 3.
Hypothesis Hp256 : cp C <= 2 ^ 256.
Hypothesis Hn256 : cn C <= 2 ^ 256.
Let p := cp C.
Let n := cn C.

Lemma p_gt2 : 2 < p. Proof. exact (sl_p_odd C SL). Qed.
Lemma p_prime : prime p. Proof. exact (sl_p_prime C SL). Qed.
Lemma p_odd : p mod 2 = 1.
Proof.
  pose proof Hp34 as H. fold p in H.
  rewrite (Z_div_mod_eq_full p 4), H. replace (4 * (p / 4) + 3) with (1 + (2 * (p / 4) + 1) * 2) by ring.
  rewrite Z.mod_add by lia. reflexivity.
Qed.

Lemma fpow_nonneg a k : 0 <= k -> fpow C a k = modpow a k p.
Proof. intros H. unfold fpow. fold p. destruct (0 <=? k) eqn:E; [reflexivity|lia]. Qed.

(* the curve equation as the model checks it, with a = 0 *)
Lemma on_curve_eq x y : on_curve C x y = ((y * y) mod p =? (x ^ 3 + cb C) mod p).
Proof.
  pose proof p_gt2 as Hp.
  unfold on_curve. rewrite !fpow_nonneg by lia. rewrite !modpow_spec by lia.
  unfold fadd, fmul. fold p. rewrite Ha0. rewrite Z.mul_0_l, Z.mod_0_l, Z.add_0_r, Z.mod_mod by lia.
  rewrite Zplus_mod_idemp_l. rewrite Z.pow_2_r. reflexivity.
Qed.

Lemma valid_some x y :
  valid C (Some (x, y)) <-> 0 <= x < p /\ 0 <= y < p /\ (y * y) mod p = (x ^ 3 + cb C) mod p.
Proof.
  cbn [valid]. unfold felem_ok. fold p. rewrite on_curve_eq.
  rewrite !andb_true_iff, !Z.leb_le, !Z.ltb_lt, Z.eqb_eq. tauto.
Qed.

(* ---------------- lift_x ---------------- *)

Lemma lift_x_sound x P : 0 <= x -> lift_x C x = Some P ->
  exists y, P = Some (x, y) /\ valid C P /\ y mod 2 = 0 /\ x < p.
Proof.
  intros Hx. unfold lift_x. fold p. pose proof p_gt2 as Hp. pose proof p_odd as Hodd.
  destruct (p <=? x) eqn:E1; [discriminate|]. apply Z.leb_gt in E1.
  set (c := (x ^ 3 + cb C) mod p). set (y := modpow c ((p + 1) / 4) p).
  destruct (c =? (y * y) mod p) eqn:E2; cbn [negb]; [|discriminate]. apply Z.eqb_eq in E2.
  assert (Hy : 0 <= y < p) by (apply modpow_range; [apply Z.div_pos; lia|lia]).
  intros [= <-].
  destruct (y mod 2 =? 0) eqn:E3.
  - apply Z.eqb_eq in E3. exists y. split; [reflexivity|]. split; [|split; [assumption|lia]].
    apply valid_some. fold c. repeat split; try lia.
  - apply Z.eqb_neq in E3. exists (p - y).
    assert (Hy1 : y mod 2 = 1) by (pose proof (Z.mod_pos_bound y 2 ltac:(lia)); lia).
    assert (Hy0 : y <> 0) by (intros ->; cbn in Hy1; lia).
    split; [reflexivity|]. split; [|split; [|lia]].
    + apply valid_some. fold c. repeat split; try lia.
      rewrite E2. replace ((p - y) * (p - y)) with (y * y + (p - 2 * y) * p) by ring.
      apply Z.mod_add. lia.
    + rewrite Zminus_mod, Hodd, Hy1. reflexivity.
Qed.

Lemma lift_x_complete x y : valid C (Some (x, y)) -> exists P, lift_x C x = Some P.
Proof.
  intros HV. apply valid_some in HV as [Hx [Hy Heq]]. pose proof p_gt2 as Hp.
  unfold lift_x. fold p.
  destruct (p <=? x) eqn:E1; [apply Z.leb_le in E1; lia|].
  pose proof (sqrt_p34 p y p_prime Hp34) as Hs. cbv zeta in Hs.
  rewrite <- Heq. rewrite Hs. rewrite Z.eqb_refl. cbn [negb]. eexists. reflexivity.
Qed.

(* two valid points with even y over the same x coincide *)
Lemma even_unique x y1 y2 :
  valid C (Some (x, y1)) -> valid C (Some (x, y2)) -> y1 mod 2 = 0 -> y2 mod 2 = 0 -> y1 = y2.
Proof.
  intros V1 V2 E1 E2. pose proof p_gt2 as Hp. pose proof p_odd as Hodd.
  destruct (sl_same_x C SL x y1 y2 V1 V2) as [H|H]; [now symmetry|exfalso].
  pose proof (sl_no_y0 C SL x y1 V1) as Hnz.
  apply valid_some in V1 as [_ [Hy1 _]].
  fold p in H. assert (H' : y2 = p - y1).
  { rewrite H. symmetry. apply Zmod_unique with (-1); lia. }
  rewrite H', Zminus_mod, Hodd, E1 in E2. cbn in E2. lia.
Qed.

Lemma lift_x_of_valid x y : valid C (Some (x, y)) -> y mod 2 = 0 -> lift_x C x = Some (Some (x, y)).
Proof.
  intros HV He. destruct (lift_x_complete x y HV) as [P HP].
  assert (Hx : 0 <= x) by (apply valid_some in HV; lia).
  destruct (lift_x_sound x P Hx HP) as [y' [-> [HV' [He' _]]]].
  rewrite HP. now rewrite (even_unique x y' y HV' HV He' He).
Qed.

(* ---------------- parse_xonly = lift_x (except at 0, which the code maps to infinity) ---- *)

Lemma parse_xonly_lift b : bytes_ok b -> from_be b <> 0 ->
  parse_xonly C b = opt_res (lift_x C (from_be b)).
Proof.
  intros Hb Hnz. pose proof (from_be_bound b Hb) as [Hx _]. pose proof p_gt2 as Hp.
  unfold parse_xonly, lift_x. fold p. set (x := from_be b) in *.
  destruct (x =? 0) eqn:E0; [apply Z.eqb_eq in E0; contradiction|].
  unfold felem_ok at 1. fold p.
  replace (0 <=? x) with true by (symmetry; apply Z.leb_le; lia). cbn [andb].
  destruct (p <=? x) eqn:E1.
  - replace (x <? p) with false by (symmetry; apply Z.ltb_ge; apply Z.leb_le in E1; lia). reflexivity.
  - replace (x <? p) with true by (symmetry; apply Z.ltb_lt; apply Z.leb_gt in E1; lia). cbn [negb].
    assert (Ec : fadd C (fpow C x 3) (cb C) = (x ^ 3 + cb C) mod p).
    { unfold fadd. fold p. rewrite fpow_nonneg, modpow_spec by lia. apply Zplus_mod_idemp_l. }
    rewrite Ec. set (c := (x ^ 3 + cb C) mod p).
    unfold fsqrt. fold p. rewrite fpow_nonneg by (apply Z.div_pos; lia).
    set (y := modpow c ((p + 1) / 4) p).
    assert (Hy : 0 <= y < p) by (apply modpow_range; [apply Z.div_pos; lia|lia]).
    unfold fmul. fold p. rewrite (Z.eqb_sym ((y * y) mod p) c).
    destruct (c =? (y * y) mod p) eqn:E2; cbn [negb bind opt_res]; [|reflexivity].
    apply Z.eqb_eq in E2.
    assert (Hm : 0 <= y mod 2 < 2) by (apply Z.mod_pos_bound; lia).
    destruct (y mod 2 =? 1) eqn:E3.
    + apply Z.eqb_eq in E3. replace (y mod 2 =? 0) with false by (symmetry; apply Z.eqb_neq; lia).
      assert (y <> 0) by (intros ->; cbn in E3; lia).
      unfold felem_ok. fold p.
      replace (0 <=? p - y) with true by (symmetry; apply Z.leb_le; lia).
      replace (p - y <? p) with true by (symmetry; apply Z.ltb_lt; lia). cbn [andb].
      unfold mk_point. rewrite on_curve_eq. fold c. rewrite E2.
      replace ((p - y) * (p - y)) with (y * y + (p - 2 * y) * p) by ring.
      rewrite Z.mod_add by lia. now rewrite Z.eqb_refl.
    + apply Z.eqb_neq in E3. replace (y mod 2 =? 0) with true by (symmetry; apply Z.eqb_eq; lia).
      unfold mk_point. rewrite on_curve_eq. fold c. rewrite E2. now rewrite Z.eqb_refl.
Qed.

Lemma parse_xonly_zero b : from_be b = 0 -> parse_xonly C b = Ok None.
Proof. intros H. unfold parse_xonly. now rewrite H. Qed.

Lemma parse_point_32 b : length b = 32%nat -> parse_point C b = parse_xonly C b.
Proof. intros H. unfold parse_point. now rewrite H. Qed.


(* ---------------- the even representative ---------------- *)

Definition evenP (P : point) : point :=
  match P with
  | Some (x, y) => if y mod 2 =? 1 then negT C P else P
  | None => None
  end.

Lemma evenP_props x y : valid C (Some (x, y)) ->
  exists y', evenP (Some (x, y)) = Some (x, y') /\ valid C (Some (x, y')) /\ y' mod 2 = 0.
Proof.
  intros HV. cbn [evenP]. pose proof p_gt2 as Hp. pose proof p_odd as Hodd.
  assert (Hm : 0 <= y mod 2 < 2) by (apply Z.mod_pos_bound; lia).
  destruct (y mod 2 =? 1) eqn:E.
  - apply Z.eqb_eq in E. cbn [negT]. fold p. exists ((- y) mod p).
    split; [reflexivity|]. split; [exact (sl_neg_valid C SL _ HV)|].
    apply valid_some in HV as [_ [Hy _]].
    assert (y <> 0) by (intros ->; cbn in E; lia).
    replace ((- y) mod p) with (p - y) by (apply Zmod_unique with (-1); lia).
    rewrite Zminus_mod, Hodd, E. reflexivity.
  - apply Z.eqb_neq in E. exists y. split; [reflexivity|]. split; [assumption|lia].
Qed.

Lemma even_point_ok x y : valid C (Some (x, y)) ->
  even_point C (Some (x, y)) = Ok (evenP (Some (x, y))).
Proof.
  intros HV. unfold even_point. cbn [parity bind evenP].
  destruct (y mod 2 =? 1); [|reflexivity].
  unfold pneg. destruct (sl_mul_ok C SL (-1) _ HV) as [E _]. rewrite E.
  now rewrite (sl_mul_neg1 C SL _ HV).
Qed.

Lemma evenP_mul d x y : valid C (G C) -> mulT C d (G C) = Some (x, y) ->
  evenP (Some (x, y)) = mulT C (if y mod 2 =? 1 then n - d else d) (G C).
Proof.
  intros HG E. cbn [evenP]. destruct (y mod 2 =? 1); [|now symmetry].
  rewrite <- E. rewrite <- (mulT_neg C SL) by assumption.
  apply (mulT_congr C SL). unfold eqm. replace (n - d) with (- d + 1 * n) by ring.
  symmetry. apply Z.mod_add. pose proof (sl_n_odd C SL). lia.
Qed.

(* ---------------- what verify_schnorr computes ---------------- *)

Definition challenge (xr xp : Z) (m : bytes) : Z :=
  from_be (tagged_hash sha256 tag_challenge (to_be 32 xr ++ to_be 32 xp ++ m)) mod n.

Definition verify_point (xr xp : Z) (P : point) (m : bytes) (s : Z) : point :=
  addT C (mulT C s (G C)) (negT C (mulT C (challenge xr xp m) (evenP P))).

Lemma schnorr_verify_core xp yp xr yr m s :
  valid C (Some (xp, yp)) -> 0 <= xr < 2 ^ 256 ->
  schnorr_verify C sha256 (Some (xp, yp)) m (Some (xr, yr)) s =
  Ok (match verify_point xr xp (Some (xp, yp)) m s with
      | None => false
      | Some (x', y') => (y' mod 2 =? 0) && (x' =? xr)
      end).
Proof.
  intros HV Hxr. pose proof (sl_G_valid C SL) as HG.
  unfold schnorr_verify. rewrite even_point_ok by assumption. cbn [bind].
  destruct (evenP_props xp yp HV) as [ype [EP [HVe Heven]]].
  unfold verify_point. rewrite EP. cbn [xonly]. fold n. fold (challenge xr xp m).
  set (e := challenge xr xp m).
  destruct (sl_mul_ok C SL (- e) _ HVe) as [E1 V1]. rewrite E1. cbn [bind].
  unfold padd_int.
  destruct (sl_mul_ok C SL s _ HG) as [E2 V2]. rewrite E2. cbn [bind].
  destruct (sl_add_ok C SL _ _ V1 V2) as [E3 V3]. rewrite E3. cbn [bind].
  rewrite (sl_add_comm C SL) by assumption.
  rewrite (mulT_neg C SL) by assumption.
  rewrite (sl_add_comm C SL) in V3 by assumption.
  rewrite (mulT_neg C SL) in V3 by assumption.
  destruct (addT C (mulT C s (G C)) (negT C (mulT C e (Some (xp, ype))))) as [[x' y']|]; [|reflexivity].
  apply valid_some in V3 as [Hx' [Hy' _]].
  assert (Hm : 0 <= y' mod 2 < 2) by (apply Z.mod_pos_bound; lia).
  cbn [xonly]. rewrite beq_to_be32 by (fold p in Hp256; lia).
  destruct (y' mod 2 =? 1) eqn:E.
  - apply Z.eqb_eq in E. replace (y' mod 2 =? 0) with false by (symmetry; apply Z.eqb_neq; lia). reflexivity.
  - apply Z.eqb_neq in E. replace (y' mod 2 =? 0) with true by (symmetry; apply Z.eqb_eq; lia). reflexivity.
Qed.

(* what BIP340 Verify computes once the key lifts to an even valid point *)
Lemma bip340_verify_core pk m sig xp yp :
  lift_x C (int_of pk) = Some (Some (xp, yp)) -> yp mod 2 = 0 ->
  let r := from_be (firstn 32 sig) in
  let s := from_be (firstn 32 (skipn 32 sig)) in
  bip340_verify C sha256 pk m sig =
  if p <=? r then false else if n <=? s then false
  else match verify_point r xp (Some (xp, yp)) m s with
       | None => false
       | Some (x', y') => (y' mod 2 =? 0) && (x' =? r)
       end.
Proof.
  intros HL Heven r s. unfold bip340_verify. rewrite HL.
  rewrite !int_of_from_be. fold r. fold s. fold p. fold n.
  destruct (p <=? r); [reflexivity|]. destruct (n <=? s); [reflexivity|].
  unfold verify_point, challenge. cbn [evenP].
  replace (yp mod 2 =? 1) with false by (symmetry; apply Z.eqb_neq; lia).
  unfold bytesP, bytes32, x_of.
  destruct tags_eq as [_ [_ <-]]. unfold hash_tag, tagged_hash.
  fold n.
  destruct (addT C _ _) as [[x' y']|]; [|reflexivity].
  cbn [is_infinite has_even_y x_of]. destruct (y' mod 2 =? 0); reflexivity.
Qed.


(* ---------------- signing ---------------- *)

Lemma sig_split (a b : bytes) : length a = 32%nat -> length b = 32%nat ->
  firstn 32 (a ++ b) = a /\ firstn 32 (skipn 32 (a ++ b)) = b.
Proof.
  intros Ha Hb. split.
  - rewrite <- Ha at 1. apply firstn_app_exact.
  - replace (skipn 32 (a ++ b)) with b by (rewrite <- Ha; symmetry; apply skipn_app_exact).
    rewrite <- Hb. apply firstn_all.
Qed.

(* the algebraic heart: R' = s*G - e*P_even is the even representative of k0*G *)
Lemma sign_point d k0 xp yp xr yr m :
  mulT C d (G C) = Some (xp, yp) -> mulT C k0 (G C) = Some (xr, yr) ->
  let ed := if yp mod 2 =? 1 then n - d else d in
  let k := if yr mod 2 =? 1 then n - k0 else k0 in
  let s := (k + ed * challenge xr xp m) mod n in
  verify_point xr xp (Some (xp, yp)) m s = evenP (Some (xr, yr)).
Proof.
  intros EP ER ed k s. pose proof (sl_G_valid C SL) as HG. pose proof (sl_n_odd C SL) as Hn.
  unfold verify_point. set (h := challenge xr xp m) in *.
  rewrite (evenP_mul d xp yp HG EP). fold ed.
  rewrite (evenP_mul k0 xr yr HG ER). fold k.
  rewrite (sl_mul_mul C SL) by assumption.
  rewrite <- (mulT_neg C SL) by assumption.
  rewrite <- (sl_mul_add C SL) by assumption.
  apply (mulT_congr C SL). unfold s. fold n. rewrite Zmod_eqm. apply eq_refl_eqm. ring.
Qed.

(* BIP340's own self-check (Verify(bytes(P), m, sig)) succeeds on the produced signature *)
Lemma spec_self_verify d k0 xp yp xr yr m :
  mulT C d (G C) = Some (xp, yp) -> mulT C k0 (G C) = Some (xr, yr) ->
  let ed := if yp mod 2 =? 1 then n - d else d in
  let k := if yr mod 2 =? 1 then n - k0 else k0 in
  let s := (k + ed * challenge xr xp m) mod n in
  bip340_verify C sha256 (to_be 32 xp) m (to_be 32 xr ++ to_be 32 s) = true.
Proof.
  intros EP ER ed k s. pose proof (sl_G_valid C SL) as HG. pose proof (sl_n_odd C SL) as Hn. fold n in Hn.
  assert (VR : valid C (Some (xr, yr))) by (rewrite <- ER; apply (mulT_valid C SL); assumption).
  assert (VP : valid C (Some (xp, yp))) by (rewrite <- EP; apply (mulT_valid C SL); assumption).
  assert (Hs : 0 <= s < n) by (apply Z.mod_pos_bound; lia).
  assert (Hxr : 0 <= xr < 2 ^ 256) by (apply valid_some in VR; fold p in Hp256; lia).
  assert (Hxp : 0 <= xp < 2 ^ 256) by (apply valid_some in VP; fold p in Hp256; lia).
  pose proof (sign_point d k0 xp yp xr yr m EP ER) as HPt. cbv zeta in HPt.
  fold ed in HPt. fold k in HPt. fold s in HPt.
  destruct (evenP_props xr yr VR) as [yre [ERe [VRe Hyre]]]. rewrite ERe in HPt.
  destruct (evenP_props xp yp VP) as [ype [EPe [VPe Hype]]].
  destruct (sig_split (to_be 32 xr) (to_be 32 s) (to_be_length _ _) (to_be_length _ _)) as [S1 S2].
  rewrite (bip340_verify_core (to_be 32 xp) m _ xp ype).
  - rewrite S1, S2. rewrite !from_be_to_be by (rewrite pow256_32; fold n in Hn256; lia).
    replace (p <=? xr) with false by (symmetry; apply Z.leb_gt; apply valid_some in VR; lia).
    replace (n <=? s) with false by (symmetry; apply Z.leb_gt; lia).
    assert (HPt' : verify_point xr xp (Some (xp, ype)) m s = Some (xr, yre)).
    { rewrite <- HPt. unfold verify_point. f_equal. f_equal. f_equal.
      rewrite EPe. cbn [evenP]. replace (ype mod 2 =? 1) with false by (symmetry; apply Z.eqb_neq; lia).
      reflexivity. }
    rewrite HPt'. replace (yre mod 2 =? 0) with true by (symmetry; apply Z.eqb_eq; assumption).
    rewrite Z.eqb_refl. reflexivity.
  - rewrite int_of_from_be, from_be_to_be by (rewrite pow256_32; lia).
    apply lift_x_of_valid; assumption.
  - assumption.
Qed.


Theorem sign_eq_bip340 d m a :
  length m = 32%nat -> length a = 32%nat ->
  schnorr_sign C sha256 d m a = opt_res (bip340_sign C sha256 d m a).
Proof.
  intros Hm Ha. pose proof (sl_G_valid C SL) as HG. pose proof (sl_n_odd C SL) as Hn. fold n in Hn.
  unfold schnorr_sign, bip340_sign, bip340_k, even_secret, pubkey. fold n.
  destruct ((n - 1 <? d) || (d <? 1))%bool eqn:Erange.
  { replace ((d <=? 0) || (n <=? d))%bool with true; [reflexivity|].
    symmetry. apply orb_true_iff. apply orb_true_iff in Erange. destruct Erange as [E|E].
    - right. apply Z.ltb_lt in E. apply Z.leb_le. lia.
    - left. apply Z.ltb_lt in E. apply Z.leb_le. lia. }
  apply orb_false_iff in Erange as [E1 E2]. apply Z.ltb_ge in E1. apply Z.ltb_ge in E2.
  replace ((d <=? 0) || (n <=? d))%bool with false.
  2:{ symmetry. apply orb_false_iff. split; [apply Z.leb_gt|apply Z.leb_gt]; lia. }
  destruct (sl_mul_ok C SL d _ HG) as [EdG VdG]. rewrite EdG. cbn [bind].
  destruct (mulT C d (G C)) as [[xp yp]|] eqn:EP.
  2:{ exfalso. apply (kG_not_inf C SL d); [fold n; lia|assumption]. }
  cbn [parity bind has_even_y]. rewrite Hm, Ha. cbn [Nat.eqb negb orb].
  assert (Hmod : 0 <= yp mod 2 < 2) by (apply Z.mod_pos_bound; lia).
  set (ed := if yp mod 2 =? 1 then n - d else d).
  assert (Hed : (if yp mod 2 =? 0 then d else n - d) = ed).
  { unfold ed. destruct (yp mod 2 =? 1) eqn:E; destruct (yp mod 2 =? 0) eqn:E'; try reflexivity; lia. }
  rewrite Hed.
  assert (Hedr : 0 <= ed < pow256 32).
  { rewrite pow256_32. unfold ed. fold n in Hn256. destruct (yp mod 2 =? 1); lia. }
  rewrite int_to_be_ok by assumption. cbn [bind].
  destruct tags_eq as [Ta [Tn Tc]]. rewrite xor_eq.
  unfold bytesP, bytes32, x_of. cbn [xonly].
  change (tagged_hash sha256) with (hash_tag sha256). rewrite Ta, Tn, !int_of_from_be.
  set (k0 := from_be (hash_tag sha256 t_nonce
               (xor (to_be 32 ed) (hash_tag sha256 t_aux a) ++ to_be 32 xp ++ m)) mod n).
  destruct (sl_mul_ok C SL k0 _ HG) as [Ek0 Vk0]. rewrite Ek0. cbn [bind].
  destruct (k0 =? 0) eqn:Ek00.
  { apply Z.eqb_eq in Ek00. rewrite Ek00. rewrite (sl_mul_0 C SL _ HG). reflexivity. }
  apply Z.eqb_neq in Ek00.
  assert (Hk0 : 1 <= k0 < n) by (pose proof (Z.mod_pos_bound
    (from_be (hash_tag sha256 t_nonce (xor (to_be 32 ed) (hash_tag sha256 t_aux a) ++ to_be 32 xp ++ m))) n
    ltac:(lia)); fold k0 in H; lia).
  destruct (mulT C k0 (G C)) as [[xr yr]|] eqn:ER.
  2:{ exfalso. apply (kG_not_inf C SL k0); [fold n; lia|assumption]. }
  cbn [parity bind has_even_y].
  assert (Hmr : 0 <= yr mod 2 < 2) by (apply Z.mod_pos_bound; lia).
  set (k := if yr mod 2 =? 1 then n - k0 else k0).
  assert (Hk : (if yr mod 2 =? 0 then k0 else n - k0) = k).
  { unfold k. destruct (yr mod 2 =? 1) eqn:E; destruct (yr mod 2 =? 0) eqn:E'; try reflexivity; lia. }
  rewrite Hk.
  (* the model's R: recomputed when odd *)
  match goal with |- bind ?X _ = _ => assert (ERm : X = Ok (evenP (Some (xr, yr)))) end.
  { rewrite (evenP_mul k0 xr yr HG ER). fold k. unfold k.
    destruct (yr mod 2 =? 1); [apply (sl_mul_ok C SL _ _ HG)|now rewrite ER]. }
  rewrite ERm. cbn [bind].
  assert (VR : valid C (Some (xr, yr))) by (rewrite <- ER; apply (mulT_valid C SL); assumption).
  assert (VP : valid C (Some (xp, yp))) by assumption.
  destruct (evenP_props xr yr VR) as [yre [ERe [VRe Hyre]]]. rewrite ERe. cbn [xonly].
  rewrite Tc.
  change (from_be (hash_tag sha256 t_challenge (to_be 32 xr ++ to_be 32 xp ++ m)) mod n)
    with (challenge xr xp m).
  set (h := challenge xr xp m).
  replace ((k + h * ed) mod n) with ((k + ed * h) mod n) by (f_equal; ring).
  set (s := (k + ed * h) mod n).
  assert (Hs : 0 <= s < n) by (apply Z.mod_pos_bound; lia).
  replace (n <=? s) with false by (symmetry; apply Z.leb_gt; lia).
  assert (Hxr : 0 <= xr < 2 ^ 256).
  { apply valid_some in VR. fold p in Hp256. lia. }
  assert (Hxp : 0 <= xp < 2 ^ 256).
  { apply valid_some in VP. fold p in Hp256. lia. }
  (* both verifications succeed *)
  pose proof (sign_point d k0 xp yp xr yr m EP ER) as HPt. cbv zeta in HPt.
  fold ed in HPt. fold k in HPt. fold h in HPt. fold s in HPt. rewrite ERe in HPt.
  rewrite schnorr_verify_core by assumption. rewrite HPt.
  replace (yre mod 2 =? 0) with true by (symmetry; apply Z.eqb_eq; assumption).
  rewrite Z.eqb_refl. cbn [andb].
  unfold schnorr_serialize. rewrite int_to_be_ok by (rewrite pow256_32; fold n in Hn256; lia).
  cbn [bind xonly].
  pose proof (spec_self_verify d k0 xp yp xr yr m EP ER) as HSV. cbv zeta in HSV.
  fold ed in HSV. fold k in HSV. fold h in HSV. fold s in HSV. rewrite HSV. reflexivity.
Qed.


(* ---------------- verification = BIP340 Verify ---------------- *)

(* the code maps the x-only key 0 to the point at infinity; BIP340's lift_x(0) fails because
   no curve point has x = 0 (7 is not a square mod p): a fact about the parameters *)
Hypothesis Hlift0 : lift_x C 0 = None.

Lemma Hx0 : forall y, ~ valid C (Some (0, y)).
Proof. intros y HV. destruct (lift_x_complete 0 y HV) as [P HP]. congruence. Qed.

Lemma verify_point_valid xr xp yp m s : valid C (Some (xp, yp)) ->
  valid C (verify_point xr xp (Some (xp, yp)) m s).
Proof.
  intros HV. unfold verify_point. pose proof (sl_G_valid C SL) as HG.
  destruct (evenP_props xp yp HV) as [ype [-> [HVe _]]].
  apply (sl_add_ok C SL).
  - now apply (mulT_valid C SL).
  - apply (sl_neg_valid C SL). now apply (mulT_valid C SL).
Qed.

Theorem verify_iff_bip340 pk m sig :
  length pk = 32%nat -> bytes_ok pk -> length sig = 64%nat -> bytes_ok sig ->
  schnorr_accepts C sha256 pk m sig = bip340_verify C sha256 pk m sig.
Proof.
  intros Lpk Bpk Lsig Bsig. pose proof p_gt2 as Hp.
  unfold schnorr_accepts, schnorr_verify_bytes. rewrite parse_point_32 by assumption.
  destruct (Z.eq_dec (from_be pk) 0) as [Ex0|Ex0].
  { (* key 0 *)
    rewrite parse_xonly_zero by assumption. cbn [bind].
    replace (bip340_verify C sha256 pk m sig) with false.
    - destruct (schnorr_parse C sig) as [[r s]|]; reflexivity.
    - unfold bip340_verify. rewrite int_of_from_be, Ex0, Hlift0. reflexivity. }
  rewrite parse_xonly_lift by assumption.
  destruct (lift_x C (from_be pk)) as [P|] eqn:EL.
  2:{ cbn [opt_res bind]. unfold bip340_verify. rewrite int_of_from_be, EL. reflexivity. }
  pose proof (from_be_bound pk Bpk) as [Hxp0 _].
  destruct (lift_x_sound _ P Hxp0 EL) as [yp [-> [HVP [Hyp Hxpp]]]].
  set (xp := from_be pk) in *.
  rewrite (bip340_verify_core pk m sig xp yp) by (rewrite ?int_of_from_be; assumption).
  cbn [opt_res bind].
  (* the signature *)
  assert (Lrb : length (firstn 32 sig) = 32%nat) by (rewrite firstn_length; lia).
  assert (Brb : bytes_ok (firstn 32 sig)) by now apply bytes_ok_firstn.
  unfold schnorr_parse. rewrite parse_point_32 by assumption. fold n.
  set (r := from_be (firstn 32 sig)). set (s := from_be (firstn 32 (skipn 32 sig))).
  pose proof (verify_point_valid r xp yp m s HVP) as HVR.
  destruct (Z.eq_dec r 0) as [Er0|Er0].
  { (* R = 0 : parsed as the point at infinity, rejected by verify_schnorr *)
    rewrite parse_xonly_zero by assumption. cbn [bind].
    replace (p <=? r) with false by (symmetry; apply Z.leb_gt; lia).
    destruct (n <=? s); [reflexivity|]. cbn [bind].
    unfold schnorr_verify. rewrite even_point_ok by assumption. cbn [bind].
    destruct (verify_point r xp (Some (xp, yp)) m s) as [[x' y']|]; [|reflexivity].
    destruct (x' =? r) eqn:E; [|now rewrite andb_false_r].
    apply Z.eqb_eq in E. exfalso. rewrite E, Er0 in HVR. exact (Hx0 y' HVR). }
  rewrite parse_xonly_lift by assumption. fold r.
  pose proof (from_be_bound _ Brb) as [Hr0 Hr1]. fold r in Hr0, Hr1. rewrite Lrb, pow256_32 in Hr1.
  destruct (lift_x C r) as [Rp|] eqn:ELr.
  2:{ (* R is not the x coordinate of a curve point (or >= p) *)
    cbn [opt_res bind].
    destruct (p <=? r); [reflexivity|]. destruct (n <=? s); [reflexivity|].
    destruct (verify_point r xp (Some (xp, yp)) m s) as [[x' y']|]; [|reflexivity].
    destruct (x' =? r) eqn:E; [|now rewrite andb_false_r].
    apply Z.eqb_eq in E. exfalso. rewrite E in HVR.
    destruct (lift_x_complete r y' HVR) as [Q HQ]. congruence. }
  destruct (lift_x_sound r Rp Hr0 ELr) as [yr [-> [HVRp [Hyr Hrp]]]].
  cbn [opt_res bind].
  replace (p <=? r) with false by (symmetry; apply Z.leb_gt; lia).
  destruct (n <=? s); [reflexivity|]. cbn [bind].
  rewrite schnorr_verify_core by (try assumption; lia).
  destruct (verify_point r xp (Some (xp, yp)) m s) as [[x' y']|]; [|reflexivity].
  destruct ((y' mod 2 =? 0) && (x' =? r)); reflexivity.
Qed.

(* ---------------- the signature verifies under the x-only key ---------------- *)

Theorem sign_verifies d m a sig :
  length m = 32%nat -> length a = 32%nat ->
  schnorr_sign C sha256 d m a = Ok sig ->
  length sig = 64%nat /\ bytes_ok sig /\
  schnorr_verify_bytes C sha256 (xonly (mulT C d (G C))) m sig = Ok true /\
  bip340_verify C sha256 (xonly (mulT C d (G C))) m sig = true.
Proof.
  intros Hm Ha Hs. rewrite sign_eq_bip340 in Hs by assumption.
  unfold bip340_sign in Hs. fold n in Hs.
  destruct ((d <=? 0) || (n <=? d))%bool; [discriminate|].
  set (P := mulT C d (G C)) in *.
  destruct (_ =? 0) in Hs; [discriminate|].
  match type of Hs with opt_res (if bip340_verify _ _ ?pk _ ?sgt then _ else _) = _ =>
    set (sg := sgt) in *; destruct (bip340_verify C sha256 pk m sg) eqn:EV; [|discriminate] end.
  cbn [opt_res] in Hs. injection Hs as <-.
  assert (Lsg : length sg = 64%nat).
  { unfold sg, bytesP, bytes32. rewrite app_length, !to_be_length. reflexivity. }
  assert (Bsg : bytes_ok sg).
  { unfold sg, bytesP, bytes32. apply bytes_ok_app. split; apply to_be_ok. }
  assert (Epk : bytesP P = xonly P).
  { unfold bytesP, bytes32, x_of, xonly. destruct P as [[x y]|]; reflexivity. }
  rewrite Epk in EV.
  split; [assumption|]. split; [assumption|]. split; [|assumption].
  assert (Lpk : length (xonly P) = 32%nat) by (unfold xonly; destruct P as [[x y]|]; apply to_be_length).
  assert (Bpk : bytes_ok (xonly P)) by (unfold xonly; destruct P as [[x y]|]; apply to_be_ok).
  pose proof (verify_iff_bip340 (xonly P) m sg Lpk Bpk Lsg Bsg) as Hiff.
  rewrite EV in Hiff. unfold schnorr_accepts in Hiff.
  destruct (schnorr_verify_bytes C sha256 (xonly P) m sg) as [[|]|]; try discriminate. reflexivity.
Qed.

(* under the laws signing fails only when the derived nonce is 0 (probability 2^-256) *)
Theorem sign_total d m a k0 :
  1 <= d < n -> length m = 32%nat -> length a = 32%nat ->
  bip340_k C sha256 d m a = Ok k0 -> k0 <> 0 ->
  exists sig, schnorr_sign C sha256 d m a = Ok sig.
Proof.
  intros Hd Hm Ha Hk Hk0. pose proof (sl_G_valid C SL) as HG. pose proof (sl_n_odd C SL) as Hn. fold n in Hn.
  destruct (schnorr_sign C sha256 d m a) as [sig|] eqn:E; [eexists; reflexivity|exfalso].
  rewrite sign_eq_bip340 in E by assumption.
  destruct (bip340_sign C sha256 d m a) as [sg|] eqn:ES; [discriminate|]. clear E.
  revert Hk ES. unfold bip340_sign, bip340_k, even_secret, pubkey. fold n.
  replace ((n - 1 <? d) || (d <? 1))%bool with false.
  2:{ symmetry. apply orb_false_iff. split; apply Z.ltb_ge; lia. }
  replace ((d <=? 0) || (n <=? d))%bool with false.
  2:{ symmetry. apply orb_false_iff. split; apply Z.leb_gt; lia. }
  destruct (sl_mul_ok C SL d _ HG) as [EdG VdG]. rewrite EdG. cbn [bind].
  destruct (mulT C d (G C)) as [[xp yp]|] eqn:EP.
  2:{ exfalso. apply (kG_not_inf C SL d); [fold n; lia|assumption]. }
  cbn [parity bind has_even_y]. rewrite Hm, Ha. cbn [Nat.eqb negb orb].
  assert (Hmod : 0 <= yp mod 2 < 2) by (apply Z.mod_pos_bound; lia).
  set (ed := if yp mod 2 =? 1 then n - d else d).
  assert (Hed : (if yp mod 2 =? 0 then d else n - d) = ed).
  { unfold ed. destruct (yp mod 2 =? 1) eqn:E; destruct (yp mod 2 =? 0) eqn:E'; try reflexivity; lia. }
  rewrite Hed.
  assert (Hedr : 0 <= ed < pow256 32).
  { rewrite pow256_32. unfold ed. fold n in Hn256. destruct (yp mod 2 =? 1); lia. }
  rewrite int_to_be_ok by assumption. cbn [bind].
  destruct tags_eq as [Ta [Tn Tc]]. rewrite xor_eq.
  unfold bytesP, bytes32, x_of. cbn [xonly].
  change (tagged_hash sha256) with (hash_tag sha256). rewrite Ta, Tn, !int_of_from_be.
  set (k' := from_be (hash_tag sha256 t_nonce
               (xor (to_be 32 ed) (hash_tag sha256 t_aux a) ++ to_be 32 xp ++ m)) mod n).
  intros [= <-].
  replace (k' =? 0) with false by (symmetry; apply Z.eqb_neq; assumption).
  assert (Hk0r : 1 <= k' < n).
  { pose proof (Z.mod_pos_bound (from_be (hash_tag sha256 t_nonce
      (xor (to_be 32 ed) (hash_tag sha256 t_aux a) ++ to_be 32 xp ++ m))) n ltac:(lia)) as Hb.
    fold k' in Hb. lia. }
  destruct (mulT C k' (G C)) as [[xr yr]|] eqn:ER.
  2:{ exfalso. apply (kG_not_inf C SL k'); [fold n; lia|assumption]. }
  cbn [has_even_y].
  assert (Hmr : 0 <= yr mod 2 < 2) by (apply Z.mod_pos_bound; lia).
  set (k := if yr mod 2 =? 1 then n - k' else k').
  assert (Hkk : (if yr mod 2 =? 0 then k' else n - k') = k).
  { unfold k. destruct (yr mod 2 =? 1) eqn:E; destruct (yr mod 2 =? 0) eqn:E'; try reflexivity; lia. }
  rewrite Hkk.
  change (from_be (hash_tag sha256 t_challenge (to_be 32 xr ++ to_be 32 xp ++ m)) mod n)
    with (from_be (hash_tag sha256 t_challenge (to_be 32 xr ++ to_be 32 xp ++ m)) mod n).
  rewrite <- Tc.
  change (from_be (hash_tag sha256 tag_challenge (to_be 32 xr ++ to_be 32 xp ++ m)) mod n)
    with (challenge xr xp m).
  replace ((k + challenge xr xp m * ed) mod n) with ((k + ed * challenge xr xp m) mod n) by (f_equal; ring).
  pose proof (spec_self_verify d k' xp yp xr yr m EP ER) as HSV. cbv zeta in HSV.
  fold ed in HSV. fold k in HSV. rewrite HSV. discriminate.
Qed.

End Curve.
