(* Proofs/SeedP.v — HDPrivateKey.from_mnemonic (path "m"): the seed is
   PBKDF2-HMAC-SHA512(normalized mnemonic, "mnemonic" || passphrase, 2048, 64) in the
   sense of RFC 8018 (Spec/Pbkdf2S.v), the master secret and chain code are the halves of
   HMAC-SHA512("Bitcoin seed", seed).  HMAC-SHA512 is any function with 64-byte output. *)
From V Require Import Base.Prelude Base.Ints Model.Mnemonic Model.Pbkdf2 Spec.Pbkdf2S Proofs.Pbkdf2P.

Section Seed.
  Variable sha256 : bytes -> bytes.
  Variable hmac_sha512 : bytes -> bytes -> bytes.
  Hypothesis hmac_len : forall k m, zlen (hmac_sha512 k m) = 64.
  Variable words : list text.

  Lemma kdf_eq_rfc8018 msg salt :
    hmac_sha512_kdf hmac_sha512 msg salt = pbkdf2 hmac_sha512 64 msg salt 2048 64.
  Proof.
    unfold hmac_sha512_kdf, PBKDF2_ROUNDS.
    apply (pbkdf2_read_eq_rfc8018 hmac_sha512 64 hmac_len ltac:(lia)); unfold MAXBLK; lia.
  Qed.

  Lemma kdf_total msg salt : exists seed, hmac_sha512_kdf hmac_sha512 msg salt = Ok seed /\ zlen seed = 64.
  Proof.
    unfold hmac_sha512_kdf, PBKDF2_ROUNDS.
    apply (pbkdf2_read_total hmac_sha512 64 hmac_len ltac:(lia)); unfold MAXBLK; lia.
  Qed.

  Theorem seed_formula m pw seed k c :
    from_mnemonic sha256 hmac_sha512 words m pw = Ok (seed, k, c) <->
    exists e norm,
      mnemonic_to_bytes sha256 words m = Ok e /\
      mapM (wl_normalize words) (split_ws m) = Ok norm /\
      pbkdf2 hmac_sha512 64 (join_sp norm) (s_mnemonic ++ pw) 2048 64 = Ok seed /\
      k = from_be (firstn 32 (hmac_sha512 s_bitcoin_seed seed)) /\
      c = skipn 32 (hmac_sha512 s_bitcoin_seed seed) /\
      1 <= k <= secp256k1_N - 1.
  Proof.
    unfold from_mnemonic, mnemonic_seed, from_seed. split.
    - destruct (mnemonic_to_bytes sha256 words m) as [e|]; cbn [bind]; [|discriminate].
      destruct (mapM (wl_normalize words) (split_ws m)) as [norm|]; cbn [bind]; [|discriminate].
      rewrite kdf_eq_rfc8018.
      destruct (pbkdf2 hmac_sha512 64 (join_sp norm) (s_mnemonic ++ pw) 2048 64) as [sd|] eqn:K;
        cbn [bind]; [|discriminate].
      remember (from_be (firstn 32 (hmac_sha512 s_bitcoin_seed sd))) as kk eqn:Hk.
      remember (skipn 32 (hmac_sha512 s_bitcoin_seed sd)) as cc eqn:Hcc.
      destruct (Z.gtb_spec kk (secp256k1_N - 1)) as [E1|E1]; cbn [orb bind]; [discriminate|].
      destruct (Z.ltb_spec kk 1) as [E2|E2]; cbn [bind]; [discriminate|].
      intros H. inversion H; subst seed k c; clear H. exists e, norm.
      split; [reflexivity|]. split; [reflexivity|]. split; [exact K|].
      split; [exact Hk|]. split; [exact Hcc|]. lia.
    - intros [e [norm [-> [-> [K [-> [-> Hk]]]]]]]. cbn [bind].
      rewrite kdf_eq_rfc8018, K. cbn [bind].
      destruct (Z.gtb_spec (from_be (firstn 32 (hmac_sha512 s_bitcoin_seed seed))) (secp256k1_N - 1)) as [E1|E1]; [lia|].
      destruct (Z.ltb_spec (from_be (firstn 32 (hmac_sha512 s_bitcoin_seed seed))) 1) as [E2|E2]; [lia|]. reflexivity.
  Qed.

  (* an invalid mnemonic never reaches the KDF *)
  Theorem seed_requires_valid_mnemonic m pw :
    mnemonic_to_bytes sha256 words m = Err -> from_mnemonic sha256 hmac_sha512 words m pw = Err.
  Proof. intros H. unfold from_mnemonic, mnemonic_seed. now rewrite H. Qed.
End Seed.
