(* Proofs/Rs1024P.v — SLIP39 RS1024 checksum: XOR-linearity of the polymod state machine,
   state bound, verify-after-create, and the algebra (syndromes as GF(2) vector-matrix
   products, a certificate-based independence check) used by Rs1024Sweep.v. *)
From V Require Import Base.Prelude Base.Ints Model.Shamir Proofs.BitsP.

Local Open Scope Z_scope.

(* ------------------------------------------------------------------ xor helpers *)

(* decide equalities between xor-combinations of atoms *)
Ltac xor_solve :=
  apply Z.bits_inj'; let n := fresh "n" in let Hn := fresh "Hn" in intros n Hn;
  repeat rewrite Z.lxor_spec; rewrite ?Z.bits_0;
  repeat match goal with |- context [Z.testbit ?a n] => destruct (Z.testbit a n) end;
  reflexivity.

Lemma land_lxor_distr a b c : Z.land (Z.lxor a b) c = Z.lxor (Z.land a c) (Z.land b c).
Proof.
  apply Z.bits_inj'. intros n Hn. rewrite !Z.land_spec, !Z.lxor_spec, !Z.land_spec.
  destruct (Z.testbit a n), (Z.testbit b n), (Z.testbit c n); reflexivity.
Qed.

Lemma high_bits_false c n k : 0 <= c < 2 ^ n -> n <= k -> Z.testbit c k = false.
Proof.
  intros Hc Hk. destruct (Z.eq_dec c 0) as [->|Hz]; [apply Z.bits_0|].
  apply Z.bits_above_log2; [lia|].
  apply Z.lt_le_trans with n; [|exact Hk]. apply Z.log2_lt_pow2; lia.
Qed.

Lemma lxor_bound a b n : 0 <= n -> 0 <= a < 2 ^ n -> 0 <= b < 2 ^ n -> 0 <= Z.lxor a b < 2 ^ n.
Proof.
  intros Hn Ha Hb.
  assert (H0 : 0 <= Z.lxor a b) by (apply Z.lxor_nonneg; lia).
  split; [exact H0|].
  destruct (Z.eq_dec (Z.lxor a b) 0) as [->|Hz]; [apply pow2_pos; exact Hn|].
  apply Z.log2_lt_pow2; [lia|].
  pose proof (Z.log2_lxor a b (proj1 Ha) (proj1 Hb)) as L.
  assert (La : a = 0 \/ Z.log2 a < n).
  { destruct (Z.eq_dec a 0); [now left|right]. apply Z.log2_lt_pow2; lia. }
  assert (Lb : b = 0 \/ Z.log2 b < n).
  { destruct (Z.eq_dec b 0); [now left|right]. apply Z.log2_lt_pow2; lia. }
  destruct La as [->|La], Lb as [->|Lb]; rewrite ?Z.lxor_0_l, ?Z.lxor_0_r in *; lia.
Qed.

Lemma lxor_shiftl_add a c n : 0 <= n -> 0 <= c < 2 ^ n -> Z.lxor (Z.shiftl a n) c = a * 2 ^ n + c.
Proof.
  intros Hn Hc. rewrite Z.lxor_lor by (now apply land_shiftl_low).
  now apply lor_shiftl_add.
Qed.

(* ------------------------------------------------------------------ vector * matrix over GF(2) *)

(* XOR of the rows M[j] for which bit (i + j) of c is set *)
Fixpoint vm (c i : Z) (M : list Z) : Z :=
  match M with
  | [] => 0
  | r :: M' => Z.lxor (if Z.testbit c i then r else 0) (vm c (i + 1) M')
  end.

Lemma rs_gen_fold_vm b i gen chk : rs_gen_fold b i gen chk = Z.lxor chk (vm b i gen).
Proof.
  revert i chk. induction gen as [|g r IH]; intros i chk; cbn [rs_gen_fold vm].
  - now rewrite Z.lxor_0_r.
  - rewrite IH. destruct (Z.testbit b i).
    + now rewrite Z.lxor_assoc.
    + now rewrite Z.lxor_0_l.
Qed.

Lemma vm_lxor a b i M : vm (Z.lxor a b) i M = Z.lxor (vm a i M) (vm b i M).
Proof.
  revert i. induction M as [|r M IH]; intros i; cbn [vm]; [reflexivity|].
  rewrite IH, Z.lxor_spec.
  generalize (vm a (i + 1) M) (vm b (i + 1) M). intros x y.
  destruct (Z.testbit a i), (Z.testbit b i); cbn [xorb]; xor_solve.
Qed.

Lemma vm_0 i M : vm 0 i M = 0.
Proof.
  revert i. induction M as [|r M IH]; intros i; cbn [vm]; [reflexivity|].
  now rewrite IH, Z.bits_0.
Qed.

Definition xlinear (f : Z -> Z) : Prop := forall a b, f (Z.lxor a b) = Z.lxor (f a) (f b).

Lemma xlinear_0 f : xlinear f -> f 0 = 0.
Proof.
  intros H. specialize (H 0 0). rewrite Z.lxor_0_l in H.
  now rewrite Z.lxor_nilpotent in H.
Qed.

Lemma vm_map_linear f c i M : xlinear f -> f (vm c i M) = vm c i (map f M).
Proof.
  intros Hf. revert i. induction M as [|r M IH]; intros i; cbn [vm map].
  - now apply xlinear_0.
  - rewrite Hf, IH. destruct (Z.testbit c i); [reflexivity|]. now rewrite (xlinear_0 f Hf).
Qed.

Lemma vm_xlinear i M : xlinear (fun c => vm c i M).
Proof. intros a b. apply vm_lxor. Qed.

(* the rows 2^k, 2^(k+1), ..., 2^(k+n-1) *)
Fixpoint pows (k : Z) (n : nat) : list Z :=
  match n with O => [] | S n' => 2 ^ k :: pows (k + 1) n' end.

Lemma pows_length k n : length (pows k n) = n.
Proof. revert k; induction n; intros k; cbn; congruence. Qed.

Lemma vm_pows_bits c n : forall i k t, 0 <= k -> 0 <= t ->
  Z.testbit (vm c i (pows k n)) t =
  (k <=? t) && (t <? k + Z.of_nat n) && Z.testbit c (t - k + i).
Proof.
  induction n as [|n IH]; intros i k t Hk Ht.
  - cbn [pows vm]. rewrite Z.bits_0.
    destruct (Z.leb_spec k t); destruct (Z.ltb_spec t (k + Z.of_nat 0)); cbn; try reflexivity; lia.
  - cbn [pows vm]. rewrite Z.lxor_spec, IH by lia.
    replace (t - (k + 1) + (i + 1)) with (t - k + i) by lia.
    destruct (Z.eq_dec k t) as [->|Hne].
    + replace (t - t + i) with i by lia.
      replace (t + 1 <=? t) with false by (symmetry; apply Z.leb_gt; lia).
      replace (t <=? t) with true by (symmetry; apply Z.leb_le; lia).
      replace (t <? t + Z.of_nat (S n)) with true by (symmetry; apply Z.ltb_lt; lia).
      cbn [andb]. destruct (Z.testbit c i).
      * now rewrite Z.pow2_bits_true.
      * now rewrite Z.bits_0.
    + assert (E : Z.testbit (if Z.testbit c i then 2 ^ k else 0) t = false).
      { destruct (Z.testbit c i); [now apply Z.pow2_bits_false | apply Z.bits_0]. }
      rewrite E. cbn [xorb].
      destruct (Z.leb_spec (k + 1) t); destruct (Z.leb_spec k t);
        destruct (Z.ltb_spec t (k + 1 + Z.of_nat n)); destruct (Z.ltb_spec t (k + Z.of_nat (S n)));
        destruct (Z.testbit c (t - k + i)); cbn [andb]; try reflexivity; lia.
Qed.

Lemma vm_pows c k n : 0 <= k -> 0 <= c < 2 ^ Z.of_nat n -> vm c 0 (pows k n) = Z.shiftl c k.
Proof.
  intros Hk Hc. apply Z.bits_inj'. intros t Ht.
  rewrite vm_pows_bits by lia. rewrite Z.shiftl_spec by exact Ht. rewrite Z.add_0_r.
  destruct (k <=? t) eqn:E1.
  - destruct (t <? k + Z.of_nat n) eqn:E2; cbn [andb]; [reflexivity|].
    symmetry. apply (high_bits_false c (Z.of_nat n)); lia.
  - cbn [andb]. symmetry. apply Z.testbit_neg_r. lia.
Qed.

Lemma vm_pows_id c n : 0 <= c < 2 ^ Z.of_nat n -> vm c 0 (pows 0 n) = c.
Proof. intros Hc. rewrite vm_pows by (lia || exact Hc). apply Z.shiftl_0_r. Qed.

(* ------------------------------------------------------------------ (a) linearity *)

Definition rs_run (c : Z) (vs : list Z) : Z := fold_left rs_step vs c.

Lemma rs1024_polymod_run vs : rs1024_polymod vs = rs_run 1 vs.
Proof. reflexivity. Qed.

Lemma rs_run_app c a b : rs_run c (a ++ b) = rs_run (rs_run c a) b.
Proof. unfold rs_run. apply fold_left_app. Qed.

Lemma rs_run_cons c v vs : rs_run c (v :: vs) = rs_run (rs_step c v) vs.
Proof. reflexivity. Qed.

Lemma rs_step_alt c v :
  rs_step c v = Z.lxor (Z.lxor (Z.shiftl (Z.land c 0xFFFFF) 10) v) (vm (Z.shiftr c 20) 0 RS_GEN).
Proof. unfold rs_step. apply rs_gen_fold_vm. Qed.

Theorem rs_step_lxor c1 c2 v1 v2 :
  rs_step (Z.lxor c1 c2) (Z.lxor v1 v2) = Z.lxor (rs_step c1 v1) (rs_step c2 v2).
Proof.
  rewrite !rs_step_alt. rewrite Z.shiftr_lxor, vm_lxor, land_lxor_distr, Z.shiftl_lxor.
  generalize (vm (Z.shiftr c1 20) 0 RS_GEN) (vm (Z.shiftr c2 20) 0 RS_GEN)
             (Z.shiftl (Z.land c1 1048575) 10) (Z.shiftl (Z.land c2 1048575) 10).
  intros g1 g2 s1 s2. xor_solve.
Qed.

Theorem rs_run_lxor : forall vs1 vs2 c1 c2, length vs1 = length vs2 ->
  rs_run (Z.lxor c1 c2) (zip_with Z.lxor vs1 vs2) = Z.lxor (rs_run c1 vs1) (rs_run c2 vs2).
Proof.
  induction vs1 as [|v1 vs1 IH]; intros [|v2 vs2] c1 c2 H; cbn in H; try discriminate.
  - reflexivity.
  - cbn [zip_with]. rewrite !rs_run_cons, rs_step_lxor. apply IH. congruence.
Qed.

Lemma rs_step_0_0 : rs_step 0 0 = 0.
Proof. reflexivity. Qed.

Lemma rs_run_0_zeros n : rs_run 0 (repeat 0 n) = 0.
Proof. induction n; cbn [repeat]; [reflexivity|]. now rewrite rs_run_cons, rs_step_0_0. Qed.

Lemma zip_lxor_zeros_l vs : zip_with Z.lxor (repeat 0 (length vs)) vs = vs.
Proof. induction vs as [|v vs IH]; cbn; [reflexivity|]. now rewrite IH. Qed.

Lemma zip_lxor_zeros_r vs : zip_with Z.lxor vs (repeat 0 (length vs)) = vs.
Proof. induction vs as [|v vs IH]; cbn; [reflexivity|]. now rewrite IH, Z.lxor_0_r. Qed.

(* the run from state c is the run from 0 xor the run of c over zeros *)
Lemma rs_run_split c vs : rs_run c vs = Z.lxor (rs_run c (repeat 0 (length vs))) (rs_run 0 vs).
Proof.
  rewrite <- rs_run_lxor by (now rewrite repeat_length).
  now rewrite Z.lxor_0_r, zip_lxor_zeros_l.
Qed.

(* ------------------------------------------------------------------ state bound *)

Lemma vm_bound n c M : 0 <= n -> Forall (fun g => 0 <= g < 2 ^ n) M ->
  forall i, 0 <= vm c i M < 2 ^ n.
Proof.
  intros Hn HM. induction HM as [|g M Hg HM IH]; intros i; cbn [vm].
  - split; [lia | now apply pow2_pos].
  - apply lxor_bound; [exact Hn | | apply IH].
    destruct (Z.testbit c i); [exact Hg | split; [lia | now apply pow2_pos]].
Qed.

Lemma RS_GEN_bound : Forall (fun g => 0 <= g < 2 ^ 30) RS_GEN.
Proof. unfold RS_GEN. repeat constructor; cbn; lia. Qed.

Lemma rs_step_bound c v : 0 <= v < 2 ^ 10 -> 0 <= rs_step c v < 2 ^ 30.
Proof.
  intros Hv. rewrite rs_step_alt.
  apply lxor_bound; [lia | | apply vm_bound; [lia | apply RS_GEN_bound]].
  apply lxor_bound; [lia | | lia].
  change 1048575 with (2 ^ 20 - 1). rewrite land_mask by lia. rewrite shl_mul by lia.
  pose proof (Z.mod_pos_bound c (2 ^ 20) ltac:(lia)) as B.
  change (2 ^ 30) with (2 ^ 20 * 2 ^ 10). nia.
Qed.

Lemma rs_run_bound vs : Forall (fun v => 0 <= v < 1024) vs ->
  forall c, 0 <= c < 2 ^ 30 -> 0 <= rs_run c vs < 2 ^ 30.
Proof.
  induction 1 as [|v vs Hv Hvs IH]; intros c Hc; [exact Hc|].
  rewrite rs_run_cons. apply IH. apply rs_step_bound. exact Hv.
Qed.

(* below 2^20 there is no feedback: the step is a plain base-1024 shift-in *)
Lemma rs_step_small c v : 0 <= c < 2 ^ 20 -> 0 <= v < 2 ^ 10 -> rs_step c v = c * 1024 + v.
Proof.
  intros Hc Hv. rewrite rs_step_alt.
  rewrite shr_div by lia. rewrite Z.div_small by exact Hc. rewrite vm_0, Z.lxor_0_r.
  change 1048575 with (2 ^ 20 - 1). rewrite land_mask by lia. rewrite Z.mod_small by exact Hc.
  rewrite lxor_shiftl_add by (lia || exact Hv). reflexivity.
Qed.

(* ------------------------------------------------------------------ (b) verify after create *)

Lemma create_words_bound cs data :
  Forall (fun v => 0 <= v < 1024) (rs1024_create_checksum cs data).
Proof.
  unfold rs1024_create_checksum. change 1023 with (2 ^ 10 - 1).
  repeat constructor; rewrite land_mask by lia; apply Z.mod_pos_bound; lia.
Qed.

Lemma create_length cs data : length (rs1024_create_checksum cs data) = 3%nat.
Proof. reflexivity. Qed.

Lemma run0_three_words p : 0 <= p < 2 ^ 30 ->
  rs_run 0 [Z.land (Z.shiftr p 20) 1023; Z.land (Z.shiftr p 10) 1023; Z.land (Z.shiftr p 0) 1023] = p.
Proof.
  intros Hp. change 1023 with (2 ^ 10 - 1). rewrite !land_mask by lia. rewrite !shr_div by lia.
  set (w0 := (p / 2 ^ 20) mod 2 ^ 10). set (w1 := (p / 2 ^ 10) mod 2 ^ 10).
  set (w2 := (p / 2 ^ 0) mod 2 ^ 10).
  assert (H0 : 0 <= w0 < 2 ^ 10) by (apply Z.mod_pos_bound; lia).
  assert (H1 : 0 <= w1 < 2 ^ 10) by (apply Z.mod_pos_bound; lia).
  assert (H2 : 0 <= w2 < 2 ^ 10) by (apply Z.mod_pos_bound; lia).
  rewrite !rs_run_cons. unfold rs_run. cbn [fold_left].
  rewrite (rs_step_small 0 w0) by lia.
  rewrite (rs_step_small _ w1) by lia.
  rewrite (rs_step_small _ w2) by lia.
  subst w0 w1 w2. change (2 ^ 0) with 1 in *. change (2 ^ 10) with 1024 in *.
  change (2 ^ 20) with (1024 * 1024) in *. change (2 ^ 30) with (1024 * 1024 * 1024) in *.
  rewrite Z.div_1_r. rewrite <- Z.div_div by lia.
  pose proof (Z.div_mod p 1024 ltac:(lia)) as E1.
  pose proof (Z.div_mod (p / 1024) 1024 ltac:(lia)) as E2.
  pose proof (Z.mod_pos_bound p 1024 ltac:(lia)).
  pose proof (Z.mod_pos_bound (p / 1024) 1024 ltac:(lia)).
  assert (0 <= p / 1024 / 1024 < 1024).
  { split; [apply Z.div_pos; [apply Z.div_pos|]; lia|].
    apply Z.div_lt_upper_bound; [lia|]. apply Z.div_lt_upper_bound; lia. }
  pose proof (Z.mod_small _ _ H4) as E3. rewrite E3. lia.
Qed.

Theorem rs1024_verify_create : forall cs data,
  Forall (fun v => 0 <= v < 1024) (cs ++ data) ->
  rs1024_verify_checksum cs (data ++ rs1024_create_checksum cs data) = true.
Proof.
  intros cs data H. unfold rs1024_verify_checksum. apply Z.eqb_eq.
  unfold rs1024_create_checksum, rs1024_polymod. fold (rs_run 1 ((cs ++ data) ++ [0; 0; 0])).
  match goal with |- fold_left rs_step ?l 1 = 1 => change (rs_run 1 l = 1) end.
  rewrite app_assoc, (rs_run_app 1 (cs ++ data) [0; 0; 0]), (rs_run_app 1 (cs ++ data)).
  set (s := rs_run 1 (cs ++ data)).
  assert (Hs : 0 <= s < 2 ^ 30) by (apply rs_run_bound; [exact H | lia]).
  set (P := rs_run s [0; 0; 0]).
  assert (HP : 0 <= P < 2 ^ 30).
  { apply rs_run_bound; [|exact Hs]. repeat constructor; lia. }
  assert (Hp : 0 <= Z.lxor P 1 < 2 ^ 30) by (apply lxor_bound; lia).
  rewrite rs_run_split. cbn [length repeat]. fold P.
  rewrite run0_three_words by exact Hp.
  rewrite <- Z.lxor_assoc, Z.lxor_nilpotent. reflexivity.
Qed.

(* ------------------------------------------------------------------ (c) syndromes *)

(* contribution of the value v placed d positions before the end of the data *)
Definition L (d : nat) (v : Z) : Z := rs_run 0 (v :: repeat 0 d).

Lemma zip_lxor_zeros d : zip_with Z.lxor (repeat 0 d) (repeat 0 d) = repeat 0 d.
Proof. induction d; cbn; [reflexivity|]. now rewrite IHd. Qed.

Lemma L_xlinear d : xlinear (L d).
Proof.
  intros a b. unfold L.
  rewrite <- (rs_run_lxor (a :: repeat 0 d) (b :: repeat 0 d) 0 0) by reflexivity.
  cbn [zip_with]. rewrite zip_lxor_zeros. reflexivity.
Qed.

Lemma L_0 d : L d 0 = 0.
Proof. apply xlinear_0, L_xlinear. Qed.

Fixpoint syn_sum (e : list Z) : Z :=
  match e with [] => 0 | v :: r => Z.lxor (L (length r) v) (syn_sum r) end.

Lemma rs_run_0_syn e : rs_run 0 e = syn_sum e.
Proof.
  induction e as [|v r IH]; [reflexivity|]. cbn [syn_sum]. rewrite <- IH. unfold L.
  replace (rs_run 0 r) with (rs_run 0 (0 :: r)) by (now rewrite rs_run_cons, rs_step_0_0).
  rewrite <- (rs_run_lxor (v :: repeat 0 (length r)) (0 :: r) 0 0)
    by (cbn [length]; now rewrite repeat_length).
  cbn [zip_with]. rewrite !Z.lxor_0_r, zip_lxor_zeros_l. reflexivity.
Qed.

(* the ten basis rows of L d *)
Definition B (d : nat) : list Z := map (L d) (pows 0 10).

Lemma B_length d : length (B d) = 10%nat.
Proof. reflexivity. Qed.

Lemma L_vm d v : 0 <= v < 1024 -> L d v = vm v 0 (B d).
Proof.
  intros Hv. unfold B. rewrite <- vm_map_linear by apply L_xlinear.
  rewrite vm_pows_id by (change (2 ^ Z.of_nat 10) with 1024; exact Hv). reflexivity.
Qed.

(* ------------------------------------------------------------------ sparse error vectors *)

Definition weight (e : list Z) : nat := length (filter (fun v => negb (v =? 0)) e).

(* number of positions where m and m' differ *)
Definition hamming (m m' : list Z) : nat :=
  length (filter (fun p => negb (fst p =? snd p)) (combine m m')).

Lemma weight_zip : forall m m', weight (zip_with Z.lxor m m') = hamming m m'.
Proof.
  induction m as [|a m IH]; intros [|b m']; try reflexivity.
  unfold weight, hamming in *. cbn [zip_with combine filter fst snd].
  assert (E : (Z.lxor a b =? 0) = (a =? b)).
  { destruct (Z.eqb_spec a b) as [->|Hne].
    - rewrite Z.lxor_nilpotent. reflexivity.
    - destruct (Z.eqb_spec (Z.lxor a b) 0) as [Hx|]; [|reflexivity].
      apply Z.lxor_eq in Hx. contradiction. }
  rewrite E. destruct (a =? b); cbn [negb length]; now rewrite IH.
Qed.

Lemma zip_with_length {A B C} (f : A -> B -> C) : forall a b, length a = length b ->
  length (zip_with f a b) = length a.
Proof.
  induction a as [|x a IH]; intros [|y b] H; cbn in *; try discriminate; [reflexivity|].
  f_equal. apply IH. congruence.
Qed.

Lemma zip_lxor_bound : forall m m',
  Forall (fun v => 0 <= v < 1024) m -> Forall (fun v => 0 <= v < 1024) m' ->
  Forall (fun v => 0 <= v < 1024) (zip_with Z.lxor m m').
Proof.
  induction m as [|a m IH]; intros [|b m'] H1 H2; cbn [zip_with]; try constructor.
  - inversion H1; inversion H2; subst. change 1024 with (2 ^ 10). apply lxor_bound; lia.
  - inversion H1; inversion H2; subst. now apply IH.
Qed.

Lemma weight_le_length e : (weight e <= length e)%nat.
Proof.
  unfold weight. induction e as [|v r IH]; cbn [filter length]; [lia|].
  destruct (negb (v =? 0)); cbn [length]; lia.
Qed.

(* error terms: (distance from the end, value) *)
Fixpoint xsum (ts : list (nat * Z)) : Z :=
  match ts with [] => 0 | (d, v) :: t => Z.lxor (L d v) (xsum t) end.

Fixpoint dec_below (n : nat) (ts : list (nat * Z)) : Prop :=
  match ts with
  | [] => True
  | (d, v) :: t => (d < n)%nat /\ 0 <= v < 1024 /\ dec_below d t
  end.

Definition nzcount (ts : list (nat * Z)) : nat :=
  length (filter (fun p => negb (snd p =? 0)) ts).

Lemma dec_below_mono n n' ts : (n <= n')%nat -> dec_below n ts -> dec_below n' ts.
Proof. destruct ts as [|[d v] t]; cbn; [trivial|]. intros H (H1 & H2 & H3). repeat split; try lia; assumption. Qed.

Lemma weight_cons v r : weight (v :: r) = if v =? 0 then weight r else S (weight r).
Proof. unfold weight. cbn [filter]. destruct (v =? 0); reflexivity. Qed.

(* an error vector of weight <= k <= length is a sum of exactly k terms at strictly
   decreasing distances (some of them possibly with value 0) *)
Lemma pick e : Forall (fun v => 0 <= v < 1024) e ->
  forall k, (weight e <= k <= length e)%nat ->
  exists ts, length ts = k /\ dec_below (length e) ts /\ xsum ts = syn_sum e /\
             nzcount ts = weight e.
Proof.
  induction 1 as [|v r Hv Hr IH]; intros k Hk.
  - cbn in Hk. exists []. cbn. repeat split; lia.
  - rewrite weight_cons in Hk. cbn [length] in Hk.
    destruct (Z.eqb_spec v 0) as [->|Hne].
    + destruct (Nat.le_gt_cases k (length r)) as [Hle|Hgt].
      * destruct (IH k ltac:(lia)) as (ts & H1 & H2 & H3 & H4).
        exists ts. repeat split; [exact H1 | | | ].
        -- apply (dec_below_mono (length r)); [cbn; lia | exact H2].
        -- cbn [syn_sum]. rewrite L_0, Z.lxor_0_l. exact H3.
        -- rewrite H4, weight_cons. reflexivity.
      * pose proof (weight_le_length r) as Hw.
        destruct (IH (length r) ltac:(lia)) as (ts & H1 & H2 & H3 & H4).
        exists ((length r, 0) :: ts). refine (conj _ (conj _ (conj _ _))).
        -- cbn [length]. lia.
        -- cbn [length dec_below]. refine (conj _ (conj _ H2)); lia.
        -- cbn [xsum syn_sum]. now rewrite H3.
        -- rewrite weight_cons. unfold nzcount in *. cbn [filter snd Z.eqb negb]. exact H4.
    + destruct k as [|k]; [lia|].
      destruct (IH k ltac:(lia)) as (ts & H1 & H2 & H3 & H4).
      exists ((length r, v) :: ts). refine (conj _ (conj _ (conj _ _))).
      * cbn [length]. lia.
      * cbn [length dec_below]. refine (conj _ (conj _ H2)); lia.
      * cbn [xsum syn_sum]. now rewrite H3.
      * rewrite weight_cons. unfold nzcount in *. cbn [filter snd].
        destruct (Z.eqb_spec v 0); [contradiction|]. cbn [negb length]. now rewrite H4.
Qed.

(* ------------------------------------------------------------------ certificate check *)

(* Gauss-Jordan on rows (value, combination); no correctness proof is needed: its output is
   only used as a candidate inverse that is checked by multiplication. *)
Definition xor_if (col : Z) (p r : Z * Z) : Z * Z :=
  if Z.testbit (fst r) col then (Z.lxor (fst r) (fst p), Z.lxor (snd r) (snd p)) else r.

Fixpoint find_pivot (col : Z) (todo : list (Z * Z)) : option ((Z * Z) * list (Z * Z)) :=
  match todo with
  | [] => None
  | r :: t =>
      if Z.testbit (fst r) col then Some (r, t)
      else match find_pivot col t with
           | Some (p, t') => Some (p, r :: t')
           | None => None
           end
  end.

Fixpoint gj (cols : list Z) (done todo : list (Z * Z)) : list (Z * Z) :=
  match cols with
  | [] => done
  | col :: cs =>
      match find_pivot col todo with
      | None => []
      | Some (p, t) => gj cs (map (xor_if col p) done ++ [p]) (map (xor_if col p) t)
      end
  end.

Definition invert (M : list Z) : list Z :=
  map snd (gj (zrange 0 (length M)) [] (combine M (pows 0 (length M)))).

Definition check (tab : list (list Z)) (a b c : nat) : bool :=
  let M := nth a tab [] ++ nth b tab [] ++ nth c tab [] in
  let N := invert M in
  beq (map (fun r => vm r 0 N) M) (pows 0 30).

Definition mkTab (n : nat) : list (list Z) := map B (seq 0 n).

Definition sweep_range (tab : list (list Z)) (lo len n : nat) : bool :=
  forallb (fun a => forallb (fun b => forallb (fun c =>
    if (c <? b)%nat && (b <? a)%nat then check tab a b c else true)
    (seq 0 n)) (seq 0 n)) (seq lo len).

Definition sweep (tab : list (list Z)) (n : nat) : bool := sweep_range tab 0 n n.

Lemma nth_mkTab d n : (d < n)%nat -> nth d (mkTab n) [] = B d.
Proof.
  intros H. unfold mkTab.
  rewrite (nth_indep _ [] (B 0)) by (now rewrite map_length, seq_length).
  rewrite map_nth, seq_nth by exact H. reflexivity.
Qed.

Lemma sweep_range_check tab lo len n a b c : sweep_range tab lo len n = true ->
  (lo <= a < lo + len)%nat -> (a < n)%nat -> (c < b < a)%nat -> check tab a b c = true.
Proof.
  unfold sweep_range. intros H Ha Han Hcb.
  rewrite forallb_forall in H. specialize (H a ltac:(apply in_seq; lia)).
  rewrite forallb_forall in H. specialize (H b ltac:(apply in_seq; lia)).
  rewrite forallb_forall in H. specialize (H c ltac:(apply in_seq; lia)).
  replace (c <? b)%nat with true in H by (symmetry; apply Nat.ltb_lt; lia).
  replace (b <? a)%nat with true in H by (symmetry; apply Nat.ltb_lt; lia).
  exact H.
Qed.

Lemma app_eq_len {A} : forall (a a' b b' : list A), length a = length a' ->
  a ++ b = a' ++ b' -> a = a' /\ b = b'.
Proof.
  induction a as [|x a IH]; intros [|y a'] b b' H E; cbn in *; try discriminate.
  - now split.
  - inversion E; subst. destruct (IH a' b b' ltac:(congruence) H2) as [-> ->]. now split.
Qed.

Lemma left_inverse_sound a b c N va vb vc :
  map (fun r => vm r 0 N) (B a ++ B b ++ B c) = pows 0 30 ->
  0 <= va < 1024 -> 0 <= vb < 1024 -> 0 <= vc < 1024 ->
  Z.lxor (L a va) (Z.lxor (L b vb) (L c vc)) = 0 ->
  va = 0 /\ vb = 0 /\ vc = 0.
Proof.
  intros HM Ha Hb Hc Hs.
  set (F := fun r => vm r 0 N) in *.
  assert (HF : xlinear F) by (intros x y; apply vm_lxor).
  change (pows 0 30) with (pows 0 10 ++ pows 10 10 ++ pows 20 10) in HM.
  rewrite !map_app in HM.
  apply app_eq_len in HM as [E1 HM]; [|now rewrite map_length, B_length, pows_length].
  apply app_eq_len in HM as [E2 E3]; [|now rewrite map_length, B_length, pows_length].
  apply (f_equal F) in Hs. rewrite !HF in Hs.
  rewrite (L_vm a va Ha), (L_vm b vb Hb), (L_vm c vc Hc) in Hs.
  unfold F at 1 2 3 in Hs. rewrite !(vm_map_linear _ _ _ _ (vm_xlinear 0 N)) in Hs.
  fold F in Hs. rewrite E1, E2, E3 in Hs.
  rewrite !vm_pows in Hs by (try lia; change (2 ^ Z.of_nat 10) with 1024; assumption).
  unfold F in Hs. rewrite vm_0, Z.shiftl_0_r in Hs.
  replace (Z.shiftl vc 20) with (Z.shiftl (Z.shiftl vc 10) 10) in Hs
    by (rewrite Z.shiftl_shiftl by lia; reflexivity).
  rewrite <- Z.shiftl_lxor in Hs. rewrite (Z.lxor_comm va) in Hs.
  rewrite (Z.lxor_comm vb) in Hs.
  change 1024 with (2 ^ 10) in *.
  rewrite (lxor_shiftl_add vc vb 10) in Hs by lia.
  rewrite (lxor_shiftl_add _ va 10) in Hs by lia.
  lia.
Qed.

Lemma check_sound n a b c va vb vc : check (mkTab n) a b c = true ->
  (a < n)%nat -> (b < n)%nat -> (c < n)%nat ->
  0 <= va < 1024 -> 0 <= vb < 1024 -> 0 <= vc < 1024 ->
  Z.lxor (L a va) (Z.lxor (L b vb) (L c vc)) = 0 ->
  va = 0 /\ vb = 0 /\ vc = 0.
Proof.
  unfold check. cbv zeta. intros H Ha Hb Hc. rewrite !nth_mkTab in H by assumption.
  apply beq_eq in H. now apply left_inverse_sound with (N := invert (B a ++ B b ++ B c)).
Qed.

(* the detection theorem, relative to a successful sweep over all distance triples < n *)
Theorem detects_of_sweep n : sweep (mkTab n) n = true ->
  forall cs m m', (3 <= length m <= n)%nat -> length m' = length m ->
  Forall (fun v => 0 <= v < 1024) m -> Forall (fun v => 0 <= v < 1024) m' ->
  rs1024_verify_checksum cs m = true ->
  (1 <= hamming m m' <= 3)%nat ->
  rs1024_verify_checksum cs m' = false.
Proof.
  intros Hsweep cs m m' Hlen Hlen' Hm Hm' Hv Hham.
  destruct (rs1024_verify_checksum cs m') eqn:Hv'; [exfalso|reflexivity].
  unfold rs1024_verify_checksum, rs1024_polymod in Hv, Hv'.
  apply Z.eqb_eq in Hv, Hv'.
  change (rs_run 1 (cs ++ m) = 1) in Hv. change (rs_run 1 (cs ++ m') = 1) in Hv'.
  rewrite rs_run_app in Hv, Hv'.
  set (e := zip_with Z.lxor m m').
  assert (He0 : rs_run 0 e = 0).
  { pose proof (rs_run_lxor m m' (rs_run 1 cs) (rs_run 1 cs) (eq_sym Hlen')) as X.
    rewrite Z.lxor_nilpotent, Hv, Hv' in X. exact X. }
  assert (Hel : length e = length m) by (apply zip_with_length; symmetry; exact Hlen').
  assert (Heb : Forall (fun v => 0 <= v < 1024) e) by (now apply zip_lxor_bound).
  assert (Hew : weight e = hamming m m') by apply weight_zip.
  destruct (pick e Heb 3%nat ltac:(lia)) as (ts & H1 & H2 & H3 & H4).
  destruct ts as [|[d3 v3] [|[d2 v2] [|[d1 v1] [|]]]]; cbn [length] in H1; try discriminate.
  cbn [dec_below] in H2. destruct H2 as (Hd3 & Hb3 & Hd2 & Hb2 & Hd1 & Hb1 & _).
  cbn [xsum] in H3. rewrite Z.lxor_0_r, <- rs_run_0_syn, He0 in H3.
  assert (Hc : check (mkTab n) d3 d2 d1 = true).
  { apply (sweep_range_check _ 0 n n); [exact Hsweep | lia | lia | lia]. }
  destruct (check_sound n d3 d2 d1 v3 v2 v1 Hc) as (-> & -> & ->); try assumption; try lia.
  cbn in H4. lia.
Qed.

Print Assumptions rs_step_lxor.
Print Assumptions rs_run_lxor.
Print Assumptions rs1024_verify_create.
Print Assumptions detects_of_sweep.
