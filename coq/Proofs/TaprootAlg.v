(* Proofs/TaprootAlg.v — the algebraic taproot facts under [scalar_laws C]:
   output key formula, private/public tweak consistency, x-only invariance. *)
From V Require Import Base.Prelude Base.Ints Model.Pecc Model.Taproot Proofs.GroupHyp Proofs.CurveAlg.

Section TaprootAlg.
Variable C : curve.
Variable sha256 : bytes -> bytes.
Hypothesis SL : scalar_laws C.
Let n := cn C.

Notation addT := (addT C).
Notation mulT := (mulT C).
Notation valid := (valid C).
Notation Gp := (G C).
Notation evenT := (evenT C).

(* Q = even(P) + int(H_TapTweak(x(P) || root)) G *)
Theorem output_key_formula x y root :
  valid (Some (x, y)) ->
  tweaked_key C sha256 (Some (x, y)) root =
    Ok (addT (evenT (Some (x, y)))
             (mulT (from_be (tagged_hash sha256 tag_taptweak (to_be 32 x ++ root))) Gp)) /\
  evenT (Some (x, y)) = Some (x, if y mod 2 =? 1 then cp C - y else y).
Proof.
  intros H. split; [|now apply evenT_coords].
  unfold tweaked_key. rewrite (even_point_ok C SL) by assumption. cbn [bind].
  rewrite (padd_int_ok C SL) by now apply evenT_valid. reflexivity.
Qed.

Lemma tweaked_key_valid P root Q : valid P -> tweaked_key C sha256 P root = Ok Q -> valid Q.
Proof.
  destruct P as [[x y]|]; intros H E.
  - rewrite (proj1 (output_key_formula x y root H)) in E.
    match type of E with Ok ?R = _ => set (r := R) in E; assert (EQ : Q = r) by congruence; subst Q; unfold r end.
    apply (add_valid C SL); [now apply evenT_valid | apply (mul_valid C SL), (G_valid C SL)].
  - discriminate.
Qed.

(* the output key depends on the x coordinate of the internal key only *)
Theorem tweaked_key_same_x x y1 y2 root :
  valid (Some (x, y1)) -> valid (Some (x, y2)) ->
  tweaked_key C sha256 (Some (x, y1)) root = tweaked_key C sha256 (Some (x, y2)) root.
Proof.
  intros H1 H2.
  rewrite (proj1 (output_key_formula x y1 root H1)), (proj1 (output_key_formula x y2 root H2)).
  now rewrite (evenT_same_x C SL x y1 y2).
Qed.

(* PrivateKey.tweaked_key vs S256Point.tweaked_key *)
Theorem tweak_pub_priv_consistent d root :
  1 <= d <= n - 1 ->
  exists P e,
    pubkey C d = Ok P /\ P <> None /\ even_secret C d = Ok e /\
    let t := from_be (tweak sha256 P root) in
    ((e + t) mod n <> 0 ->
       priv_tweaked_key C sha256 d root = Ok ((e + t) mod n) /\
       pubkey C ((e + t) mod n) = tweaked_key C sha256 P root /\
       tweaked_key C sha256 P root = Ok (mulT ((e + t) mod n) Gp) /\
       mulT ((e + t) mod n) Gp <> None) /\
    ((e + t) mod n = 0 ->
       priv_tweaked_key C sha256 d root = Err /\ tweaked_key C sha256 P root = Ok None).
Proof.
  intros Hd.
  destruct (even_secret_ok C SL d Hd) as (e & He & Hre & _ & Hev).
  pose proof (mulG_not_inf C SL d ltac:(fold n; lia)) as Hni.
  exists (mulT d Gp), e. split; [now apply (pubkey_ok C SL)|]. split; [exact Hni|]. split; [exact He|].
  cbn zeta. set (t := from_be (tweak sha256 (mulT d Gp) root)).
  assert (HQ : tweaked_key C sha256 (mulT d Gp) root = Ok (mulT ((e + t) mod n) Gp)).
  { destruct (mulT d Gp) as [[x y]|] eqn:EP; [|congruence].
    assert (Hv : valid (Some (x, y))) by (rewrite <- EP; apply (mul_valid C SL), (G_valid C SL)).
    rewrite (proj1 (output_key_formula x y root Hv)). f_equal.
    rewrite Hev. fold (tweak sha256 (Some (x, y)) root). fold t.
    rewrite (mulG_add C SL). symmetry. apply (sl_mul_mod C SL). }
  pose proof (n_pos C SL) as Hn. fold n in Hn.
  assert (Hr : 0 <= (e + t) mod n < n) by (apply Z.mod_pos_bound; lia).
  split.
  - intros Hnz.
    assert (Hpk : pubkey C ((e + t) mod n) = Ok (mulT ((e + t) mod n) Gp))
      by (apply (pubkey_ok C SL); fold n; lia).
    repeat split.
    + unfold priv_tweaked_key. rewrite (pubkey_ok C SL) by assumption. cbn [bind]. rewrite He. cbn [bind].
      fold n. fold t. rewrite Hpk. reflexivity.
    + now rewrite Hpk, HQ.
    + exact HQ.
    + apply (mulG_not_inf C SL). fold n. lia.
  - intros Hz. split.
    + unfold priv_tweaked_key. rewrite (pubkey_ok C SL) by assumption. cbn [bind]. rewrite He. cbn [bind].
      fold n. fold t. rewrite Hz. rewrite (pubkey_err C) by (fold n; lia). reflexivity.
    + rewrite HQ, Hz. f_equal; apply (sl_mul_0 C SL), (G_valid C SL).
Qed.

End TaprootAlg.
