(* Proofs/PsbtSignP.v — the Signer (Model/PsbtSign.v) against the Combiner:
   signing with a list of keys on ONE object equals combining, in that order, the copies each
   key signed on its own; the copies form a [family] (all [good], pairwise [compat]), so the
   order-independence theorem applies to REAL signer output and the result does not depend on
   the order of the keys. *)
From Coq Require Import Permutation.
From V Require Import Base.Prelude Base.Ints Model.Helper Model.Script Model.Tx Model.Psbt
  Model.PsbtSign Proofs.PsbtDictP Proofs.PsbtCombineP Proofs.PsbtFinalP.

Definition ext (a s : dict bytes) : Prop := forall k v, dget a k = Some v -> dget s k = Some v.

(* x is a with more partial signatures *)
Definition ext_in (a x : psbt_in) : Prop :=
  exists s, x = set_sigs a s /\ dsorted s /\ ext (pi_sigs a) s.

(* y is a, possibly with one more signature under key k *)
Definition signed_in (k : bytes) (a y : psbt_in) : Prop :=
  y = a \/ exists sg, y = set_sigs a (dset k sg (pi_sigs a)).

Definition fresh (k : bytes) (l : list psbt_in) : Prop := Forall (fun a => dget (pi_sigs a) k = None) l.

Lemma set_sigs_self a : set_sigs a (pi_sigs a) = a.
Proof. destruct a; reflexivity. Qed.

Lemma ext_refl a : ext a a.
Proof. intros k v H; exact H. Qed.

Lemma ext_in_refl a : dsorted (pi_sigs a) -> ext_in a a.
Proof. intros H. exists (pi_sigs a). split; [now rewrite set_sigs_self|]. split; [exact H|apply ext_refl]. Qed.

Lemma take_self {A} (t : A -> bool) (x : option A) : take t x x = x.
Proof. destruct x; reflexivity. Qed.

Lemma in_combine_set_sigs a s s2 :
  dsorted (pi_named a) -> dsorted (pi_extra a) ->
  in_combine (set_sigs a s) (set_sigs a s2) = set_sigs a (dunion s s2).
Proof.
  intros H1 H2. unfold in_combine, set_sigs.
  cbn [pi_prev_tx pi_prev_out pi_sigs pi_hash_type pi_redeem pi_wscript pi_named pi_script_sig pi_witness pi_extra].
  rewrite !take_self, !dunion_idem by assumption. reflexivity.
Qed.

Lemma dunion_dset_ext (a s : dict bytes) k v :
  dsorted a -> dsorted s -> ext a s -> dunion s (dset k v a) = dset k v s.
Proof.
  intros Ha Hs He. apply dsorted_ext.
  - now apply dunion_sorted.
  - now apply dset_sorted.
  - intros k'. rewrite dget_dunion by now apply dset_sorted. rewrite !dget_dset.
    destruct (bcmp k' k); try reflexivity; destruct (dget a k') eqn:E; try reflexivity; symmetry; now apply He.
Qed.

Lemma dunion_ext (a s : dict bytes) : dsorted a -> dsorted s -> ext a s -> dunion s a = s.
Proof.
  intros Ha Hs He. apply dsorted_ext; [now apply dunion_sorted|exact Hs|].
  intros k. rewrite dget_dunion by exact Ha. destruct (dget a k) eqn:E; [|reflexivity]. symmetry. now apply He.
Qed.

Lemma ext_dset (a s : dict bytes) k v : ext a s -> dget a k = None -> ext a (dset k v s).
Proof.
  intros He Hn k' v' H. rewrite dget_dset_other; [now apply He|]. intros ->. congruence.
Qed.

Lemma good_in_set_sigs a s : good_in a -> dsorted s -> good_in (set_sigs a s).
Proof. intros [G1 G2 G3 G4 G5] Hs. constructor; cbn; assumption. Qed.

Lemma out_combine_self o : good_out o -> out_combine o o = o.
Proof.
  intros [G1 G2]. destruct o; unfold out_combine; cbn -[dunion] in *.
  now rewrite !take_self, !dunion_idem by assumption.
Qed.

Lemma zip_out_self outs : Forall good_out outs -> zip_with out_combine outs outs = outs.
Proof. induction 1 as [|o r Ho _ IH]; cbn; [reflexivity|]. now rewrite out_combine_self, IH. Qed.

Lemma comb_with_ins base xs ys :
  good base -> comb (with_ins base xs) (with_ins base ys) = with_ins base (zip_with in_combine xs ys).
Proof.
  intros [_ G2 G3 G4]. unfold comb, with_ins. cbn [p_tx p_ins p_outs p_hd p_extra].
  now rewrite zip_out_self, !dunion_idem by assumption.
Qed.

Lemma with_ins_self base : with_ins base (p_ins base) = base.
Proof. destruct base; reflexivity. Qed.

Section SignP.
Variable sign_segwit : bytes -> tx -> Z -> option script -> option script -> result bytes.
Variable sign_legacy : bytes -> tx -> Z -> option script -> result bytes.

Notation sigfor := (sig_for sign_segwit sign_legacy).
Notation signin := (sign_in sign_segwit sign_legacy).
Notation signins := (sign_ins sign_segwit sign_legacy).
Notation signkey := (sign_key sign_segwit sign_legacy).
Notation signkeys := (sign_keys sign_segwit sign_legacy).

(* the copies: every key signs the SAME base on its own *)
Fixpoint sign_each (keys : list bytes) (base : psbt) : result (list (psbt * bool)) :=
  match keys with
  | [] => Ok []
  | k :: r => c <- signkey k base ;; cs <- sign_each r base ;; Ok (c :: cs)
  end.

(* the signature producers cannot see the partial signatures *)
Lemma sig_for_set_sigs sec t i a s ti : sigfor sec t i (set_sigs a s) ti = sigfor sec t i a ti.
Proof. reflexivity. Qed.

Lemma sign_in_rel sec t i a s ti :
  good_in a -> dsorted s -> ext (pi_sigs a) s ->
  signin sec t i (set_sigs a s) ti =
  match signin sec t i a ti with
  | Ok (y, b) => Ok (in_combine (set_sigs a s) y, b)
  | Err => Err
  end.
Proof.
  intros [G1 G2 G3 _ _] Hs He. unfold sign_in. cbn [pi_named set_sigs].
  destruct (is_some (dget (pi_named a) sec)).
  - rewrite sig_for_set_sigs. destruct (sigfor sec t i a ti) as [sg|]; cbn [bind]; [|reflexivity].
    f_equal. f_equal. cbn [pi_sigs].
    change (set_sigs (set_sigs a s) (dset sec sg s)) with (set_sigs a (dset sec sg s)).
    rewrite in_combine_set_sigs by assumption. now rewrite dunion_dset_ext by assumption.
  - f_equal. f_equal.
    transitivity (in_combine (set_sigs a s) (set_sigs a (pi_sigs a))); [|now rewrite set_sigs_self].
    rewrite in_combine_set_sigs by assumption. now rewrite dunion_ext by assumption.
Qed.

Lemma sign_in_shape sec t i a ti y b :
  signin sec t i a ti = Ok (y, b) -> signed_in sec a y.
Proof.
  unfold sign_in. destruct (is_some (dget (pi_named a) sec)).
  - intros H. apply bind_ok in H as [sg [_ H]]. inversion H; subst. right. now exists sg.
  - intros H. inversion H; subst. now left.
Qed.

Lemma signed_ext sec a y : dsorted (pi_sigs a) -> dget (pi_sigs a) sec = None -> signed_in sec a y -> ext_in a y.
Proof.
  intros Hs Hn [->|[sg ->]]; [now apply ext_in_refl|].
  exists (dset sec sg (pi_sigs a)). split; [reflexivity|]. split; [now apply dset_sorted|].
  apply ext_dset; [apply ext_refl|exact Hn].
Qed.

Lemma signed_combine_ext sec a s y :
  good_in a -> dsorted s -> ext (pi_sigs a) s -> dget (pi_sigs a) sec = None ->
  signed_in sec a y -> ext_in a (in_combine (set_sigs a s) y).
Proof.
  intros [G1 G2 G3 G4 G5] Hs He Hn [->|[sg ->]].
  - exists s. split; [|split; assumption].
    transitivity (in_combine (set_sigs a s) (set_sigs a (pi_sigs a))); [now rewrite set_sigs_self|].
    rewrite in_combine_set_sigs by assumption. now rewrite dunion_ext by assumption.
  - exists (dset sec sg s). split; [|split].
    + rewrite in_combine_set_sigs by assumption. now rewrite dunion_dset_ext by assumption.
    + now apply dset_sorted.
    + now apply ext_dset.
Qed.

Lemma sign_ins_rel sec t : forall l xs, Forall2 ext_in l xs -> Forall good_in l -> forall tis i,
  signins sec t i xs tis =
  match signins sec t i l tis with
  | Ok (ys, b) => Ok (zip_with in_combine xs ys, b)
  | Err => Err
  end.
Proof.
  induction 1 as [|a x l xs (s & -> & Hs & He) F IH]; intros G tis i; [reflexivity|].
  inversion G as [|? ? Ga Gl]; subst. destruct tis as [|ti r']; [reflexivity|]. cbn [sign_ins].
  rewrite sign_in_rel by assumption. destruct (signin sec t i a ti) as [[y b]|]; cbn [bind]; [|reflexivity].
  rewrite IH by assumption. destruct (signins sec t (i + 1) l r') as [[ys b']|]; cbn [bind]; reflexivity.
Qed.

Lemma sign_ins_shape sec t : forall l tis i ys b,
  signins sec t i l tis = Ok (ys, b) -> Forall2 (signed_in sec) l ys.
Proof.
  induction l as [|a l IH]; intros tis i ys b H.
  - cbn in H. inversion H; subst. constructor.
  - destruct tis as [|ti r']; [discriminate|]. cbn [sign_ins] in H.
    apply bind_ok in H as [[y b1] [H1 H]]. apply bind_ok in H as [[ys' b2] [H2 H]]. inversion H; subst.
    constructor; [eapply sign_in_shape; eauto|eapply IH; eauto].
Qed.

Lemma signed_list_ext sec : forall l ys,
  Forall good_in l -> fresh sec l -> Forall2 (signed_in sec) l ys -> Forall2 ext_in l ys.
Proof.
  intros l ys G Fr H. induction H as [|a y l ys Hy H IH]; [constructor|].
  inversion G as [|? ? [G1 _ _ _ _] Gl]; inversion Fr as [|? ? Fa Fl]; subst.
  constructor; [now apply (signed_ext sec)|now apply IH].
Qed.

Lemma signed_list_combine_ext sec : forall l xs ys,
  Forall good_in l -> fresh sec l -> Forall2 ext_in l xs -> Forall2 (signed_in sec) l ys ->
  Forall2 ext_in l (zip_with in_combine xs ys).
Proof.
  intros l xs ys G Fr Hx. revert ys. induction Hx as [|a x l xs (s & -> & Hs & He) Hx IH]; intros ys Hy.
  - inversion Hy; subst. constructor.
  - inversion Hy as [|? y ? ys' Hy1 Hy2]; subst.
    inversion G as [|? ? Ga Gl]; inversion Fr as [|? ? Fa Fl]; subst. cbn [zip_with].
    constructor; [now apply (signed_combine_ext sec)|now apply IH].
Qed.

Lemma sign_key_inv sec base c b :
  signkey sec base = Ok (c, b) ->
  exists ys, signins sec (p_tx base) 0 (p_ins base) (t_ins (p_tx base)) = Ok (ys, b) /\ c = with_ins base ys.
Proof.
  unfold sign_key. intros H. apply bind_ok in H as [[ys b'] [H1 H]]. inversion H; subst. eauto.
Qed.

Lemma sign_key_rel sec base xs :
  good base -> Forall2 ext_in (p_ins base) xs ->
  signkey sec (with_ins base xs) =
  match signkey sec base with
  | Ok (c, b) => Ok (comb (with_ins base xs) c, b)
  | Err => Err
  end.
Proof.
  intros G Hx. unfold sign_key. cbn [with_ins p_tx p_ins].
  rewrite (sign_ins_rel sec (p_tx base) (p_ins base) xs Hx (g_ins _ G)).
  destruct (signins sec (p_tx base) 0 (p_ins base) (t_ins (p_tx base))) as [[ys b]|]; cbn [bind]; [|reflexivity].
  f_equal. f_equal. rewrite comb_with_ins by exact G. reflexivity.
Qed.

Definition all_fresh (keys : list bytes) (base : psbt) : Prop :=
  Forall (fun k => fresh k (p_ins base)) keys.

(* signing with a list of keys on one object = combining the individually signed copies *)
Lemma sign_keys_rel base : good base -> forall keys, all_fresh keys base ->
  forall xs, Forall2 ext_in (p_ins base) xs ->
  signkeys keys (with_ins base xs) =
  match sign_each keys base with
  | Ok cs => Ok (fold_left comb (map fst cs) (with_ins base xs), existsb snd cs)
  | Err => Err
  end.
Proof.
  intros G. induction keys as [|k r IH]; intros Fr xs Hx; [reflexivity|].
  inversion Fr as [|? ? Fk Frr]; subst. cbn [sign_keys sign_each].
  rewrite sign_key_rel by assumption.
  destruct (signkey k base) as [[c b]|] eqn:Ek; cbn [bind]; [|reflexivity].
  destruct (sign_key_inv _ _ _ _ Ek) as [ys [Hys ->]].
  rewrite comb_with_ins by exact G.
  pose proof (sign_ins_shape _ _ _ _ _ _ _ Hys) as Sh.
  rewrite IH; [|exact Frr|now apply (signed_list_combine_ext k); try assumption; apply (g_ins _ G)].
  destruct (sign_each r base) as [cs|]; cbn [bind]; [|reflexivity].
  cbn [map fst fold_left existsb snd]. now rewrite comb_with_ins by exact G.
Qed.

Theorem sign_keys_is_fold_comb base keys :
  good base -> all_fresh keys base ->
  signkeys keys base =
  match sign_each keys base with
  | Ok cs => Ok (fold_left comb (map fst cs) base, existsb snd cs)
  | Err => Err
  end.
Proof.
  intros G Fr.
  pose proof (sign_keys_rel base G keys Fr (p_ins base)) as H. rewrite with_ins_self in H. apply H.
  clear -G. destruct G as [G1 _ _ _]. induction G1 as [|a l [Ga _ _ _ _] _ IH]; constructor; [now apply ext_in_refl|exact IH].
Qed.

(* ---- the copies form a family ---- *)
Lemma sign_each_in base : forall keys cs, sign_each keys base = Ok cs ->
  forall c, In c cs -> exists k, In k keys /\ signkey k base = Ok c.
Proof.
  induction keys as [|k r IH]; intros cs H c Hc; cbn in H.
  - inversion H; subst. contradiction.
  - apply bind_ok in H as [c0 [H0 H]]. apply bind_ok in H as [cs' [H1 H]]. inversion H; subst.
    destruct Hc as [<-|Hc]; [exists k; split; [now left|exact H0]|].
    destruct (IH cs' H1 c Hc) as [k' [Hk Hs]]. exists k'. split; [now right|exact Hs].
Qed.

Lemma agree_dset_fresh (m : dict bytes) k v : dget m k = None -> agree m (dset k v m).
Proof.
  intros Hn k' va vb H1 H2. rewrite dget_dset in H2. destruct (bcmp k' k) eqn:E; try congruence.
  apply bcmp_eq in E. subst. congruence.
Qed.

Lemma agree_dset_two (m : dict bytes) k1 v1 k2 v2 :
  k1 <> k2 -> dget m k1 = None -> dget m k2 = None -> agree (dset k1 v1 m) (dset k2 v2 m).
Proof.
  intros Hne N1 N2 k va vb H1 H2. rewrite dget_dset in H1, H2.
  destruct (bcmp k k1) eqn:E1.
  - apply bcmp_eq in E1. subst k. destruct (bcmp k1 k2) eqn:E2; try congruence.
    apply bcmp_eq in E2. contradiction.
  - destruct (bcmp k k2) eqn:E2; try congruence. apply bcmp_eq in E2. subst. congruence.
  - destruct (bcmp k k2) eqn:E2; try congruence. apply bcmp_eq in E2. subst. congruence.
Qed.

Lemma compat_in_set_sigs a s1 s2 : agree s1 s2 -> compat_in (set_sigs a s1) (set_sigs a s2).
Proof. intros H. constructor; cbn; try apply oagree_refl; try apply agree_refl. exact H. Qed.

Lemma signed_compat_base k a y : dget (pi_sigs a) k = None -> signed_in k a y -> compat_in a y.
Proof.
  intros Hn [->|[sg ->]]; [apply compat_in_refl|].
  rewrite <- (set_sigs_self a) at 1. apply compat_in_set_sigs. now apply agree_dset_fresh.
Qed.

Lemma signed_compat_two k1 k2 a y1 y2 :
  k1 <> k2 -> dget (pi_sigs a) k1 = None -> dget (pi_sigs a) k2 = None ->
  signed_in k1 a y1 -> signed_in k2 a y2 -> compat_in y1 y2.
Proof.
  intros Hne N1 N2 [->|[s1 ->]] [->|[s2 ->]].
  - apply compat_in_refl.
  - now apply (signed_compat_base k2); [|right; exists s2].
  - apply compat_in_sym. now apply (signed_compat_base k1); [|right; exists s1].
  - apply compat_in_set_sigs. now apply agree_dset_two.
Qed.

Lemma good_signed k a y : good_in a -> signed_in k a y -> good_in y.
Proof.
  intros G [->|[sg ->]]; [exact G|]. apply good_in_set_sigs; [exact G|]. apply dset_sorted. now destruct G.
Qed.

Lemma signed_list_good k : forall l ys,
  Forall good_in l -> Forall2 (signed_in k) l ys -> Forall good_in ys.
Proof.
  intros l ys G Sh. induction Sh as [|a y l ys Hy Sh IH]; [constructor|]. inversion G; subst.
  constructor; [eapply good_signed; eauto|now apply IH].
Qed.

Lemma signed_list_compat_base k : forall l ys,
  fresh k l -> Forall2 (signed_in k) l ys -> Forall2 compat_in l ys.
Proof.
  intros l ys Fr Sh. induction Sh as [|a y l ys Hy Sh IH]; [constructor|]. inversion Fr; subst.
  constructor; [now apply (signed_compat_base k)|now apply IH].
Qed.

Lemma signed_list_compat_two k1 k2 : forall l ys1 ys2,
  k1 <> k2 -> fresh k1 l -> fresh k2 l ->
  Forall2 (signed_in k1) l ys1 -> Forall2 (signed_in k2) l ys2 -> Forall2 compat_in ys1 ys2.
Proof.
  intros l ys1 ys2 Hne F1 F2 S1. revert ys2. induction S1 as [|a y1 l ys1 Hy S1 IH]; intros ys2 S2.
  - inversion S2; subst. constructor.
  - inversion S2 as [|? y2 ? ys2' Hy2 S2']; subst. inversion F1; inversion F2; subst.
    constructor; [now apply (signed_compat_two k1 k2 a)|now apply IH].
Qed.

Lemma copy_good base k c : good base -> signkey k base = Ok c -> good (fst c).
Proof.
  intros G H. destruct c as [c b]. destruct (sign_key_inv _ _ _ _ H) as [ys [Hys ->]]. cbn [fst].
  pose proof (sign_ins_shape _ _ _ _ _ _ _ Hys) as Sh. destruct G as [G1 G2 G3 G4].
  constructor; cbn; try assumption. eapply signed_list_good; eauto.
Qed.

Lemma copy_compat_base base k c :
  good base -> fresh k (p_ins base) -> signkey k base = Ok c -> compat base (fst c).
Proof.
  intros G Fr H. destruct c as [c b]. destruct (sign_key_inv _ _ _ _ H) as [ys [Hys ->]]. cbn [fst].
  pose proof (sign_ins_shape _ _ _ _ _ _ _ Hys) as Sh.
  constructor; cbn; try reflexivity; try apply agree_refl.
  - eapply signed_list_compat_base; eauto.
  - apply Forall2_refl, compat_out_refl.
Qed.

Lemma copy_compat_two base k1 k2 c1 c2 :
  good base -> fresh k1 (p_ins base) -> fresh k2 (p_ins base) ->
  signkey k1 base = Ok c1 -> signkey k2 base = Ok c2 -> compat (fst c1) (fst c2).
Proof.
  intros G F1 F2 H1 H2.
  destruct (list_eq_dec Z.eq_dec k1 k2) as [->|Hne].
  { rewrite H1 in H2. inversion H2; subst. apply compat_refl. }
  destruct c1 as [c1 b1], c2 as [c2 b2].
  destruct (sign_key_inv _ _ _ _ H1) as [ys1 [Hy1 ->]]. destruct (sign_key_inv _ _ _ _ H2) as [ys2 [Hy2 ->]].
  cbn [fst]. pose proof (sign_ins_shape _ _ _ _ _ _ _ Hy1) as S1. pose proof (sign_ins_shape _ _ _ _ _ _ _ Hy2) as S2.
  constructor; cbn; try reflexivity; try apply agree_refl.
  - eapply (signed_list_compat_two k1 k2); eauto.
  - apply Forall2_refl, compat_out_refl.
Qed.

Theorem sign_each_family base keys cs :
  good base -> all_fresh keys base -> sign_each keys base = Ok cs -> family (base :: map fst cs).
Proof.
  intros G Fr H.
  assert (K : forall x, In x (map fst cs) -> exists k c, In k keys /\ signkey k base = Ok c /\ x = fst c).
  { intros x Hx. apply in_map_iff in Hx as [c [<- Hc]]. destruct (sign_each_in _ _ _ H c Hc) as [k [Hk Hs]].
    exists k, c. auto. }
  assert (FrK : forall k, In k keys -> fresh k (p_ins base)) by (apply Forall_forall; exact Fr).
  split.
  - intros x [<-|Hx]; [exact G|]. destruct (K x Hx) as (k & c & Hk & Hs & ->). eapply copy_good; eauto.
  - intros x y [<-|Hx] [<-|Hy].
    + apply compat_refl.
    + destruct (K y Hy) as (k & c & Hk & Hs & ->). eapply copy_compat_base; eauto.
    + destruct (K x Hx) as (k & c & Hk & Hs & ->). apply compat_sym. eapply copy_compat_base; eauto.
    + destruct (K x Hx) as (k1 & c1 & Hk1 & Hs1 & ->). destruct (K y Hy) as (k2 & c2 & Hk2 & Hs2 & ->).
      eapply (copy_compat_two base k1 k2); eauto.
Qed.

(* ---- any order of the keys ---- *)
Lemma sign_each_perm base keys keys' :
  Permutation keys keys' -> forall cs, sign_each keys base = Ok cs ->
  exists cs', sign_each keys' base = Ok cs' /\ Permutation cs cs'.
Proof.
  induction 1 as [|k l l' P IH|k1 k2 l|l l' l'' P1 IH1 P2 IH2]; intros cs H.
  - exists cs. split; [exact H|apply Permutation_refl].
  - cbn in H. apply bind_ok in H as [c [Hc H]]. apply bind_ok in H as [cs0 [H0 H]]. inversion H; subst.
    destruct (IH cs0 H0) as [cs' [H' P']]. exists (c :: cs'). split; [cbn; now rewrite Hc, H'|now apply perm_skip].
  - cbn in H. apply bind_ok in H as [c2 [Hc2 H]]. apply bind_ok in H as [cs1 [H1 H]].
    apply bind_ok in H1 as [c1 [Hc1 H1]]. apply bind_ok in H1 as [cs0 [H0 H1]]. inversion H1; inversion H; subst.
    exists (c1 :: c2 :: cs0). split; [cbn; now rewrite Hc1, Hc2, H0|apply perm_swap].
  - destruct (IH1 cs H) as [cs1 [H1 Q1]]. destruct (IH2 cs1 H1) as [cs2 [H2 Q2]].
    exists cs2. split; [exact H2|eapply perm_trans; eauto].
Qed.

Lemma existsb_perm {A} (f : A -> bool) l l' : Permutation l l' -> existsb f l = existsb f l'.
Proof.
  induction 1; cbn; try congruence.
  - destruct (f x), (f y); reflexivity.
Qed.

Lemma all_fresh_perm keys keys' base : Permutation keys keys' -> all_fresh keys base -> all_fresh keys' base.
Proof. intros P H. unfold all_fresh in *. eapply Permutation_Forall; eauto. Qed.

(* the keys may be given in any order: same PSBT, same bytes, same `signed` flag *)
Theorem sign_keys_order_independent base keys keys' :
  good base -> all_fresh keys base -> Permutation keys keys' ->
  signkeys keys base = signkeys keys' base.
Proof.
  intros G Fr P.
  rewrite (sign_keys_is_fold_comb base keys G Fr).
  rewrite (sign_keys_is_fold_comb base keys' G (all_fresh_perm _ _ _ P Fr)).
  destruct (sign_each keys base) as [cs|] eqn:E.
  - destruct (sign_each_perm base keys keys' P cs E) as [cs' [E' Q]]. rewrite E'.
    f_equal. f_equal.
    + apply fold_comb_perm; [now apply Permutation_map|]. eapply sign_each_family; eauto.
    + now apply existsb_perm.
  - destruct (sign_each keys' base) as [cs'|] eqn:E'; [|reflexivity].
    destruct (sign_each_perm base keys' keys (Permutation_sym P) cs' E') as [cs [E2 _]]. congruence.
Qed.

End SignP.
