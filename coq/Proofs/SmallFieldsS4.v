(* exhaustive field-law sweep (elements, pairs, triples of F_p) for the primes 90 <= p < 98 *)
From V Require Import Base.Prelude Model.Pecc Proofs.CurveSweep Proofs.SmallFields.
Lemma field_range_90_98 : chk_field_range 90 8 = true.
Proof. vm_cast_no_check (eq_refl true). Qed.
