(* Proofs/MnemonicP.v — BIP39 model (Model/Mnemonic.v): index-level and text-level
   round trips, acceptance criteria, word-list lookup facts.  Generic in sha256 and
   in the word list; the facts about the shipped lists are in WordlistP.v. *)
From V Require Import Base.Prelude Base.Ints Proofs.BitsP Model.Mnemonic.

Definition from_digits (idx : list Z) : Z := fold_left (fun acc i => acc * 2048 + i) idx 0.

Definition ent_ok (e : bytes) : Prop :=
  bytes_ok e /\ In (length e) [16; 20; 24; 28; 32]%nat.

(* ------------------------------------------------------------------ arithmetic helpers *)

Lemma Ok_inj {A} (a b : A) : Ok a = Ok b -> a = b.
Proof. intros H. now inversion H. Qed.

Lemma zlen_cons {A} (x : A) l : zlen (x :: l) = zlen l + 1.
Proof. unfold zlen. cbn [length]. lia. Qed.

Lemma zlen_nonneg {A} (l : list A) : 0 <= zlen l.
Proof. unfold zlen. lia. Qed.

Lemma pow256_pow2 n : pow256 n = 2 ^ (8 * Z.of_nat n).
Proof. unfold pow256. rewrite Z.pow_mul_r by lia. change (2 ^ 8) with 256. reflexivity. Qed.

Lemma pow2048_pow2 n : 0 <= n -> 2048 ^ n = 2 ^ (11 * n).
Proof. intros H. rewrite Z.pow_mul_r by lia. change (2 ^ 11) with 2048. reflexivity. Qed.

Lemma int_to_be_ok n len : 0 <= n < pow256 len -> int_to_be n len = Ok (to_be len n).
Proof.
  intros H. unfold int_to_be, to_be.
  destruct (0 <=? n) eqn:E1; destruct (n <? pow256 len) eqn:E2; cbn; try reflexivity; lia.
Qed.

Lemma int_to_be_inv n len b : int_to_be n len = Ok b -> 0 <= n < pow256 len /\ b = to_be len n.
Proof.
  unfold int_to_be, to_be.
  destruct (0 <=? n) eqn:E1; destruct (n <? pow256 len) eqn:E2; cbn; intros H; inversion H.
  split; [lia | reflexivity].
Qed.

Lemma from_be_bound e : bytes_ok e -> 0 <= from_be e < 2 ^ (8 * zlen e).
Proof.
  intros H. unfold from_be, zlen. rewrite <- pow256_pow2, <- (rev_length e).
  apply from_le_bound. now apply bytes_ok_rev.
Qed.

Lemma cs_bound h n : 0 <= h < 256 -> 0 <= n <= 8 -> 0 <= h / 2 ^ (8 - n) < 2 ^ n.
Proof.
  intros Hh Hn. pose proof (pow2_pos (8 - n) ltac:(lia)) as P.
  split; [apply Z.div_pos; lia|].
  apply Z.div_lt_upper_bound; [exact P|].
  rewrite <- Z.pow_add_r by lia. replace (8 - n + n) with 8 by lia.
  change (2 ^ 8) with 256. lia.
Qed.

(* ------------------------------------------------------------------ base-2048 digits *)

Lemma fold_shl_eq idx a :
  fold_left (fun acc i => Z.shiftl acc 11 + i) idx a =
  fold_left (fun acc i => acc * 2048 + i) idx a.
Proof.
  revert a. induction idx as [|i r IH]; intros a; cbn [fold_left]; [reflexivity|].
  rewrite IH. rewrite shl_mul by lia. change (2 ^ 11) with 2048. reflexivity.
Qed.

Lemma fold_digits_shift idx a :
  fold_left (fun acc i => acc * 2048 + i) idx a = a * 2048 ^ zlen idx + from_digits idx.
Proof.
  unfold from_digits. revert a. induction idx as [|i r IH]; intros a.
  - cbn [fold_left]. unfold zlen. cbn [length]. change (2048 ^ Z.of_nat 0) with 1. lia.
  - cbn [fold_left]. rewrite (IH (a * 2048 + i)), (IH (0 * 2048 + i)).
    rewrite zlen_cons, Z.pow_add_r by (try apply zlen_nonneg; lia).
    change (2048 ^ 1) with 2048. ring.
Qed.

Lemma from_digits_nil : from_digits [] = 0.
Proof. reflexivity. Qed.

Lemma from_digits_cons i r : from_digits (i :: r) = i * 2048 ^ zlen r + from_digits r.
Proof.
  unfold from_digits at 1. cbn [fold_left]. rewrite fold_digits_shift. ring.
Qed.

Lemma from_digits_app a b :
  from_digits (a ++ b) = from_digits a * 2048 ^ zlen b + from_digits b.
Proof.
  unfold from_digits at 1. rewrite fold_left_app. fold (from_digits a).
  apply fold_digits_shift.
Qed.

Lemma from_digits_bound idx :
  Forall (fun i => 0 <= i < 2048) idx -> 0 <= from_digits idx < 2048 ^ zlen idx.
Proof.
  induction 1 as [|i r Hi Hr IH].
  - cbn. lia.
  - rewrite from_digits_cons, zlen_cons, Z.pow_add_r by (try apply zlen_nonneg; lia).
    change (2048 ^ 1) with 2048.
    assert (0 < 2048 ^ zlen r) by (apply Z.pow_pos_nonneg; [lia | apply zlen_nonneg]).
    nia.
Qed.

Theorem from_digits_inj : forall a b, length a = length b ->
  Forall (fun i => 0 <= i < 2048) a -> Forall (fun i => 0 <= i < 2048) b ->
  from_digits a = from_digits b -> a = b.
Proof.
  induction a as [|i r IH]; intros [|j q] HL Ha Hb E; try discriminate; [reflexivity|].
  inversion Ha as [|? ? Hi Hr]; subst. inversion Hb as [|? ? Hj Hq]; subst.
  injection HL as HL. rewrite !from_digits_cons in E.
  assert (Z : zlen q = zlen r) by (unfold zlen; now rewrite HL).
  rewrite Z in E.
  pose proof (from_digits_bound r Hr) as Br. pose proof (from_digits_bound q Hq) as Bq.
  rewrite Z in Bq.
  destruct (Z.div_mod_unique (2048 ^ zlen r) i j (from_digits r) (from_digits q)) as [E1 E2];
    [left; lia | left; lia | lia |].
  subst j. f_equal. apply IH; assumption.
Qed.

(* ------------------------------------------------------------------ groups11 *)

Lemma groups11_app n : forall x acc, groups11 n x acc = groups11 n x [] ++ acc.
Proof.
  induction n as [|k IH]; intros x acc; cbn [groups11]; [reflexivity|].
  rewrite IH, (IH _ [_]). rewrite <- app_assoc. reflexivity.
Qed.

Lemma land_2047 x : Z.land x 2047 = x mod 2048.
Proof. change 2047 with (2 ^ 11 - 1). rewrite land_mask by lia. reflexivity. Qed.

Lemma shr_11 x : Z.shiftr x 11 = x / 2048.
Proof. rewrite shr_div by lia. reflexivity. Qed.

Lemma groups11_S k x : groups11 (S k) x [] = groups11 k (x / 2048) [] ++ [x mod 2048].
Proof. cbn [groups11]. rewrite groups11_app, land_2047, shr_11. reflexivity. Qed.

Lemma groups11_length n : forall x, length (groups11 n x []) = n.
Proof.
  induction n as [|k IH]; intros x; [reflexivity|].
  rewrite groups11_S, app_length, IH. cbn. lia.
Qed.

Lemma groups11_range n : forall x, Forall (fun i => 0 <= i < 2048) (groups11 n x []).
Proof.
  induction n as [|k IH]; intros x; [constructor|].
  rewrite groups11_S. apply Forall_app. split; [apply IH|].
  constructor; [|constructor]. apply Z.mod_pos_bound. lia.
Qed.

Lemma groups11_digits n : forall x, from_digits (groups11 n x []) = x mod 2048 ^ Z.of_nat n.
Proof.
  induction n as [|k IH]; intros x.
  - cbn. now rewrite Z.mod_1_r.
  - rewrite groups11_S, from_digits_app, IH.
    rewrite Nat2Z.inj_succ, Z.pow_succ_r by lia.
    rewrite (Z.rem_mul_r x 2048 (2048 ^ Z.of_nat k)) by (try apply Z.pow_pos_nonneg; lia).
    unfold from_digits at 1. cbn [fold_left]. unfold zlen. cbn [length].
    change (2048 ^ Z.of_nat 1) with 2048. ring.
Qed.

(* ------------------------------------------------------------------ the admissible sizes *)

Lemma ent_len e : ent_ok e ->
  zlen e = 16 \/ zlen e = 20 \/ zlen e = 24 \/ zlen e = 28 \/ zlen e = 32.
Proof.
  intros [_ H]. unfold zlen. cbn [In] in H.
  destruct H as [H|[H|[H|[H|[H|[]]]]]]; rewrite <- H; cbn; tauto.
Qed.

Lemma L_facts L : L = 16 \/ L = 20 \/ L = 24 \/ L = 28 \/ L = 32 ->
  valid_num_bits (8 * L) = true /\ 8 * L / 32 = L / 4 /\
  (8 * L + L / 4) / 11 = 3 * (L / 4) /\ 4 <= L / 4 <= 8 /\ L = 4 * (L / 4) /\
  valid_num_words (3 * (L / 4)) = true /\ 3 * (L / 4) / 3 = L / 4.
Proof.
  intros [->|[->|[->|[->| ->]]]]; repeat split; try reflexivity; apply Z.leb_le; reflexivity.
Qed.

Lemma W_facts nw : valid_num_words nw = true ->
  4 <= nw / 3 <= 8 /\ nw = 3 * (nw / 3) /\ (nw * 11 - nw / 3) / 8 = 4 * (nw / 3).
Proof.
  unfold valid_num_words. rewrite !orb_true_iff, !Z.eqb_eq.
  intros [[[[->| ->]| ->]| ->]| ->]; repeat split; try reflexivity; apply Z.leb_le; reflexivity.
Qed.

Section Index.
  Variable sha256 : bytes -> bytes.
  Hypothesis sha_ok : forall x, exists h t, sha256 x = h :: t /\ 0 <= h < 256.

  Lemma b2i_eq e h t : ent_ok e -> sha256 e = h :: t -> 0 <= h < 256 ->
    bytes_to_indices sha256 e (8 * zlen e) =
    Ok (groups11 (Z.to_nat (3 * (zlen e / 4)))
          (from_be e * 2 ^ (zlen e / 4) + h / 2 ^ (8 - zlen e / 4)) []).
  Proof.
    intros He Hs Hh. pose proof (L_facts _ (ent_len e He)) as (F1 & F2 & F3 & F4 & F5 & F6 & F7).
    unfold bytes_to_indices. rewrite F1. cbn [negb]. rewrite Hs. cbn [first_byte bind].
    rewrite F2, F3. rewrite shr_div by lia. rewrite lor_shiftl_add by (try apply cs_bound; lia).
    reflexivity.
  Qed.

  (* all_bits of an admissible entropy fits in 3*ncs base-2048 digits *)
  Lemma all_bits_bound e h : ent_ok e -> 0 <= h < 256 ->
    0 <= from_be e * 2 ^ (zlen e / 4) + h / 2 ^ (8 - zlen e / 4) < 2048 ^ (3 * (zlen e / 4)).
  Proof.
    intros He Hh. pose proof (L_facts _ (ent_len e He)) as (F1 & F2 & F3 & F4 & F5 & F6 & F7).
    pose proof (from_be_bound e (proj1 He)) as B. rewrite F5 in B.
    pose proof (cs_bound h (zlen e / 4) Hh ltac:(lia)) as C.
    rewrite pow2048_pow2 by lia.
    replace (11 * (3 * (zlen e / 4))) with (8 * (4 * (zlen e / 4)) + zlen e / 4) by lia.
    rewrite Z.pow_add_r by lia.
    set (X := 2 ^ (8 * (4 * (zlen e / 4)))) in *. set (Bn := 2 ^ (zlen e / 4)) in *.
    assert ((from_be e + 1) * Bn <= X * Bn) by (apply Z.mul_le_mono_nonneg_r; lia).
    nia.
  Qed.

  Lemma b2i_digits e h t idx : ent_ok e -> sha256 e = h :: t -> 0 <= h < 256 ->
    bytes_to_indices sha256 e (8 * zlen e) = Ok idx ->
    from_digits idx = from_be e * 2 ^ (zlen e / 4) + h / 2 ^ (8 - zlen e / 4) /\
    zlen idx = 3 * (zlen e / 4) /\ Forall (fun i => 0 <= i < 2048) idx.
  Proof.
    intros He Hs Hh E. rewrite (b2i_eq e h t He Hs Hh) in E. apply Ok_inj in E. subst idx.
    pose proof (L_facts _ (ent_len e He)) as (F1 & F2 & F3 & F4 & F5 & F6 & F7).
    split; [|split].
    - rewrite groups11_digits. rewrite Z2Nat.id by lia.
      apply Z.mod_small. now apply all_bits_bound.
    - unfold zlen at 1. rewrite groups11_length. lia.
    - apply groups11_range.
  Qed.

  Theorem indices_layout : forall e idx h t, ent_ok e -> sha256 e = h :: t -> 0 <= h < 256 ->
    bytes_to_indices sha256 e (8 * zlen e) = Ok idx ->
    from_digits idx = from_be e * 2 ^ (zlen e / 4) + h / 2 ^ (8 - zlen e / 4).
  Proof. intros e idx h t He Hs Hh E. exact (proj1 (b2i_digits e h t idx He Hs Hh E)). Qed.

  Theorem indices_bad_length : forall idx,
    valid_num_words (zlen idx) = false -> indices_to_bytes sha256 idx = Err.
  Proof. intros idx H. unfold indices_to_bytes. rewrite H. reflexivity. Qed.

  Theorem indices_accept_iff : forall idx s, Forall (fun i => 0 <= i < 2048) idx ->
    (indices_to_bytes sha256 idx = Ok s <->
     valid_num_words (zlen idx) = true /\
     s = to_be (Z.to_nat ((zlen idx * 11 - zlen idx / 3) / 8))
               (from_digits idx / 2 ^ (zlen idx / 3)) /\
     exists h t, sha256 s = h :: t /\
       from_digits idx mod 2 ^ (zlen idx / 3) = h / 2 ^ (8 - zlen idx / 3)).
  Proof.
    intros idx s Hr. unfold indices_to_bytes. cbv zeta. rewrite fold_shl_eq.
    fold (from_digits idx).
    destruct (valid_num_words (zlen idx)) eqn:V; cbn [negb].
    2:{ split; [discriminate | intros [? _]; discriminate]. }
    pose proof (W_facts _ V) as (W1 & W2 & W3).
    pose proof (from_digits_bound idx Hr) as B.
    rewrite land_mask', !shr_div by lia.
    set (D := from_digits idx) in *. set (n := zlen idx / 3) in *.
    assert (R : 0 <= D / 2 ^ n < pow256 (Z.to_nat ((zlen idx * 11 - n) / 8))).
    { pose proof (pow2_pos n ltac:(lia)) as P. split; [apply Z.div_pos; lia|].
      apply Z.div_lt_upper_bound; [exact P|].
      rewrite pow256_pow2, W3, Z2Nat.id, <- Z.pow_add_r by lia.
      rewrite pow2048_pow2 in B by lia. rewrite W2 in B.
      replace (n + 8 * (4 * n)) with (11 * (3 * n)) by lia. lia. }
    rewrite (int_to_be_ok _ _ R). cbn [bind].
    set (s0 := to_be _ _).
    destruct (sha256 s0) as [|h t] eqn:S; cbn [first_byte bind].
    - split; [discriminate|]. intros (_ & -> & h & t & E & _). congruence.
    - rewrite shr_div by lia. destruct (Z.eqb_spec (D mod 2 ^ n) (h / 2 ^ (8 - n))) as [E|E].
      + split.
        * intros [= <-]. split; [reflexivity|]. split; [reflexivity|]. now exists h, t.
        * intros (_ & -> & _). reflexivity.
      + split; [discriminate|]. intros (_ & -> & h' & t' & E1 & E2).
        rewrite S in E1. injection E1 as <- <-. contradiction.
  Qed.

  Theorem indices_roundtrip : forall e, ent_ok e ->
    exists idx, bytes_to_indices sha256 e (8 * zlen e) = Ok idx /\
      indices_to_bytes sha256 idx = Ok e /\
      Z.of_nat (length idx) = 3 * (zlen e / 4) /\
      Forall (fun i => 0 <= i < 2048) idx.
  Proof.
    intros e He. destruct (sha_ok e) as (h & t & Hs & Hh).
    pose proof (b2i_eq e h t He Hs Hh) as E. eexists. split; [exact E|].
    destruct (b2i_digits e h t _ He Hs Hh E) as (D & Z & R).
    pose proof (L_facts _ (ent_len e He)) as (F1 & F2 & F3 & F4 & F5 & F6 & F7).
    split; [|split; [exact Z | exact R]].
    apply indices_accept_iff; [exact R|].
    rewrite Z, D. pose proof (W_facts _ F6) as (W1 & W2 & W3). rewrite W3, !F7, <- F5.
    pose proof (cs_bound h (zlen e / 4) Hh ltac:(lia)) as C.
    pose proof (pow2_pos (zlen e / 4) ltac:(lia)) as P.
    split; [exact F6|]. split.
    - rewrite Z.div_add_l by lia. rewrite (Z.div_small (h / _)) by exact C.
      rewrite Z.add_0_r. unfold zlen. rewrite Nat2Z.id. symmetry. apply to_be_from_be, He.
    - exists h, t. split; [exact Hs|].
      rewrite Z.add_comm, Z.mod_add by lia. now apply Z.mod_small.
  Qed.
End Index.

(* ------------------------------------------------------------------ word list lookup *)

Theorem key_hit_spec : forall w key,
  key_hit w key = true <-> key = w \/ (4 < zlen w /\ key = firstn 4 w).
Proof.
  intros w key. unfold key_hit. rewrite orb_true_iff, andb_true_iff, !beq_eq, Z.ltb_lt.
  split; intros [H|[H1 H2]]; subst; auto.
Qed.

Lemma lookup_from_spec ws : forall i key acc,
  (lookup_from ws i key acc = acc /\ forall w, In w ws -> key_hit w key = false) \/
  (exists k w, lookup_from ws i key acc = Some (i + Z.of_nat k) /\
     nth_error ws k = Some w /\ key_hit w key = true /\
     forall j w', (k < j)%nat -> nth_error ws j = Some w' -> key_hit w' key = false).
Proof.
  induction ws as [|w r IH]; intros i key acc.
  - left. split; [reflexivity | intros ? []].
  - cbn [lookup_from].
    destruct (IH (i + 1) key (if key_hit w key then Some i else acc))
      as [[E Hn]|(k & w0 & E & Hk & Hh & Hl)].
    + destruct (key_hit w key) eqn:K.
      * right. exists 0%nat, w. rewrite E. split; [f_equal; cbn; lia|].
        split; [reflexivity|]. split; [exact K|].
        intros j w' Hj Hnth. destruct j; [lia|]. cbn in Hnth. apply Hn.
        eapply nth_error_In; eauto.
      * left. split; [exact E|]. intros w' [<-|Hin]; auto.
    + right. exists (S k), w0. rewrite E. split; [f_equal; lia|].
      split; [exact Hk|]. split; [exact Hh|].
      intros j w' Hj Hnth. destruct j; [lia|]. cbn in Hnth. apply (Hl j); [lia | exact Hnth].
Qed.

Theorem wl_index_sound : forall ws key i, wl_index ws key = Ok i ->
  0 <= i < zlen ws /\
  (exists w, nth_error ws (Z.to_nat i) = Some w /\ key_hit w key = true) /\
  (forall j w', (Z.to_nat i < j)%nat -> nth_error ws j = Some w' -> key_hit w' key = false).
Proof.
  intros ws key i. unfold wl_index.
  destruct (lookup_from_spec ws 0 key None) as [[E _]|(k & w & E & Hk & Hh & Hl)];
    rewrite E; [discriminate|].
  intros H. apply Ok_inj in H. subst i.
  replace (Z.to_nat (0 + Z.of_nat k)) with k by lia.
  assert (k < length ws)%nat by (apply nth_error_Some; congruence).
  split; [unfold zlen; lia|]. split; [exists w; auto | exact Hl].
Qed.

Theorem wl_index_err : forall ws key,
  wl_index ws key = Err <-> (forall w, In w ws -> key_hit w key = false).
Proof.
  intros ws key. unfold wl_index.
  destruct (lookup_from_spec ws 0 key None) as [[E Hn]|(k & w & E & Hk & Hh & Hl)]; rewrite E.
  - split; [intros _; exact Hn | reflexivity].
  - split; [discriminate|]. intros H. apply nth_error_In in Hk. rewrite (H w Hk) in Hh.
    discriminate.
Qed.

(* ------------------------------------------------------------------ split / join *)

Lemma split_aux_word w : forall cur rest, Forall (fun c => is_space c = false) w ->
  split_aux cur (w ++ rest) = split_aux (rev w ++ cur) rest.
Proof.
  induction w as [|a w IH]; intros cur rest H; [reflexivity|].
  inversion H as [|? ? Ha Hw]; subst. cbn [app split_aux rev]. rewrite Ha.
  rewrite IH by exact Hw. rewrite <- app_assoc. reflexivity.
Qed.

Lemma rev_nonnil {A} (w : list A) : w <> [] -> exists x r, rev w = x :: r.
Proof.
  intros H. destruct (rev w) as [|x r] eqn:R; [|eauto].
  apply (f_equal (@rev A)) in R. rewrite rev_involutive in R. cbn in R. contradiction.
Qed.

Theorem split_join : forall wl,
  Forall (fun w => w <> [] /\ Forall (fun c => is_space c = false) w) wl ->
  split_ws (join_sp wl) = wl.
Proof.
  unfold split_ws. induction wl as [|w r IH]; intros H; [reflexivity|].
  inversion H as [|? ? [Hne Hsp] Hr]; subst.
  destruct (rev_nonnil w Hne) as (x & q & R).
  destruct r as [|w2 r'].
  - cbn [join_sp]. rewrite <- (app_nil_r w) at 1. rewrite split_aux_word by exact Hsp.
    cbn [split_aux]. rewrite app_nil_r. rewrite R, <- R, rev_involutive. reflexivity.
  - change (join_sp (w :: w2 :: r')) with (w ++ 32 :: join_sp (w2 :: r')).
    rewrite split_aux_word by exact Hsp. cbn [split_aux].
    change (is_space 32) with true. cbv iota. rewrite app_nil_r, R, <- R, rev_involutive.
    rewrite IH by exact Hr. reflexivity.
Qed.

(* ------------------------------------------------------------------ mapM *)

Lemma mapM_length {A B} (f : A -> result B) : forall l r, mapM f l = Ok r -> length r = length l.
Proof.
  induction l as [|a l IH]; intros r H; cbn [mapM] in H.
  - apply Ok_inj in H. now subst.
  - destruct (f a) as [b|]; cbn [bind] in H; [|discriminate].
    destruct (mapM f l) as [t|]; cbn [bind] in H; [|discriminate].
    apply Ok_inj in H. subst r. cbn [length]. f_equal. now apply IH.
Qed.

Lemma mapM_Forall2 {A B} (f : A -> result B) : forall l r,
  Forall2 (fun a b => f a = Ok b) l r -> mapM f l = Ok r.
Proof.
  induction 1 as [|a b l r Hab Hlr IH]; cbn [mapM]; [reflexivity|].
  rewrite Hab, IH. reflexivity.
Qed.

Lemma mapM_err {A B} (f : A -> result B) : forall l a, In a l -> f a = Err -> mapM f l = Err.
Proof.
  induction l as [|x l IH]; intros a Hin E; [destruct Hin|].
  destruct Hin as [<-|Hin]; cbn [mapM].
  - rewrite E. reflexivity.
  - destruct (f x); cbn [bind]; [|reflexivity]. rewrite (IH a Hin E). reflexivity.
Qed.

Lemma mapM_wl_word ws : forall idx, Forall (fun i => 0 <= i < zlen ws) idx ->
  exists l, mapM (wl_word ws) idx = Ok l /\
    Forall2 (fun i w => nth_error ws (Z.to_nat i) = Some w) idx l.
Proof.
  induction 1 as [|i r Hi Hr (l & E & F)].
  - exists []. split; [reflexivity | constructor].
  - destruct (nth_error ws (Z.to_nat i)) as [w|] eqn:N.
    2:{ apply nth_error_None in N. unfold zlen in Hi. lia. }
    exists (w :: l). split; [|constructor; assumption].
    cbn [mapM]. unfold wl_word at 1. rewrite N, E.
    replace ((0 <=? i) && (i <? zlen ws)) with true; [reflexivity|].
    symmetry. apply andb_true_iff. split; [apply Z.leb_le | apply Z.ltb_lt]; lia.
Qed.

(* ------------------------------------------------------------------ good word lists *)

Definition wl_good (ws : list (list Z)) (n : Z) : Prop :=
  zlen ws = n /\
  forall i w, nth_error ws i = Some w ->
    w <> [] /\ Forall (fun c => is_space c = false) w /\ Forall (fun c => 0 <= c < 128) w /\
    wl_index ws w = Ok (Z.of_nat i) /\
    (4 < zlen w -> wl_index ws (firstn 4 w) = Ok (Z.of_nat i)).

Lemma wl_good_prefix ws n i w : wl_good ws n -> nth_error ws i = Some w ->
  wl_index ws (firstn 4 w) = Ok (Z.of_nat i).
Proof.
  intros [_ H] N. destruct (H i w N) as (_ & _ & _ & A & B).
  destruct (Z.lt_ge_cases 4 (zlen w)) as [L|L]; [now apply B|].
  rewrite firstn_all2; [exact A | unfold zlen in L; lia].
Qed.

Theorem wl_good_nodup : forall ws n, wl_good ws n -> NoDup ws.
Proof.
  intros ws n [_ H]. apply NoDup_nth_error. intros i j Hi E.
  destruct (nth_error ws i) as [w|] eqn:Ei; [|apply nth_error_None in Ei; lia].
  symmetry in E. destruct (H i w Ei) as (_ & _ & _ & A & _).
  destruct (H j w E) as (_ & _ & _ & B & _). rewrite A in B. apply Ok_inj in B. lia.
Qed.

Theorem wl_good_prefix4_unique : forall ws n, wl_good ws n -> NoDup (map (firstn 4) ws).
Proof.
  intros ws n G. apply NoDup_nth_error. intros i j Hi E. rewrite map_length in Hi.
  rewrite !nth_error_map in E.
  destruct (nth_error ws i) as [a|] eqn:Ei; [|apply nth_error_None in Ei; lia].
  destruct (nth_error ws j) as [b|] eqn:Ej; [|discriminate].
  cbn [option_map] in E. assert (E' : firstn 4 a = firstn 4 b) by congruence.
  pose proof (wl_good_prefix ws n i a G Ei) as A.
  pose proof (wl_good_prefix ws n j b G Ej) as B.
  rewrite E', B in A. apply Ok_inj in A. lia.
Qed.

Theorem wl_good_lookup : forall ws n key i, wl_good ws n ->
  (wl_index ws key = Ok i <->
   0 <= i < n /\ exists w, nth_error ws (Z.to_nat i) = Some w /\
     (key = w \/ (4 < zlen w /\ key = firstn 4 w))).
Proof.
  intros ws n key i G. split.
  - intros H. destruct (wl_index_sound ws key i H) as (R & (w & N & K) & _).
    destruct G as [<- _]. split; [exact R|]. exists w. split; [exact N|].
    now apply key_hit_spec.
  - intros (R & w & N & K). destruct G as [Z H].
    destruct (H _ w N) as (_ & _ & _ & A & B). rewrite Z2Nat.id in A, B by lia.
    destruct K as [->|[L ->]]; [exact A | now apply B].
Qed.

(* ------------------------------------------------------------------ text level *)

Section Text0.
  Variable sha256 : bytes -> bytes.
  Variable words : list (list Z).

  Theorem mnemonic_accept_iff : forall m s,
    mnemonic_to_bytes sha256 words m = Ok s <->
    exists idx, mapM (wl_index words) (split_ws m) = Ok idx /\
                indices_to_bytes sha256 idx = Ok s.
  Proof.
    intros m s. unfold mnemonic_to_bytes. cbv zeta. split.
    - destruct (valid_num_words (zlen (split_ws m))); cbn [negb]; [|discriminate].
      destruct (mapM (wl_index words) (split_ws m)) as [idx|]; cbn [bind]; [|discriminate].
      intros H. now exists idx.
    - intros (idx & E1 & E2). rewrite E1. cbn [bind].
      assert (V : valid_num_words (zlen idx) = true).
      { destruct (valid_num_words (zlen idx)) eqn:V; [reflexivity|].
        rewrite (indices_bad_length sha256 idx V) in E2. discriminate. }
      unfold zlen in *. rewrite <- (mapM_length _ _ _ E1), V. exact E2.
  Qed.

  Theorem mnemonic_unknown_word : forall m w, In w (split_ws m) ->
    (forall x, In x words -> key_hit x w = false) ->
    mnemonic_to_bytes sha256 words m = Err.
  Proof.
    intros m w Hin Hno. unfold mnemonic_to_bytes. cbv zeta.
    destruct (negb (valid_num_words (zlen (split_ws m)))); [reflexivity|].
    rewrite (mapM_err _ _ w Hin); [reflexivity|]. now apply wl_index_err.
  Qed.
End Text0.

Lemma lxor_bound a b n : 0 < n -> 0 <= a < 2 ^ n -> 0 <= b < 2 ^ n -> 0 <= Z.lxor a b < 2 ^ n.
Proof.
  intros Hn Ha Hb.
  assert (L : forall x, 0 <= x < 2 ^ n -> Z.log2 x < n).
  { intros x Hx. destruct (Z.eq_dec x 0) as [->|Hz]; [cbn; lia|]. apply Z.log2_lt_pow2; lia. }
  assert (N : 0 <= Z.lxor a b) by (apply Z.lxor_nonneg; lia).
  split; [exact N|].
  destruct (Z.eq_dec (Z.lxor a b) 0) as [->|Hz]; [apply pow2_pos; lia|].
  apply Z.log2_lt_pow2; [lia|].
  pose proof (Z.log2_lxor a b ltac:(lia) ltac:(lia)). pose proof (L a Ha). pose proof (L b Hb). lia.
Qed.

Lemma NB_facts nb : valid_num_bits nb = true ->
  nb = 8 * (nb / 8) /\ 0 < nb /\ 0 <= nb / 8 /\ In (Z.to_nat (nb / 8)) [16; 20; 24; 28; 32]%nat.
Proof.
  unfold valid_num_bits. rewrite !orb_true_iff, !Z.eqb_eq.
  intros [[[[->| ->]| ->]| ->]| ->]; repeat split; try reflexivity;
    try (apply Z.leb_le; reflexivity); vm_compute; tauto.
Qed.

Section Text.
  Variable sha256 : bytes -> bytes.
  Hypothesis sha_ok : forall x, exists h t, sha256 x = h :: t /\ 0 <= h < 256.
  Variable words : list (list Z).
  Hypothesis words_good : wl_good words 2048.

  Lemma words_at idx l : Forall (fun i => 0 <= i < 2048) idx ->
    Forall2 (fun i w => nth_error words (Z.to_nat i) = Some w) idx l ->
    mapM (wl_index words) l = Ok idx /\
    mapM (wl_index words) (map (firstn 4) l) = Ok idx /\
    Forall (fun w => w <> [] /\ Forall (fun c => is_space c = false) w) l /\
    Forall (fun w => w <> [] /\ Forall (fun c => is_space c = false) w) (map (firstn 4) l).
  Proof.
    intros R F. revert R. induction F as [|i w idx l N F IH]; intros R.
    - repeat split; constructor.
    - inversion R as [|? ? Hi Hr]; subst. destruct (IH Hr) as (A & B & C & D).
      destruct words_good as [_ G]. destruct (G _ w N) as (G1 & G2 & _ & G4 & _).
      pose proof (wl_good_prefix _ _ _ _ words_good N) as G5.
      rewrite Z2Nat.id in G4, G5 by lia.
      split; [|split; [|split]].
      + cbn [mapM]. rewrite G4, A. reflexivity.
      + cbn [map mapM]. rewrite G5, B. reflexivity.
      + constructor; [split; assumption | exact C].
      + cbn [map]. constructor; [|exact D]. split.
        * destruct w; [contradiction | discriminate].
        * apply Forall_forall. intros c Hc. rewrite Forall_forall in G2. apply G2.
          rewrite <- (firstn_skipn 4 w). apply in_or_app. now left.
  Qed.

  Lemma mnemonic_roundtrip_strong e : ent_ok e ->
    exists idx l, bytes_to_indices sha256 e (8 * zlen e) = Ok idx /\
      Forall2 (fun i w => nth_error words (Z.to_nat i) = Some w) idx l /\
      bytes_to_mnemonic sha256 words e (8 * zlen e) = Ok (join_sp l) /\
      mnemonic_to_bytes sha256 words (join_sp l) = Ok e /\
      mnemonic_to_bytes sha256 words (join_sp (map (firstn 4) l)) = Ok e.
  Proof.
    intros He. destruct (indices_roundtrip sha256 sha_ok e He) as (idx & E1 & E2 & L & R).
    destruct (mapM_wl_word words idx) as (l & M & F).
    { destruct words_good as [-> _]. exact R. }
    destruct (words_at idx l R F) as (A & B & C & D).
    exists idx, l. split; [exact E1|]. split; [exact F|]. split; [|split].
    - unfold bytes_to_mnemonic. rewrite E1. cbn [bind]. rewrite M. reflexivity.
    - apply mnemonic_accept_iff. exists idx. rewrite split_join by exact C. now split.
    - apply mnemonic_accept_iff. exists idx. rewrite split_join by exact D. now split.
  Qed.

  Theorem mnemonic_roundtrip : forall e, ent_ok e ->
    exists m, bytes_to_mnemonic sha256 words e (8 * zlen e) = Ok m /\
              mnemonic_to_bytes sha256 words m = Ok e.
  Proof.
    intros e He. destruct (mnemonic_roundtrip_strong e He) as (idx & l & _ & _ & A & B & _).
    now exists (join_sp l).
  Qed.

  Theorem mnemonic_prefix_roundtrip : forall e, ent_ok e ->
    exists ws, bytes_to_mnemonic sha256 words e (8 * zlen e) = Ok (join_sp ws) /\
      mnemonic_to_bytes sha256 words (join_sp (map (firstn 4) ws)) = Ok e.
  Proof.
    intros e He. destruct (mnemonic_roundtrip_strong e He) as (idx & l & _ & _ & A & _ & B).
    now exists l.
  Qed.

  Theorem secure_mnemonic_ok : forall nb extra rnd t,
    valid_num_bits nb = true -> 0 <= extra -> 0 <= rnd < 2 ^ nb -> 0 <= t < 2 ^ nb ->
    exists m, secure_mnemonic sha256 words nb extra rnd t = Ok m /\
      mnemonic_to_bytes sha256 words m =
      Ok (to_be (Z.to_nat (nb / 8))
            (Z.lxor rnd (Z.lxor (if len_bin extra >? nb + 2
                                 then Z.land extra (Z.shiftl 1 nb - 1) else extra) t))).
  Proof.
    intros nb extra rnd t V He Hr Ht.
    pose proof (NB_facts nb V) as (N1 & N2 & N3 & N4).
    set (extra1 := if len_bin extra >? nb + 2 then Z.land extra (Z.shiftl 1 nb - 1) else extra).
    assert (X1 : 0 <= extra1 < 2 ^ nb).
    { unfold extra1. rewrite Z.gtb_ltb. destruct (Z.ltb_spec (nb + 2) (len_bin extra)) as [L|L].
      - rewrite land_mask' by lia. apply Z.mod_pos_bound. apply pow2_pos. lia.
      - split; [exact He|]. unfold len_bin in L.
        destruct (Z.eqb_spec extra 0) as [->|Hz]; [apply pow2_pos; lia|].
        apply Z.log2_lt_pow2; lia. }
    pose proof (lxor_bound extra1 t nb N2 X1 Ht) as X2.
    pose proof (lxor_bound rnd _ nb N2 Hr X2) as X3.
    set (P := Z.lxor rnd (Z.lxor extra1 t)) in *.
    set (s := to_be (Z.to_nat (nb / 8)) P).
    assert (Hs : ent_ok s).
    { split; [apply to_be_ok|]. unfold s. rewrite to_be_length. exact N4. }
    assert (Hz : 8 * zlen s = nb).
    { unfold s, zlen. rewrite to_be_length, Z2Nat.id by exact N3. lia. }
    destruct (mnemonic_roundtrip s Hs) as (m & E1 & E2). rewrite Hz in E1.
    exists m. split; [|exact E2].
    unfold secure_mnemonic. rewrite V. cbn [negb].
    replace (extra <? 0) with false by (symmetry; apply Z.ltb_ge; exact He).
    cbv zeta. fold extra1. fold P.
    rewrite int_to_be_ok.
    2:{ rewrite pow256_pow2, Z2Nat.id, <- N1 by exact N3. exact X3. }
    cbn [bind]. fold s. rewrite E1. cbn [bind]. rewrite E2. cbn [bind].
    rewrite beq_refl. reflexivity.
  Qed.
End Text.

Print Assumptions indices_roundtrip.
Print Assumptions indices_layout.
Print Assumptions from_digits_inj.
Print Assumptions indices_accept_iff.
Print Assumptions indices_bad_length.
Print Assumptions wl_index_sound.
Print Assumptions wl_index_err.
Print Assumptions key_hit_spec.
Print Assumptions split_join.
Print Assumptions wl_good_nodup.
Print Assumptions wl_good_prefix4_unique.
Print Assumptions wl_good_lookup.
Print Assumptions mnemonic_accept_iff.
Print Assumptions mnemonic_unknown_word.
Print Assumptions mnemonic_roundtrip.
Print Assumptions mnemonic_prefix_roundtrip.
Print Assumptions secure_mnemonic_ok.
