(* Proofs/PsbtFinalP.v — finaliser thresholds, partial-signature checking in validate, and the
   embedded unsigned transaction. *)
From V Require Import Base.Prelude Base.Ints Model.Helper Model.Script Model.Tx Model.Psbt
  Proofs.HelperP Proofs.PsbtDictP.

Lemma bind_ok {A B} (r : result A) (f : A -> result B) x :
  bind r f = Ok x -> exists a, r = Ok a /\ f a = Ok x.
Proof. destruct r as [a|]; cbn; [eauto|discriminate]. Qed.

Lemma check_ok b : check b = Ok tt -> b = true.
Proof. destruct b; [reflexivity|discriminate]. Qed.
Lemma check_ok' b u : check b = Ok u -> b = true.
Proof. destruct b; [reflexivity|discriminate]. Qed.

Lemma zlen_cons {A} (x : A) l : zlen (x :: l) = zlen l + 1.
Proof. unfold zlen. cbn [length]. lia. Qed.

(* the signatures present for keys of the script, in script order *)
Definition script_sigs (cs : list cmd) (sigs : dict bytes) : list bytes :=
  flat_map (fun c => match c with
                     | Push b => match dget sigs b with Some s => [s] | None => [] end
                     | Op _ => []
                     end) cs.

Lemma collect_firstn skip cs sigs num : forall acc,
  zlen acc < num ->
  collect_sigs skip cs sigs num acc
  = rev acc ++ firstn (Z.to_nat (num - zlen acc)) (script_sigs cs sigs).
Proof.
  induction cs as [|c r IH]; intros acc Hacc.
  - cbn. now rewrite firstn_nil, app_nil_r.
  - destruct c as [o|b]; cbn [collect_sigs script_sigs flat_map app].
    + destruct skip.
      * now apply IH.
      * destruct (num <=? zlen acc) eqn:E; [lia|]. now apply IH.
    + destruct (dget sigs b) as [sg|] eqn:Eg.
      * rewrite zlen_cons. destruct (num <=? zlen acc + 1) eqn:E.
        -- assert (num - zlen acc = 1) as -> by lia. cbn. reflexivity.
        -- fold (script_sigs r sigs). rewrite IH by (rewrite zlen_cons; lia).
           rewrite zlen_cons. cbn [rev]. rewrite <- app_assoc. cbn [app]. f_equal.
           replace (Z.to_nat (num - zlen acc)) with (S (Z.to_nat (num - (zlen acc + 1)))) by lia.
           reflexivity.
      * destruct (num <=? zlen acc) eqn:E; [lia|]. fold (script_sigs r sigs). cbn [app]. now apply IH.
Qed.

Lemma zlen_firstn_le {A} n (l : list A) : zlen (firstn n l) <= zlen l.
Proof. unfold zlen. rewrite firstn_length. lia. Qed.

(* what a successful multisig finalisation guarantees: the threshold m is read from the first
   command; for m >= 1 at least m signatures by keys OF THE SCRIPT were present and exactly the
   first m of them, in script key order, are emitted *)
Definition multisig_emit (cs : list cmd) (sigs : dict bytes) (emitted : list bytes) : Prop :=
  exists c0 r m,
    cs = c0 :: r /\ op_code_to_number c0 = Ok m /\ m <= zlen sigs /\
    (1 <= m ->
       m <= zlen (script_sigs cs sigs) /\
       emitted = firstn (Z.to_nat m) (script_sigs cs sigs) /\ zlen emitted = m).

Lemma multisig_emit_intro skip cs sigs c0 m :
  match cs with c :: _ => Ok c | [] => Err end = Ok c0 ->
  op_code_to_number c0 = Ok m -> (m <=? zlen sigs) = true ->
  (m <=? zlen (collect_sigs skip cs sigs m [])) = true ->
  multisig_emit cs sigs (collect_sigs skip cs sigs m []).
Proof.
  intros Hc0 Hm H1 H2. apply Z.leb_le in H1, H2. destruct cs as [|c r]; [discriminate|]. inversion Hc0; subst c0.
  exists c, r, m. repeat split; try assumption; try lia.
  - rewrite collect_firstn in H2 by (cbn; lia). cbn [rev app] in H2.
    change (zlen (@nil bytes)) with 0 in H2. rewrite Z.sub_0_r in H2.
    pose proof (zlen_firstn_le (Z.to_nat m) (script_sigs (c :: r) sigs)). lia.
  - rewrite collect_firstn by (cbn; lia). cbn [rev app].
    change (zlen (@nil bytes)) with 0. now rewrite Z.sub_0_r.
  - rewrite collect_firstn in * by (cbn; lia). cbn [rev app] in *.
    change (zlen (@nil bytes)) with 0 in *. rewrite Z.sub_0_r in *.
    unfold zlen in *. rewrite firstn_length in *. lia.
Qed.

Definition finalize_spec (st : psbt_in) (ti : txin) (st' : psbt_in) : Prop :=
  exists spk, in_script_pubkey st ti = Ok (Some spk) /\
  let cs := s_cmds spk in
  ( (* p2wpkh, p2sh-p2wpkh: exactly one partial signature *)
    ((is_p2wpkh cs || opt_is is_p2wpkh (pi_redeem st)) = true /\
     exists sec sg, pi_sigs st = [(sec, sg)] /\ pi_witness st' = Some [sg; sec])
  \/ (* p2wsh, p2sh-p2wsh *)
    ((is_p2wpkh cs || opt_is is_p2wpkh (pi_redeem st)) = false /\
     (is_p2wsh cs || opt_is is_p2wsh (pi_redeem st)) = true /\
     exists ws raw got, pi_wscript st = Some ws /\ raw_serialize ws = Ok raw /\
       multisig_emit (s_cmds ws) (pi_sigs st) got /\
       pi_witness st' = Some ([] :: got ++ [raw]))
  \/ (* bare p2sh *)
    ((is_p2wpkh cs || opt_is is_p2wpkh (pi_redeem st)) = false /\
     (is_p2wsh cs || opt_is is_p2wsh (pi_redeem st)) = false /\ is_p2sh cs = true /\
     exists rs raw got, pi_redeem st = Some rs /\ raw_serialize rs = Ok raw /\
       multisig_emit (s_cmds rs) (pi_sigs st) got /\
       pi_script_sig st' = Some (mk_script (Op 0 :: map Push got ++ [Push raw])))
  \/ (* p2pkh *)
    (is_p2pkh cs = true /\
     exists sec sg, pi_sigs st = [(sec, sg)] /\
       pi_script_sig st' = Some (mk_script [Push sg; Push sec])) ).

Lemma in_finalize_spec st ti st' : in_finalize st ti = Ok st' -> finalize_spec st ti st'.
Proof.
  unfold in_finalize. intros H.
  apply bind_ok in H as [ospk [Hspk H]]. destruct ospk as [spk|]; [|discriminate].
  exists spk. split; [exact Hspk|]. cbn zeta.
  apply bind_ok in H as [u [_ H]].
  destruct (is_p2wpkh (s_cmds spk) || opt_is is_p2wpkh (pi_redeem st)) eqn:B1.
  { left. split; [reflexivity|].
    destruct (pi_sigs st) as [|[sec sg] [|? ?]] eqn:Es; try discriminate.
    apply bind_ok in H as [ss [_ H]]. inversion H; subst st'. cbn. eauto. }
  destruct (is_p2wsh (s_cmds spk) || opt_is is_p2wsh (pi_redeem st)) eqn:B2.
  { right; left. repeat split; try reflexivity.
    destruct (pi_wscript st) as [ws|] eqn:Ew; [|discriminate].
    apply bind_ok in H as [c0 [Hc0 H]]. apply bind_ok in H as [m [Hm H]].
    apply bind_ok in H as [u1 [H1 H]]. apply check_ok' in H1.
    apply bind_ok in H as [u2 [H2 H]]. apply check_ok' in H2.
    apply bind_ok in H as [raw [Hraw H]]. apply bind_ok in H as [ss [_ H]].
    inversion H; subst st'. cbn.
    exists ws, raw, (collect_sigs false (s_cmds ws) (pi_sigs st) m []).
    repeat split; try assumption; try reflexivity.
    eapply multisig_emit_intro; eassumption. }
  destruct (is_p2sh (s_cmds spk)) eqn:B3.
  { right; right; left. repeat split; try reflexivity.
    destruct (pi_redeem st) as [rs|] eqn:Er; [|discriminate].
    apply bind_ok in H as [c0 [Hc0 H]]. apply bind_ok in H as [m [Hm H]].
    apply bind_ok in H as [u1 [H1 H]]. apply check_ok' in H1.
    apply bind_ok in H as [u2 [H2 H]]. apply check_ok' in H2.
    apply bind_ok in H as [raw [Hraw H]].
    inversion H; subst st'. cbn.
    exists rs, raw, (collect_sigs true (s_cmds rs) (pi_sigs st) m []).
    repeat split; try assumption; try reflexivity.
    eapply multisig_emit_intro; eassumption. }
  destruct (is_p2pkh (s_cmds spk)) eqn:B4; [|discriminate].
  right; right; right. split; [reflexivity|].
  destruct (pi_sigs st) as [|[sec sg] [|? ?]] eqn:Es; try discriminate.
  inversion H; subst st'. cbn. eauto.
Qed.

(* the number of signatures by script keys is at most the number of partial signatures
   when every script key occurs once (no repeated key in the script) *)

(* ---- validate: partial signatures and scriptSigs ---- *)
Section Val.
Variable hash160 sha256 hash256 : bytes -> bytes.
Variable sig_parse_ok : bytes -> bytes -> bool.
Variable ecdsa_verify : bytes -> Z -> bytes -> bool.
Variable sighash_legacy : tx -> Z -> option script -> result Z.
Variable sighash_segwit : tx -> Z -> option script -> option script -> result Z.
Variable verify_input : tx -> Z -> script -> option (list bytes) -> result bool.
Variable descends : hd_pub -> bytes -> bytes -> bool.

Notation in_full := (in_full_validate hash160 sha256 hash256 sig_parse_ok ecdsa_verify
                       sighash_legacy sighash_segwit verify_input descends).
Notation ins_val := (ins_validate hash160 sha256 hash256 sig_parse_ok ecdsa_verify
                       sighash_legacy sighash_segwit verify_input descends).
Notation val := (validate hash160 sha256 hash256 sig_parse_ok ecdsa_verify
                       sighash_legacy sighash_segwit verify_input descends).
Notation sigchk := (sig_check sig_parse_ok ecdsa_verify sighash_legacy sighash_segwit).

Lemma all_ok_in {A} (f : A -> result unit) l : all_ok f l = Ok tt -> forall a, In a l -> f a = Ok tt.
Proof.
  induction l as [|x l IH]; intros H a Ha; [contradiction|].
  cbn in H. apply bind_ok in H as [u [Hx H]]. destruct u. destruct Ha as [<-|Ha]; [exact Hx|now apply IH].
Qed.

Lemma in_full_sigs t hds i st ti :
  in_full t hds i st ti = Ok tt ->
  s_cmds (i_script ti) = [] /\ forall e, In e (pi_sigs st) -> sigchk t i st ti e = Ok tt.
Proof.
  unfold in_full_validate. intros H.
  apply bind_ok in H as [u0 [_ H]]. apply bind_ok in H as [u1 [H1 H]]. apply check_ok' in H1.
  apply bind_ok in H as [u2 [_ H]]. apply bind_ok in H as [u3 [H3 H]]. destruct u3.
  split.
  - destruct (s_cmds (i_script ti)); [reflexivity|discriminate].
  - now apply all_ok_in.
Qed.

Lemma ins_val_nth t hds : forall ins tis i0,
  ins_val t hds i0 ins tis = Ok tt ->
  length ins = length tis /\
  forall j st ti, nth_error ins j = Some st -> nth_error tis j = Some ti ->
                  in_full t hds (i0 + Z.of_nat j) st ti = Ok tt.
Proof.
  induction ins as [|st ins IH]; intros [|ti tis] i0 H; cbn in H; try discriminate.
  - split; [reflexivity|]. intros [|j]; discriminate.
  - apply bind_ok in H as [u [H1 H]]. destruct u. apply IH in H as [L H]. split; [cbn; congruence|].
    intros [|j] st' ti' Hs Ht; cbn in Hs, Ht.
    + inversion Hs; inversion Ht; subst. now rewrite Z.add_0_r.
    + replace (i0 + Z.of_nat (S j)) with (i0 + 1 + Z.of_nat j) by lia. now apply H.
Qed.

(* (6) a loaded/validated PSBT has no partial signature that fails its check *)
Lemma validate_sigs p :
  val p = Ok tt ->
  forall j st ti, nth_error (p_ins p) j = Some st -> nth_error (t_ins (p_tx p)) j = Some ti ->
  forall e, In e (pi_sigs st) -> sigchk (p_tx p) (Z.of_nat j) st ti e = Ok tt.
Proof.
  unfold validate. intros H j st ti Hs Ht e He.
  apply bind_ok in H as [u0 [_ H]]. apply bind_ok in H as [u1 [H1 H]]. destruct u1.
  apply ins_val_nth in H1 as [_ H1]. specialize (H1 j st ti Hs Ht). cbn in H1.
  apply in_full_sigs in H1 as [_ H1]. now apply H1.
Qed.

Lemma sig_check_verified t i st ti sec sg :
  sigchk t i st ti (sec, sg) = Ok tt ->
  sig_parse_ok sec (drop_last sg) = true /\
  forall sw, sig_mode st ti = Ok (Some sw) ->
    exists z, (if sw then sighash_segwit t i (pi_redeem st) (pi_wscript st)
               else sighash_legacy t i (pi_redeem st)) = Ok z /\
              ecdsa_verify sec z (drop_last sg) = true.
Proof.
  unfold sig_check. intros H. apply bind_ok in H as [u [H0 H]]. apply check_ok' in H0.
  split; [exact H0|]. intros sw Hm. rewrite Hm in H. cbn [bind] in H.
  destruct sw; apply bind_ok in H as [z [Hz H]]; apply check_ok' in H; eauto.
Qed.

(* (3) validate: every scriptSig of the unsigned transaction is empty *)
Lemma validate_script_sigs_empty p :
  val p = Ok tt -> Forall (fun ti => s_cmds (i_script ti) = []) (t_ins (p_tx p)).
Proof.
  unfold validate. intros H.
  apply bind_ok in H as [u0 [_ H]]. apply bind_ok in H as [u1 [H1 _]]. destruct u1.
  apply ins_val_nth in H1 as [L H1]. apply Forall_forall. intros ti Hti.
  apply In_nth_error in Hti as [j Hj].
  destruct (nth_error (p_ins p) j) as [st|] eqn:Es.
  - specialize (H1 j st ti Es Hj). now apply in_full_sigs in H1 as [H1 _].
  - apply nth_error_None in Es. assert (j < length (t_ins (p_tx p)))%nat by (apply nth_error_Some; congruence). lia.
Qed.
End Val.

(* (3) the serialiser embeds serialize_legacy of the transaction as the first global entry *)
Lemma serialize_embeds_legacy p b :
  psbt_serialize p = Ok b ->
  exists t e rest, serialize_legacy (p_tx p) = Ok t /\ kv [0] t = Ok e /\ b = magic ++ e ++ rest.
Proof.
  unfold psbt_serialize, global_serialize. intros H.
  apply bind_ok in H as [g [Hg H]]. apply bind_ok in Hg as [t [Ht Hg]].
  apply bind_ok in Hg as [e [He Hg]]. apply bind_ok in Hg as [hds [_ Hg]].
  apply bind_ok in Hg as [ex [_ Hg]]. inversion Hg; subst g.
  apply bind_ok in H as [ins [_ H]]. apply bind_ok in H as [outs [_ H]]. inversion H; subst b.
  exists t, e, ((hds ++ ex ++ [0]) ++ ins ++ outs). repeat split; try assumption.
  now rewrite <- !app_assoc.
Qed.

(* PSBT.parse ends with the constructor's validate(): what it returns has been validated *)
Lemma psbt_parse_validated hash160 sha256 hash256 sec_ok sig_parse_ok ecdsa_verify sighash_legacy
      sighash_segwit verify_input descends s p n :
  psbt_parse hash160 sha256 hash256 sec_ok sig_parse_ok ecdsa_verify sighash_legacy sighash_segwit
             verify_input descends s = Ok (p, n) ->
  validate hash160 sha256 hash256 sig_parse_ok ecdsa_verify sighash_legacy sighash_segwit
           verify_input descends p = Ok tt.
Proof.
  unfold psbt_parse. destruct (read 5 s) as [m s0]. intros H.
  apply bind_ok in H as [u0 [_ H]]. apply bind_ok in H as [u1 [_ H]].
  apply bind_ok in H as [[g s1] [_ H]]. cbn beta iota in H.
  destruct (g_tx g) as [t|]; [|discriminate].
  apply bind_ok in H as [[[ins n1] s2] [_ H]]. cbn beta iota in H.
  apply bind_ok in H as [[[outs n2] s3] [_ H]]. cbn beta iota zeta in H.
  apply bind_ok in H as [u [Hv H]]. destruct u. inversion H; subst. exact Hv.
Qed.
