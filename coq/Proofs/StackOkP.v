(* Proofs/StackOkP.v — the consensus step keeps every stack element a byte string (needed to
   chain the single-op-code conformance along a program). *)
From V Require Import Base.Prelude Base.Ints Model.Script Model.Op Model.Interp Spec.Consensus
  Proofs.OpP Proofs.ConformP.

Lemma sign_fix_ok neg d : digits_ok d -> bytes_ok (sign_fix neg d).
Proof.
  intros D. destruct (digits_snoc d D) as (body & x & -> & Hb & Hx).
  rewrite sign_fix_app. apply bytes_ok_app. split; [exact Hb|].
  cbn [sign_fix]. destruct (128 <=? x) eqn:E; destruct neg; repeat constructor; unfold byte_ok; lia.
Qed.

Lemma encode_num_ok n : bytes_ok (encode_num n).
Proof.
  destruct (Z.eq_dec n 0) as [->|Hn]; [constructor|].
  destruct (encode_num_digits n Hn) as (d & D & _ & ->). now apply sign_fix_ok.
Qed.

Lemma sn_serialize_ok n : bytes_ok (sn_serialize n).
Proof. rewrite sn_serialize_encode. apply encode_num_ok. Qed.

Lemma of_bool_ok b : bytes_ok (of_bool b).
Proof. destruct b; repeat constructor; unfold byte_ok; lia. Qed.

Lemma nil_ok : bytes_ok [].
Proof. constructor. Qed.

Lemma Forall_firstn {A} (P : A -> Prop) k l : Forall P l -> Forall P (firstn k l).
Proof. intros H. rewrite <- (firstn_skipn k l) in H. now apply Forall_app in H. Qed.
Lemma Forall_skipn {A} (P : A -> Prop) k l : Forall P l -> Forall P (skipn k l).
Proof. intros H. rewrite <- (firstn_skipn k l) in H. now apply Forall_app in H. Qed.
Lemma Forall_nth_nil k (l : list bytes) : Forall bytes_ok l -> bytes_ok (nth k l []).
Proof.
  intros H. destruct (Nat.lt_ge_cases k (length l)) as [L|L].
  - apply (proj1 (Forall_nth bytes_ok l) H). exact L.
  - rewrite nth_overflow by exact L. constructor.
Qed.

Section Ok.
  Variables ripemd160 sha1 sha256 : bytes -> bytes.
  Hypothesis ripemd160_ok : forall x, bytes_ok (ripemd160 x).
  Hypothesis sha1_ok : forall x, bytes_ok (sha1 x).
  Hypothesis sha256_ok : forall x, bytes_ok (sha256 x).

  Definition all_ops : list Z := plain_ops ++ [113; 177; 178].

  Ltac lit :=
    cbn [Z.eqb Z.leb Z.ltb Z.compare Pos.eqb Pos.compare Pos.compare_cont andb orb negb Z.sub Z.add
         Z.opp Z.pos_sub Pos.succ Pos.add Pos.pred_double Z.double Z.succ_double Z.pred_double
         Pos.sub Pos.sub_mask Pos.double_mask Pos.succ_double_mask Pos.double_pred_mask Pos.pred_N].

  Ltac okfin :=
    cbn [fst snd];
    unfold un_num, bin_num, then_verify, verify, hash_op; cbn [fst snd];
    repeat match goal with
           | |- context [match scriptnum ?m ?v with _ => _ end] => destruct (scriptnum m v)
           | |- context [if ?b then _ else _] => destruct b
           end;
    cbn [fst snd];
    repeat match goal with
           | |- context [if ?b then _ else _] => destruct b
           end;
    try discriminate;
    intros [= <- <-];
    split;
    repeat first [ assumption
                 | apply sn_serialize_ok | apply of_bool_ok | apply nil_ok
                 | apply ripemd160_ok | apply sha1_ok | apply sha256_ok
                 | apply Forall_nth_nil | apply Forall_firstn | apply Forall_skipn
                 | apply Forall_app; split
                 | apply Forall_nil | apply Forall_cons ].

  Ltac pops n s Hs :=
    lazymatch n with
    | O => okfin
    | S ?k =>
        let x := fresh "x" in let B := fresh "B" in let t := fresh "t" in let Ht := fresh "Ht" in
        destruct s as [|x t];
        [okfin | apply Forall_cons_iff in Hs; destruct Hs as [B Ht]; pops k t Ht]
    end.

  Lemma pick_roll_ok c o s a s' a' :
    o = 121 \/ o = 122 ->
    Forall bytes_ok s -> Forall bytes_ok a ->
    spec_step ripemd160 sha1 sha256 c o s a = SOk (s', a') ->
    Forall bytes_ok s' /\ Forall bytes_ok a'.
  Proof.
    intros Ho Hs Ha.
    destruct s as [|vn r]; [destruct Ho as [-> | ->]; discriminate|].
    apply Forall_cons_iff in Hs as [Bn Hr].
    destruct r as [|y r']; [destruct Ho as [-> | ->]; discriminate|].
    remember (y :: r') as r eqn:Er.
    assert (E : spec_step ripemd160 sha1 sha256 c o (vn :: r) a =
      match scriptnum 4 vn with
      | None => SOOS
      | Some n =>
          if (n <? 0) || (n >=? zlen r) then SFail
          else if o =? 122
               then SOk (nth (Z.to_nat n) r [] :: firstn (Z.to_nat n) r ++ skipn (S (Z.to_nat n)) r, a)
               else SOk (nth (Z.to_nat n) r [] :: r, a)
      end) by (subst r; destruct Ho as [-> | ->]; reflexivity).
    rewrite E. clear E.
    destruct (scriptnum 4 vn) as [n|]; [|discriminate].
    destruct ((n <? 0) || (n >=? zlen r)); [discriminate|].
    destruct (o =? 122); intros [= <- <-]; (split; [|exact Ha]); constructor.
    - now apply Forall_nth_nil.
    - apply Forall_app. split; [now apply Forall_firstn | exact (Forall_skipn _ (S (Z.to_nat n)) r Hr)].
    - now apply Forall_nth_nil.
    - exact Hr.
  Qed.

  Lemma exec_ok c o s a s' a' :
    Forall bytes_ok s -> Forall bytes_ok a ->
    spec_step ripemd160 sha1 sha256 c o s a = SOk (s', a') ->
    Forall bytes_ok s' /\ Forall bytes_ok a'.
  Proof.
    intros Hs Ha.
    destruct (Z.eq_dec o 121) as [->|N1]; [apply pick_roll_ok; auto|].
    destruct (Z.eq_dec o 122) as [->|N2]; [apply pick_roll_ok; auto|].
    destruct (existsb (Z.eqb o) all_ops) eqn:Ex.
    - apply existsb_exists in Ex as (k & Hk & Ek). apply Z.eqb_eq in Ek. subst k.
      unfold all_ops, plain_ops in Hk. cbn [In app] in Hk.
      repeat (destruct Hk as [<-|Hk];
              [try congruence; unfold spec_step, Consensus.exec_op; lit;
               try (destruct a as [|xa a]; [okfin | apply Forall_cons_iff in Ha; destruct Ha as [Ba Ha]; okfin]; fail);
               pops 6%nat s Hs |]).
      contradiction.
    - unfold all_ops, plain_ops in Ex. cbn [existsb app] in Ex.
      repeat (apply orb_false_iff in Ex as [?E Ex]).
      unfold spec_step, Consensus.exec_op.
      repeat match goal with
             | H : (o =? ?k) = false |- _ => apply Z.eqb_neq in H
             end.
      repeat match goal with
             | |- context [if ?b then _ else _] =>
                 let E := fresh "E" in destruct b eqn:E; [exfalso; lia|]
             end.
      discriminate.
  Qed.
End Ok.
