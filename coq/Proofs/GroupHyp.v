(* Proofs/GroupHyp.v — the interface between the curve model and the protocol proofs.

   [group_laws C]  : the primitive mathematical facts about the curve parameters
                     (closure / associativity / order), stated about the MODEL functions.
   [scalar_laws C] : the derived algebra of the model's scalar multiplication that the
                     protocol proofs (ECDSA, BIP340, BIP32, taproot, MuSig) use.

   Neither is ever an Axiom: theorems take them as explicit hypotheses.  For a toy curve
   both are proved by exhaustive computation (Proofs/ToyCurve.v), so they are satisfiable;
   for secp256k1, associativity, the group order and primality of p and n are the
   mathematical facts this development does not re-prove (see DESIGN.md §3, §6). *)
From Coq Require Import Znumtheory.
From V Require Import Base.Prelude Base.Ints Model.Pecc.

Section Laws.
Variable C : curve.
Let p := cp C.
Let n := cn C.

Definition valid (P : point) : Prop :=
  match P with
  | None => True
  | Some (x, y) => felem_ok C x = true /\ felem_ok C y = true /\ on_curve C x y = true
  end.

(* totalised views of the model functions (Err never happens on valid points, by the laws) *)
Definition addT (P Q : point) : point :=
  match padd C P Q with Ok R => R | Err => None end.
Definition mulT (k : Z) (P : point) : point :=
  match rmul C k P with Ok R => R | Err => None end.
Definition negT (P : point) : point :=
  match P with None => None | Some (x, y) => Some (x, (- y) mod p) end.

Record group_laws : Prop := {
  gl_p_prime : prime p;
  gl_p_odd : 2 < p;
  gl_n_prime : prime n;
  gl_n_odd : 2 < n;
  gl_G_valid : valid (G C);
  gl_G_not_inf : G C <> None;
  (* closure: the chord/tangent result satisfies the curve equation, so the
     constructor check in the code never fires on valid operands *)
  gl_add_ok : forall P Q, valid P -> valid Q -> padd C P Q = Ok (addT P Q) /\ valid (addT P Q);
  gl_add_comm : forall P Q, valid P -> valid Q -> addT P Q = addT Q P;
  gl_add_assoc : forall P Q R, valid P -> valid Q -> valid R ->
                 addT (addT P Q) R = addT P (addT Q R);
  gl_add_neg : forall P, valid P -> valid (negT P) /\ addT P (negT P) = None;
  (* the group has order n: n-fold sum of any valid point is the identity, and no
     smaller positive multiple of G is *)
  gl_order : forall P, valid P -> rmul_raw C n P = Ok None;
  gl_G_order : forall k, 0 < k < n -> rmul_raw C k (G C) <> Ok None
}.

Record scalar_laws : Prop := {
  sl_p_prime : prime p;
  sl_p_odd : 2 < p;
  sl_n_prime : prime n;
  sl_n_odd : 2 < n;
  sl_G_valid : valid (G C);
  sl_G_not_inf : G C <> None;
  sl_add_ok : forall P Q, valid P -> valid Q -> padd C P Q = Ok (addT P Q) /\ valid (addT P Q);
  sl_mul_ok : forall k P, valid P -> rmul C k P = Ok (mulT k P) /\ valid (mulT k P);
  sl_add_comm : forall P Q, valid P -> valid Q -> addT P Q = addT Q P;
  sl_add_assoc : forall P Q R, valid P -> valid Q -> valid R ->
                 addT (addT P Q) R = addT P (addT Q R);
  sl_add_0_l : forall P, addT None P = P;
  sl_add_0_r : forall P, addT P None = P;
  sl_neg_valid : forall P, valid P -> valid (negT P);
  sl_add_neg : forall P, valid P -> addT P (negT P) = None;
  sl_mul_neg1 : forall P, valid P -> mulT (-1) P = negT P;
  sl_mul_0 : forall P, valid P -> mulT 0 P = None;
  sl_mul_1 : forall P, valid P -> mulT 1 P = P;
  sl_mul_inf : forall k, mulT k None = None;
  sl_mul_mod : forall k P, mulT (k mod n) P = mulT k P;
  sl_mul_add : forall a b P, valid P -> mulT (a + b) P = addT (mulT a P) (mulT b P);
  sl_mul_mul : forall a b P, valid P -> mulT a (mulT b P) = mulT (a * b) P;
  sl_mul_addT : forall k P Q, valid P -> valid Q ->
                mulT k (addT P Q) = addT (mulT k P) (mulT k Q);
  sl_G_order : forall k, mulT k (G C) = None -> k mod n = 0;
  (* no 2-torsion (n is odd) and the two points above one x coordinate *)
  sl_no_y0 : forall x y, valid (Some (x, y)) -> y <> 0;
  sl_same_x : forall x y1 y2, valid (Some (x, y1)) -> valid (Some (x, y2)) ->
              y2 = y1 \/ y2 = (- y1) mod p
}.

End Laws.
