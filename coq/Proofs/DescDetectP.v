(* Proofs/DescDetectP.v — the descriptor checksum detects every single-character
   substitution, for texts of ANY length.

   Structure of the argument:
     1. the checksum value of a text is the LFSR run over a symbol stream [syms]
        (per group of three characters: their three low-5-bit symbols, then one class
        symbol; a trailing group of one or two characters has its own class symbol),
        followed by eight zero symbols, started at 1 and finally xor 1
        ([checksum_value_syms]);
     2. substituting one character changes the symbols only inside one group
        ([syms_subst]): same prefix, same suffix, two windows W, W' of equal length <= 4
        whose difference has weight 1 or 2;
     3. by XOR-linearity the states after the window differ by the syndrome of
        W xor W', which is non-zero ([Lfsr.sweep_detects] with a window of 4, a
        vm_compute of a few hundred values);
     4. the zero-input step is injective on 40-bit states ([step0_inj]; finite check on
        the 32 possible top symbols), so the difference stays non-zero through all
        remaining symbols, however many ([run_diff_nonzero]);
     5. different 40-bit values give different 8-character strings
        ([checksum_chars_inj]; CHECKSUM_CHARSET has no repeated character). *)
From V Require Import Base.Prelude Base.Lfsr Generated.DescConsts Model.Descriptor
  Proofs.DescChecksumP.
Open Scope Z_scope.

Notation lstep := (Lfsr.step gens 35 5).
Notation lrun := (Lfsr.run gens 35 5).
Notation lstep0 := (Lfsr.step0 gens 35 5).
Notation lsyn := (Lfsr.syn gens 35 5).

(* ------------------------------------------------------------------ 1. symbol stream *)

Fixpoint syms (ps : list Z) : list Z :=
  match ps with
  | a :: b :: c :: r =>
      Z.land a 31 :: Z.land b 31 :: Z.land c 31 ::
      ((Z.shiftr a 5 * 3 + Z.shiftr b 5) * 3 + Z.shiftr c 5) :: syms r
  | [a; b] => [Z.land a 31; Z.land b 31; Z.shiftr a 5 * 3 + Z.shiftr b 5]
  | [a] => [Z.land a 31; Z.shiftr a 5]
  | [] => []
  end.

(* positions of the characters in the input charset; Err on a foreign character *)
Fixpoint positions (t : list Z) : result (list Z) :=
  match t with
  | [] => Ok []
  | ch :: r =>
      let pos := str_find desc_input_charset ch in
      if pos =? -1 then Err else ps <- positions r ;; Ok (pos :: ps)
  end.

Definition pos_ok (p : Z) : Prop := 0 <= p < 95.

Lemma positions_ok t ps : positions t = Ok ps -> Forall pos_ok ps /\ length ps = length t.
Proof.
  revert ps; induction t as [|ch t IH]; intros ps; cbn [positions].
  - intros H. apply Ok_inj in H. subst ps. split; [constructor|reflexivity].
  - pose proof (find_from_range desc_input_charset ch 0) as F.
    assert (L : zlen desc_input_charset = 95) by reflexivity. rewrite L in F. clear L.
    unfold str_find. set (f := find_from 0 desc_input_charset ch) in *. clearbody f.
    destruct (f =? -1) eqn:E; [discriminate|]. apply Z.eqb_neq in E.
    destruct (positions t) as [ps'|]; [|discriminate]. cbn [bind].
    intros H. apply Ok_inj in H. subst ps. destruct (IH ps' eq_refl) as [I1 I2].
    split; [constructor; [unfold pos_ok; lia|exact I1]|cbn [length]; congruence].
Qed.

Lemma cc_loop_positions t : forall st,
  cc_loop st t = (ps <- positions t ;; Ok (fold_left feed ps st)).
Proof.
  induction t as [|ch t IH]; intros st; cbn [cc_loop positions]; [reflexivity|].
  unfold str_find. set (f := find_from 0 desc_input_charset ch). clearbody f.
  destruct (f =? -1); [reflexivity|]. rewrite IH.
  destruct (positions t); reflexivity.
Qed.

Lemma feed0 c p : feed (c, 0, 0) p = (poly_mod c (Z.land p 31), Z.shiftr p 5, 1).
Proof. reflexivity. Qed.
Lemma feed1 c x p : feed (c, x, 1) p = (poly_mod c (Z.land p 31), x * 3 + Z.shiftr p 5, 2).
Proof. reflexivity. Qed.
Lemma feed2 c x p :
  feed (c, x, 2) p = (poly_mod (poly_mod c (Z.land p 31)) (x * 3 + Z.shiftr p 5), 0, 0).
Proof. reflexivity. Qed.

Definition finish (st : Z * Z * Z) : Z :=
  let '(c, cls, cnt) := st in
  let c := if cnt >? 0 then poly_mod c cls else c in
  Nat.iter 8 (fun c => poly_mod c 0) c.

Lemma finish_zeros c : Nat.iter 8 (fun c => poly_mod c 0) c = lrun c (repeat 0 8).
Proof. rewrite iter8, !poly_mod_step. unfold Lfsr.run. cbn [repeat fold_left]. reflexivity. Qed.

Lemma run_cons c v vs : lrun c (v :: vs) = lrun (lstep c v) vs.
Proof. reflexivity. Qed.

Lemma list_ind3 (P : list Z -> Prop) :
  P [] -> (forall a, P [a]) -> (forall a b, P [a; b]) ->
  (forall a b c r, P r -> P (a :: b :: c :: r)) -> forall l, P l.
Proof.
  intros H0 H1 H2 H3. fix IH 1. intros [|a [|b [|c r]]].
  - exact H0.
  - apply H1.
  - apply H2.
  - apply H3. apply IH.
Qed.

Lemma fl_cons {A B} (f : A -> B -> A) x l a : fold_left f (x :: l) a = fold_left f l (f a x).
Proof. reflexivity. Qed.

Lemma feed01 c a b :
  feed (feed (c, 0, 0) a) b =
  (poly_mod (poly_mod c (Z.land a 31)) (Z.land b 31), Z.shiftr a 5 * 3 + Z.shiftr b 5, 2).
Proof. rewrite feed0, feed1. reflexivity. Qed.

Lemma feed012 c a b d :
  feed (feed (feed (c, 0, 0) a) b) d =
  (poly_mod (poly_mod (poly_mod (poly_mod c (Z.land a 31)) (Z.land b 31)) (Z.land d 31))
            ((Z.shiftr a 5 * 3 + Z.shiftr b 5) * 3 + Z.shiftr d 5), 0, 0).
Proof. rewrite feed01, feed2. reflexivity. Qed.

Lemma finish_syms ps : forall c,
  finish (fold_left feed ps (c, 0, 0)) = lrun c (syms ps ++ repeat 0 8).
Proof.
  induction ps as [|a|a b|a b d r IH] using list_ind3; intros c.
  - cbn [fold_left syms app]. unfold finish. cbn [Z.gtb Z.compare]. apply finish_zeros.
  - rewrite fl_cons, feed0. cbn [fold_left syms]. unfold finish. cbn [Z.gtb Z.compare].
    rewrite finish_zeros, !poly_mod_step. cbn [app]. rewrite !run_cons. reflexivity.
  - rewrite !fl_cons, feed01. cbn [fold_left syms]. unfold finish. cbn [Z.gtb Z.compare].
    rewrite finish_zeros, !poly_mod_step. cbn [app]. rewrite !run_cons. reflexivity.
  - rewrite !fl_cons, feed012, IH, !poly_mod_step.
    cbn [syms app]. rewrite !run_cons. reflexivity.
Qed.

Definition value_of (ps : list Z) : Z := Z.lxor (lrun 1 (syms ps ++ repeat 0 8)) 1.

Lemma checksum_value_syms t ps : positions t = Ok ps -> checksum_value t = Ok (value_of ps).
Proof.
  intros H. unfold checksum_value. rewrite cc_loop_positions, H. cbn [bind].
  pose proof (finish_syms ps 1) as F. unfold finish in F.
  destruct (fold_left feed ps (1, 0, 0)) as [[c cls] cnt]. cbn [bind].
  unfold value_of. now rewrite <- F.
Qed.

Lemma positions_err t : positions t = Err -> checksum_value t = Err.
Proof. intros H. unfold checksum_value. now rewrite cc_loop_positions, H. Qed.

(* ------------------------------------------------------------------ 4. injectivity of the zero-input step *)

Lemma top_symbols_distinct :
  forallb (fun hi => negb (Lfsr.sel gens hi 0 mod 32 =? 0)) (map Z.of_nat (seq 1 31)) = true.
Proof. vm_compute. reflexivity. Qed.

Lemma step0_inj c : st_ok c -> lstep0 c = 0 -> c = 0.
Proof.
  unfold st_ok. intros Hc H. unfold Lfsr.step0, Lfsr.step in H. rewrite Z.lxor_0_r in H.
  apply Z.lxor_eq in H.
  set (hi := Z.shiftr c 35) in *. set (lo := Z.land c (Z.ones 35)) in *.
  assert (Hhi : 0 <= hi < 32).
  { unfold hi. rewrite Z.shiftr_div_pow2 by lia. split; [apply Z.div_pos; lia|].
    apply Z.div_lt_upper_bound; lia. }
  assert (Hlo : lo = c mod 2 ^ 35) by (unfold lo; apply Z.land_ones; lia).
  assert (Hc2 : c = 2 ^ 35 * hi + lo).
  { unfold hi. rewrite Hlo, Z.shiftr_div_pow2 by lia. apply Z.div_mod. lia. }
  rewrite Z.shiftl_mul_pow2 in H by lia.
  assert (M : Lfsr.sel gens hi 0 mod 32 = 0).
  { rewrite <- H. change (2 ^ 5) with 32. apply Z.mod_mul. lia. }
  assert (Z0 : hi = 0).
  { destruct (Z.eq_dec hi 0) as [E|E]; [exact E|exfalso].
    pose proof top_symbols_distinct as TD. rewrite forallb_forall in TD.
    assert (IN : In hi (map Z.of_nat (seq 1 31))).
    { apply in_map_iff. exists (Z.to_nat hi). split; [lia|]. apply in_seq. lia. }
    specialize (TD hi IN). rewrite M in TD. discriminate. }
  rewrite Z0 in H. rewrite Lfsr.sel_0 in H. lia.
Qed.

Lemma iter_step0_ok n d : st_ok d -> st_ok (Nat.iter n lstep0 d).
Proof.
  intros Hd. induction n as [|n IH]; [exact Hd|]. cbn [Nat.iter].
  change (st_ok (lstep (Nat.iter n lstep0 d) 0)).
  apply step_bound; [unfold st_ok in IH; lia|unfold sym5; lia].
Qed.

Lemma iter_step0_nonzero n d : st_ok d -> d <> 0 -> Nat.iter n lstep0 d <> 0.
Proof.
  intros Hd Hn. induction n as [|n IH]; [exact Hn|]. cbn [Nat.iter]. intros E.
  apply IH. apply step0_inj; [apply iter_step0_ok; exact Hd|exact E].
Qed.

Lemma xorl_self vs : xorl vs vs = repeat 0 (length vs).
Proof. induction vs as [|v vs IH]; cbn; [reflexivity|]. now rewrite Z.lxor_nilpotent, IH. Qed.

(* two states whose difference is a non-zero 40-bit value stay different under the same
   symbols, however many *)
Lemma run_diff_nonzero vs c c' : st_ok (Z.lxor c c') -> c <> c' -> lrun c vs <> lrun c' vs.
Proof.
  intros Hd Hn E.
  assert (D : Z.lxor (lrun c vs) (lrun c' vs) = 0) by (rewrite E; apply Z.lxor_nilpotent).
  rewrite <- (Lfsr.run_lxor gens 35 5 vs vs c c' eq_refl), xorl_self, Lfsr.run_zeros in D.
  revert D. apply iter_step0_nonzero; [exact Hd|].
  intros X. apply Z.lxor_eq in X. contradiction.
Qed.

Lemma run_ok vs : forall c, st_ok c -> Forall sym5 vs -> st_ok (lrun c vs).
Proof.
  induction vs as [|v vs IH]; intros c Hc HF; [exact Hc|].
  inversion HF as [|? ? Hv HF']; subst. unfold Lfsr.run. cbn [fold_left]. apply IH; [|exact HF'].
  apply step_bound; [unfold st_ok in Hc; lia|exact Hv].
Qed.

(* ------------------------------------------------------------------ 3. the window *)

Lemma window_sweep : Lfsr.sweep gens 35 5 4 0 = true.
Proof. vm_compute. reflexivity. Qed.

Lemma sym_ok_sym5 es : Forall (Lfsr.sym_ok 5) es -> Forall sym5 es.
Proof. apply Forall_impl. intros e. unfold Lfsr.sym_ok, sym5. change (2 ^ 5) with 32. trivial. Qed.

Lemma window_detects s W W' :
  length W = length W' -> (length W <= 4)%nat ->
  Forall (Lfsr.sym_ok 5) (xorl W W') -> (1 <= weight (xorl W W') <= 2)%nat ->
  st_ok (Z.lxor (lrun s W) (lrun s W')) /\ lrun s W <> lrun s W'.
Proof.
  intros HL H4 HF HW.
  assert (D : Z.lxor (lrun s W) (lrun s W') = lsyn (xorl W W')).
  { rewrite <- (Lfsr.run_lxor gens 35 5 W W' s s HL), Z.lxor_nilpotent. reflexivity. }
  split.
  - rewrite D. unfold Lfsr.syn. apply run_ok; [unfold st_ok; lia|apply sym_ok_sym5; exact HF].
  - intros E. rewrite E, Z.lxor_nilpotent in D.
    destruct (Lfsr.sweep_detects gens 35 5 4 0 window_sweep (xorl W W')) as [N _]; try assumption.
    + rewrite Lfsr.xorl_length by exact HL. exact H4.
    + apply N. now symmetry.
Qed.

(* ------------------------------------------------------------------ 2. a substitution stays inside one group *)

Lemma split32 p : 0 <= p -> p = 32 * Z.shiftr p 5 + Z.land p 31.
Proof.
  intros H. change 31 with (Z.ones 5). rewrite Z.land_ones, Z.shiftr_div_pow2 by lia.
  apply Z.div_mod. lia.
Qed.

Lemma sym_ok_lxor a b : sym5 a -> sym5 b -> Lfsr.sym_ok 5 (Z.lxor a b).
Proof. unfold sym5, Lfsr.sym_ok. intros Ha Hb. apply lxor_bound; lia. Qed.

Lemma sym_ok_self a : Lfsr.sym_ok 5 (Z.lxor a a).
Proof. rewrite Z.lxor_nilpotent. unfold Lfsr.sym_ok. lia. Qed.

Lemma nonzero_self a : nonzero (Z.lxor a a) = false.
Proof. now rewrite Z.lxor_nilpotent. Qed.

(* the two symbols that can change: low part and class part *)
Lemma changed_pair x y kx ky :
  pos_ok x -> pos_ok y -> x <> y ->
  (kx = ky -> Z.shiftr x 5 = Z.shiftr y 5) ->
  nonzero (Z.lxor (Z.land x 31) (Z.land y 31)) = true \/ nonzero (Z.lxor kx ky) = true.
Proof.
  intros Hx Hy Hn Hk. unfold nonzero.
  destruct (Z.eqb_spec (Z.lxor (Z.land x 31) (Z.land y 31)) 0) as [E1|E1]; [|now left].
  destruct (Z.eqb_spec (Z.lxor kx ky) 0) as [E2|E2]; [|now right].
  exfalso. apply Z.lxor_eq in E1. apply Z.lxor_eq in E2. specialize (Hk E2).
  unfold pos_ok in *. pose proof (split32 x (proj1 Hx)). pose proof (split32 y (proj1 Hy)). lia.
Qed.

Inductive window (ps ps' : list Z) : Prop :=
| mk_window (pre W W' post : list Z)
    (w_eq : syms ps = pre ++ W ++ post)
    (w_eq' : syms ps' = pre ++ W' ++ post)
    (w_len : length W = length W')
    (w_len4 : (length W <= 4)%nat)
    (w_sym : Forall (Lfsr.sym_ok 5) (xorl W W'))
    (w_weight : (1 <= weight (xorl W W') <= 2)%nat).

Lemma pos_sym p : pos_ok p -> sym5 (Z.land p 31) /\ 0 <= Z.shiftr p 5 < 3.
Proof. apply pos_parts. Qed.

Lemma weight2 a b : (weight [a; b] = (if nonzero a then 1 else 0) + (if nonzero b then 1 else 0))%nat.
Proof. unfold weight. cbn [filter]. destruct (nonzero a), (nonzero b); reflexivity. Qed.

Lemma weight_0 l : weight (0 :: l) = weight l.
Proof. reflexivity. Qed.

Lemma weight_pair_bounds a b :
  nonzero a = true \/ nonzero b = true -> (1 <= weight [a; b] <= 2)%nat.
Proof. rewrite weight2. destruct (nonzero a), (nonzero b); intros [H|H]; try discriminate; lia. Qed.

Lemma weight_perm_front a l : weight (a :: l) = ((if nonzero a then 1 else 0) + weight l)%nat.
Proof. unfold weight. cbn [filter]. destruct (nonzero a); reflexivity. Qed.

(* weight of a window whose only possibly non-zero entries are a and b *)
Lemma weight_ab l a b :
  (weight l = (if nonzero a then 1 else 0) + (if nonzero b then 1 else 0))%nat ->
  nonzero a = true \/ nonzero b = true -> (1 <= weight l <= 2)%nat.
Proof. intros ->. destruct (nonzero a), (nonzero b); intros [H|H]; try discriminate; lia. Qed.

Lemma base_window l1 x y l2 :
  (length l1 <= 2)%nat -> Forall pos_ok l1 -> Forall pos_ok l2 -> pos_ok x -> pos_ok y -> x <> y ->
  window (l1 ++ x :: l2) (l1 ++ y :: l2).
Proof.
  intros HL H1 H2 Hx Hy Hn.
  destruct (pos_sym x Hx) as [Sx Cx]. destruct (pos_sym y Hy) as [Sy Cy].
  destruct l1 as [|a [|b [|? ?]]]; [| | |cbn in HL; lia].
  - (* x first in its group *)
    destruct l2 as [|d [|e r]].
    + apply (mk_window _ _ ([]) (syms [x]) (syms [y]) ([]));
        try reflexivity; try (cbn; lia).
      * cbn [syms xorl]. repeat constructor; apply sym_ok_lxor; unfold sym5 in *; lia.
      * cbn [syms xorl]. apply weight_pair_bounds. apply changed_pair; auto.
    + inversion H2 as [|? ? Hd _]; subst. destruct (pos_sym d Hd) as [Sd Cd].
      apply (mk_window _ _ ([]) (syms [x; d]) (syms [y; d]) ([]));
        try reflexivity; try (cbn; lia).
      * cbn [syms xorl]. repeat constructor;
          first [apply sym_ok_self | apply sym_ok_lxor; unfold sym5 in *; lia].
      * cbn [syms xorl].
        apply (weight_ab _ (Z.lxor (Z.land x 31) (Z.land y 31))
                 (Z.lxor (Z.shiftr x 5 * 3 + Z.shiftr d 5) (Z.shiftr y 5 * 3 + Z.shiftr d 5))).
        -- rewrite !weight_perm_front, nonzero_self. unfold weight. cbn [filter length]. lia.
        -- apply changed_pair; auto. lia.
    + inversion H2 as [|? ? Hd H2']; subst. inversion H2' as [|? ? He H2'']; subst.
      destruct (pos_sym d Hd) as [Sd Cd]. destruct (pos_sym e He) as [Se Ce].
      apply (mk_window _ _ ([]) ([Z.land x 31; Z.land d 31; Z.land e 31; (Z.shiftr x 5 * 3 + Z.shiftr d 5) * 3 + Z.shiftr e 5]) ([Z.land y 31; Z.land d 31; Z.land e 31; (Z.shiftr y 5 * 3 + Z.shiftr d 5) * 3 + Z.shiftr e 5]) (syms r));
        try reflexivity; try (cbn; lia).
      * cbn [xorl]. repeat constructor;
          first [apply sym_ok_self | apply sym_ok_lxor; unfold sym5 in *; lia].
      * cbn [xorl].
        apply (weight_ab _ (Z.lxor (Z.land x 31) (Z.land y 31))
                 (Z.lxor ((Z.shiftr x 5 * 3 + Z.shiftr d 5) * 3 + Z.shiftr e 5)
                         ((Z.shiftr y 5 * 3 + Z.shiftr d 5) * 3 + Z.shiftr e 5))).
        -- rewrite !weight_perm_front, !nonzero_self. unfold weight. cbn [filter length]. lia.
        -- apply changed_pair; auto. lia.
  - (* x second in its group *)
    inversion H1 as [|? ? Ha _]; subst. destruct (pos_sym a Ha) as [Sa Ca].
    destruct l2 as [|e r].
    + apply (mk_window _ _ ([]) (syms [a; x]) (syms [a; y]) ([]));
        try reflexivity; try (cbn; lia).
      * cbn [syms xorl]. repeat constructor;
          first [apply sym_ok_self | apply sym_ok_lxor; unfold sym5 in *; lia].
      * cbn [syms xorl].
        apply (weight_ab _ (Z.lxor (Z.land x 31) (Z.land y 31))
                 (Z.lxor (Z.shiftr a 5 * 3 + Z.shiftr x 5) (Z.shiftr a 5 * 3 + Z.shiftr y 5))).
        -- rewrite !weight_perm_front, nonzero_self. unfold weight. cbn [filter length]. lia.
        -- apply changed_pair; auto. lia.
    + inversion H2 as [|? ? He _]; subst. destruct (pos_sym e He) as [Se Ce].
      apply (mk_window _ _ ([]) ([Z.land a 31; Z.land x 31; Z.land e 31; (Z.shiftr a 5 * 3 + Z.shiftr x 5) * 3 + Z.shiftr e 5]) ([Z.land a 31; Z.land y 31; Z.land e 31; (Z.shiftr a 5 * 3 + Z.shiftr y 5) * 3 + Z.shiftr e 5]) (syms r));
        try reflexivity; try (cbn; lia).
      * cbn [xorl]. repeat constructor;
          first [apply sym_ok_self | apply sym_ok_lxor; unfold sym5 in *; lia].
      * cbn [xorl].
        apply (weight_ab _ (Z.lxor (Z.land x 31) (Z.land y 31))
                 (Z.lxor ((Z.shiftr a 5 * 3 + Z.shiftr x 5) * 3 + Z.shiftr e 5)
                         ((Z.shiftr a 5 * 3 + Z.shiftr y 5) * 3 + Z.shiftr e 5))).
        -- rewrite !weight_perm_front, !nonzero_self. unfold weight. cbn [filter length]. lia.
        -- apply changed_pair; auto. lia.
  - (* x third in its group *)
    inversion H1 as [|? ? Ha H1']; subst. inversion H1' as [|? ? Hb _]; subst.
    destruct (pos_sym a Ha) as [Sa Ca]. destruct (pos_sym b Hb) as [Sb Cb].
    apply (mk_window _ _ ([]) ([Z.land a 31; Z.land b 31; Z.land x 31; (Z.shiftr a 5 * 3 + Z.shiftr b 5) * 3 + Z.shiftr x 5]) ([Z.land a 31; Z.land b 31; Z.land y 31; (Z.shiftr a 5 * 3 + Z.shiftr b 5) * 3 + Z.shiftr y 5]) (syms l2));
      try reflexivity; try (cbn; lia).
    * cbn [xorl]. repeat constructor;
        first [apply sym_ok_self | apply sym_ok_lxor; unfold sym5 in *; lia].
    * cbn [xorl].
      apply (weight_ab _ (Z.lxor (Z.land x 31) (Z.land y 31))
               (Z.lxor ((Z.shiftr a 5 * 3 + Z.shiftr b 5) * 3 + Z.shiftr x 5)
                       ((Z.shiftr a 5 * 3 + Z.shiftr b 5) * 3 + Z.shiftr y 5))).
      -- rewrite !weight_perm_front, !nonzero_self. unfold weight. cbn [filter length]. lia.
      -- apply changed_pair; auto. lia.
Qed.

Lemma syms_subst l1 : forall x y l2,
  Forall pos_ok l1 -> Forall pos_ok l2 -> pos_ok x -> pos_ok y -> x <> y ->
  window (l1 ++ x :: l2) (l1 ++ y :: l2).
Proof.
  induction l1 as [|a|a b|a b d r IH] using list_ind3; intros x y l2 H1 H2 Hx Hy Hn.
  - apply base_window; auto.
  - apply base_window; auto.
  - apply base_window; auto.
  - inversion H1 as [|? ? Ha H1']; subst. inversion H1' as [|? ? Hb H1'']; subst.
    inversion H1'' as [|? ? Hd H1''']; subst.
    destruct (IH x y l2 H1''' H2 Hx Hy Hn) as [pre W W' post E E' L L4 S Wt].
    apply (mk_window _ _ (Z.land a 31 :: Z.land b 31 :: Z.land d 31 ::
                       ((Z.shiftr a 5 * 3 + Z.shiftr b 5) * 3 + Z.shiftr d 5) :: pre) (W) (W') (post)); try assumption.
    + cbn [app syms]. now rewrite E.
    + cbn [app syms]. now rewrite E'.
Qed.

(* ------------------------------------------------------------------ values differ *)

Lemma value_of_subst l1 x y l2 :
  Forall pos_ok l1 -> Forall pos_ok l2 -> pos_ok x -> pos_ok y -> x <> y ->
  value_of (l1 ++ x :: l2) <> value_of (l1 ++ y :: l2).
Proof.
  intros H1 H2 Hx Hy Hn.
  destruct (syms_subst l1 x y l2 H1 H2 Hx Hy Hn) as [pre W W' post E E' L L4 S Wt].
  unfold value_of. rewrite E, E'. intros EQ.
  assert (EQ' : lrun 1 ((pre ++ W ++ post) ++ repeat 0 8) = lrun 1 ((pre ++ W' ++ post) ++ repeat 0 8)).
  { apply (f_equal (fun z => Z.lxor z 1)) in EQ.
    now rewrite !Z.lxor_assoc, Z.lxor_nilpotent, !Z.lxor_0_r in EQ. }
  rewrite <- !app_assoc in EQ'. rewrite !(Lfsr.run_app gens 35 5 1 pre) in EQ'.
  rewrite (Lfsr.run_app gens 35 5 _ W), (Lfsr.run_app gens 35 5 _ W') in EQ'.
  destruct (window_detects (lrun 1 pre) W W' L L4 S Wt) as [D N].
  revert EQ'. apply run_diff_nonzero; assumption.
Qed.

(* ------------------------------------------------------------------ 5. eight output characters *)

Definition digit (c j : Z) : Z := Z.land (Z.shiftr c (5 * (7 - j))) 31.

Lemma digit_range c j : 0 <= digit c j < 32.
Proof.
  unfold digit. change 31 with (Z.ones 5). rewrite Z.land_ones by lia. apply Z.mod_pos_bound. lia.
Qed.

Lemma digits8 c : st_ok c ->
  c = digit c 0 * 2 ^ 35 + digit c 1 * 2 ^ 30 + digit c 2 * 2 ^ 25 + digit c 3 * 2 ^ 20 +
      digit c 4 * 2 ^ 15 + digit c 5 * 2 ^ 10 + digit c 6 * 2 ^ 5 + digit c 7.
Proof.
  unfold st_ok, digit. intros Hc. change 31 with (Z.ones 5).
  rewrite !Z.land_ones, !Z.shiftr_div_pow2 by lia.
  change (5 * (7 - 0)) with 35. change (5 * (7 - 1)) with 30. change (5 * (7 - 2)) with 25.
  change (5 * (7 - 3)) with 20. change (5 * (7 - 4)) with 15. change (5 * (7 - 5)) with 10.
  change (5 * (7 - 6)) with 5. change (5 * (7 - 7)) with 0. rewrite Z.pow_0_r, Z.div_1_r.
  set (q1 := c / 2 ^ 5).
  assert (E2 : c / 2 ^ 10 = q1 / 2 ^ 5) by (unfold q1; rewrite Z.div_div by lia; reflexivity).
  set (q2 := q1 / 2 ^ 5) in *.
  assert (E3 : c / 2 ^ 15 = q2 / 2 ^ 5).
  { unfold q2, q1. rewrite !Z.div_div by lia. reflexivity. }
  set (q3 := q2 / 2 ^ 5) in *.
  assert (E4 : c / 2 ^ 20 = q3 / 2 ^ 5).
  { unfold q3, q2, q1. rewrite !Z.div_div by lia. reflexivity. }
  set (q4 := q3 / 2 ^ 5) in *.
  assert (E5 : c / 2 ^ 25 = q4 / 2 ^ 5).
  { unfold q4, q3, q2, q1. rewrite !Z.div_div by lia. reflexivity. }
  set (q5 := q4 / 2 ^ 5) in *.
  assert (E6 : c / 2 ^ 30 = q5 / 2 ^ 5).
  { unfold q5, q4, q3, q2, q1. rewrite !Z.div_div by lia. reflexivity. }
  set (q6 := q5 / 2 ^ 5) in *.
  assert (E7 : c / 2 ^ 35 = q6 / 2 ^ 5).
  { unfold q6, q5, q4, q3, q2, q1. rewrite !Z.div_div by lia. reflexivity. }
  set (q7 := q6 / 2 ^ 5) in *.
  rewrite E2, E3, E4, E5, E6, E7. fold q1.
  pose proof (Z.div_mod c (2 ^ 5) ltac:(lia)) as D0. fold q1 in D0.
  pose proof (Z.div_mod q1 (2 ^ 5) ltac:(lia)) as D1. fold q2 in D1.
  pose proof (Z.div_mod q2 (2 ^ 5) ltac:(lia)) as D2. fold q3 in D2.
  pose proof (Z.div_mod q3 (2 ^ 5) ltac:(lia)) as D3. fold q4 in D3.
  pose proof (Z.div_mod q4 (2 ^ 5) ltac:(lia)) as D4. fold q5 in D4.
  pose proof (Z.div_mod q5 (2 ^ 5) ltac:(lia)) as D5. fold q6 in D5.
  pose proof (Z.div_mod q6 (2 ^ 5) ltac:(lia)) as D6. fold q7 in D6.
  pose proof (Z.div_mod q7 (2 ^ 5) ltac:(lia)) as D7.
  pose proof (Z.mod_pos_bound c (2 ^ 5) ltac:(lia)).
  pose proof (Z.mod_pos_bound q1 (2 ^ 5) ltac:(lia)).
  pose proof (Z.mod_pos_bound q2 (2 ^ 5) ltac:(lia)).
  pose proof (Z.mod_pos_bound q3 (2 ^ 5) ltac:(lia)).
  pose proof (Z.mod_pos_bound q4 (2 ^ 5) ltac:(lia)).
  pose proof (Z.mod_pos_bound q5 (2 ^ 5) ltac:(lia)).
  pose proof (Z.mod_pos_bound q6 (2 ^ 5) ltac:(lia)).
  pose proof (Z.mod_pos_bound q7 (2 ^ 5) ltac:(lia)).
  assert (Q8 : 0 <= q7 / 2 ^ 5) by (apply Z.div_pos; [unfold q7, q6, q5, q4, q3, q2, q1; repeat (apply Z.div_pos; [|lia]); lia|lia]).
  clearbody q1 q2 q3 q4 q5 q6 q7. lia.
Qed.

Lemma checksum_charset_nodup :
  forallb (fun i => forallb (fun j => (i =? j)%nat ||
     negb (nth i desc_checksum_charset 0 =? nth j desc_checksum_charset 0)) (seq 0 32)) (seq 0 32) = true.
Proof. vm_compute. reflexivity. Qed.

Lemma checksum_char_inj i j :
  0 <= i < 32 -> 0 <= j < 32 ->
  nth (Z.to_nat i) desc_checksum_charset 0 = nth (Z.to_nat j) desc_checksum_charset 0 -> i = j.
Proof.
  intros Hi Hj E. pose proof checksum_charset_nodup as N. rewrite forallb_forall in N.
  assert (Ii : In (Z.to_nat i) (seq 0 32)) by (apply in_seq; lia).
  assert (Ij : In (Z.to_nat j) (seq 0 32)) by (apply in_seq; lia).
  specialize (N _ Ii). rewrite forallb_forall in N. specialize (N _ Ij).
  apply orb_true_iff in N as [N|N].
  - apply Nat.eqb_eq in N. lia.
  - rewrite E, Z.eqb_refl in N. discriminate.
Qed.

Lemma checksum_chars_inj c c' : st_ok c -> st_ok c' -> checksum_chars c = checksum_chars c' -> c = c'.
Proof.
  intros Hc Hc' E. unfold checksum_chars in E.
  assert (D : forall j, In j [0; 1; 2; 3; 4; 5; 6; 7] -> digit c j = digit c' j).
  { intros j Hj. apply checksum_char_inj; [apply digit_range|apply digit_range|].
    pose proof (proj1 (@map_ext_in_iff _ _ _ _ _) E j Hj) as X. exact X. }
  rewrite (digits8 c Hc), (digits8 c' Hc').
  rewrite (D 0), (D 1), (D 2), (D 3), (D 4), (D 5), (D 6), (D 7) by (cbn; tauto). reflexivity.
Qed.

Lemma checksum_chars_length c : length (checksum_chars c) = 8%nat.
Proof. reflexivity. Qed.

(* ------------------------------------------------------------------ text level *)

Lemma find_from_nth l ch : forall i p, find_from i l ch = p -> p <> -1 -> 0 <= i ->
  nth (Z.to_nat (p - i)) l (-1) = ch.
Proof.
  induction l as [|x l IH]; intros i p H Hn Hi; cbn [find_from] in H; [congruence|].
  destruct (Z.eqb_spec x ch) as [->|N].
  - subst p. now rewrite Z.sub_diag.
  - pose proof (find_from_range l ch (i + 1)) as R. rewrite H in R.
    assert (Hp : i + 1 <= p) by lia.
    replace (Z.to_nat (p - i)) with (S (Z.to_nat (p - (i + 1)))) by lia.
    cbn [nth]. apply (IH (i + 1) p H Hn). lia.
Qed.

Lemma str_find_inj l x y :
  str_find l x <> -1 -> str_find l x = str_find l y -> x = y.
Proof.
  unfold str_find. intros Hx E.
  pose proof (find_from_nth l x 0 _ eq_refl Hx (Z.le_refl 0)) as Nx.
  assert (Hy : find_from 0 l y <> -1) by congruence.
  pose proof (find_from_nth l y 0 _ eq_refl Hy (Z.le_refl 0)) as Ny.
  rewrite <- E in Ny. congruence.
Qed.

Lemma positions_app a b :
  positions (a ++ b) = (pa <- positions a ;; pb <- positions b ;; Ok (pa ++ pb)).
Proof.
  induction a as [|ch a IH]; cbn [positions app bind].
  - destruct (positions b); reflexivity.
  - unfold str_find. set (f := find_from 0 desc_input_charset ch). clearbody f.
    destruct (f =? -1); [reflexivity|]. rewrite IH.
    destruct (positions a); [|reflexivity]. cbn [bind]. destruct (positions b); reflexivity.
Qed.

Definition in_input_charset (ch : Z) : Prop := str_find desc_input_charset ch <> -1.

Lemma find_from_In l ch : forall i, 0 <= i -> (find_from i l ch <> -1 <-> In ch l).
Proof.
  induction l as [|x l IH]; intros i Hi; cbn [find_from In].
  - split; [congruence|tauto].
  - destruct (Z.eqb_spec x ch) as [E|E].
    + split; [now left|]. intros _. lia.
    + rewrite (IH (i + 1)) by lia. split; [now right|]. intros [F|F]; [contradiction|exact F].
Qed.

Lemma in_input_charset_In ch : in_input_charset ch <-> In ch desc_input_charset.
Proof. apply find_from_In. lia. Qed.

(* calc_core_checksum detects every single-character substitution, for every length *)
Theorem checksum_detects_single l1 x y l2 cs :
  desc_checksum (l1 ++ x :: l2) = Ok cs -> In y desc_input_charset -> x <> y ->
  exists cs', desc_checksum (l1 ++ y :: l2) = Ok cs' /\ cs' <> cs /\
              length cs = 8%nat /\ length cs' = 8%nat.
Proof.
  intros H Hy Hn. apply in_input_charset_In in Hy. unfold in_input_charset in Hy.
  unfold desc_checksum in *.
  destruct (positions (l1 ++ x :: l2)) as [ps|] eqn:P;
    [|rewrite (positions_err _ P) in H; discriminate].
  rewrite (checksum_value_syms _ _ P) in H. cbn [bind] in H. apply Ok_inj in H.
  rewrite positions_app in P.
  destruct (positions l1) as [p1|] eqn:P1; [|discriminate]. cbn [bind positions] in P.
  set (px := str_find desc_input_charset x) in *. set (py := str_find desc_input_charset y) in *.
  destruct (px =? -1) eqn:Ex; [discriminate|].
  destruct (positions l2) as [p2|] eqn:P2; [|discriminate]. cbn [bind] in P. apply Ok_inj in P.
  assert (P' : positions (l1 ++ y :: l2) = Ok (p1 ++ py :: p2)).
  { rewrite positions_app, P1. cbn [bind positions]. fold py.
    destruct (py =? -1) eqn:Ey; [apply Z.eqb_eq in Ey; contradiction|]. rewrite P2. reflexivity. }
  rewrite (checksum_value_syms _ _ P'). cbn [bind]. eexists. split; [reflexivity|].
  destruct (positions_ok _ _ P1) as [O1 _]. destruct (positions_ok _ _ P2) as [O2 _].
  assert (Ox : pos_ok px).
  { assert (Q : positions [x] = Ok [px]).
    { cbn [positions]. fold px. rewrite Ex. reflexivity. }
    destruct (positions_ok _ _ Q) as [O _]. now inversion O. }
  assert (Oy : pos_ok py).
  { assert (Q : positions [y] = Ok [py]).
    { cbn [positions]. fold py. destruct (py =? -1) eqn:Ey; [apply Z.eqb_eq in Ey; contradiction|].
      reflexivity. }
    destruct (positions_ok _ _ Q) as [O _]. now inversion O. }
  assert (Nxy : px <> py).
  { intros E. apply Hn. apply (str_find_inj desc_input_charset x y); [|exact E].
    fold px. apply Z.eqb_neq in Ex. exact Ex. }
  pose proof (value_of_subst p1 px py p2 O1 O2 Ox Oy Nxy) as V.
  split; [|split; [subst cs; reflexivity|reflexivity]].
  intros E. apply V. subst ps cs.
  pose proof (checksum_value_ok _ _ (checksum_value_syms _ _ P')) as K'.
  assert (PX : positions (l1 ++ x :: l2) = Ok (p1 ++ px :: p2)).
  { rewrite positions_app, P1. cbn [bind positions]. fold px. rewrite Ex, P2. reflexivity. }
  pose proof (checksum_value_ok _ _ (checksum_value_syms _ _ PX)) as K.
  symmetry. apply checksum_chars_inj; assumption.
Qed.
