(* Proofs/P2shP.v — the P2SH special case of Script.evaluate (allow_p2sh=True) can only fire on a
   script that has OP_HASH160, a 20-byte push and OP_EQUAL as a subsequence ([mentions_p2sh], the
   spec's static exclusion): the command list of the library's loop is always a subsequence of
   the original script.  Hence with that exclusion the default-flag evaluation equals the
   evaluation with allow_p2sh=False. *)
From V Require Import Base.Prelude Base.Ints Model.Script Model.Op Model.Interp Spec.Consensus.

Inductive sub {A : Type} : list A -> list A -> Prop :=
| sub_nil : sub [] []
| sub_skip x a b : sub a b -> sub a (x :: b)
| sub_keep x a b : sub a b -> sub (x :: a) (x :: b).

Lemma sub_refl {A} (l : list A) : sub l l.
Proof. induction l; constructor; assumption. Qed.

Lemma sub_app_l {A} (p a b : list A) : sub a b -> sub (p ++ a) (p ++ b).
Proof. intros H. induction p; [exact H | now apply sub_keep]. Qed.

Lemma sub_insert {A} (a p q : list A) x : sub a (p ++ q) -> sub a (p ++ x :: q).
Proof.
  revert a; induction p as [|y p IH]; intros a H.
  - now apply sub_skip.
  - cbn [app] in *. inversion H; subst.
    + apply sub_skip. now apply IH.
    + apply sub_keep. now apply IH.
Qed.

Lemma sub_trans {A} (a b c : list A) : sub a b -> sub b c -> sub a c.
Proof.
  intros H1 H2. revert a H1. induction H2; intros a0 H1.
  - exact H1.
  - apply sub_skip. now apply IHsub.
  - inversion H1; subst.
    + apply sub_skip. now apply IHsub.
    + apply sub_keep. now apply IHsub.
Qed.

(* ---- equational form of p2sh_stage *)
Definition is_op (cm : cmd) (k : Z) : bool := match cm with Op o => o =? k | Push _ => false end.
Definition is_push20 (cm : cmd) : bool :=
  match cm with Push h => (length h =? 20)%nat | Op _ => false end.

Ltac zlit o E :=
  destruct o as [|q|q]; try exact E; try reflexivity; try discriminate;
  repeat (destruct q as [q|q|]; try exact E; try reflexivity; try discriminate; try lia).

Lemma stage0 cm rest :
  p2sh_stage 0 (cm :: rest) = if is_op cm 169 then p2sh_stage 1 rest else p2sh_stage 0 rest.
Proof.
  destruct cm as [o|b]; [|reflexivity]. cbn [is_op].
  destruct (Z.eqb_spec o 169) as [->|N]; [reflexivity|].
  destruct o as [|q|q]; try reflexivity;
    repeat (destruct q as [q|q|]; try reflexivity; try lia).
Qed.
Lemma stage1 cm rest :
  p2sh_stage 1 (cm :: rest) = if is_push20 cm then p2sh_stage 2 rest else p2sh_stage 1 rest.
Proof. destruct cm as [o|b]; reflexivity. Qed.
Lemma stage2 cm rest :
  p2sh_stage 2 (cm :: rest) = if is_op cm 135 then true else p2sh_stage 2 rest.
Proof.
  destruct cm as [o|b]; [|reflexivity]. cbn [is_op].
  destruct (Z.eqb_spec o 135) as [->|N]; [reflexivity|].
  destruct o as [|q|q]; try reflexivity;
    repeat (destruct q as [q|q|]; try reflexivity; try lia).
Qed.

Lemma stage_12 l : p2sh_stage 1 l = true -> p2sh_stage 2 l = true.
Proof.
  induction l as [|cm r IH]; [discriminate|]. rewrite stage1, stage2.
  destruct (is_op cm 135); [reflexivity|]. destruct (is_push20 cm); auto.
Qed.
Lemma stage_01 l : p2sh_stage 0 l = true -> p2sh_stage 1 l = true.
Proof.
  induction l as [|cm r IH]; [discriminate|]. rewrite stage0, stage1.
  destruct (is_op cm 169); destruct (is_push20 cm); auto using stage_12.
Qed.

Lemma sub_stage a b : sub a b ->
  (p2sh_stage 0 a = true -> p2sh_stage 0 b = true) /\
  (p2sh_stage 1 a = true -> p2sh_stage 1 b = true) /\
  (p2sh_stage 2 a = true -> p2sh_stage 2 b = true).
Proof.
  induction 1 as [|x a b H [I0 [I1 I2]]|x a b H [I0 [I1 I2]]].
  - auto.
  - rewrite stage0, stage1, stage2. repeat split; intros E.
    + destruct (is_op x 169); auto using stage_01.
    + destruct (is_push20 x); auto using stage_12.
    + destruct (is_op x 135); auto.
  - rewrite !stage0, !stage1, !stage2. repeat split.
    + destruct (is_op x 169); auto.
    + destruct (is_push20 x); auto.
    + destruct (is_op x 135); auto.
Qed.

Lemma sub_mentions a b : sub a b -> mentions_p2sh b = false -> mentions_p2sh a = false.
Proof.
  intros H Hb. unfold mentions_p2sh in *. destruct (p2sh_stage 0 a) eqn:E; [|reflexivity].
  apply (proj1 (sub_stage a b H)) in E. congruence.
Qed.

Ltac not_lit o N E :=
  exfalso; destruct o as [|q|q]; try discriminate E;
  repeat (destruct q as [q|q|]; try discriminate E; try lia).

Lemma is_p2sh_inv l : is_p2sh l = true ->
  exists h, l = [Op 169; Push h; Op 135] /\ (length h =? 20)%nat = true.
Proof.
  unfold is_p2sh. intros E.
  destruct l as [|c1 t1]; [discriminate|].
  destruct c1 as [o1|b1]; [|discriminate].
  destruct (Z.eq_dec o1 169) as [->|N1]; [|not_lit o1 N1 E].
  destruct t1 as [|c2 t2]; [discriminate|].
  destruct c2 as [o2|h]; [discriminate|].
  destruct t2 as [|c3 t3]; [discriminate|].
  destruct c3 as [o3|b3]; [|discriminate].
  destruct (Z.eq_dec o3 135) as [->|N3]; [|not_lit o3 N3 E].
  destruct t3; [|discriminate].
  exists h. split; [reflexivity | exact E].
Qed.

Lemma is_p2sh_mentions l : is_p2sh l = true -> mentions_p2sh l = true.
Proof.
  intros E. apply is_p2sh_inv in E as (h & -> & L). unfold mentions_p2sh.
  rewrite stage0. cbn [is_op Z.eqb Pos.eqb]. rewrite stage1. cbn [is_push20]. rewrite L.
  rewrite stage2. reflexivity.
Qed.

(* ---- the scan only deletes commands *)
Lemma if_scan_sub items : forall need cur t f t' f' rest',
  if_scan items need cur t f = Some (t', f', rest') ->
  sub (t' ++ rest') (rev t ++ items) /\ sub (f' ++ rest') (rev f ++ items).
Proof.
  induction items as [|it rest IH]; intros need cur t f t' f' rest' E; [discriminate|].
  assert (Keep : forall nd, (if cur then if_scan rest nd cur (it :: t) f else if_scan rest nd cur t (it :: f))
                   = Some (t', f', rest') ->
                 sub (t' ++ rest') (rev t ++ it :: rest) /\ sub (f' ++ rest') (rev f ++ it :: rest)).
  { intros nd H. destruct cur; apply IH in H as [H1 H2]; cbn [rev] in *; rewrite <- ?app_assoc in *;
      cbn [app] in *; split; auto using sub_insert. }
  cbn [if_scan] in E.
  destruct it as [o|b]; [|exact (Keep need E)].
  destruct (Z.eq_dec o 99) as [->|N99]; [exact (Keep (S need) E)|].
  destruct (Z.eq_dec o 100) as [->|N100]; [exact (Keep (S need) E)|].
  destruct (Z.eq_dec o 103) as [->|N103].
  { destruct need; [|exact (Keep _ E)]. apply IH in E as [H1 H2]. split; now apply sub_insert. }
  destruct (Z.eq_dec o 104) as [->|N104].
  { destruct need; [|exact (Keep _ E)]. injection E as <- <- <-.
    split; apply sub_insert, sub_refl. }
  assert (G : (if cur then if_scan rest need cur (Op o :: t) f else if_scan rest need cur t (Op o :: f))
              = Some (t', f', rest')).
  { destruct o as [|q|q]; try exact E;
      repeat (destruct q as [q|q|]; try exact E; try lia). }
  exact (Keep need G).
Qed.

Lemma op_if_sub neg s items s' items' : op_if_gen neg s items = Ok (s', items') -> sub items' items.
Proof.
  unfold op_if_gen. destruct s as [|e r]; [discriminate|].
  destruct (if_scan items 0 true [] []) as [[[t f] rest]|] eqn:E; [|discriminate].
  apply if_scan_sub in E as [H1 H2]. cbn [rev app] in *.
  intros [= _ <-]. destruct (xorb (decode_num e =? 0) neg); assumption.
Qed.

Section P2sh.
  Variable table : Z -> option opfn.
  Variable c : txctx.
  Variable aw : bool.

  Lemma exec_op_sub o rest s a rest' s' a' :
    Interp.exec_op table c o rest s a = Ok (rest', s', a') -> sub rest' rest.
  Proof.
    unfold Interp.exec_op. destruct (table o) as [[f|neg|f|f]|]; unfold bind; try discriminate.
    - destruct (f s); [intros [= <- _ _]; apply sub_refl | discriminate].
    - destruct (op_if_gen neg s rest) as [[s1 r1]|] eqn:E; [|discriminate].
      apply op_if_sub in E. now intros [= <- _ _].
    - destruct (f s a) as [[s1 a1]|]; [intros [= <- _ _]; apply sub_refl | discriminate].
    - destruct (f c s); [intros [= <- _ _]; apply sub_refl | discriminate].
  Qed.

  (* without the pattern, allow_p2sh makes no difference *)
  Theorem p2sh_flag_irrelevant f : forall cmds s a,
    mentions_p2sh cmds = false ->
    eval_loop table c true aw f cmds s a = eval_loop table c false aw f cmds s a.
  Proof.
    induction f as [|f IH]; intros cmds s a M; [destruct cmds; reflexivity|].
    destruct cmds as [|cm rest]; [reflexivity|].
    assert (Mr : mentions_p2sh rest = false)
      by (eapply sub_mentions; [apply sub_skip, sub_refl | exact M]).
    cbn [eval_loop]. destruct cm as [o|b].
    - destruct (Interp.exec_op table c o rest s a) as [[[rest' s'] a']|] eqn:E; [|reflexivity].
      apply IH. eapply sub_mentions; [eapply exec_op_sub; exact E | exact Mr].
    - unfold special_after_push. cbn [andb].
      destruct (is_p2sh rest) eqn:P; [apply is_p2sh_mentions in P; congruence|].
      cbn [orb]. destruct (aw && special_stack (b :: s)); [reflexivity|]. now apply IH.
  Qed.
End P2sh.
