(* Proofs/PsbtUpdateP.v — what the Updater (Model/PsbtUpdate.v) may touch: PSBTIn.update never
   changes partial signatures, sighash type, final fields or unknown entries, never unsets a UTXO or
   a script that is present and never removes a derivation; PSBTOut.update likewise EXCEPT that it
   replaces the RedeemScript of a P2SH output by the lookup's answer — also by "not found"
   ([out_update_drops_redeem_refuted]). *)
From V Require Import Base.Prelude Base.Ints Model.Helper Model.Script Model.Tx Model.Psbt
  Model.PsbtUpdate Proofs.PsbtDictP Proofs.PsbtFinalP.

Definition keeps_keys (a b : dict bytes) : Prop :=
  forall k, is_some (dget a k) = true -> is_some (dget b k) = true.

Lemma keeps_refl a : keeps_keys a a.
Proof. intros k H; exact H. Qed.

Lemma keeps_dset a k v : keeps_keys a (dset k v a).
Proof.
  intros k' H. rewrite dget_dset. destruct (bcmp k' k); [reflexivity|exact H|exact H].
Qed.

Lemma keeps_trans a b c : keeps_keys a b -> keeps_keys b c -> keeps_keys a c.
Proof. intros H1 H2 k H. apply H2, H1, H. Qed.

Lemma keeps_named_add pk c a : keeps_keys a (named_add pk c a).
Proof. unfold named_add. destruct (cmd_get pk c) as [[sec path]|]; [apply keeps_dset|apply keeps_refl]. Qed.

Lemma keeps_named_add_all pk cs : forall a, keeps_keys a (named_add_all pk cs a).
Proof.
  unfold named_add_all. induction cs as [|c r IH]; intros a; cbn [fold_left]; [apply keeps_refl|].
  eapply keeps_trans; [apply keeps_named_add|apply IH].
Qed.

Definition stays {A} (x y : option A) : Prop := x <> None -> y = x.
Definition stays_some {A} (x y : option A) : Prop := x <> None -> y <> None.

Record in_update_spec (st st' : psbt_in) : Prop := {
  ius_sigs : pi_sigs st' = pi_sigs st;
  ius_ht : pi_hash_type st' = pi_hash_type st;
  ius_ss : pi_script_sig st' = pi_script_sig st;
  ius_wit : pi_witness st' = pi_witness st;
  ius_extra : pi_extra st' = pi_extra st;
  ius_prev_tx : stays (pi_prev_tx st) (pi_prev_tx st');
  ius_prev_out : stays_some (pi_prev_out st) (pi_prev_out st');
  ius_redeem : stays (pi_redeem st) (pi_redeem st');
  ius_wscript : stays (pi_wscript st) (pi_wscript st');
  ius_named : keeps_keys (pi_named st) (pi_named st') }.

Lemma orelse_stays {A} (x y : option A) : stays x (orelse_opt x y).
Proof. intros H. destruct x; [reflexivity|now elim H]. Qed.

Ltac step H :=
  match type of H with
  | bind ?r _ = Ok _ => let a := fresh "a" in let E := fresh "E" in apply bind_ok in H as [a [E H]]
  | (if ?b then _ else _) = Ok _ => let E := fresh "B" in destruct b eqn:E
  | match ?x with _ => _ end = Ok _ => let E := fresh "M" in destruct x eqn:E
  end; try discriminate.

Theorem in_update_preserves txl pk rl wl st ti st' :
  in_update txl pk rl wl st ti = Ok st' -> in_update_spec st st'.
Proof.
  unfold in_update. intros H.
  apply bind_ok in H as [prev_out [Epo H]].
  destruct prev_out as [po|]; [|inversion H; subst; constructor; try reflexivity; try (intros ?; reflexivity);
                                 try (intros X; exact X); apply keeps_refl].
  apply bind_ok in H as [redeem [Er H]].
  assert (Rs : stays (pi_redeem st) redeem).
  { destruct (is_p2sh (s_cmds (o_script po))).
    - apply bind_ok in Er as [h [_ Er]]. inversion Er; subst. apply orelse_stays.
    - inversion Er; subst. intros _. reflexivity. }
  assert (Ts : stays (pi_prev_tx st) (orelse_opt (pi_prev_tx st) (dget txl (i_prev_tx ti)))) by apply orelse_stays.
  repeat step H; inversion H; subst; clear H;
    (constructor; cbn;
     try reflexivity; try assumption; try (intros X; reflexivity); try (intros X; discriminate);
     try (intros X; exact X); try apply orelse_stays;
     try apply keeps_refl; try apply keeps_named_add; try apply keeps_named_add_all).
  all: match goal with M : orelse_opt _ _ = _ |- stays _ _ => rewrite <- M; apply orelse_stays end.
Qed.

Record out_update_spec (st st' : psbt_out) : Prop := {
  ous_extra : po_extra st' = po_extra st;
  ous_redeem : stays (po_redeem st) (po_redeem st');        (* since fix 33b84c2 *)
  ous_wscript : stays_some (po_wscript st) (po_wscript st');
  ous_named : keeps_keys (po_named st) (po_named st') }.

Theorem out_update_preserves pk rl wl st to st' :
  out_update pk rl wl st to = Ok st' -> out_update_spec st st'.
Proof.
  unfold out_update. intros H.
  apply bind_ok in H as [redeem [Er H]].
  assert (Rs : stays (po_redeem st) redeem).
  { destruct (is_p2sh (s_cmds (o_script to))).
    - apply bind_ok in Er as [h [_ Er]]. inversion Er; subst. apply orelse_stays.
    - inversion Er; subst. intros _. reflexivity. }
  repeat step H; inversion H; subst; clear H;
    (constructor; cbn; try reflexivity; try assumption; try (intros X; exact X); try (intros X; discriminate);
     try apply keeps_refl; try apply keeps_named_add; try apply keeps_named_add_all).
Qed.

(* FIXED in /repo (33b84c2): PSBTOut.update used to replace the RedeemScript of a P2SH output by the
   lookup's answer, also by "not found"; the former witness keeps its RedeemScript now *)
Definition uw_redeem : script := mk_script [Op 0; Push (repeatz 7 20)].
Definition uw_out : psbt_out :=
  {| po_redeem := Some uw_redeem; po_wscript := None; po_named := []; po_extra := [] |}.
Definition uw_txout : txout := {| o_amount := 1; o_script := mk_script [Op 169; Push (repeatz 3 20); Op 135] |}.

Theorem out_update_keeps_redeem_instance :
  exists st', out_update [] [] [] uw_out uw_txout = Ok st' /\ po_redeem st' = Some uw_redeem.
Proof. eexists. split; vm_compute; reflexivity. Qed.
