(* Proofs/TxidP.v — txid facts, fetcher integrity, byte-level round trip, the zero-input
   counterexample (C04). *)
From V Require Import Base.Prelude Base.Ints Model.Helper Model.Script Model.Tx Model.Fetcher
  Proofs.HelperP Proofs.ScriptP Proofs.TxP.

(* ================= the txid ignores witness data and the segwit flag ================= *)
Lemma txin_serialize_strip i : txin_serialize (strip_in i) = txin_serialize i.
Proof. reflexivity. Qed.

Lemma ser_ins_strip l : ser_ins (map strip_in l) = ser_ins l.
Proof. induction l as [|i r IH]; cbn [map ser_ins]; [reflexivity|]. now rewrite txin_serialize_strip, IH. Qed.

Lemma serialize_legacy_strip t : serialize_legacy (strip_tx t) = serialize_legacy t.
Proof.
  unfold serialize_legacy, strip_tx. cbn [t_version t_ins t_outs t_locktime].
  rewrite ser_ins_strip. unfold zlen. now rewrite map_length.
Qed.

Lemma serialize_legacy_nonwitness t1 t2 :
  nonwitness_eq t1 t2 -> serialize_legacy t1 = serialize_legacy t2.
Proof.
  unfold nonwitness_eq. intros E. rewrite <- (serialize_legacy_strip t1), <- (serialize_legacy_strip t2).
  now rewrite E.
Qed.

Lemma set_wits_strip ins : forall ws, map strip_in (set_wits ins ws) = map strip_in ins.
Proof. induction ins as [|i r IH]; intros ws; cbn [set_wits map]; [reflexivity|]. now rewrite IH. Qed.

Lemma with_witness_nonwitness t ws sw : nonwitness_eq (with_witness t ws sw) t.
Proof.
  unfold nonwitness_eq, strip_tx, with_witness. cbn [t_version t_ins t_outs t_locktime].
  now rewrite set_wits_strip.
Qed.

Section WithHash.
Variable hash256 : bytes -> bytes.

Lemma tx_hash_nonwitness t1 t2 :
  nonwitness_eq t1 t2 -> tx_hash hash256 t1 = tx_hash hash256 t2.
Proof. intros E. unfold tx_hash. now rewrite (serialize_legacy_nonwitness _ _ E). Qed.

Lemma tx_hash_ignores_witness t ws sw :
  tx_hash hash256 (with_witness t ws sw) = tx_hash hash256 t.
Proof. apply tx_hash_nonwitness, with_witness_nonwitness. Qed.

(* ================= the legacy serialisation determines the non-witness data ============ *)
Lemma serialize_legacy_inj_canon t1 t2 b :
  tx_wfb t1 = true -> tx_wfb t2 = true ->
  serialize_legacy t1 = Ok b -> serialize_legacy t2 = Ok b ->
  nonwitness_eq (canon_tx t1) (canon_tx t2).
Proof.
  intros W1 W2 H1 H2.
  destruct (legacy_roundtrip t1 W1) as [b1 [E1 P1]]. destruct (legacy_roundtrip t2 W2) as [b2 [E2 P2]].
  rewrite H1 in E1. rewrite H2 in E2. inversion E1; inversion E2; subst b1 b2.
  specialize (P1 []). specialize (P2 []). rewrite P1 in P2.
  unfold nonwitness_eq. congruence.
Qed.

Lemma serialize_legacy_inj t1 t2 b :
  tx_strictb t1 = true -> tx_strictb t2 = true ->
  serialize_legacy t1 = Ok b -> serialize_legacy t2 = Ok b -> nonwitness_eq t1 t2.
Proof.
  intros S1 S2 H1 H2.
  assert (tx_wfb t1 = true) as W1 by (unfold tx_strictb in S1; split_andb; assumption).
  assert (tx_wfb t2 = true) as W2 by (unfold tx_strictb in S2; split_andb; assumption).
  pose proof (serialize_legacy_inj_canon t1 t2 b W1 W2 H1 H2) as E.
  now rewrite !canon_tx_strict in E.
Qed.

Lemma rev_inj {A} (a b : list A) : rev a = rev b -> a = b.
Proof. intros E. rewrite <- (rev_involutive a), <- (rev_involutive b). now rewrite E. Qed.

(* equal txids: equal non-witness data, or an explicit hash256 collision *)
Lemma txid_binding_canon t1 t2 h :
  tx_wfb t1 = true -> tx_wfb t2 = true ->
  tx_hash hash256 t1 = Ok h -> tx_hash hash256 t2 = Ok h ->
  nonwitness_eq (canon_tx t1) (canon_tx t2) \/ exists x y, x <> y /\ hash256 x = hash256 y.
Proof.
  intros W1 W2 H1 H2. unfold tx_hash in H1, H2.
  apply bind_ok in H1 as [b1 [E1 H1]]. apply bind_ok in H2 as [b2 [E2 H2]].
  inversion H1 as [R1]. inversion H2 as [R2]. rewrite <- R2 in R1. apply rev_inj in R1.
  destruct (list_eq_dec Z.eq_dec b1 b2) as [->|N].
  - left. exact (serialize_legacy_inj_canon t1 t2 b2 W1 W2 E1 E2).
  - right. exists b1, b2. split; assumption.
Qed.

Lemma txid_binding t1 t2 h :
  tx_strictb t1 = true -> tx_strictb t2 = true ->
  tx_hash hash256 t1 = Ok h -> tx_hash hash256 t2 = Ok h ->
  nonwitness_eq t1 t2 \/ exists x y, x <> y /\ hash256 x = hash256 y.
Proof.
  intros S1 S2 H1 H2.
  assert (tx_wfb t1 = true) as W1 by (unfold tx_strictb in S1; split_andb; assumption).
  assert (tx_wfb t2 = true) as W2 by (unfold tx_strictb in S2; split_andb; assumption).
  destruct (txid_binding_canon t1 t2 h W1 W2 H1 H2) as [E|C]; [left|right; exact C].
  now rewrite !canon_tx_strict in E.
Qed.

(* ================= fetcher ================= *)
Lemma fetch_check_sound raw id t : fetch_check hash256 raw id = Ok t -> tx_hash hash256 t = Ok id.
Proof.
  unfold fetch_check. intros H. apply bind_ok in H as [[t' r] [_ H]]. cbn beta iota in H.
  apply bind_ok in H as [h [Hh H]]. destruct (beq h id) eqn:E; [|discriminate].
  apply beq_eq in E. inversion H. subst. exact Hh.
Qed.

Lemma fetch_text_sound resp id t : fetch_text hash256 resp id = Ok t -> tx_id hash256 t = Ok id.
Proof.
  unfold fetch_text. intros H. apply bind_ok in H as [txt [_ H]]. apply bind_ok in H as [raw [_ H]].
  apply bind_ok in H as [[t' r] [_ H]]. cbn beta iota in H.
  apply bind_ok in H as [c [Hc H]]. destruct (beq c id) eqn:E; [|discriminate].
  apply beq_eq in E. inversion H. subst. exact Hc.
Qed.

(* every cached transaction hashes to the id it is stored under *)
Definition cache_ok (c : cache) : Prop := forall id t, lookup c id = Some t -> tx_id hash256 t = Ok id.

Lemma cache_ok_nil : cache_ok [].
Proof. intros id t H. discriminate. Qed.

Lemma cache_ok_cons c id t : cache_ok c -> tx_id hash256 t = Ok id -> cache_ok ((id, t) :: c).
Proof.
  intros Hc Ht id' t' H. cbn [lookup] in H. destruct (beq id id') eqn:E.
  - apply beq_eq in E. inversion H. subst. exact Ht.
  - now apply Hc.
Qed.

Lemma fetch_step_sound c fresh resp id c' t :
  cache_ok c -> fetch_step hash256 c fresh resp id = (c', Ok t) ->
  tx_id hash256 t = Ok id /\ cache_ok c'.
Proof.
  intros Hc. unfold fetch_step.
  destruct (if fresh then None else lookup c id) as [t0|] eqn:El.
  - intros H. inversion H; subst. destruct fresh; [discriminate|]. split; [now apply Hc|exact Hc].
  - destruct (fetch_text hash256 resp id) as [t0|] eqn:Ef; intros H; inversion H; subst.
    pose proof (fetch_text_sound _ _ _ Ef) as Ht. split; [exact Ht|now apply cache_ok_cons].
Qed.

Lemma fetch_step_inv c fresh resp id :
  cache_ok c -> cache_ok (fst (fetch_step hash256 c fresh resp id)).
Proof.
  intros Hc. destruct (fetch_step hash256 c fresh resp id) as [c' [t|]] eqn:E; cbn [fst].
  - exact (proj2 (fetch_step_sound _ _ _ _ _ _ Hc E)).
  - unfold fetch_step in E. destruct (if fresh then None else lookup c id); [inversion E|].
    destruct (fetch_text hash256 resp id); inversion E. subst. exact Hc.
Qed.

(* any sequence of fetches: every transaction handed out hashes to the id requested in that call *)
Lemma fetch_run_sound ops : forall c,
  cache_ok c ->
  Forall2 (fun op o => forall t, o = Ok t -> tx_id hash256 t = Ok (snd op)) ops (fetch_run hash256 c ops).
Proof.
  induction ops as [|[[fresh resp] id] r IH]; intros c Hc; cbn [fetch_run]; [constructor|].
  destruct (fetch_step hash256 c fresh resp id) as [c' o] eqn:E. constructor.
  - intros t ->. cbn [snd]. exact (proj1 (fetch_step_sound _ _ _ _ _ _ Hc E)).
  - apply IH. pose proof (fetch_step_inv c fresh resp id Hc) as H. now rewrite E in H.
Qed.

End WithHash.

(* ================= normalisation does not change the bytes ================= *)
Lemma serialize_script_canon s : s_raw s = None -> serialize_script (canon_script s) = serialize_script s.
Proof.
  intros E. unfold serialize_script, raw_serialize, canon_script. cbn [mk_script s_raw s_cmds].
  rewrite E. now rewrite ser_cmds_canon.
Qed.

Lemma script_wf_raw s : script_wfb s = true -> s_raw s = None.
Proof. unfold script_wfb. destruct (s_raw s); [discriminate|reflexivity]. Qed.

Lemma ser_ins_canon l : forallb txin_wfb l = true -> ser_ins (map canon_in l) = ser_ins l.
Proof.
  induction l as [|i r IH]; cbn [forallb map ser_ins]; [reflexivity|]. intros H. split_andb.
  rewrite IH by assumption. f_equal.
  match goal with H : txin_wfb i = true |- _ => unfold txin_wfb in H end. split_andb.
  unfold txin_serialize, canon_in. cbn [i_prev_tx i_prev_index i_script i_sequence].
  now rewrite serialize_script_canon by (now apply script_wf_raw).
Qed.

Lemma ser_outs_canon l : forallb txout_wfb l = true -> ser_outs (map canon_out l) = ser_outs l.
Proof.
  induction l as [|o r IH]; cbn [forallb map ser_outs]; [reflexivity|]. intros H. split_andb.
  rewrite IH by assumption. f_equal.
  match goal with H : txout_wfb o = true |- _ => unfold txout_wfb in H end. split_andb.
  unfold txout_serialize, canon_out. cbn [o_amount o_script].
  now rewrite serialize_script_canon by (now apply script_wf_raw).
Qed.

Lemma ser_wits_canon l : ser_wits (map canon_in l) = ser_wits l.
Proof. induction l as [|i r IH]; cbn [map ser_wits]; [reflexivity|]. now rewrite IH. Qed.

Lemma serialize_legacy_canon t : tx_wfb t = true -> serialize_legacy (canon_tx t) = serialize_legacy t.
Proof.
  intros W. unfold tx_wfb in W. split_andb. unfold serialize_legacy, canon_tx.
  cbn [t_version t_ins t_outs t_locktime]. rewrite ser_ins_canon, ser_outs_canon by assumption.
  unfold zlen. now rewrite !map_length.
Qed.

Lemma tx_serialize_canon t : tx_wfb t = true -> tx_serialize (canon_tx t) = tx_serialize t.
Proof.
  intros W. unfold tx_serialize. cbn [canon_tx t_segwit]. destruct (t_segwit t) eqn:E.
  - unfold tx_wfb in W. split_andb. unfold serialize_segwit, canon_tx.
    cbn [t_version t_ins t_outs t_locktime]. rewrite ser_ins_canon, ser_outs_canon, ser_wits_canon by assumption.
    unfold zlen. now rewrite !map_length.
  - now apply serialize_legacy_canon.
Qed.

(* bytes produced by the serialiser from a well-formed transaction (= canonical encodings:
   minimal compact sizes, minimal pushes) parse and re-serialise to themselves *)
Lemma bytes_roundtrip t b :
  tx_wfb t = true -> t_segwit t = true \/ t_ins t <> [] -> tx_serialize t = Ok b ->
  exists t', tx_parse b = Ok (t', []) /\ tx_serialize t' = Ok b.
Proof.
  intros W Hz Hb. destruct (tx_roundtrip t W Hz) as [b' [Hb' Hp]]. rewrite Hb in Hb'. inversion Hb'; subst b'.
  exists (canon_tx t). specialize (Hp []). rewrite app_nil_r in Hp. split; [exact Hp|].
  now rewrite tx_serialize_canon.
Qed.

(* the fetcher accepts an honest response (also with trailing bytes) for the right id *)
Lemma fetch_check_complete (hash256 : bytes -> bytes) t b trailing id :
  tx_wfb t = true -> t_segwit t = true \/ t_ins t <> [] ->
  tx_serialize t = Ok b -> tx_hash hash256 t = Ok id ->
  fetch_check hash256 (b ++ trailing) id = Ok (canon_tx t).
Proof.
  intros W Hz Hb Hh. destruct (tx_roundtrip t W Hz) as [b' [Hb' Hp]]. rewrite Hb in Hb'. inversion Hb'; subst b'.
  unfold fetch_check. rewrite Hp. cbn [bind]. unfold tx_hash in *. rewrite serialize_legacy_canon by exact W.
  apply bind_ok in Hh as [l [Hl Hh]]. rewrite Hl. cbn [bind]. inversion Hh. now rewrite beq_refl.
Qed.

(* ================= short streams ================= *)
Lemma tx_parse_short s : (length s < 5)%nat -> tx_parse s = Err.
Proof.
  intros H. unfold tx_parse.
  assert (nth_error s 4 = None) as -> by (apply nth_error_None; lia).
  unfold parse_legacy. unfold read.
  assert (skipn 4 s = []) as -> by (apply skipn_all2; lia). reflexivity.
Qed.

(* ================= legacy serialisation with zero inputs is not parseable =============== *)
Definition zero_in_tx : tx :=
  {| t_version := 1; t_ins := []; t_outs := [{| o_amount := 5; o_script := mk_script [Op 81] |}];
     t_locktime := 0; t_segwit := false |}.

Lemma legacy_zero_inputs_refuted :
  exists t, tx_strictb t = true /\ t_segwit t = false /\ t_ins t = [] /\
    exists b, tx_serialize t = Ok b /\ tx_parse b = Err.
Proof. exists zero_in_tx. repeat split. eexists. split; vm_compute; reflexivity. Qed.
