(* Proofs/PsbtHonestP.v — C11, completeness side: every honest m-of-n wallet PSBT (P2SH, P2WSH,
   change as P2SH / P2WSH / P2SH-P2WSH, any number of inputs and outputs) IS summarised by
   Model/PsbtDescribe.describe, with the expected summary; the tamper catalogue for the map taken
   from the PSBT's own global xpubs; binding of the hash commitments (same script or a collision). *)
From V Require Import Base.Prelude Base.Ints Model.Helper Model.Script Model.PsbtDescribe
  Proofs.PsbtDescribeP.
From Coq Require Import Permutation.

(* ---------------------------------------------------------------- serialisation of the multisig script *)
Lemma ser_cmds_app a b :
  ser_cmds (a ++ b) = (x <- ser_cmds a ;; y <- ser_cmds b ;; Ok (x ++ y)).
Proof.
  induction a as [|c a IH]; cbn [app ser_cmds bind].
  - destruct (ser_cmds b); reflexivity.
  - destruct (ser_cmd c) as [sc|]; cbn [bind]; [|reflexivity]. rewrite IH.
    destruct (ser_cmds a); cbn [bind]; [|reflexivity].
    destruct (ser_cmds b); cbn [bind]; [|reflexivity]. now rewrite app_assoc.
Qed.

Definition ser_keys (keys : list bytes) : bytes := concat (map (fun k => zlen k :: k) keys).
Definition ser_multisig (m n : Z) (keys : list bytes) : bytes :=
  (80 + m) :: ser_keys keys ++ [80 + n; 174].

Lemma ser_cmd_op o : 0 <= o <= 255 -> ser_cmd (Op o) = Ok [o].
Proof.
  intros H. unfold ser_cmd.
  destruct (o <? 0) eqn:E1; [apply Z.ltb_lt in E1; lia|].
  destruct (255 <? o) eqn:E2; [apply Z.ltb_lt in E2; lia|]. reflexivity.
Qed.

Lemma ser_cmd_key k : zlen k = 33 \/ zlen k = 65 -> ser_cmd (Push k) = Ok (zlen k :: k).
Proof. intros [E|E]; unfold ser_cmd; rewrite E; reflexivity. Qed.

Lemma ser_keys_ok keys :
  Forall (fun k => zlen k = 33 \/ zlen k = 65) keys -> ser_cmds (map Push keys) = Ok (ser_keys keys).
Proof.
  induction 1 as [|k keys Hk _ IH]; [reflexivity|].
  cbn [map ser_cmds]. rewrite (ser_cmd_key k Hk), IH. reflexivity.
Qed.

Lemma ser_multisig_ok m n keys :
  1 <= m <= 16 -> 1 <= n <= 16 -> Forall (fun k => zlen k = 33 \/ zlen k = 65) keys ->
  ser_cmds (Op (80 + m) :: map Push keys ++ [Op (80 + n); Op 174]) = Ok (ser_multisig m n keys).
Proof.
  intros Hm Hn HF. cbn [ser_cmds]. rewrite ser_cmd_op by lia. cbn [bind].
  rewrite ser_cmds_app, (ser_keys_ok keys HF). cbn [bind ser_cmds].
  rewrite (ser_cmd_op (80 + n)) by lia. rewrite (ser_cmd_op 174) by lia. reflexivity.
Qed.

Lemma std_multisig_ser m n cs : std_multisig m n cs -> exists ser, ser_cmds cs = Ok ser.
Proof.
  intros (keys & -> & Hl & HF & Hm & Hn). exists (ser_multisig m n keys).
  apply ser_multisig_ok; try assumption; lia.
Qed.

Lemma Ok_inj {A} (a b : A) : Ok a = Ok b -> a = b.
Proof. intros E. injection E as ->. reflexivity. Qed.

Lemma cons_inj {A} (x y : A) l l' : x :: l = y :: l' -> x = y /\ l = l'.
Proof. intros E. injection E as -> ->. auto. Qed.

Lemma app_inj_len {A} (a a' b b' : list A) :
  length a = length a' -> a ++ b = a' ++ b' -> a = a' /\ b = b'.
Proof.
  revert a'; induction a as [|x a IH]; intros [|y a'] Hl E; try discriminate; [auto|].
  cbn in E. injection E as -> E. injection Hl as Hl. destruct (IH a' Hl E) as [-> ->]. auto.
Qed.

(* the serialisation is injective on standard multisig scripts *)
Lemma ser_keys_tail_inj keys : forall keys' n n',
  Forall (fun k => zlen k = 33 \/ zlen k = 65) keys ->
  Forall (fun k => zlen k = 33 \/ zlen k = 65) keys' ->
  1 <= n <= 16 -> 1 <= n' <= 16 ->
  ser_keys keys ++ [80 + n; 174] = ser_keys keys' ++ [80 + n'; 174] -> keys = keys' /\ n = n'.
Proof.
  induction keys as [|k keys IH]; intros [|k' keys'] n n' HF HF' Hn Hn' E.
  - cbn [ser_keys map concat app] in E. apply cons_inj in E. split; [reflexivity|lia].
  - exfalso. apply Forall_inv in HF'. cbn [ser_keys map concat app] in E. apply cons_inj in E. lia.
  - exfalso. apply Forall_inv in HF. cbn [ser_keys map concat app] in E. apply cons_inj in E. lia.
  - pose proof (Forall_inv HF) as Hk. pose proof (Forall_inv HF') as Hk'.
    apply Forall_inv_tail in HF, HF'.
    unfold ser_keys in E. cbn [map concat] in E. fold (ser_keys keys) in E. fold (ser_keys keys') in E.
    cbn [app] in E. apply cons_inj in E. destruct E as [El E].
    rewrite <- !app_assoc in E.
    assert (Hlen : length k = length k') by (unfold zlen in El; lia).
    apply app_inj_len in E; [|assumption]. destruct E as [-> E].
    destruct (IH keys' n n' HF HF' Hn Hn' E) as [-> ->]. auto.
Qed.

Lemma std_multisig_ser_inj m n cs m' n' cs' ser :
  std_multisig m n cs -> std_multisig m' n' cs' ->
  ser_cmds cs = Ok ser -> ser_cmds cs' = Ok ser -> cs = cs'.
Proof.
  intros (keys & -> & Hl & HF & Hm & Hn) (keys' & -> & Hl' & HF' & Hm' & Hn') E E'.
  rewrite ser_multisig_ok in E by (try assumption; lia).
  rewrite ser_multisig_ok in E' by (try assumption; lia).
  apply Ok_inj in E. apply Ok_inj in E'. subst ser. unfold ser_multisig in E'.
  apply cons_inj in E'. destruct E' as [Em E'].
  assert (m' = m) by lia. subst m'.
  destruct (ser_keys_tail_inj keys' keys n' n HF' HF) as [-> ->]; try lia; [exact E'|reflexivity].
Qed.

(* ---------------------------------------------------------------- get_quorum accepts the standard script *)
Lemma rev_ends (c : cmd) l x y : rev (c :: l ++ [x; y]) = y :: x :: rev l ++ [c].
Proof. cbn [rev]. rewrite rev_app_distr. reflexivity. Qed.

Lemma middle_ends (c : cmd) l x y : middle (c :: l ++ [x; y]) = l.
Proof.
  unfold middle.
  replace (c :: l ++ [x; y]) with ((c :: l ++ [x]) ++ [y])
    by (cbn [app]; rewrite <- app_assoc; reflexivity).
  rewrite removelast_last.
  replace (c :: l ++ [x]) with ((c :: l) ++ [x]) by reflexivity.
  rewrite removelast_last. reflexivity.
Qed.

Lemma op_code_to_number_std m : 1 <= m <= 16 -> op_code_to_number (Op (80 + m)) = Ok m.
Proof.
  intros H. unfold op_code_to_number.
  destruct (80 + m =? 0) eqn:E0; [apply Z.eqb_eq in E0; lia|].
  destruct (79 <=? 80 + m) eqn:E1; [|apply Z.leb_gt in E1; lia].
  destruct (80 + m <=? 96) eqn:E2; [|apply Z.leb_gt in E2; lia].
  cbn [andb]. f_equal. lia.
Qed.

Lemma op_name_number_std m : 1 <= m <= 16 -> op_name_number (80 + m) = Ok m.
Proof.
  intros H. unfold op_name_number.
  destruct (80 + m =? 0) eqn:E0; [apply Z.eqb_eq in E0; lia|].
  destruct (81 <=? 80 + m) eqn:E1; [|apply Z.leb_gt in E1; lia].
  destruct (80 + m <=? 96) eqn:E2; [|apply Z.leb_gt in E2; lia].
  cbn [andb]. f_equal. lia.
Qed.

Lemma number_to_op_code_std n : 1 <= n <= 16 -> number_to_op_code n = Ok (80 + n).
Proof.
  intros H. unfold number_to_op_code.
  destruct (n <? -1) eqn:E0; [apply Z.ltb_lt in E0; lia|].
  destruct (16 <? n) eqn:E1; [apply Z.ltb_lt in E1; lia|].
  destruct (n =? 0) eqn:E2; [apply Z.eqb_eq in E2; lia|].
  cbn [orb]. f_equal. lia.
Qed.

Lemma all_key_push_complete keys :
  Forall (fun k => zlen k = 33 \/ zlen k = 65) keys -> forallb is_key_push (map Push keys) = true.
Proof.
  induction 1 as [|k keys Hk _ IH]; [reflexivity|]. cbn [map forallb]. rewrite IH, andb_true_r.
  unfold is_key_push. destruct Hk as [-> | ->]; reflexivity.
Qed.

Lemma le_and_true a b c : a <= b <= c -> (a <=? b) && (b <=? c) = true.
Proof. intros H. apply andb_true_iff. split; apply Z.leb_le; lia. Qed.

Lemma redeem_quorum_complete m n cs : std_multisig m n cs -> redeem_quorum cs = Ok (m, n).
Proof.
  intros (keys & -> & Hl & HF & Hm & Hn).
  set (cs := Op (80 + m) :: map Push keys ++ [Op (80 + n); Op 174]).
  assert (H1 : last_cmd cs = Ok (Op 174)) by (unfold last_cmd, cs; now rewrite rev_ends).
  assert (H2 : last2_cmd cs = Ok (Op (80 + n))) by (unfold last2_cmd, cs; now rewrite rev_ends).
  assert (H3 : head_cmd cs = Ok (Op (80 + m))) by reflexivity.
  assert (H4 : middle cs = map Push keys) by apply middle_ends.
  assert (H5 : zlen cs - 3 = n).
  { unfold cs. rewrite zlen_cons, zlen_app, zlen_map. change (zlen [Op (80 + n); Op 174]) with 2. lia. }
  unfold redeem_quorum. rewrite H1, H2, H3, H4, H5. cbn [bind].
  rewrite cmd_eqb_refl. cbn [check bind]. rewrite op_code_to_number_std by lia. cbn [bind].
  rewrite (le_and_true 1 m n) by lia. cbn [check bind].
  rewrite number_to_op_code_std by lia. cbn [bind]. rewrite cmd_eqb_refl. cbn [check bind].
  rewrite (all_key_push_complete keys HF). reflexivity.
Qed.

Lemma witness_quorum_complete m n cs : std_multisig m n cs -> witness_quorum cs = Ok (m, n).
Proof.
  intros (keys & -> & Hl & HF & Hm & Hn).
  set (cs := Op (80 + m) :: map Push keys ++ [Op (80 + n); Op 174]).
  assert (H1 : last_cmd cs = Ok (Op 174)) by (unfold last_cmd, cs; now rewrite rev_ends).
  assert (H2 : last2_cmd cs = Ok (Op (80 + n))) by (unfold last2_cmd, cs; now rewrite rev_ends).
  assert (H3 : head_cmd cs = Ok (Op (80 + m))) by reflexivity.
  assert (H4 : middle cs = map Push keys) by apply middle_ends.
  unfold witness_quorum. rewrite H1, H2, H3, H4. cbn [bind].
  rewrite cmd_eqb_refl. cbn [check bind].
  rewrite !op_name_number_std by lia. cbn [bind].
  rewrite (le_and_true 1 m n) by lia. cbn [check bind].
  rewrite zlen_map, Hl, Z.eqb_refl. cbn [check bind].
  rewrite (all_key_push_complete keys HF). reflexivity.
Qed.

Lemma nthz_lt {A} (l : list A) : forall k u, nthz l k = Some u -> (k <? zlen l) = true.
Proof.
  induction l as [|x r IH]; intros k u H; [discriminate|].
  cbn [nthz] in H. rewrite zlen_cons. apply Z.ltb_lt.
  destruct (k =? 0) eqn:E.
  - apply Z.eqb_eq in E. pose proof (zlen_nonneg r). lia.
  - apply IH in H. apply Z.ltb_lt in H. lia.
Qed.

Lemma forall_res_complete {A} (f : A -> result unit) l :
  (forall a, In a l -> f a = Ok tt) -> forall_res f l = Ok tt.
Proof.
  induction l as [|x l IH]; intros H; [reflexivity|].
  cbn [forall_res]. rewrite (H x) by now left. cbn [bind]. apply IH. intros a Ha. apply H. now right.
Qed.

Lemma cmds_eqb_refl a : cmds_eqb a a = true.
Proof. now apply cmds_eqb_eq. Qed.

Section HonestP.
  Variable hash160 sha256 : bytes -> bytes.
  Variable xpub : Type.
  Variable derive : xpub -> list Z -> option bytes.
  Hypothesis hash160_len : forall b, length (hash160 b) = 20%nat.
  Hypothesis sha256_len : forall b, length (sha256 b) = 32%nat.

  Notation validate_in := (validate_in hash160 sha256).
  Notation validate_out := (validate_out hash160 sha256).
  Notation check_pub := (check_pub xpub derive).
  Notation check_out_pubs := (check_out_pubs xpub derive).
  Notation change_checks := (change_checks xpub derive).
  Notation input_checks := (input_checks hash160 sha256 xpub derive).
  Notation describe_inputs := (describe_inputs hash160 sha256 xpub derive).
  Notation describe_outputs := (describe_outputs hash160 sha256 xpub derive).
  Notation describe := (describe hash160 sha256 xpub derive).
  Notation hdmap := (hdmap xpub).
  Notation derives_from := (derives_from xpub derive).
  Notation commits := (commits hash160 sha256).
  Notation in_commits := (in_commits hash160 sha256).

  (* ------------------------------------------------------------ what an honest PSBT is *)
  (* the UTXO records attached to the input are those of the outpoint and show scriptPubKey [spk] *)
  Definition utxo_shows (i : pin) (spk : list cmd) : Prop :=
    (exists pt u, i_prev_tx i = Some pt /\ i_txid i = pt_hash pt /\
                  nthz (pt_outs pt) (i_index i) = Some u /\ u_spk u = spk /\
                  forall po, i_prev_out i = Some po -> u_amount po = u_amount u /\ u_spk po = u_spk u) \/
    (i_prev_tx i = None /\ exists po, i_prev_out i = Some po /\ u_spk po = spk).

  (* an input of the m-of-n wallet whose cosigner xpubs are [hm] *)
  Definition honest_in (hm : hdmap) (m n : Z) (i : pin) : Prop :=
    exists sc spk,
      std_multisig m n sc /\ utxo_shows i spk /\ in_commits i spk sc /\
      zlen (i_pubs i) = zlen hm /\
      forall np, In np (i_pubs i) -> In (Push (np_key np)) sc /\ derives_from hm np.

  (* a payment: an addressable scriptPubKey, no metadata *)
  Definition honest_spend (o : pout) : Prop :=
    o_pubs o = [] /\ o_redeem o = None /\ o_witness o = None /\ addressable (o_spk o) = true.

  (* change: the scriptPubKey commits to an m-of-n script with one key per cosigner *)
  Definition honest_change (hm : hdmap) (m n : Z) (o : pout) : Prop :=
    exists sc,
      std_multisig m n sc /\ commits o sc /\
      zlen (o_pubs o) = n /\ NoDup (map np_xfp (o_pubs o)) /\
      forall np, In np (o_pubs o) -> In (Push (np_key np)) sc /\ derives_from hm np.

  Definition honest_out (hm : hdmap) (m n : Z) (o : pout) : Prop :=
    honest_spend o \/ honest_change hm m n o.

  (* every global xpub of the PSBT that is an ancestor of a named key derives it *)
  Definition ancestors_ok (hs : list (hdpub xpub)) (np : named_pub) : Prop :=
    forall h, In h hs -> h_xfp h = np_xfp np -> is_prefix (h_path h) (np_path np) = true ->
              derive (h_xpub h) (skipn (length (h_path h)) (np_path np)) = Some (np_sec np).

  Definition all_pubs (p : psbt xpub) : list named_pub :=
    flat_map i_pubs (p_ins p) ++ flat_map o_pubs (p_outs p).

  (* ------------------------------------------------------------ PSBTIn.validate *)
  Definition utxo_block (i : pin) : result unit :=
    match i_prev_tx i with
    | Some pt => _ <- check (beq (i_txid i) (pt_hash pt)) ;;
                 _ <- check (i_index i <? zlen (pt_outs pt)) ;;
                 match i_prev_out i with
                 | Some po =>
                     match nthz (pt_outs pt) (i_index i) with
                     | Some u => check ((u_amount po =? u_amount u) && cmds_eqb (u_spk po) (u_spk u))
                     | None => Err
                     end
                 | None => Ok tt
                 end
    | None => Ok tt
    end.

  Lemma validate_in_split i :
    validate_in i = (ospk <- in_spk i ;; _ <- utxo_block i ;;
      if is_some (i_prev_out i) ||
         (is_some ospk && (is_some (i_witness i) ||
                           opt_is (fun rs => is_p2wpkh rs || is_p2wsh rs) (i_redeem i)))
      then
        match ospk with
        | None => Err
        | Some spk =>
            _ <- check (is_p2sh spk || is_p2wsh spk || is_p2wpkh spk) ;;
            _ <- match i_redeem i with
                 | Some rs =>
                     _ <- check (is_p2sh spk) ;;
                     _ <- check (is_p2wpkh rs || is_p2wsh rs) ;;
                     h <- script_h160 hash160 rs ;;
                     h160 <- nth_cmd spk 1 ;;
                     check (cmd_eqb (Push h) h160)
                 | None => Ok tt
                 end ;;
            match i_witness i with
            | Some ws =>
                _ <- check (is_p2wsh spk || opt_is is_p2wsh (i_redeem i)) ;;
                s256 <- match i_redeem i with
                        | Some rs => h160 <- nth_cmd spk 1 ;;
                                     h <- script_h160 hash160 rs ;;
                                     _ <- check (cmd_eqb (Push h) h160) ;;
                                     nth_cmd rs 1
                        | None => nth_cmd spk 1
                        end ;;
                h <- script_s256 sha256 ws ;;
                _ <- check (cmd_eqb (Push h) s256) ;;
                keys_in ws (i_pubs i)
            | None =>
                if is_p2wpkh spk || opt_is is_p2wpkh (i_redeem i)
                then single_pub_check hash160 (i_pubs i)
                       (if is_p2wpkh spk then nth_cmd spk 1
                        else match i_redeem i with Some rs => nth_cmd rs 1 | None => Err end)
                else Ok tt
            end
        end
      else
        match i_redeem i with
        | Some rs =>
            match ospk with
            | None => Err
            | Some spk =>
                _ <- check (is_p2sh spk) ;;
                _ <- check (negb (is_p2wsh rs || is_p2wpkh rs)) ;;
                h160 <- nth_cmd spk 1 ;;
                h <- script_h160 hash160 rs ;;
                _ <- check (cmd_eqb (Push h) h160) ;;
                keys_in rs (i_pubs i)
            end
        | None =>
            match ospk with
            | Some spk => if is_p2pkh spk then single_pub_check hash160 (i_pubs i) (nth_cmd spk 2) else Ok tt
            | None => Ok tt
            end
        end).
  Proof. reflexivity. Qed.

  Lemma utxo_shows_ok i spk :
    utxo_shows i spk -> in_spk i = Ok (Some spk) /\ utxo_block i = Ok tt.
  Proof.
    unfold utxo_shows, in_spk, utxo_block.
    intros [(pt & u & Hpt & Htx & Hn & Hs & Hpo)|(Hpt & po & Hpo & Hs)].
    - subst spk. rewrite Hpt, Hn, Htx, beq_refl, (nthz_lt _ _ _ Hn). cbn [check bind]. split; [reflexivity|].
      destruct (i_prev_out i) as [po|]; [|reflexivity].
      destruct (Hpo po eq_refl) as [-> ->]. now rewrite Z.eqb_refl, cmds_eqb_refl.
    - rewrite Hpt, Hpo, Hs. split; reflexivity.
  Qed.

  Lemma utxo_shows_record i spk :
    utxo_shows i spk -> is_some (i_prev_tx i) || is_some (i_prev_out i) = true.
  Proof.
    intros [(pt & u & -> & _)|(_ & po & -> & _)]; [reflexivity|apply orb_true_r].
  Qed.

  Lemma keys_in_complete cs pubs :
    (forall np, In np pubs -> In (Push (np_key np)) cs) -> keys_in cs pubs = Ok tt.
  Proof.
    intros H. unfold keys_in.
    replace (forallb (fun np => has_key cs (np_key np)) pubs) with true; [reflexivity|].
    symmetry. apply forallb_forall. intros np Hnp. apply has_key_in. now apply H.
  Qed.

  Lemma is_p2sh_p2sh h : is_p2sh (p2sh_script (hash160 h)) = true.
  Proof. cbn. now rewrite hash160_len. Qed.
  Lemma is_p2wsh_p2wsh h : is_p2wsh (p2wsh_script (sha256 h)) = true.
  Proof. cbn. now rewrite sha256_len. Qed.
  Lemma is_p2wpkh_p2wsh h : is_p2wpkh (p2wsh_script (sha256 h)) = false.
  Proof. cbn. now rewrite sha256_len. Qed.

  Lemma validate_in_complete i m n sc spk :
    std_multisig m n sc -> utxo_shows i spk -> in_commits i spk sc ->
    (forall np, In np (i_pubs i) -> In (Push (np_key np)) sc) ->
    validate_in i = Ok tt.
  Proof.
    intros Hstd Hu (ser & Hser & Hc) Hk.
    destruct (std_not_witness_program _ _ _ Hstd) as [Hnw1 Hnw2].
    destruct (utxo_shows_ok i spk Hu) as [Hspk Hblk].
    rewrite validate_in_split, Hspk, Hblk. cbn [bind].
    destruct Hc as [(Hw & Hr & Hpo & ->)|(Hw & Hr & ->)]; rewrite Hw, Hr.
    - rewrite Hpo. cbn [is_some opt_is orb andb]. rewrite Hnw1, Hnw2. cbn [orb andb].
      rewrite is_p2sh_p2sh. cbn [check bind negb nth_cmd nth_error p2sh_script].
      unfold script_h160. rewrite Hser. cbn [bind]. rewrite cmd_eqb_refl. cbn [check bind].
      now apply keys_in_complete.
    - cbn [is_some opt_is orb andb]. rewrite orb_true_r.
      rewrite is_p2wsh_p2wsh. rewrite orb_true_r. cbn [orb check bind nth_cmd nth_error p2wsh_script].
      unfold script_s256. rewrite Hser. cbn [bind]. rewrite cmd_eqb_refl. cbn [check bind].
      now apply keys_in_complete.
  Qed.

  (* ------------------------------------------------------------ the key checks *)
  Lemma check_pub_complete hm np : derives_from hm np -> check_pub hm np = Ok tt.
  Proof.
    intros (xp & depth & t & Hl & _ & Ht & Hne & Hd).
    unfold PsbtDescribe.check_pub. rewrite Hl, Ht. cbn [bind].
    unfold derive_t. destruct t as [|z t]; [contradiction|]. rewrite Hd, beq_refl. reflexivity.
  Qed.

  Lemma check_out_pubs_complete hm pubs : forall seen,
    NoDup (map np_xfp pubs) -> (forall np, In np pubs -> ~ In (np_xfp np) seen) ->
    (forall np, In np pubs -> derives_from hm np) ->
    check_out_pubs hm seen pubs = Ok tt.
  Proof.
    induction pubs as [|np r IH]; intros seen Hnd Hseen Hder; [reflexivity|].
    cbn [PsbtDescribe.check_out_pubs].
    assert (E : existsb (beq (np_xfp np)) seen = false).
    { destruct (existsb (beq (np_xfp np)) seen) eqn:E; [|reflexivity].
      apply existsb_beq_in in E. exfalso. apply (Hseen np); [now left|assumption]. }
    rewrite E. cbn [negb check bind]. rewrite check_pub_complete by (apply Hder; now left). cbn [bind].
    cbn [map] in Hnd. apply NoDup_cons_iff in Hnd. destruct Hnd as [Hnin Hnd].
    apply IH; [assumption| |intros q Hq; apply Hder; now right].
    intros q Hq [Heq|Hin]; [|apply (Hseen q); [now right|assumption]].
    apply Hnin. rewrite Heq. now apply in_map.
  Qed.

  Lemma check_descendent_complete hs np : ancestors_ok hs np -> check_descendent xpub derive hs np = Ok tt.
  Proof.
    unfold ancestors_ok. induction hs as [|h r IH]; intros H; [reflexivity|].
    cbn [check_descendent].
    destruct (beq (h_xfp h) (np_xfp np)) eqn:E1; cbn [andb].
    - destruct (is_prefix (h_path h) (np_path np)) eqn:E2.
      + apply beq_eq in E1. rewrite (H h (or_introl eq_refl) E1 E2), beq_refl. reflexivity.
      + apply IH. intros h' Hh'. apply H. now right.
    - apply IH. intros h' Hh'. apply H. now right.
  Qed.

  (* ------------------------------------------------------------ one input *)
  Lemma in_commits_pick i spk sc :
    in_commits i spk sc ->
    (i_witness i = None \/ i_redeem i = None) /\
    exists b, pick_script (i_witness i) (i_redeem i) = Ok (b, sc) /\
              forall m n, std_multisig m n sc -> quorum_of (b, sc) = Ok (m, n).
  Proof.
    intros (ser & _ & [(Hw & Hr & _)|(Hw & Hr & _)]); rewrite Hw, Hr; (split; [auto|]).
    - exists false. split; [reflexivity|]. intros m n. apply redeem_quorum_complete.
    - exists true. split; [reflexivity|]. intros m n. apply witness_quorum_complete.
  Qed.

  Lemma input_checks_complete hm m n qm qn i v :
    honest_in hm m n i -> i_value i = Some v ->
    (qm = None \/ qm = Some m) -> ((qn = None /\ n = zlen hm) \/ qn = Some n) ->
    input_checks hm qm qn i = Ok (m, n, v).
  Proof.
    intros (sc & spk & Hstd & Hu & Hc & Hlen & Hpubs) Hv Hqm Hqn.
    unfold PsbtDescribe.input_checks.
    rewrite (validate_in_complete i m n sc spk Hstd Hu Hc) by (intros np Hnp; now apply Hpubs).
    cbn [bind].
    destruct (in_commits_pick i spk sc Hc) as (Hex & b & Hp & Hq).
    replace (match i_witness i with Some _ => match i_redeem i with Some _ => Err | None => Ok tt end
                                  | None => Ok tt end) with (Ok tt : result unit)
      by (destruct Hex as [-> | ->]; [reflexivity|destruct (i_witness i); reflexivity]).
    cbn [bind]. rewrite Hp. cbn [bind]. rewrite (utxo_shows_record i spk Hu). cbn [check bind].
    rewrite <- Hlen, Z.eqb_refl. cbn [check bind].
    rewrite (Hq m n Hstd). cbn [bind snd].
    replace (match qm with Some m0 => check (m0 =? m) | None => Ok tt end) with (Ok tt : result unit)
      by (destruct Hqm as [-> | ->]; [reflexivity|now rewrite Z.eqb_refl]).
    cbn [bind].
    replace (match qn with Some n0 => check (n0 =? n) | None => check (n =? zlen (i_pubs i)) end)
      with (Ok tt : result unit)
      by (destruct Hqn as [[-> ->] | ->]; [now rewrite Hlen, Z.eqb_refl|now rewrite Z.eqb_refl]).
    cbn [bind]. destruct (std_multisig_ser _ _ _ Hstd) as [ser ->]. cbn [bind].
    rewrite forall_res_complete by (intros np Hnp; apply check_pub_complete; now apply Hpubs).
    cbn [bind]. rewrite Hv. reflexivity.
  Qed.

  (* ------------------------------------------------------------ the loop over the inputs *)
  Lemma describe_inputs_complete hm m n : forall ins vs acc,
    Forall (honest_in hm m n) ins -> map i_value ins = map Some vs ->
    ((a_m acc = None /\ a_n acc = None /\ n = zlen hm) \/ (a_m acc = Some m /\ a_n acc = Some n)) ->
    1 <= zlen hm ->
    exists acc', describe_inputs hm acc ins = Ok acc' /\
      (ins <> [] -> a_m acc' = Some m /\ a_n acc' = Some n /\ a_signing acc' = true).
  Proof.
    induction ins as [|i r IH]; intros vs acc HF Hvs Hacc Hn1.
    - exists acc. split; [reflexivity|]. intros H. contradiction.
    - destruct vs as [|v vs]; [discriminate|]. cbn [map] in Hvs. injection Hvs as Hv Hvs.
      pose proof (Forall_inv HF) as Hi. apply Forall_inv_tail in HF.
      cbn [PsbtDescribe.describe_inputs].
      assert (Hq1 : a_m acc = None \/ a_m acc = Some m) by (destruct Hacc as [(H1 & _)|(H1 & _)]; auto).
      assert (Hq2 : (a_n acc = None /\ n = zlen hm) \/ a_n acc = Some n)
        by (destruct Hacc as [(_ & H1 & H2)|(_ & H1)]; auto).
      rewrite (input_checks_complete hm m n (a_m acc) (a_n acc) i v Hi Hv Hq1 Hq2).
      cbn [bind].
      set (acc1 := {| a_m := _ |}).
      assert (Hs1 : a_signing acc1 = true).
      { unfold acc1. cbn [a_signing]. destruct Hi as (sc & spk & _ & _ & _ & Hlen & _).
        destruct (i_pubs i); [change (zlen (@nil named_pub)) with 0 in Hlen; lia|]. apply orb_true_r. }
      assert (Hacc1 : a_m acc1 = Some m /\ a_n acc1 = Some n).
      { unfold acc1. cbn [a_m a_n]. destruct Hacc as [(H1 & H2 & _)|(H1 & H2)]; rewrite H1, H2; auto. }
      destruct r as [|j r].
      + exists acc1. split; [reflexivity|]. intros _. destruct Hacc1. auto.
      + destruct (IH vs acc1 HF Hvs (or_intror Hacc1) Hn1) as (acc' & Hd & Hres).
        exists acc'. split; [exact Hd|]. intros _. apply Hres. discriminate.
  Qed.

  (* ------------------------------------------------------------ PSBTOut.validate / one output *)
  Lemma honest_spend_validate o : honest_spend o -> validate_out o = Ok tt.
  Proof.
    intros (Hp & Hr & Hw & _). unfold PsbtDescribe.validate_out. rewrite Hp, Hr, Hw.
    destruct (is_p2pkh (o_spk o)); [reflexivity|]. destruct (is_p2wpkh (o_spk o)); reflexivity.
  Qed.

  Lemma commits_validate o m n sc :
    std_multisig m n sc -> commits o sc ->
    (forall np, In np (o_pubs o) -> In (Push (np_key np)) sc) ->
    validate_out o = Ok tt /\ addressable (o_spk o) = true /\
    exists b, pick_script (o_witness o) (o_redeem o) = Ok (b, sc) /\ quorum_of (b, sc) = Ok (m, n).
  Proof.
    intros Hstd (ser & Hser & Hc) Hk.
    destruct (std_not_witness_program _ _ _ Hstd) as [Hnw1 Hnw2].
    apply keys_in_complete in Hk.
    destruct Hc as [(Hw & Hr & Hs)|[(Hw & Hr & Hs)|(Hw & rser & Hr & Hrser & Hs)]]; (split; [|split]).
    - unfold PsbtDescribe.validate_out. rewrite Hw, Hr, Hs.
      change (is_p2pkh (p2sh_script (hash160 ser))) with false.
      change (is_p2wpkh (p2sh_script (hash160 ser))) with false.
      rewrite is_p2sh_p2sh. cbn [check bind]. unfold script_h160. rewrite Hser.
      cbn [bind nth_cmd nth_error p2sh_script]. rewrite cmd_eqb_refl, Hnw1. cbn [check bind]. exact Hk.
    - unfold addressable. rewrite Hs.
      change (is_p2pkh (p2sh_script (hash160 ser))) with false. rewrite is_p2sh_p2sh. reflexivity.
    - rewrite Hw, Hr. exists false. split; [reflexivity|]. now apply redeem_quorum_complete.
    - unfold PsbtDescribe.validate_out. rewrite Hw, Hr, Hs.
      change (is_p2pkh (p2wsh_script (sha256 ser))) with false.
      rewrite is_p2wpkh_p2wsh, is_p2wsh_p2wsh. cbn [check bind nth_cmd nth_error p2wsh_script].
      unfold script_s256. rewrite Hser. cbn [bind]. rewrite cmd_eqb_refl. cbn [check bind]. exact Hk.
    - unfold addressable. rewrite Hs.
      change (is_p2pkh (p2wsh_script (sha256 ser))) with false.
      change (is_p2sh (p2wsh_script (sha256 ser))) with false.
      rewrite is_p2wpkh_p2wsh, is_p2wsh_p2wsh. reflexivity.
    - rewrite Hw, Hr. exists true. split; [reflexivity|]. now apply witness_quorum_complete.
    - unfold PsbtDescribe.validate_out. rewrite Hw, Hr, Hs.
      change (is_p2pkh (p2sh_script (hash160 rser))) with false.
      change (is_p2wpkh (p2sh_script (hash160 rser))) with false.
      rewrite is_p2sh_p2sh, is_p2wsh_p2wsh. cbn [andb check bind nth_cmd nth_error p2sh_script].
      unfold script_h160. rewrite Hrser. cbn [bind]. rewrite cmd_eqb_refl.
      cbn [check bind nth_cmd nth_error p2wsh_script].
      unfold script_s256. rewrite Hser. cbn [bind]. rewrite cmd_eqb_refl. cbn [check bind]. exact Hk.
    - unfold addressable. rewrite Hs.
      change (is_p2pkh (p2sh_script (hash160 rser))) with false. rewrite is_p2sh_p2sh. reflexivity.
    - rewrite Hw, Hr. exists true. split; [reflexivity|]. now apply witness_quorum_complete.
  Qed.

  Lemma honest_change_checks hm m n o :
    honest_change hm m n o ->
    validate_out o = Ok tt /\ addressable (o_spk o) = true /\ is_nil (o_pubs o) = false /\
    change_checks hm m n o = Ok tt.
  Proof.
    intros (sc & Hstd & Hc & Hlen & Hnd & Hpubs).
    destruct (commits_validate o m n sc Hstd Hc) as (Hv & Ha & b & Hp & Hq);
      [intros np Hnp; now apply Hpubs|].
    repeat split; try assumption.
    - destruct Hstd as (_ & _ & _ & _ & Hm & _).
      destruct (o_pubs o); [change (zlen (@nil named_pub)) with 0 in Hlen; lia|reflexivity].
    - unfold PsbtDescribe.change_checks. rewrite Hp. cbn [bind]. rewrite Hq. cbn [bind].
      rewrite !Z.eqb_refl. cbn [check bind]. rewrite Hlen, Z.eqb_refl. cbn [check bind].
      apply check_out_pubs_complete; [assumption|intros np _ []|intros np Hnp; now apply Hpubs].
  Qed.

  (* ------------------------------------------------------------ the loop over the outputs *)
  Lemma describe_outputs_complete hm m n : forall outs acc,
    Forall (honest_out hm m n) outs ->
    (length (filter is_change outs) <= (if b_change acc then 0 else 1))%nat ->
    exists acc', describe_outputs hm m n acc outs = Ok acc'.
  Proof.
    induction outs as [|o r IH]; intros acc HF Hl; [eexists; reflexivity|].
    pose proof (Forall_inv HF) as Ho. apply Forall_inv_tail in HF.
    cbn [PsbtDescribe.describe_outputs]. cbn [filter] in Hl.
    destruct Ho as [Hsp|Hch].
    - rewrite (honest_spend_validate o Hsp). destruct Hsp as (Hp & _ & _ & Ha).
      rewrite Ha. cbn [check bind]. unfold is_change in Hl. rewrite Hp in *. cbn [is_nil negb] in *.
      apply IH; [assumption|]. cbn [b_change]. exact Hl.
    - destruct (honest_change_checks hm m n o Hch) as (Hv & Ha & Hnil & Hcc).
      rewrite Hv, Ha. cbn [check bind]. rewrite Hnil, Hcc. cbn [bind].
      unfold is_change in Hl at 1. rewrite Hnil in Hl. cbn [negb length] in Hl.
      destruct (b_change acc) as [x|]; [lia|].
      apply IH; [assumption|]. cbn [b_change]. lia.
  Qed.

  (* ------------------------------------------------------------ PSBT.validate, Tx.fee *)
  Lemma honest_out_validate hm m n o : honest_out hm m n o -> validate_out o = Ok tt.
  Proof.
    intros [H|H]; [now apply honest_spend_validate|].
    now destruct (honest_change_checks hm m n o H).
  Qed.

  Lemma honest_in_validate hm m n i : honest_in hm m n i -> validate_in i = Ok tt.
  Proof.
    intros (sc & spk & Hstd & Hu & Hc & _ & Hpubs).
    apply (validate_in_complete i m n sc spk); try assumption. intros np Hnp. now apply Hpubs.
  Qed.

  Lemma validate_psbt_complete hm m n p :
    Forall (honest_in hm m n) (p_ins p) -> Forall (honest_out hm m n) (p_outs p) ->
    Forall (ancestors_ok (p_hd_pubs p)) (all_pubs p) ->
    validate_psbt hash160 sha256 xpub derive p = Ok tt.
  Proof.
    intros HFi HFo HA. rewrite Forall_forall in HFi, HFo, HA. unfold validate_psbt, all_pubs in *.
    rewrite forall_res_complete.
    - cbn [bind]. apply forall_res_complete. intros o Ho.
      rewrite (honest_out_validate hm m n o (HFo o Ho)). cbn [bind].
      apply forall_res_complete. intros np Hnp. apply check_descendent_complete, HA.
      apply in_or_app. right. apply in_flat_map. eauto.
    - intros i Hi. rewrite (honest_in_validate hm m n i (HFi i Hi)). cbn [bind].
      apply forall_res_complete. intros np Hnp. apply check_descendent_complete, HA.
      apply in_or_app. left. apply in_flat_map. eauto.
  Qed.

  Lemma input_values_complete ins vs : map i_value ins = map Some vs -> input_values ins = Ok vs.
  Proof.
    revert vs; induction ins as [|i r IH]; intros [|v vs] H; try discriminate; [reflexivity|].
    cbn [map] in H. injection H as Hv H. cbn [input_values]. rewrite Hv, (IH vs H). reflexivity.
  Qed.

  Lemma map_of_hd_pubs_nonempty (hs : list (hdpub xpub)) : hs <> [] -> map_of_hd_pubs xpub hs <> [].
  Proof.
    unfold map_of_hd_pubs.
    assert (G : forall l (m0 : hdmap), m0 <> [] ->
              fold_left (fun m h => dict_set xpub m (h_xfp h) (h_xpub h, zlen (h_path h))) l m0 <> []).
    { induction l as [|h l IH]; intros m0 H0; [exact H0|]. cbn [fold_left]. apply IH.
      destruct m0 as [|[k v] m0]; [contradiction|]. cbn [dict_set].
      destruct (beq k (h_xfp h)); discriminate. }
    destruct hs as [|h hs]; [contradiction|]. intros _. cbn [fold_left]. apply G. discriminate.
  Qed.

  (* ------------------------------------------------------------ completeness *)
  Theorem honest_psbt_summarised hm0 (p : psbt xpub) hm m n vs :
    effective_map xpub hm0 p hm -> hm <> [] -> n = zlen hm -> p_ins p <> [] ->
    Forall (honest_in hm m n) (p_ins p) ->
    Forall (honest_out hm m n) (p_outs p) ->
    (length (filter is_change (p_outs p)) <= 1)%nat ->
    Forall (ancestors_ok (p_hd_pubs p)) (all_pubs p) ->
    map i_value (p_ins p) = map Some vs -> sumz vs <> 0 ->
    exists s, describe hm0 p = Ok s /\
      s_m s = m /\ s_n s = n /\
      s_fee s = sumz vs - sumz (map o_amount (p_outs p)) /\
      s_total_in s = sumz vs /\ s_total_out s = sumz (map o_amount (p_outs p)) /\
      s_ins s = map (fun v => (m, n, v)) vs /\
      s_outs s = map (fun o => (o_amount o, is_change o)) (p_outs p) /\
      s_spend s = sumz (map o_amount (filter (fun o => negb (is_change o)) (p_outs p))) /\
      s_change s = sumz (map o_amount (filter is_change (p_outs p))) /\
      s_spend s + s_change s + s_fee s = sumz vs.
  Proof.
    intros Heff Hne Hn Hins HFi HFo Hl HA Hvs Hnz.
    assert (Hn1 : 1 <= zlen hm).
    { destruct hm; [contradiction|]. rewrite zlen_cons. pose proof (zlen_nonneg hm). lia. }
    assert (Hd : exists s, describe hm0 p = Ok s /\ s_m s = m /\ s_n s = n).
    { destruct (describe_inputs_complete hm m n (p_ins p) vs (acc0) HFi Hvs) as (ia & Hia & Hres);
        [left; auto|assumption|].
      destruct (Hres Hins) as (HM & HN & Hsig).
      destruct (describe_outputs_complete hm m n (p_outs p) out0 HFo Hl) as (oa & Hoa).
      pose proof Hia as Hia'. apply describe_inputs_first in Hia'; [|assumption].
      destruct Hia' as (M & N & _ & _ & _ & _ & _ & vs' & Hvs' & Htot & _).
      rewrite (input_values_complete _ _ Hvs) in Hvs'. apply Ok_inj in Hvs'. subst vs'.
      assert (Hz : (a_total ia =? 0) = false) by (apply Z.eqb_neq; lia).
      unfold PsbtDescribe.describe.
      rewrite (validate_psbt_complete hm m n p HFi HFo HA). cbn [bind].
      unfold tx_fee. rewrite (input_values_complete _ _ Hvs). cbn [bind].
      destruct Heff as [->|[-> ->]].
      - destruct hm0 as [|e hm0]; [contradiction|]. cbn [bind].
        rewrite Hia. cbn [bind]. rewrite Hsig, HM, HN. cbn [check bind]. rewrite Hoa. cbn [bind].
        rewrite Hz. cbn [negb check bind]. eexists. split; [reflexivity|]. split; reflexivity.
      - destruct (p_hd_pubs p) as [|h hs]; [exfalso; apply Hne; reflexivity|]. cbn [bind].
        rewrite Hia. cbn [bind]. rewrite Hsig, HM, HN. cbn [check bind]. rewrite Hoa. cbn [bind].
        rewrite Hz. cbn [negb check bind]. eexists. split; [reflexivity|]. split; reflexivity. }
    destruct Hd as (s & Hs & HM & HN). exists s. split; [assumption|].
    destruct (describe_inv _ _ _ _ _ _ _ Hs) as
      (hm' & vs' & _ & Hvs' & Hfee & Hin & _ & Hout & Houts & Hinsd & Hsp & Hch & _).
    rewrite (input_values_complete _ _ Hvs) in Hvs'. apply Ok_inj in Hvs'. subst vs'.
    rewrite HM, HN in Hinsd.
    pose proof (filter_split_sum is_change (p_outs p)) as Hsplit.
    repeat split; try assumption; lia.
  Qed.
End HonestP.

(* ---------------------------------------------------------------- the catalogue for ANY map argument *)
Section AnyMap.
  Variable hash160 sha256 : bytes -> bytes.
  Variable xpub : Type.
  Variable derive : xpub -> list Z -> option bytes.
  Notation describe := (describe hash160 sha256 xpub derive).

  (* the map describe works with: the argument, or (argument empty) the PSBT's own global xpubs *)
  Definition eff_map (hm0 : hdmap xpub) (p : psbt xpub) : hdmap xpub :=
    match hm0 with [] => map_of_hd_pubs xpub (p_hd_pubs p) | _ => hm0 end.

  Lemma describe_no_map p : p_hd_pubs p = [] -> describe [] p = Err.
  Proof.
    intros H. unfold PsbtDescribe.describe. rewrite H.
    destruct (validate_psbt _ _ _ _ p); [|reflexivity]. cbn [bind].
    destruct (tx_fee xpub p); reflexivity.
  Qed.

  Lemma describe_own_map p : p_hd_pubs p <> [] ->
    describe [] p = describe (map_of_hd_pubs xpub (p_hd_pubs p)) p.
  Proof.
    intros H. pose proof (map_of_hd_pubs_nonempty xpub _ H) as Hne.
    unfold PsbtDescribe.describe.
    destruct (map_of_hd_pubs xpub (p_hd_pubs p)) as [|e r] eqn:E; [contradiction|].
    destruct (p_hd_pubs p); [contradiction|]. rewrite E. reflexivity.
  Qed.

  Lemma tamper_rejected_any_map hm0 p :
    tampered hash160 sha256 xpub derive (eff_map hm0 p) p -> describe hm0 p = Err.
  Proof.
    intros Ht. destruct hm0 as [|e hm0].
    - cbn [eff_map] in Ht. destruct (p_hd_pubs p) as [|h hs] eqn:E.
      + now apply describe_no_map.
      + rewrite describe_own_map by (rewrite E; discriminate). rewrite E.
        apply tamper_rejected; [|exact Ht]. apply map_of_hd_pubs_nonempty. discriminate.
    - apply tamper_rejected; [discriminate|exact Ht].
  Qed.

  Lemma eff_map_effective hm0 p s : describe hm0 p = Ok s -> effective_map xpub hm0 p (eff_map hm0 p).
  Proof. intros _. destruct hm0; [right; auto|left; reflexivity]. Qed.

  (* every declared cosigner contributes exactly one key to an output labelled change: the
     fingerprints of its named keys are a permutation of the fingerprints of the xpub map *)
  Theorem change_one_key_per_cosigner hm0 p s o :
    describe hm0 p = Ok s -> In o (p_outs p) -> is_change o = true ->
    Permutation (map np_xfp (o_pubs o)) (map fst (eff_map hm0 p)) /\
    forall np, In np (o_pubs o) -> derives_from xpub derive (eff_map hm0 p) np.
  Proof.
    intros Hd Ho Hc.
    destruct (change_label_sound _ _ _ _ _ _ _ _ Hd Ho Hc)
      as (hm & sc & keys & Heff & _ & _ & _ & _ & Hm & _ & Hn & _ & Hlen & Hnd & Hder & _).
    assert (E : hm = eff_map hm0 p).
    { destruct Heff as [->|[-> ->]]; [|reflexivity].
      destruct hm0; [change (zlen (@nil (bytes * (xpub * Z)))) with 0 in Hn; lia|reflexivity]. }
    subst hm. split; [|intros np Hnp; now apply Hder].
    apply NoDup_Permutation_bis; [assumption| |].
    - rewrite !map_length. unfold zlen in *. lia.
    - intros x Hx. apply in_map_iff in Hx. destruct Hx as (np & <- & Hnp).
      destruct (Hder np Hnp) as (_ & xp & depth & t & _ & Hin & _).
      apply in_map_iff. exists (np_xfp np, (xp, depth)). auto.
  Qed.

  (* ------------------------------------------------------------ binding of the hash commitments *)
  Definition collision (H : bytes -> bytes) : Prop := exists x y, x <> y /\ H x = H y.

  Lemma ser_cmd_push_inj a b x : ser_cmd (Push a) = Ok x -> ser_cmd (Push b) = Ok x -> a = b.
  Proof.
    unfold ser_cmd. intros Ha Hb.
    destruct (zlen a <=? 75) eqn:A1; destruct (zlen b <=? 75) eqn:B1;
      try apply Z.leb_le in A1; try apply Z.leb_le in B1;
      try apply Z.leb_gt in A1; try apply Z.leb_gt in B1.
    - apply Ok_inj in Ha, Hb. subst x. apply cons_inj in Hb. now destruct Hb.
    - destruct (zlen b <? 256); [|destruct (zlen b <=? 520); [|discriminate]];
        apply Ok_inj in Ha, Hb; subst x; apply cons_inj in Hb; destruct Hb as [Hb _]; lia.
    - destruct (zlen a <? 256); [|destruct (zlen a <=? 520); [|discriminate]];
        apply Ok_inj in Ha, Hb; subst x; apply cons_inj in Hb; destruct Hb as [Hb _]; lia.
    - destruct (zlen a <? 256); destruct (zlen b <? 256).
      + apply Ok_inj in Ha, Hb. subst x. apply cons_inj in Hb. destruct Hb as [_ Hb].
        apply cons_inj in Hb. now destruct Hb.
      + destruct (zlen b <=? 520); [|discriminate]. apply Ok_inj in Ha, Hb. subst x.
        apply cons_inj in Hb. destruct Hb as [Hb _]. discriminate.
      + destruct (zlen a <=? 520); [|discriminate]. apply Ok_inj in Ha, Hb. subst x.
        apply cons_inj in Hb. destruct Hb as [Hb _]. discriminate.
      + destruct (zlen a <=? 520); [|discriminate]. destruct (zlen b <=? 520); [|discriminate].
        apply Ok_inj in Ha, Hb. subst x. apply cons_inj in Hb. destruct Hb as [_ Hb].
        apply app_inj_len in Hb; [now destruct Hb|now rewrite !to_le_length].
  Qed.

  Lemma ser_p2wsh_inj h h' r : ser_cmds (p2wsh_script h) = Ok r -> ser_cmds (p2wsh_script h') = Ok r -> h = h'.
  Proof.
    unfold p2wsh_script. cbn [ser_cmds]. rewrite (ser_cmd_op 0) by lia. cbn [bind].
    destruct (ser_cmd (Push h)) as [x|] eqn:E; [|discriminate].
    destruct (ser_cmd (Push h')) as [x'|] eqn:E'; [|discriminate]. cbn [bind app].
    intros H H'. apply Ok_inj in H, H'. subst r. apply cons_inj in H'. destruct H' as [_ H'].
    rewrite !app_nil_r in H'. subst x'. exact (ser_cmd_push_inj h h' x E E').
  Qed.

  Lemma ser_p2wsh_head h r : ser_cmds (p2wsh_script h) = Ok r -> exists t, r = 0 :: t.
  Proof.
    unfold p2wsh_script. cbn [ser_cmds]. rewrite (ser_cmd_op 0) by lia. cbn [bind].
    destruct (ser_cmd (Push h)) as [x|]; [|discriminate]. cbn [bind app]. intros H. apply Ok_inj in H.
    subst r. eauto.
  Qed.

  Lemma ser_std_head m n sc ser : std_multisig m n sc -> ser_cmds sc = Ok ser -> exists t, ser = (80 + m) :: t /\ 1 <= m.
  Proof.
    intros (keys & -> & Hl & HF & Hm & Hn) E. rewrite ser_multisig_ok in E by (try assumption; lia).
    apply Ok_inj in E. subst ser. unfold ser_multisig. split with (x := ser_keys keys ++ [80 + n; 174]).
    split; [reflexivity|lia].
  Qed.

  Lemma bytes_eq_dec (a b : bytes) : {a = b} + {a <> b}.
  Proof. apply list_eq_dec, Z.eq_dec. Qed.

  Lemma hash_eq_cases (H : bytes -> bytes) a b : H a = H b -> a = b \/ collision H.
  Proof. intros E. destruct (bytes_eq_dec a b) as [->|N]; [now left|right; exists a, b; auto]. Qed.

  Lemma p2sh_inj h h' : p2sh_script h = p2sh_script h' -> h = h'.
  Proof. unfold p2sh_script. intros E. now injection E. Qed.
  Lemma p2wsh_inj h h' : p2wsh_script h = p2wsh_script h' -> h = h'.
  Proof. unfold p2wsh_script. intros E. now injection E. Qed.

  (* two standard multisig scripts to which the same scriptPubKey commits are the same script,
     or one of the two hash functions has a collision *)
  Lemma commits_binding o o' m n sc m' n' sc' :
    commits hash160 sha256 o sc -> commits hash160 sha256 o' sc' -> o_spk o = o_spk o' ->
    std_multisig m n sc -> std_multisig m' n' sc' ->
    sc = sc' \/ collision hash160 \/ collision sha256.
  Proof.
    intros (ser & Hser & Hc) (ser' & Hser' & Hc') Hspk Hstd Hstd'.
    assert (Same : ser = ser' -> sc = sc').
    { intros <-. exact (std_multisig_ser_inj _ _ _ _ _ _ _ Hstd Hstd' Hser Hser'). }
    destruct Hc as [(_ & _ & Hs)|[(_ & _ & Hs)|(_ & rser & _ & Hrser & Hs)]];
      destruct Hc' as [(_ & _ & Hs')|[(_ & _ & Hs')|(_ & rser' & _ & Hrser' & Hs')]];
      rewrite Hs, Hs' in Hspk; try discriminate Hspk.
    - apply p2sh_inj, hash_eq_cases in Hspk. destruct Hspk as [E|C]; auto.
    - apply p2sh_inj, hash_eq_cases in Hspk. destruct Hspk as [E|C]; auto. exfalso.
      destruct (ser_std_head _ _ _ _ Hstd Hser) as (t & -> & Hm).
      destruct (ser_p2wsh_head _ _ Hrser') as (t' & E'). rewrite E' in E.
      apply cons_inj in E. destruct E as [E _]. lia.
    - apply p2wsh_inj, hash_eq_cases in Hspk. destruct Hspk as [E|C]; auto.
    - apply p2sh_inj, hash_eq_cases in Hspk. destruct Hspk as [E|C]; auto. exfalso.
      destruct (ser_std_head _ _ _ _ Hstd' Hser') as (t & -> & Hm).
      destruct (ser_p2wsh_head _ _ Hrser) as (t' & E'). rewrite E' in E.
      apply cons_inj in E. destruct E as [E _]. lia.
    - apply p2sh_inj, hash_eq_cases in Hspk. destruct Hspk as [E|C]; auto. subst rser'.
      pose proof (ser_p2wsh_inj _ _ _ Hrser Hrser') as E. apply hash_eq_cases in E.
      destruct E as [E|C]; auto.
  Qed.

  Lemma in_commits_binding i i' spk m n sc m' n' sc' :
    in_commits hash160 sha256 i spk sc -> in_commits hash160 sha256 i' spk sc' ->
    std_multisig m n sc -> std_multisig m' n' sc' ->
    sc = sc' \/ collision hash160 \/ collision sha256.
  Proof.
    intros (ser & Hser & Hc) (ser' & Hser' & Hc') Hstd Hstd'.
    assert (Same : ser = ser' -> sc = sc').
    { intros <-. exact (std_multisig_ser_inj _ _ _ _ _ _ _ Hstd Hstd' Hser Hser'). }
    destruct Hc as [(_ & _ & _ & Hs)|(_ & _ & Hs)]; destruct Hc' as [(_ & _ & _ & Hs')|(_ & _ & Hs')];
      rewrite Hs in Hs'; try discriminate Hs'.
    - apply p2sh_inj, hash_eq_cases in Hs'. destruct Hs' as [E|C]; auto.
    - apply p2wsh_inj, hash_eq_cases in Hs'. destruct Hs' as [E|C]; auto.
  Qed.

  (* two summaries (possibly of different PSBTs, with different xpub maps) that label the SAME
     scriptPubKey as change evaluated the same script for it — or a hash collision is exhibited *)
  Theorem change_commitment_binding hm0 p s o hm0' p' s' o' :
    describe hm0 p = Ok s -> In o (p_outs p) -> is_change o = true ->
    describe hm0' p' = Ok s' -> In o' (p_outs p') -> is_change o' = true ->
    o_spk o = o_spk o' ->
    (exists sc, out_script o = Some sc /\ out_script o' = Some sc /\ std_multisig (s_m s) (s_n s) sc /\
                s_m s = s_m s' /\ s_n s = s_n s') \/
    collision hash160 \/ collision sha256.
  Proof.
    intros Hd Ho Hc Hd' Ho' Hc' Hspk.
    destruct (change_label_sound _ _ _ _ _ _ _ _ Hd Ho Hc)
      as (hm & sc & keys & _ & Hcom & Esc & Hlen & HFk & Hm & Hn16 & _).
    destruct (change_label_sound _ _ _ _ _ _ _ _ Hd' Ho' Hc')
      as (hm' & sc' & keys' & _ & Hcom' & Esc' & Hlen' & HFk' & Hm' & Hn16' & _).
    assert (Hstd : std_multisig (s_m s) (s_n s) sc) by (exists keys; repeat split; try assumption; lia).
    assert (Hstd' : std_multisig (s_m s') (s_n s') sc') by (exists keys'; repeat split; try assumption; lia).
    destruct (commits_binding _ _ _ _ _ _ _ _ Hcom Hcom' Hspk Hstd Hstd') as [E|C]; [|now right].
    left. rewrite <- E in Hstd', Hcom'. exists sc.
    destruct (std_multisig_unique _ _ _ _ _ Hstd Hstd') as [E1 E2].
    repeat split; try assumption.
    - exact (out_script_of _ _ _ _ Hcom).
    - exact (out_script_of _ _ _ _ Hcom').
  Qed.

  (* the same for inputs that show the same spent scriptPubKey *)
  Theorem input_commitment_binding hm0 p s i hm0' p' s' i' :
    describe hm0 p = Ok s -> In i (p_ins p) -> describe hm0' p' = Ok s' -> In i' (p_ins p') ->
    in_spk i = in_spk i' ->
    (exists sc, in_script i = Some sc /\ in_script i' = Some sc /\ std_multisig (s_m s) (s_n s) sc /\
                s_m s = s_m s' /\ s_n s = s_n s') \/
    collision hash160 \/ collision sha256.
  Proof.
    intros Hd Hi Hd' Hi' Heq.
    destruct (accepted_input_has_record _ _ _ _ _ _ _ _ Hd Hi) as (spk & Hspk & _).
    assert (Hspk' : in_spk i' = Ok (Some spk)) by (now rewrite <- Heq).
    destruct (accepted_input_sound _ _ _ _ _ _ _ _ Hd Hi) as (hm & sc & _ & _ & Hs & Hstd & _ & _ & Hcom & _).
    destruct (accepted_input_sound _ _ _ _ _ _ _ _ Hd' Hi') as (hm' & sc' & _ & _ & Hs' & Hstd' & _ & _ & Hcom' & _).
    destruct (Hcom spk Hspk) as [Hc _]. destruct (Hcom' spk Hspk') as [Hc' _].
    destruct (in_commits_binding _ _ _ _ _ _ _ _ _ Hc Hc' Hstd Hstd') as [E|C]; [|now right].
    left. rewrite <- E in Hstd', Hs'. exists sc.
    destruct (std_multisig_unique _ _ _ _ _ Hstd Hstd') as [E1 E2].
    repeat split; try assumption; now apply in_script_of.
  Qed.

  (* ------------------------------------------------------------ the amounts come from the UTXO records *)
  (* the amount shown by the attached UTXO records (PSBTIn.parse assigns it to tx_in._value) *)
  Definition shown_amount (i : pin) : option Z :=
    match i_prev_tx i with
    | Some pt => match nthz (pt_outs pt) (i_index i) with Some u => Some (u_amount u) | None => None end
    | None => match i_prev_out i with Some po => Some (u_amount po) | None => None end
    end.

  (* tx_in._value is the amount of one of the attached records, as PSBTIn.parse / update set it *)
  Definition value_from_records (i : pin) : Prop :=
    forall v, i_value i = Some v ->
      (exists pt u, i_prev_tx i = Some pt /\ nthz (pt_outs pt) (i_index i) = Some u /\ v = u_amount u) \/
      (exists po, i_prev_out i = Some po /\ v = u_amount po).

  Lemma value_is_shown hm0 p s i :
    describe hm0 p = Ok s -> In i (p_ins p) -> value_from_records i -> i_value i = shown_amount i.
  Proof.
    intros Hd Hi Hv.
    destruct (accepted_input_sound _ _ _ _ _ _ _ _ Hd Hi) as (hm & sc & _ & _ & _ & _ & _ & Hprev & _ & _ & _ & v & Ev).
    rewrite Ev. unfold shown_amount.
    destruct (Hv v Ev) as [(pt & u & Hpt & Hn & ->)|(po & Hpo & ->)].
    - now rewrite Hpt, Hn.
    - destruct (i_prev_tx i) as [pt|] eqn:Hpt; [|now rewrite Hpo].
      destruct (Hprev pt eq_refl) as (_ & u & Hn & Hboth). rewrite Hn.
      destruct (Hboth po Hpo) as [-> _]. reflexivity.
  Qed.

  Theorem fee_from_utxo_records hm0 p s :
    describe hm0 p = Ok s -> Forall value_from_records (p_ins p) ->
    exists vs, map shown_amount (p_ins p) = map Some vs /\
               s_total_in s = sumz vs /\ s_fee s = sumz vs - sumz (map o_amount (p_outs p)) /\
               s_spend s + s_change s + s_fee s = sumz vs.
  Proof.
    intros Hd HF. destruct (summary_arithmetic _ _ _ _ _ _ _ Hd) as (vs & Hvs & Hin & Hout & Hfee & Hsum & _).
    exists vs. repeat split; try lia; try assumption. rewrite <- Hvs. apply map_ext_in. intros i Hi. symmetry.
    rewrite Forall_forall in HF. exact (value_is_shown hm0 p s i Hd Hi (HF i Hi)).
  Qed.

  (* two summarised inputs that spend the same outpoint and carry the previous transaction show the
     same amount and scriptPubKey - or two different previous transactions have the same hash *)
  Lemma cmd_eq_dec (a b : cmd) : {a = b} + {a <> b}.
  Proof. decide equality; [apply Z.eq_dec|apply bytes_eq_dec]. Qed.
  Lemma utxo_eq_dec (a b : utxo) : {a = b} + {a <> b}.
  Proof. decide equality; [apply (list_eq_dec cmd_eq_dec)|apply Z.eq_dec]. Qed.

  Theorem input_utxo_binding hm0 p s i hm0' p' s' i' pt pt' :
    describe hm0 p = Ok s -> In i (p_ins p) -> describe hm0' p' = Ok s' -> In i' (p_ins p') ->
    i_txid i = i_txid i' -> i_index i = i_index i' ->
    i_prev_tx i = Some pt -> i_prev_tx i' = Some pt' ->
    (exists u, nthz (pt_outs pt) (i_index i) = Some u /\ nthz (pt_outs pt') (i_index i') = Some u /\
               shown_amount i = Some (u_amount u) /\ shown_amount i' = Some (u_amount u)) \/
    (pt_outs pt <> pt_outs pt' /\ pt_hash pt = pt_hash pt').
  Proof.
    intros Hd Hi Hd' Hi' Ht Hx Hpt Hpt'.
    destruct (accepted_input_sound _ _ _ _ _ _ _ _ Hd Hi) as (hm & sc & _ & _ & _ & _ & _ & Hprev & _).
    destruct (accepted_input_sound _ _ _ _ _ _ _ _ Hd' Hi') as (hm' & sc' & _ & _ & _ & _ & _ & Hprev' & _).
    destruct (Hprev pt Hpt) as (Hh & u & Hn & _). destruct (Hprev' pt' Hpt') as (Hh' & u' & Hn' & _).
    destruct (list_eq_dec utxo_eq_dec (pt_outs pt) (pt_outs pt')) as [E|N].
    - left. exists u. rewrite <- E, <- Hx in Hn'. rewrite Hn in Hn'. injection Hn' as <-.
      unfold shown_amount. rewrite Hpt, Hpt', <- E, <- Hx, Hn. auto.
    - right. split; [assumption|congruence].
  Qed.
End AnyMap.

(* ---------------------------------------------------------------- the decision procedure of Spec/PsbtHonest.v *)
From V Require Import Spec.PsbtHonest.

Lemma std_keys_sound m n sc keys : std_keys m n sc = Some keys -> std_multisig m n sc.
Proof.
  unfold std_keys. destruct sc as [|[o|b] r]; try discriminate.
  remember (Op o :: r) as sc eqn:Esc.
  destruct (pushes_of _) as [ks|]; [|discriminate].
  destruct (cmds_eqb sc _ && _ && _ && _ && _ && _) eqn:E; [|discriminate]. intros [= <-].
  repeat (apply andb_true_iff in E; destruct E as [E ?]).
  apply cmds_eqb_eq in E. apply Z.eqb_eq in H3. apply Z.leb_le in H, H0, H1.
  exists ks. unfold multisig_script in E. rewrite H3 in E. repeat split; try assumption.
  apply Forall_forall. intros k Hk. rewrite forallb_forall in H2. specialize (H2 k Hk).
  unfold key_len_ok in H2. apply orb_true_iff in H2. destruct H2 as [H2|H2]; apply Z.eqb_eq in H2; auto.
Qed.

Lemma nodup_b_sound l : nodup_b l = true -> NoDup l.
Proof.
  induction l as [|x r IH]; cbn [nodup_b]; intros H; [constructor|].
  apply andb_true_iff in H. destruct H as [H1 H2]. constructor; [|now apply IH].
  intros Hin. apply existsb_beq_in in Hin. rewrite Hin in H1. discriminate.
Qed.

Section HonestBP.
  Variable hash160 sha256 : bytes -> bytes.
  Variable xpub : Type.
  Variable derive : xpub -> list Z -> option bytes.

  Lemma shown_spk_sound i spk :
    shown_spk i = Some spk -> utxo_shows i spk.
  Proof.
    unfold shown_spk, utxo_shows. destruct (i_prev_tx i) as [pt|].
    - destruct (beq (i_txid i) (pt_hash pt)) eqn:E1; [|discriminate]. apply beq_eq in E1.
      destruct (nthz (pt_outs pt) (i_index i)) as [u|] eqn:E2; [|discriminate].
      intros H. left. exists pt, u.
      destruct (i_prev_out i) as [po|].
      + destruct ((u_amount po =? u_amount u) && cmds_eqb (u_spk po) (u_spk u)) eqn:E3; [|discriminate].
        injection H as <-. apply andb_true_iff in E3. destruct E3 as [E3 E4].
        apply Z.eqb_eq in E3. apply cmds_eqb_eq in E4.
        split; [reflexivity|]. split; [assumption|]. split; [assumption|]. split; [reflexivity|].
        intros po' [= <-]. auto.
      + injection H as <-. split; [reflexivity|]. split; [assumption|]. split; [assumption|].
        split; [reflexivity|]. intros po' [=].
    - destruct (i_prev_out i) as [po|]; [|discriminate]. intros [= <-]. right. split; [reflexivity|].
      exists po. auto.
  Qed.

  Lemma committed_in_sound i spk sc :
    committed_in hash160 sha256 i spk = Some sc -> in_commits hash160 sha256 i spk sc.
  Proof.
    unfold committed_in, in_commits.
    destruct (i_witness i) as [ws|], (i_redeem i) as [rs|]; try discriminate.
    - destruct (ser_cmds ws) as [ser|] eqn:Es; [|discriminate].
      destruct (cmds_eqb spk _) eqn:E; [|discriminate]. intros [= <-]. apply cmds_eqb_eq in E.
      exists ser. split; [assumption|]. right. auto.
    - destruct (ser_cmds rs) as [ser|] eqn:Es; [|discriminate].
      destruct (is_none (i_prev_out i) && cmds_eqb spk _) eqn:E; [|discriminate]. intros [= <-].
      apply andb_true_iff in E. destruct E as [E1 E2]. apply cmds_eqb_eq in E2.
      exists ser. split; [assumption|]. left. repeat split; try assumption.
      destruct (i_prev_out i); [discriminate|reflexivity].
  Qed.

  Lemma derives_b_sound hm np : derives_b xpub derive hm np = true -> derives_from xpub derive hm np.
  Proof.
    unfold derives_b, derives_from.
    destruct (lookup_xfp xpub hm (np_xfp np)) as [[xp depth]|] eqn:El; [|discriminate].
    destruct (ltrim (np_path np) depth) as [[|z t]|] eqn:Et; try discriminate.
    destruct (derive xp (z :: t)) as [s|] eqn:Ed; [|discriminate]. intros H. apply beq_eq in H. subst s.
    exists xp, depth, (z :: t). repeat split; try assumption; [now apply lookup_xfp_in|discriminate].
  Qed.

  Lemma pubs_ok_sound hm sc pubs :
    pubs_ok xpub derive hm sc pubs = true ->
    forall np, In np pubs -> In (Push (np_key np)) sc /\ derives_from xpub derive hm np.
  Proof.
    unfold pubs_ok. intros H np Hnp. rewrite forallb_forall in H. specialize (H np Hnp).
    apply andb_true_iff in H. destruct H as [H1 H2]. split; [now apply has_key_in|now apply derives_b_sound].
  Qed.

  Lemma honest_in_b_sound hm m n i :
    honest_in_b hash160 sha256 xpub derive hm m n i = true -> honest_in hash160 sha256 xpub derive hm m n i.
  Proof.
    unfold honest_in_b, honest_in.
    destruct (shown_spk i) as [spk|] eqn:E1; [|discriminate].
    destruct (committed_in hash160 sha256 i spk) as [sc|] eqn:E2; [|discriminate].
    intros H. apply andb_true_iff in H. destruct H as [H H3]. apply andb_true_iff in H. destruct H as [H1 H2].
    destruct (std_keys m n sc) as [keys|] eqn:Ek; [|discriminate]. apply Z.eqb_eq in H2.
    exists sc, spk. repeat split; try assumption.
    - now apply (std_keys_sound m n sc keys).
    - now apply shown_spk_sound.
    - now apply committed_in_sound.
    - now apply (pubs_ok_sound hm sc (i_pubs i) H3 np).
    - now apply (pubs_ok_sound hm sc (i_pubs i) H3 np).
  Qed.

  Lemma committed_out_sound o sc :
    committed_out hash160 sha256 o = Some sc -> commits hash160 sha256 o sc.
  Proof.
    unfold committed_out, commits.
    destruct (o_witness o) as [ws|], (o_redeem o) as [rs|]; try discriminate.
    - destruct (ser_cmds ws) as [ser|] eqn:Es; [|discriminate].
      destruct (ser_cmds (p2wsh_script (sha256 ser))) as [rser|] eqn:Er; [|discriminate].
      destruct (cmds_eqb rs _ && cmds_eqb (o_spk o) _) eqn:E; [|discriminate]. intros [= <-].
      apply andb_true_iff in E. destruct E as [E1 E2]. apply cmds_eqb_eq in E1, E2.
      exists ser. split; [assumption|]. right. right. split; [reflexivity|]. exists rser. subst rs. auto.
    - destruct (ser_cmds ws) as [ser|] eqn:Es; [|discriminate].
      destruct (cmds_eqb (o_spk o) _) eqn:E; [|discriminate]. intros [= <-]. apply cmds_eqb_eq in E.
      exists ser. split; [assumption|]. right. left. auto.
    - destruct (ser_cmds rs) as [ser|] eqn:Es; [|discriminate].
      destruct (cmds_eqb (o_spk o) _) eqn:E; [|discriminate]. intros [= <-]. apply cmds_eqb_eq in E.
      exists ser. split; [assumption|]. left. auto.
  Qed.

  Lemma honest_out_b_sound hm m n o :
    honest_out_b hash160 sha256 xpub derive hm m n o = true -> honest_out hash160 sha256 xpub derive hm m n o.
  Proof.
    unfold honest_out_b, honest_out. destruct (is_nil (o_pubs o)) eqn:En.
    - intros H. apply andb_true_iff in H. destruct H as [H H3]. apply andb_true_iff in H. destruct H as [H1 H2].
      left. unfold honest_spend. repeat split; try assumption.
      + destruct (o_pubs o); [reflexivity|discriminate].
      + destruct (o_redeem o); [discriminate|reflexivity].
      + destruct (o_witness o); [discriminate|reflexivity].
    - destruct (committed_out hash160 sha256 o) as [sc|] eqn:E2; [|discriminate].
      intros H. repeat (apply andb_true_iff in H; destruct H as [H ?]).
      destruct (std_keys m n sc) as [keys|] eqn:Ek; [|discriminate]. apply Z.eqb_eq in H2.
      right. exists sc. repeat split; try assumption.
      + now apply (std_keys_sound m n sc keys).
      + now apply committed_out_sound.
      + now apply nodup_b_sound.
      + now apply (pubs_ok_sound hm sc (o_pubs o) H0 np).
      + now apply (pubs_ok_sound hm sc (o_pubs o) H0 np).
  Qed.

  Lemma ancestors_b_sound hs np : ancestors_b xpub derive hs np = true -> ancestors_ok xpub derive hs np.
  Proof.
    unfold ancestors_b, ancestors_ok. intros H h Hh Hx Hp. rewrite forallb_forall in H. specialize (H h Hh).
    rewrite Hx, beq_refl, Hp in H. cbn [andb negb orb] in H.
    destruct (derive (h_xpub h) _) as [s|]; [|discriminate]. apply beq_eq in H. now subst.
  Qed.

  Lemma values_of_sound ins vs : values_of ins = Some vs -> map i_value ins = map Some vs.
  Proof.
    revert vs; induction ins as [|i r IH]; cbn [values_of]; intros vs H; [now injection H as <-|].
    destruct (i_value i) as [v|] eqn:Ev; [|discriminate]. destruct (values_of r) as [vs'|]; [|discriminate].
    injection H as <-. cbn [map]. rewrite Ev. f_equal. now apply IH.
  Qed.

  Hypothesis hash160_len : forall b, length (hash160 b) = 20%nat.
  Hypothesis sha256_len : forall b, length (sha256 b) = 32%nat.

  (* whatever the decision procedure accepts is summarised, with the quorum it was asked about and the
     fee computed from the input values *)
  Theorem honest_psbt_b_summarised hm0 (p : psbt xpub) m :
    honest_psbt_b hash160 sha256 xpub derive hm0 p m = true ->
    exists s vs, describe hash160 sha256 xpub derive hm0 p = Ok s /\
      map i_value (p_ins p) = map Some vs /\
      s_m s = m /\ s_n s = zlen (eff_map xpub hm0 p) /\
      s_fee s = sumz vs - sumz (map o_amount (p_outs p)) /\
      s_outs s = map (fun o => (o_amount o, is_change o)) (p_outs p) /\
      s_spend s + s_change s + s_fee s = sumz vs.
  Proof.
    unfold honest_psbt_b. fold (eff_map xpub hm0 p). set (hm := eff_map xpub hm0 p). intros H.
    destruct (values_of (p_ins p)) as [vs|] eqn:Ev; [|rewrite !andb_false_r in H; discriminate].
    repeat (apply andb_true_iff in H; destruct H as [H ?]).
    assert (Hne : hm <> []) by (destruct hm; [discriminate|discriminate]).
    assert (Hins : p_ins p <> []) by (destruct (p_ins p); [discriminate|discriminate]).
    assert (Heff : effective_map xpub hm0 p hm).
    { unfold hm, eff_map. destruct hm0; [right; auto|left; reflexivity]. }
    destruct (honest_psbt_summarised hash160 sha256 xpub derive hash160_len sha256_len
                hm0 p hm m (zlen hm) vs Heff Hne eq_refl Hins) as (s & Hs & HM & HN & Hfee & _ & _ & _ & Houts & _ & _ & Hsum).
    - apply Forall_forall. intros i Hi. rewrite forallb_forall in H4. now apply honest_in_b_sound, H4.
    - apply Forall_forall. intros o Ho. rewrite forallb_forall in H3. now apply honest_out_b_sound, H3.
    - apply Nat.leb_le. exact H2.
    - apply Forall_forall. intros np Hnp. rewrite forallb_forall in H1. now apply ancestors_b_sound, H1.
    - now apply values_of_sound.
    - apply negb_true_iff, Z.eqb_neq in H0. exact H0.
    - exists s, vs. repeat split; try assumption. now apply values_of_sound.
  Qed.
End HonestBP.

(* ---------------------------------------------------------------- an input WITHOUT any UTXO record *)
(* Before fix 786fa3c PSBTIn.validate had nothing to compare the attached script with when neither UTXO
   record is present and describe_basic_multisig summarised such a PSBT with the claimed script (the same
   outpoint once as an input of a 1-of-2 wallet, once of a 2-of-2 wallet).  The former witnesses of that
   refutation are now instances of no_utxo_record_rejected. *)
Definition nr_h (n : nat) (b : bytes) : bytes := firstn n (b ++ repeatz 0 n).
Definition nr_key (x a : Z) : bytes := 2 :: repeatz (x + 10 * a) 32.
Definition nr_derive (x : Z) (t : list Z) : option bytes :=
  match t with [a] => Some (nr_key x a) | _ => None end.
Definition nr_pub (x a : Z) : named_pub :=
  {| np_key := nr_key x a; np_sec := nr_key x a; np_xfp := [x]; np_path := [45; a] |}.
Definition nr_script (m a : Z) : list cmd := Op (80 + m) :: map Push [nr_key 1 a; nr_key 2 a] ++ [Op 82; Op 174].
Definition nr_in (m : Z) : pin :=
  {| i_txid := [7]; i_index := 0; i_prev_tx := None; i_prev_out := None; i_redeem := None;
     i_witness := Some (nr_script m 0); i_pubs := [nr_pub 1 0; nr_pub 2 0]; i_value := Some 9000 |}.
Definition nr_ser (cs : list cmd) : bytes := match ser_cmds cs with Ok s => s | Err => [] end.
Definition nr_chg (m : Z) : pout :=
  {| o_amount := 8000; o_spk := p2wsh_script (nr_h 32 (nr_ser (nr_script m 1)));
     o_redeem := None; o_witness := Some (nr_script m 1); o_pubs := [nr_pub 1 1; nr_pub 2 1] |}.
Definition nr_psbt (m : Z) : psbt Z := {| p_ins := [nr_in m]; p_outs := [nr_chg m]; p_hd_pubs := [] |}.
Definition nr_map : hdmap Z := [([1], (1, 1)); ([2], (2, 1))].

Lemma no_utxo_record_witnesses_rejected :
  describe (nr_h 20) (nr_h 32) Z nr_derive nr_map (nr_psbt 1) = Err /\
  describe (nr_h 20) (nr_h 32) Z nr_derive nr_map (nr_psbt 2) = Err /\
  i_prev_tx (nr_in 1) = None /\ i_prev_out (nr_in 1) = None /\
  validate_psbt (nr_h 20) (nr_h 32) Z nr_derive (nr_psbt 1) = Ok tt.
Proof. repeat split; vm_compute; reflexivity. Qed.
