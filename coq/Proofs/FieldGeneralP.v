(* Proofs/FieldGeneralP.v — the FieldElement model operations form a field for EVERY prime p
   (no bound: the exhaustive sweeps of Proofs/SmallFields*.v cover p <= 101 only), and
   FieldElement.__pow__ is the power function: a ** e = a^e mod p for e >= 0, and for e < 0 the
   inverse of a ** (-e) (exponent reduced mod p-1, Fermat). *)
From Coq Require Import ZArith Znumtheory Zpow_facts Lia Field Setoid Morphisms.
From V Require Import Base.Prelude Base.Ints Base.Fermat Model.Pecc Proofs.GroupHyp Proofs.CurveSweep
  Proofs.SmallFields Proofs.CurveGeneral.
Open Scope Z_scope.

Section Field.
Variable C : curve.
Let p := cp C.
Hypothesis Hp : prime p.

Local Notation "a == b" := (eqp p a b) (at level 70).
Local Instance eqp_equiv3 : Equivalence (eqp p) := eqp_equiv p.
Local Instance add_m3 : Proper (eqp p ==> eqp p ==> eqp p) Z.add := add_m p.
Local Instance mul_m3 : Proper (eqp p ==> eqp p ==> eqp p) Z.mul := mul_m p.
Local Instance sub_m3 : Proper (eqp p ==> eqp p ==> eqp p) Z.sub := sub_m p.
Local Instance opp_m3 : Proper (eqp p ==> eqp p) Z.opp := opp_m p.
Local Instance inv_m3 : Proper (eqp p ==> eqp p) (inv p) := inv_m p Hp.
Local Instance div_m3 : Proper (eqp p ==> eqp p ==> eqp p) (div p) := div_m p Hp.
Add Field Fpf3 : (Fp_field p Hp).

Lemma fp_pos : 0 < p. Proof. pose proof (prime_ge_2 _ Hp). lia. Qed.

Lemma red a : a mod p == a. Proof. apply (eqp_mod p Hp). Qed.

Lemma frange a : 0 <= a mod p < p. Proof. apply Z.mod_pos_bound, fp_pos. Qed.

Lemma finv_range a : 0 <= finv C a < p.
Proof. unfold finv. fold p. pose proof (prime_ge_2 _ Hp). apply modpow_range; lia. Qed.

Theorem fadd_comm a b : fadd C a b = fadd C b a.
Proof. unfold fadd. f_equal. apply Z.add_comm. Qed.
Theorem fmul_comm a b : fmul C a b = fmul C b a.
Proof. unfold fmul. f_equal. apply Z.mul_comm. Qed.
Theorem fadd_assoc a b c : fadd C (fadd C a b) c = fadd C a (fadd C b c).
Proof. unfold fadd. fold p. change ((a + b) mod p + c == a + (b + c) mod p). rewrite !red. ring. Qed.
Theorem fmul_assoc a b c : fmul C (fmul C a b) c = fmul C a (fmul C b c).
Proof. unfold fmul. fold p. change ((a * b) mod p * c == a * ((b * c) mod p)). rewrite !red. ring. Qed.
Theorem fmul_distr a b c : fmul C a (fadd C b c) = fadd C (fmul C a b) (fmul C a c).
Proof.
  unfold fmul, fadd. fold p. change (a * ((b + c) mod p) == (a * b) mod p + (a * c) mod p).
  rewrite !red. ring.
Qed.
Theorem fadd_0_r a : 0 <= a < p -> fadd C a 0 = a.
Proof. intros H. unfold fadd. fold p. rewrite Z.add_0_r. now apply Z.mod_small. Qed.
Theorem fmul_1_r a : 0 <= a < p -> fmul C a 1 = a.
Proof. intros H. unfold fmul. fold p. rewrite Z.mul_1_r. now apply Z.mod_small. Qed.
Theorem fadd_neg a : fadd C a (fsub C 0 a) = 0.
Proof.
  unfold fadd, fsub. fold p. rewrite <- (Z.mod_0_l p) by (pose proof fp_pos; lia).
  change (a + (0 - a) mod p == 0). rewrite red. ring.
Qed.
Theorem fsub_is_add_neg a b : fsub C a b = fadd C a (fsub C 0 b).
Proof. unfold fadd, fsub. fold p. change (a - b == a + (0 - b) mod p). rewrite red. ring. Qed.
Theorem fmul_finv a : 0 < a < p -> fmul C a (finv C a) = 1.
Proof. intros H. unfold fmul, finv. fold p. now apply fermat_inv_range. Qed.
Theorem fdiv_is_mul_inv a b : fdiv C a b = fmul C a (finv C b).
Proof. reflexivity. Qed.
(* division undoes multiplication *)
Theorem fdiv_fmul a b : 0 <= a < p -> 0 < b < p -> fdiv C (fmul C a b) b = a.
Proof.
  intros Ha Hb. rewrite fdiv_is_mul_inv, fmul_assoc, (fmul_finv b Hb). now apply fmul_1_r.
Qed.

(* FieldElement.__pow__ *)
Theorem fpow_nonneg a e : 0 <= e -> fpow C a e = (a ^ e) mod p.
Proof.
  intros He. unfold fpow. fold p. apply Z.leb_le in He. rewrite He. apply Z.leb_le in He.
  apply modpow_spec; [assumption|apply fp_pos].
Qed.

Lemma pow_pm1_mult a t : a mod p <> 0 -> 0 <= t -> (a ^ ((p - 1) * t)) mod p = 1.
Proof.
  intros Ha Ht. pose proof (prime_ge_2 _ Hp) as H2.
  rewrite Z.pow_mul_r by lia. rewrite Zpower_mod by lia. rewrite (fermat_little p a Hp Ha).
  rewrite Z.pow_1_l by lia. apply Z.mod_1_l. lia.
Qed.

(* a negative exponent gives the inverse of the positive power *)
Theorem fpow_negative a e : a mod p <> 0 -> e < 0 -> fmul C (fpow C a e) (fpow C a (- e)) = 1.
Proof.
  intros Ha He. pose proof (prime_ge_2 _ Hp) as H2.
  rewrite (fpow_nonneg a (- e)) by lia. unfold fpow. fold p.
  destruct (0 <=? e) eqn:E; [apply Z.leb_le in E; lia|].
  assert (Hm : 0 <= e mod (p - 1)).
  { destruct (Z.eq_dec p 2) as [->|]; [change (2 - 1) with 1; rewrite Z.mod_1_r; lia|].
    apply Z.mod_pos_bound. lia. }
  rewrite modpow_spec by (assumption || lia). unfold fmul. fold p.
  rewrite <- Zmult_mod. rewrite <- Z.pow_add_r by lia.
  assert (Ht : exists t, 0 <= t /\ e mod (p - 1) + - e = (p - 1) * t).
  { exists (- (e / (p - 1))). pose proof (Z.div_mod e (p - 1) ltac:(lia)) as D.
    split; [|lia]. assert (e / (p - 1) <= 0); [|lia].
    apply Z.div_le_upper_bound; lia. }
  destruct Ht as (t & Ht & ->). now apply pow_pm1_mult.
Qed.

End Field.

(* every prime field, no bound *)
Theorem field_axioms_all p : prime p -> field_laws p /\ pow_small_ok p.
Proof.
  intros Hp. set (C := fcurve p). assert (Hp' : prime (cp C)) by exact Hp.
  split.
  - intros a b c Ha Hb Hc. fold C.
    split; [repeat split; try apply (frange C Hp'); try apply (finv_range C Hp')|].
    split; [apply fadd_comm|]. split; [apply fmul_comm|]. split; [apply (fadd_assoc C Hp')|].
    split; [apply (fmul_assoc C Hp')|]. split; [apply (fmul_distr C Hp')|].
    split; [now apply fadd_0_r|]. split; [now apply fmul_1_r|]. split; [apply (fadd_neg C Hp')|].
    split; [apply (fsub_is_add_neg C Hp')|]. split; [|reflexivity].
    intros Ha0. apply (fmul_finv C Hp'). cbn [cp C fcurve]. lia.
  - intros a Ha. fold C. split; [apply fpow_2|apply fpow_3].
Qed.
