(* Proofs/SiphashP.v — the fused, partially masked _doublesipround of siphash.py equals two
   standard SipRounds (with the message word xored into v3 before and v0 after) on 64-bit
   words; SipHash_2_4.update/hash over any chunking equals SipHash-2-4 of the concatenation. *)
From V Require Import Base.Prelude Base.Ints Model.Siphash Proofs.HelperP.
From V Require Import Spec.Siphash.

Definition in64 (x : Z) : Prop := 0 <= x < W64.
Definition R (x : Z) : Z := x mod W64.

Lemma W64_pow : W64 = 2 ^ 64. Proof. reflexivity. Qed.

Lemma R_in64 a : in64 (R a).
Proof. unfold R, in64. apply Z.mod_pos_bound. reflexivity. Qed.

Lemma R_small a : in64 a -> R a = a.
Proof. intros H. unfold R. now apply Z.mod_small. Qed.

Lemma R_land a : R a = Z.land a (Z.ones 64).
Proof. rewrite Z.land_ones by lia. reflexivity. Qed.

Lemma land_M64 a : Z.land a M64 = R a.
Proof. change M64 with (Z.ones 64). now rewrite R_land. Qed.

Lemma R_lxor a b : R (Z.lxor a b) = Z.lxor (R a) (R b).
Proof.
  rewrite !R_land. apply Z.bits_inj'. intros n Hn.
  rewrite !Z.land_spec, !Z.lxor_spec, !Z.land_spec.
  destruct (Z.testbit (Z.ones 64) n), (Z.testbit a n), (Z.testbit b n); reflexivity.
Qed.

Lemma R_lor a b : R (Z.lor a b) = Z.lor (R a) (R b).
Proof.
  rewrite !R_land. apply Z.bits_inj'. intros n Hn.
  rewrite !Z.land_spec, !Z.lor_spec, !Z.land_spec.
  destruct (Z.testbit (Z.ones 64) n), (Z.testbit a n), (Z.testbit b n); reflexivity.
Qed.

Lemma R_add_l a c : R (a + c) = R (R a + c).
Proof. unfold R. now rewrite Z.add_mod_idemp_l by discriminate. Qed.

Lemma R_add_r a c : R (a + c) = R (a + R c).
Proof. unfold R. now rewrite Z.add_mod_idemp_r by discriminate. Qed.

Lemma in64_lxor a b : in64 a -> in64 b -> in64 (Z.lxor a b).
Proof. intros Ha Hb. rewrite <- (R_small a Ha), <- (R_small b Hb), <- R_lxor. apply R_in64. Qed.

Lemma in64_lor a b : in64 a -> in64 b -> in64 (Z.lor a b).
Proof. intros Ha Hb. rewrite <- (R_small a Ha), <- (R_small b Hb), <- R_lor. apply R_in64. Qed.

Lemma in64_shiftr a n : 0 <= n -> in64 a -> in64 (Z.shiftr a n).
Proof.
  intros Hn [H0 H1]. unfold in64. rewrite Z.shiftr_div_pow2 by assumption.
  pose proof (Z.pow_pos_nonneg 2 n ltac:(lia) Hn) as Hp. split.
  - apply Z.div_pos; lia.
  - apply Z.le_lt_trans with a; [|lia]. apply Z.div_le_upper_bound; [lia|]. nia.
Qed.

Lemma in64_rotl x n : 0 <= 64 - n -> in64 x -> in64 (rotl64 x n).
Proof.
  intros Hn Hx. unfold rotl64. apply in64_lor; [apply R_in64 | now apply in64_shiftr].
Qed.

Lemma in64_add64 a b : in64 (add64 a b).
Proof. apply R_in64. Qed.

(* (x << n) | (x >> (64-n)), reduced later by a mask *)
Lemma urot x n : 0 <= n -> 0 <= 64 - n -> in64 x ->
  R (Z.lor (Z.shiftl x n) (Z.shiftr x (64 - n))) = rotl64 x n.
Proof.
  intros H1 H2 Hx. rewrite R_lor. unfold rotl64. f_equal. apply R_small. now apply in64_shiftr.
Qed.

(* ((x & (2^k - 1)) << n) | (x >> k) with k + n = 64 is the exact rotation *)
Lemma mrot x n k : 0 <= n -> 0 <= k -> k + n = 64 -> in64 x ->
  Z.lor (Z.shiftl (Z.land x (Z.ones k)) n) (Z.shiftr x k) = rotl64 x n.
Proof.
  intros Hn Hk E Hx. unfold rotl64. replace (64 - n) with k by lia. f_equal.
  rewrite Z.land_ones by assumption. rewrite !Z.shiftl_mul_pow2 by assumption.
  rewrite W64_pow, <- E, Z.pow_add_r by assumption.
  rewrite Z.mul_mod_distr_r; try reflexivity; apply Z.pow_nonzero; lia.
Qed.

Lemma mrot13 x : in64 x -> Z.lor (Z.shiftl (Z.land x M51) 13) (Z.shiftr x 51) = rotl64 x 13.
Proof. intros H. change M51 with (Z.ones 51). apply mrot; try lia; assumption. Qed.
Lemma mrot17 x : in64 x -> Z.lor (Z.shiftl (Z.land x M47) 17) (Z.shiftr x 47) = rotl64 x 17.
Proof. intros H. change M47 with (Z.ones 47). apply mrot; try lia; assumption. Qed.
Lemma mrot21 x : in64 x -> Z.lor (Z.shiftl (Z.land x M43) 21) (Z.shiftr x 43) = rotl64 x 21.
Proof. intros H. change M43 with (Z.ones 43). apply mrot; try lia; assumption. Qed.
Lemma mrot32 x : in64 x -> Z.lor (Z.shiftl (Z.land x M32) 32) (Z.shiftr x 32) = rotl64 x 32.
Proof. intros H. change M32 with (Z.ones 32). apply mrot; try lia; assumption. Qed.

Lemma urot16 x : in64 x -> R (Z.lor (Z.shiftl x 16) (Z.shiftr x 48)) = rotl64 x 16.
Proof. intros H. change 48 with (64 - 16). apply urot; try lia; assumption. Qed.
Lemma urot21 x : in64 x -> R (Z.lor (Z.shiftl x 21) (Z.shiftr x 43)) = rotl64 x 21.
Proof. intros H. change 43 with (64 - 21). apply urot; try lia; assumption. Qed.
Lemma urot32 x : in64 x -> R (Z.lor (Z.shiftl x 32) (Z.shiftr x 32)) = rotl64 x 32.
Proof. intros H. change 32 with (64 - 32) at 2. apply urot; try lia; assumption. Qed.

Definition in64s (v : word4) : Prop :=
  let '(a, b, c, d) := v in in64 a /\ in64 b /\ in64 c /\ in64 d.

Ltac name_let :=
  match goal with
  | |- (let x := ?v in @?body x) = ?rhs =>
      let y := fresh x in pose (y := v); let g := eval cbv beta in (body y = rhs) in change g
  end.

Ltac i64 :=
  repeat first [ assumption | apply R_in64 | apply in64_add64 | apply in64_lxor
               | apply in64_rotl; [lia|] ].

(* the fused double round = xor m into v3, two SipRounds, xor m into v0 *)
Lemma doublesipround_spec a b c d m :
  in64 a -> in64 b -> in64 c -> in64 d -> in64 m ->
  doublesipround (a, b, c, d) m = compress (a, b, c, d) m.
Proof.
  intros Ha Hb Hc Hd Hm. cbv beta iota delta [doublesipround].
  do 15 name_let.
  assert (Id : in64 d0) by (unfold d0; i64).
  assert (He : e = add64 a b) by (unfold e; apply land_M64).
  assert (Ie : in64 e) by (rewrite He; i64). clearbody e.
  assert (Hi : i = Z.lxor (rotl64 b 13) e) by (unfold i; now rewrite mrot13).
  assert (Ii : in64 i) by (rewrite Hi; i64). clearbody i.
  assert (Hf : R f = add64 c d0) by reflexivity.
  assert (Hj : j = Z.lxor (rotl64 d0 16) (add64 c d0))
    by (unfold j; now rewrite land_M64, R_lxor, urot16, Hf).
  assert (Ij : in64 j) by (rewrite Hj; i64). clearbody j.
  assert (Hh : h = add64 (add64 c d0) i) by (unfold h; rewrite land_M64, R_add_l, Hf; reflexivity).
  assert (Ih : in64 h) by (rewrite Hh; i64). clearbody h.
  assert (Hk : R k = add64 (rotl64 e 32) j) by (unfold k; rewrite R_add_l, urot32 by assumption; reflexivity).
  assert (Hl : l = Z.lxor (rotl64 i 17) h) by (unfold l; now rewrite mrot17).
  assert (Il : in64 l) by (rewrite Hl; i64). clearbody l.
  assert (Ho : o = Z.lxor (rotl64 j 21) (add64 (rotl64 e 32) j))
    by (unfold o; now rewrite land_M64, R_lxor, urot21, Hk).
  assert (Io : in64 o) by (rewrite Ho; i64). clearbody o.
  assert (Hp : p = add64 (add64 (rotl64 e 32) j) l) by (unfold p; rewrite land_M64, R_add_l, Hk; reflexivity).
  assert (Ip : in64 p) by (rewrite Hp; i64). clearbody p.
  assert (Hq : q = Z.lxor (rotl64 l 13) p) by (unfold q; now rewrite mrot13).
  assert (Iq : in64 q) by (rewrite Hq; i64). clearbody q.
  assert (Hr : R r = add64 (rotl64 h 32) o) by (unfold r; rewrite R_add_l, urot32 by assumption; reflexivity).
  assert (Hs : s = Z.lxor (rotl64 o 16) (add64 (rotl64 h 32) o))
    by (unfold s; now rewrite land_M64, R_lxor, urot16, Hr).
  assert (Is : in64 s) by (rewrite Hs; i64). clearbody s.
  assert (Ht : t = add64 (add64 (rotl64 h 32) o) q) by (unfold t; rewrite land_M64, R_add_l, Hr; reflexivity).
  assert (It : in64 t) by (rewrite Ht; i64). clearbody t.
  assert (Hu : u = add64 (rotl64 p 32) s) by (unfold u; rewrite land_M64, R_add_l, urot32 by assumption; reflexivity).
  clearbody u. clear Hf Hk Hr. clearbody f k r.
  rewrite mrot17, mrot32, mrot21 by assumption.
  unfold compress, sipround. fold d0.
  subst u t s q p o l h j i e. reflexivity.
Qed.

Lemma sipround_in64 v : in64s v -> in64s (sipround v).
Proof.
  destruct v as [[[a b] c] d]. intros [Ha [Hb [Hc Hd]]]. unfold sipround, in64s.
  (split; [|split; [|split]]); i64.
Qed.

Lemma compress_in64 v m : in64s v -> in64 m -> in64s (compress v m).
Proof.
  destruct v as [[[a b] c] d]. intros [Ha [Hb [Hc Hd]]] Hm. unfold compress.
  pose proof (sipround_in64 (sipround (a, b, c, Z.lxor d m))) as H.
  destruct (sipround (sipround (a, b, c, Z.lxor d m))) as [[[w0 w1] w2] w3].
  destruct H as [H0 [H1 [H2 H3]]].
  - apply sipround_in64. cbv beta iota delta [in64s]. (split; [|split; [|split]]); i64.
  - cbv beta iota delta [in64s]. (split; [|split; [|split]]); i64.
Qed.

Lemma doublesipround_spec' v m : in64s v -> in64 m -> doublesipround v m = compress v m.
Proof. destruct v as [[[a b] c] d]. intros [Ha [Hb [Hc Hd]]] Hm. now apply doublesipround_spec. Qed.

(* ------------------------------------------------------------------ *)
(* update / hash over any chunking = SipHash-2-4 of the concatenation *)

From V Require Import Proofs.MurmurP.   (* lor_shiftl_add *)

Fixpoint sblocks (n : nat) (v : word4) (s : bytes) : word4 * bytes :=
  match n with
  | O => (v, s)
  | S k => sblocks k (compress v (from_le (firstn 8 s))) (skipn 8 s)
  end.

Lemma pow256_le a b : (a <= b)%nat -> pow256 a <= pow256 b.
Proof. intros H. unfold pow256. apply Z.pow_le_mono_r; lia. Qed.

Lemma from_le_firstn8_in64 s : bytes_ok s -> in64 (from_le (firstn 8 s)).
Proof.
  intros H. pose proof (from_le_bound (firstn 8 s) (bytes_ok_firstn 8 s H)) as B.
  pose proof (pow256_le (length (firstn 8 s)) 8 ltac:(rewrite firstn_length; lia)) as L.
  rewrite pow256_8 in L. unfold in64, W64. lia.
Qed.

Lemma sip_blocks_eq n : forall v s, in64s v -> bytes_ok s -> sip_blocks n v s = sblocks n v s.
Proof.
  induction n as [|n IH]; intros v s Hv Hs; [reflexivity|].
  cbn [sip_blocks sblocks].
  rewrite doublesipround_spec' by (try assumption; now apply from_le_firstn8_in64).
  apply IH; [apply compress_in64; [assumption|now apply from_le_firstn8_in64] | now apply bytes_ok_skipn].
Qed.

Lemma sblocks_in64 n : forall v s, in64s v -> bytes_ok s -> in64s (fst (sblocks n v s)).
Proof.
  induction n as [|n IH]; intros v s Hv Hs; [assumption|].
  cbn [sblocks]. apply IH; [apply compress_in64; [assumption|now apply from_le_firstn8_in64] | now apply bytes_ok_skipn].
Qed.

Lemma skipn_add {A} b : forall a (l : list A), skipn a (skipn b l) = skipn (b + a) l.
Proof.
  induction b as [|b IH]; intros a l; [reflexivity|].
  destruct l as [|x l]; cbn [skipn Nat.add]; [now rewrite skipn_nil | apply IH].
Qed.

Lemma sblocks_snd n : forall v s, snd (sblocks n v s) = skipn (8 * n) s.
Proof.
  induction n as [|n IH]; intros v s; [reflexivity|].
  cbn [sblocks]. rewrite IH, skipn_add. f_equal. lia.
Qed.

Lemma sblocks_add n : forall k v s,
  sblocks (n + k) v s = sblocks k (fst (sblocks n v s)) (snd (sblocks n v s)).
Proof. induction n as [|n IH]; intros k v s; [reflexivity|]. cbn [Nat.add sblocks]. apply IH. Qed.

Lemma sblocks_app n : forall v a c, (8 * n <= length a)%nat ->
  sblocks n v (a ++ c) = (fst (sblocks n v a), snd (sblocks n v a) ++ c).
Proof.
  induction n as [|n IH]; intros v a c H; [reflexivity|].
  cbn [sblocks].
  assert (E1 : firstn 8 (a ++ c) = firstn 8 a).
  { rewrite firstn_app. replace (8 - length a)%nat with 0%nat by lia. cbn. apply app_nil_r. }
  assert (E2 : skipn 8 (a ++ c) = skipn 8 a ++ c).
  { rewrite skipn_app. replace (8 - length a)%nat with 0%nat by lia. reflexivity. }
  rewrite E1, E2. apply IH. rewrite skipn_length. lia.
Qed.

Lemma absorb_sblocks n : forall v msg total,
  sip_absorb n v msg total =
  compress (fst (sblocks n v msg)) (from_le (snd (sblocks n v msg)) + (total mod 256) * 72057594037927936).
Proof. induction n as [|n IH]; intros v msg total; [reflexivity|]. cbn [sip_absorb sblocks]. apply IH. Qed.

Definition sip_inv (v0 : word4) (st : sip) (msg : bytes) : Prop :=
  exists n, (8 * n <= length msg)%nat /\ (length msg < 8 * n + 8)%nat /\
    sip_v st = fst (sblocks n v0 msg) /\ sip_s st = skipn (8 * n) msg /\ sip_b st = Z.of_nat (8 * n).

Lemma update_inv v0 st msg c :
  in64s v0 -> bytes_ok msg -> bytes_ok c ->
  sip_inv v0 st msg -> sip_inv v0 (sip_update st c) (msg ++ c).
Proof.
  intros Hv Hm Hc [n [L1 [L2 [Ev [Es Eb]]]]].
  unfold sip_update. rewrite Es, Ev.
  set (s' := skipn (8 * n) msg ++ c). set (k := Nat.div (length s') 8).
  assert (Hs' : bytes_ok s') by (apply bytes_ok_app; split; [now apply bytes_ok_skipn|assumption]).
  rewrite sip_blocks_eq by (try assumption; now apply sblocks_in64).
  assert (Ls : length s' = (length msg - 8 * n + length c)%nat)
    by (unfold s'; now rewrite app_length, skipn_length).
  pose proof (Nat.div_mod (length s') 8 ltac:(lia)) as Hd. fold k in Hd.
  pose proof (Nat.mod_upper_bound (length s') 8 ltac:(lia)) as Hb.
  assert (E : sblocks (n + k) v0 (msg ++ c) = sblocks k (fst (sblocks n v0 msg)) s').
  { rewrite sblocks_add, sblocks_app by assumption. cbn [fst snd]. now rewrite sblocks_snd. }
  destruct (sblocks k (fst (sblocks n v0 msg)) s') as [v tl] eqn:Ek.
  exists (n + k)%nat. cbn [sip_v sip_s sip_b]. rewrite app_length.
  repeat split; try lia.
  - now rewrite E.
  - rewrite <- sblocks_snd with (v := v0). now rewrite E.
Qed.

Lemma fold_update_inv v0 chunks : forall st msg,
  in64s v0 -> bytes_ok msg -> Forall bytes_ok chunks ->
  sip_inv v0 st msg -> sip_inv v0 (fold_left sip_update chunks st) (msg ++ concat chunks).
Proof.
  induction chunks as [|c r IH]; intros st msg Hv Hm Hc Hi.
  - cbn. now rewrite app_nil_r.
  - inversion Hc as [|? ? Hc1 Hc2]; subst. cbn [fold_left concat]. rewrite app_assoc.
    apply IH; try assumption.
    + apply bytes_ok_app. now split.
    + now apply update_inv.
Qed.

Lemma key_init_eq key : length key = 16%nat ->
  sip_init key = Ok {| sip_v := sip_key_init key; sip_s := []; sip_b := 0 |}.
Proof.
  intros L. unfold sip_init. rewrite L. change (Nat.eqb 16 16) with true. cbv iota.
  unfold sip_key_init.
  rewrite (firstn_all2 (n := 8) (skipn 8 key)) by (rewrite skipn_length; lia).
  now rewrite !(Z.lxor_comm (from_le _)).
Qed.

Lemma key_init_in64 key : bytes_ok key -> in64s (sip_key_init key).
Proof.
  intros H. unfold sip_key_init, in64s.
  assert (H0 : in64 (from_le (firstn 8 key))) by now apply from_le_firstn8_in64.
  assert (H1 : in64 (from_le (firstn 8 (skipn 8 key)))) by (apply from_le_firstn8_in64; now apply bytes_ok_skipn).
  (split; [|split; [|split]]); apply in64_lxor; try assumption; unfold in64, W64; lia.
Qed.

Lemma from_le_app a b : from_le (a ++ b) = from_le a + pow256 (length a) * from_le b.
Proof.
  induction a as [|x a IH]; cbn [app from_le length].
  - change (pow256 0) with 1. lia.
  - rewrite IH, pow256_S. lia.
Qed.

Lemma from_le_zeros l : (forall x, In x l -> x = 0) -> from_le l = 0.
Proof.
  induction l as [|x l IH]; intros H; [reflexivity|]. cbn [from_le].
  rewrite (H x (or_introl eq_refl)), IH; [reflexivity|]. intros y Hy. apply H. now right.
Qed.

Lemma in_repeatz x y n : In y (repeatz x n) -> y = x.
Proof. induction n; cbn; [contradiction|]. intros [H|H]; auto. Qed.

Lemma from_le_pad s : (length s < 8)%nat -> from_le (firstn 8 (s ++ repeatz 0 8)) = from_le s.
Proof.
  intros H. rewrite firstn_app, (firstn_all2 (n := 8) s) by lia. rewrite from_le_app.
  rewrite (from_le_zeros (firstn (8 - length s) (repeatz 0 8))); [lia|].
  intros x Hx. apply (in_repeatz 0 x 8).
  rewrite <- (firstn_skipn (8 - length s) (repeatz 0 8)). apply in_or_app. now left.
Qed.

Lemma compress_0 v : compress v 0 = sipround (sipround v).
Proof.
  destruct v as [[[a b] c] d]. unfold compress. rewrite Z.lxor_0_r.
  destruct (sipround (sipround (a, b, c, d))) as [[[w0 w1] w2] w3]. now rewrite Z.lxor_0_r.
Qed.

Lemma final_block_in64 s total : bytes_ok s -> (length s < 8)%nat ->
  0 <= from_le s < 72057594037927936 /\
  in64 (from_le s + (total mod 256) * 72057594037927936).
Proof.
  intros Hs Hl. pose proof (from_le_bound s Hs) as B.
  pose proof (pow256_le (length s) 7 ltac:(lia)) as L. change (pow256 7) with 72057594037927936 in L.
  pose proof (Z.mod_pos_bound total 256 ltac:(lia)) as M.
  split; [lia|]. unfold in64, W64. lia.
Qed.

Lemma hash_spec v0 st msg :
  in64s v0 -> bytes_ok msg -> sip_inv v0 st msg ->
  sip_hash st =
  (let '(a, b, c, d) := sip_absorb (Nat.div (length msg) 8) v0 msg (zlen msg) in
   let '(w0, w1, w2, w3) := sipround (sipround (sipround (sipround (a, b, Z.lxor c 255, d)))) in
   Z.lxor (Z.lxor (Z.lxor w0 w1) w2) w3).
Proof.
  intros Hv Hm [n [L1 [L2 [Ev [Es Eb]]]]].
  assert (En : Nat.div (length msg) 8 = n).
  { symmetry. apply (Nat.div_unique _ 8 n (length msg - 8 * n)); lia. }
  rewrite En, absorb_sblocks, sblocks_snd, <- Ev, <- Es.
  assert (Ls : (length (sip_s st) < 8)%nat) by (rewrite Es, skipn_length; lia).
  assert (Hs : bytes_ok (sip_s st)) by (rewrite Es; now apply bytes_ok_skipn).
  assert (Hvs : in64s (sip_v st)) by (rewrite Ev; now apply sblocks_in64).
  destruct (final_block_in64 (sip_s st) (zlen msg) Hs Ls) as [By Bb].
  unfold sip_hash.
  assert (Eblk : Z.lor (Z.shiftl (Z.land (sip_b st + zlen (sip_s st)) 255) 56)
                       (from_le (firstn 8 (sip_s st ++ repeatz 0 8)))
                 = from_le (sip_s st) + (zlen msg mod 256) * 72057594037927936).
  { rewrite from_le_pad by assumption.
    replace (sip_b st + zlen (sip_s st)) with (zlen msg)
      by (rewrite Eb, Es; unfold zlen; rewrite skipn_length; lia).
    change 255 with (Z.ones 8). rewrite Z.land_ones by lia. change (2 ^ 8) with 256.
    rewrite Z.lor_comm. rewrite lor_shiftl_add by (change (2 ^ 56) with 72057594037927936; lia).
    reflexivity. }
  rewrite Eblk. rewrite doublesipround_spec' by assumption.
  pose proof (compress_in64 (sip_v st) _ Hvs Bb) as Hc.
  destruct (compress (sip_v st) (from_le (sip_s st) + zlen msg mod 256 * 72057594037927936))
    as [[[a b] c] d].
  destruct Hc as [Ha [Hb [Hc Hd]]].
  assert (H1 : in64s (a, b, Z.lxor c 255, d)).
  { cbv beta iota delta [in64s]. (split; [|split; [|split]]); try assumption.
    apply in64_lxor; [assumption|]. unfold in64, W64. lia. }
  assert (H0 : in64 0) by (unfold in64, W64; lia).
  rewrite (doublesipround_spec' _ 0 H1 H0).
  rewrite (doublesipround_spec' _ 0 (compress_in64 _ 0 H1 H0) H0).
  rewrite !compress_0. reflexivity.
Qed.

Theorem siphash_chunks_spec key chunks :
  length key = 16%nat -> bytes_ok key -> Forall bytes_ok chunks ->
  siphash_chunks key chunks = Ok (siphash24 key (concat chunks)).
Proof.
  intros L Hk Hc. unfold siphash_chunks. rewrite (key_init_eq key L). cbn [bind]. f_equal.
  set (st := {| sip_v := sip_key_init key; sip_s := []; sip_b := 0 |}).
  assert (Hi : sip_inv (sip_key_init key) st []).
  { exists 0%nat. cbn [length Nat.mul sblocks fst skipn]. split; [lia|]. split; [lia|].
    split; [reflexivity|]. split; reflexivity. }
  pose proof (fold_update_inv (sip_key_init key) chunks st [] (key_init_in64 key Hk)
                ltac:(constructor) Hc Hi) as Hf.
  cbn [app] in Hf.
  assert (Hcc : bytes_ok (concat chunks)) by (unfold bytes_ok; now apply Forall_concat).
  rewrite (hash_spec (sip_key_init key) _ (concat chunks) (key_init_in64 key Hk) Hcc Hf).
  reflexivity.
Qed.

Lemma siphash_chunks_bad_key key chunks : length key <> 16%nat -> siphash_chunks key chunks = Err.
Proof.
  intros H. unfold siphash_chunks, sip_init.
  destruct (Nat.eqb (length key) 16) eqn:E; [apply Nat.eqb_eq in E; contradiction|reflexivity].
Qed.

Lemma siphash24_in64 key msg : bytes_ok key -> bytes_ok msg -> in64 (siphash24 key msg).
Proof.
  intros Hk Hm. unfold siphash24. rewrite absorb_sblocks.
  pose proof (sblocks_in64 (Nat.div (length msg) 8) (sip_key_init key) msg (key_init_in64 key Hk) Hm) as Hv.
  assert (Ls : (length (snd (sblocks (Nat.div (length msg) 8) (sip_key_init key) msg)) < 8)%nat).
  { rewrite sblocks_snd, skipn_length. pose proof (Nat.div_mod (length msg) 8 ltac:(lia)).
    pose proof (Nat.mod_upper_bound (length msg) 8 ltac:(lia)). lia. }
  assert (Hs : bytes_ok (snd (sblocks (Nat.div (length msg) 8) (sip_key_init key) msg)))
    by (rewrite sblocks_snd; now apply bytes_ok_skipn).
  destruct (final_block_in64 _ (zlen msg) Hs Ls) as [_ Bb].
  pose proof (compress_in64 _ _ Hv Bb) as Hc.
  destruct (compress _ _) as [[[a b] c] d]. destruct Hc as [Ha [Hb [Hc Hd]]].
  assert (H1 : in64s (a, b, Z.lxor c 255, d)).
  { cbv beta iota delta [in64s]. (split; [|split; [|split]]); try assumption.
    apply in64_lxor; [assumption|]. unfold in64, W64. lia. }
  pose proof (sipround_in64 _ (sipround_in64 _ (sipround_in64 _ (sipround_in64 _ H1)))) as H4.
  destruct (sipround (sipround (sipround (sipround (a, b, Z.lxor c 255, d))))) as [[[w0 w1] w2] w3].
  destruct H4 as [A [B [C D]]]. repeat apply in64_lxor; assumption.
Qed.
