(* Proofs/PsbtCombineP.v — the combiner is commutative, associative and idempotent on PSBTs over
   one unsigned transaction that agree on shared keys; folding it over any permutation of the
   signers' contributions gives the same PSBT (hence the same bytes). *)
From Coq Require Import Permutation.
From V Require Import Base.Prelude Base.Ints Model.Helper Model.Script Model.Tx Model.Psbt
  Proofs.PsbtDictP.

(* ---- option fields ---- *)
Definition oagree {A} (x y : option A) : Prop := x = None \/ y = None \/ x = y.
Definition orelse {A} (x y : option A) : option A := match x with Some _ => x | None => y end.

Lemma take_orelse {A} (t : A -> bool) (x y : option A) :
  (forall v, y = Some v -> t v = true) -> take t x y = orelse x y.
Proof.
  intros H. destruct x as [a|]; [reflexivity|]. destruct y as [b|]; [|reflexivity].
  cbn. now rewrite (H b eq_refl).
Qed.

Lemma orelse_comm {A} (x y : option A) : oagree x y -> orelse x y = orelse y x.
Proof. intros [H|[H|H]]; subst; try destruct x; try destruct y; reflexivity. Qed.
Lemma orelse_assoc {A} (x y z : option A) : orelse (orelse x y) z = orelse x (orelse y z).
Proof. destruct x; reflexivity. Qed.
Lemma orelse_idem {A} (x : option A) : orelse x x = x.
Proof. destruct x; reflexivity. Qed.
Lemma oagree_refl {A} (x : option A) : oagree x x.
Proof. right; right; reflexivity. Qed.
Lemma oagree_sym {A} (x y : option A) : oagree x y -> oagree y x.
Proof. intros [H|[H|H]]; [right; left|left|right; right]; congruence. Qed.
Lemma oagree_orelse {A} (x y z : option A) : oagree x z -> oagree y z -> oagree (orelse x y) z.
Proof. intros H1 H2. destruct x; cbn; assumption. Qed.

Definition int_truthy (o : option Z) : Prop := o <> Some 0.
Definition wit_truthy (o : option (list bytes)) : Prop := o <> Some [].

Lemma int_truthy_t o : int_truthy o -> forall v, o = Some v -> negb (v =? 0) = true.
Proof. intros H v ->. destruct (v =? 0) eqn:E; [|reflexivity]. apply Z.eqb_eq in E. subst. now elim H. Qed.
Lemma wit_truthy_t o :
  wit_truthy o -> forall v, o = Some v -> (match v with [] => false | _ => true end) = true.
Proof. intros H v ->. destruct v; [now elim H|reflexivity]. Qed.
Lemma always_t {A} (o : option A) : forall v, o = Some v -> always v = true.
Proof. reflexivity. Qed.

(* ---- inputs ---- *)
Record good_in (a : psbt_in) : Prop := {
  gi_sigs : dsorted (pi_sigs a); gi_named : dsorted (pi_named a); gi_extra : dsorted (pi_extra a);
  gi_ht : int_truthy (pi_hash_type a); gi_wit : wit_truthy (pi_witness a) }.

Record compat_in (a b : psbt_in) : Prop := {
  ci_prev_tx : oagree (pi_prev_tx a) (pi_prev_tx b);
  ci_prev_out : oagree (pi_prev_out a) (pi_prev_out b);
  ci_sigs : agree (pi_sigs a) (pi_sigs b);
  ci_ht : oagree (pi_hash_type a) (pi_hash_type b);
  ci_redeem : oagree (pi_redeem a) (pi_redeem b);
  ci_wscript : oagree (pi_wscript a) (pi_wscript b);
  ci_named : agree (pi_named a) (pi_named b);
  ci_ss : oagree (pi_script_sig a) (pi_script_sig b);
  ci_wit : oagree (pi_witness a) (pi_witness b);
  ci_extra : agree (pi_extra a) (pi_extra b) }.

(* the combiner written with [orelse] *)
Definition in_comb (a b : psbt_in) : psbt_in :=
  {| pi_prev_tx := orelse (pi_prev_tx a) (pi_prev_tx b);
     pi_prev_out := orelse (pi_prev_out a) (pi_prev_out b);
     pi_sigs := dunion (pi_sigs a) (pi_sigs b);
     pi_hash_type := orelse (pi_hash_type a) (pi_hash_type b);
     pi_redeem := orelse (pi_redeem a) (pi_redeem b);
     pi_wscript := orelse (pi_wscript a) (pi_wscript b);
     pi_named := dunion (pi_named b) (pi_named a);
     pi_script_sig := orelse (pi_script_sig a) (pi_script_sig b);
     pi_witness := orelse (pi_witness a) (pi_witness b);
     pi_extra := dunion (pi_extra b) (pi_extra a) |}.

Lemma in_combine_comb a b : good_in b -> in_combine a b = in_comb a b.
Proof.
  intros [_ _ _ Hh Hw]. unfold in_combine, in_comb.
  rewrite !(take_orelse always) by apply always_t.
  rewrite (take_orelse _ (pi_hash_type a)) by (apply int_truthy_t; exact Hh).
  rewrite (take_orelse _ (pi_witness a)) by (apply wit_truthy_t; exact Hw).
  reflexivity.
Qed.

Lemma good_in_comb a b : good_in a -> good_in b -> good_in (in_comb a b).
Proof.
  intros [A1 A2 A3 A4 A5] [B1 B2 B3 B4 B5]. constructor; cbn.
  - now apply dunion_sorted.
  - now apply dunion_sorted.
  - now apply dunion_sorted.
  - unfold int_truthy in *. destruct (pi_hash_type a); cbn; assumption.
  - unfold wit_truthy in *. destruct (pi_witness a); cbn; assumption.
Qed.

Lemma in_comb_comm a b : good_in a -> good_in b -> compat_in a b -> in_comb a b = in_comb b a.
Proof.
  intros [A1 A2 A3 _ _] [B1 B2 B3 _ _] [C1 C2 C3 C4 C5 C6 C7 C8 C9 C10]. unfold in_comb. f_equal;
    try (apply orelse_comm; assumption).
  - now apply dunion_comm.
  - apply dunion_comm; try assumption. now apply agree_sym.
  - apply dunion_comm; try assumption. now apply agree_sym.
Qed.

Lemma in_comb_assoc a b c :
  good_in a -> good_in b -> good_in c -> in_comb (in_comb a b) c = in_comb a (in_comb b c).
Proof.
  intros [A1 A2 A3 _ _] [B1 B2 B3 _ _] [C1 C2 C3 _ _]. unfold in_comb; cbn -[dunion]. f_equal;
    try apply orelse_assoc.
  - now apply dunion_assoc.
  - symmetry. now apply dunion_assoc.
  - symmetry. now apply dunion_assoc.
Qed.

Lemma in_comb_idem a : good_in a -> in_comb a a = a.
Proof.
  intros [A1 A2 A3 _ _]. destruct a; unfold in_comb; cbn -[dunion] in *.
  rewrite !orelse_idem, !dunion_idem by assumption. reflexivity.
Qed.

Lemma compat_in_refl a : compat_in a a.
Proof. constructor; try apply oagree_refl; apply agree_refl. Qed.
Lemma compat_in_sym a b : compat_in a b -> compat_in b a.
Proof. intros [C1 C2 C3 C4 C5 C6 C7 C8 C9 C10]. constructor; try (apply oagree_sym; assumption); apply agree_sym; assumption. Qed.

Lemma compat_in_comb a b c :
  good_in a -> good_in b -> compat_in a c -> compat_in b c -> compat_in (in_comb a b) c.
Proof.
  intros [A1 A2 A3 _ _] [B1 B2 B3 _ _] [C1 C2 C3 C4 C5 C6 C7 C8 C9 C10] [D1 D2 D3 D4 D5 D6 D7 D8 D9 D10].
  constructor; cbn; try (apply oagree_orelse; assumption); apply agree_dunion_l; assumption.
Qed.

(* ---- outputs ---- *)
Record good_out (a : psbt_out) : Prop := {
  go_named : dsorted (po_named a); go_extra : dsorted (po_extra a) }.
Record compat_out (a b : psbt_out) : Prop := {
  co_redeem : oagree (po_redeem a) (po_redeem b);
  co_wscript : oagree (po_wscript a) (po_wscript b);
  co_named : agree (po_named a) (po_named b);
  co_extra : agree (po_extra a) (po_extra b) }.
Definition out_comb (a b : psbt_out) : psbt_out :=
  {| po_redeem := orelse (po_redeem a) (po_redeem b);
     po_wscript := orelse (po_wscript a) (po_wscript b);
     po_named := dunion (po_named b) (po_named a);
     po_extra := dunion (po_extra b) (po_extra a) |}.

Lemma out_combine_comb a b : out_combine a b = out_comb a b.
Proof. unfold out_combine, out_comb. now rewrite !(take_orelse always) by apply always_t. Qed.
Lemma good_out_comb a b : good_out a -> good_out b -> good_out (out_comb a b).
Proof. intros [A1 A2] [B1 B2]. constructor; cbn; now apply dunion_sorted. Qed.
Lemma out_comb_comm a b : good_out a -> good_out b -> compat_out a b -> out_comb a b = out_comb b a.
Proof.
  intros [A1 A2] [B1 B2] [C1 C2 C3 C4]. unfold out_comb. f_equal; try (apply orelse_comm; assumption);
    apply dunion_comm; try assumption; now apply agree_sym.
Qed.
Lemma out_comb_assoc a b c :
  good_out a -> good_out b -> good_out c -> out_comb (out_comb a b) c = out_comb a (out_comb b c).
Proof.
  intros [A1 A2] [B1 B2] [C1 C2]. unfold out_comb; cbn -[dunion]. f_equal; try apply orelse_assoc;
    symmetry; now apply dunion_assoc.
Qed.
Lemma out_comb_idem a : good_out a -> out_comb a a = a.
Proof.
  intros [A1 A2]. destruct a; unfold out_comb; cbn -[dunion] in *.
  rewrite !orelse_idem, !dunion_idem by assumption. reflexivity.
Qed.
Lemma compat_out_refl a : compat_out a a.
Proof. constructor; try apply oagree_refl; apply agree_refl. Qed.
Lemma compat_out_sym a b : compat_out a b -> compat_out b a.
Proof. intros [C1 C2 C3 C4]. constructor; try (apply oagree_sym; assumption); apply agree_sym; assumption. Qed.
Lemma compat_out_comb a b c :
  good_out a -> good_out b -> compat_out a c -> compat_out b c -> compat_out (out_comb a b) c.
Proof.
  intros [A1 A2] [B1 B2] [C1 C2 C3 C4] [D1 D2 D3 D4].
  constructor; cbn; try (apply oagree_orelse; assumption); apply agree_dunion_l; assumption.
Qed.

(* ---- zip_with ---- *)
Section Zip.
Context {A : Type} (f : A -> A -> A) (good : A -> Prop) (compat : A -> A -> Prop).
Hypothesis f_good : forall x y, good x -> good y -> good (f x y).
Hypothesis f_comm : forall x y, good x -> good y -> compat x y -> f x y = f y x.
Hypothesis f_assoc : forall x y z, good x -> good y -> good z -> f (f x y) z = f x (f y z).
Hypothesis f_idem : forall x, good x -> f x x = x.
Hypothesis compat_sym : forall x y, compat x y -> compat y x.
Hypothesis f_compat : forall x y z, good x -> good y -> compat x z -> compat y z -> compat (f x y) z.

Lemma zip_good a b : Forall good a -> Forall good b -> Forall good (zip_with f a b).
Proof.
  intros Ha. revert b. induction Ha as [|x a Hx Ha IH]; intros b Hb; cbn; [constructor|].
  destruct Hb as [|y b Hy Hb]; [constructor; assumption|]. constructor; [now apply f_good|now apply IH].
Qed.
Lemma zip_length a b : length a = length b -> length (zip_with f a b) = length a.
Proof.
  revert b; induction a as [|x a IH]; intros [|y b] H; cbn in *; try discriminate; [reflexivity|].
  f_equal. apply IH. congruence.
Qed.
Lemma zip_comm a b :
  Forall good a -> Forall good b -> Forall2 compat a b -> zip_with f a b = zip_with f b a.
Proof.
  intros Ha Hb Hc. induction Hc as [|x y a b Hxy Hc IH]; [reflexivity|].
  inversion Ha; inversion Hb; subst. cbn. f_equal; [now apply f_comm|now apply IH].
Qed.
Lemma zip_assoc a b c :
  Forall good a -> Forall good b -> Forall good c -> length a = length b -> length b = length c ->
  zip_with f (zip_with f a b) c = zip_with f a (zip_with f b c).
Proof.
  intros Ha. revert b c. induction Ha as [|x a Hx Ha IH]; intros b c Hb Hc L1 L2; [reflexivity|].
  destruct Hb as [|y b Hy Hb]; [discriminate|]. destruct Hc as [|z c Hz Hc]; [discriminate|].
  cbn. f_equal; [now apply f_assoc|]. apply IH; try assumption; cbn in *; congruence.
Qed.
Lemma zip_idem a : Forall good a -> zip_with f a a = a.
Proof. intros Ha. induction Ha as [|x a Hx Ha IH]; cbn; [reflexivity|]. now rewrite f_idem, IH. Qed.
Lemma zip_compat a b c :
  Forall good a -> Forall good b -> Forall2 compat a c -> Forall2 compat b c ->
  Forall2 compat (zip_with f a b) c.
Proof.
  intros Ha Hb Hac. revert b Hb. induction Hac as [|x z a c Hxz Hac IH]; intros b Hb Hbc.
  - inversion Hbc; subst. constructor.
  - inversion Hbc as [|y z' b' c' Hyz Hbc']; subst. inversion Ha; inversion Hb; subst.
    cbn. constructor; [now apply f_compat|now apply IH].
Qed.
Lemma Forall2_sym a b : Forall2 compat a b -> Forall2 compat b a.
Proof. intros H. induction H; constructor; auto. Qed.
End Zip.

Lemma Forall2_length {A B} (R : A -> B -> Prop) a b : Forall2 R a b -> length a = length b.
Proof. intros H. induction H; cbn; congruence. Qed.
Lemma Forall2_refl {A} (R : A -> A -> Prop) (Hr : forall x, R x x) a : Forall2 R a a.
Proof. induction a; constructor; auto. Qed.

(* ---- whole PSBTs ---- *)
Record good (p : psbt) : Prop := {
  g_ins : Forall good_in (p_ins p); g_outs : Forall good_out (p_outs p);
  g_hd : dsorted (p_hd p); g_ex : dsorted (p_extra p) }.
Record compat (a b : psbt) : Prop := {
  c_tx : p_tx a = p_tx b;
  c_ins : Forall2 compat_in (p_ins a) (p_ins b);
  c_outs : Forall2 compat_out (p_outs a) (p_outs b);
  c_hd : agree (p_hd a) (p_hd b);
  c_ex : agree (p_extra a) (p_extra b) }.

Definition comb' (a b : psbt) : psbt :=
  {| p_tx := p_tx a;
     p_ins := zip_with in_comb (p_ins a) (p_ins b);
     p_outs := zip_with out_comb (p_outs a) (p_outs b);
     p_hd := dunion (p_hd b) (p_hd a);
     p_extra := dunion (p_extra b) (p_extra a) |}.

Lemma zip_with_ext {A} (f g : A -> A -> A) (P : A -> Prop) a b :
  (forall x y, P y -> f x y = g x y) -> Forall P b -> zip_with f a b = zip_with g a b.
Proof.
  intros H Hb. revert a. induction Hb as [|y b Hy Hb IH]; intros [|x a]; cbn; try reflexivity.
  now rewrite H, IH.
Qed.

Lemma comb_comb' a b : good b -> comb a b = comb' a b.
Proof.
  intros [B1 B2 _ _]. unfold comb, comb'. f_equal.
  - apply (zip_with_ext _ _ good_in); [intros x y Hy; now apply in_combine_comb | exact B1].
  - apply (zip_with_ext _ _ (fun _ => True)); [intros x y _; apply out_combine_comb |].
    clear. induction (p_outs b); constructor; auto.
Qed.

Lemma good_comb' a b : good a -> good b -> good (comb' a b).
Proof.
  intros [A1 A2 A3 A4] [B1 B2 B3 B4]. constructor; cbn.
  - apply (zip_good _ good_in good_in_comb); assumption.
  - apply (zip_good _ good_out good_out_comb); assumption.
  - now apply dunion_sorted.
  - now apply dunion_sorted.
Qed.

Lemma comb'_comm a b : good a -> good b -> compat a b -> comb' a b = comb' b a.
Proof.
  intros [A1 A2 A3 A4] [B1 B2 B3 B4] [C1 C2 C3 C4 C5]. unfold comb'. f_equal.
  - exact C1.
  - apply (zip_comm _ good_in compat_in in_comb_comm); assumption.
  - apply (zip_comm _ good_out compat_out out_comb_comm); assumption.
  - apply dunion_comm; try assumption. now apply agree_sym.
  - apply dunion_comm; try assumption. now apply agree_sym.
Qed.

Lemma comb'_assoc a b c :
  good a -> good b -> good c -> compat a b -> compat b c ->
  comb' (comb' a b) c = comb' a (comb' b c).
Proof.
  intros [A1 A2 A3 A4] [B1 B2 B3 B4] [C1 C2 C3 C4] [D1 D2 D3 D4 D5] [E1 E2 E3 E4 E5].
  unfold comb'; cbn -[dunion zip_with]. f_equal.
  - apply (zip_assoc _ good_in in_comb_assoc); try assumption; eapply Forall2_length; eassumption.
  - apply (zip_assoc _ good_out out_comb_assoc); try assumption; eapply Forall2_length; eassumption.
  - symmetry. now apply dunion_assoc.
  - symmetry. now apply dunion_assoc.
Qed.

Lemma comb'_idem a : good a -> comb' a a = a.
Proof.
  intros [A1 A2 A3 A4]. destruct a; unfold comb'; cbn -[dunion zip_with] in *.
  rewrite (zip_idem _ good_in in_comb_idem), (zip_idem _ good_out out_comb_idem) by assumption.
  now rewrite !dunion_idem by assumption.
Qed.

Lemma compat_refl a : compat a a.
Proof.
  constructor; try reflexivity; try apply agree_refl.
  - apply Forall2_refl, compat_in_refl.
  - apply Forall2_refl, compat_out_refl.
Qed.
Lemma compat_sym a b : compat a b -> compat b a.
Proof.
  intros [C1 C2 C3 C4 C5]. constructor; try (apply agree_sym; assumption).
  - congruence.
  - apply (Forall2_sym compat_in compat_in_sym); assumption.
  - apply (Forall2_sym compat_out compat_out_sym); assumption.
Qed.
Lemma compat_comb' a b c : good a -> good b -> compat a c -> compat b c -> compat (comb' a b) c.
Proof.
  intros [A1 A2 A3 A4] [B1 B2 B3 B4] [C1 C2 C3 C4 C5] [D1 D2 D3 D4 D5]. constructor; cbn.
  - exact C1.
  - apply (zip_compat _ good_in compat_in compat_in_comb); assumption.
  - apply (zip_compat _ good_out compat_out compat_out_comb); assumption.
  - apply agree_dunion_l; assumption.
  - apply agree_dunion_l; assumption.
Qed.

(* ---- the same for the model's own [comb] ---- *)
Lemma comb_good a b : good a -> good b -> good (comb a b).
Proof. intros Ha Hb. rewrite comb_comb' by exact Hb. now apply good_comb'. Qed.
Lemma comb_comm a b : good a -> good b -> compat a b -> comb a b = comb b a.
Proof. intros Ha Hb Hc. rewrite !comb_comb' by assumption. now apply comb'_comm. Qed.
Lemma comb_assoc a b c :
  good a -> good b -> good c -> compat a b -> compat b c -> comb (comb a b) c = comb a (comb b c).
Proof.
  intros Ha Hb Hc H1 H2.
  rewrite (comb_comb' a b Hb), (comb_comb' _ c Hc), (comb_comb' b c Hc).
  rewrite (comb_comb' a (comb' b c)) by now apply good_comb'.
  now apply comb'_assoc.
Qed.
Lemma comb_idem a : good a -> comb a a = a.
Proof. intros Ha. rewrite comb_comb' by exact Ha. now apply comb'_idem. Qed.
Lemma comb_compat a b c : good a -> good b -> compat a c -> compat b c -> compat (comb a b) c.
Proof. intros Ha Hb H1 H2. rewrite comb_comb' by exact Hb. now apply compat_comb'. Qed.

(* ---- order independence ---- *)
Definition family (l : list psbt) : Prop :=
  (forall x, In x l -> good x) /\ (forall x y, In x l -> In y l -> compat x y).

Lemma family_perm l l' : Permutation l l' -> family l -> family l'.
Proof.
  intros P [H1 H2]. split.
  - intros x Hx. apply H1. eapply Permutation_in; [apply Permutation_sym; exact P|exact Hx].
  - intros x y Hx Hy. apply H2; (eapply Permutation_in; [apply Permutation_sym; exact P|assumption]).
Qed.

Lemma family_step base x l : family (base :: x :: l) -> family (comb base x :: l).
Proof.
  intros [H1 H2].
  assert (Gb : good base) by (apply H1; now left).
  assert (Gx : good x) by (apply H1; right; now left).
  assert (Cself : forall y, In y (base :: x :: l) -> compat (comb base x) y).
  { intros y Hy. apply comb_compat; try assumption; apply H2; try assumption; [now left|right; now left]. }
  split.
  - intros y [<-|Hy]; [now apply comb_good|]. apply H1. right; now right.
  - intros y z [<-|Hy] [<-|Hz].
    + apply comb_compat; try assumption; apply compat_sym; apply Cself; [now left|right; now left].
    + apply Cself. right; now right.
    + apply compat_sym, Cself. right; now right.
    + apply H2; right; now right.
Qed.

Lemma fold_comb_perm l l' :
  Permutation l l' -> forall base, family (base :: l) ->
  fold_left comb l base = fold_left comb l' base.
Proof.
  induction 1 as [|x l l' P IH|x y l|l l' l'' P1 IH1 P2 IH2]; intros base F.
  - reflexivity.
  - cbn. apply IH. now apply family_step.
  - cbn. f_equal. destruct F as [H1 H2].
    assert (Gb : good base) by (apply H1; now left).
    assert (Gy : good y) by (apply H1; right; now left).
    assert (Gx : good x) by (apply H1; right; right; now left).
    assert (Cby : compat base y) by (apply H2; [now left|right; now left]).
    assert (Cbx : compat base x) by (apply H2; [now left|right; right; now left]).
    assert (Cyx : compat y x) by (apply H2; [right; now left|right; right; now left]).
    rewrite (comb_assoc base y x) by assumption.
    rewrite (comb_comm y x) by assumption.
    rewrite <- (comb_assoc base x y); try assumption. reflexivity. now apply compat_sym.
  - rewrite IH1 by exact F. apply IH2.
    eapply family_perm; [|exact F]. now constructor.
Qed.

(* PSBT.combine on PSBTs over the same transaction is [comb] *)
Lemma combine_same_tx hash256 a b h :
  p_tx a = p_tx b -> tx_hash hash256 (p_tx a) = Ok h -> combine hash256 a b = Ok (comb a b).
Proof.
  intros E H. unfold combine. rewrite <- E, H. cbn. now rewrite beq_refl.
Qed.
