(* Proofs/ShamirChecksP.v — the consistency checks of ShareSet.__init__ and the threshold
   checks of ShareSet.recover (Model/Shamir.v): shares of different splits are refused,
   fewer shares than the threshold are refused. *)
From V Require Import Base.Prelude Base.Ints Model.Mnemonic Model.Shamir.

Lemma all_same_spec l : all_same l = true <-> (forall x y, In x l -> In y l -> x = y).
Proof.
  destruct l as [|a r]; cbn [all_same].
  - split; [intros _ x y [] | reflexivity].
  - rewrite forallb_forall. split.
    + intros H x y Hx Hy.
      assert (G : forall z, In z (a :: r) -> z = a).
      { intros z [->|Hz]; [reflexivity|]. symmetry. apply Z.eqb_eq. now apply H. }
      rewrite (G x Hx), (G y Hy). reflexivity.
    + intros H x Hx. apply Z.eqb_eq. apply H; [now left | now right].
Qed.

Lemma all_same_false (f : share -> Z) shares s1 s2 :
  In s1 shares -> In s2 shares -> f s1 <> f s2 -> all_same (map f shares) = false.
Proof.
  intros H1 H2 Hne. destruct (all_same (map f shares)) eqn:E; [|reflexivity].
  exfalso. apply Hne. apply (proj1 (all_same_spec _) E); now apply in_map.
Qed.

Lemma two_members {A} (l : list A) a b : In a l -> In b l -> a <> b -> 1 < zlen l.
Proof.
  unfold zlen. destruct l as [|x [|y r]]; cbn [length In]; intros Ha Hb Hne.
  - destruct Ha.
  - destruct Ha as [<-|[]], Hb as [<-|[]]. congruence.
  - lia.
Qed.

(* shares that disagree on identifier, exponent, group threshold, group count or length
   are never combined: ShareSet(...) raises *)
Theorem mixed_splits_refused shares s1 s2 :
  In s1 shares -> In s2 shares ->
  sh_id s1 <> sh_id s2 \/ sh_exp s1 <> sh_exp s2 \/ sh_gt s1 <> sh_gt s2 \/
  sh_gc s1 <> sh_gc s2 \/ sh_bits s1 <> sh_bits s2 ->
  shareset_init shares = Err.
Proof.
  intros H1 H2 Hd. unfold shareset_init.
  assert (Hne : s1 <> s2) by (intros ->; intuition congruence).
  pose proof (two_members shares s1 s2 H1 H2 Hne) as L.
  destruct (1 <? zlen shares) eqn:E; [|lia]. cbn [andb].
  destruct Hd as [D|[D|[D|[D|D]]]];
    rewrite (all_same_false _ shares s1 s2 H1 H2 D); cbn [andb negb];
    rewrite ?andb_false_r; reflexivity.
Qed.

Lemma nodup_pairs_spec l : nodup_pairs l = true -> NoDup l.
Proof.
  induction l as [|p r IH]; cbn [nodup_pairs]; intros H; constructor;
    apply andb_true_iff in H as [H1 H2].
  - intros Hin. apply negb_true_iff in H1.
    assert (existsb (fun q => (fst p =? fst q) && (snd p =? snd q)) r = true).
    { apply existsb_exists. exists p. split; [exact Hin|]. now rewrite !Z.eqb_refl. }
    congruence.
  - now apply IH.
Qed.

(* the same share index twice is refused *)
Theorem duplicate_index_refused shares :
  1 < zlen shares -> ~ NoDup (map (fun s => (sh_gi s, sh_mi s)) shares) ->
  shareset_init shares = Err.
Proof.
  intros L Hd. unfold shareset_init. destruct (1 <? zlen shares) eqn:E; [|lia]. cbn [andb].
  destruct (nodup_pairs (map (fun s => (sh_gi s, sh_mi s)) shares)) eqn:N.
  - exfalso. apply Hd. now apply nodup_pairs_spec.
  - rewrite !andb_false_r. reflexivity.
Qed.

(* what an accepted share set guarantees *)
Theorem shareset_init_sound shares ss :
  shareset_init shares = Ok ss ->
  ss_shares ss = shares /\ shares <> [] /\
  (forall s, In s shares -> sh_id s = ss_id ss /\ sh_exp s = ss_exp ss /\ sh_gt s = ss_gt ss /\
                            sh_gc s = ss_gc ss /\ sh_bits s = ss_bits ss) /\
  NoDup (map (fun s => (sh_gi s, sh_mi s)) shares).
Proof.
  unfold shareset_init. intros H.
  destruct shares as [|s0 r].
  { destruct ((1 <? zlen (@nil share)) && _); discriminate. }
  destruct (1 <? zlen (s0 :: r)) eqn:L.
  - cbn [andb] in H.
    match type of H with (if negb ?c then _ else _) = _ => destruct c eqn:C end;
      cbn [negb] in H; [|discriminate].
    destruct (int_to_be (sh_id s0) 2) as [idb|]; cbn [bind] in H; [|discriminate].
    inversion H; subst; clear H. cbn.
    repeat (apply andb_true_iff in C as [C ?]).
    split; [reflexivity|]. split; [discriminate|]. split.
    + intros s Hs.
      repeat split;
        match goal with |- ?f s = ?f s0 =>
          match goal with A : all_same (map f _) = true |- _ =>
            apply (proj1 (all_same_spec _) A); apply in_map; [exact Hs | now left] end end.
    + now apply nodup_pairs_spec.
  - cbn [andb] in H.
    destruct (int_to_be (sh_id s0) 2) as [idb|]; cbn [bind] in H; [|discriminate].
    inversion H; subst; clear H. cbn.
    assert (r = []) as ->.
    { apply Z.ltb_ge in L. unfold zlen in L. destruct r; [reflexivity|]. cbn [length] in L. lia. }
    split; [reflexivity|]. split; [discriminate|]. split.
    + intros s [<-|[]]. repeat split.
    + cbn. constructor; [intros []|constructor].
Qed.

Section Recover.
  Variable hmac_sha256 : bytes -> bytes -> bytes.
  Variable kdf : bytes -> bytes -> Z -> Z -> result bytes.

  Definition in_idxs (idxs : list Z) (s : share) : bool := existsb (Z.eqb (sh_gi s)) idxs.

  Lemma filter_split shares i r : ~ In i r ->
    length (filter (in_idxs (i :: r)) shares) =
    (length (filter (fun s => (sh_gi s =? i)%Z) shares) + length (filter (in_idxs r) shares))%nat.
  Proof.
    intros Hn. induction shares as [|s l IH]; [reflexivity|].
    cbn [filter].
    assert (C : in_idxs (i :: r) s = (sh_gi s =? i) || in_idxs r s) by reflexivity.
    rewrite C. destruct (sh_gi s =? i) eqn:E; cbn [orb].
    - apply Z.eqb_eq in E.
      assert (in_idxs r s = false) as ->.
      { unfold in_idxs. destruct (existsb (Z.eqb (sh_gi s)) r) eqn:X; [|reflexivity].
        apply existsb_exists in X as [x [Hx Hx']]. apply Z.eqb_eq in Hx'. subst. congruence. }
      cbn [length]. rewrite IH. lia.
    - destruct (in_idxs r s); cbn [length]; rewrite IH; lia.
  Qed.

  (* every group index contributes at most one entry, and only if a share of it is present *)
  Lemma collect_length shares idxs sd : NoDup idxs ->
    collect_groups hmac_sha256 shares idxs = Ok sd ->
    (length sd <= length (filter (in_idxs idxs) shares))%nat.
  Proof.
    revert sd. induction idxs as [|i r IH]; intros sd Hnd H; cbn [collect_groups] in H.
    - inversion H. cbn. lia.
    - inversion Hnd as [|? ? Hni Hnd']; subst. rewrite filter_split by exact Hni.
      destruct (filter (fun s => sh_gi s =? i) shares) as [|g0 g] eqn:G.
      + cbn [length]. now apply IH.
      + destruct (negb (all_same (map sh_mt (g0 :: g)))); [discriminate|].
        destruct (sh_mt g0 =? 1).
        * destruct (collect_groups hmac_sha256 shares r) as [rest|]; cbn [bind] in H; [|discriminate].
          inversion H; subst. cbn [length]. specialize (IH rest Hnd' eq_refl). lia.
        * destruct (sh_mt g0 >? zlen (g0 :: g)); [discriminate|].
          destruct (recover_secret hmac_sha256 _); cbn [bind] in H; [|discriminate].
          destruct (collect_groups hmac_sha256 shares r) as [rest|]; cbn [bind] in H; [|discriminate].
          inversion H; subst. cbn [length]. specialize (IH rest Hnd' eq_refl). lia.
  Qed.

  Lemma zrange_nodup n : forall a, NoDup (zrange a n) /\ (forall x, In x (zrange a n) -> a <= x).
  Proof.
    induction n as [|n IH]; intros a; cbn [zrange]; split; try constructor.
    - intros x [].
    - intros Hin. apply (proj2 (IH (a + 1))) in Hin. lia.
    - apply IH.
    - intros x [<-|Hx]; [lia|]. apply (proj2 (IH (a + 1))) in Hx. lia.
  Qed.

  (* fewer shares than the group threshold (> 1) never yield a secret *)
  Theorem below_threshold_refused ss pass :
    1 < ss_gt ss -> zlen (ss_shares ss) < ss_gt ss -> recover hmac_sha256 kdf ss pass = Err.
  Proof.
    intros Hk Hl. unfold recover.
    destruct (existsb _ (ss_shares ss)); [reflexivity|].
    destruct (collect_groups hmac_sha256 (ss_shares ss) (zrange 0 (Z.to_nat (ss_gc ss)))) as [sd|] eqn:C;
      cbn [bind]; [|reflexivity].
    destruct (ss_gt ss =? 1) eqn:E1; [lia|].
    apply collect_length in C; [|apply zrange_nodup].
    assert (F : forall (f : share -> bool) l, (length (filter f l) <= length l)%nat).
    { intros f l. induction l as [|x l IHl]; cbn [filter length]; [lia|].
      destruct (f x); cbn [length]; lia. }
    specialize (F (in_idxs (zrange 0 (Z.to_nat (ss_gc ss)))) (ss_shares ss)).
    destruct (ss_gt ss >? zlen sd) eqn:E2; [reflexivity|]. unfold zlen in *. lia.
  Qed.

  (* the same for a member group: a group presenting fewer members than its member
     threshold makes the whole recovery fail *)
  Theorem below_member_threshold_refused ss pass i g0 g :
    0 <= i < ss_gc ss ->
    filter (fun s => sh_gi s =? i) (ss_shares ss) = g0 :: g ->
    1 < sh_mt g0 -> zlen (g0 :: g) < sh_mt g0 ->
    recover hmac_sha256 kdf ss pass = Err.
  Proof.
    intros Hi G Hm Hl. unfold recover.
    destruct (existsb _ (ss_shares ss)); [reflexivity|].
    assert (C : collect_groups hmac_sha256 (ss_shares ss) (zrange 0 (Z.to_nat (ss_gc ss))) = Err).
    { assert (Hin : In i (zrange 0 (Z.to_nat (ss_gc ss)))).
      { assert (Gen : forall n a, a <= i < a + Z.of_nat n -> In i (zrange a n)).
        { induction n as [|n IH]; intros a Ha; [lia|]. cbn [zrange].
          destruct (Z.eq_dec a i) as [->|Hne]; [now left|]. right. apply IH. lia. }
        apply Gen. lia. }
      revert Hin. generalize (zrange 0 (Z.to_nat (ss_gc ss))). intros idxs.
      induction idxs as [|j r IH]; intros Hin; [destruct Hin|].
      cbn [collect_groups]. destruct (Z.eq_dec j i) as [->|Hne].
      - rewrite G. destruct (negb (all_same (map sh_mt (g0 :: g)))); [reflexivity|].
        destruct (sh_mt g0 =? 1) eqn:E1; [lia|].
        destruct (sh_mt g0 >? zlen (g0 :: g)) eqn:E2; [reflexivity|lia].
      - destruct Hin as [->|Hin]; [congruence|]. specialize (IH Hin).
        destruct (filter (fun s => sh_gi s =? j) (ss_shares ss)) as [|h0 h]; [exact IH|].
        destruct (negb (all_same (map sh_mt (h0 :: h)))); [reflexivity|].
        destruct (sh_mt h0 =? 1); [now rewrite IH|].
        destruct (sh_mt h0 >? zlen (h0 :: h)); [reflexivity|].
        destruct (recover_secret hmac_sha256 _); cbn [bind]; [now rewrite IH | reflexivity]. }
    rewrite C. reflexivity.
  Qed.
End Recover.
