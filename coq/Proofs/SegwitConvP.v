(* Proofs/SegwitConvP.v — converse direction of the segwit address codec (C09), for the code
   after the fixes cfb8181 (BIP173 padding) and 00bc7dc ("bcrt1" required):
   1. what decode_bech32 guarantees about every string it accepts (shape, ranges, padding);
   2. every accepted string is EXACTLY what encode_bech32_checksum produces from the decoded
      (network, version, program): decode then encode is the identity on accepted texts, so
      decode_bech32 is injective; together with the round trip this characterises the accepted
      set: decode_bech32 a = (net, v, prog) iff a = encode(v, prog, net) with net in
      {mainnet, testnet, regtest}, 0 <= v < 32, 2..40 program bytes;
   3. what remains lenient: the version symbol is not restricted to 0..16 and the program
      length is not tied to the version (both are decided by the address parsers). *)
From V Require Import Base.Prelude Base.Ints Base.Lfsr Model.Helper Model.Base58 Model.Bech32
  Proofs.Base58P Proofs.PolymodP Proofs.Bech32Sweep Proofs.Bech32DetectP Proofs.Bech32P.

(* ---------- splitting the text ---------- *)

Lemma starts_with_split p : forall s, starts_with p s = true -> s = p ++ skipn (length p) s.
Proof.
  induction p as [|x p IH]; intros s H; [reflexivity|].
  destruct s as [|y s]; [discriminate|]. cbn [starts_with] in H.
  apply andb_true_iff in H as [E H]. apply Z.eqb_eq in E. subst y.
  cbn [length skipn app]. f_equal. apply IH. exact H.
Qed.

Lemma split_at_spec c : forall s a b, split_at c s = Some (a, b) -> s = a ++ [c] ++ b.
Proof.
  induction s as [|x r IH]; intros a b H; cbn [split_at] in H; [discriminate|].
  destruct (x =? c) eqn:E.
  - apply Z.eqb_eq in E. subst x. injection H as <- <-. reflexivity.
  - destruct (split_at c r) as [[a' b']|]; [|discriminate]. injection H as <- <-.
    cbn [app]. f_equal. apply IH. reflexivity.
Qed.

Lemma net_for_prefix_inv hrp net : net_for_prefix hrp = Ok net ->
  known_hrp hrp /\ prefix_of net = Ok hrp /\ (net = 0 \/ net = 1 \/ net = 3).
Proof.
  unfold net_for_prefix, known_hrp.
  destruct (beq hrp hrp_bc) eqn:E0.
  { apply beq_eq in E0. subst. intros [= <-]. auto. }
  destruct (beq hrp hrp_tb) eqn:E1.
  { apply beq_eq in E1. subst. intros [= <-]. auto. }
  destruct (beq hrp hrp_bcrt) eqn:E3; [|discriminate].
  apply beq_eq in E3. subst. intros [= <-]. auto 6.
Qed.

(* every accepted string is hrp ++ "1" ++ data part, hrp one of bc / tb / bcrt *)
Theorem decode_bech32_inv a r : decode_bech32 a = Ok r ->
  exists hrp d, a = hrp ++ [49] ++ d /\ known_hrp hrp /\ decode_body hrp d = Ok r.
Proof.
  unfold decode_bech32. intros H. destruct (starts_with hrp_bcrt1 a) eqn:SW.
  - apply starts_with_split in SW. change (length hrp_bcrt1) with 5%nat in SW.
    cbn [bind] in H. cbv beta iota in H.
    exists hrp_bcrt, (skipn 5 a). split; [exact SW|]. split; [right; right; reflexivity|].
    unfold decode_body. exact H.
  - destruct (split_one a) as [[hrp raw]|] eqn:SO; [|discriminate].
    cbn [bind] in H. cbv beta iota in H.
    unfold split_one in SO. destruct (split_at 49 a) as [[x y]|] eqn:SA; [|discriminate].
    destruct (existsb (Z.eqb 49) y); [discriminate|]. injection SO as -> ->.
    apply split_at_spec in SA.
    destruct (net_for_prefix hrp) as [net|] eqn:NP; [|discriminate].
    destruct (net_for_prefix_inv hrp net NP) as [HK _].
    exists hrp, raw. split; [exact SA|]. split; [exact HK|].
    unfold decode_body. rewrite NP. exact H.
Qed.

(* ---------- the data part ---------- *)

Lemma int_to_be_inv n len h : int_to_be n len = Ok h -> h = to_be len n /\ 0 <= n < pow256 len.
Proof.
  unfold int_to_be, to_be. destruct (0 <=? n) eqn:E1; destruct (n <? pow256 len) eqn:E2;
    cbn [andb]; intros [= <-]. split; [reflexivity|lia].
Qed.

(* padding of the data part: number of padding bits and their value *)
Definition pad_bits (body : list Z) : Z := (5 * zlen body) mod 8.
Definition pad_value (body : list Z) : Z := val 32 body mod 2 ^ pad_bits body.

Theorem decode_body_inv hrp d net v prog : decode_body hrp d = Ok (net, v, prog) ->
  exists body chk,
    d = map b32c (v :: body ++ chk) /\ Forall sym5 (v :: body ++ chk) /\ length chk = 6%nat /\
    net_for_prefix hrp = Ok net /\
    bech32_polymod (hrp_expand hrp ++ v :: body ++ chk) = const_of v /\
    2 <= 5 * zlen body / 8 <= 40 /\
    prog = to_be (Z.to_nat (5 * zlen body / 8)) (val 32 body / 2 ^ ((5 * zlen body) mod 8)) /\
    0 <= val 32 body / 2 ^ ((5 * zlen body) mod 8) < pow256 (Z.to_nat (5 * zlen body / 8)) /\
    pad_bits body < 5 /\ pad_value body = 0.
Proof.
  unfold decode_body. intros H.
  destruct (net_for_prefix hrp) as [net'|] eqn:NP; [|discriminate]. cbn [bind] in H.
  destruct (mapr bech32_index d) as [data|] eqn:EM; [|discriminate]. cbn [bind] in H.
  destruct (mapr_index_inv d data EM) as [HF ->].
  destruct data as [|v' rest]; [discriminate|].
  rewrite verify_const in H.
  destruct (bech32_polymod (hrp_expand hrp ++ v' :: rest) =? const_of v') eqn:PV; [|discriminate].
  apply Z.eqb_eq in PV. cbn [negb] in H. cbv zeta in H.
  cbn [skipn] in H.
  assert (ZL : zlen (v' :: rest) - 7 = zlen rest - 6) by (unfold zlen; cbn [length]; lia).
  rewrite ZL in H.
  replace (length (v' :: rest) - 7)%nat with (length rest - 6)%nat in H by (cbn [length]; lia).
  rewrite (Z.mul_comm (zlen rest - 6) 5) in H.
  set (n := zlen rest - 6) in *.
  destruct ((4 <? (5 * n) mod 8) || _) eqn:PAD; [discriminate|].
  apply orb_false_iff in PAD as [PAD1 PAD2]. apply Z.ltb_ge in PAD1.
  apply negb_false_iff, Z.eqb_eq in PAD2.
  destruct (5 * n / 8 <? 0) eqn:E0; [discriminate|].
  destruct (int_to_be _ _) as [h|] eqn:EI; [|discriminate]. cbn [bind] in H.
  destruct ((5 * n / 8 <? 2) || (40 <? 5 * n / 8)) eqn:ER; [discriminate|].
  injection H as -> -> ->.
  apply orb_false_iff in ER as [R1 R2]. apply Z.ltb_ge in R1. apply Z.ltb_ge in R2.
  assert (Hn : 4 <= n).
  { destruct (Z.lt_ge_cases n 4) as [L|L]; [|exact L]. exfalso.
    assert (5 * n / 8 < 2) by (apply Z.div_lt_upper_bound; lia). lia. }
  assert (LR : (6 <= length rest)%nat) by (unfold n, zlen in Hn; lia).
  set (body := firstn (length rest - 6) rest) in *.
  set (chk := skipn (length rest - 6) rest).
  assert (SPL : rest = body ++ chk) by (unfold body, chk; symmetry; apply firstn_skipn).
  assert (LB : zlen body = n).
  { unfold body, n, zlen. rewrite firstn_length. lia. }
  assert (LC : length chk = 6%nat) by (unfold chk; rewrite skipn_length; lia).
  exists body, chk. rewrite LB. rewrite <- SPL.
  rewrite number_of_val, Z.shiftr_div_pow2 in EI by (apply Z.mod_pos_bound; lia).
  destruct (int_to_be_inv _ _ _ EI) as [-> BD].
  assert (PM : 0 <= (5 * n) mod 8) by (apply Z.mod_pos_bound; lia).
  rewrite number_of_val, Z.sub_1_r in PAD2.
  change (Z.pred (Z.shiftl 1 ((5 * n) mod 8))) with (Z.ones ((5 * n) mod 8)) in PAD2.
  rewrite Z.land_ones in PAD2 by exact PM.
  unfold pad_value, pad_bits. rewrite LB.
  repeat split; try assumption; try lia.
Qed.

(* ranges of everything decode_bech32 returns *)
Theorem decode_bech32_wf a net v prog : decode_bech32 a = Ok (net, v, prog) ->
  (net = 0 \/ net = 1 \/ net = 3) /\ 0 <= v < 32 /\ bytes_ok prog /\ (2 <= length prog <= 40)%nat.
Proof.
  intros H. destruct (decode_bech32_inv a _ H) as [hrp [d [_ [_ HB]]]].
  destruct (decode_body_inv hrp d net v prog HB) as [body [chk [_ [HF [_ [NP [_ [R [-> _]]]]]]]]].
  destruct (net_for_prefix_inv hrp net NP) as [_ [_ HN]].
  inversion HF as [|? ? Hv _]; subst. unfold sym5 in Hv.
  split; [exact HN|]. split; [exact Hv|]. split; [apply to_be_ok|]. rewrite to_be_length. lia.
Qed.

(* ---------- injectivity of digit lists ---------- *)

Lemma horner_val' B r : forall a, horner B r a = a * B ^ Z.of_nat (length r) + val B r.
Proof.
  induction r as [|x r IH]; intros a.
  - cbn. lia.
  - change (horner B (x :: r) a) with (horner B r (B * a + x)).
    change (val B (x :: r)) with (horner B r (B * 0 + x)).
    rewrite (IH (B * a + x)), (IH (B * 0 + x)). cbn [length].
    rewrite Nat2Z.inj_succ, Z.pow_succ_r by lia. ring.
Qed.

Lemma val_inj B : 2 <= B -> forall a b, Forall (digit B) a -> Forall (digit B) b ->
  length a = length b -> val B a = val B b -> a = b.
Proof.
  intros HB. induction a as [|x a IH]; intros [|y b] Ha Hb HL HV; cbn in HL; try discriminate;
    [reflexivity|].
  inversion Ha as [|? ? Hx Ha']; inversion Hb as [|? ? Hy Hb']; subst. unfold digit in Hx, Hy.
  change (val B (x :: a)) with (horner B a (B * 0 + x)) in HV.
  change (val B (y :: b)) with (horner B b (B * 0 + y)) in HV.
  rewrite !horner_val' in HV.
  assert (EL : length a = length b) by lia. rewrite EL in HV.
  pose proof (val_upper B a ltac:(lia) Ha') as Ua. rewrite EL in Ua.
  pose proof (val_upper B b ltac:(lia) Hb') as Ub.
  assert (x = y) by nia. subst y. f_equal. apply IH; auto. lia.
Qed.

(* ---------- the six checksum symbols are determined by the rest ---------- *)

Lemma lxor_shl5 c v : 0 <= v < 32 -> Z.lxor (Z.shiftl c 5) v = c * 32 + v.
Proof.
  intros Hv. rewrite Z.shiftl_mul_pow2 by lia. change (2 ^ 5) with 32.
  assert (L : Z.land (c * 32) v = 0).
  { apply Z.bits_inj'. intros i Hi. rewrite Z.land_spec, Z.bits_0.
    destruct (Z.ltb_spec i 5).
    - change 32 with (2 ^ 5). rewrite Z.mul_pow2_bits_low by lia. reflexivity.
    - rewrite <- (Z.mod_small v (2 ^ 5)) by (change (2 ^ 5) with 32; lia).
      rewrite Z.mod_pow2_bits_high by lia. apply andb_false_r. }
  symmetry. apply Z.add_nocarry_lxor. exact L.
Qed.

Lemma pm_step_small_val c v : 0 <= c < 2 ^ 25 -> sym5 v -> pm_step c v = c * 32 + v.
Proof. intros Hc Hv. rewrite pm_step_small by exact Hc. apply lxor_shl5. exact Hv. Qed.

Lemma chk_syms_syn chk : Forall sym5 chk -> length chk = 6%nat ->
  chk_syms (syn GEN 25 5 chk) = chk.
Proof.
  intros HF HL.
  destruct chk as [|a [|b [|c [|d [|e [|f [|? ?]]]]]]]; cbn in HL; try discriminate.
  inversion HF as [|? ? Ha HF1]; subst. inversion HF1 as [|? ? Hb HF2]; subst.
  inversion HF2 as [|? ? Hc HF3]; subst. inversion HF3 as [|? ? Hd HF4]; subst.
  inversion HF4 as [|? ? He HF5]; subst. inversion HF5 as [|? ? Hf _]; subst.
  unfold sym5 in *.
  unfold syn, run. cbn [fold_left]. change (step GEN 25 5) with pm_step.
  rewrite (pm_step_small_val 0 a) by (unfold sym5; lia).
  rewrite (pm_step_small_val _ b) by (unfold sym5; lia).
  rewrite (pm_step_small_val _ c) by (unfold sym5; lia).
  rewrite (pm_step_small_val _ d) by (unfold sym5; lia).
  rewrite (pm_step_small_val _ e) by (unfold sym5; lia).
  rewrite (pm_step_small_val _ f) by (unfold sym5; lia).
  set (x := ((((0 * 32 + a) * 32 + b) * 32 + c) * 32 + d) * 32 + e).
  unfold chk_syms. cbn [map].
  change (5 * (5 - 0)) with 25. change (5 * (5 - 1)) with 20. change (5 * (5 - 2)) with 15.
  change (5 * (5 - 3)) with 10. change (5 * (5 - 4)) with 5. change (5 * (5 - 5)) with 0.
  change 31 with (Z.ones 5). rewrite !Z.land_ones by lia. rewrite !Z.shiftr_div_pow2 by lia.
  change (2 ^ 25) with 33554432. change (2 ^ 20) with 1048576. change (2 ^ 15) with 32768.
  change (2 ^ 10) with 1024. change (2 ^ 5) with 32. change (2 ^ 0) with 1.
  unfold x.
  repeat match goal with |- _ :: _ = _ :: _ => f_equal end; try reflexivity;
    Z.div_mod_to_equations; lia.
Qed.

(* a valid string ends in the checksum create_checksum computes for the rest *)
Lemma checksum_unique const c vs chk :
  st_ok c -> st_ok const -> Forall sym5 vs -> Forall sym5 chk -> length chk = 6%nat ->
  run GEN 25 5 c (vs ++ chk) = const ->
  chk = chk_syms (Z.lxor (run GEN 25 5 c (vs ++ zeros6)) const).
Proof.
  intros Hc Hk HF HFc HL HV.
  rewrite run_app in HV.
  rewrite <- (xorl_zeros_l 6 chk HL) in HV. change (repeat 0 6) with zeros6 in HV.
  rewrite run_error in HV by (rewrite HL; reflexivity).
  rewrite <- run_app in HV.
  assert (S : syn GEN 25 5 chk = Z.lxor (run GEN 25 5 c (vs ++ zeros6)) const).
  { rewrite <- HV. rewrite <- Z.lxor_assoc, Z.lxor_nilpotent, Z.lxor_0_l. reflexivity. }
  rewrite <- S. symmetry. apply chk_syms_syn; assumption.
Qed.

(* ---------- the encoder, for every version symbol ---------- *)

Lemma encode_segwit_general net hrp v prog g :
  prefix_of net = Ok hrp -> 0 <= v < 32 -> group_32 prog = Ok g -> Forall sym5 g ->
  encode_bech32_checksum (witness_program v prog) net =
    Ok (hrp ++ [49] ++ map b32c (v :: g ++
          chk_syms (Z.lxor (bech32_polymod ((hrp_expand hrp ++ v :: g) ++ zeros6)) (const_of v)))).
Proof.
  intros EP Hv EG FG.
  assert (EV : (if 0 <? wit_version_byte v then wit_version_byte v - 80 else wit_version_byte v) = v).
  { unfold wit_version_byte. destruct (v =? 0) eqn:E0; [apply Z.eqb_eq in E0; subst; reflexivity|].
    apply Z.eqb_neq in E0. destruct (0 <? 80 + v) eqn:E1; lia. }
  unfold encode_bech32_checksum, witness_program. rewrite EP. cbn [bind]. cbv zeta.
  rewrite EV. unfold readz. destruct (zlen prog <? 0) eqn:E1; [apply Z.ltb_lt in E1; unfold zlen in E1; lia|].
  rewrite Z.leb_refl. cbn [fst]. rewrite EG. cbn [bind].
  set (chk := chk_syms _).
  assert (EC : (if v =? 0 then bech32_create_checksum hrp (v :: g)
                else bech32m_create_checksum hrp (v :: g)) = chk).
  { unfold chk, const_of, bech32_create_checksum, bech32m_create_checksum, create_checksum.
    destruct (v =? 0); reflexivity. }
  rewrite EC. change ((v :: g) ++ chk) with (v :: g ++ chk).
  assert (FA : Forall sym5 (v :: g ++ chk)).
  { constructor; [exact Hv|]. apply Forall_app. split; [exact FG|apply chk_syms_ok]. }
  rewrite (encode_bech32_ok _ FA). reflexivity.
Qed.

Lemma const_of_ok v : st_ok (const_of v).
Proof. unfold const_of, st_ok, P30, BECH32M_CONSTANT. destruct (v =? 0); lia. Qed.

(* ---------- decode, then encode ---------- *)

(* shape of every accepted text, and: decode then encode is the identity *)
Theorem segwit_decode_encode a net v prog :
  decode_bech32 a = Ok (net, v, prog) ->
  encode_bech32_checksum (witness_program v prog) net = Ok a /\
  exists hrp body chk,
    a = hrp ++ [49] ++ map b32c (v :: body ++ chk) /\ prefix_of net = Ok hrp /\
    known_hrp hrp /\ Forall sym5 (v :: body ++ chk) /\ length chk = 6%nat /\
    pad_bits body < 5 /\ pad_value body = 0.
Proof.
  intros H. destruct (decode_bech32_inv a _ H) as [hrp [d [-> [HK HB]]]].
  destruct (decode_body_inv hrp d net v prog HB)
    as [body [chk [-> [HF [LC [NP [PV [R [EP [BD [HP HZ]]]]]]]]]]].
  destruct (net_for_prefix_inv hrp net NP) as [_ [PO _]].
  pose proof HF as HF0.
  inversion HF as [|? ? Hv HF']; subst x l. apply Forall_app in HF' as [FB FC].
  split; [|exists hrp, body, chk; repeat split; assumption].
  unfold pad_value, pad_bits in *.
  set (n := zlen body) in *. set (p := (5 * n) mod 8) in *.
  set (nb := 5 * n / 8) in *. set (num := val 32 body / 2 ^ p) in *.
  assert (P0 : 0 < 2 ^ p) by (apply Z.pow_pos_nonneg; [lia|unfold p; apply Z.mod_pos_bound; lia]).
  assert (DM : 5 * n = 8 * nb + p) by (unfold nb, p; apply Z.div_mod; lia).
  assert (Hp : 0 <= p < 5) by (split; [unfold p; apply Z.mod_pos_bound; lia|exact HP]).
  assert (VB : val 32 body = num * 2 ^ p).
  { unfold num. pose proof (Z.div_mod (val 32 body) (2 ^ p) ltac:(lia)). lia. }
  assert (HBp : bytes_ok prog) by (rewrite EP; apply to_be_ok).
  assert (LP : length prog = Z.to_nat nb) by (rewrite EP; apply to_be_length).
  assert (FP : val 256 prog = num).
  { rewrite <- from_be_val, EP. apply from_be_to_be. exact BD. }
  destruct (group_32_spec prog HBp) as [g [EG [FG [_ SP]]]].
  destruct SP as [p' [Hp' [SL SV]]].
  { intros E. rewrite E in LP. cbn in LP. lia. }
  assert (ZP : zlen prog = nb) by (unfold zlen; rewrite LP; lia).
  rewrite ZP in SL. rewrite FP in SV.
  assert (zlen g = n /\ p' = p) as [LG ->] by lia.
  assert (g = body) as ->.
  { apply (val_inj 32); [lia|exact FG|exact FB|unfold n, zlen in LG; lia|]. now rewrite SV, VB. }
  rewrite (encode_segwit_general net hrp v prog body PO Hv EG FB).
  rewrite polymod_run. rewrite polymod_run in PV.
  replace (hrp_expand hrp ++ v :: body ++ chk) with ((hrp_expand hrp ++ v :: body) ++ chk) in PV
    by (rewrite <- app_assoc; reflexivity).
  rewrite <- (checksum_unique (const_of v) 1 (hrp_expand hrp ++ v :: body) chk); try assumption.
  - reflexivity.
  - unfold st_ok, P30. lia.
  - apply const_of_ok.
  - apply Forall_app. split; [apply hrp_expand_ok; exact HK|]. constructor; assumption.
Qed.

(* decode_bech32 is injective *)
Corollary decode_bech32_inj a1 a2 r : decode_bech32 a1 = Ok r -> decode_bech32 a2 = Ok r -> a1 = a2.
Proof.
  destruct r as [[net v] prog]. intros D1 D2.
  pose proof (proj1 (segwit_decode_encode a1 net v prog D1)).
  pose proof (proj1 (segwit_decode_encode a2 net v prog D2)). congruence.
Qed.

(* the accepted set, exactly: what remains lenient is visible in the ranges (any version symbol
   0..31, any program length 2..40 whatever the version) *)
Theorem decode_bech32_iff a net v prog :
  decode_bech32 a = Ok (net, v, prog) <->
  ((net = 0 \/ net = 1 \/ net = 3) /\ 0 <= v < 32 /\ bytes_ok prog /\ (2 <= length prog <= 40)%nat /\
   encode_bech32_checksum (witness_program v prog) net = Ok a).
Proof.
  split.
  - intros H. destruct (decode_bech32_wf a net v prog H) as [A [B [C D]]].
    pose proof (proj1 (segwit_decode_encode a net v prog H)). tauto.
  - intros [HN [Hv [HB [HL E]]]].
    destruct (segwit_roundtrip32 net v prog Hv HB HL ltac:(lia)) as [a' [E' D]].
    rewrite E in E'. injection E' as <-.
    assert (net_back net = net) as EN by (unfold net_back; destruct HN as [-> | [-> | ->]]; reflexivity).
    now rewrite EN in D.
Qed.

(* ---------- the same, with the conditions stated on the text alone ---------- *)

(* a text with a known prefix, separator '1', alphabet characters, 6 checksum characters after
   the program characters, fewer than 5 padding bits, all of them zero *)
Definition canonical_text (a : list Z) : Prop :=
  exists hrp syms body chk,
    a = hrp ++ [49] ++ map b32c syms /\ known_hrp hrp /\ Forall sym5 syms /\
    skipn 1 syms = body ++ chk /\ length chk = 6%nat /\ pad_bits body < 5 /\ pad_value body = 0.

Lemma app_eq_len {A} (a a' b b' : list A) :
  length b = length b' -> a ++ b = a' ++ b' -> a = a' /\ b = b'.
Proof.
  intros HL E.
  assert (LA : length a = length a').
  { apply (f_equal (@length A)) in E. rewrite !app_length in E. lia. }
  revert a' LA E. induction a as [|x a IH]; intros [|y a'] LA E; cbn in LA; try discriminate.
  - split; [reflexivity|exact E].
  - cbn [app] in E. injection E as -> E. destruct (IH a' ltac:(lia) E) as [-> ->]. auto.
Qed.

Lemma map_b32c_inj a : forall b, Forall sym5 a -> Forall sym5 b -> map b32c a = map b32c b -> a = b.
Proof.
  induction a as [|x a IH]; intros [|y b] Ha Hb E; cbn [map] in E; try discriminate; [reflexivity|].
  inversion Ha; inversion Hb; subst. injection E as E1 E2.
  f_equal; [apply b32c_inj; assumption|apply IH; assumption].
Qed.

(* the three prefixes cannot be confused: the split of an accepted text is unique *)
Lemma known_split hrp hrp' sep d d' :
  known_hrp hrp -> known_hrp hrp' -> (hrp = hrp_bcrt \/ sep = 49) ->
  hrp ++ [sep] ++ d = hrp' ++ [49] ++ d' -> hrp = hrp' /\ sep = 49 /\ d = d'.
Proof.
  intros [-> | [-> | ->]] [-> | [-> | ->]] HS E; cbn in E; try discriminate;
    try (injection E as -> ->; auto; fail);
    injection E; intros; subst; destruct HS as [HS|HS]; discriminate.
Qed.

(* every accepted text is canonical (fixes cfb8181, 00bc7dc) *)
Theorem decode_bech32_canonical a r : decode_bech32 a = Ok r -> canonical_text a.
Proof.
  destruct r as [[net v] prog]. intros H.
  destruct (segwit_decode_encode a net v prog H)
    as [_ [hrp [body [chk [-> [_ [HK [FA [LC [PB PZ]]]]]]]]]].
  exists hrp, (v :: body ++ chk), body, chk. repeat split; assumption.
Qed.

(* every encoder output is canonical: the characterisation is exact *)
Theorem segwit_encode_is_canonical net v prog a :
  0 <= v <= 16 -> bytes_ok prog -> (2 <= length prog <= 40)%nat -> 0 <= net <= 3 ->
  encode_bech32_checksum (witness_program v prog) net = Ok a -> canonical_text a.
Proof.
  intros Hv HB HL Hnet E.
  destruct (encode_segwit_shape net v prog Hv HB HL Hnet)
    as [hrp [g [chk [EP [HK [EG [FA [LC [EE _]]]]]]]]].
  rewrite E in EE. injection EE as ->.
  destruct (group_32_spec prog HB) as [g' [EG' [FG [_ SP]]]].
  rewrite EG in EG'. injection EG' as <-.
  destruct SP as [p [Hp [SL SV]]]; [intros ->; cbn in HL; lia|].
  exists hrp, (v :: g ++ chk), g, chk.
  split; [reflexivity|]. split; [exact HK|]. split; [exact FA|]. split; [reflexivity|].
  split; [exact LC|].
  assert (PB : pad_bits g = p).
  { unfold pad_bits. rewrite SL, Z.add_comm, Z.mul_comm, Z.mod_add, Z.mod_small; lia. }
  unfold pad_value. rewrite PB. split; [lia|]. rewrite SV. apply Z.mod_mul.
  apply Z.pow_nonzero; lia.
Qed.
