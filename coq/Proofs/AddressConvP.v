(* Proofs/AddressConvP.v — scriptPubKey <-> address, stated once for the five standard templates
   and for the outermost functions (C09), for the code after the fixes cfb8181, 00bc7dc, adc6e07,
   87f2a60:
   1. script -> address -> script and injectivity, uniformly over P2PKH/P2SH/P2WPKH/P2WSH/P2TR;
   2. address_to_script_pubkey and TxOut.to_address accept EXACTLY the addresses of the five
      templates (a text is accepted with result cs iff it is the address of cs on some network):
      the address <-> scriptPubKey map is a bijection in both directions, and the two parsers
      agree;
   3. the other entry points: RedeemScript.address, WitnessScript.address / p2sh_address,
      SegwitPubKey.p2sh_address, ScriptPubKey.parse(bytes).address and
      address_to_script_pubkey(a).serialize() (byte-level round trip);
   4. the former counterexamples (non-zero / over-long padding, "bcrtx", 21-byte v0 program,
      foreign Base58 version byte) are rejected. *)
From V Require Import Base.Prelude Base.Ints Base.Lfsr Model.Helper Model.Script Model.Base58
  Model.Bech32 Model.Address Model.AddressExt
  Proofs.HelperP Proofs.ScriptP
  Proofs.Base58P Proofs.Base58ConvP Proofs.PolymodP Proofs.Bech32Sweep Proofs.Bech32DetectP
  Proofs.Bech32P Proofs.AddressP Proofs.Base58CheckConvP Proofs.SegwitConvP.

(* ---------- concrete witnesses for decode_bech32 (no hash involved) ---------- *)

(* "tb1qrp33g0q5c5txsp9arysrx4k6zdkfs4nce4xj0gdcccefvpysxf3q0sl5k7": BIP173 valid P2WSH vector *)
Definition wA1 : list Z :=
  [116;98;49;113;114;112;51;51;103;48;113;53;99;53;116;120;115;112;57;97;114;121;115;114;120;52;
   107;54;122;100;107;102;115;52;110;99;101;52;120;106;48;103;100;99;99;99;101;102;118;112;121;
   115;120;102;51;113;48;115;108;53;107;55].
(* "tb1qrp33g0q5c5txsp9arysrx4k6zdkfs4nce4xj0gdcccefvpysxf3pjxtptv": BIP173 INVALID vector
   ("non-zero padding in 8-to-5 conversion") *)
Definition wA2 : list Z :=
  [116;98;49;113;114;112;51;51;103;48;113;53;99;53;116;120;115;112;57;97;114;121;115;114;120;52;
   107;54;122;100;107;102;115;52;110;99;101;52;120;106;48;103;100;99;99;99;101;102;118;112;121;
   115;120;102;51;112;106;120;116;112;116;118].
Definition wA_prog : bytes :=
  [24;99;20;60;20;197;22;104;4;189;25;32;51;86;218;19;108;152;86;120;205;77;39;161;184;198;50;
   150;4;144;50;98].
(* "bc1qqqqsyqcyq5rqwzqfpg9scrgwpugpzysn4v0345": P2WPKH of the bytes 00 01 .. 13 *)
Definition wB1 : list Z :=
  [98;99;49;113;113;113;113;115;121;113;99;121;113;53;114;113;119;122;113;102;112;103;57;115;99;
   114;103;119;112;117;103;112;122;121;115;110;52;118;48;51;52;53].
(* "bc1qqqqsyqcyq5rqwzqfpg9scrgwpugpzysnqtj07j6": the same program followed by one more zero
   symbol = 5 padding bits (BIP173: "zero padding of more than 4 bits" is invalid) *)
Definition wB2 : list Z :=
  [98;99;49;113;113;113;113;115;121;113;99;121;113;53;114;113;119;122;113;102;112;103;57;115;99;
   114;103;119;112;117;103;112;122;121;115;110;113;116;106;48;55;106;54].
Definition wB_prog : bytes := [0;1;2;3;4;5;6;7;8;9;10;11;12;13;14;15;16;17;18;19].
(* "bcrt1qqqqsyqcyq5rqwzqfpg9scrgwpugpzysnard0ew" and the same with 'x' for the separator *)
Definition wC1 : list Z :=
  [98;99;114;116;49;113;113;113;113;115;121;113;99;121;113;53;114;113;119;122;113;102;112;103;57;
   115;99;114;103;119;112;117;103;112;122;121;115;110;97;114;100;48;101;119].
Definition wC2 : list Z :=
  [98;99;114;116;120;113;113;113;113;115;121;113;99;121;113;53;114;113;119;122;113;102;112;103;57;
   115;99;114;103;119;112;117;103;112;122;121;115;110;97;114;100;48;101;119].
(* "bc1qqqqsyqcyq5rqwzqfpg9scrgwpugpzysnzsf6edgu": version 0 with the 21-byte program 00 .. 14 *)
Definition wD : list Z :=
  [98;99;49;113;113;113;113;115;121;113;99;121;113;53;114;113;119;122;113;102;112;103;57;115;99;
   114;103;119;112;117;103;112;122;121;115;110;122;115;102;54;101;100;103;117].
Definition wD_prog : bytes := wB_prog ++ [20].

(* the former counterexamples: the canonical texts decode and re-encode, the others are
   rejected by decode_bech32 (wA2, wB2: fix cfb8181; wC2: fix 00bc7dc).  wD shows the leniency
   that remains in decode_bech32 itself: a version-0 program of 21 bytes is returned (only the
   address parsers reject it, see [former_witnesses_rejected]) *)
Theorem decode_former_witnesses :
  decode_bech32 wA1 = Ok (1, 0, wA_prog) /\ decode_bech32 wA2 = Err /\
  decode_bech32 wB1 = Ok (0, 0, wB_prog) /\ decode_bech32 wB2 = Err /\
  decode_bech32 wC1 = Ok (3, 0, wB_prog) /\ decode_bech32 wC2 = Err /\
  decode_bech32 wD = Ok (0, 0, wD_prog) /\ length wD_prog = 21%nat.
Proof. repeat split; vm_compute; reflexivity. Qed.

(* ---------- the five templates ---------- *)

Definition std_template (t : Z) (h : bytes) : Prop :=
  bytes_ok h /\ (((t = 0 \/ t = 1 \/ t = 2) /\ length h = 20%nat) \/
                 ((t = 3 \/ t = 4) /\ length h = 32%nat)).
Definition std_script (t : Z) (h : bytes) : list cmd :=
  if t <? 2 then b58_script t h else seg_script t h.
Definition b58_version (t net : Z) : Z :=
  if t =? 0 then (if net =? 0 then 0 else 111) else (if net =? 0 then 5 else 196).

Lemma std_script_inj t1 h1 t2 h2 :
  std_template t1 h1 -> std_template t2 h2 -> std_script t1 h1 = std_script t2 h2 ->
  t1 = t2 /\ h1 = h2.
Proof.
  intros [_ T1] [_ T2] E. unfold std_script, b58_script, seg_script in E.
  destruct T1 as [[[-> | [-> | ->]] L1] | [[-> | ->] L1]];
    destruct T2 as [[[-> | [-> | ->]] L2] | [[-> | ->] L2]];
    cbn in E; try discriminate; injection E as ->; try (split; reflexivity); exfalso; lia.
Qed.

Section WithHash.
Variable hash256 : bytes -> bytes.
Hypothesis hash_len : forall x, length (hash256 x) = 32%nat.
Hypothesis hash_ok : forall x, bytes_ok (hash256 x).

Definition std_address (t : Z) (h : bytes) (net : Z) : result (list Z) :=
  if t <? 2 then b58_address hash256 t h net else segwit_address (seg_script t h) net.

Lemma std_seg t h : std_template t h -> 2 <= t -> seg_template t h.
Proof. intros [HB HT] H2. split; [exact HB|]. destruct HT as [[[-> | [-> | ->]] L] | [T L]]; auto; lia. Qed.

Lemma std_b58 t h : std_template t h -> t < 2 -> (t = 0 \/ t = 1) /\ length h = 20%nat.
Proof. intros [HB HT] H2. destruct HT as [[[-> | [-> | ->]] L] | [[-> | ->] L]]; auto; lia. Qed.

(* script -> address -> script, both parsers, the five templates, the four networks *)
Theorem std_address_roundtrip t h net :
  std_template t h -> 0 <= net <= 3 ->
  exists a, std_address t h net = Ok a /\
            address_to_script_pubkey hash256 a = Ok (std_script t h) /\
            to_address_spk hash256 a = Ok (std_script t h).
Proof.
  intros HT Hnet. unfold std_address, std_script. destruct (t <? 2) eqn:E2.
  - apply Z.ltb_lt in E2. destruct (std_b58 t h HT E2) as [T L].
    exact (base58_address_roundtrip hash256 hash_len hash_ok t h net T (proj1 HT) L).
  - apply Z.ltb_ge in E2.
    destruct (segwit_address_roundtrip hash256 t h net (std_seg t h HT E2) Hnet) as [a [A [_ [B C]]]].
    exists a. auto.
Qed.

(* per network, the address determines the template and the hash *)
Theorem std_address_injective t1 h1 t2 h2 net a :
  std_template t1 h1 -> std_template t2 h2 -> 0 <= net <= 3 ->
  std_address t1 h1 net = Ok a -> std_address t2 h2 net = Ok a -> t1 = t2 /\ h1 = h2.
Proof.
  intros T1 T2 Hnet E1 E2.
  destruct (std_address_roundtrip t1 h1 net T1 Hnet) as [a1 [A1 [R1 _]]].
  destruct (std_address_roundtrip t2 h2 net T2 Hnet) as [a2 [A2 [R2 _]]].
  rewrite E1 in A1. rewrite E2 in A2. injection A1 as <-. injection A2 as <-.
  rewrite R1 in R2. injection R2 as R2. exact (std_script_inj t1 h1 t2 h2 T1 T2 R2).
Qed.

(* ---------- the parsers accept exactly the addresses ---------- *)

(* "a is the address of the standard scriptPubKey cs on some network" *)
Definition addr_of (a : list Z) (cs : list cmd) : Prop :=
  exists t h net, std_template t h /\ 0 <= net <= 3 /\ cs = std_script t h /\
                  std_address t h net = Ok a.

Lemma b58_raw_ok raw v1 v2 : b58_raw_bad raw v1 v2 = false ->
  exists ver, raw = ver :: skipn 1 raw /\ length (skipn 1 raw) = 20%nat /\ (ver = v1 \/ ver = v2).
Proof.
  unfold b58_raw_bad. intros H. apply orb_false_iff in H as [H1 H2].
  apply negb_false_iff, Nat.eqb_eq in H1. apply negb_false_iff, orb_true_iff in H2.
  destruct raw as [|ver r]; [discriminate|]. exists ver. cbn [skipn nth] in *.
  split; [reflexivity|]. split; [cbn in H1; lia|]. destruct H2 as [E|E]; apply Z.eqb_eq in E; auto.
Qed.

(* Base58 branches (fix 87f2a60): 21 bytes, version byte of the template *)
Lemma b58_branch a raw t : (t = 0 \/ t = 1) ->
  raw_decode_base58 hash256 a = Ok raw ->
  b58_raw_bad raw (b58_version t 0) (b58_version t 1) = false ->
  addr_of a (b58_script t (skipn 1 raw)).
Proof.
  intros Ht ER HB.
  destruct (b58_raw_ok raw _ _ HB) as [ver [ERAW [L20 HV]]].
  destruct (raw_decode_base58_encode hash256 a raw ER hash_len) as [HBr EN].
  assert (T2 : (t <? 2) = true) by (apply Z.ltb_lt; lia).
  exists t, (skipn 1 raw), (if ver =? b58_version t 0 then 0 else 1).
  split; [split; [exact (bytes_ok_skipn 1 raw HBr)|left; split; [lia|exact L20]]|].
  split; [destruct (ver =? b58_version t 0); lia|].
  split; [unfold std_script; now rewrite T2|].
  unfold std_address. rewrite T2. rewrite ERAW in EN.
  unfold b58_address, p2pkh_address, p2sh_address, b58_version in *.
  destruct Ht as [-> | ->]; cbn [Z.eqb] in *; destruct HV as [-> | ->]; exact EN.
Qed.

Lemma seg_raw_serialize_gen t h : (t = 2 \/ t = 3 \/ t = 4) -> zlen h <= 75 ->
  raw_serialize (mk_script (seg_script t h)) = Ok (witness_program (seg_version t) h).
Proof.
  intros HT HL. unfold raw_serialize, mk_script. cbn [s_raw s_cmds].
  destruct HT as [-> | [-> | ->]].
  - exact (ser_two 0 h ltac:(lia) HL).
  - exact (ser_two 0 h ltac:(lia) HL).
  - exact (ser_two 81 h ltac:(lia) HL).
Qed.

(* segwit branches: decode then encode is the identity (Proofs/SegwitConvP.v) *)
Lemma seg_branch a net h t : seg_template t h ->
  decode_bech32 a = Ok (net, seg_version t, h) -> addr_of a (seg_script t h).
Proof.
  intros ST ED.
  destruct (decode_bech32_wf a net _ h ED) as [HN _].
  assert (T2 : 2 <= t) by (destruct ST as [_ [[-> _] | [[-> | ->] _]]]; lia).
  assert (TB : (t <? 2) = false) by (apply Z.ltb_ge; exact T2).
  exists t, h, net. split.
  { destruct ST as [B [[-> L] | [[-> | ->] L]]]; split; auto 6. }
  split; [lia|]. split; [unfold std_script; now rewrite TB|].
  unfold std_address. rewrite TB. unfold segwit_address. rewrite (seg_raw_serialize t h ST). cbn [bind].
  exact (proj1 (segwit_decode_encode a net (seg_version t) h ED)).
Qed.

(* TxOut.to_address accepts a text exactly when it is the address of one of the five templates,
   and returns that scriptPubKey *)
Theorem to_address_iff a cs : to_address_spk hash256 a = Ok cs <-> addr_of a cs.
Proof.
  split.
  2:{ intros [t [h [net [HT [Hnet [-> EA]]]]]].
      destruct (std_address_roundtrip t h net HT Hnet) as [a' [EA' [_ R]]].
      rewrite EA in EA'. injection EA' as <-. exact R. }
  unfold to_address_spk. intros H.
  destruct (starts_with [98; 99; 49] a || starts_with [116; 98; 49] a ||
            starts_with [98; 99; 114; 116; 49] a) eqn:SW.
  - destruct (decode_bech32 a) as [[[net v] h]|] eqn:ED; [|discriminate].
    cbn [bind] in H. cbv beta iota in H.
    destruct (decode_bech32_wf a net v h ED) as [_ [_ [HB _]]].
    destruct (v =? 0) eqn:V0.
    + apply Z.eqb_eq in V0. subst v.
      destruct (length h =? 20)%nat eqn:L20.
      * apply Nat.eqb_eq in L20. injection H as <-.
        apply (seg_branch a net h 2); [split; auto|exact ED].
      * destruct (length h =? 32)%nat eqn:L32; [|discriminate].
        apply Nat.eqb_eq in L32. injection H as <-.
        apply (seg_branch a net h 3); [split; auto|exact ED].
    + destruct (v =? 1) eqn:V1; [|discriminate]. apply Z.eqb_eq in V1. subst v.
      destruct (length h =? 32)%nat eqn:L32; [|discriminate].
      apply Nat.eqb_eq in L32. injection H as <-.
      apply (seg_branch a net h 4); [split; auto|exact ED].
  - destruct a as [|c a']; [discriminate|].
    destruct ((c =? 51) || (c =? 50)) eqn:C1.
    + destruct (raw_decode_base58 hash256 (c :: a')) as [raw|] eqn:ER; [|discriminate].
      cbn [bind] in H. destruct (b58_raw_bad raw 5 196) eqn:BB; [discriminate|].
      injection H as <-. exact (b58_branch _ raw 1 (or_intror eq_refl) ER BB).
    + destruct ((c =? 49) || (c =? 109) || (c =? 110)) eqn:C2; [|discriminate].
      destruct (raw_decode_base58 hash256 (c :: a')) as [raw|] eqn:ER; [|discriminate].
      cbn [bind] in H. destruct (b58_raw_bad raw 0 111) eqn:BB; [discriminate|].
      injection H as <-. exact (b58_branch _ raw 0 (or_introl eq_refl) ER BB).
Qed.

(* the character tested by address_to_script_pubkey ('q' / 'p' after the separator) is the
   version symbol *)
Lemma version_char a net v h c : decode_bech32 a = Ok (net, v, h) ->
  beq (firstn 4 a) [98; 99; 49; c] || beq (firstn 4 a) [116; 98; 49; c] ||
  beq (firstn 6 a) [98; 99; 114; 116; 49; c] = true ->
  b32c v = c /\ sym5 v.
Proof.
  intros D T.
  destruct (segwit_decode_encode a net v h D) as [_ [hrp [body [chk [-> [_ [HK [FA _]]]]]]]].
  inversion FA as [|? ? Hv _]; subst. split; [|exact Hv].
  apply orb_true_iff in T as [T|T]; [apply orb_true_iff in T as [T|T]|]; apply beq_eq in T;
    destruct HK as [-> | [-> | ->]]; cbn [hrp_bc hrp_tb hrp_bcrt firstn app map] in T;
    try discriminate; injection T; intros; subst; reflexivity.
Qed.

(* address_to_script_pubkey: the same *)
Theorem address_to_script_pubkey_iff a cs :
  address_to_script_pubkey hash256 a = Ok cs <-> addr_of a cs.
Proof.
  split.
  2:{ intros [t [h [net [HT [Hnet [-> EA]]]]]].
      destruct (std_address_roundtrip t h net HT Hnet) as [a' [EA' [R _]]].
      rewrite EA in EA'. injection EA' as <-. exact R. }
  unfold address_to_script_pubkey. intros H.
  assert (SEGV : forall t c net v h, (t = 2 \/ t = 3 \/ t = 4) -> c = (if t =? 4 then 112 else 113) ->
            beq (firstn 4 a) [98; 99; 49; c] || beq (firstn 4 a) [116; 98; 49; c] ||
            beq (firstn 6 a) [98; 99; 114; 116; 49; c] = true ->
            decode_bech32 a = Ok (net, v, h) -> v = seg_version t).
  { intros t c net v h Ht Hc TX ED.
    destruct (version_char a net v h c ED TX) as [VC Hv].
    apply b32c_inj; [exact Hv| |].
    - unfold seg_version, sym5. destruct (t =? 4); lia.
    - rewrite VC, Hc. unfold seg_version. destruct (t =? 4); reflexivity. }
  destruct (beq (firstn 1 a) [49] || beq (firstn 1 a) [109] || beq (firstn 1 a) [110]).
  { destruct (raw_decode_base58 hash256 a) as [raw|] eqn:ER; [|discriminate].
    cbn [bind] in H. destruct (b58_raw_bad raw 0 111) eqn:BB; [discriminate|].
    injection H as <-. exact (b58_branch _ raw 0 (or_introl eq_refl) ER BB). }
  destruct (beq (firstn 1 a) [50] || beq (firstn 1 a) [51]).
  { destruct (raw_decode_base58 hash256 a) as [raw|] eqn:ER; [|discriminate].
    cbn [bind] in H. destruct (b58_raw_bad raw 5 196) eqn:BB; [discriminate|].
    injection H as <-. exact (b58_branch _ raw 1 (or_intror eq_refl) ER BB). }
  destruct (beq (firstn 4 a) txt_bc1q || beq (firstn 4 a) txt_tb1q || beq (firstn 6 a) txt_bcrt1q) eqn:TQ.
  { destruct (decode_bech32 a) as [[[net v] h]|] eqn:ED; [|discriminate].
    cbn [bind] in H. cbv beta iota in H.
    destruct (decode_bech32_wf a net v h ED) as [_ [_ [HB _]]].
    destruct (length h =? 20)%nat eqn:L20.
    - apply Nat.eqb_eq in L20. injection H as <-.
      pose proof (SEGV 2 113 net v h ltac:(auto) eq_refl TQ eq_refl) as ->.
      apply (seg_branch a net h 2); [split; auto|exact ED].
    - destruct (length h =? 32)%nat eqn:L32; [|discriminate].
      apply Nat.eqb_eq in L32. injection H as <-.
      pose proof (SEGV 3 113 net v h ltac:(auto) eq_refl TQ eq_refl) as ->.
      apply (seg_branch a net h 3); [split; auto|exact ED]. }
  destruct (beq (firstn 4 a) txt_bc1p || beq (firstn 4 a) txt_tb1p || beq (firstn 6 a) txt_bcrt1p) eqn:TP;
    [|discriminate].
  destruct (decode_bech32 a) as [[[net v] h]|] eqn:ED; [|discriminate].
  cbn [bind] in H. cbv beta iota in H.
  destruct (decode_bech32_wf a net v h ED) as [_ [_ [HB _]]].
  destruct (length h =? 32)%nat eqn:L32; [|discriminate]. cbn [negb] in H.
  apply Nat.eqb_eq in L32. injection H as <-.
  pose proof (SEGV 4 112 net v h ltac:(auto) eq_refl TP eq_refl) as ->.
  apply (seg_branch a net h 4); [split; auto|exact ED].
Qed.

(* the two parsers agree on every text *)
Corollary parsers_agree a cs :
  address_to_script_pubkey hash256 a = Ok cs <-> to_address_spk hash256 a = Ok cs.
Proof. rewrite address_to_script_pubkey_iff, to_address_iff. reflexivity. Qed.

(* address -> script is injective among the accepted texts of one network *)
Corollary parser_injective_per_network t1 h1 t2 h2 net a1 a2 cs :
  std_template t1 h1 -> std_template t2 h2 -> 0 <= net <= 3 ->
  std_address t1 h1 net = Ok a1 -> std_address t2 h2 net = Ok a2 ->
  to_address_spk hash256 a1 = Ok cs -> to_address_spk hash256 a2 = Ok cs -> a1 = a2.
Proof.
  intros T1 T2 Hnet E1 E2 P1 P2.
  destruct (std_address_roundtrip t1 h1 net T1 Hnet) as [a1' [A1 [_ R1]]].
  destruct (std_address_roundtrip t2 h2 net T2 Hnet) as [a2' [A2 [_ R2]]].
  rewrite E1 in A1. rewrite E2 in A2. injection A1 as <-. injection A2 as <-.
  rewrite P1 in R1. rewrite P2 in R2. injection R1 as R1. injection R2 as R2.
  destruct (std_script_inj t1 h1 t2 h2 T1 T2 ltac:(congruence)) as [-> ->]. congruence.
Qed.

(* ---------- the former counterexamples are rejected ---------- *)

(* wA2 (BIP173's invalid non-zero padding vector), wB2 (5 padding bits), wD (version 0 with a
   21-byte program): rejected by both parsers; the canonical wA1, wB1 are accepted *)
Theorem former_witnesses_rejected :
  address_to_script_pubkey hash256 wA1 = Ok (p2wsh_script wA_prog) /\
  to_address_spk hash256 wA1 = Ok (p2wsh_script wA_prog) /\
  address_to_script_pubkey hash256 wA2 = Err /\ to_address_spk hash256 wA2 = Err /\
  to_address_spk hash256 wB1 = Ok (p2wpkh_script wB_prog) /\
  address_to_script_pubkey hash256 wB2 = Err /\ to_address_spk hash256 wB2 = Err /\
  address_to_script_pubkey hash256 wD = Err /\ to_address_spk hash256 wD = Err.
Proof. repeat split; vm_compute; reflexivity. Qed.

(* Base58: the version byte is compared (fix 87f2a60).  For every 20-byte hash the Base58Check
   text of 0x70 :: h starts with 'n' (so it reaches the P2PKH branch) and both parsers reject it *)
Theorem base58_foreign_version_rejected h :
  bytes_ok h -> length h = 20%nat ->
  exists a, encode_base58_checksum hash256 (112 :: h) = Ok a /\
            address_to_script_pubkey hash256 a = Err /\ to_address_spk hash256 a = Err.
Proof.
  intros HB HL.
  assert (HBr : bytes_ok (112 :: h)) by (constructor; [unfold byte_ok; lia|exact HB]).
  destruct (base58check_roundtrip hash256 hash_len hash_ok _ HBr) as [a [EA [_ DEC]]].
  exists a. split; [exact EA|].
  assert (K33 : 58 ^ Z.of_nat 33 = 58 ^ 33) by reflexivity.
  assert (K34 : 58 ^ Z.of_nat 34 = 58 ^ 34) by reflexivity.
  destruct (b58_first_char hash256 hash_len hash_ok 112 h a ltac:(lia) HB HL EA)
    as [dg [r [-> [Hd HK]]]].
  destruct (HK 33%nat) as [B1 B2]; [rewrite K33; unfold P24; lia|rewrite K34; unfold P24; lia|].
  rewrite K33 in B1, B2. unfold P24 in B1, B2.
  assert (dg = 45) as -> by lia. change (b58_char 45) with 110 in *.
  split.
  - unfold address_to_script_pubkey.
    cbn -[raw_decode_base58 decode_bech32 length Nat.eqb b58_raw_bad]. rewrite DEC.
    cbn [bind]. unfold b58_raw_bad. cbn [length nth]. rewrite HL. reflexivity.
  - unfold to_address_spk.
    cbn -[raw_decode_base58 decode_bech32 length Nat.eqb b58_raw_bad]. rewrite DEC.
    cbn [bind]. unfold b58_raw_bad. cbn [length nth]. rewrite HL. reflexivity.
Qed.

(* ---------- the other entry points ---------- *)

Section OtherEntryPoints.
Variable hash160 : bytes -> bytes.
Variable sha256 : bytes -> bytes.
Hypothesis h160_len : forall x, length (hash160 x) = 20%nat.
Hypothesis h160_ok : forall x, bytes_ok (hash160 x).
Hypothesis sha_len : forall x, length (sha256 x) = 32%nat.
Hypothesis sha_ok : forall x, bytes_ok (sha256 x).

(* RedeemScript.address (and SegwitPubKey.p2sh_address, which is the same call on the
   scriptPubKey's own commands): the P2SH address of hash160(serialisation), read back by both
   parsers as that P2SH scriptPubKey *)
Theorem redeem_script_address_roundtrip cs raw net :
  raw_serialize (mk_script cs) = Ok raw ->
  exists a, redeem_script_address hash256 hash160 cs net = Ok a /\
            segwit_p2sh_address hash256 hash160 cs net = Ok a /\
            address_to_script_pubkey hash256 a = Ok (p2sh_script (hash160 raw)) /\
            to_address_spk hash256 a = Ok (p2sh_script (hash160 raw)).
Proof.
  intros ER.
  destruct (base58_address_roundtrip hash256 hash_len hash_ok 1 (hash160 raw) net
              (or_intror eq_refl) (h160_ok raw) (h160_len raw)) as [a [A [B C]]].
  change (1 =? 0) with false in A. cbv iota in A.
  exists a. unfold segwit_p2sh_address, redeem_script_address. rewrite ER. cbn [bind]. auto.
Qed.

(* WitnessScript.address: the P2WSH address of sha256(serialisation) *)
Theorem witness_script_address_roundtrip cs raw net :
  raw_serialize (mk_script cs) = Ok raw -> 0 <= net <= 3 ->
  exists a, witness_script_address sha256 cs net = Ok a /\
            decode_bech32 a = Ok (net_back net, 0, sha256 raw) /\
            address_to_script_pubkey hash256 a = Ok (p2wsh_script (sha256 raw)) /\
            to_address_spk hash256 a = Ok (p2wsh_script (sha256 raw)).
Proof.
  intros ER Hnet.
  assert (ST : seg_template 3 (sha256 raw)) by (split; [apply sha_ok|right; split; [auto|apply sha_len]]).
  destruct (segwit_address_roundtrip hash256 3 (sha256 raw) net ST Hnet) as [a [A [B [C D]]]].
  exists a. unfold witness_script_address. rewrite ER. cbn [bind]. auto.
Qed.

(* WitnessScript.p2sh_address: P2SH of the P2WSH scriptPubKey 00 20 sha256(serialisation) *)
Theorem witness_script_p2sh_address_roundtrip cs raw net :
  raw_serialize (mk_script cs) = Ok raw ->
  exists a, witness_script_p2sh_address hash256 hash160 sha256 cs net = Ok a /\
            address_to_script_pubkey hash256 a =
              Ok (p2sh_script (hash160 (0 :: 32 :: sha256 raw))) /\
            to_address_spk hash256 a = Ok (p2sh_script (hash160 (0 :: 32 :: sha256 raw))).
Proof.
  intros ER.
  assert (ST : seg_template 3 (sha256 raw)) by (split; [apply sha_ok|right; split; [auto|apply sha_len]]).
  pose proof (seg_raw_serialize 3 (sha256 raw) ST) as RS.
  change (seg_script 3 (sha256 raw)) with (p2wsh_script (sha256 raw)) in RS.
  unfold witness_program, wit_version_byte, seg_version in RS. cbn [Z.eqb] in RS.
  assert (ZL : zlen (sha256 raw) = 32) by (unfold zlen; now rewrite sha_len). rewrite ZL in RS.
  destruct (redeem_script_address_roundtrip (p2wsh_script (sha256 raw)) _ net RS) as [a [A [_ [B C]]]].
  exists a. unfold witness_script_p2sh_address. rewrite ER. cbn [bind]. auto.
Qed.

End OtherEntryPoints.

(* ---------- byte level: ScriptPubKey.parse(bytes).address / address -> serialize() ---------- *)

Lemma std_script_strict t h : std_template t h -> cmds_strictb (std_script t h) = true.
Proof.
  intros [_ HT]. unfold std_script, b58_script, seg_script, p2pkh_script, p2sh_script,
    p2wpkh_script, p2wsh_script, p2tr_script, cmds_strictb, cmd_strictb, zlen.
  destruct HT as [[[-> | [-> | ->]] L] | [[-> | ->] L]]; cbn; rewrite L; reflexivity.
Qed.

Lemma std_spk_address t h net : std_template t h ->
  spk_address hash256 (std_script t h) net = std_address t h net.
Proof.
  intros [_ HT]. unfold std_script, std_address, spk_address, b58_script, b58_address, seg_script,
    p2pkh_script, p2sh_script, p2wpkh_script, p2wsh_script, p2tr_script.
  destruct HT as [[[-> | [-> | ->]] L] | [[-> | ->] L]]; cbn -[segwit_address p2pkh_address p2sh_address];
    rewrite L; reflexivity.
Qed.

(* serialised standard scriptPubKey -> typed object -> address -> scriptPubKey -> the same bytes *)
Theorem spk_bytes_roundtrip t h net :
  std_template t h -> 0 <= net <= 3 ->
  exists b a, serialize_script (mk_script (std_script t h)) = Ok b /\
              spk_bytes_address hash256 b net = Ok a /\
              std_address t h net = Ok a /\
              address_to_spk_bytes hash256 a = Ok b.
Proof.
  intros HT Hnet.
  pose proof (std_script_strict t h HT) as SS.
  destruct (script_roundtrip_strict _ SS) as [raw [ER _]].
  assert (LR : zlen raw < 9223372036854775808).
  { assert (zlen raw <= 40).
    { destruct HT as [_ HT]. unfold std_script, b58_script, seg_script, p2pkh_script, p2sh_script,
        p2wpkh_script, p2wsh_script, p2tr_script in ER.
      destruct HT as [[[-> | [-> | ->]] L] | [[-> | ->] L]]; cbn in ER;
        unfold zlen in ER; rewrite L in ER; cbn in ER; injection ER as <-; unfold zlen; cbn [length];
        rewrite ?app_length, L; cbn; lia. }
    lia. }
  destruct (script_stream_roundtrip _ (cmds_strict_wf _ SS) raw ER LR) as [b [EB [_ PB]]].
  specialize (PB []). rewrite app_nil_r, (canon_cmds_strict _ SS) in PB.
  destruct (std_address_roundtrip t h net HT Hnet) as [a [EA [A2S _]]].
  exists b, a. split; [exact EB|]. split; [|split; [exact EA|]].
  - unfold spk_bytes_address, parse_script_pubkey. rewrite PB. cbn [bind]. cbv beta iota.
    cbn [s_cmds mk_script].
    assert (REC : is_p2pkh (std_script t h) || is_p2sh (std_script t h) || is_p2wpkh (std_script t h)
                  || is_p2wsh (std_script t h) || is_p2tr (std_script t h) = true).
    { destruct HT as [_ HT]. unfold std_script, b58_script, seg_script, p2pkh_script, p2sh_script,
        p2wpkh_script, p2wsh_script, p2tr_script.
      destruct HT as [[[-> | [-> | ->]] L] | [[-> | ->] L]]; cbn; rewrite L; reflexivity. }
    rewrite REC. cbn [bind s_cmds mk_script]. cbv beta iota.
    rewrite (std_spk_address t h net HT). exact EA.
  - unfold address_to_spk_bytes. rewrite A2S. cbn [bind]. exact EB.
Qed.

End WithHash.
