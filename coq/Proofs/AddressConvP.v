(* Proofs/AddressConvP.v — scriptPubKey <-> address, stated once for the five standard templates
   and for the outermost functions (C09):
   1. script -> address -> script and injectivity, uniformly over P2PKH/P2SH/P2WPKH/P2WSH/P2TR;
   2. what TxOut.to_address can return (only the five templates, with the right lengths) and
      the converse address -> script -> address for canonical texts;
   3. the other entry points: RedeemScript.address, WitnessScript.address / p2sh_address,
      SegwitPubKey.p2sh_address, ScriptPubKey.parse(bytes).address and
      address_to_script_pubkey(a).serialize() (byte-level round trip);
   4. witnesses that the parsers accept more than the encoders' images: non-zero / over-long
      padding, non-standard program lengths, foreign Base58 version bytes. *)
From V Require Import Base.Prelude Base.Ints Base.Lfsr Model.Helper Model.Script Model.Base58
  Model.Bech32 Model.Address Model.AddressExt
  Proofs.HelperP Proofs.ScriptP
  Proofs.Base58P Proofs.Base58ConvP Proofs.PolymodP Proofs.Bech32Sweep Proofs.Bech32DetectP
  Proofs.Bech32P Proofs.AddressP Proofs.Base58CheckConvP Proofs.SegwitConvP.

(* ---------- concrete witnesses for decode_bech32 (no hash involved) ---------- *)

(* "tb1qrp33g0q5c5txsp9arysrx4k6zdkfs4nce4xj0gdcccefvpysxf3q0sl5k7": BIP173 valid P2WSH vector *)
Definition wA1 : list Z :=
  [116;98;49;113;114;112;51;51;103;48;113;53;99;53;116;120;115;112;57;97;114;121;115;114;120;52;
   107;54;122;100;107;102;115;52;110;99;101;52;120;106;48;103;100;99;99;99;101;102;118;112;121;
   115;120;102;51;113;48;115;108;53;107;55].
(* "tb1qrp33g0q5c5txsp9arysrx4k6zdkfs4nce4xj0gdcccefvpysxf3pjxtptv": BIP173 INVALID vector
   ("non-zero padding in 8-to-5 conversion") *)
Definition wA2 : list Z :=
  [116;98;49;113;114;112;51;51;103;48;113;53;99;53;116;120;115;112;57;97;114;121;115;114;120;52;
   107;54;122;100;107;102;115;52;110;99;101;52;120;106;48;103;100;99;99;99;101;102;118;112;121;
   115;120;102;51;112;106;120;116;112;116;118].
Definition wA_prog : bytes :=
  [24;99;20;60;20;197;22;104;4;189;25;32;51;86;218;19;108;152;86;120;205;77;39;161;184;198;50;
   150;4;144;50;98].
(* "bc1qqqqsyqcyq5rqwzqfpg9scrgwpugpzysn4v0345": P2WPKH of the bytes 00 01 .. 13 *)
Definition wB1 : list Z :=
  [98;99;49;113;113;113;113;115;121;113;99;121;113;53;114;113;119;122;113;102;112;103;57;115;99;
   114;103;119;112;117;103;112;122;121;115;110;52;118;48;51;52;53].
(* "bc1qqqqsyqcyq5rqwzqfpg9scrgwpugpzysnqtj07j6": the same program followed by one more zero
   symbol = 5 padding bits (BIP173: "zero padding of more than 4 bits" is invalid) *)
Definition wB2 : list Z :=
  [98;99;49;113;113;113;113;115;121;113;99;121;113;53;114;113;119;122;113;102;112;103;57;115;99;
   114;103;119;112;117;103;112;122;121;115;110;113;116;106;48;55;106;54].
Definition wB_prog : bytes := [0;1;2;3;4;5;6;7;8;9;10;11;12;13;14;15;16;17;18;19].
(* "bcrt1qqqqsyqcyq5rqwzqfpg9scrgwpugpzysnard0ew" and the same with 'x' for the separator *)
Definition wC1 : list Z :=
  [98;99;114;116;49;113;113;113;113;115;121;113;99;121;113;53;114;113;119;122;113;102;112;103;57;
   115;99;114;103;119;112;117;103;112;122;121;115;110;97;114;100;48;101;119].
Definition wC2 : list Z :=
  [98;99;114;116;120;113;113;113;113;115;121;113;99;121;113;53;114;113;119;122;113;102;112;103;57;
   115;99;114;103;119;112;117;103;112;122;121;115;110;97;114;100;48;101;119].
(* "bc1qqqqsyqcyq5rqwzqfpg9scrgwpugpzysnzsf6edgu": version 0 with the 21-byte program 00 .. 14 *)
Definition wD : list Z :=
  [98;99;49;113;113;113;113;115;121;113;99;121;113;53;114;113;119;122;113;102;112;103;57;115;99;
   114;103;119;112;117;103;112;122;121;115;110;122;115;102;54;101;100;103;117].
Definition wD_prog : bytes := wB_prog ++ [20].

(* non-zero padding is accepted: the canonical address and a second text decode alike *)
Theorem decode_nonzero_padding_refuted :
  wA1 <> wA2 /\ decode_bech32 wA1 = Ok (1, 0, wA_prog) /\ decode_bech32 wA2 = Ok (1, 0, wA_prog) /\
  encode_bech32_checksum (witness_program 0 wA_prog) 1 = Ok wA1.
Proof. repeat split; try (vm_compute; reflexivity). discriminate. Qed.

(* five padding bits are accepted *)
Theorem decode_long_padding_refuted :
  wB1 <> wB2 /\ decode_bech32 wB1 = Ok (0, 0, wB_prog) /\ decode_bech32 wB2 = Ok (0, 0, wB_prog) /\
  encode_bech32_checksum (witness_program 0 wB_prog) 0 = Ok wB1.
Proof. repeat split; try (vm_compute; reflexivity). discriminate. Qed.

(* the character after "bcrt" is never looked at *)
Theorem decode_regtest_separator_refuted :
  wC1 <> wC2 /\ decode_bech32 wC1 = Ok (3, 0, wB_prog) /\ decode_bech32 wC2 = Ok (3, 0, wB_prog) /\
  encode_bech32_checksum (witness_program 0 wB_prog) 3 = Ok wC1.
Proof. repeat split; try (vm_compute; reflexivity). discriminate. Qed.

(* ---------- the five templates ---------- *)

Definition std_template (t : Z) (h : bytes) : Prop :=
  bytes_ok h /\ (((t = 0 \/ t = 1 \/ t = 2) /\ length h = 20%nat) \/
                 ((t = 3 \/ t = 4) /\ length h = 32%nat)).
Definition std_script (t : Z) (h : bytes) : list cmd :=
  if t <? 2 then b58_script t h else seg_script t h.
Definition b58_version (t net : Z) : Z :=
  if t =? 0 then (if net =? 0 then 0 else 111) else (if net =? 0 then 5 else 196).

Lemma std_script_inj t1 h1 t2 h2 :
  std_template t1 h1 -> std_template t2 h2 -> std_script t1 h1 = std_script t2 h2 ->
  t1 = t2 /\ h1 = h2.
Proof.
  intros [_ T1] [_ T2] E. unfold std_script, b58_script, seg_script in E.
  destruct T1 as [[[-> | [-> | ->]] L1] | [[-> | ->] L1]];
    destruct T2 as [[[-> | [-> | ->]] L2] | [[-> | ->] L2]];
    cbn in E; try discriminate; injection E as ->; try (split; reflexivity); exfalso; lia.
Qed.

Section WithHash.
Variable hash256 : bytes -> bytes.
Hypothesis hash_len : forall x, length (hash256 x) = 32%nat.
Hypothesis hash_ok : forall x, bytes_ok (hash256 x).

Definition std_address (t : Z) (h : bytes) (net : Z) : result (list Z) :=
  if t <? 2 then b58_address hash256 t h net else segwit_address (seg_script t h) net.

Lemma std_seg t h : std_template t h -> 2 <= t -> seg_template t h.
Proof. intros [HB HT] H2. split; [exact HB|]. destruct HT as [[[-> | [-> | ->]] L] | [T L]]; auto; lia. Qed.

Lemma std_b58 t h : std_template t h -> t < 2 -> (t = 0 \/ t = 1) /\ length h = 20%nat.
Proof. intros [HB HT] H2. destruct HT as [[[-> | [-> | ->]] L] | [[-> | ->] L]]; auto; lia. Qed.

(* script -> address -> script, both parsers, the five templates, the four networks *)
Theorem std_address_roundtrip t h net :
  std_template t h -> 0 <= net <= 3 ->
  exists a, std_address t h net = Ok a /\
            address_to_script_pubkey hash256 a = Ok (std_script t h) /\
            to_address_spk hash256 a = Ok (std_script t h).
Proof.
  intros HT Hnet. unfold std_address, std_script. destruct (t <? 2) eqn:E2.
  - apply Z.ltb_lt in E2. destruct (std_b58 t h HT E2) as [T L].
    exact (base58_address_roundtrip hash256 hash_len hash_ok t h net T (proj1 HT) L).
  - apply Z.ltb_ge in E2.
    destruct (segwit_address_roundtrip hash256 t h net (std_seg t h HT E2) Hnet) as [a [A [_ [B C]]]].
    exists a. auto.
Qed.

(* per network, the address determines the template and the hash *)
Theorem std_address_injective t1 h1 t2 h2 net a :
  std_template t1 h1 -> std_template t2 h2 -> 0 <= net <= 3 ->
  std_address t1 h1 net = Ok a -> std_address t2 h2 net = Ok a -> t1 = t2 /\ h1 = h2.
Proof.
  intros T1 T2 Hnet E1 E2.
  destruct (std_address_roundtrip t1 h1 net T1 Hnet) as [a1 [A1 [R1 _]]].
  destruct (std_address_roundtrip t2 h2 net T2 Hnet) as [a2 [A2 [R2 _]]].
  rewrite E1 in A1. rewrite E2 in A2. injection A1 as <-. injection A2 as <-.
  rewrite R1 in R2. injection R2 as R2. exact (std_script_inj t1 h1 t2 h2 T1 T2 R2).
Qed.

(* ---------- what TxOut.to_address returns, and the way back ---------- *)

Lemma skipn1_len (r : bytes) n : length (skipn 1 r) = S n -> exists v, r = v :: skipn 1 r.
Proof. destruct r as [|v r]; cbn; [discriminate|]. eauto. Qed.

Lemma decode_base58_inv a h : decode_base58 hash256 a = Ok h -> length h = 20%nat ->
  bytes_ok h /\ exists ver, raw_decode_base58 hash256 a = Ok (ver :: h) /\
                            encode_base58_checksum hash256 (ver :: h) = Ok a.
Proof.
  unfold decode_base58. intros H L.
  destruct (raw_decode_base58 hash256 a) as [r|] eqn:ER; [|discriminate]. cbn [bind] in H.
  assert (EH : h = skipn 1 r) by (injection H as <-; reflexivity). clear H. subst h.
  destruct (skipn1_len r 19 L) as [ver E].
  destruct (raw_decode_base58_encode hash256 a r ER hash_len) as [HB EN].
  split; [exact (bytes_ok_skipn 1 r HB)|]. exists ver. rewrite <- E. auto.
Qed.

(* TxOut.to_address returns one of the five templates, with a hash of the right length, and
   the text determines it through the two decoders; a canonical segwit text, or a Base58Check
   text whose version byte is the one of (template, network), is exactly the address of the
   returned scriptPubKey *)
Definition to_address_concl (a : list Z) (cs : list cmd) : Prop :=
  exists t h, std_template t h /\ cs = std_script t h /\
    ((2 <= t /\ exists net, (net = 0 \/ net = 1 \/ net = 3) /\
                 decode_bech32 a = Ok (net, seg_version t, h) /\
                 (canonical_text a -> std_address t h net = Ok a)) \/
     (t < 2 /\ exists ver, raw_decode_base58 hash256 a = Ok (ver :: h) /\
                 forall net, ver = b58_version t net -> std_address t h net = Ok a)).

Theorem to_address_converse a cs :
  to_address_spk hash256 a = Ok cs -> to_address_concl a cs.
Proof.
  unfold to_address_spk. intros H.
  destruct (starts_with [98; 99; 49] a || starts_with [116; 98; 49] a ||
            starts_with [98; 99; 114; 116; 49] a) eqn:SW.
  - destruct (decode_bech32 a) as [[[net v] h]|] eqn:ED; [|discriminate].
    cbn [bind] in H. cbv beta iota in H.
    destruct (decode_bech32_wf a net v h ED) as [HN [_ [HB _]]].
    assert (SEG : forall t, seg_template t h -> v = seg_version t -> cs = seg_script t h ->
              to_address_concl a cs).
    { intros t ST -> ->. exists t, h.
      assert (T2 : 2 <= t) by (destruct ST as [_ [[-> _] | [[-> | ->] _]]]; lia).
      split.
      { destruct ST as [B [[-> L] | [[-> | ->] L]]]; split; auto 6. }
      split; [unfold std_script; destruct (t <? 2) eqn:E; [lia|reflexivity]|].
      left. split; [exact T2|]. exists net. split; [exact HN|]. split; [exact ED|].
      intros CT. unfold std_address. destruct (t <? 2) eqn:E; [lia|].
      unfold segwit_address. rewrite (seg_raw_serialize t h ST). cbn [bind].
      exact (segwit_decode_encode_canonical a net (seg_version t) h ED CT). }
    destruct (v =? 0) eqn:V0.
    + apply Z.eqb_eq in V0. subst v.
      destruct (length h =? 20)%nat eqn:L20.
      * apply Nat.eqb_eq in L20. injection H as <-.
        apply (SEG 2); [split; auto|reflexivity|reflexivity].
      * destruct (length h =? 32)%nat eqn:L32; [|discriminate].
        apply Nat.eqb_eq in L32. injection H as <-.
        apply (SEG 3); [split; auto|reflexivity|reflexivity].
    + destruct (v =? 1) eqn:V1; [|discriminate]. apply Z.eqb_eq in V1. subst v.
      destruct (length h =? 32)%nat eqn:L32; [|discriminate].
      apply Nat.eqb_eq in L32. injection H as <-.
      apply (SEG 4); [split; auto|reflexivity|reflexivity].
  - destruct a as [|c a']; [discriminate|].
    assert (B58 : forall t, (t = 0 \/ t = 1) ->
              (h <- decode_base58 hash256 (c :: a') ;;
               if (length h =? 20)%nat then Ok (b58_script t h) else Err) = Ok cs ->
              to_address_concl (c :: a') cs).
    { intros t Ht HH.
      destruct (decode_base58 hash256 (c :: a')) as [h|] eqn:ED; [|discriminate]. cbn [bind] in HH.
      destruct (length h =? 20)%nat eqn:L20; [|discriminate]. apply Nat.eqb_eq in L20.
      injection HH as <-.
      destruct (decode_base58_inv _ h ED L20) as [HB [ver [ER EN]]].
      exists t, h. split; [split; [exact HB|left; split; [tauto|exact L20]]|].
      assert (T2 : t < 2) by lia.
      split; [unfold std_script; destruct (t <? 2) eqn:E; [reflexivity|lia]|].
      right. split; [exact T2|]. exists ver. split; [exact ER|].
      intros net ->. unfold std_address. destruct (t <? 2) eqn:E; [|lia].
      unfold b58_address, p2pkh_address, p2sh_address, b58_version in *.
      destruct Ht as [-> | ->]; exact EN. }
    destruct ((c =? 51) || (c =? 50)) eqn:C1.
    + apply (B58 1); [auto|exact H].
    + destruct ((c =? 49) || (c =? 109) || (c =? 110)) eqn:C2; [|discriminate].
      apply (B58 0); [auto|exact H].
Qed.

(* ---------- the same for address_to_script_pubkey ---------- *)

(* the character tested by the parsers ('q' / 'p' after the separator) is the version symbol *)
Lemma version_char a net v h c : decode_bech32 a = Ok (net, v, h) ->
  beq (firstn 4 a) [98; 99; 49; c] || beq (firstn 4 a) [116; 98; 49; c] ||
  beq (firstn 6 a) [98; 99; 114; 116; 49; c] = true ->
  b32c v = c /\ sym5 v.
Proof.
  intros D T.
  destruct (segwit_decode_encode a net v h D) as [hrp [sep [body [chk [-> [_ [HK [HS [FA _]]]]]]]]].
  inversion FA as [|? ? Hv _]; subst. split; [|exact Hv].
  apply orb_true_iff in T as [T|T]; [apply orb_true_iff in T as [T|T]|]; apply beq_eq in T;
    destruct HK as [-> | [-> | ->]]; cbn [hrp_bc hrp_tb hrp_bcrt firstn app map] in T;
    try discriminate; injection T; intros; subst; try reflexivity;
    destruct HS as [HS|HS]; discriminate.
Qed.

Lemma seg_raw_serialize_gen t h : (t = 2 \/ t = 3 \/ t = 4) -> zlen h <= 75 ->
  raw_serialize (mk_script (seg_script t h)) = Ok (witness_program (seg_version t) h).
Proof.
  intros HT HL. unfold raw_serialize, mk_script. cbn [s_raw s_cmds].
  destruct HT as [-> | [-> | ->]].
  - exact (ser_two 0 h ltac:(lia) HL).
  - exact (ser_two 0 h ltac:(lia) HL).
  - exact (ser_two 81 h ltac:(lia) HL).
Qed.

Definition a2s_concl (a : list Z) (cs : list cmd) : Prop :=
  (exists t raw, (t = 0 \/ t = 1) /\ raw_decode_base58 hash256 a = Ok raw /\
      cs = b58_script t (skipn 1 raw) /\
      forall net, raw = b58_version t net :: skipn 1 raw -> std_address t (skipn 1 raw) net = Ok a) \/
  (exists t h net, (t = 2 \/ t = 3 \/ t = 4) /\ decode_bech32 a = Ok (net, seg_version t, h) /\
      cs = seg_script t h /\ (canonical_text a -> std_address t h net = Ok a)).

(* address_to_script_pubkey: whatever it accepts is tied to one of the two decoders, the returned
   commands have one of the five shapes (the hash length is NOT checked, see the _refuted
   statements), and canonical segwit texts / Base58Check texts with the right version byte are
   the address of the returned scriptPubKey *)
Theorem address_to_script_pubkey_converse a cs :
  address_to_script_pubkey hash256 a = Ok cs -> a2s_concl a cs.
Proof.
  unfold address_to_script_pubkey. intros H.
  assert (B58 : forall t, (t = 0 \/ t = 1) ->
            (h <- decode_base58 hash256 a ;; Ok (b58_script t h)) = Ok cs -> a2s_concl a cs).
  { intros t Ht HH. unfold decode_base58 in HH.
    destruct (raw_decode_base58 hash256 a) as [raw|] eqn:ER; [|discriminate]. cbn [bind] in HH.
    injection HH as <-. left. exists t, raw. split; [exact Ht|]. split; [exact ER|].
    split; [reflexivity|]. intros net ERAW.
    destruct (raw_decode_base58_encode hash256 a raw ER hash_len) as [_ EN].
    rewrite ERAW in EN. unfold std_address.
    assert (T2 : (t <? 2) = true) by (apply Z.ltb_lt; lia). rewrite T2.
    unfold b58_address, p2pkh_address, p2sh_address, b58_version in *.
    destruct Ht as [-> | ->]; exact EN. }
  assert (SEG : forall t c, (t = 2 \/ t = 3 \/ t = 4) -> c = (if t =? 4 then 112 else 113) ->
            beq (firstn 4 a) [98; 99; 49; c] || beq (firstn 4 a) [116; 98; 49; c] ||
            beq (firstn 6 a) [98; 99; 114; 116; 49; c] = true ->
            ('(_, _, h) <- decode_bech32 a ;; Ok (seg_script t h)) = Ok cs -> a2s_concl a cs).
  { intros t c Ht Hc TX HH.
    destruct (decode_bech32 a) as [[[net v] h]|] eqn:ED; [|discriminate].
    cbn [bind] in HH. cbv beta iota in HH. injection HH as <-.
    destruct (version_char a net v h c ED TX) as [VC Hv].
    assert (EV : v = seg_version t).
    { apply b32c_inj; [exact Hv| |].
      - unfold seg_version, sym5. destruct (t =? 4); lia.
      - rewrite VC, Hc. unfold seg_version. destruct (t =? 4); reflexivity. }
    subst v. right. exists t, h, net. split; [exact Ht|]. split; [exact ED|]. split; [reflexivity|].
    intros CT. unfold std_address.
    assert (T2 : (t <? 2) = false) by (apply Z.ltb_ge; lia). rewrite T2.
    destruct (decode_bech32_wf a net _ h ED) as [_ [_ [_ HL]]].
    unfold segwit_address. rewrite (seg_raw_serialize_gen t h Ht) by (unfold zlen; lia). cbn [bind].
    exact (segwit_decode_encode_canonical a net (seg_version t) h ED CT). }
  destruct (beq (firstn 1 a) [49] || beq (firstn 1 a) [109] || beq (firstn 1 a) [110]).
  { apply (B58 0); [auto|exact H]. }
  destruct (beq (firstn 1 a) [50] || beq (firstn 1 a) [51]).
  { apply (B58 1); [auto|exact H]. }
  destruct (beq (firstn 4 a) txt_bc1q || beq (firstn 4 a) txt_tb1q || beq (firstn 6 a) txt_bcrt1q) eqn:TQ.
  { destruct (len_in a 42 44).
    - apply (SEG 2 113); auto.
    - destruct (len_in a 62 64); [|discriminate]. apply (SEG 3 113); auto. }
  destruct (beq (firstn 4 a) txt_bc1p || beq (firstn 4 a) txt_tb1p || beq (firstn 6 a) txt_bcrt1p) eqn:TP;
    [|discriminate].
  destruct (negb (len_in a 62 64)); [discriminate|]. apply (SEG 4 112); auto.
Qed.

(* ---------- witnesses: the parsers accept more than the encoders produce ---------- *)

(* BIP173's invalid "non-zero padding" vector: both parsers return the same P2WSH script as for
   the valid address, so the map address -> script is not injective on accepted texts *)
Theorem address_parsers_padding_refuted :
  wA1 <> wA2 /\
  address_to_script_pubkey hash256 wA1 = Ok (p2wsh_script wA_prog) /\
  address_to_script_pubkey hash256 wA2 = Ok (p2wsh_script wA_prog) /\
  to_address_spk hash256 wA1 = Ok (p2wsh_script wA_prog) /\
  to_address_spk hash256 wA2 = Ok (p2wsh_script wA_prog) /\
  p2wsh_address wA_prog 1 = Ok wA1.
Proof. repeat split; try (vm_compute; reflexivity). discriminate. Qed.

(* a 43-character text with 5 padding bits: TxOut.to_address returns the P2WPKH script of the
   42-character address (address_to_script_pubkey rejects it by its length test) *)
Theorem to_address_long_padding_refuted :
  wB1 <> wB2 /\
  to_address_spk hash256 wB1 = Ok (p2wpkh_script wB_prog) /\
  to_address_spk hash256 wB2 = Ok (p2wpkh_script wB_prog) /\
  address_to_script_pubkey hash256 wB2 = Err /\
  p2wpkh_address wB_prog 0 = Ok wB1.
Proof. repeat split; try (vm_compute; reflexivity). discriminate. Qed.

(* address_to_script_pubkey tests the length of the TEXT (42/44, 62/64), not of the program:
   a 44-character "bc1q" text gives a version-0 scriptPubKey with a 21-byte program, which is
   none of the standard templates (TxOut.to_address rejects it) *)
Theorem address_to_script_pubkey_length_refuted :
  address_to_script_pubkey hash256 wD = Ok (p2wpkh_script wD_prog) /\ length wD_prog = 21%nat /\
  to_address_spk hash256 wD = Err.
Proof. repeat split; vm_compute; reflexivity. Qed.

(* Base58: the version byte is never compared.  For every 20-byte hash the Base58Check text of
   0x70 :: h starts with 'n', both parsers return the P2PKH script of h, and the text is the
   address of no template on any network *)
Theorem base58_version_ignored_refuted h :
  bytes_ok h -> length h = 20%nat ->
  exists a, encode_base58_checksum hash256 (112 :: h) = Ok a /\
            address_to_script_pubkey hash256 a = Ok (p2pkh_script h) /\
            to_address_spk hash256 a = Ok (p2pkh_script h) /\
            forall t h' net, (t = 0 \/ t = 1) -> bytes_ok h' -> b58_address hash256 t h' net <> Ok a.
Proof.
  intros HB HL.
  assert (HBr : bytes_ok (112 :: h)) by (constructor; [unfold byte_ok; lia|exact HB]).
  destruct (base58check_roundtrip hash256 hash_len hash_ok _ HBr) as [a [EA [_ DEC]]].
  exists a. split; [exact EA|].
  assert (DB : decode_base58 hash256 a = Ok h) by (unfold decode_base58; rewrite DEC; reflexivity).
  assert (K33 : 58 ^ Z.of_nat 33 = 58 ^ 33) by reflexivity.
  assert (K34 : 58 ^ Z.of_nat 34 = 58 ^ 34) by reflexivity.
  destruct (b58_first_char hash256 hash_len hash_ok 112 h a ltac:(lia) HB HL EA)
    as [dg [r [-> [Hd HK]]]].
  destruct (HK 33%nat) as [B1 B2]; [rewrite K33; unfold P24; lia|rewrite K34; unfold P24; lia|].
  rewrite K33 in B1, B2. unfold P24 in B1, B2.
  assert (dg = 45) as -> by lia. change (b58_char 45) with 110 in *.
  split; [|split].
  - unfold address_to_script_pubkey.
    cbn -[decode_base58 decode_bech32 length Nat.eqb]. rewrite DB. reflexivity.
  - unfold to_address_spk.
    cbn -[decode_base58 decode_bech32 length Nat.eqb]. rewrite DB.
    cbn -[decode_base58 decode_bech32 length Nat.eqb]. rewrite HL. reflexivity.
  - intros t h' net Ht HB' E.
    assert (HB2 : bytes_ok (b58_version t net :: h')).
    { constructor; [|exact HB']. unfold b58_version, byte_ok. destruct (t =? 0), (net =? 0); lia. }
    assert (E' : encode_base58_checksum hash256 (b58_version t net :: h') = Ok (110 :: map b58_char r)).
    { unfold b58_address, p2pkh_address, p2sh_address, b58_version in *.
      destruct Ht as [-> | ->]; exact E. }
    pose proof (encode_base58_checksum_inj hash256 hash_len hash_ok _ _ _ HBr HB2 EA E') as EQ.
    injection EQ as EV _. unfold b58_version in EV. destruct (t =? 0), (net =? 0); lia.
Qed.

(* ---------- the other entry points ---------- *)

Section OtherEntryPoints.
Variable hash160 : bytes -> bytes.
Variable sha256 : bytes -> bytes.
Hypothesis h160_len : forall x, length (hash160 x) = 20%nat.
Hypothesis h160_ok : forall x, bytes_ok (hash160 x).
Hypothesis sha_len : forall x, length (sha256 x) = 32%nat.
Hypothesis sha_ok : forall x, bytes_ok (sha256 x).

(* RedeemScript.address (and SegwitPubKey.p2sh_address, which is the same call on the
   scriptPubKey's own commands): the P2SH address of hash160(serialisation), read back by both
   parsers as that P2SH scriptPubKey *)
Theorem redeem_script_address_roundtrip cs raw net :
  raw_serialize (mk_script cs) = Ok raw ->
  exists a, redeem_script_address hash256 hash160 cs net = Ok a /\
            segwit_p2sh_address hash256 hash160 cs net = Ok a /\
            address_to_script_pubkey hash256 a = Ok (p2sh_script (hash160 raw)) /\
            to_address_spk hash256 a = Ok (p2sh_script (hash160 raw)).
Proof.
  intros ER.
  destruct (base58_address_roundtrip hash256 hash_len hash_ok 1 (hash160 raw) net
              (or_intror eq_refl) (h160_ok raw) (h160_len raw)) as [a [A [B C]]].
  change (1 =? 0) with false in A. cbv iota in A.
  exists a. unfold segwit_p2sh_address, redeem_script_address. rewrite ER. cbn [bind]. auto.
Qed.

(* WitnessScript.address: the P2WSH address of sha256(serialisation) *)
Theorem witness_script_address_roundtrip cs raw net :
  raw_serialize (mk_script cs) = Ok raw -> 0 <= net <= 3 ->
  exists a, witness_script_address sha256 cs net = Ok a /\
            decode_bech32 a = Ok (net_back net, 0, sha256 raw) /\
            address_to_script_pubkey hash256 a = Ok (p2wsh_script (sha256 raw)) /\
            to_address_spk hash256 a = Ok (p2wsh_script (sha256 raw)).
Proof.
  intros ER Hnet.
  assert (ST : seg_template 3 (sha256 raw)) by (split; [apply sha_ok|right; split; [auto|apply sha_len]]).
  destruct (segwit_address_roundtrip hash256 3 (sha256 raw) net ST Hnet) as [a [A [B [C D]]]].
  exists a. unfold witness_script_address. rewrite ER. cbn [bind]. auto.
Qed.

(* WitnessScript.p2sh_address: P2SH of the P2WSH scriptPubKey 00 20 sha256(serialisation) *)
Theorem witness_script_p2sh_address_roundtrip cs raw net :
  raw_serialize (mk_script cs) = Ok raw ->
  exists a, witness_script_p2sh_address hash256 hash160 sha256 cs net = Ok a /\
            address_to_script_pubkey hash256 a =
              Ok (p2sh_script (hash160 (0 :: 32 :: sha256 raw))) /\
            to_address_spk hash256 a = Ok (p2sh_script (hash160 (0 :: 32 :: sha256 raw))).
Proof.
  intros ER.
  assert (ST : seg_template 3 (sha256 raw)) by (split; [apply sha_ok|right; split; [auto|apply sha_len]]).
  pose proof (seg_raw_serialize 3 (sha256 raw) ST) as RS.
  change (seg_script 3 (sha256 raw)) with (p2wsh_script (sha256 raw)) in RS.
  unfold witness_program, wit_version_byte, seg_version in RS. cbn [Z.eqb] in RS.
  assert (ZL : zlen (sha256 raw) = 32) by (unfold zlen; now rewrite sha_len). rewrite ZL in RS.
  destruct (redeem_script_address_roundtrip (p2wsh_script (sha256 raw)) _ net RS) as [a [A [_ [B C]]]].
  exists a. unfold witness_script_p2sh_address. rewrite ER. cbn [bind]. auto.
Qed.

End OtherEntryPoints.

(* ---------- byte level: ScriptPubKey.parse(bytes).address / address -> serialize() ---------- *)

Lemma std_script_strict t h : std_template t h -> cmds_strictb (std_script t h) = true.
Proof.
  intros [_ HT]. unfold std_script, b58_script, seg_script, p2pkh_script, p2sh_script,
    p2wpkh_script, p2wsh_script, p2tr_script, cmds_strictb, cmd_strictb, zlen.
  destruct HT as [[[-> | [-> | ->]] L] | [[-> | ->] L]]; cbn; rewrite L; reflexivity.
Qed.

Lemma std_spk_address t h net : std_template t h ->
  spk_address hash256 (std_script t h) net = std_address t h net.
Proof.
  intros [_ HT]. unfold std_script, std_address, spk_address, b58_script, b58_address, seg_script,
    p2pkh_script, p2sh_script, p2wpkh_script, p2wsh_script, p2tr_script.
  destruct HT as [[[-> | [-> | ->]] L] | [[-> | ->] L]]; cbn -[segwit_address p2pkh_address p2sh_address];
    rewrite L; reflexivity.
Qed.

(* serialised standard scriptPubKey -> typed object -> address -> scriptPubKey -> the same bytes *)
Theorem spk_bytes_roundtrip t h net :
  std_template t h -> 0 <= net <= 3 ->
  exists b a, serialize_script (mk_script (std_script t h)) = Ok b /\
              spk_bytes_address hash256 b net = Ok a /\
              std_address t h net = Ok a /\
              address_to_spk_bytes hash256 a = Ok b.
Proof.
  intros HT Hnet.
  pose proof (std_script_strict t h HT) as SS.
  destruct (script_roundtrip_strict _ SS) as [raw [ER _]].
  assert (LR : zlen raw < 9223372036854775808).
  { assert (zlen raw <= 40).
    { destruct HT as [_ HT]. unfold std_script, b58_script, seg_script, p2pkh_script, p2sh_script,
        p2wpkh_script, p2wsh_script, p2tr_script in ER.
      destruct HT as [[[-> | [-> | ->]] L] | [[-> | ->] L]]; cbn in ER;
        unfold zlen in ER; rewrite L in ER; cbn in ER; injection ER as <-; unfold zlen; cbn [length];
        rewrite ?app_length, L; cbn; lia. }
    lia. }
  destruct (script_stream_roundtrip _ (cmds_strict_wf _ SS) raw ER LR) as [b [EB [_ PB]]].
  specialize (PB []). rewrite app_nil_r, (canon_cmds_strict _ SS) in PB.
  destruct (std_address_roundtrip t h net HT Hnet) as [a [EA [A2S _]]].
  exists b, a. split; [exact EB|]. split; [|split; [exact EA|]].
  - unfold spk_bytes_address, parse_script_pubkey. rewrite PB. cbn [bind]. cbv beta iota.
    cbn [s_cmds mk_script].
    assert (REC : is_p2pkh (std_script t h) || is_p2sh (std_script t h) || is_p2wpkh (std_script t h)
                  || is_p2wsh (std_script t h) || is_p2tr (std_script t h) = true).
    { destruct HT as [_ HT]. unfold std_script, b58_script, seg_script, p2pkh_script, p2sh_script,
        p2wpkh_script, p2wsh_script, p2tr_script.
      destruct HT as [[[-> | [-> | ->]] L] | [[-> | ->] L]]; cbn; rewrite L; reflexivity. }
    rewrite REC. cbn [bind s_cmds mk_script]. cbv beta iota.
    rewrite (std_spk_address t h net HT). exact EA.
  - unfold address_to_spk_bytes. rewrite A2S. cbn [bind]. exact EB.
Qed.

End WithHash.
