(* Proofs/TaprootTamper.v — altering one hashed component of (control block, leaf script)
   changes the input of a TapLeaf / TapBranch / TapTweak tagged hash; hence the same output
   key implies a sha256 collision or two different tweak hashes that lead to the same key.
   sha256 is any function with 32-byte output; no curve hypothesis is used. *)
From V Require Import Base.Prelude Base.Ints Model.Helper Model.Script Model.Pecc Model.Taproot
  Proofs.TaprootP.

Definition one_differs {A} (l l' : list A) : Prop :=
  exists a x y b, l = a ++ x :: b /\ l' = a ++ y :: b /\ x <> y.

Definition one_byte_differs (r r' : bytes) : Prop := one_differs r r'.

(* exactly one of: TapLeaf preimage, one path hash, x-only internal key was altered *)
Definition single_change (a b : bytes * list bytes * bytes) : Prop :=
  let '(pre, hs, xk) := a in
  let '(pre', hs', xk') := b in
  (pre <> pre' /\ hs = hs' /\ xk = xk') \/
  (pre = pre' /\ one_differs hs hs' /\ xk = xk') \/
  (pre = pre' /\ hs = hs' /\ xk <> xk').

Lemma app_inj_len {A} (a a' b b' : list A) :
  length a = length a' -> a ++ b = a' ++ b' -> a = a' /\ b = b'.
Proof.
  revert a'; induction a as [|x a IH]; intros [|y a'] Hl H; cbn in *; try discriminate.
  - split; [reflexivity | exact H].
  - inversion H; subst. destruct (IH a' ltac:(lia) H2) as [-> ->]. split; reflexivity.
Qed.

Section Tamper.
Variable C : curve.
Variable sha256 : bytes -> bytes.
Hypothesis sha_len : forall x, length (sha256 x) = 32%nat.

Definition collision : Prop := exists x y, x <> y /\ sha256 x = sha256 y.

Notation branch_hash := (branch_hash sha256).
Notation fold_path := (fold_path sha256).

Lemma tagged_len tag m : length (tagged_hash sha256 tag m) = 32%nat.
Proof. unfold tagged_hash. apply sha_len. Qed.

Lemma tagged_inj tag m m' :
  m <> m' -> tagged_hash sha256 tag m <> tagged_hash sha256 tag m' \/ collision.
Proof.
  intros N. unfold tagged_hash.
  destruct (list_eq_dec Z.eq_dec (sha256 (sha256 tag ++ sha256 tag ++ m))
                                 (sha256 (sha256 tag ++ sha256 tag ++ m'))) as [E|E]; [|left; exact E].
  right. eexists _, _. split; [|exact E].
  intros E'. apply app_inv_head in E'. apply app_inv_head in E'. contradiction.
Qed.

Lemma branch_preimage_inj_l c c' h :
  length c = 32%nat -> length c' = 32%nat -> length h = 32%nat ->
  c <> c' -> branch_preimage c h <> branch_preimage c' h.
Proof.
  intros L1 L2 L3 N E. unfold branch_preimage in E.
  destruct (blt c h), (blt c' h).
  - apply app_inv_tail in E. contradiction.
  - apply app_inj_len in E as [E1 E2]; [|lia]. congruence.
  - apply app_inj_len in E as [E1 E2]; [|lia]. congruence.
  - apply app_inv_head in E. contradiction.
Qed.

Lemma branch_preimage_inj_r c h h' :
  length c = 32%nat -> length h = 32%nat -> length h' = 32%nat ->
  h <> h' -> branch_preimage c h <> branch_preimage c h'.
Proof.
  intros L1 L2 L3 N. rewrite (branch_preimage_sym c h), (branch_preimage_sym c h').
  now apply branch_preimage_inj_l.
Qed.

Lemma branch_hash_len a b : length (branch_hash a b) = 32%nat.
Proof. apply tagged_len. Qed.

Lemma fold_len c hs : length c = 32%nat -> length (fold_path c hs) = 32%nat.
Proof. revert c; induction hs as [|h hs IH]; intros c L; cbn; [exact L | apply IH, branch_hash_len]. Qed.

(* a different start value propagates through the same path *)
Lemma fold_diff_start hs : forall c c',
  length c = 32%nat -> length c' = 32%nat -> Forall len32 hs -> c <> c' ->
  fold_path c hs <> fold_path c' hs \/ collision.
Proof.
  induction hs as [|h hs IH]; intros c c' L1 L2 F N; cbn; [left; exact N|].
  inversion F as [|? ? Hh F']; subst.
  destruct (tagged_inj tag_tapbranch _ _ (branch_preimage_inj_l c c' h L1 L2 Hh N)) as [D|Col];
    [|right; exact Col].
  apply IH; auto; apply branch_hash_len.
Qed.

(* one altered path hash propagates *)
Lemma fold_diff_hash c hs hs' :
  length c = 32%nat -> Forall len32 hs -> Forall len32 hs' -> one_differs hs hs' ->
  fold_path c hs <> fold_path c hs' \/ collision.
Proof.
  intros L F F' (a & h & h' & b & -> & -> & N).
  rewrite !(fold_path_app sha256). cbn.
  apply Forall_app in F as [Fa Fb]. apply Forall_app in F' as [_ Fb'].
  inversion Fb as [|? ? Hh Fb1]; subst. inversion Fb' as [|? ? Hh' _]; subst.
  pose proof (fold_len c a L) as L1.
  destruct (tagged_inj tag_tapbranch _ _ (branch_preimage_inj_r (fold_path c a) h h' L1 Hh Hh' N)) as [D|Col];
    [|right; exact Col].
  apply fold_diff_start; auto; apply branch_hash_len.
Qed.

Theorem tamper_changes_preimage cb cb' sc sc' pre pre' Q :
  leaf_preimage (cb_version cb) sc = Ok pre -> leaf_preimage (cb_version cb') sc' = Ok pre' ->
  Forall len32 (cb_hashes cb) -> Forall len32 (cb_hashes cb') ->
  single_change (pre, cb_hashes cb, xonly (cb_key cb)) (pre', cb_hashes cb', xonly (cb_key cb')) ->
  cb_external_pubkey C sha256 cb sc = Ok Q -> cb_external_pubkey C sha256 cb' sc' = Ok Q ->
  collision \/
  exists root root',
    cb_merkle_root sha256 cb sc = Ok root /\ cb_merkle_root sha256 cb' sc' = Ok root' /\
    tweak sha256 (cb_key cb) root <> tweak sha256 (cb_key cb') root' /\
    tweaked_key C sha256 (cb_key cb) root = Ok Q /\ tweaked_key C sha256 (cb_key cb') root' = Ok Q.
Proof.
  intros Hp Hp' F F' SC HQ HQ'.
  unfold cb_external_pubkey, cb_merkle_root, tap_leaf_hash in *.
  rewrite Hp in *. rewrite Hp' in *. cbn [bind] in *.
  set (lh := hash_tapleaf sha256 pre) in *. set (lh' := hash_tapleaf sha256 pre') in *.
  set (root := fold_path lh (cb_hashes cb)) in *. set (root' := fold_path lh' (cb_hashes cb')) in *.
  assert (Llh : length lh = 32%nat) by apply tagged_len.
  assert (Llh' : length lh' = 32%nat) by apply tagged_len.
  (* the tweak preimages differ, or there is a collision *)
  assert (K : collision \/ xonly (cb_key cb) ++ root <> xonly (cb_key cb') ++ root').
  { cbn in SC. destruct SC as [(N & Eh & Ek) | [(Ep & OD & Ek) | (Ep & Eh & Nk)]].
    - destruct (tagged_inj tag_tapleaf pre pre' N) as [D|Col]; [|left; exact Col].
      fold (hash_tapleaf sha256 pre) in D. fold (hash_tapleaf sha256 pre') in D. fold lh lh' in D.
      unfold root, root'. rewrite <- Eh.
      destruct (fold_diff_start (cb_hashes cb) lh lh' Llh Llh' F D) as [D'|Col]; [|left; exact Col].
      right. rewrite Ek. intros E. apply app_inv_head in E. contradiction.
    - assert (lh = lh') by (unfold lh, lh'; now rewrite Ep).
      unfold root, root'. rewrite <- H.
      destruct (fold_diff_hash lh _ _ Llh F F' OD) as [D'|Col]; [|left; exact Col].
      right. rewrite Ek. intros E. apply app_inv_head in E. contradiction.
    - assert (root = root') by (unfold root, root', lh, lh'; now rewrite Ep, Eh).
      right. rewrite <- H. intros E. apply app_inv_tail in E. contradiction. }
  destruct K as [Col | K]; [left; exact Col|].
  destruct (tagged_inj tag_taptweak _ _ K) as [D|Col]; [|left; exact Col].
  right. exists root, root'. repeat split; auto.
Qed.

End Tamper.
