(* Proofs/CFilterKnownP.v — concrete witness of the known defect of CompactFilter.serialize():
   the decoded values are kept in a set, so equal values are re-encoded once (explicit witnesses,
   every vm_compute is on a closed term). *)
From V Require Import Base.Prelude Base.Ints Model.Helper Model.Gcs Model.Siphash Model.CFilter.

Definition k16 : bytes := [0;1;2;3;4;5;6;7;8;9;10;11;12;13;14;15].

Lemma w_encode : encode_gcs siphash k16 [[81]; [81]] = Ok [2;72;15;128;0;0].
Proof. vm_compute. reflexivity. Qed.
Lemma w_parse : cf_parse k16 [2;72;15;128;0;0] = Ok (cf_new k16 [295160; 295160]).
Proof. vm_compute. reflexivity. Qed.
Lemma w_serialize : cf_serialize (cf_new k16 [295160; 295160]) = Ok [1;72;15;128].
Proof. vm_compute. reflexivity. Qed.
Lemma w_parse2 : cf_parse k16 [1;72;15;128] = Ok (cf_new k16 [295160]).
Proof. vm_compute. reflexivity. Qed.
Lemma w_query : cf_contains siphash (cf_new k16 [295160]) [81] = Ok false.
Proof. vm_compute. reflexivity. Qed.

Lemma cf_serialize_refuted :
  exists key items fb cf,
    encode_gcs siphash key items = Ok fb /\ cf_parse key fb = Ok cf /\
    cf_serialize cf <> Ok fb /\
    exists fb' cf', cf_serialize cf = Ok fb' /\ cf_parse key fb' = Ok cf' /\
                    In [81] items /\ cf_contains siphash cf' [81] = Ok false.
Proof.
  exists k16, [[81]; [81]], [2;72;15;128;0;0], (cf_new k16 [295160; 295160]).
  split; [exact w_encode|]. split; [exact w_parse|]. split.
  - rewrite w_serialize. intros H. discriminate H.
  - exists [1;72;15;128], (cf_new k16 [295160]).
    split; [exact w_serialize|]. split; [exact w_parse2|]. split; [now left | exact w_query].
Qed.
